/-
C04 helper lemmas, part 4: the methods of `Slice` keep `Values` heap-ordered, keep the
multiset, return minimal elements, ignore out-of-range indices and never panic.
-/
import Golib.Proof.C04Slice

set_option linter.unusedSimpArgs false
set_option linter.unusedVariables false

namespace Golib.C04

theorem mem_nthN {s : List Int} {y : Int} (h : y ∈ s) : ∃ k, k < s.length ∧ nthN s k = y := by
  obtain ⟨k, hk, e⟩ := List.mem_iff_getElem.1 h
  exact ⟨k, hk, by simp [nthN, List.getElem?_eq_getElem hk, e]⟩

theorem heap_take {cmp} {s : List Int} {n : Nat} (hn : n ≤ s.length) (h : HeapOn cmp (nthN s) 0 n) :
    Heap cmp (s.take n) := by
  intro c hc hc1 _
  have hlen : (s.take n).length = n := by simp [Nat.min_def]; omega
  rw [hlen] at hc
  have : par c < n := by unfold par; omega
  rw [nthN_take s n c hc, nthN_take s n (par c) this]
  exact h c hc hc1 (Nat.zero_le _)

theorem slice_fromSlice {cmp} (hs : SWO cmp) (s : List Int) :
    ∃ s', Slice.fromSlice cmp s = some s' ∧ Heap cmp s' ∧ s'.Perm s := by
  obtain ⟨s', h1, _, h3, h4⟩ := build_spec hs s
  exact ⟨s', h1, h4, h3⟩

theorem slice_push {cmp} (hs : SWO cmp) (s : List Int) (x : Int) (h : Heap cmp s) :
    ∃ s', Slice.push cmp s x = some s' ∧ Heap cmp s' ∧ s'.Perm (x :: s) := by
  have hlen : (s ++ [x]).length = s.length + 1 := by simp
  have e : (((s ++ [x]).length : Nat) : Int) - 1 = ((s.length : Nat) : Int) := by rw [hlen]; omega
  have hpre : UpPre cmp (nthN (s ++ [x])) s.length (s.length + 1) := by
    refine ⟨?_, ?_⟩
    · intro c hc hc1 hcj
      have hc' : c < s.length := by omega
      have : par c < s.length := by unfold par; omega
      rw [nthN_append_left s x c hc', nthN_append_left s x (par c) this]
      exact h c hc' hc1 (Nat.zero_le _)
    · intro _ c hc hc1 hpc; unfold par at hpc; omega
  obtain ⟨s', hrun, hlen', hperm, _, hheap⟩ :=
    up_spec hs (s.length + 1) (s ++ [x]) s.length (s.length + 1) (by simp) (by omega) (by omega) hpre
  refine ⟨s', ?_, ?_, ?_⟩
  · simp only [Slice.push, upF, e, fuelOf_cast]; exact hrun
  · have : s'.length = s.length + 1 := by rw [hlen', hlen]
    simpa [Heap, this] using hheap
  · exact hperm.trans (List.perm_append_comm (l₁ := s) (l₂ := [x]))

/-- The run of `Pop` on a heap with `m + 2` elements, call by call: `swap(0, n)`, `down(0, n)`;
the result `s2` keeps the length, holds the old root at position `n = m + 1`, its first `n`
positions are a heap and, with the root, a permutation of `s`. -/
theorem slice_pop_run {cmp} (hs : SWO cmp) (s : List Int) (h : Heap cmp s) (m : Nat) (hm : s.length = m + 2) :
    ∃ s2 b, swapL s 0 ((m + 1 : Nat) : Int) = some (swapN s 0 (m + 1)) ∧
      downB (sliceOps cmp) (swapN s 0 (m + 1)) 0 ((m + 1 : Nat) : Int) = some (s2, b) ∧
      s2.length = m + 2 ∧ nthN s2 (m + 1) = nthN s 0 ∧ Heap cmp (s2.take (m + 1)) ∧
      (nthN s 0 :: s2.take (m + 1)).Perm s := by
  have hsw : swapL s 0 ((m + 1 : Nat) : Int) = some (swapN s 0 (m + 1)) := by
    have := swapL_cast s 0 (m + 1) (by omega) (by omega)
    simpa using this
  have hpre : DownPre cmp (nthN (swapN s 0 (m + 1))) 0 (m + 1) 0 true := by
    rw [nthN_swapN s 0 (m + 1) (by omega) (by omega)]
    refine ⟨?_, fun h1 => by omega⟩
    intro c hc hc1 _ hpc _
    have h1 : c ≠ m + 1 := by omega
    have h2 : c ≠ 0 := by omega
    have h3 : par c ≠ m + 1 := by unfold par; omega
    simp only [swapF, h1, h2, h3, hpc, if_false]
    exact h c (by omega) hc1 (Nat.zero_le _)
  obtain ⟨s2, i', hrun, hlen2, hperm2, htail, _, hpost⟩ :=
    downB_spec hs (swapN s 0 (m + 1)) 0 (m + 1) 0 true (by simp; omega) (Nat.le_refl _) (by omega) hpre
  simp only [true_or, if_true] at hpost
  have hlen2' : s2.length = m + 2 := by rw [hlen2]; simp [hm]
  have hx : nthN s2 (m + 1) = nthN s 0 := by
    rw [htail (m + 1) (Nat.le_refl _), nthN_swapN s 0 (m + 1) (by omega) (by omega)]
    simp [swapF]
  have hrun' : downB (sliceOps cmp) (swapN s 0 (m + 1)) 0 ((m + 1 : Nat) : Int) = some (s2, decide (0 < i')) := by
    simpa using hrun
  refine ⟨s2, _, hsw, hrun', hlen2', hx, heap_take (by omega) hpost, ?_⟩
  have h1 := eq_take_append_last s2 (m + 1) hlen2'
  rw [hx] at h1
  have : (nthN s 0 :: s2.take (m + 1)).Perm s2 := by
    have p : (nthN s 0 :: s2.take (m + 1)).Perm (s2.take (m + 1) ++ [nthN s 0]) :=
      List.perm_append_comm (l₁ := [nthN s 0]) (l₂ := s2.take (m + 1))
    exact p.trans (by rw [← h1])
  exact this.trans (hperm2.trans (swapN_perm s 0 (m + 1) (by omega) (by omega)))

/-- `Pop` on a heap with at least two elements. -/
theorem slice_pop_big {cmp} (hs : SWO cmp) (s : List Int) (h : Heap cmp s) (hlen : 2 ≤ s.length) :
    ∃ s', Slice.pop cmp s = some (s', nthN s 0, true) ∧ Heap cmp s' ∧ (nthN s 0 :: s').Perm s := by
  obtain ⟨m, hm⟩ : ∃ m, s.length = m + 2 := ⟨s.length - 2, by omega⟩
  have e0 : ((s.length : Nat) : Int) ≠ 0 := by omega
  have e1 : ((s.length : Nat) : Int) ≠ 1 := by omega
  have e2 : ((s.length : Nat) : Int) - 1 = ((m + 1 : Nat) : Int) := by omega
  obtain ⟨s2, b, hsw, hrun, hlen2, hx, hheap, hperm⟩ := slice_pop_run hs s h m hm
  refine ⟨s2.take (m + 1), ?_, hheap, hperm⟩
  simp only [Slice.pop, e0, e1, if_false, e2, hsw, hrun, nth_cast s2 (m + 1) (by omega), hx]
  rw [Int.toNat_natCast]


theorem heap_nil (cmp : Int → Int → Bool) : Heap cmp [] := by
  intro c hc; simp at hc

theorem slice_pop {cmp} (hs : SWO cmp) (s : List Int) (h : Heap cmp s) :
    (s = [] → Slice.pop cmp s = some ([], 0, false)) ∧
    (s ≠ [] → ∃ s' x, Slice.pop cmp s = some (s', x, true) ∧ Heap cmp s' ∧ (x :: s').Perm s ∧
      ∀ y ∈ s, cmp y x = false) := by
  refine ⟨fun h0 => by subst h0; simp [Slice.pop], fun hne => ?_⟩
  have hmin : ∀ y ∈ s, cmp y (nthN s 0) = false := by
    intro y hy
    obtain ⟨k, hk, rfl⟩ := mem_nthN hy
    exact heap_root_min hs h k hk
  match s, hne with
  | [a], _ =>
    refine ⟨[], a, by simp [Slice.pop, nth], heap_nil cmp, List.Perm.refl _, ?_⟩
    simpa [nthN] using hmin
  | a :: b :: t, _ =>
    obtain ⟨s', h1, h2, h3⟩ := slice_pop_big hs (a :: b :: t) h (by simp)
    exact ⟨s', _, h1, h2, h3, hmin⟩


theorem slice_peek {cmp} (hs : SWO cmp) (s : List Int) (h : Heap cmp s) :
    (s = [] → Slice.peek s = some (0, false)) ∧
    (s ≠ [] → ∃ x, Slice.peek s = some (x, true) ∧ x ∈ s ∧ ∀ y ∈ s, cmp y x = false) := by
  refine ⟨fun h0 => by subst h0; simp [Slice.peek], fun hne => ?_⟩
  match s, hne with
  | a :: t, _ =>
    refine ⟨a, by simp [Slice.peek, nth]; omega, by simp, ?_⟩
    intro y hy
    obtain ⟨k, hk, rfl⟩ := mem_nthN hy
    have := heap_root_min hs h k hk
    simpa [nthN] using this

/-- `Remove(i)` out of range: a no-op returning `(zero, false)`. -/
theorem slice_remove_out (cmp : Int → Int → Bool) (s : List Int) (i : Int)
    (hi : i < 0 ∨ (s.length : Int) ≤ i) : Slice.remove cmp s i = some (s, 0, false) := by
  have : (i < 0 ∨ i ≥ (s.length : Int)) := by omega
  simp [Slice.remove, this]

/-- `Remove(i)` below the last position from the bare order facts: the array need NOT be a heap at
`i` (the value at `i` may have been changed without `Fix`); all pairs not involving `i` are in order
and the children of `i` do not precede `i`'s parent. -/
theorem slice_remove_run_core {cmp} (hs : SWO cmp) (s : List Int) (i n : Nat)
    (hn : s.length = n + 1) (hin : i < n)
    (hpair : ∀ c, c < n → 1 ≤ c → c ≠ i → par c ≠ i → cmp (nthN s c) (nthN s (par c)) = false)
    (hgrand : 1 ≤ i → ∀ c, c < n → 1 ≤ c → par c = i → cmp (nthN s c) (nthN s (par i)) = false) :
    ∃ s2, swapL s (i : Int) (n : Int) = some (swapN s i n) ∧
      fix (sliceOps cmp) (swapN s i n) (i : Int) (n : Int) = some s2 ∧
      s2.length = n + 1 ∧ nthN s2 n = nthN s i ∧ Heap cmp (s2.take n) ∧
      (nthN s i :: s2.take n).Perm s := by
  have hi : i < s.length := by omega
  have hsw := swapL_cast s i n hi (by omega)
  have hsame : ∀ k, k < n → k ≠ i → nthN (swapN s i n) k = nthN s k := by
    intro k hk hki
    rw [nthN_swapN s i n hi (by omega)]
    have : k ≠ n := by omega
    simp [swapF, *]
  obtain ⟨s2, hrun, hlen2, hperm2, htail, hheap⟩ :=
    fix_spec_core hs (swapN s i n) i n (by simp; omega) hin
      (by
        intro c hc hc1 hci hpi
        have : par c < n := by unfold par; omega
        rw [hsame c hc hci, hsame (par c) this hpi]; exact hpair c hc hc1 hci hpi)
      (by
        intro hi1 c hc hc1 hpc
        have hci : c ≠ i := by unfold par at hpc; omega
        have hpi : par i ≠ i := by unfold par; omega
        have : par i < n := by unfold par; omega
        rw [hsame c hc hci, hsame (par i) this hpi]; exact hgrand hi1 c hc hc1 hpc)
  have hlen2' : s2.length = n + 1 := by rw [hlen2]; simp [hn]
  have hx : nthN s2 n = nthN s i := by
    rw [htail n (Nat.le_refl _), nthN_swapN s i n hi (by omega)]
    simp [swapF]
  refine ⟨s2, hsw, hrun, hlen2', hx, heap_take (by omega) hheap, ?_⟩
  have h1 := eq_take_append_last s2 n hlen2'
  rw [hx] at h1
  have p : (nthN s i :: s2.take n).Perm (s2.take n ++ [nthN s i]) :=
    List.perm_append_comm (l₁ := [nthN s i]) (l₂ := s2.take n)
  exact (p.trans (by rw [← h1])).trans (hperm2.trans (swapN_perm s i n hi (by omega)))

/-- The run of `Remove(i)` for `i` below the last position `n`, call by call: `swap(i, n)`,
`fix(i, n)`; the result keeps the length, holds the victim at position `n`, its first `n`
positions are a heap and, with the victim, a permutation of `s`. -/
theorem slice_remove_run {cmp} (hs : SWO cmp) (s : List Int) (i n : Nat) (h : Heap cmp s)
    (hn : s.length = n + 1) (hin : i < n) :
    ∃ s2, swapL s (i : Int) (n : Int) = some (swapN s i n) ∧
      fix (sliceOps cmp) (swapN s i n) (i : Int) (n : Int) = some s2 ∧
      s2.length = n + 1 ∧ nthN s2 n = nthN s i ∧ Heap cmp (s2.take n) ∧
      (nthN s i :: s2.take n).Perm s := by
  have hi : i < s.length := by omega
  have hsw := swapL_cast s i n hi (by omega)
  have hsame : ∀ k, k < n → k ≠ i → nthN (swapN s i n) k = nthN s k := by
    intro k hk hki
    rw [nthN_swapN s i n hi (by omega)]
    have : k ≠ n := by omega
    simp [swapF, *]
  have h0 : HeapOn cmp (nthN s) 0 n := fun c hc hc1 hlo => h c (by omega) hc1 hlo
  obtain ⟨s2, hrun, hlen2, hperm2, htail, hheap⟩ :=
    fix_spec hs (swapN s i n) i n (nthN s) (by simp; omega) hin h0 hsame
  have hlen2' : s2.length = n + 1 := by rw [hlen2]; simp [hn]
  have hx : nthN s2 n = nthN s i := by
    rw [htail n (Nat.le_refl _), nthN_swapN s i n hi (by omega)]
    simp [swapF]
  refine ⟨s2, hsw, hrun, hlen2', hx, heap_take (by omega) hheap, ?_⟩
  have h1 := eq_take_append_last s2 n hlen2'
  rw [hx] at h1
  have p : (nthN s i :: s2.take n).Perm (s2.take n ++ [nthN s i]) :=
    List.perm_append_comm (l₁ := [nthN s i]) (l₂ := s2.take n)
  exact (p.trans (by rw [← h1])).trans (hperm2.trans (swapN_perm s i n hi (by omega)))

/-- `Remove(i)` in range: removes exactly the element at `i`, keeps the heap order. -/
theorem slice_remove_in {cmp} (hs : SWO cmp) (s : List Int) (i : Nat) (h : Heap cmp s) (hi : i < s.length) :
    ∃ s', Slice.remove cmp s (i : Int) = some (s', nthN s i, true) ∧ Heap cmp s' ∧
      (nthN s i :: s').Perm s := by
  obtain ⟨n, hn⟩ : ∃ n, s.length = n + 1 := ⟨s.length - 1, by omega⟩
  have hguard : ¬ ((i : Int) < 0 ∨ (i : Int) ≥ (s.length : Int)) := by omega
  have e1 : ((s.length : Nat) : Int) - 1 = ((n : Nat) : Int) := by omega
  by_cases hni : n = i
  · -- last element: nothing to fix
    subst hni
    have : ¬ (((n : Nat) : Int) ≠ ((n : Nat) : Int)) := by simp
    refine ⟨s.take n, ?_, heap_take (by omega) (fun c hc hc1 hlo => h c (by omega) hc1 hlo), ?_⟩
    · simp only [Slice.remove, hguard, if_false, e1, this, nth_cast s n (by omega), Int.toNat_natCast]
    · have h1 := eq_take_append_last s n hn
      have p : (nthN s n :: s.take n).Perm (s.take n ++ [nthN s n]) :=
        List.perm_append_comm (l₁ := [nthN s n]) (l₂ := s.take n)
      exact p.trans (by rw [← h1])
  · have hne : (((n : Nat) : Int) ≠ ((i : Nat) : Int)) := by omega
    have hin : i < n := by omega
    have hsw := swapL_cast s i n hi (by omega)
    -- the first `n` positions of the swapped slice: a heap except at `i`
    have hsame : ∀ k, k < n → k ≠ i → nthN (swapN s i n) k = nthN s k := by
      intro k hk hki
      rw [nthN_swapN s i n hi (by omega)]
      have : k ≠ n := by omega
      simp [swapF, *]
    have h0 : HeapOn cmp (nthN s) 0 n := fun c hc hc1 hlo => h c (by omega) hc1 hlo
    obtain ⟨s2, hrun, hlen2, hperm2, htail, hheap⟩ :=
      fix_spec hs (swapN s i n) i n (nthN s) (by simp; omega) hin h0 hsame
    have hlen2' : s2.length = n + 1 := by rw [hlen2]; simp [hn]
    have hx : nthN s2 n = nthN s i := by
      rw [htail n (Nat.le_refl _), nthN_swapN s i n hi (by omega)]
      simp [swapF]
    refine ⟨s2.take n, ?_, heap_take (by omega) hheap, ?_⟩
    · simp only [Slice.remove, hguard, if_false, e1, hne, if_true, hsw, hrun,
        nth_cast s2 n (by omega), hx, Int.toNat_natCast, ne_eq, not_false_eq_true]
    · have h1 := eq_take_append_last s2 n hlen2'
      rw [hx] at h1
      have p : (nthN s i :: s2.take n).Perm (s2.take n ++ [nthN s i]) :=
        List.perm_append_comm (l₁ := [nthN s i]) (l₂ := s2.take n)
      exact (p.trans (by rw [← h1])).trans (hperm2.trans (swapN_perm s i n hi (by omega)))

/-- `s.Values[k] = v; s.Remove(k)`: removing an element whose value was changed without `Fix`
removes exactly it and leaves a heap. -/
theorem slice_remove_after_set {cmp} (hs : SWO cmp) (s0 : List Int) (k : Nat) (v : Int)
    (h : Heap cmp s0) (hk : k < s0.length) :
    ∃ s', Slice.remove cmp (s0.set k v) (k : Int) = some (s', v, true) ∧ Heap cmp s' ∧
      (v :: s').Perm (s0.set k v) := by
  let s := s0.set k v
  have hlen : s.length = s0.length := by simp [s]
  obtain ⟨n, hn⟩ : ∃ n, s.length = n + 1 := ⟨s.length - 1, by omega⟩
  have hguard : ¬ ((k : Int) < 0 ∨ (k : Int) ≥ (s.length : Int)) := by omega
  have e1 : ((s.length : Nat) : Int) - 1 = ((n : Nat) : Int) := by omega
  have hvk : nthN s k = v := by simp [s, nthN, List.getElem?_set, hk]
  have hsame : ∀ c, c ≠ k → nthN s c = nthN s0 c := fun c hc => nthN_set s0 k v c hc
  show ∃ s', Slice.remove cmp s (k : Int) = some (s', v, true) ∧ Heap cmp s' ∧ (v :: s').Perm s
  by_cases hkn : n = k
  · subst hkn
    have : ¬ (((n : Nat) : Int) ≠ ((n : Nat) : Int)) := by simp
    refine ⟨s.take n, ?_, ?_, ?_⟩
    · simp only [Slice.remove, hguard, if_false, e1, this, nth_cast s n (by omega), Int.toNat_natCast, hvk]
    · refine heap_take (by omega) ?_
      intro c hc hc1 hlo
      have hp : par c < n := by unfold par; omega
      rw [hsame c (by omega), hsame (par c) (by omega)]
      exact h c (by omega) hc1 hlo
    · have h1 := eq_take_append_last s n hn
      rw [hvk] at h1
      have p : (v :: s.take n).Perm (s.take n ++ [v]) :=
        List.perm_append_comm (l₁ := [v]) (l₂ := s.take n)
      exact p.trans (by rw [← h1])
  · have hin : k < n := by omega
    obtain ⟨s2, hsw, hfix, hlen2, hx, hheap, hperm⟩ :=
      slice_remove_run_core hs s k n hn hin
        (by
          intro c hc hc1 hck hpk
          rw [hsame c hck, hsame (par c) hpk]
          exact h c (by omega) hc1 (Nat.zero_le _))
        (by
          intro hk1 c hc hc1 hpc
          have hck : c ≠ k := by unfold par at hpc; omega
          have hpk : par k ≠ k := by unfold par; omega
          rw [hsame c hck, hsame (par k) hpk]
          have h1 := h c (by omega) hc1 (Nat.zero_le _)
          rw [hpc] at h1
          exact hs.negTrans (h k hk hk1 (Nat.zero_le _)) h1)
    rw [hvk] at hx hperm
    refine ⟨s2.take n, ?_, hheap, hperm⟩
    have hne : (((n : Nat) : Int) ≠ ((k : Nat) : Int)) := by omega
    simp only [Slice.remove, hguard, if_false, e1, hne, if_true, hsw, hfix,
      nth_cast s2 n (by omega), hx, Int.toNat_natCast, ne_eq, not_false_eq_true]

/-- `Fix(i)` out of range: a no-op. -/
theorem slice_fix_out (cmp : Int → Int → Bool) (s : List Int) (i : Int)
    (hi : i < 0 ∨ (s.length : Int) ≤ i) : Slice.fix cmp s i = some s := by
  have : (i < 0 ∨ i ≥ (s.length : Int)) := by omega
  simp [Slice.fix, this]

/-- `Fix(i)` after `Values[i] = v` on a heap: heap order restored, multiset kept. -/
theorem slice_fix_in {cmp} (hs : SWO cmp) (s0 : List Int) (i : Nat) (v : Int) (h : Heap cmp s0)
    (hi : i < s0.length) :
    ∃ s', Slice.fix cmp (s0.set i v) (i : Int) = some s' ∧ Heap cmp s' ∧ s'.Perm (s0.set i v) := by
  have hguard : ¬ ((i : Int) < 0 ∨ (i : Int) ≥ ((s0.set i v).length : Int)) := by simp; omega
  obtain ⟨s', hrun, hlen, hperm, _, hheap⟩ :=
    fix_spec hs (s0.set i v) i s0.length (nthN s0) (by simp) hi h
      (fun k _ hki => nthN_set s0 i v k hki)
  refine ⟨s', ?_, ?_, hperm⟩
  · simp only [Slice.fix, hguard, if_false]
    simpa using hrun
  · have : s'.length = s0.length := by rw [hlen]; simp
    simpa [Heap, this] using hheap

/-- `PopAll` consumed to the end: yields every element exactly once, in sorted order
(no later element precedes an earlier one), and empties the heap. -/
theorem slice_popAll {cmp} (hs : SWO cmp) : ∀ (n : Nat) (s : List Int), s.length = n → Heap cmp s →
    ∃ xs, Slice.popAll cmp (n + 1) s = some ([], xs) ∧ xs.Perm s ∧
      xs.Pairwise (fun a b => cmp b a = false) := by
  intro n
  induction n with
  | zero =>
    intro s hlen _
    have : s = [] := List.length_eq_zero_iff.1 hlen
    subst this
    exact ⟨[], by simp [Slice.popAll, Slice.pop], List.Perm.refl _, List.Pairwise.nil⟩
  | succ n ih =>
    intro s hlen h
    have hne : s ≠ [] := by intro h0; subst h0; simp at hlen
    obtain ⟨s1, x, hpop, hheap1, hperm1, hmin⟩ := (slice_pop hs s h).2 hne
    have hlen1 : s1.length = n := by
      have := hperm1.length_eq; simp at this; omega
    obtain ⟨xs, hrun, hperm, hsorted⟩ := ih s1 hlen1 hheap1
    refine ⟨x :: xs, ?_, (List.Perm.cons x hperm).trans hperm1, ?_⟩
    · rw [Slice.popAll]; simp only [hpop, hrun]
    · refine List.Pairwise.cons ?_ hsorted
      intro y hy
      have : y ∈ s := hperm1.subset (List.mem_cons_of_mem x (hperm.subset hy))
      exact hmin y this

end Golib.C04
