/-
C13 helper lemmas, part 8: the abstract `container/list` machine on `List Id` (`ASt`), the
abstraction relation `Abs`, and the one-step simulation `apply_refines` for every call of the
API (`DOp`).  `Props/C13.lean` lifts it to arbitrary operation lists.
-/
import Golib.Proof.C13DCopy

set_option linter.unusedSimpArgs false
set_option linter.unusedVariables false

namespace Golib.C13

/-! ### the specification machine: sequences of node ids + a value map -/

/-- `container/list` semantics on sequences: list `l` *is* the sequence `seq l` of node ids,
`val` the values; `fresh` is the next id an allocation returns. -/
structure ASt where
  seq   : Nat → List Nat
  val   : Nat → Int
  nl    : Nat
  fresh : Nat

/-- `nl` empty lists, no node. -/
def ASt.zero (nl : Nat) : ASt := { seq := fun _ => [], val := fun _ => 0, nl := nl, fresh := nl }

/-- allocate one node with value `v` -/
def ASt.allocV (a : ASt) (v : Int) : ASt :=
  { a with val := fun n => if n = a.fresh then v else a.val n, fresh := a.fresh + 1 }

/-- replace the sequence of list `l`; nothing else changes -/
def ASt.setSeq (a : ASt) (l : Nat) (L : List Nat) : ASt := { a with seq := upd a.seq l L }

/-- the element after `e` in a sequence (`none` at the end or if absent) -/
def succOf (e : Nat) : List Nat → Option Nat
  | [] => none
  | x :: xs => if x = e then xs.head? else succOf e xs

/-- the list that currently holds node `e` -/
def ASt.ownerOf (a : ASt) (e : Nat) : Option Nat :=
  (List.range a.nl).find? fun k => decide (e ∈ a.seq k)

/-- `e.Next()`: the successor of `e` in the list that holds it, nil if it is in none or last. -/
def ASt.next (a : ASt) (e : Nat) : Option Nat :=
  match a.ownerOf e with
  | some k => succOf e (a.seq k)
  | none => none

/-- `e.Prev()` = `Next` in the reversed sequence. -/
def ASt.prev (a : ASt) (e : Nat) : Option Nat :=
  match a.ownerOf e with
  | some k => succOf e (a.seq k).reverse
  | none => none

/-- The specification of every call, on sequences. -/
def ASt.apply (a : ASt) : DOp → ASt × DRes
  | .new v => (a.allocV v, .ptr (some a.fresh))
  | .init _ => (a, .unit)
  | .pushFront l v => ((a.allocV v).setSeq l (a.fresh :: a.seq l), .ptr (some a.fresh))
  | .pushBack l v => ((a.allocV v).setSeq l (a.seq l ++ [a.fresh]), .ptr (some a.fresh))
  | .insertBefore l v m =>
    if m ∈ a.seq l then ((a.allocV v).setSeq l (insBefore a.fresh m (a.seq l)), .ptr (some a.fresh))
    else (a, .ptr none)
  | .insertAfter l v m =>
    if m ∈ a.seq l then ((a.allocV v).setSeq l (insAfter a.fresh m (a.seq l)), .ptr (some a.fresh))
    else (a, .ptr none)
  | .pushFrontNode l e => (a.setSeq l (e :: a.seq l), .unit)
  | .pushBackNode l e => (a.setSeq l (a.seq l ++ [e]), .unit)
  | .insertNodeBefore l e m =>
    (if m ∈ a.seq l then a.setSeq l (insBefore e m (a.seq l)) else a, .unit)
  | .insertNodeAfter l e m =>
    (if m ∈ a.seq l then a.setSeq l (insAfter e m (a.seq l)) else a, .unit)
  | .moveToFront l e =>
    (if e ∈ a.seq l then a.setSeq l (e :: (a.seq l).erase e) else a, .unit)
  | .moveToBack l e =>
    (if e ∈ a.seq l then a.setSeq l ((a.seq l).erase e ++ [e]) else a, .unit)
  | .moveBefore l e m =>
    (if e ∈ a.seq l ∧ e ≠ m ∧ m ∈ a.seq l then a.setSeq l (insBefore e m ((a.seq l).erase e)) else a,
     .unit)
  | .moveAfter l e m =>
    (if e ∈ a.seq l ∧ e ≠ m ∧ m ∈ a.seq l then a.setSeq l (insAfter e m ((a.seq l).erase e)) else a,
     .unit)
  | .remove l e => (if e ∈ a.seq l then a.setSeq l ((a.seq l).erase e) else a, .int (a.val e))
  | .pushBackDList l o =>
    ({ a with seq := upd a.seq l (a.seq l ++ List.range' a.fresh (a.seq o).length),
              val := copyVal a.val a.fresh (a.seq o),
              fresh := a.fresh + (a.seq o).length }, .unit)
  | .pushFrontDList l o =>
    ({ a with seq := upd a.seq l ((List.range' a.fresh (a.seq o).length).reverse ++ a.seq l),
              val := copyVal a.val a.fresh (a.seq o).reverse,
              fresh := a.fresh + (a.seq o).length }, .unit)
  | .len l => (a, .int (a.seq l).length)
  | .front l => (a, .ptr (a.seq l).head?)
  | .back l => (a, .ptr (a.seq l).getLast?)
  | .next e => (a, .ptr (a.next e))
  | .prev e => (a, .ptr (a.prev e))
  | .setValue e v => ({ a with val := fun n => if n = e then v else a.val n }, .unit)

/-- A node that may be handed to the node-inserting forms: allocated and in no list
(fresh from `new`, or removed earlier). -/
def ASt.Detached (a : ASt) (e : Nat) : Prop := a.nl ≤ e ∧ e < a.fresh ∧ ∀ k, k < a.nl → e ∉ a.seq k

/-- Which calls the property speaks about: receivers are lists of the family; the
node-inserting forms get a detached node; `Init` is only applied to an empty list.
Node handles of all other calls are *arbitrary* (live, removed, foreign, never allocated). -/
def DOp.ok (a : ASt) : DOp → Prop
  | .new _ => True
  | .init l => l < a.nl ∧ a.seq l = []
  | .pushFront l _ | .pushBack l _ | .insertBefore l _ _ | .insertAfter l _ _ => l < a.nl
  | .pushFrontNode l e | .pushBackNode l e | .insertNodeBefore l e _ | .insertNodeAfter l e _ =>
    l < a.nl ∧ a.Detached e
  | .moveToFront l _ | .moveToBack l _ | .moveBefore l _ _ | .moveAfter l _ _ | .remove l _ => l < a.nl
  | .pushBackDList l o | .pushFrontDList l o => l < a.nl ∧ o < a.nl
  | .len l | .front l | .back l => l < a.nl
  | .next _ | .prev _ | .setValue _ _ => True

/-- The abstraction relation between a memory and the specification state. -/
structure Abs (s : DSt) (a : ASt) : Prop where
  inv   : GInv s a.seq
  val   : ∀ n, s.val.get n = a.val n
  nl    : s.nl = a.nl
  fresh : s.fresh = a.fresh

/-! ### reading `Next` / `Prev` -/

theorem succOf_split (x : Nat) (p q : List Nat) (h : x ∉ p) : succOf x (p ++ x :: q) = q.head? := by
  induction p with
  | nil => simp [succOf]
  | cons y ys ih =>
    simp only [List.mem_cons, not_or] at h
    simp [succOf, Ne.symm h.1, ih h.2]

theorem list_eq_ownerOf {s : DSt} {a : ASt} (h : Abs s a) (e : Nat) : s.list.get e = a.ownerOf e := by
  unfold ASt.ownerOf
  cases hf : (List.range a.nl).find? fun k => decide (e ∈ a.seq k) with
  | none =>
    rw [List.find?_eq_none] at hf
    cases hl : s.list.get e with
    | none => rfl
    | some r =>
      have hr := h.inv.ownerRange e r hl
      have := ((h.inv.lists r hr).owner e).1 hl
      exact absurd (by simpa using this) (hf r (by rw [← h.nl]; simpa using hr))
  | some k =>
    have h1 := List.find?_some hf
    have h2 := List.mem_of_find?_eq_some hf
    simp only [decide_eq_true_eq] at h1
    simp only [List.mem_range] at h2
    rw [← h.nl] at h2
    exact ((h.inv.lists k h2).owner e).2 h1

theorem nodeNext_abs {s : DSt} {a : ASt} (h : Abs s a) (e : Nat) : s.nodeNext e = a.next e := by
  have ho := list_eq_ownerOf h e
  unfold ASt.next
  cases hk : a.ownerOf e with
  | none => rw [hk] at ho; simp [DSt.nodeNext, ho]
  | some k =>
    rw [hk] at ho
    have hr := h.inv.ownerRange e k ho
    have hm := ((h.inv.lists k hr).owner e).1 ho
    obtain ⟨p, q, e1, hp⟩ := split_of_mem hm
    rw [nodeNext_spec h.inv hr e1]
    show q.head? = succOf e (a.seq k)
    rw [e1, succOf_split e p q hp]

theorem nodePrev_abs {s : DSt} {a : ASt} (h : Abs s a) (e : Nat) : s.nodePrev e = a.prev e := by
  have ho := list_eq_ownerOf h e
  unfold ASt.prev
  cases hk : a.ownerOf e with
  | none => rw [hk] at ho; simp [DSt.nodePrev, ho]
  | some k =>
    rw [hk] at ho
    have hr := h.inv.ownerRange e k ho
    have hm := ((h.inv.lists k hr).owner e).1 ho
    have nd := (h.inv.lists k hr).nodup
    obtain ⟨p, q, e1, hp⟩ := split_of_mem hm
    have hq : e ∉ q.reverse := by
      rw [e1] at nd; simp [List.nodup_cons, List.nodup_append] at nd ⊢; grind
    rw [nodePrev_spec h.inv hr e1]
    show p.getLast? = succOf e (a.seq k).reverse
    rw [e1]
    rw [show (p ++ e :: q).reverse = q.reverse ++ e :: p.reverse by simp, succOf_split e _ _ hq]
    simp [List.head?_reverse]

/-! ### `Init` on an empty list -/

theorem init_spec {s : DSt} {A : Nat → List Nat} {l : Nat} (h : GInv s A) (hl : l < s.nl)
    (hA : A l = []) : GInv (s.init l) A := by
  have hI := h.lists l hl
  have hring : Ring (s.init l).next (s.init l).prev (l :: A l) := by
    rw [hA]; simp [Ring, Seg, DSt.init, PM.get_set]
  rw [← upd_self A l hA.symm]
  refine ginv_frame h hl rfl rfl ?_ ?_ ?_ ?_ ⟨Or.inr (hA ▸ hring), by simp, ?_, ?_⟩ ?_ ?_ ?_
  · intro x hx _
    have : x ≠ l := fun hh => hx (by simp [hh])
    simp [DSt.init, PM.get_set, this]
  · intro x hx _
    have : x ≠ l := fun hh => hx (by simp [hh])
    simp [DSt.init, PM.get_set, this]
  · intro x _ _; rfl
  · intro k hk; simp [DSt.init, IM.get_set, hk]
  · intro n; have := hI.owner n; rw [hA] at this; simpa [DSt.init] using this
  · simp [DSt.init, IM.get_set]
  · intro x hx; simp at hx
  · intro x hx; simp at hx
  · intro x hx; rw [hA] at hx; simp at hx

/-! ### one call -/

theorem detached_abs {s : DSt} {a : ASt} (h : Abs s a) {e : Nat} (he : a.Detached e) : Detached s e := by
  refine ⟨by rw [h.nl]; exact he.1, by rw [h.fresh]; exact he.2.1, ?_⟩
  cases hl : s.list.get e with
  | none => rfl
  | some r =>
    have hr := h.inv.ownerRange e r hl
    exact absurd (((h.inv.lists r hr).owner e).1 hl) (he.2.2 r (by rw [← h.nl]; exact hr))

theorem abs_setSeq {s s' : DSt} {a : ASt} {l : Nat} {L : List Nat} (h : Abs s a)
    (g : GInv s' (upd a.seq l L)) (hv : s'.val = s.val) (hf : s'.fresh = s.fresh) (hn : s'.nl = s.nl) :
    Abs s' (a.setSeq l L) :=
  ⟨g, fun n => by rw [hv]; exact h.val n, by rw [hn]; exact h.nl, by rw [hf]; exact h.fresh⟩

theorem abs_allocSet {s s' : DSt} {a : ASt} {l : Nat} {L : List Nat} {v : Int} (h : Abs s a)
    (g : GInv s' (upd a.seq l L)) (hv : s'.val = s.val.set s.fresh v) (hf : s'.fresh = s.fresh + 1)
    (hn : s'.nl = s.nl) : Abs s' ((a.allocV v).setSeq l L) :=
  ⟨g, fun n => by
      rw [hv, IM.get_set, h.val n, h.fresh]; rfl,
    by rw [hn]; exact h.nl, by rw [hf, h.fresh]; rfl⟩

/-- One-step simulation: on related states every allowed call returns the same result in the
model (which does not panic) and in the specification, and the states stay related. -/
theorem apply_refines {s : DSt} {a : ASt} (h : Abs s a) (op : DOp) (hok : op.ok a) :
    ∃ s', s.apply op = some (s', (a.apply op).2) ∧ Abs s' (a.apply op).1 := by
  have hnl := h.nl
  have hfr := h.fresh
  cases op with
  | new v =>
    obtain ⟨g1, _, g3, _, _, g6, g7, _⟩ := alloc_spec v h.inv
    refine ⟨(s.alloc v).1, ?_, ⟨g1, fun n => ?_, by rw [g6]; exact hnl, by rw [g7, hfr]; rfl⟩⟩
    · simp only [DSt.apply, ASt.apply, ← hfr]; rw [← g3]
    · simp only [ASt.apply, ASt.allocV, DSt.alloc, IM.get_set, h.val n, hfr]
  | init l =>
    obtain ⟨hl, hA⟩ := hok
    exact ⟨s.init l, rfl, ⟨init_spec h.inv (hnl ▸ hl) hA, h.val, hnl, hfr⟩⟩
  | pushFront l v =>
    have hl : l < s.nl := hnl ▸ hok
    obtain ⟨s', r1, r2, r3, r4, r5⟩ := pushFront_spec v h.inv hl
    refine ⟨s', by simp [DSt.apply, ASt.apply, r1, hfr], ?_⟩
    simp only [ASt.apply, ← hfr]; exact abs_allocSet h r2 r5 r3 r4
  | pushBack l v =>
    have hl : l < s.nl := hnl ▸ hok
    obtain ⟨s', r1, r2, r3, r4, r5⟩ := pushBack_spec v h.inv hl
    refine ⟨s', by simp [DSt.apply, ASt.apply, r1, hfr], ?_⟩
    simp only [ASt.apply, ← hfr]; exact abs_allocSet h r2 r5 r3 r4
  | insertBefore l v m =>
    have hl : l < s.nl := hnl ▸ hok
    by_cases hm : m ∈ a.seq l
    · obtain ⟨s', r1, r2, r3, r4, r5⟩ := (insertBefore_spec v m h.inv hl).2 hm
      refine ⟨s', by simp [DSt.apply, ASt.apply, r1, hfr, hm], ?_⟩
      simp only [ASt.apply, hm, if_true, ← hfr]; exact abs_allocSet h r2 r5 r3 r4
    · refine ⟨s, by simp [DSt.apply, ASt.apply, (insertBefore_spec v m h.inv hl).1 hm, hm], ?_⟩
      simp only [ASt.apply, hm, if_false]; exact h
  | insertAfter l v m =>
    have hl : l < s.nl := hnl ▸ hok
    by_cases hm : m ∈ a.seq l
    · obtain ⟨s', r1, r2, r3, r4, r5⟩ := (insertAfter_spec v m h.inv hl).2 hm
      refine ⟨s', by simp [DSt.apply, ASt.apply, r1, hfr, hm], ?_⟩
      simp only [ASt.apply, hm, if_true, ← hfr]; exact abs_allocSet h r2 r5 r3 r4
    · refine ⟨s, by simp [DSt.apply, ASt.apply, (insertAfter_spec v m h.inv hl).1 hm, hm], ?_⟩
      simp only [ASt.apply, hm, if_false]; exact h
  | pushFrontNode l e =>
    have hl : l < s.nl := hnl ▸ hok.1
    obtain ⟨s', r1, r2, r3, r4, r5⟩ := pushFrontNode_spec h.inv hl (detached_abs h hok.2)
    exact ⟨s', by simp [DSt.apply, ASt.apply, r1], abs_setSeq h r2 r3 r4 r5⟩
  | pushBackNode l e =>
    have hl : l < s.nl := hnl ▸ hok.1
    obtain ⟨s', r1, r2, r3, r4, r5⟩ := pushBackNode_spec h.inv hl (detached_abs h hok.2)
    exact ⟨s', by simp [DSt.apply, ASt.apply, r1], abs_setSeq h r2 r3 r4 r5⟩
  | insertNodeBefore l e m =>
    have hl : l < s.nl := hnl ▸ hok.1
    have hd := detached_abs h hok.2
    by_cases hm : m ∈ a.seq l
    · obtain ⟨s', r1, r2, r3, r4, r5⟩ := (insertNodeBefore_spec m h.inv hl hd).2 hm
      refine ⟨s', by simp [DSt.apply, ASt.apply, r1], ?_⟩
      simp only [ASt.apply, hm, if_true]; exact abs_setSeq h r2 r3 r4 r5
    · refine ⟨s, by simp [DSt.apply, ASt.apply, (insertNodeBefore_spec m h.inv hl hd).1 hm], ?_⟩
      simp only [ASt.apply, hm, if_false]; exact h
  | insertNodeAfter l e m =>
    have hl : l < s.nl := hnl ▸ hok.1
    have hd := detached_abs h hok.2
    by_cases hm : m ∈ a.seq l
    · obtain ⟨s', r1, r2, r3, r4, r5⟩ := (insertNodeAfter_spec m h.inv hl hd).2 hm
      refine ⟨s', by simp [DSt.apply, ASt.apply, r1], ?_⟩
      simp only [ASt.apply, hm, if_true]; exact abs_setSeq h r2 r3 r4 r5
    · refine ⟨s, by simp [DSt.apply, ASt.apply, (insertNodeAfter_spec m h.inv hl hd).1 hm], ?_⟩
      simp only [ASt.apply, hm, if_false]; exact h
  | moveToFront l e =>
    have hl : l < s.nl := hnl ▸ hok
    by_cases hm : e ∈ a.seq l
    · obtain ⟨s', r1, r2, r3, r4, r5⟩ := (moveToFront_spec e h.inv hl).2 hm
      refine ⟨s', by simp [DSt.apply, ASt.apply, r1], ?_⟩
      simp only [ASt.apply, hm, if_true]; exact abs_setSeq h r2 r3 r4 r5
    · refine ⟨s, by simp [DSt.apply, ASt.apply, (moveToFront_spec e h.inv hl).1 hm], ?_⟩
      simp only [ASt.apply, hm, if_false]; exact h
  | moveToBack l e =>
    have hl : l < s.nl := hnl ▸ hok
    by_cases hm : e ∈ a.seq l
    · obtain ⟨s', r1, r2, r3, r4, r5⟩ := (moveToBack_spec e h.inv hl).2 hm
      refine ⟨s', by simp [DSt.apply, ASt.apply, r1], ?_⟩
      simp only [ASt.apply, hm, if_true]; exact abs_setSeq h r2 r3 r4 r5
    · refine ⟨s, by simp [DSt.apply, ASt.apply, (moveToBack_spec e h.inv hl).1 hm], ?_⟩
      simp only [ASt.apply, hm, if_false]; exact h
  | moveBefore l e m =>
    have hl : l < s.nl := hnl ▸ hok
    by_cases hc : e ∈ a.seq l ∧ e ≠ m ∧ m ∈ a.seq l
    · obtain ⟨s', r1, r2, r3, r4, r5⟩ := (moveBefore_spec e m h.inv hl).2 hc.1 hc.2.1 hc.2.2
      refine ⟨s', by simp [DSt.apply, ASt.apply, r1], ?_⟩
      simp only [ASt.apply]; rw [if_pos hc]; exact abs_setSeq h r2 r3 r4 r5
    · have hc' : e ∉ a.seq l ∨ e = m ∨ m ∉ a.seq l := by
        by_cases h1 : e ∈ a.seq l <;> by_cases h2 : e = m <;> by_cases h3 : m ∈ a.seq l <;> simp_all
      refine ⟨s, by simp [DSt.apply, ASt.apply, (moveBefore_spec e m h.inv hl).1 hc'], ?_⟩
      simp only [ASt.apply]; rw [if_neg hc]; exact h
  | moveAfter l e m =>
    have hl : l < s.nl := hnl ▸ hok
    by_cases hc : e ∈ a.seq l ∧ e ≠ m ∧ m ∈ a.seq l
    · obtain ⟨s', r1, r2, r3, r4, r5⟩ := (moveAfter_spec e m h.inv hl).2 hc.1 hc.2.1 hc.2.2
      refine ⟨s', by simp [DSt.apply, ASt.apply, r1], ?_⟩
      simp only [ASt.apply]; rw [if_pos hc]; exact abs_setSeq h r2 r3 r4 r5
    · have hc' : e ∉ a.seq l ∨ e = m ∨ m ∉ a.seq l := by
        by_cases h1 : e ∈ a.seq l <;> by_cases h2 : e = m <;> by_cases h3 : m ∈ a.seq l <;> simp_all
      refine ⟨s, by simp [DSt.apply, ASt.apply, (moveAfter_spec e m h.inv hl).1 hc'], ?_⟩
      simp only [ASt.apply]; rw [if_neg hc]; exact h
  | remove l e =>
    have hl : l < s.nl := hnl ▸ hok
    by_cases hm : e ∈ a.seq l
    · obtain ⟨s', r1, r2, r3, r4, r5, _⟩ := (removeNode_spec e h.inv hl).2 hm
      refine ⟨s', by simp [DSt.apply, ASt.apply, r1, h.val e], ?_⟩
      simp only [ASt.apply, hm, if_true]; exact abs_setSeq h r2 r5 r3 r4
    · refine ⟨s, by simp [DSt.apply, ASt.apply, (removeNode_spec e h.inv hl).1 hm, h.val e], ?_⟩
      simp only [ASt.apply, hm, if_false]; exact h
  | pushBackDList l o =>
    have hl : l < s.nl := hnl ▸ hok.1
    have ho : o < s.nl := hnl ▸ hok.2
    obtain ⟨s', r1, r2, r3, r4, r5⟩ := pushBackDList_spec h.inv hl ho
    refine ⟨s', by simp [DSt.apply, ASt.apply, r1], ⟨by simpa [ASt.apply, ← hfr] using r2, fun n => ?_,
      by rw [r4]; exact hnl, by rw [r3, hfr]; rfl⟩⟩
    rw [r5 n, hfr]
    have : s.val.get = a.val := funext h.val
    rw [this]; rfl
  | pushFrontDList l o =>
    have hl : l < s.nl := hnl ▸ hok.1
    have ho : o < s.nl := hnl ▸ hok.2
    obtain ⟨s', r1, r2, r3, r4, r5⟩ := pushFrontDList_spec h.inv hl ho
    refine ⟨s', by simp [DSt.apply, ASt.apply, r1], ⟨by simpa [ASt.apply, ← hfr] using r2, fun n => ?_,
      by rw [r4]; exact hnl, by rw [r3, hfr]; rfl⟩⟩
    rw [r5 n, hfr]
    have : s.val.get = a.val := funext h.val
    rw [this]; rfl
  | len l =>
    have hl : l < s.nl := hnl ▸ hok
    exact ⟨s, by simp [DSt.apply, ASt.apply, (front_spec h.inv hl).2.2], h⟩
  | front l =>
    have hl : l < s.nl := hnl ▸ hok
    exact ⟨s, by simp [DSt.apply, ASt.apply, (front_spec h.inv hl).1], h⟩
  | back l =>
    have hl : l < s.nl := hnl ▸ hok
    exact ⟨s, by simp [DSt.apply, ASt.apply, (front_spec h.inv hl).2.1], h⟩
  | next e => exact ⟨s, by simp [DSt.apply, ASt.apply, nodeNext_abs h e], h⟩
  | prev e => exact ⟨s, by simp [DSt.apply, ASt.apply, nodePrev_abs h e], h⟩
  | setValue e v =>
    have g := h.inv
    refine ⟨{ s with val := s.val.set e v }, rfl, ⟨⟨fun l hl => ⟨(g.lists l hl).ring, (g.lists l hl).nodup,
      (g.lists l hl).owner, (g.lists l hl).len⟩, g.nodes, g.freshOk, g.clean, g.rootOwner, g.ownerRange,
      g.unalloc⟩, fun n => ?_, hnl, hfr⟩⟩
    simp only [ASt.apply, IM.get_set, h.val n]

/-! ### operation lists -/

/-- Run a list of calls on the specification. -/
def ASt.run : ASt → List DOp → ASt × List DRes
  | a, [] => (a, [])
  | a, op :: ops => let (a1, r) := a.apply op; let (a2, rs) := a1.run ops; (a2, r :: rs)

/-- Every call of the history is allowed (`DOp.ok`) in the state it is issued in. -/
def OpsOk : ASt → List DOp → Prop
  | _, [] => True
  | a, op :: ops => op.ok a ∧ OpsOk (a.apply op).1 ops

instance (a : ASt) (e : Nat) : Decidable (a.Detached e) := by unfold ASt.Detached; infer_instance

instance (a : ASt) (op : DOp) : Decidable (DOp.ok a op) := by
  cases op <;> simp only [DOp.ok] <;> infer_instance

instance instDecidableOpsOk : (a : ASt) → (ops : List DOp) → Decidable (OpsOk a ops)
  | _, [] => isTrue trivial
  | a, op :: ops => by
    simp only [OpsOk]
    exact @instDecidableAnd _ _ _ (instDecidableOpsOk _ ops)

theorem run_refines {s : DSt} {a : ASt} (h : Abs s a) (ops : List DOp) (hok : OpsOk a ops) :
    ∃ s', s.run ops = some (s', (a.run ops).2) ∧ Abs s' (a.run ops).1 := by
  induction ops generalizing s a with
  | nil => exact ⟨s, rfl, h⟩
  | cons op ops ih =>
    obtain ⟨s1, r1, h1⟩ := apply_refines h op hok.1
    obtain ⟨s2, r2, h2⟩ := ih h1 hok.2
    exact ⟨s2, by simp [DSt.run, ASt.run, r1, r2], h2⟩

/-- The list a call is issued on (its receiver). -/
def DOp.receiver : DOp → Option Nat
  | .new _ | .next _ | .prev _ | .setValue _ _ => none
  | .init l | .pushFront l _ | .pushBack l _ | .insertBefore l _ _ | .insertAfter l _ _
  | .pushFrontNode l _ | .pushBackNode l _ | .insertNodeBefore l _ _ | .insertNodeAfter l _ _
  | .moveToFront l _ | .moveToBack l _ | .moveBefore l _ _ | .moveAfter l _ _ | .remove l _
  | .pushBackDList l _ | .pushFrontDList l _ | .len l | .front l | .back l => some l

/-- In the specification a call changes no list but its receiver, never renames a node, and
changes the value of no node that existed before. -/
theorem spec_frame (a : ASt) (op : DOp) :
    (∀ k, op.receiver ≠ some k → (a.apply op).1.seq k = a.seq k) ∧
    (∀ n, n < a.fresh → (∀ v, op ≠ .setValue n v) → (a.apply op).1.val n = a.val n) ∧
    a.fresh ≤ (a.apply op).1.fresh ∧ (a.apply op).1.nl = a.nl := by
  have hupd : ∀ (l k : Nat) (L : List Nat), some l ≠ some k → upd a.seq l L k = a.seq k := by
    intro l k L hne; exact upd_other _ _ _ (fun hh => hne (by rw [hh]))
  cases op <;> simp only [ASt.apply, DOp.receiver, ASt.setSeq, ASt.allocV] <;>
    (try split) <;> refine ⟨fun k hk => ?_, fun n hn hsv => ?_, ?_, ?_⟩ <;>
    first
    | exact if_neg (fun hh => hsv _ (by rw [hh]))
    | trivial
    | rfl
    | exact hupd _ _ _ hk
    | exact Nat.le_refl _
    | exact Nat.le_succ _
    | exact Nat.le_add_right _ _
    | exact if_neg (by omega)
    | (unfold copyVal; exact if_neg (by omega))

/-! ### ranging over a list while the loop body mutates it -/

/-- The idiomatic `container/list` loop `for e := l.Front(); e != nil; e = e.Next() { body }` on
the specification: `Next` is evaluated AFTER the body, in the state the body left behind (so
removing the current node ends the loop, removing its successor skips it, a node inserted after
the current one is visited). -/
def ASt.rangeAll (body : Nat → List DOp) (stop : Nat → Bool) :
    Nat → Nat → Ptr → ASt → List (Nat × Int) → ASt × List (Nat × Int) × Bool
  | _, _, none, a, acc => (a, acc.reverse, true)
  | 0, _, some _, a, acc => (a, acc.reverse, false)
  | f + 1, i, some e, a, acc =>
    let y := (e, a.val e)
    let a1 := (a.run (body i)).1
    if stop i then (a1, (y :: acc).reverse, true)
    else ASt.rangeAll body stop f (i + 1) (a1.next e) a1 (y :: acc)

/-- Every call of every iteration's body is allowed in the state it is issued in. -/
def RangeOk (body : Nat → List DOp) (stop : Nat → Bool) : Nat → Nat → Ptr → ASt → Prop
  | _, _, none, _ => True
  | 0, _, some _, _ => True
  | f + 1, i, some e, a =>
    OpsOk a (body i) ∧
      (stop i = false → RangeOk body stop f (i + 1) ((a.run (body i)).1.next e) (a.run (body i)).1)

/-- `DList.All()` / the `Front`–`Next` loop of the model, with an arbitrary mutating body,
yields exactly what the `container/list` loop yields and ends in related states. -/
theorem range_refines (body : Nat → List DOp) (stop : Nat → Bool) :
    ∀ (f i : Nat) (p : Ptr) (s : DSt) (a : ASt) (acc : List (Nat × Int)), Abs s a →
      RangeOk body stop f i p a →
      ∃ s', DSt.rangeAll body stop f i p s acc =
          some (s', (ASt.rangeAll body stop f i p a acc).2.1, (ASt.rangeAll body stop f i p a acc).2.2) ∧
        Abs s' (ASt.rangeAll body stop f i p a acc).1 := by
  intro f
  induction f with
  | zero =>
    intro i p s a acc h _
    cases p <;> exact ⟨s, by simp [DSt.rangeAll, ASt.rangeAll], by simpa [ASt.rangeAll] using h⟩
  | succ f ih =>
    intro i p s a acc h hok
    cases p with
    | none => exact ⟨s, by simp [DSt.rangeAll, ASt.rangeAll], by simpa [ASt.rangeAll] using h⟩
    | some e =>
      obtain ⟨hops, hrest⟩ := hok
      obtain ⟨s1, r1, h1⟩ := run_refines h (body i) hops
      by_cases hs : stop i = true
      · refine ⟨s1, ?_, by simpa [ASt.rangeAll, hs] using h1⟩
        simp [DSt.rangeAll, ASt.rangeAll, r1, hs, h.val e]
      · have hs' : stop i = false := by simpa using hs
        obtain ⟨s', r2, h2⟩ := ih (i + 1) ((a.run (body i)).1.next e) s1 (a.run (body i)).1
          ((e, a.val e) :: acc) h1 (hrest hs')
        refine ⟨s', ?_, by simpa [ASt.rangeAll, hs'] using h2⟩
        simp only [DSt.rangeAll, r1, Option.bind_eq_bind, Option.bind_some, hs', h.val e,
          nodeNext_abs h1 e, ASt.rangeAll]
        simpa using r2

/-! ### a struct copy `*b = *a` -/

/-- After copying a NON-EMPTY `DList` by value, the copy's sentinel points into a ring that does
not come back to it (`first.prev == &a.root`, not `&b.root`): no assignment of sequences satisfies
the representation invariant any more.  A copied non-empty list is broken by design, exactly as a
copied `container/list.List`; it is outside the property. -/
theorem dlist_copy_breaks {s : DSt} {A : Nat → List Nat} {a b : Nat} (h : GInv s A) (ha : a < s.nl)
    (hb : b < s.nl) (hab : a ≠ b) (hne : A a ≠ []) : ¬ ∃ A', GInv (s.copyList a b) A' := by
  rintro ⟨A', h'⟩
  obtain ⟨x, xs, hL⟩ := List.exists_cons_of_ne_nil hne
  have hr : Ring s.next s.prev (a :: x :: xs) := by
    have := ginv_ring_of_mem (x := x) h ha (by rw [hL]; simp)
    rwa [hL] at this
  simp only [Ring, Seg] at hr
  have hx := h.nodes a ha x (by rw [hL]; simp)
  have hxb : x ≠ b := by omega
  have hnb : (s.copyList a b).next.get b = some x := by simp [DSt.copyList, PM.get_set, hr.1]
  have hpx : (s.copyList a b).prev.get x = some a := by simp [DSt.copyList, PM.get_set, hxb, hr.2.1]
  have hI := h'.lists b (show b < (s.copyList a b).nl from hb)
  rcases hI.ring with ⟨e, _, _⟩ | hring
  · rw [hnb] at e; cases e
  · cases hB : A' b with
    | nil =>
      rw [hB] at hring
      simp only [Ring, Seg] at hring
      rw [hnb] at hring
      have := Option.some.inj hring.1
      omega
    | cons y ys =>
      rw [hB] at hring
      simp only [Ring, Seg] at hring
      rw [hnb] at hring
      have hy : x = y := Option.some.inj hring.1
      subst hy
      rw [hpx] at hring
      exact hab (Option.some.inj hring.2.1)

end Golib.C13
