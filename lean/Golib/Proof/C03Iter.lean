/-
C03 — the outer iterator (`RoaringBitmapIter`) of the repaired code (`reset = true`):
one `Next`/`Value` step against the remaining enumeration, the `Next/Value` loop, and
`iterAll_true_spec`.  Core-only.
-/
import Golib.Proof.C03Spec
import Golib.Proof.C03IterInner

namespace Golib.C03

/-- What the outer iterator state `(node, iter)` will still deliver, in order. -/
def remaining : OMap → Option Inner → List Nat
  | [], _ => []
  | (k, c) :: rest, it => ((it.getD c.iter).rem).map (k * 65536 + ·) ++ enumAll rest

/-- Invariant of the outer iterator state. -/
def ItOk (node : OMap) (iter : Option Inner) : Prop :=
  (∀ p ∈ node, p.2.Inv0) ∧ ∀ x, iter = some x → x.Ok

theorem remaining_none (node : OMap) : remaining node none = enumAll node := by
  cases node with
  | nil => rfl
  | cons p rest =>
    obtain ⟨k, c⟩ := p
    simp only [remaining, Option.getD_none, Container.iter_rem, enumAll, List.flatMap_cons]

theorem itNext_nil (reset : Bool) (it : Option Inner) : (itNext reset [] it).2 = false := rfl

theorem remaining_cons (k : Nat) (c : Container) (rest : OMap) (it : Option Inner) :
    remaining ((k, c) :: rest) it
      = ((it.getD c.iter).rem).map (k * 65536 + ·) ++ enumAll rest := rfl

theorem itNext_cons_true (reset : Bool) (k : Nat) (c : Container) (rest : OMap)
    (it : Option Inner) (x' : Inner) (h : (it.getD c.iter).next = (x', true)) :
    itNext reset ((k, c) :: rest) it = (⟨(k, c) :: rest, some x'⟩, true) := by
  cases it with
  | none => simp only [Option.getD_none] at h; simp only [itNext, h]
  | some x => simp only [Option.getD_some] at h; simp only [itNext, h]

theorem itNext_cons_false (k : Nat) (c : Container) (rest : OMap)
    (it : Option Inner) (x' : Inner) (h : (it.getD c.iter).next = (x', false)) :
    itNext true ((k, c) :: rest) it = itNext true rest none := by
  cases it with
  | none => simp only [Option.getD_none] at h; simp only [itNext, h, if_true]
  | some x => simp only [Option.getD_some] at h; simp only [itNext, h, if_true]

/-- One `Next` (and the `Value` after it) of the repaired outer iterator. -/
theorem itNext_spec : ∀ (node : OMap) (iter : Option Inner), ItOk node iter →
    (remaining node iter = [] →
      (itNext true node iter).2 = false ∧ (itNext true node iter).1.node = []) ∧
    (∀ m rest, remaining node iter = m :: rest →
      ∃ it', itNext true node iter = (it', true) ∧ it'.value = some m ∧
        remaining it'.node it'.iter = rest ∧ ItOk it'.node it'.iter) := by
  intro node
  induction node with
  | nil =>
    intro iter _
    refine ⟨fun _ => ⟨rfl, rfl⟩, ?_⟩
    intro m rest h
    simp [remaining] at h
  | cons p rest' ih =>
    intro iter hok
    obtain ⟨k, c⟩ := p
    obtain ⟨hinv, hit⟩ := hok
    have hxok : (iter.getD c.iter).Ok := by
      cases iter with
      | none => exact Container.iter_ok c (hinv (k, c) (by simp))
      | some x => exact hit x rfl
    have hrest' : ItOk rest' none :=
      ⟨fun p hp => hinv p (List.mem_cons_of_mem _ hp), fun x hx => by simp at hx⟩
    obtain ⟨n1, n2⟩ := Inner.next_spec _ hxok
    rw [remaining_cons]
    cases hrem : (iter.getD c.iter).rem with
    | nil =>
      have hf := n1 hrem
      have hnext : (iter.getD c.iter).next = (((iter.getD c.iter).next).1, false) := by
        rw [← hf]
      rw [itNext_cons_false k c rest' iter _ hnext]
      simp only [List.map_nil, List.nil_append]
      rw [← remaining_none rest']
      exact ih none hrest'
    | cons m0 r0 =>
      obtain ⟨x', e1, e2, e3, e4, e5⟩ := n2 m0 r0 hrem
      rw [itNext_cons_true true k c rest' iter x' e1]
      simp only [List.map_cons, List.cons_append]
      refine ⟨fun h => by simp at h, ?_⟩
      intro m rest h
      simp only [List.cons.injEq] at h
      refine ⟨_, rfl, ?_, ?_, ?_⟩
      · simp only [It.value, e2, shl16_or k m0 e3, h.1]
      · show remaining ((k, c) :: rest') (some x') = rest
        rw [remaining_cons, Option.getD_some, e4]
        exact h.2
      · refine ⟨hinv, ?_⟩
        intro x hx
        simp only [Option.some.injEq] at hx
        rw [← hx]; exact e5

/-- The `Next/Value` loop of the repaired code. -/
theorem iterLoop_spec : ∀ (fuel : Nat) (it : It) (acc : List Nat), ItOk it.node it.iter →
    (remaining it.node it.iter).length < fuel →
    ∃ it', iterLoop true fuel it acc = some (acc.reverse ++ remaining it.node it.iter, it') ∧
      (it'.next true).2 = false := by
  intro fuel
  induction fuel with
  | zero => intro it acc _ h; omega
  | succ fuel ih =>
    intro it acc hok hlen
    obtain ⟨s1, s2⟩ := itNext_spec it.node it.iter hok
    unfold iterLoop
    simp only [It.next]
    cases hrem : remaining it.node it.iter with
    | nil =>
      obtain ⟨hf, hnode⟩ := s1 hrem
      have hnext : itNext true it.node it.iter = ((itNext true it.node it.iter).1, false) := by
        rw [← hf]
      rw [hnext]
      simp only [List.append_nil]
      refine ⟨_, rfl, ?_⟩
      show (itNext true (itNext true it.node it.iter).1.node _).2 = false
      rw [hnode]
      rfl
    | cons m rest =>
      obtain ⟨it', e1, e2, e3, e4⟩ := s2 m rest hrem
      rw [e1]
      simp only [e2]
      rw [hrem] at hlen
      simp only [List.length_cons] at hlen
      obtain ⟨it'', f1, f2⟩ := ih it' (m :: acc) e4 (by rw [e3]; omega)
      refine ⟨it'', ?_, f2⟩
      rw [f1, e3]
      simp

theorem iterAll_true_spec (r : RB) (hk : ∀ p ∈ r.cs, p.2.Inv0)
    (hlen : r.len = ((enumAll r.cs).length : Int)) :
    ∃ it, r.iterAll true = some (enumAll r.cs, it) ∧ (it.next true).2 = false := by
  have hok : ItOk r.iter.node r.iter.iter := ⟨hk, fun x hx => by simp [RB.iter] at hx⟩
  have hrem : remaining r.iter.node r.iter.iter = enumAll r.cs := remaining_none r.cs
  have hfuel : r.len.toNat + 1 = (enumAll r.cs).length + 1 := by rw [hlen]; simp
  obtain ⟨it, h1, h2⟩ := iterLoop_spec (r.len.toNat + 1) r.iter [] hok (by rw [hrem]; omega)
  refine ⟨it, ?_, h2⟩
  rw [RB.iterAll, h1, hrem]
  simp

end Golib.C03
