/-
FindDpSolvers, value level: soundness, completeness, overshoot — for every iteration
order (`ord1`, `ord2` arbitrary permutation oracles) and every tie-breaker.
-/
import Golib.Proof.C18AList
import Golib.Proof.C18Knap

namespace Golib.C18

variable {α : Type}

/-- `t` is the total of some sub-selection of `pre`. -/
def Att (vf : α → Int) (pre : List α) (t : Int) : Prop := ∃ sel : List α, sel.Sublist pre ∧ isum vf sel = t

/-- A map entry is a sub-selection of `pre` with the key as its total. -/
def EntrySound (vf : α → Int) (pre : List α) (e : Int × List α) : Prop :=
  e.2.Sublist pre ∧ isum vf e.2 = e.1

theorem isum_snoc (vf : α → Int) (l : List α) (x : α) : isum vf (l ++ [x]) = isum vf l + vf x := by
  simp [isum, List.sum_append]

theorem EntrySound.mono {vf : α → Int} {pre : List α} {e : Int × List α} (x : α)
    (h : EntrySound vf pre e) : EntrySound vf (pre ++ [x]) e :=
  ⟨h.1.trans (List.sublist_append_left _ _), h.2⟩

theorem Att.mono {vf : α → Int} {pre : List α} {t : Int} (x : α) (h : Att vf pre t) :
    Att vf (pre ++ [x]) t := by
  obtain ⟨s, h1, h2⟩ := h; exact ⟨s, h1.trans (List.sublist_append_left _ _), h2⟩

theorem mem_alInsert {β : Type} {k : Int} {v : β} {e : Int × β} : ∀ {m : List (Int × β)},
    e ∈ alInsert k v m → e = (k, v) ∨ e ∈ m
  | [], h => by simp [alInsert] at h; exact Or.inl h
  | (k1, v1) :: r, h => by
    simp only [alInsert] at h
    split at h
    · rcases List.mem_cons.mp h with h | h
      · exact Or.inl h
      · exact Or.inr (List.mem_cons_of_mem _ h)
    · rcases List.mem_cons.mp h with h | h
      · exact Or.inr (by rw [h]; simp)
      · rcases mem_alInsert h with h | h
        · exact Or.inl h
        · exact Or.inr (List.mem_cons_of_mem _ h)

theorem mem_alErase {β : Type} {k : Int} {e : Int × β} : ∀ {m : List (Int × β)},
    e ∈ alErase k m → e ∈ m
  | [], h => by simp [alErase] at h
  | (k1, v1) :: r, h => by
    simp only [alErase] at h
    split at h
    · exact List.mem_cons_of_mem _ h
    · rcases List.mem_cons.mp h with h | h
      · rw [h]; simp
      · exact List.mem_cons_of_mem _ (mem_alErase h)

theorem nodup_keys_alErase {β : Type} (k : Int) (m : List (Int × β)) (hn : (keys m).Nodup) :
    (keys (alErase k m)).Nodup := (keys_alErase_sublist k m).nodup hn

section
variable (br : Option (List α → List α → Bool)) (maxV : Int) (allowOver : Bool) (vf : α → Int)

/-- Invariant of the solver state relative to the items `pre` seen so far. -/
structure PInv (pre : List α) (st : VSt α) : Prop where
  nd : (keys st.dp).Nodup
  ndt : (keys st.tmp).Nodup
  snd : ∀ e ∈ st.dp, EntrySound vf pre e
  sndt : ∀ e ∈ st.tmp, EntrySound vf pre e
  ov : st.overflow = 0 ∨ (maxV < st.overflow ∧ Att vf pre st.overflow)
  noov : allowOver = false → ∀ k, (k ∈ keys st.dp ∨ k ∈ keys st.tmp) → k ≤ maxV ∨ k = 0

theorem PInv.mono {pre : List α} {st : VSt α} (x : α) (h : PInv maxV allowOver vf pre st) :
    PInv maxV allowOver vf (pre ++ [x]) st :=
  { nd := h.nd, ndt := h.ndt
    snd := fun e he => (h.snd e he).mono x
    sndt := fun e he => (h.sndt e he).mono x
    ov := h.ov.imp id (fun ⟨a, b⟩ => ⟨a, b.mono x⟩)
    noov := h.noov }

/-- The `continue` of the overshoot bookkeeping. -/
def SkipA (value : Int) (st : VSt α) (e : Int × List α) : Prop :=
  e.1 + value > maxV ∧ (allowOver = false ∨ (st.overflow > 0 ∧ e.1 + value > st.overflow))

/-- Shape of one step of the first loop. -/
theorem vStep1_shape (item : α) (value : Int) (st : VSt α) (e : Int × List α) :
    ∃ ov' tmp', vStep1 br maxV allowOver item value st e = { dp := st.dp, tmp := tmp', overflow := ov' } ∧
      (ov' = st.overflow ∨ (ov' = e.1 + value ∧ maxV < e.1 + value ∧ allowOver = true)) ∧
      (tmp' = st.tmp ∨ (tmp' = alInsert (e.1 + value) (e.2 ++ [item]) st.tmp ∧
          (e.1 + value ≤ maxV ∨ allowOver = true))) ∧
      (¬ SkipA maxV allowOver value st e →
        (e.1 + value ∈ keys st.dp ∨ tmp' = alInsert (e.1 + value) (e.2 ++ [item]) st.tmp)) := by
  simp only [vStep1, SkipA]
  by_cases hA : e.1 + value > maxV ∧ (allowOver = false ∨ (st.overflow > 0 ∧ e.1 + value > st.overflow))
  · rw [if_pos hA]
    exact ⟨st.overflow, st.tmp, rfl, Or.inl rfl, Or.inl rfl, fun h => absurd hA h⟩
  · rw [if_neg hA]
    have hallow : e.1 + value ≤ maxV ∨ allowOver = true := by
      by_cases h : e.1 + value > maxV
      · right; cases allowOver <;> simp_all
      · left; omega
    by_cases hgt : e.1 + value > maxV
    · rw [if_pos hgt]
      dsimp only
      have hov : (e.1 + value = st.overflow ∨ (e.1 + value = e.1 + value ∧ maxV < e.1 + value ∧ allowOver = true)) :=
        Or.inr ⟨rfl, hgt, by cases allowOver <;> simp_all⟩
      cases hl : alLookup (e.1 + value) st.dp with
      | none =>
        exact ⟨_, _, rfl, hov, Or.inr ⟨rfl, hallow⟩, fun _ => Or.inr rfl⟩
      | some old =>
        have hk : e.1 + value ∈ keys st.dp := alLookup_isSome_iff.mp (by rw [hl]; rfl)
        cases br with
        | none => exact ⟨_, _, rfl, hov, Or.inl rfl, fun _ => Or.inl hk⟩
        | some b =>
          simp only []
          by_cases hb : b old (e.2 ++ [item]) = true
          · simp only [hb, if_true]
            exact ⟨_, _, rfl, hov, Or.inr ⟨rfl, hallow⟩, fun _ => Or.inl hk⟩
          · simp only [hb]
            exact ⟨_, _, rfl, hov, Or.inl rfl, fun _ => Or.inl hk⟩
    · rw [if_neg hgt]
      cases hl : alLookup (e.1 + value) st.dp with
      | none =>
        exact ⟨_, _, rfl, Or.inl rfl, Or.inr ⟨rfl, hallow⟩, fun _ => Or.inr rfl⟩
      | some old =>
        have hk : e.1 + value ∈ keys st.dp := alLookup_isSome_iff.mp (by rw [hl]; rfl)
        cases br with
        | none => exact ⟨_, _, rfl, Or.inl rfl, Or.inl rfl, fun _ => Or.inl hk⟩
        | some b =>
          simp only []
          by_cases hb : b old (e.2 ++ [item]) = true
          · simp only [hb, if_true]
            exact ⟨_, _, rfl, Or.inl rfl, Or.inr ⟨rfl, hallow⟩, fun _ => Or.inl hk⟩
          · simp only [hb]
            exact ⟨_, _, rfl, Or.inl rfl, Or.inl rfl, fun _ => Or.inl hk⟩

/-- What an entry `e` of `dp` is owed after it has been visited in the pass of `x`:
the total `e.1 + vf x` is a key (of `dp` or `dpTmp`) if it is `≤ max`, or if overshoot is
allowed and it is the least attainable total above `max`. -/
def Owed (pre : List α) (x : α) (dp : List (Int × List α)) (e : Int × List α) (st : VSt α) : Prop :=
  (e.1 + vf x ≤ maxV ∨
    (allowOver = true ∧ ∀ a, Att vf (pre ++ [x]) a → maxV < a → e.1 + vf x ≤ a)) →
  (e.1 + vf x ∈ keys dp ∨ e.1 + vf x ∈ keys st.tmp)

theorem vStep1_inv {pre : List α} (x : α) (st : VSt α) (e : Int × List α)
    (hi : PInv maxV allowOver vf (pre ++ [x]) st) (he : EntrySound vf pre e) :
    let st' := vStep1 br maxV allowOver x (vf x) st e
    PInv maxV allowOver vf (pre ++ [x]) st' ∧ st'.dp = st.dp ∧
      (∀ k, k ∈ keys st.tmp → k ∈ keys st'.tmp) ∧ Owed maxV allowOver vf pre x st.dp e st' := by
  obtain ⟨ov', tmp', heq, hov, htmp, hprog⟩ := vStep1_shape br maxV allowOver x (vf x) st e
  simp only [heq]
  have hnew : EntrySound vf (pre ++ [x]) (e.1 + vf x, e.2 ++ [x]) :=
    ⟨he.1.append (List.Sublist.refl _), by simp only [isum_snoc, he.2]⟩
  refine ⟨?_, trivial, ?_, ?_⟩
  · refine { nd := hi.nd, ndt := ?_, snd := hi.snd, sndt := ?_, ov := ?_, noov := ?_ }
    · rcases htmp with rfl | ⟨rfl, _⟩
      · exact hi.ndt
      · exact nodup_keys_alInsert _ _ _ hi.ndt
    · rcases htmp with rfl | ⟨rfl, _⟩
      · exact hi.sndt
      · intro e' he'
        rcases mem_alInsert he' with rfl | he'
        · exact hnew
        · exact hi.sndt e' he'
    · rcases hov with rfl | ⟨rfl, hgt, _⟩
      · exact hi.ov
      · exact Or.inr ⟨hgt, ⟨_, hnew.1, hnew.2⟩⟩
    · intro hno k hk
      rcases htmp with rfl | ⟨rfl, hle⟩
      · exact hi.noov hno k hk
      · rcases hk with hk | hk
        · exact hi.noov hno k (Or.inl hk)
        · rcases (mem_keys_alInsert _ _ _ _).mp hk with rfl | hk
          · rcases hle with hle | hle
            · exact Or.inl hle
            · rw [hno] at hle; cases hle
          · exact hi.noov hno k (Or.inr hk)
  · intro k hk
    rcases htmp with rfl | ⟨rfl, _⟩
    · exact hk
    · exact (mem_keys_alInsert _ _ _ _).mpr (Or.inr hk)
  · intro hcond
    have hns : ¬ SkipA maxV allowOver (vf x) st e := by
      rintro ⟨hgt, hs⟩
      rcases hcond with hle | ⟨hallow, hleast⟩
      · omega
      · rcases hs with hs | ⟨hpos, hgt2⟩
        · rw [hallow] at hs; cases hs
        · rcases hi.ov with h0 | ⟨hm, hatt⟩
          · omega
          · have := hleast _ hatt hm; omega
    rcases hprog hns with h | rfl
    · exact Or.inl h
    · exact Or.inr ((mem_keys_alInsert _ _ _ _).mpr (Or.inl rfl))

/-- The first loop over any list of entries that are sound for `pre`. -/
theorem vLoop1_inv {pre : List α} (x : α) : ∀ (L : List (Int × List α)) (st : VSt α),
    PInv maxV allowOver vf (pre ++ [x]) st → (∀ e ∈ L, EntrySound vf pre e) →
    let st' := L.foldl (vStep1 br maxV allowOver x (vf x)) st
    PInv maxV allowOver vf (pre ++ [x]) st' ∧ st'.dp = st.dp ∧
      (∀ k, k ∈ keys st.tmp → k ∈ keys st'.tmp) ∧ ∀ e ∈ L, Owed maxV allowOver vf pre x st.dp e st'
  | [], st, hi, _ => by simp; exact hi
  | e :: L, st, hi, hs => by
    obtain ⟨h1, h2, h3, h4⟩ := vStep1_inv br maxV allowOver vf x st e hi (hs e (by simp))
    obtain ⟨i1, i2, i3, i4⟩ := vLoop1_inv x L _ h1 (fun e' he' => hs e' (List.mem_cons_of_mem _ he'))
    simp only [List.foldl_cons]
    refine ⟨i1, i2.trans h2, fun k hk => i3 k (h3 k hk), ?_⟩
    intro e' he'
    rcases List.mem_cons.mp he' with rfl | he'
    · intro hc
      rcases h4 hc with h | h
      · exact Or.inl h
      · exact Or.inr (i3 _ h)
    · have := i4 e' he'
      rw [h2] at this
      exact this

/-- The second loop (`dp[v] = solver; delete(dpTmp, v)`) over entries of `dpTmp`. -/
theorem vLoop2_inv {pre : List α} : ∀ (L : List (Int × List α)) (st : VSt α),
    PInv maxV allowOver vf pre st → (∀ e ∈ L, EntrySound vf pre e) →
    (allowOver = false → ∀ e ∈ L, e.1 ≤ maxV ∨ e.1 = 0) →
    let st' := L.foldl vStep2 st
    PInv maxV allowOver vf pre st' ∧ (∀ k, k ∈ keys st.dp → k ∈ keys st'.dp) ∧
      ∀ e ∈ L, e.1 ∈ keys st'.dp
  | [], st, hi, _, _ => by simp; exact hi
  | e :: L, st, hi, hs, hno => by
    have h1 : PInv maxV allowOver vf pre (vStep2 st e) :=
      { nd := nodup_keys_alInsert _ _ _ hi.nd
        ndt := nodup_keys_alErase _ _ hi.ndt
        snd := by
          intro e' he'
          rcases mem_alInsert he' with rfl | he'
          · exact hs _ (by simp)
          · exact hi.snd e' he'
        sndt := fun e' he' => hi.sndt e' (mem_alErase he')
        ov := hi.ov
        noov := by
          intro hn k hk
          rcases hk with hk | hk
          · rcases (mem_keys_alInsert _ _ _ _).mp hk with rfl | hk
            · exact hno hn e (by simp)
            · exact hi.noov hn k (Or.inl hk)
          · exact hi.noov hn k (Or.inr ((keys_alErase_sublist _ _).subset hk)) }
    obtain ⟨i1, i2, i3⟩ := vLoop2_inv L _ h1 (fun e' he' => hs e' (List.mem_cons_of_mem _ he'))
      (fun hn e' he' => hno hn e' (List.mem_cons_of_mem _ he'))
    simp only [List.foldl_cons]
    refine ⟨i1, ?_, ?_⟩
    · intro k hk
      exact i2 k ((mem_keys_alInsert _ _ _ _).mpr (Or.inr hk))
    · intro e' he'
      rcases List.mem_cons.mp he' with rfl | he'
      · exact i2 _ ((mem_keys_alInsert _ _ _ _).mpr (Or.inl rfl))
      · exact i3 e' he'

variable (ord1 ord2 : Nat → List Int → List Int)
variable (hord1 : ∀ i l, (ord1 i l).Perm l) (hord2 : ∀ i l, (ord2 i l).Perm l)

/-- Invariant between passes: `PInv` plus completeness below `max` and the overshoot key. -/
structure QInv (pre : List α) (st : VSt α) : Prop extends PInv maxV allowOver vf pre st where
  complete : ∀ t, Att vf pre t → t ≤ maxV → t ∈ keys st.dp
  least : allowOver = true → ∀ t, Att vf pre t → maxV < t →
    (∀ a, Att vf pre a → maxV < a → t ≤ a) → t ∈ keys st.dp

include hord1 hord2 in
theorem vPass_inv {pre : List α} (i : Nat) (x : α) (st : VSt α) (hx : 0 ≤ vf x)
    (hpos : allowOver = true → 0 < vf x)
    (hq : QInv maxV allowOver vf pre st) :
    QInv maxV allowOver vf (pre ++ [x]) (vPass br maxV allowOver vf ord1 ord2 i x st) := by
  unfold vPass
  have hmem1 := mem_entriesIn hq.nd (hord1 i (keys st.dp))
  simp only [keys] at hmem1
  obtain ⟨a1, a2, a3, a4⟩ := vLoop1_inv br maxV allowOver vf x
    (entriesIn st.dp (ord1 i (st.dp.map (·.1)))) st (hq.toPInv.mono maxV allowOver vf x)
    (fun e he => hq.snd e ((hmem1 e).mp he))
  generalize (entriesIn st.dp (ord1 i (st.dp.map (·.1)))).foldl (vStep1 br maxV allowOver x (vf x)) st = st1
    at a1 a2 a3 a4
  have hmem2 := mem_entriesIn a1.ndt (hord2 i (keys st1.tmp))
  simp only [keys] at hmem2
  obtain ⟨b1, b2, b3⟩ := vLoop2_inv maxV allowOver vf
    (entriesIn st1.tmp (ord2 i (st1.tmp.map (·.1)))) st1 a1
    (fun e he => a1.sndt e ((hmem2 e).mp he))
    (fun hn e he => a1.noov hn e.1 (Or.inr (List.mem_map.mpr ⟨e, (hmem2 e).mp he, rfl⟩)))
  generalize (entriesIn st1.tmp (ord2 i (st1.tmp.map (·.1)))).foldl vStep2 st1 = st2 at b1 b2 b3
  -- every key of dp ∪ dpTmp after loop 1 is a key at the end
  have hkeys : ∀ k, (k ∈ keys st.dp ∨ k ∈ keys st1.tmp) → k ∈ keys st2.dp := by
    intro k hk
    rcases hk with hk | hk
    · exact b2 k (by rw [a2]; exact hk)
    · obtain ⟨e, he, rfl⟩ := List.mem_map.mp hk
      exact b3 e ((hmem2 e).mpr he)
  -- an attainable total t = t' + vf x with t' a key: owed
  have howed : ∀ t', t' ∈ keys st.dp →
      (t' + vf x ≤ maxV ∨ (allowOver = true ∧ ∀ a, Att vf (pre ++ [x]) a → maxV < a → t' + vf x ≤ a)) →
      t' + vf x ∈ keys st2.dp := by
    intro t' ht' hc
    obtain ⟨e, he, rfl⟩ := List.mem_map.mp ht'
    exact hkeys _ (a4 e ((hmem1 e).mpr he) hc)
  refine { toPInv := b1, complete := ?_, least := ?_ }
  · intro t ⟨sel, hsel, hsum⟩ hle
    rcases sublist_snoc hsel with hsel | ⟨sel', rfl, hsel'⟩
    · exact hkeys t (Or.inl (hq.complete t ⟨sel, hsel, hsum⟩ hle))
    · rw [isum_snoc] at hsum
      have hk' := hq.complete (isum vf sel') ⟨sel', hsel', rfl⟩ (by omega)
      have := howed _ hk' (Or.inl (by omega))
      rw [hsum] at this; exact this
  · intro hallow t ⟨sel, hsel, hsum⟩ hgt hmin
    rcases sublist_snoc hsel with hsel | ⟨sel', rfl, hsel'⟩
    · refine hkeys t (Or.inl (hq.least hallow t ⟨sel, hsel, hsum⟩ hgt ?_))
      intro a ha hma; exact hmin a (ha.mono x) hma
    · rw [isum_snoc] at hsum
      have hp := hpos hallow
      -- the total without x is attainable and smaller, hence not above max
      have hle' : isum vf sel' ≤ maxV := by
        by_cases h : isum vf sel' ≤ maxV
        · exact h
        · have := hmin (isum vf sel') (Att.mono x ⟨sel', hsel', rfl⟩) (by omega); omega
      have hk' := hq.complete (isum vf sel') ⟨sel', hsel', rfl⟩ hle'
      have := howed _ hk' (Or.inr ⟨hallow, fun a ha hma => by rw [hsum]; exact hmin a ha hma⟩)
      rw [hsum] at this; exact this

include hord1 hord2 in
theorem vItems_inv : ∀ (items pre : List α) (i : Nat) (st : VSt α),
    (∀ x ∈ items, 0 ≤ vf x) → (allowOver = true → ∀ x ∈ items, 0 < vf x) →
    QInv maxV allowOver vf pre st →
    QInv maxV allowOver vf (pre ++ items) (vItems br maxV allowOver vf ord1 ord2 i items st)
  | [], pre, i, st, _, _, hq => by simpa [vItems] using hq
  | x :: xs, pre, i, st, h0, hp, hq => by
    have h1 := vPass_inv br maxV allowOver vf ord1 ord2 hord1 hord2 i x st (h0 x (by simp))
      (fun h => hp h x (by simp)) hq
    have := vItems_inv xs (pre ++ [x]) (i + 1) _ (fun y hy => h0 y (by simp [hy]))
      (fun h y hy => hp h y (by simp [hy])) h1
    simpa [vItems] using this

theorem qinv_init : QInv maxV allowOver vf ([] : List α) { dp := [(0, [])], tmp := [], overflow := 0 } :=
  { nd := by simp [keys], ndt := by simp [keys]
    snd := by intro e he; simp at he; subst he; exact ⟨List.Sublist.refl _, rfl⟩
    sndt := by intro e he; simp at he
    ov := Or.inl rfl
    noov := by intro _ k hk; simp [keys] at hk; exact Or.inr hk
    complete := by
      intro t ⟨sel, hs, hsum⟩ _
      have : sel = [] := List.sublist_nil.mp hs
      subst this; simp [isum] at hsum; simp [keys, hsum]
    least := by
      intro _ t ⟨sel, hs, hsum⟩ _ _
      have : sel = [] := List.sublist_nil.mp hs
      subst this; simp [isum] at hsum; simp [keys, hsum] }

include hord1 hord2 in
/-- Everything about the value-level result. -/
theorem solversV_spec (items : List α) (h0 : ∀ x ∈ items, 0 ≤ vf x)
    (hp : allowOver = true → ∀ x ∈ items, 0 < vf x) :
    let m := solversV br maxV allowOver vf ord1 ord2 items
    (keys m).Nodup ∧
    (∀ e ∈ m, e.2.Sublist items ∧ isum vf e.2 = e.1) ∧
    (∀ t, Att vf items t → t ≤ maxV → t ∈ keys m) ∧
    (allowOver = false → ∀ k ∈ keys m, k ≤ maxV ∨ k = 0) ∧
    (allowOver = true → ∀ t, Att vf items t → maxV < t →
      (∀ a, Att vf items a → maxV < a → t ≤ a) → t ∈ keys m) := by
  have := vItems_inv br maxV allowOver vf ord1 ord2 hord1 hord2 items [] 0 _ h0 hp
    (qinv_init maxV allowOver vf)
  simp only [List.nil_append] at this
  exact ⟨this.nd, this.snd, this.complete, fun hn k hk => this.noov hn k (Or.inl hk), this.least⟩

end
end Golib.C18
