/-
C04 helper lemmas, part 16: comparator shapes. Which comparators are strict weak orders (`<`, its
reverse, comparison by a key with ties, reverses and pull-backs of any strict weak order) — the
four comparators of the harness are instances.
-/
import Golib.Proof.C04Order

set_option linter.unusedSimpArgs false
set_option linter.unusedVariables false

namespace Golib.C04

/-- reverse of a strict weak order (`gt` from `lt`, a max-heap) -/
theorem SWO.reverse {cmp} (h : SWO cmp) : SWO (fun a b => cmp b a) :=
  ⟨fun a => h.irrefl a, fun a b c h1 h2 => h.trans c b a h2 h1,
   fun a b c h1 h2 h3 h4 => by
     have := h.incomp a b c h2 h1 h4 h3
     exact ⟨this.2, this.1⟩⟩

/-- comparison by a key (elements with equal keys are tied, whatever else distinguishes them) -/
theorem SWO.byKey {cmp} (h : SWO cmp) (key : Int → Int) : SWO (fun a b => cmp (key a) (key b)) :=
  ⟨fun a => h.irrefl _, fun a b c => h.trans _ _ _, fun a b c => h.incomp _ _ _⟩

theorem swo_lt : SWO (fun a b : Int => decide (a < b)) :=
  ⟨fun a => by simp, fun a b c h1 h2 => by simp at *; omega,
   fun a b c h1 h2 h3 h4 => by simp at *; omega⟩

/-- every comparator the harness knows (`lt`, `gt`, `key`, `rkey`) is a strict weak order -/
theorem cmpOf_swo {name : String} {cmp : Int → Int → Bool} (h : cmpOf name = some cmp) : SWO cmp := by
  unfold cmpOf at h
  split at h
  · cases h; exact swo_lt
  · split at h
    · cases h
      have := swo_lt.reverse
      refine ⟨this.irrefl, this.trans, this.incomp⟩
    · split at h
      · cases h; exact swo_lt.byKey (fun a => Int.tdiv a 1000)
      · split at h
        · cases h
          have := (swo_lt.byKey (fun a => Int.tdiv a 1000)).reverse
          refine ⟨this.irrefl, this.trans, this.incomp⟩
        · cases h

end Golib.C04
