/-
C11 — linearizability of the SyncList machine.

The run is instrumented with ghost state that does NOT influence `step`:
  `q`     the abstract FIFO queue,
  `orig`  the value every chain node was created with (nodes are cleared after a pop),
  `pend`  per thread, the value its `Pop` took at its linearization point, until it returns.
Linearization points: `Push(v)` = its publication `StorePointer(&l.tail, node)` (appends
`v` to `q`); successful `Pop` = its successful `CAS(&l.head, head, next)` (removes the head
of `q`).  The ghost queue therefore IS a legal FIFO history by construction; what is
proved is that the implementation agrees with it: `q` is exactly what the chain stores
between head and tail, a pop's CAS never happens on an empty `q`, and every successful
`Pop` returns the value removed from `q` at its linearization point.
-/
import Golib.Proof.C11Inv

namespace Golib.C11

structure Ghost where
  q : List Int
  orig : List Int
  pend : List (Option Int)
deriving Repr, DecidableEq

/-- Ghost update for one step of thread `i` from state `s` (looks at the pre-state). -/
def gstep (s : State) (g : Ghost) (i : Nat) : Ghost :=
  match s.threads[i]? with
  | none => g
  | some th =>
    match th.pc with
    | .pushCAS v t => if t + 1 = s.chain.length then { g with orig := g.orig ++ [v] } else g
    | .pushStore v _ => { g with q := g.q ++ [v] }
    | .popCAS h (some _) =>
      if s.head = h then { g with q := g.q.tail, pend := g.pend.set i g.q.head? } else g
    | .popAdd _ => { g with pend := g.pend.set i none }
    | _ => g

/-- Instrumented run. -/
def lrun : State → Ghost → List Nat → State × Ghost
  | s, g, [] => (s, g)
  | s, g, i :: σ => lrun (step .addThenStore s i).1 (gstep s g i) σ

theorem lrun_fst (s : State) (g : Ghost) (σ : List Nat) :
    (lrun s g σ).1 = (run .addThenStore s σ).1 := by
  induction σ generalizing s g with
  | nil => rfl
  | cons i σ ih => simp only [lrun, run]; exact ih _ _

def ginit (vals : List Int) (progs : List (List Call)) : Ghost :=
  { q := vals, orig := 0 :: vals, pend := progs.map fun _ => none }

/-- node whose `value` the thread's next access touches by a plain read/write -/
def plainNode : Pc → Option Nat
  | .popRead n => some n
  | .popClear n _ => some n
  | _ => none

def plainAt (n : Nat) (pc : Pc) : Bool := plainNode pc == some n

/-- what the ghost knows about a thread -/
def GOk (s : State) (g : Ghost) (i : Nat) : Pc → Prop
  | .pushAdd v n => g.orig[n]? = some v
  | .pushStore v n => g.orig[n]? = some v
  | .popRead n => ∃ x, g.pend[i]? = some (some x) ∧ g.orig[n]? = some x ∧ s.chain[n]? = some x
  | .popClear _ v => g.pend[i]? = some (some v)
  | .popAdd v => g.pend[i]? = some (some v)
  | _ => True

structure GInv (s : State) (g : Ghost) : Prop where
  inv : Inv s
  orig_len : g.orig.length = s.chain.length
  pend_len : g.pend.length = s.threads.length
  /-- the abstract queue is the published, not yet popped part of the chain -/
  absq : g.q = (g.orig.drop (s.head + 1)).take (s.tail - s.head)
  /-- nodes after the head still hold the value they were created with -/
  intact : ∀ k, s.head < k → s.chain[k]? = g.orig[k]?
  /-- at most one thread is about to touch a given node's value -/
  owner : ∀ n, cnt (plainAt n) s.threads ≤ 1
  locals : ∀ i th, s.threads[i]? = some th → GOk s g i th.pc

theorem stored_eq_q {s : State} {g : Ghost} (h : GInv s g) : stored s = g.q := by
  rw [h.absq, stored]
  have hl := h.orig_len
  apply List.ext_getElem?
  intro j
  simp only [List.getElem?_take, List.getElem?_drop]
  split
  · exact h.intact _ (by omega)
  · rfl

/-! ### list lemmas -/

theorem take_drop_append (l r : List Int) (a b : Nat) (h : a + b ≤ l.length) :
    ((l ++ r).drop a).take b = (l.drop a).take b := by
  apply List.ext_getElem?; intro i
  simp only [List.getElem?_take, List.getElem?_drop, List.getElem?_append]
  grind

theorem take_succ_drop (l : List Int) (a b : Nat) (x : Int) (h : l[a + b]? = some x) :
    (l.drop a).take (b + 1) = (l.drop a).take b ++ [x] := by
  apply List.ext_getElem?; intro i
  simp only [List.getElem?_take, List.getElem?_drop, List.getElem?_append, List.length_take,
    List.length_drop]
  grind

theorem take_drop_cons (l : List Int) (a b : Nat) (x : Int) (h : l[a]? = some x) :
    (l.drop a).take (b + 1) = x :: (l.drop (a + 1)).take b := by
  apply List.ext_getElem?; intro i
  cases i with
  | zero => simp [h]
  | succ i =>
    simp only [List.getElem?_take, List.getElem?_drop, List.getElem?_cons_succ]
    grind

/-! ### preservation -/

theorem GOk_finish (s : State) (g : Ghost) (i : Nat) (th : Thread) : GOk s g i th.finish.pc := by
  rcases finish_pc_cases th with h | ⟨v, h⟩ | h | h <;> rw [h] <;> simp [GOk]

theorem plainAt_finish (th : Thread) (n : Nat) : plainAt n th.finish.pc = false := by
  rcases finish_pc_cases th with h | ⟨v, h⟩ | h | h <;> rw [h] <;> simp [plainAt, plainNode]

/-- what another thread knows survives a step that keeps the facts it relies on -/
theorem GOk_transfer {s s' : State} {g g' : Ghost} {j : Nat} {pc : Pc} (h : GOk s g j pc)
    (ho : ∀ (n : Nat) (x : Int), g.orig[n]? = some x → g'.orig[n]? = some x)
    (hp : g'.pend[j]? = g.pend[j]?)
    (hc : ∀ n : Nat, plainAt n pc = true → s'.chain[n]? = s.chain[n]?) : GOk s' g' j pc := by
  cases pc <;> simp only [GOk] at h ⊢
  · exact ho _ _ h
  · exact ho _ _ h
  · obtain ⟨x, h1, h2, h3⟩ := h
    exact ⟨x, by rw [hp]; exact h1, ho _ _ h2, by rw [hc _ (by simp [plainAt, plainNode])]; exact h3⟩
  · rw [hp]; exact h
  · rw [hp]; exact h

/-- Steps that change neither chain, head, tail nor the ghost queue / node values. -/
theorem ginv_frame {s s' : State} {g g' : Ghost} {i : Nat} {th th' : Thread} (hG : GInv s g)
    (hth : s.threads[i]? = some th) (hI' : Inv s')
    (hc : s'.chain = s.chain) (hh : s'.head = s.head) (ht : s'.tail = s.tail)
    (hthr : s'.threads = s.threads.set i th') (hq : g'.q = g.q) (ho : g'.orig = g.orig)
    (hp : ∀ j, j ≠ i → g'.pend[j]? = g.pend[j]?) (hpl : g'.pend.length = g.pend.length)
    (hplain : ∀ n, plainAt n th'.pc = true → plainAt n th.pc = true)
    (hnew : GOk s' g' i th'.pc) : GInv s' g' := by
  refine ⟨hI', by rw [ho, hc]; exact hG.orig_len, by rw [hpl, hthr, List.length_set]; exact hG.pend_len,
    by rw [hq, ho, hh, ht]; exact hG.absq, by rw [hh, hc, ho]; exact hG.intact, ?_, ?_⟩
  · intro n
    rw [hthr]
    have := cnt_set (p := plainAt n) hth th'
    have h1 := hG.owner n
    cases e : plainAt n th'.pc with
    | false => rw [e] at this; simp only [Bool.toNat_false, Nat.add_zero] at this; omega
    | true => rw [e, hplain n e] at this; simp only [Bool.toNat_true] at this; omega
  · intro j b hb
    rw [hthr] at hb
    by_cases e : j = i
    · subst e
      have hlt : j < s.threads.length := by
        by_cases hlt : j < s.threads.length
        · exact hlt
        · rw [List.getElem?_eq_none (Nat.le_of_not_lt hlt)] at hth; simp at hth
      rw [List.getElem?_set_self hlt] at hb
      obtain rfl := Option.some.inj hb
      exact hnew
    · rw [List.getElem?_set_ne (fun e' => e e'.symm)] at hb
      exact GOk_transfer (hG.locals j b hb) (by rw [ho]; exact fun _ _ h => h) (hp j e)
        (fun _ _ => by rw [hc])

theorem lt_of_getElem?_some {α : Type} {l : List α} {i : Nat} {a : α} (h : l[i]? = some a) :
    i < l.length := by
  by_cases hlt : i < l.length
  · exact hlt
  · rw [List.getElem?_eq_none (Nat.le_of_not_lt hlt)] at h; simp at h

/-- frame case with the ghost untouched -/
syntax "frame_same " term : tactic
set_option hygiene false in
macro_rules
  | `(tactic| frame_same $t) => `(tactic|
      exact ginv_frame hG hth hI' rfl rfl rfl rfl rfl rfl (fun _ _ => rfl) rfl
        (by intro n; simp [hpc, plainAt, plainNode]) $t)

/-- a failed inner `Pop` touches neither shared memory nor the ghost -/
theorem ginv_popFail {s : State} {g : Ghost} {i : Nat} {th : Thread} {acc : Acc} (hG : GInv s g)
    (hth : s.threads[i]? = some th) (hI' : Inv (s.popFail i th acc).1) :
    GInv (s.popFail i th acc).1 g := by
  unfold State.popFail at hI' ⊢
  by_cases hsp : th.spin = true
  · simp only [hsp, if_true] at hI' ⊢
    exact ginv_frame hG hth hI' rfl rfl rfl rfl rfl rfl (fun _ _ => rfl) rfl
      (by intro n; simp [plainAt, plainNode]) (by simp [GOk])
  · simp only [hsp] at hI' ⊢
    by_cases htk : 0 < th.ticks
    · simp only [htk, if_true] at hI' ⊢
      exact ginv_frame hG hth hI' rfl rfl rfl rfl rfl rfl (fun _ _ => rfl) rfl
        (by intro n; simp [plainAt, plainNode]) (by simp [GOk])
    · simp only [htk] at hI' ⊢
      exact ginv_frame hG hth hI' rfl rfl rfl rfl rfl rfl (fun _ _ => rfl) rfl
        (by intro n; simp [plainAt_finish]) (GOk_finish _ _ _ _)

set_option maxHeartbeats 1000000 in
theorem ginv_step {s : State} {g : Ghost} (hG : GInv s g) (i : Nat) :
    GInv (step .addThenStore s i).1 (gstep s g i) := by
  have hI' := inv_step hG.inv i
  unfold step at hI' ⊢
  unfold gstep
  cases hth : s.threads[i]? with
  | none => exact hG
  | some th =>
    have hloc := hG.inv.locals th (List.mem_of_getElem? hth)
    have hgl := hG.locals i th hth
    have hilt := lt_of_getElem?_some hth
    rw [hth] at hI'
    dsimp only at hI' ⊢
    cases hpc : th.pc with
    | idle => rw [hpc] at hI'; exact hG
    | pushLoadTail v =>
      rw [hpc] at hI'; dsimp only at hI' ⊢
      frame_same (by simp [GOk])
    | pushLoadNext v t =>
      rw [hpc] at hI'; dsimp only at hI' ⊢
      split
      · rename_i hc; simp only [hc, if_true] at hI'
        frame_same (by simp [GOk])
      · rename_i hc; simp only [hc, if_false] at hI'
        frame_same (by simp [GOk])
    | pushYield v =>
      rw [hpc] at hI'; dsimp only at hI' ⊢
      frame_same (by simp [GOk])
    | popLoadHead =>
      rw [hpc] at hI'; dsimp only at hI' ⊢
      frame_same (by simp [GOk])
    | popLoadTail h =>
      rw [hpc] at hI'; dsimp only at hI' ⊢
      split
      · rename_i hc; simp only [hc, if_true] at hI'
        exact ginv_popFail hG hth hI'
      · rename_i hc; simp only [hc, if_false] at hI'
        frame_same (by simp [GOk])
    | popYield =>
      rw [hpc] at hI'; dsimp only at hI' ⊢
      frame_same (by simp [GOk])
    | popTick =>
      rw [hpc] at hI'; dsimp only at hI' ⊢
      frame_same (by simp [GOk])
    | popLoadNext h =>
      rw [hpc] at hI'; dsimp only at hI' ⊢
      frame_same (by simp [GOk])
    | lenLoad =>
      rw [hpc] at hI'; dsimp only at hI' ⊢
      exact ginv_frame hG hth hI' rfl rfl rfl rfl rfl rfl (fun _ _ => rfl) rfl
        (by intro n; simp [plainAt_finish]) (GOk_finish _ _ _ _)
    | pushAdd v n =>
      rw [hpc] at hI'; dsimp only at hI' ⊢
      simp only [hpc, GOk] at hgl
      frame_same (by simp only [GOk]; exact hgl)
    | popRead n =>
      rw [hpc] at hI'; dsimp only at hI' ⊢
      simp only [hpc, GOk] at hgl
      obtain ⟨x, h1, h2, h3⟩ := hgl
      rw [h3] at hI' ⊢
      dsimp only at hI' ⊢
      frame_same (by simp only [GOk]; exact h1)
    | popAdd v =>
      rw [hpc] at hI'; dsimp only at hI' ⊢
      exact ginv_frame hG hth hI' rfl rfl rfl rfl rfl rfl
        (fun j hj => by simp only; rw [List.getElem?_set_ne (fun e => hj e.symm)])
        (by simp) (by intro n; simp [plainAt_finish]) (GOk_finish _ _ _ _)
    | popClear n v =>
      rw [hpc] at hI'; dsimp only at hI' ⊢
      simp only [hpc, GOk] at hgl
      simp only [hpc, PcOk] at hloc
      refine ⟨hI', by simp only [State.setPc, List.length_set]; exact hG.orig_len,
        by simp only [State.setPc, List.length_set]; exact hG.pend_len, hG.absq, ?_, ?_, ?_⟩
      · intro k hk
        simp only [State.setPc] at hk ⊢
        rw [List.getElem?_set_ne (by omega)]
        exact hG.intact k hk
      · intro m
        simp only [State.setPc]
        have := cnt_set (p := plainAt m) hth { th with pc := .popAdd v }
        have h1 := hG.owner m
        simp only [plainAt, plainNode] at this
        have e : (none == some m) = false := rfl
        rw [e] at this
        simp only [Bool.toNat_false, Nat.add_zero] at this
        omega
      · intro j b hb
        simp only [State.setPc] at hb ⊢
        by_cases e : j = i
        · subst e
          rw [List.getElem?_set_self hilt] at hb
          obtain rfl := Option.some.inj hb
          simp only [GOk]; exact hgl
        · rw [List.getElem?_set_ne (fun e' => e e'.symm)] at hb
          refine GOk_transfer (hG.locals j b hb) (fun _ _ h => h) rfl ?_
          intro m hm
          simp only
          by_cases emn : n = m
          · exfalso
            subst emn
            have := cnt_two (p := plainAt n) e hb hth hm (by simp [hpc, plainAt, plainNode])
            have := hG.owner n
            omega
          · rw [List.getElem?_set_ne emn]
    | pushStore v n =>
      rw [hpc] at hI'; dsimp only at hI' ⊢
      simp only [hpc, GOk] at hgl
      simp only [hpc, PcOk] at hloc
      have hht := hG.inv.head_le_tail
      refine ⟨hI', hG.orig_len, by simp only [State.fin, List.length_set]; exact hG.pend_len,
        ?_, hG.intact, ?_, ?_⟩
      · simp only [State.fin]
        rw [hG.absq]
        have e : n - s.head = (s.tail - s.head) + 1 := by omega
        rw [e]
        exact (take_succ_drop _ _ _ _ (by rw [← hgl]; congr 1; omega)).symm
      · intro m
        simp only [State.fin]
        have := cnt_set (p := plainAt m) hth th.finish
        have h1 := hG.owner m
        rw [plainAt_finish, hpc] at this
        simp only [plainAt, plainNode] at this
        have e : (none == some m) = false := rfl
        rw [e] at this
        simp only [Bool.toNat_false, Nat.add_zero] at this
        omega
      · intro j b hb
        simp only [State.fin] at hb ⊢
        by_cases e : j = i
        · subst e
          rw [List.getElem?_set_self hilt] at hb
          obtain rfl := Option.some.inj hb
          exact GOk_finish _ _ _ _
        · rw [List.getElem?_set_ne (fun e' => e e'.symm)] at hb
          exact GOk_transfer (hG.locals j b hb) (fun _ _ h => h) rfl (fun _ _ => rfl)
    | pushCAS v t =>
      rw [hpc] at hI'; dsimp only at hI' ⊢
      simp only [hpc, PcOk] at hloc
      have hlen := hG.inv.chain_len
      have hol := hG.orig_len
      by_cases hc : t + 1 = s.chain.length
      · simp only [if_pos hc] at hI' ⊢
        refine ⟨hI', by simp only [State.setPc, List.length_append]; omega,
          by simp only [State.setPc, List.length_set]; exact hG.pend_len, ?_, ?_, ?_, ?_⟩
        · simp only [State.setPc]
          rw [take_drop_append _ _ _ _ (by have := hG.inv.head_le_tail; omega)]
          exact hG.absq
        · intro k hk
          simp only [State.setPc] at hk ⊢
          simp only [List.getElem?_append, hol]
          split
          · exact hG.intact k hk
          · rfl
        · intro m
          simp only [State.setPc]
          have := cnt_set (p := plainAt m) hth { th with pc := .pushAdd v (t + 1) }
          have h1 := hG.owner m
          rw [hpc] at this
          simp only [plainAt, plainNode] at this
          have e : (none == some m) = false := rfl
          rw [e] at this
          simp only [Bool.toNat_false, Nat.add_zero] at this
          omega
        · intro j b hb
          simp only [State.setPc] at hb ⊢
          by_cases e : j = i
          · subst e
            rw [List.getElem?_set_self hilt] at hb
            obtain rfl := Option.some.inj hb
            simp only [GOk]
            rw [List.getElem?_append_right (by omega)]
            simp [hc, hol]
          · rw [List.getElem?_set_ne (fun e' => e e'.symm)] at hb
            refine GOk_transfer (hG.locals j b hb) ?_ rfl ?_
            · intro k x hk
              simp only
              rw [List.getElem?_append_left (lt_of_getElem?_some hk)]
              exact hk
            · intro m hm
              simp only
              have hb' := hG.inv.locals b (List.mem_of_getElem? hb)
              have hmle : m ≤ s.head := by
                cases hbp : b.pc <;> rw [hbp] at hm hb' <;>
                  simp only [plainAt, plainNode, beq_iff_eq, Option.some.injEq, reduceCtorEq] at hm <;>
                  simp only [PcOk] at hb' <;> omega
              have := hG.inv.head_le_tail
              rw [List.getElem?_append_left (by omega)]
      · simp only [if_neg hc] at hI' ⊢
        frame_same (by simp [GOk])
    | popCAS h nopt =>
      rw [hpc] at hI'; dsimp only at hI' ⊢
      simp only [hpc, PcOk] at hloc
      obtain ⟨_, hlt, rfl⟩ := hloc
      have hlen := hG.inv.chain_len
      have hol := hG.orig_len
      by_cases hc : s.head = h
      · simp only [if_pos hc] at hI' ⊢
        have hx : h + 1 < g.orig.length := by omega
        have hxe : g.orig[h + 1]? = some g.orig[h + 1] := List.getElem?_eq_getElem hx
        have hq : g.q = g.orig[h + 1] :: (g.orig.drop (h + 1 + 1)).take (s.tail - (h + 1)) := by
          rw [hG.absq, hc]
          have e : s.tail - h = (s.tail - (h + 1)) + 1 := by omega
          rw [e]
          exact take_drop_cons _ _ _ _ hxe
        refine ⟨hI', hG.orig_len, by simp only [State.setPc, List.length_set]; exact hG.pend_len,
          ?_, ?_, ?_, ?_⟩
        · simp only [State.setPc]
          rw [hq]; rfl
        · intro k hk
          simp only [State.setPc] at hk ⊢
          exact hG.intact k (by omega)
        · intro m
          simp only [State.setPc]
          have := cnt_set (p := plainAt m) hth { th with pc := .popRead (h + 1) }
          have h1 := hG.owner m
          rw [hpc] at this
          simp only [plainAt, plainNode] at this
          have e : (none == some m) = false := rfl
          rw [e] at this
          simp only [Bool.toNat_false, Nat.add_zero] at this
          by_cases em : h + 1 = m
          · subst em
            have h0 : cnt (plainAt (h + 1)) s.threads = 0 := by
              simp only [cnt, List.countP_eq_zero]
              intro b hb hp
              have hb' := hG.inv.locals b hb
              cases hbp : b.pc <;> rw [hbp] at hp hb' <;>
                simp only [plainAt, plainNode, beq_iff_eq, Option.some.injEq, reduceCtorEq] at hp <;>
                simp only [PcOk] at hb' <;> omega
            simp only [beq_self_eq_true, Bool.toNat_true] at this
            omega
          · have e2 : (some (h + 1) == some m) = false := by simp [em]
            rw [e2] at this
            simp only [Bool.toNat_false, Nat.add_zero] at this
            omega
        · intro j b hb
          simp only [State.setPc] at hb ⊢
          by_cases e : j = i
          · subst e
            rw [List.getElem?_set_self hilt] at hb
            obtain rfl := Option.some.inj hb
            simp only [GOk]
            refine ⟨g.orig[h + 1], ?_, hxe, ?_⟩
            · rw [List.getElem?_set_self (by rw [hG.pend_len]; exact hilt), hq]; rfl
            · rw [hG.intact (h + 1) (by omega)]; exact hxe
          · rw [List.getElem?_set_ne (fun e' => e e'.symm)] at hb
            exact GOk_transfer (hG.locals j b hb) (fun _ _ h => h)
              (by simp only; rw [List.getElem?_set_ne (fun e' => e e'.symm)]) (fun _ _ => rfl)
      · simp only [if_neg hc] at hI' ⊢
        exact ginv_popFail hG hth hI'

theorem ginv_init (vals : List Int) (progs : List (List Call)) :
    GInv (init vals progs) (ginit vals progs) := by
  refine ⟨inv_init vals progs, by simp [init, ginit], by simp [init, ginit], ?_, ?_, ?_, ?_⟩
  · simp [init, ginit]
  · intro k _; simp [init, ginit]
  · intro n
    have : cnt (plainAt n) (init vals progs).threads = 0 := by
      simp only [cnt, List.countP_eq_zero, init, List.mem_map]
      rintro th ⟨pr, _, rfl⟩
      simp [mkThread, plainAt_finish]
    omega
  · intro i th hth
    simp only [init, List.getElem?_map] at hth
    cases hp : progs[i]? with
    | none => rw [hp] at hth; simp at hth
    | some pr =>
      rw [hp] at hth
      simp only [Option.map_some, Option.some.injEq] at hth
      subst hth
      exact GOk_finish _ _ _ _

theorem ginv_lrun {s : State} {g : Ghost} (hG : GInv s g) (σ : List Nat) :
    GInv (lrun s g σ).1 (lrun s g σ).2 := by
  induction σ generalizing s g with
  | nil => exact hG
  | cons i σ ih => simp only [lrun]; exact ih (ginv_step hG i)

/-- The ghost queue only ever changes like a FIFO queue: a value is appended at a
publication step, the head is removed at a successful head-CAS. -/
theorem gstep_q (s : State) (g : Ghost) (i : Nat) :
    (gstep s g i).q = g.q ∨
    (∃ th v n, s.threads[i]? = some th ∧ th.pc = .pushStore v n ∧ (gstep s g i).q = g.q ++ [v]) ∨
    (∃ th h n, s.threads[i]? = some th ∧ th.pc = .popCAS h (some n) ∧ s.head = h ∧
      (gstep s g i).q = g.q.tail) := by
  unfold gstep
  cases hth : s.threads[i]? with
  | none => left; rfl
  | some th =>
    dsimp only
    cases hpc : th.pc with
    | pushStore v n => right; left; exact ⟨th, v, n, rfl, hpc, rfl⟩
    | pushCAS v t => left; dsimp only; split <;> rfl
    | popCAS h n =>
      cases n with
      | none => left; rfl
      | some n =>
        dsimp only
        by_cases hc : s.head = h
        · right; right; exact ⟨th, h, n, rfl, hpc, hc, by simp [hc]⟩
        · left; simp [hc]
    | popAdd v => left; rfl
    | _ => left; rfl

/-- A successful head-CAS finds the abstract queue non-empty; a `Pop` that is about to
return `(v, true)` returns the value it removed at its linearization point. -/
theorem lin_pop_facts {s : State} {g : Ghost} (hG : GInv s g) {i : Nat} {th : Thread}
    (hth : s.threads[i]? = some th) :
    (∀ h n, th.pc = .popCAS h n → s.head = h → ∃ x rest, g.q = x :: rest ∧ g.orig[h + 1]? = some x) ∧
    (∀ v, th.pc = .popAdd v → g.pend[i]? = some (some v)) := by
  refine ⟨?_, ?_⟩
  · intro h n hpc hc
    have hloc := hG.inv.locals th (List.mem_of_getElem? hth)
    simp only [hpc, PcOk] at hloc
    obtain ⟨_, hlt, _⟩ := hloc
    have hlen := hG.inv.chain_len
    have hol := hG.orig_len
    have hx : h + 1 < g.orig.length := by omega
    have hxe : g.orig[h + 1]? = some g.orig[h + 1] := List.getElem?_eq_getElem hx
    refine ⟨g.orig[h + 1], (g.orig.drop (h + 1 + 1)).take (s.tail - (h + 1)), ?_, hxe⟩
    rw [hG.absq, hc]
    have e : s.tail - h = (s.tail - (h + 1)) + 1 := by omega
    rw [e]
    exact take_drop_cons _ _ _ _ hxe
  · intro v hpc
    have := hG.locals i th hth
    simp only [hpc, GOk] at this
    exact this

/-- `Pop` returns false only with a reason. -/
theorem false_pop_facts {s : State} {g : Ghost} (hG : GInv s g) {i : Nat} {th : Thread}
    (hth : s.threads[i]? = some th) :
    (∀ h, th.pc = .popLoadTail h → h = s.tail → g.q = [] ∧ stored s = []) ∧
    (∀ h n, th.pc = .popCAS h n → s.head ≠ h → h < s.head) := by
  have hloc := hG.inv.locals th (List.mem_of_getElem? hth)
  refine ⟨?_, ?_⟩
  · intro h hpc he
    simp only [hpc, PcOk] at hloc
    have hht := hG.inv.head_le_tail
    have hl := stored_length hG.inv
    have h0 : (stored s).length = 0 := by omega
    have hs : stored s = [] := List.eq_nil_of_length_eq_zero h0
    exact ⟨by rw [← stored_eq_q hG]; exact hs, hs⟩
  · intro h n hpc hne
    simp only [hpc, PcOk] at hloc
    omega

/-- No two threads are both about to touch the same node's value by a plain access. -/
theorem no_conflict {s : State} {g : Ghost} (hG : GInv s g) {i j : Nat} {a b : Thread}
    (hij : i ≠ j) (hi : s.threads[i]? = some a) (hj : s.threads[j]? = some b) {n : Nat}
    (ha : plainNode a.pc = some n) (hb : plainNode b.pc = some n) : False := by
  have := cnt_two (p := plainAt n) hij hi hj (by simp [plainAt, ha]) (by simp [plainAt, hb])
  have := hG.owner n
  omega

theorem step_pushLoadTail {s : State} {i : Nat} {th : Thread} {v : Int}
    (hth : s.threads[i]? = some th) (hpc : th.pc = .pushLoadTail v) :
    step .addThenStore s i = (s.setPc i th (.pushLoadNext v s.tail), ⟨i, .ldTail s.tail, none⟩) := by
  unfold step; rw [hth]; dsimp only; rw [hpc]

theorem step_pushLoadNext {s : State} {i : Nat} {th : Thread} {v : Int} {t : Nat}
    (hth : s.threads[i]? = some th) (hpc : th.pc = .pushLoadNext v t) (h : ¬ t + 1 < s.chain.length) :
    step .addThenStore s i = (s.setPc i th (.pushCAS v t), ⟨i, .ldNext t none, none⟩) := by
  unfold step; rw [hth]; dsimp only; rw [hpc]; dsimp only; rw [if_neg h]

theorem step_pushCAS {s : State} {i : Nat} {th : Thread} {v : Int} {t : Nat}
    (hth : s.threads[i]? = some th) (hpc : th.pc = .pushCAS v t) (h : t + 1 = s.chain.length) :
    step .addThenStore s i = ({ s with chain := s.chain ++ [v] }.setPc i th (.pushAdd v (t + 1)),
      ⟨i, .casNext t true (t + 1), none⟩) := by
  unfold step; rw [hth]; dsimp only; rw [hpc]; dsimp only; rw [if_pos h]

theorem step_pushAdd {s : State} {i : Nat} {th : Thread} {v : Int} {n : Nat}
    (hth : s.threads[i]? = some th) (hpc : th.pc = .pushAdd v n) :
    step .addThenStore s i = ({ s with len := s.len + 1 }.setPc i th (.pushStore v n),
      ⟨i, .addLen 1 (s.len + 1), none⟩) := by
  unfold step; rw [hth]; dsimp only; rw [hpc]

theorem step_pushStore {s : State} {i : Nat} {th : Thread} {v : Int} {n : Nat}
    (hth : s.threads[i]? = some th) (hpc : th.pc = .pushStore v n) :
    step .addThenStore s i = ({ s with tail := n }.fin i th, ⟨i, .stTail n, some .push⟩) := by
  unfold step; rw [hth]; dsimp only; rw [hpc]

/-- If every other thread is idle, a `Push` at its loop head returns after five of its
own steps (load tail, load next, link CAS, add, publish). -/
theorem push_completes_solo {s : State} (hI : Inv s) {i : Nat} {th : Thread} {v : Int}
    (hth : s.threads[i]? = some th) (hpc : th.pc = .pushLoadTail v)
    (hidle : ∀ j b, j ≠ i → s.threads[j]? = some b → b.pc = .idle) :
    (run .addThenStore s [i, i, i, i, i]).2.map (·.ret) = [none, none, none, none, some .push] := by
  have h0 : cnt isPushPost s.threads = 0 := by
    simp only [cnt, List.countP_eq_zero]
    intro b hb
    obtain ⟨j, hj⟩ := List.getElem?_of_mem hb
    by_cases e : j = i
    · subst e
      rw [hth] at hj
      obtain rfl := Option.some.inj hj
      simp [hpc, isPushPost]
    · simp [hidle j b e hj, isPushPost]
  have hlen : s.chain.length = s.tail + 1 := by have := hI.chain_len; omega
  have hilt := lt_of_getElem?_some hth
  have g : ∀ (s' : State) (th' : Thread), s'.threads = s.threads.set i th' → s'.threads[i]? = some th' := by
    intro s' th' h; rw [h, List.getElem?_set_self hilt]
  have g2 : ∀ (l : List Thread) (a b : Thread), (l.set i a).set i b = l.set i b := by
    intro l a b; simp
  simp only [run]
  rw [step_pushLoadTail hth hpc]
  rw [step_pushLoadNext (th := { th with pc := .pushLoadNext v s.tail }) (g _ _ rfl) rfl
    (by simp only [State.setPc]; omega)]
  rw [step_pushCAS (th := { th with pc := .pushCAS v s.tail }) (g _ _ (by simp only [State.setPc, g2]))
    rfl (by simp only [State.setPc]; omega)]
  rw [step_pushAdd (th := { th with pc := .pushAdd v (s.tail + 1) })
    (g _ _ (by simp only [State.setPc, g2])) rfl]
  rw [step_pushStore (th := { th with pc := .pushStore v (s.tail + 1) })
    (g _ _ (by simp only [State.setPc, g2])) rfl]
  rfl

end Golib.C11
