/-
`trieNodeQueue` (algz/trie.go, growable ring buffer) refines a FIFO list.
-/
import Golib.Model.C05Trie

namespace Golib.C05

/-- representation invariant -/
structure Queue.Inv (q : Queue) : Prop where
  cap_pos : 0 < q.cap
  len_eq : q.nodes.length = q.cap
  head_le : q.head ≤ q.tail
  size_le : q.tail - q.head ≤ q.cap

/-- abstraction: the queued labels, oldest first -/
def Queue.content (q : Queue) : List Label :=
  (List.range (q.tail - q.head)).map fun k => (q.nodes[(q.head + k) % q.cap]?).getD []

theorem Queue.content_length (q : Queue) : q.content.length = q.tail - q.head := by
  simp [Queue.content]

/-! ### modular arithmetic helpers -/

theorem mod_ne_of_lt_of_lt {a b c : Nat} (h1 : a < b) (h2 : b < a + c) : a % c ≠ b % c := by
  intro h
  have h3 := Nat.sub_mod_eq_zero_of_mod_eq h.symm
  rw [Nat.mod_eq_of_lt (by omega)] at h3
  omega

/-- ring positions when the buffer is full, relative to `h0 = head % cap` -/
theorem ring_pos {hd cap k : Nat} (hk : k < cap) :
    (hd + k) % cap = if hd % cap + k < cap then hd % cap + k else hd % cap + k - cap := by
  have hlt : hd % cap < cap := Nat.mod_lt _ (by omega)
  rw [← Nat.mod_add_mod]
  split
  · rename_i h; exact Nat.mod_eq_of_lt h
  · rename_i h
    rw [Nat.mod_eq_sub_mod (by omega)]
    exact Nat.mod_eq_of_lt (by omega)

theorem tail_pos {hd cap : Nat} (hc : 0 < cap) :
    (hd + cap - 1) % cap = if hd % cap = 0 then cap - 1 else hd % cap - 1 := by
  have hlt : hd % cap < cap := Nat.mod_lt _ hc
  have e : hd + cap - 1 = hd + (cap - 1) := by omega
  rw [e, ring_pos (by omega)]
  split <;> split <;> omega

/-! ### the plain store step -/

theorem Queue.store_spec (q : Queue) (x : Label) (h : q.Inv) (hlt : q.tail - q.head < q.cap) :
    ∃ nv, set? q.nodes (q.tail % q.cap) x = some nv ∧
      ({ q with nodes := nv, tail := q.tail + 1 } : Queue).Inv ∧
      ({ q with nodes := nv, tail := q.tail + 1 } : Queue).content = q.content ++ [x] := by
  obtain ⟨nodes, hd, tl, cap⟩ := q
  obtain ⟨h1, h2, h3, h4⟩ := h
  simp only at h1 h2 h3 h4 hlt
  have hm : tl % cap < cap := Nat.mod_lt _ h1
  refine ⟨nodes.set (tl % cap) x, ?_, ?_, ?_⟩
  · simp only [set?]
    rw [if_pos (by omega)]
  · constructor <;> simp only [List.length_set] <;> omega
  · simp only [Queue.content]
    have e : tl + 1 - hd = (tl - hd) + 1 := by omega
    rw [e, List.range_succ, List.map_append]
    congr 1
    · apply List.map_congr_left
      intro k hk
      rw [List.mem_range] at hk
      have : tl % cap ≠ (hd + k) % cap := by
        intro hh
        exact mod_ne_of_lt_of_lt (a := hd + k) (b := tl) (c := cap) (by omega) (by omega) hh.symm
      rw [List.getElem?_set_ne this]
    · have e2 : hd + (tl - hd) = tl := by omega
      simp only [List.map_cons, List.map_nil, e2]
      rw [List.getElem?_set_self (by omega)]
      rfl

/-! ### growth -/

/-- the `copied` expression of `Queue.push`, verbatim -/
def Queue.growCopied (q : Queue) : Option (List Label) :=
  let tailPos := (q.tail - 1) % q.cap
  let headPos := q.head % q.cap
  let cap' := q.cap * 2
  let newNodes : List Label := List.replicate cap' []
  if tailPos > headPos then
    (slice? q.nodes headPos (tailPos + 1)).map fun s => (copyInto newNodes s).1
  else
    match slice? q.nodes headPos q.nodes.length, slice? q.nodes 0 (tailPos + 1) with
    | some s1, some s2 =>
      let (nv, n) := copyInto newNodes s1
      some (nv.take n ++ (copyInto (nv.drop n) s2).1)
    | _, _ => none

theorem Queue.push_eq (q : Queue) (x : Label) :
    q.push x =
      match (if q.isFull then
          if q.cap = 0 then none
          else q.growCopied.map fun nv =>
            ({ nodes := nv, head := 0, tail := q.tail - q.head, cap := q.cap * 2 } : Queue)
        else some q) with
      | none => none
      | some q1 =>
        if q1.cap = 0 then none
        else (set? q1.nodes (q1.tail % q1.cap) x).map fun nv =>
          { q1 with nodes := nv, tail := q1.tail + 1 } := rfl

theorem copyInto_replicate {α} (n : Nat) (a : α) (s : List α) (h : s.length ≤ n) :
    copyInto (List.replicate n a) s = (s ++ List.replicate (n - s.length) a, s.length) := by
  simp only [copyInto, List.length_replicate]
  rw [Nat.min_eq_right h, List.take_length, List.drop_replicate]

theorem two_part_copy (nodes : List Label) (cap h0 t : Nat) (h2 : nodes.length = cap)
    (hlt : h0 < cap) (ht1 : h0 ≤ t) (ht2 : t ≤ cap) :
    ∃ nv,
      (match slice? nodes h0 nodes.length, slice? nodes 0 t with
        | some s1, some s2 =>
          some
            (List.take (copyInto (List.replicate (cap * 2) ([] : Label)) s1).snd
                (copyInto (List.replicate (cap * 2) []) s1).fst ++
              (copyInto
                  (List.drop (copyInto (List.replicate (cap * 2) []) s1).snd
                    (copyInto (List.replicate (cap * 2) []) s1).fst)
                  s2).fst)
        | _, _ => none) = some nv ∧
      nv.length = cap * 2 ∧
      ∀ k, k < cap → nv[k]? = nodes[if h0 + k < cap then h0 + k else h0 + k - cap]? := by
  have e1 : slice? nodes h0 nodes.length = some (nodes.drop h0) := by
    simp only [slice?]
    rw [if_pos (by omega), List.take_length]
  have e2 : slice? nodes 0 t = some (nodes.take t) := by
    simp only [slice?]
    rw [if_pos (by omega), List.drop_zero]
  rw [e1, e2]
  have c1 := copyInto_replicate (cap * 2) ([] : Label) (nodes.drop h0)
    (by rw [List.length_drop]; omega)
  simp only [c1]
  rw [List.take_left, List.drop_left]
  have c2 := copyInto_replicate (cap * 2 - (nodes.drop h0).length) ([] : Label) (nodes.take t)
    (by rw [List.length_drop, List.length_take]; omega)
  simp only [c2]
  refine ⟨_, rfl, ?_, ?_⟩
  · simp only [List.length_append, List.length_take, List.length_drop, List.length_replicate]
    omega
  · intro k hk
    simp only [List.getElem?_append, List.getElem?_take, List.getElem?_drop,
      List.length_take, List.length_drop, h2]
    by_cases hc : h0 + k < cap
    · rw [if_pos (by omega), if_pos hc]
    · rw [if_neg (by omega), if_pos (by omega), if_pos (by omega), if_neg hc]
      congr 1
      omega

theorem Queue.grow_spec (q : Queue) (h : q.Inv) (hf : q.tail = q.head + q.cap) :
    ∃ nv, q.growCopied = some nv ∧ nv.length = q.cap * 2 ∧
      ∀ k, k < q.cap → nv[k]? = q.nodes[(q.head + k) % q.cap]? := by
  obtain ⟨nodes, hd, tl, cap⟩ := q
  obtain ⟨h1, h2, h3, h4⟩ := h
  simp only at h1 h2 h3 h4 hf
  subst hf
  have hlt : hd % cap < cap := Nat.mod_lt _ h1
  have htp := tail_pos (hd := hd) h1
  simp only [Queue.growCopied]
  generalize hh0 : hd % cap = h0 at *
  have hring : ∀ k, k < cap → (hd + k) % cap = if h0 + k < cap then h0 + k else h0 + k - cap := by
    intro k hk
    rw [ring_pos hk, hh0]
  by_cases hz : h0 = 0 ∧ 1 < cap
  · obtain ⟨hz, hc⟩ := hz
    subst hz
    simp only [if_true] at htp
    rw [htp, if_pos (by omega)]
    have e : slice? nodes 0 (cap - 1 + 1) = some nodes := by
      simp only [slice?]
      rw [if_pos (by omega), List.drop_zero, List.take_of_length_le (by omega)]
    rw [e]
    simp only [Option.map_some, copyInto_replicate (cap * 2) ([] : Label) nodes (by omega)]
    refine ⟨_, rfl, ?_, ?_⟩
    · simp only [List.length_append, List.length_replicate]
      omega
    · intro k hk
      rw [hring k hk, List.getElem?_append_left (by omega), if_pos (by omega), Nat.zero_add]
  · have hle : ¬ ((hd + cap - 1) % cap > h0) := by
      rw [htp]; split <;> omega
    rw [if_neg hle]
    have ht : h0 ≤ (hd + cap - 1) % cap + 1 ∧ (hd + cap - 1) % cap + 1 ≤ cap := by
      rw [htp]; split <;> omega
    obtain ⟨nv, hn1, hn2, hn3⟩ :=
      two_part_copy nodes cap h0 ((hd + cap - 1) % cap + 1) h2 hlt ht.1 ht.2
    refine ⟨nv, hn1, hn2, ?_⟩
    intro k hk
    rw [hring k hk]
    exact hn3 k hk

/-! ### the five refinement theorems -/

theorem Queue.init_spec (c : Nat) (h : 0 < c) :
    (Queue.init c).Inv ∧ (Queue.init c).content = [] := by
  refine ⟨⟨h, ?_, Nat.le_refl _, ?_⟩, ?_⟩
  · simp only [Queue.init, List.length_replicate]
  · simp only [Queue.init]; omega
  · simp only [Queue.init, Queue.content, Nat.sub_self, List.range_zero, List.map_nil]

theorem Queue.isEmpty_spec (q : Queue) (h : q.Inv) : q.isEmpty = true ↔ q.content = [] := by
  rw [← List.length_eq_zero_iff, Queue.content_length]
  have := h.head_le
  simp only [Queue.isEmpty, beq_iff_eq]
  omega

theorem Queue.len_spec (q : Queue) (_h : q.Inv) : q.len = q.content.length := by
  rw [Queue.content_length]; rfl

theorem Queue.push_spec (q : Queue) (x : Label) (h : q.Inv) :
    ∃ q', q.push x = some q' ∧ q'.Inv ∧ q'.content = q.content ++ [x] := by
  rw [Queue.push_eq]
  by_cases hf : q.tail - q.head = q.cap
  · have hfull : q.isFull = true := by simp only [Queue.isFull, beq_iff_eq]; exact hf
    have hcp := h.cap_pos
    have hhl := h.head_le
    obtain ⟨nv, hn1, hn2, hn3⟩ := Queue.grow_spec q h (by omega)
    rw [hfull, if_pos rfl, if_neg (by omega), hn1]
    simp only [Option.map_some]
    have hinv1 : ({ nodes := nv, head := 0, tail := q.tail - q.head, cap := q.cap * 2 } : Queue).Inv :=
      ⟨by simp only []; omega, hn2, Nat.zero_le _, by simp only []; omega⟩
    have hc1 : ({ nodes := nv, head := 0, tail := q.tail - q.head, cap := q.cap * 2 } : Queue).content
        = q.content := by
      simp only [Queue.content, Nat.sub_zero, Nat.zero_add]
      apply List.map_congr_left
      intro k hk
      rw [List.mem_range] at hk
      rw [Nat.mod_eq_of_lt (by omega), hn3 k (by omega)]
    obtain ⟨nv', hs1, hs2, hs3⟩ := Queue.store_spec _ x hinv1 (by simp only []; omega)
    simp only [] at hs1 hs2 hs3
    rw [if_neg (by omega), hs1]
    exact ⟨_, rfl, hs2, by rw [hs3, hc1]⟩
  · have hfull : q.isFull = false := by
      simp only [Queue.isFull, beq_eq_false_iff_ne, ne_eq]; exact hf
    have hcp := h.cap_pos
    have hsz := h.size_le
    rw [hfull]
    simp only [Bool.false_eq_true, if_false]
    obtain ⟨nv', hs1, hs2, hs3⟩ := Queue.store_spec q x h (by omega)
    rw [if_neg (by omega), hs1]
    exact ⟨_, rfl, hs2, hs3⟩

theorem Queue.pop_spec (q : Queue) (h : q.Inv) (x : Label) (rest : List Label)
    (hc : q.content = x :: rest) :
    ∃ q', q.pop = some (x, q') ∧ q'.Inv ∧ q'.content = rest := by
  obtain ⟨nodes, hd, tl, cap⟩ := q
  obtain ⟨h1, h2, h3, h4⟩ := h
  simp only at h1 h2 h3 h4
  have hlen : tl - hd = rest.length + 1 := by
    have := congrArg List.length hc
    rw [Queue.content_length] at this
    simpa using this
  have hm : hd % cap < cap := Nat.mod_lt _ h1
  simp only [Queue.content] at hc
  rw [hlen, List.range_succ_eq_map, List.map_cons, List.map_map] at hc
  injection hc with hx hr
  simp only [Nat.add_zero] at hx
  have hget : nodes[hd % cap]? = some x := by
    rw [List.getElem?_eq_getElem (by omega)] at hx ⊢
    simpa using hx
  refine ⟨{ nodes := nodes, head := hd + 1, tail := tl, cap := cap }, ?_, ?_, ?_⟩
  · simp only [Queue.pop, Queue.isEmpty]
    have hne : (hd == tl) = false := by
      simp only [beq_eq_false_iff_ne, ne_eq]; omega
    rw [hne]
    simp only [Bool.false_eq_true, if_false]
    rw [if_neg (by omega), hget]
    rfl
  · exact ⟨h1, h2, by simp only []; omega, by simp only []; omega⟩
  · simp only [Queue.content]
    have e : tl - (hd + 1) = rest.length := by omega
    rw [e]
    refine Eq.trans ?_ hr
    apply List.map_congr_left
    intro k _
    simp only [Function.comp, Nat.add_assoc, Nat.add_comm 1 k]

/-! ### concrete states meeting the hypotheses -/

/-- a full, wrapped queue (head = 4, cap = 3): `Inv` holds, growth takes the two-part copy -/
example : (⟨[[3], [1], [2]], 4, 7, 3⟩ : Queue).Inv := ⟨by decide, rfl, by decide, by decide⟩
example : (⟨[[3], [1], [2]], 4, 7, 3⟩ : Queue).content = [[1], [2], [3]] := by decide
example : ((⟨[[3], [1], [2]], 4, 7, 3⟩ : Queue).push [9]).map Queue.content
    = some [[1], [2], [3], [9]] := by decide
/-- full, not wrapped (head % cap = 0): the one-part copy -/
example : ((⟨[[1], [2], [3]], 3, 6, 3⟩ : Queue).push [9]).map Queue.content
    = some [[1], [2], [3], [9]] := by decide
/-- capacity 1, full: `tailPos = headPos = 0`, else-branch with the duplicate write -/
example : (⟨[[5]], 2, 3, 1⟩ : Queue).Inv := ⟨by decide, rfl, by decide, by decide⟩
example : ((⟨[[5]], 2, 3, 1⟩ : Queue).push [9]).map (fun q => (q.nodes, q.content))
    = some ([[5], [9]], [[5], [9]]) := by decide
example : ((⟨[[3], [1], [2]], 4, 7, 3⟩ : Queue).pop).map (fun r => (r.1, r.2.content))
    = some ([1], [[2], [3]]) := by decide

end Golib.C05
