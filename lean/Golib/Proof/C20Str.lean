/-
Helper lemmas for C20 (StrGenerator): partial correctness (exactly `n` runes, all from
the set, never a panic), totality in terms of the number of acceptable indices offered
by the word stream, and the fields `NewStrGenerator` computes (acceptance density).
-/
import Golib.Model.C20Str

set_option linter.unusedSimpArgs false
set_option linter.unusedVariables false

namespace Golib.C20

/-- number of acceptable indices among the first `remain` chunks of a word -/
def accepted (g : StrGen) : Nat → Nat → Nat
  | _, 0 => 0
  | cache, remain + 1 =>
    (if cache &&& g.charIdxMask < g.charSet.length then 1 else 0) +
      accepted g (cache >>> g.charIdxBits) remain

/-- What the inner loop does with one word: it never panics, appends only runes of the
set, and reduces `need` by the number of acceptable indices (stopping at 0). -/
theorem chunks_spec (g : StrGen) (remain : Nat) :
    ∀ (need cache : Nat) (acc : List Int),
      ∃ added, chunks g need cache remain acc = some (need - accepted g cache remain, acc ++ added) ∧
        added.length = min need (accepted g cache remain) ∧ ∀ r ∈ added, r ∈ g.charSet := by
  induction remain with
  | zero =>
    intro need cache acc
    cases need with
    | zero => exact ⟨[], by simp [chunks, accepted], by simp, by simp⟩
    | succ k => exact ⟨[], by simp [chunks, accepted], by simp [accepted], by simp⟩
  | succ rem ih =>
    intro need cache acc
    cases need with
    | zero => exact ⟨[], by simp [chunks], by simp, by simp⟩
    | succ k =>
      simp only [chunks, accepted]
      by_cases hacc : cache &&& g.charIdxMask < g.charSet.length
      · simp only [hacc, if_true, List.getElem?_eq_getElem hacc]
        obtain ⟨added, h1, h2, h3⟩ := ih k (cache >>> g.charIdxBits)
          (acc ++ [g.charSet[cache &&& g.charIdxMask]])
        refine ⟨g.charSet[cache &&& g.charIdxMask] :: added, ?_, ?_, ?_⟩
        · rw [h1]; simp only [List.append_assoc, List.singleton_append]
          congr 2; omega
        · simp only [List.length_cons, h2]; omega
        · intro r hr
          rcases List.mem_cons.mp hr with rfl | hr'
          · exact List.getElem_mem _
          · exact h3 r hr'
      · simp only [hacc, if_false]
        obtain ⟨added, h1, h2, h3⟩ := ih (k + 1) (cache >>> g.charIdxBits) acc
        exact ⟨added, by rw [h1]; simp, by rw [h2]; simp, h3⟩

/-- acceptable indices offered by a list of words -/
def offered (g : StrGen) (ws : List Nat) : Nat := (ws.map fun w => accepted g w g.charIdxMax).sum

theorem genWords_spec (g : StrGen) (ws : List Nat) :
    ∀ (need : Nat) (acc : List Int),
      (genWords g need ws acc = .exhausted ∧ offered g ws < need) ∨
      ∃ added rest, genWords g need ws acc = .done (acc ++ added) rest ∧ added.length = need ∧
        (∀ r ∈ added, r ∈ g.charSet) ∧ rest.length ≤ ws.length := by
  induction ws with
  | nil =>
    intro need acc
    cases need with
    | zero => exact Or.inr ⟨[], [], by simp [genWords], rfl, by simp, by simp⟩
    | succ k => exact Or.inl ⟨by simp [genWords], by simp [offered]⟩
  | cons w ws ih =>
    intro need acc
    cases need with
    | zero => exact Or.inr ⟨[], w :: ws, by simp [genWords], rfl, by simp, by simp⟩
    | succ k =>
      obtain ⟨a1, h1, h2, h3⟩ := chunks_spec g g.charIdxMax (k + 1) w acc
      simp only [genWords, h1]
      rcases ih (k + 1 - accepted g w g.charIdxMax) (acc ++ a1) with ⟨he, hlt⟩ | ⟨a2, rest, hd, hl, hm, hr⟩
      · exact Or.inl ⟨he, by simp only [offered, List.map_cons, List.sum_cons] at hlt ⊢; omega⟩
      · refine Or.inr ⟨a1 ++ a2, rest, by rw [hd, List.append_assoc], ?_, ?_, ?_⟩
        · simp only [List.length_append, h2, hl]; omega
        · intro r hr
          rcases List.mem_append.mp hr with h | h
          · exact h3 r h
          · exact hm r h
        · simp only [List.length_cons]; omega

/-- `Generate(n)` for `n ≥ 0`: either the stream really ran out of acceptable indices, or
exactly `n` runes of the set are returned; it never panics. -/
theorem generate_spec (g : StrGen) (n : Nat) (ws : List Nat) :
    (generate g n ws = .exhausted ∧ (ws = [] ∨ offered g ws < n)) ∨
    ∃ out rest, generate g n ws = .done out rest ∧ out.length = n ∧
      (∀ r ∈ out, r ∈ g.charSet) ∧ rest.length < ws.length := by
  have hn : ¬ ((n : Int) < 0) := by omega
  simp only [generate, hn, if_false, Int.toNat_natCast]
  cases ws with
  | nil => exact Or.inl ⟨rfl, Or.inl rfl⟩
  | cons w ws =>
    obtain ⟨a1, h1, h2, h3⟩ := chunks_spec g g.charIdxMax n w []
    simp only [h1]
    rcases genWords_spec g ws (n - accepted g w g.charIdxMax) ([] ++ a1) with
      ⟨he, hlt⟩ | ⟨a2, rest, hd, hl, hm, hr⟩
    · exact Or.inl ⟨he, Or.inr (by simp only [offered, List.map_cons, List.sum_cons] at hlt ⊢; omega)⟩
    · refine Or.inr ⟨[] ++ a1 ++ a2, rest, hd, ?_, ?_, by simp only [List.length_cons]; omega⟩
      · simp only [List.nil_append, List.length_append, h2, hl]; omega
      · intro r hr
        simp only [List.nil_append] at hr
        rcases List.mem_append.mp hr with h | h
        · exact h3 r h
        · exact hm r h

/-! ### NewStrGenerator -/

theorem bitsLoop_spec (L : Nat) : ∀ x pos, 2 ^ L ≤ x → x < 2 ^ (L + 1) →
    bitsLoop x pos = pos + L + 1 := by
  induction L with
  | zero =>
    intro x pos h1 h2
    have : x = 1 := by omega
    subst this
    rw [bitsLoop]; simp only [Nat.one_ne_zero, dite_false]
    rw [bitsLoop]; simp
  | succ L ih =>
    intro x pos h1 h2
    have hx : x ≠ 0 := by
      have : 0 < 2 ^ (L + 1) := Nat.pow_pos (by decide)
      omega
    rw [bitsLoop]; simp only [hx, dite_false]
    have hp : 2 ^ (L + 1) = 2 * 2 ^ L := by rw [Nat.pow_succ]; omega
    have hp2 : 2 ^ (L + 1 + 1) = 2 * 2 ^ (L + 1) := by rw [Nat.pow_succ]; omega
    rw [ih (x >>> 1) (pos + 1)]
    · omega
    · simp only [Nat.shiftRight_eq_div_pow, Nat.pow_one]; omega
    · simp only [Nat.shiftRight_eq_div_pow, Nat.pow_one]; omega

/-- The fields for a non-empty set of fewer than 2^63 runes: `bits` is the bit length of
the set size, so at least half of the `2^bits` index values are acceptable; at least one
index fits into a 63-bit word. -/
theorem newStrGen_spec (cs : List Nat) (hne : Utf8.runes cs ≠ []) (hlt : (Utf8.runes cs).length < 2 ^ 63) :
    ∃ g, newStrGen cs = some g ∧ g.charSet = Utf8.runes cs ∧ 1 ≤ g.charIdxBits ∧
      g.charIdxMask = 2 ^ g.charIdxBits - 1 ∧ 2 ^ (g.charIdxBits - 1) ≤ g.charSet.length ∧
      g.charSet.length < 2 ^ g.charIdxBits ∧ g.charIdxMax = 63 / g.charIdxBits ∧ 1 ≤ g.charIdxMax := by
  have hpos : (Utf8.runes cs).length ≠ 0 := fun h => hne (List.eq_nil_of_length_eq_zero h)
  have hlo := Nat.log2_self_le hpos
  have hhi := @Nat.lt_log2_self (Utf8.runes cs).length
  generalize hj : (Utf8.runes cs).length.log2 = j at hlo hhi
  have hbits : bitsLoop (Utf8.runes cs).length 0 = j + 1 := by
    rw [bitsLoop_spec j _ 0 hlo hhi]; omega
  have hj62 : j + 1 ≤ 63 := by
    false_or_by_contra
    have : 2 ^ 63 ≤ 2 ^ j := Nat.pow_le_pow_right (by decide) (by omega)
    omega
  have hz : ¬ (j + 1 = 0) := by omega
  refine ⟨{ charSet := Utf8.runes cs, charIdxBits := j + 1, charIdxMask := 1 <<< (j + 1) - 1,
             charIdxMax := 63 / (j + 1) },
    by simp only [newStrGen, hbits, hz, if_false], rfl, by simp only []; omega, ?_, ?_, ?_, rfl, ?_⟩
  · simp only [Nat.shiftLeft_eq, Nat.one_mul]
  · simpa using hlo
  · exact hhi
  · show 1 ≤ 63 / (j + 1)
    exact (Nat.le_div_iff_mul_le (by omega)).mpr (by omega)

end Golib.C20
