/-
C06 helper lemmas: the re-assembly loops of `Replace` / `ReplaceWithMask` on a list of
ordered, disjoint scopes inside the text: no panic, and the output is `assemble`:
the text outside the scopes, in order, with one fill per scope.
-/
import Golib.Proof.C06Merge

set_option linter.unusedSimpArgs false
set_option linter.unusedVariables false

namespace Golib.C06
open Golib Golib.C05

/-- The text from `begin` on, with every scope replaced by `fill`. -/
def assemble (text : List Nat) (fill : Scope → List Nat) : Nat → List Scope → List Nat
  | begin, [] => text.drop begin
  | begin, s :: ss =>
    (text.take s.start.toNat).drop begin ++ fill s ++ assemble text fill s.stop.toNat ss

/-- The scopes are ordered, disjoint, start at or after `begin` and end within `n`. -/
def Fits (n : Nat) : Int → List Scope → Prop
  | begin, [] => 0 ≤ begin ∧ begin ≤ n
  | begin, s :: ss => 0 ≤ begin ∧ begin ≤ s.start ∧ s.start ≤ s.stop ∧ s.stop ≤ n ∧ Fits n s.stop ss

theorem fits_of_disjoint (n : Nat) : ∀ (r : List Scope) (begin : Int), 0 ≤ begin → begin ≤ n →
    Disjoint r → AllNonEmpty r → (∀ s ∈ r, begin ≤ s.start ∧ s.stop ≤ n) → Fits n begin r := by
  intro r
  induction r with
  | nil => intro begin h0 hn _ _ _; exact ⟨h0, hn⟩
  | cons s ss ih =>
    intro begin h0 hn hd hne hb
    have hs := hb s (by simp)
    have hse : s.start < s.stop := hne s (by simp)
    simp only [Disjoint, List.pairwise_cons] at hd
    refine ⟨h0, hs.1, by omega, hs.2, ih s.stop (by omega) hs.2 hd.2 (fun t ht => hne t (by simp [ht])) ?_⟩
    intro t ht
    exact ⟨hd.1 t ht, (hb t (by simp [ht])).2⟩

theorem sliceInt?_eq (text : List Nat) (lo hi : Int) (h0 : 0 ≤ lo) (h1 : lo ≤ hi) (h2 : hi ≤ text.length) :
    sliceInt? text lo hi = some ((text.take hi.toNat).drop lo.toNat) := by
  simp only [sliceInt?, h0, h1, h2, and_self, if_true]

theorem replLoop_spec (text repl : List Nat) : ∀ (r : List Scope) (begin : Int) (buf : List Nat),
    Fits text.length begin r →
    replLoop text repl r begin buf = some (buf ++ assemble text (fun _ => repl) begin.toNat r) := by
  intro r
  induction r with
  | nil =>
    intro begin buf hf
    obtain ⟨h0, h1⟩ := hf
    simp only [replLoop, assemble, sliceInt?_eq text begin text.length h0 h1 (Int.le_refl _)]
    simp
  | cons s ss ih =>
    intro begin buf hf
    obtain ⟨h0, h1, h2, h3, h4⟩ := hf
    simp only [replLoop, assemble, sliceInt?_eq text begin s.start h0 h1 (by omega)]
    rw [ih s.stop _ h4]
    simp [List.append_assoc]

/-- Fill of `ReplaceWithMask`: one mask rune per rune of the covered slice. -/
def maskFill (text : List Nat) (mask : Int) (s : Scope) : List Nat :=
  maskRunes (Utf8.runeCount ((text.take s.stop.toNat).drop s.start.toNat)) mask

theorem maskLoop_spec (text : List Nat) (mask : Int) : ∀ (r : List Scope) (begin : Int) (buf : List Nat),
    Fits text.length begin r →
    maskLoop text mask r begin buf = some (buf ++ assemble text (maskFill text mask) begin.toNat r) := by
  intro r
  induction r with
  | nil =>
    intro begin buf hf
    obtain ⟨h0, h1⟩ := hf
    simp only [maskLoop, assemble, sliceInt?_eq text begin text.length h0 h1 (Int.le_refl _)]
    simp
  | cons s ss ih =>
    intro begin buf hf
    obtain ⟨h0, h1, h2, h3, h4⟩ := hf
    simp only [maskLoop, assemble, sliceInt?_eq text begin s.start h0 h1 (by omega),
      sliceInt?_eq text s.start s.stop (by omega) h2 h3]
    rw [ih s.stop _ h4]
    simp [List.append_assoc, maskFill]

/-! ### the uncovered bytes are kept, in order -/

def coveredB (r : List Scope) (i : Nat) : Bool := r.any fun s => decide (s.start ≤ (i : Int) ∧ (i : Int) < s.stop)

theorem coveredB_iff (r : List Scope) (i : Nat) : coveredB r i = true ↔ covered r (i : Int) := by
  simp [coveredB, covered]

/-- The bytes of `l` (which sits at offset `i` of the text) whose position satisfies `P`. -/
def keepAux (P : Nat → Bool) : List Nat → Nat → List Nat
  | [], _ => []
  | b :: bs, i => if P i then b :: keepAux P bs (i + 1) else keepAux P bs (i + 1)

/-- The bytes of the text not inside any scope, in order. -/
def uncovered (text : List Nat) (r : List Scope) : List Nat := keepAux (fun i => !coveredB r i) text 0

theorem keepAux_append (P : Nat → Bool) : ∀ (l1 l2 : List Nat) (i : Nat),
    keepAux P (l1 ++ l2) i = keepAux P l1 i ++ keepAux P l2 (i + l1.length) := by
  intro l1
  induction l1 with
  | nil => intro l2 i; simp [keepAux]
  | cons b bs ih =>
    intro l2 i
    simp only [List.cons_append, keepAux, ih, List.length_cons]
    split <;> simp [Nat.add_assoc, Nat.add_comm 1]

theorem keepAux_all (P : Nat → Bool) : ∀ (l : List Nat) (i : Nat),
    (∀ j, i ≤ j → j < i + l.length → P j = true) → keepAux P l i = l := by
  intro l
  induction l with
  | nil => intros; rfl
  | cons b bs ih =>
    intro i h
    simp only [keepAux, h i (Nat.le_refl _) (by simp), if_true]
    rw [ih (i + 1) (fun j h1 h2 => h j (by omega) (by simp only [List.length_cons]; omega))]

theorem keepAux_none (P : Nat → Bool) : ∀ (l : List Nat) (i : Nat),
    (∀ j, i ≤ j → j < i + l.length → P j = false) → keepAux P l i = [] := by
  intro l
  induction l with
  | nil => intros; rfl
  | cons b bs ih =>
    intro i h
    simp only [keepAux, h i (Nat.le_refl _) (by simp)]
    exact ih (i + 1) (fun j h1 h2 => h j (by omega) (by simp only [List.length_cons]; omega))

theorem keepAux_congr (P Q : Nat → Bool) : ∀ (l : List Nat) (i : Nat),
    (∀ j, i ≤ j → j < i + l.length → P j = Q j) → keepAux P l i = keepAux Q l i := by
  intro l
  induction l with
  | nil => intros; rfl
  | cons b bs ih =>
    intro i h
    simp only [keepAux, h i (Nat.le_refl _) (by simp)]
    rw [ih (i + 1) (fun j h1 h2 => h j (by omega) (by simp only [List.length_cons]; omega))]

theorem fits_starts (n : Nat) : ∀ (r : List Scope) (begin : Int), Fits n begin r →
    ∀ s ∈ r, begin ≤ s.start := by
  intro r
  induction r with
  | nil => intro _ _ s hs; simp at hs
  | cons t ts ih =>
    intro begin hf s hs
    obtain ⟨h0, h1, h2, h3, h4⟩ := hf
    simp only [List.mem_cons] at hs
    rcases hs with hs | hs
    · subst hs; exact h1
    · have := ih t.stop h4 s hs; omega

theorem assemble_uncovered_from (text : List Nat) : ∀ (r : List Scope) (begin : Nat),
    Fits text.length (begin : Int) r →
    assemble text (fun _ => []) begin r = keepAux (fun i => !coveredB r i) (text.drop begin) begin := by
  intro r
  induction r with
  | nil =>
    intro begin _
    simp only [assemble]
    rw [keepAux_all]
    intro j _ _
    simp [coveredB]
  | cons s ss ih =>
    intro begin hf
    obtain ⟨h0, h1, h2, h3, h4⟩ := hf
    obtain ⟨a, ha⟩ := Int.eq_ofNat_of_zero_le (show 0 ≤ s.start by omega)
    obtain ⟨b, hb⟩ := Int.eq_ofNat_of_zero_le (show 0 ≤ s.stop by omega)
    have hab : a ≤ b := by omega
    have hba : begin ≤ a := by omega
    have hbn : b ≤ text.length := by omega
    have hstarts := fits_starts text.length ss s.stop h4
    have hsplit : text.drop begin =
        (text.take a).drop begin ++ ((text.take b).drop a ++ text.drop b) := by
      apply List.ext_getElem?; intro i
      simp only [List.getElem?_take, List.getElem?_drop, List.getElem?_append,
        List.length_take, List.length_drop]
      grind
    simp only [assemble, ha, hb, Int.toNat_natCast, List.append_nil]
    rw [hsplit, keepAux_append, keepAux_append]
    have hl1 : ((text.take a).drop begin).length = a - begin := by
      simp only [List.length_drop, List.length_take]; omega
    have hl2 : ((text.take b).drop a).length = b - a := by
      simp only [List.length_drop, List.length_take]; omega
    have k1 : keepAux (fun i => !coveredB (s :: ss) i) ((text.take a).drop begin) begin
        = (text.take a).drop begin := by
      apply keepAux_all
      intro j hj1 hj2
      rw [hl1] at hj2
      have hs : decide (s.start ≤ (j : Int) ∧ (j : Int) < s.stop) = false := by
        simp only [decide_eq_false_iff_not]; omega
      have hss : ss.any (fun t => decide (t.start ≤ (j : Int) ∧ (j : Int) < t.stop)) = false := by
        simp only [List.any_eq_false, decide_eq_true_eq]
        intro t ht
        have := hstarts t ht
        omega
      simp only [coveredB, List.any_cons, hs, hss, Bool.or_self, Bool.not_false]
    have k2 : keepAux (fun i => !coveredB (s :: ss) i) ((text.take b).drop a) (begin + (a - begin)) = [] := by
      apply keepAux_none
      intro j hj1 hj2
      rw [hl2] at hj2
      have hs : decide (s.start ≤ (j : Int) ∧ (j : Int) < s.stop) = true := by
        simp only [decide_eq_true_eq]; omega
      simp only [coveredB, List.any_cons, hs, Bool.true_or, Bool.not_true]
    have k3 : keepAux (fun i => !coveredB (s :: ss) i) (text.drop b) b
        = keepAux (fun i => !coveredB ss i) (text.drop b) b := by
      apply keepAux_congr
      intro j hj _
      have hs : decide (s.start ≤ (j : Int) ∧ (j : Int) < s.stop) = false := by
        simp only [decide_eq_false_iff_not]; omega
      simp only [coveredB, List.any_cons, hs, Bool.false_or]
    have e1 : begin + (a - begin) + (b - a) = b := by omega
    rw [hl1, hl2, k1, k2, e1, k3, List.nil_append]
    have := ih b (by rw [← hb]; exact h4)
    rw [this]

/-- Removing the fills from the output leaves exactly the uncovered bytes of the text. -/
theorem assemble_uncovered (text : List Nat) (r : List Scope) (hf : Fits text.length 0 r) :
    assemble text (fun _ => []) 0 r = uncovered text r := by
  have := assemble_uncovered_from text r 0 (by simpa using hf)
  simpa [uncovered] using this

end Golib.C06
