/-
Helper lemmas for C08: the wrappers `AESCBCEncrypt/Decrypt`, `AESGCMEncrypt/Decrypt`.
-/
import Golib.Proof.C08Cbc

namespace Golib.C08

/-- the padding length computed by `AESCBCEncrypt` -/
def padLen (n : Nat) : Nat := 16 - n % 16

theorem padLen_range (n : Nat) : 1 ≤ padLen n ∧ padLen n ≤ 16 := by
  unfold padLen; omega

theorem encLen_padLen (n : Nat) : cbcEncryptLen n = n + padLen n := by
  rw [encLen_eq]; unfold padLen; omega

/-- PKCS#7-padded plaintext for block size 16 -/
def padded (pt : Bytes) : Bytes := pt ++ List.replicate (padLen pt.length) (padLen pt.length)

theorem padded_length (pt : Bytes) : (padded pt).length = cbcEncryptLen pt.length := by
  simp [padded, encLen_padLen]

theorem padded_blocks (pt : Bytes) : (padded pt).length = 16 * (pt.length / 16 + 1) := by
  rw [padded_length, encLen_eq]; omega

/-- `AESCBCEncrypt` with a valid key, a 16-byte IV and `dst` sized by `AESCBCEncryptLen`
(whatever `dst` held before: fresh buffer or the plaintext's own memory) leaves in `dst`
the CBC encryption of the padded plaintext. -/
theorem aesCBCEncrypt_spec (C : Cipher) (dst pt key iv : Bytes)
    (hk : keyOK key = true) (hiv : iv.length = 16) (hdst : dst.length = cbcEncryptLen pt.length) :
    aesCBCEncrypt C dst pt key iv = .ok (cbcEncrypt (C.E key) iv (padded pt)) := by
  have hpr := padLen_range pt.length
  have hdl : dst.length = pt.length + padLen pt.length := by rw [hdst, encLen_padLen]
  unfold aesCBCEncrypt
  have hk' : ¬ (¬ keyOK key = true) := by simp [hk]
  rw [if_neg hk']
  simp only []
  have hp : aesBlockSize - (pt.length &&& blockSizeMask) = padLen pt.length := by
    rw [and15]; rfl
  rw [hp, table_get _ hpr.2]
  have hcopy : copyInto dst pt = pt ++ dst.drop pt.length := by
    unfold copyInto
    have : min dst.length pt.length = pt.length := by omega
    rw [this, List.take_length]
  rw [hcopy]
  have hfrom : sliceFrom (pt ++ dst.drop pt.length) (pt.length : Int) = some (dst.drop pt.length) := by
    unfold sliceFrom
    have : (0 : Int) ≤ (pt.length : Int) ∧ (pt.length : Int) ≤ ((pt ++ dst.drop pt.length).length : Int) := by
      simp; omega
    rw [if_pos this, Int.toNat_natCast, drop_append_len]
  rw [hfrom]
  simp only [take_append_len]
  have hcopy2 : copyInto (dst.drop pt.length) (List.replicate (padLen pt.length) (padLen pt.length))
      = List.replicate (padLen pt.length) (padLen pt.length) := by
    unfold copyInto
    have : min (dst.drop pt.length).length (List.replicate (padLen pt.length) (padLen pt.length)).length
        = padLen pt.length := by simp; omega
    rw [this]
    have e : (dst.drop pt.length).drop (padLen pt.length) = [] := by
      apply List.drop_eq_nil_of_le; simp; omega
    rw [e]; simp
  rw [hcopy2]
  change (match cryptBlocksEnc (C.E key) iv (padded pt) (padded pt) with
      | some d => R.ok d | none => R.panic) = _
  unfold cryptBlocksEnc
  have h1 : ¬ iv.length ≠ 16 := by simp [hiv]
  have h2 : ¬ (padded pt).length % 16 ≠ 0 := by rw [padded_blocks]; simp
  have h3 : ¬ (padded pt).length < (padded pt).length := by omega
  rw [if_neg h1, if_neg h2, if_neg h3]
  simp

/-- Both layouts of `AESCBCDecrypt` (separate `dst` of the same length / `dst` = the
ciphertext's own memory) compute the CBC decryption `P` of the ciphertext into `dst` and
then answer what the table-based un-padding says about `P`. -/
theorem aesCBCDecrypt_eq (C : Cipher) (lay : DecLayout) (ct key iv : Bytes)
    (hk : keyOK key = true) (hiv : iv.length = 16)
    (h16 : 16 ≤ ct.length) (hmul : ct.length % 16 = 0)
    (hlay : ∀ dst, lay = .fresh dst → dst.length = ct.length) :
    aesCBCDecrypt C lay ct key iv =
      match pkcs7UnPadding (cbcDecrypt (C.D key) iv ct) with
      | .ok n => .ok (n, cbcDecrypt (C.D key) iv ct)
      | .err e => .err e
      | .panic => .panic := by
  unfold aesCBCDecrypt
  have h1 : ¬ (ct.length < aesBlockSize ∨ ct.length &&& blockSizeMask ≠ 0) := by
    rw [and15]; simp only [aesBlockSize]; omega
  have hk' : ¬ (¬ keyOK key = true) := by simp [hk]
  rw [if_neg h1, if_neg hk']
  have hout : decryptBlocks (C.D key) lay iv ct = some (cbcDecrypt (C.D key) iv ct) := by
    cases lay with
    | fresh dst =>
      have hd := hlay dst rfl
      simp only [decryptBlocks, cryptBlocksDec]
      have a1 : ¬ iv.length ≠ 16 := by simp [hiv]
      have a2 : ¬ ct.length % 16 ≠ 0 := by simp [hmul]
      have a3 : ¬ dst.length < ct.length := by omega
      rw [if_neg a1, if_neg a2, if_neg a3]
      have : dst.drop ct.length = [] := List.drop_eq_nil_of_le (by omega)
      rw [this, List.append_nil]
    | inplace =>
      simp only [decryptBlocks, cryptBlocksDecInPlace]
      have a1 : ¬ iv.length ≠ 16 := by simp [hiv]
      have a2 : ¬ ct.length % 16 ≠ 0 := by simp [hmul]
      have a3 : ¬ ct.length = 0 := by omega
      rw [if_neg a1, if_neg a2, if_neg a3]
      have hl : ct.length = 16 * (ct.length / 16 - 1 + 1) := by omega
      have := cbcDecInPlace_spec (C.D key) (ct.length / 16 - 1) iv ct [] hiv hl
      simp only [List.append_nil] at this
      rw [this]
  rw [hout]; rfl

theorem aesCBCDecrypt_badlen (C : Cipher) (lay : DecLayout) (ct key iv : Bytes)
    (h : ct.length < 16 ∨ ct.length % 16 ≠ 0) :
    aesCBCDecrypt C lay ct key iv = .err "len" := by
  unfold aesCBCDecrypt
  have h1 : (ct.length < aesBlockSize ∨ ct.length &&& blockSizeMask ≠ 0) := by
    rw [and15]; simpa only [aesBlockSize] using h
  rw [if_pos h1]

theorem appendInto_exact (dst out : Bytes) (h : dst.length = out.length) :
    appendInto dst out = out := by
  unfold appendInto
  have : out.length ≤ dst.length := by omega
  rw [if_pos this]
  have : dst.drop out.length = [] := List.drop_eq_nil_of_le (by omega)
  rw [this, List.append_nil]

end Golib.C08
