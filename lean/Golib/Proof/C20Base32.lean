/-
Helper lemmas for C20: the decode table (checked entry by entry by the kernel and
lifted), `ID.Base32` / `ParseBase32` round trip, rejection of every non-alphabet byte.
-/
import Golib.Model.C20Id

set_option linter.unusedSimpArgs false
set_option linter.unusedVariables false

namespace Golib.C20
open Golib.Gen.C20

/-- What the table must satisfy, as a boolean over the 256 byte values: exactly the
bytes outside the alphabet carry the mark `ParseBase32` rejects, and the `i`-th
alphabet character decodes to `i` (< 32). -/
def tableOK (t : List Nat) : Bool :=
  t.length == 256 && alphabet.length == 32 && parseRejectMark == 255 &&
  (List.range 256).all (fun b => (t[b]? == some parseRejectMark) == !(alphabet.contains b)) &&
  (List.range 32).all (fun i => match alphabet[i]? with
    | some c => t[c]? == some i
    | none => false)

/-- The finite check, by kernel evaluation of the two init loops on the 256 entries. -/
theorem decodeTable_check : decodeTable.map tableOK = some true := by decide +kernel

structure TableSpec (t : List Nat) : Prop where
  len      : t.length = 256
  alen     : alphabet.length = 32
  mark     : parseRejectMark = 255
  reject   : ∀ b, b < 256 → (t[b]? = some parseRejectMark ↔ b ∉ alphabet)
  decode   : ∀ i, i < 32 → ∃ c, alphabet[i]? = some c ∧ t[c]? = some i

theorem decodeTable_spec : ∃ t, decodeTable = some t ∧ TableSpec t := by
  have h := decodeTable_check
  cases ht : decodeTable with
  | none => rw [ht] at h; cases h
  | some t =>
    rw [ht] at h
    simp only [Option.map_some, Option.some.injEq] at h
    refine ⟨t, rfl, ?_⟩
    simp only [tableOK, Bool.and_eq_true, beq_iff_eq, List.all_eq_true, List.mem_range] at h
    obtain ⟨⟨⟨⟨h1, h2⟩, h3⟩, h4⟩, h5⟩ := h
    refine ⟨h1, h2, h3, ?_, ?_⟩
    · intro b hb
      have := h4 b hb
      by_cases hm : b ∈ alphabet
      · simp only [List.contains_eq_mem, hm, decide_true, Bool.not_true, beq_eq_false_iff_ne, ne_eq,
          beq_iff_eq] at this
        simp only [hm, not_true_eq_false, iff_false]; exact this
      · simp only [List.contains_eq_mem, hm, decide_false, Bool.not_false, beq_iff_eq] at this
        simp only [hm, not_false_eq_true, iff_true]; exact this
    · intro i hi
      have := h5 i hi
      cases ha : alphabet[i]? with
      | none => rw [ha] at this; cases this
      | some c => rw [ha] at this; exact ⟨c, rfl, by simpa using this⟩

theorem parseBase32_eq (t : List Nat) (ht : decodeTable = some t) (bs : List Nat) :
    parseBase32 bs = parseBase32With t bs := by
  unfold parseBase32; rw [ht]

/-! ### parse -/

/-- digit value of a byte under table `t` (proof-side only) -/
def dec (t : List Nat) (c : Nat) : Nat := (t[c]?).getD 0

/-- a byte that `ParseBase32` accepts -/
def Accepts (t : List Nat) (c : Nat) : Prop := ∃ d, t[c]? = some d ∧ d ≠ parseRejectMark

def stepV (t : List Nat) (a c : Nat) : Nat := a * 32 + dec t c

theorem foldl_stepV_mod (t : List Nat) (l : List Nat) (a : Nat) :
    (l.foldl (stepV t) (a % 2^64)) % 2^64 = (l.foldl (stepV t) a) % 2^64 := by
  induction l generalizing a with
  | nil => simp
  | cons c cs ih =>
    simp only [List.foldl_cons]
    rw [← ih (stepV t (a % 2^64) c), ← ih (stepV t a c)]
    congr 2
    simp only [stepV]
    omega

theorem toInt64_mod (n : Nat) : toInt64 (n % 2^64) = toInt64 n := by
  simp only [toInt64, Nat.mod_mod]

theorem parseLoop_accepts (t : List Nat) (l : List Nat) (acc : Nat)
    (h : ∀ c ∈ l, Accepts t c) :
    parseLoop t acc l = .ok (toInt64 (l.foldl (stepV t) acc)) := by
  induction l generalizing acc with
  | nil => simp [parseLoop]
  | cons c cs ih =>
    obtain ⟨d, hd, hne⟩ := h c (List.mem_cons_self ..)
    simp only [parseLoop, hd, hne, if_false]
    rw [ih _ (fun c hc => h c (List.mem_cons_of_mem _ hc))]
    simp only [List.foldl_cons]
    have hdec : dec t c = d := by simp [dec, hd]
    rw [← toInt64_mod, foldl_stepV_mod, toInt64_mod]
    simp only [stepV, hdec]

theorem parseLoop_rejects (t : List Nat) (l : List Nat) (acc : Nat)
    (hlen : ∀ c ∈ l, c < t.length)
    (h : ∃ c ∈ l, t[c]? = some parseRejectMark) :
    parseLoop t acc l = .invalid := by
  induction l generalizing acc with
  | nil => obtain ⟨c, hc, _⟩ := h; cases hc
  | cons c cs ih =>
    have hc : c < t.length := hlen c (List.mem_cons_self ..)
    simp only [parseLoop, List.getElem?_eq_getElem hc]
    by_cases hm : t[c] = parseRejectMark
    · simp only [hm, if_true]
    · simp only [hm, if_false]
      apply ih _ (fun c hc => hlen c (List.mem_cons_of_mem _ hc))
      obtain ⟨b, hb, hbm⟩ := h
      rcases List.mem_cons.mp hb with rfl | hb'
      · rw [List.getElem?_eq_getElem hc] at hbm
        exact absurd (Option.some.inj hbm) hm
      · exact ⟨b, hb', hbm⟩

/-! ### encode -/

/-- value of a little-endian list of digit characters -/
def valLE (t : List Nat) (s : List Nat) : Nat := s.foldr (fun c v => v * 32 + dec t c) 0

theorem encLoop_spec (t : List Nat) (ht : TableSpec t) (f : Nat) :
    ∀ b, ∃ s, encLoop f b = some (b ++ s) ∧ s ≠ [] ∧ valLE t s = f ∧
      (∀ c ∈ s, c ∈ alphabet ∧ Accepts t c) := by
  induction f using Nat.strongRecOn with
  | _ f ih =>
    intro b
    have hmark := ht.mark
    rw [encLoop]
    by_cases h : 32 ≤ f
    · simp only [h, dite_true]
      obtain ⟨c, hc, htc⟩ := ht.decode (f % 32) (Nat.mod_lt _ (by omega))
      simp only [encChar, hc]
      obtain ⟨s', hs', _, hv, hall⟩ := ih (f / 32) (by omega) (b ++ [c])
      refine ⟨c :: s', by rw [hs']; simp, by simp, ?_, ?_⟩
      · simp only [valLE, List.foldr_cons] at hv ⊢
        rw [hv]; simp only [dec, htc, Option.getD_some]; omega
      · intro x hx
        rcases List.mem_cons.mp hx with rfl | hx'
        · exact ⟨List.mem_of_getElem? hc, f % 32, htc, by omega⟩
        · exact hall x hx'
    · simp only [h, dite_false]
      obtain ⟨c, hc, htc⟩ := ht.decode f (by omega)
      simp only [encChar, hc]
      refine ⟨[c], rfl, by simp, ?_, ?_⟩
      · simp [valLE, dec, htc]
      · intro x hx
        simp only [List.mem_singleton] at hx; subst hx
        exact ⟨List.mem_of_getElem? hc, f, htc, by omega⟩

theorem foldl_reverse_valLE (t : List Nat) (s : List Nat) :
    (s.reverse).foldl (stepV t) 0 = valLE t s := by
  rw [List.foldl_reverse]; rfl

theorem toInt64_small (n : Nat) (h : n < 2^63) : toInt64 n = n := by
  have : n % 2^64 = n := Nat.mod_eq_of_lt (by omega)
  simp only [toInt64, this, h, if_true]

/-- Round trip at the level of a table satisfying the spec. -/
theorem roundtrip_with (t : List Nat) (ht : TableSpec t) (id : Int) (h0 : 0 ≤ id) (h1 : id < 2^63) :
    ∃ s, base32 id = some s ∧ s ≠ [] ∧ (∀ c ∈ s, c ∈ alphabet) ∧
      parseBase32With t s = .ok id := by
  obtain ⟨n, rfl⟩ := Int.eq_ofNat_of_zero_le h0
  have hn : n < 2^63 := by omega
  by_cases hs : (n : Int) < 32
  · have hn32 : n < 32 := by omega
    obtain ⟨c, hc, htc⟩ := ht.decode n hn32
    have hnn : ¬ ((n : Int) < 0) := by omega
    refine ⟨[c], by simp only [base32, hs, hnn, if_true, if_false, Int.toNat_natCast, encChar, hc,
      Option.map_some], by simp, ?_, ?_⟩
    · intro x hx; simp only [List.mem_singleton] at hx; subst hx; exact List.mem_of_getElem? hc
    · have hmark := ht.mark
      have hne : n ≠ parseRejectMark := by omega
      simp only [parseBase32With, parseLoop, htc, hne, if_false, Nat.zero_mul, Nat.zero_add]
      have : n % 2^64 = n := Nat.mod_eq_of_lt (by omega)
      rw [this, toInt64_small n hn]
  · obtain ⟨s, hs', hne, hv, hall⟩ := encLoop_spec t ht n []
    simp only [List.nil_append] at hs'
    refine ⟨s.reverse, by simp only [base32, hs, if_false, Int.toNat_natCast, hs', Option.map_some],
      by simpa using hne, fun c hc => (hall c (List.mem_reverse.mp hc)).1, ?_⟩
    rw [parseBase32With, parseLoop_accepts t s.reverse 0
      (fun c hc => (hall c (List.mem_reverse.mp hc)).2), foldl_reverse_valLE, hv, toInt64_small n hn]

end Golib.C20
