/-
C13 helper lemmas, part 4: `Front`/`Next` and `Back`/`Prev` traversals read exactly the
abstract sequence, forwards and backwards.
-/
import Golib.Proof.C13DOps

set_option linter.unusedSimpArgs false
set_option linter.unusedVariables false

namespace Golib.C13

theorem front_spec {s : DSt} {A : Nat → List Nat} {l : Nat} (h : GInv s A) (hl : l < s.nl) :
    s.front l = (A l).head? ∧ s.back l = (A l).getLast? ∧ s.lenOf l = (A l).length := by
  have hI := h.lists l hl
  refine ⟨?_, ?_, hI.len⟩
  · cases hL : A l with
    | nil => simp [DSt.front, hI.len, hL]
    | cons x xs =>
      have hr := ginv_ring_of_mem (x := x) h hl (by simp [hL])
      have := ring_next_root hr
      simp [DSt.front, hI.len, hL] at this ⊢
      constructor
      · omega
      · exact this
  · cases hL : A l with
    | nil => simp [DSt.back, hI.len, hL]
    | cons x xs =>
      have hr := ginv_ring_of_mem (x := x) h hl (by simp [hL])
      have := ring_prev_root hr
      rw [hL] at this
      have e : (l :: x :: xs).getLast? = (x :: xs).getLast? := by simp [List.getLast?_cons_cons]
      simp only [DSt.back, hI.len, hL]
      have hne : ¬ (((x :: xs).length : Int) = 0) := by simp; omega
      rw [if_neg hne, this, e]

theorem nodeNext_spec {s : DSt} {A : Nat → List Nat} {l x : Nat} {p q : List Nat}
    (h : GInv s A) (hl : l < s.nl) (e1 : A l = p ++ x :: q) : s.nodeNext x = q.head? := by
  have hx : x ∈ A l := by rw [e1]; simp
  have hr := ginv_ring_of_mem h hl hx
  have hown := ((h.lists l hl).owner x).2 hx
  have nd := (h.lists l hl).nodup
  have hn := (ring_links (pre := l :: p) (x := x) (post := q) (by simpa [e1] using hr)).1
  simp only [DSt.nodeNext, hown]
  cases q with
  | nil => simp at hn; simp [hn]
  | cons y ys =>
    simp at hn
    have : y ≠ l := by
      intro hh; subst hh; rw [e1] at nd; simp at nd
    simp [hn, this]

theorem walk_next {s : DSt} {A : Nat → List Nat} {l : Nat} (h : GInv s A) (hl : l < s.nl) :
    ∀ (q p : List Nat) (x fuel : Nat), A l = p ++ x :: q → q.length < fuel →
      walk s.nodeNext fuel (some x) = (x :: q, true) := by
  intro q
  induction q with
  | nil =>
    intro p x fuel e1 hf
    obtain ⟨f, rfl⟩ : ∃ f, fuel = f + 1 := ⟨fuel - 1, by omega⟩
    have := nodeNext_spec h hl e1
    simp at this
    cases f <;> simp [walk, this]
  | cons y ys ih =>
    intro p x fuel e1 hf
    obtain ⟨f, rfl⟩ : ∃ f, fuel = f + 1 := ⟨fuel - 1, by omega⟩
    have hnx := nodeNext_spec h hl e1
    simp at hnx
    have := ih (p ++ [x]) y f (by simp [e1]) (by simp at hf; omega)
    simp [walk, hnx, this]

/-- `for e := l.Front(); e != nil; e = e.Next()` visits exactly `A l`, in order. -/
theorem forward_spec {s : DSt} {A : Nat → List Nat} {l : Nat} (h : GInv s A) (hl : l < s.nl)
    (fuel : Nat) (hf : (A l).length < fuel) : s.forward l fuel = (A l, true) := by
  simp only [DSt.forward, (front_spec h hl).1]
  cases hL : A l with
  | nil => cases fuel <;> simp [walk]
  | cons x xs =>
    simp only [List.head?_cons]
    exact walk_next h hl xs [] x fuel (by simp [hL]) (by rw [hL] at hf; simp at hf; omega)

theorem nodePrev_spec {s : DSt} {A : Nat → List Nat} {l x : Nat} {p q : List Nat}
    (h : GInv s A) (hl : l < s.nl) (e1 : A l = p ++ x :: q) : s.nodePrev x = p.getLast? := by
  have hx : x ∈ A l := by rw [e1]; simp
  have hr := ginv_ring_of_mem h hl hx
  have hown := ((h.lists l hl).owner x).2 hx
  have nd := (h.lists l hl).nodup
  have hp := ring_prev_node (e1 ▸ hr)
  simp only [DSt.nodePrev, hown]
  rcases eq_nil_or_snoc p with rfl | ⟨p0, w, rfl⟩
  · simp at hp; simp [hp]
  · have e : (l :: (p0 ++ [w])).getLast? = some w := by
      rw [show l :: (p0 ++ [w]) = (l :: p0) ++ [w] by simp, List.getLast?_append]; simp
    rw [e] at hp
    have : w ≠ l := by intro hh; subst hh; rw [e1] at nd; simp at nd
    simp [hp, this]

theorem walk_prev {s : DSt} {A : Nat → List Nat} {l : Nat} (h : GInv s A) (hl : l < s.nl) :
    ∀ (n : Nat) (p q : List Nat) (x fuel : Nat), p.length = n → A l = p ++ x :: q → p.length < fuel →
      walk s.nodePrev fuel (some x) = (x :: p.reverse, true) := by
  intro n
  induction n with
  | zero =>
    intro p q x fuel hn e1 hf
    have : p = [] := List.length_eq_zero_iff.1 hn
    subst this
    obtain ⟨f, rfl⟩ : ∃ f, fuel = f + 1 := ⟨fuel - 1, by omega⟩
    have := nodePrev_spec h hl e1
    simp at this
    cases f <;> simp [walk, this]
  | succ n ih =>
    intro p q x fuel hn e1 hf
    obtain ⟨f, rfl⟩ : ∃ f, fuel = f + 1 := ⟨fuel - 1, by omega⟩
    rcases eq_nil_or_snoc p with rfl | ⟨p0, w, rfl⟩
    · simp at hn
    · have hpv := nodePrev_spec h hl e1
      simp at hpv
      have := ih p0 (x :: q) w f (by simp at hn; omega) (by simp [e1]) (by simp at hf; omega)
      simp [walk, hpv, this]

/-- `for e := l.Back(); e != nil; e = e.Prev()` visits exactly `A l` reversed: the forward and
the backward traversal agree. -/
theorem backward_spec {s : DSt} {A : Nat → List Nat} {l : Nat} (h : GInv s A) (hl : l < s.nl)
    (fuel : Nat) (hf : (A l).length < fuel) : s.backward l fuel = ((A l).reverse, true) := by
  simp only [DSt.backward, (front_spec h hl).2.1]
  rcases eq_nil_or_snoc (A l) with hL | ⟨p, x, hL⟩
  · rw [hL]; cases fuel <;> simp [walk]
  · rw [hL]
    simp only [List.getLast?_append, List.getLast?_singleton, Option.some_or, List.reverse_append,
      List.reverse_cons, List.reverse_nil, List.nil_append, List.singleton_append]
    exact walk_prev h hl p.length p [] x fuel rfl (by simp [hL]) (by rw [hL] at hf; simp at hf; omega)

/-- The tail-recursive traversal used by the `big` dumps folds over exactly the nodes `walk`
visits (so `forward_spec`/`backward_spec` apply to the digests as well). -/
theorem walkFold_eq {α : Type} (step : Nat → Ptr) (f : α → Nat → α) :
    ∀ (n : Nat) (p : Ptr) (a : α),
      walkFold step f n p a = ((walk step n p).1.foldl f a, (walk step n p).2) := by
  intro n
  induction n with
  | zero => intro p a; cases p <;> simp [walkFold, walk]
  | succ n ih =>
    intro p a
    cases p with
    | none => simp [walkFold, walk]
    | some e => simp [walkFold, walk, ih]

end Golib.C13
