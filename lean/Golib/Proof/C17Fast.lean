/-
C17: the linear evaluators of Model/C17Large.lean (`subF`, `maskF`, `revF`, `removeF`) equal
the cursor models for EVERY byte string and every argument.
-/
import Golib.Proof.C17Loops
import Golib.Proof.C17Rev
import Golib.Model.C17Large

namespace Golib.C17
open Golib.Utf8

theorem stepB_cons (b : Nat) (t : List Nat) :
    stepB (b :: t) = if b < 0x80 then 1 else (decodeRune (b :: t)).2 := rfl

theorem advance_drop (s : List Nat) (i : Nat) (b : Nat) (t : List Nat) (h : s.drop i = b :: t) :
    advance s i = some (i + stepB (b :: t)) ∧ i < s.length ∧ i + stepB (b :: t) ≤ s.length ∧
      s.drop (i + stepB (b :: t)) = (b :: t).drop (stepB (b :: t)) := by
  have hlt : i < s.length := by
    rcases Nat.lt_or_ge i s.length with hc | hc
    · exact hc
    · have : s.drop i = [] := List.drop_eq_nil_of_le hc
      rw [this] at h; cases h
  have hget : s[i]? = some b := by
    have := congrArg (fun l => l[0]?) h
    simpa using this
  have hlen : t.length + 1 = s.length - i := by
    have := congrArg List.length h
    simp only [List.length_drop, List.length_cons] at this
    omega
  have hsz := decodeRune_size b t
  have hstep : stepB (b :: t) ≤ t.length + 1 ∧ 1 ≤ stepB (b :: t) := by
    rw [stepB_cons]
    by_cases hb : b < 0x80
    · rw [if_pos hb]; omega
    · rw [if_neg hb]; omega
  refine ⟨?_, hlt, by omega, by rw [← h, List.drop_drop]⟩
  unfold advance
  rw [hget, stepB_cons]
  simp only []
  by_cases hb : b < 0x80
  · rw [if_pos hb, if_pos hb]
  · rw [if_neg hb, if_neg hb, sliceFrom_le _ _ (Nat.le_of_lt hlt), h]

theorem subLoopF_eq (s : List Nat) (start length : Int) :
    ∀ (fuel : Nat) (rest : List Nat) (i count : Nat) (begin : Int), rest = s.drop i → i ≤ s.length →
      subLoopF s start length fuel rest i count begin = subLoop s start length fuel i count begin := by
  intro fuel
  induction fuel with
  | zero => intro rest i count begin _ _; rfl
  | succ f ih =>
    intro rest i count begin hr hi
    unfold subLoopF subLoop
    cases rest with
    | nil =>
      have : ¬ i < s.length := by
        intro hc
        have := congrArg List.length hr
        simp only [List.length_nil, List.length_drop] at this; omega
      simp only [this, if_false]
    | cons b t =>
      obtain ⟨ha, hlt, hle, hd⟩ := advance_drop s i b t hr.symm
      simp only [hlt, if_true, ha]
      rw [ih _ _ _ _ hd.symm hle, ih _ _ _ _ hd.symm hle]
      by_cases hc : (count : Int) = start
      · simp only [hc, if_true]
        by_cases hl : length = -1
        · simp only [hl, if_true]
          rw [sliceFrom_le _ _ (Nat.le_of_lt hlt), ← hr]
        · simp only [hl, if_false]
      · simp only [hc, if_false]

theorem subF_eq (s : List Nat) (start length : Int) : subF s start length = sub s start length := by
  unfold subF sub
  rw [subLoopF_eq s start length _ s 0 0 (-1) (by simp) (Nat.zero_le _)]

theorem maskLoopF_eq (s : List Nat) (start end_ : Int) :
    ∀ (fuel : Nat) (rest : List Nat) (i count si ei : Nat), rest = s.drop i → i ≤ s.length →
      maskLoopF start end_ fuel rest i count si ei = maskLoop s start end_ fuel i count si ei := by
  intro fuel
  induction fuel with
  | zero => intro rest i count si ei _ _; rfl
  | succ f ih =>
    intro rest i count si ei hr hi
    unfold maskLoopF maskLoop
    cases rest with
    | nil =>
      have : ¬ i < s.length := by
        intro hc
        have := congrArg List.length hr
        simp only [List.length_nil, List.length_drop] at this; omega
      simp only [this, if_false]
    | cons b t =>
      obtain ⟨ha, hlt, hle, hd⟩ := advance_drop s i b t hr.symm
      simp only [hlt, if_true, ha]
      rw [ih _ _ _ _ _ hd.symm hle]

theorem maskF_eq (str msk : List Nat) (start end_ : Int) : maskF str msk start end_ = mask str msk start end_ := by
  unfold maskF mask
  simp only [maskLoopF_eq str _ _ _ str 0 0 0 0 (by simp) (Nat.zero_le _)]
  rfl

theorem rev_all (s : List Nat) : rev s = some (revF s) := by
  unfold rev revF
  have := revLoop_reverse ((runes s).length + 1) [] (runes s) [] ((runes s).length - 1 : Int)
    (by omega) (by simp)
  simp only [List.nil_append, List.append_nil, List.length_nil, Int.natCast_zero] at this
  show Option.map encode (revLoop ((runes s).length + 1) (runes s) 0 (↑(runes s).length - 1)) = _
  rw [this]; rfl

theorem removeLoop_started_all (s : List Nat) (p : Int → Bool) :
    ∀ (steps : List (Nat × Int × Nat)) (b : List Nat),
      removeLoop s p steps (some b)
        = some (some (b ++ encode ((steps.map (·.2.1)).filter (fun r => !p r)))) := by
  intro steps
  induction steps with
  | nil => intro b; simp [removeLoop, encode]
  | cons e rest ih =>
    intro b
    obtain ⟨i, v, sz⟩ := e
    rw [removeLoop, ih]
    by_cases hp : p v = true
    · simp [hp]
    · simp [hp, encode, List.append_assoc]

theorem removeLoop_all (s : List Nat) (p : Int → Bool) :
    ∀ (steps : List (Nat × Int × Nat)), (∀ e ∈ steps, e.1 ≤ s.length) →
      removeLoop s p steps none = some (removeGo s p steps) := by
  intro steps
  induction steps with
  | nil => intro _; rfl
  | cons e rest ih =>
    intro h
    obtain ⟨i, v, sz⟩ := e
    rw [removeLoop, removeGo]
    by_cases hp : p v = true
    · rw [if_pos hp, if_pos hp, sliceTo_le _ _ (h (i, v, sz) (by simp))]
      simp only []
      rw [removeLoop_started_all]
    · rw [if_neg hp, if_neg hp]
      exact ih (fun e he => h e (by simp [he]))

theorem removeRunes_all (s : List Nat) (p : Int → Bool) : removeRunes s p = some (removeF s p) := by
  unfold removeRunes removeF
  rw [removeLoop_all s p _ (fun e he => rangeDecode_offsets s e he)]
  cases removeGo s p (rangeDecode s) <;> rfl

end Golib.C17
