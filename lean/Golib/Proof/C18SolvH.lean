/-
FindDpSolvers, heap level: the slice pool never hands out a buffer that a live cell of
`dp` / `dpTmp` still refers to, and the heap-level run reads back exactly the value-level
run (`solversV`), for every capacity-growth policy of `append`.
-/
import Golib.Proof.C18Heap
import Golib.Proof.C18SolvV

namespace Golib.C18

variable {α : Type}

def poolBufs (st : HSt α) : List Nat := st.pool.map (·.buf)

/-- No two live references share a buffer: the cells of `dp`, the cells of `dpTmp` and the
pool entries name pairwise different buffers, all allocated. -/
structure NoAlias (st : HSt α) : Prop where
  kd : (keys st.dp).Nodup
  kt : (keys st.tmp).Nodup
  inj_dp : ∀ k1 k2 s1 s2, alLookup k1 st.dp = some s1 → alLookup k2 st.dp = some s2 →
    s1.buf = s2.buf → k1 = k2
  inj_tmp : ∀ k1 k2 s1 s2, alLookup k1 st.tmp = some s1 → alLookup k2 st.tmp = some s2 →
    s1.buf = s2.buf → k1 = k2
  dp_tmp : ∀ k1 k2 s1 s2, alLookup k1 st.dp = some s1 → alLookup k2 st.tmp = some s2 → s1.buf ≠ s2.buf
  nd_pool : (poolBufs st).Nodup
  dp_pool : ∀ k s, alLookup k st.dp = some s → s.buf ∉ poolBufs st
  tmp_pool : ∀ k s, alLookup k st.tmp = some s → s.buf ∉ poolBufs st
  b_dp : ∀ k s, alLookup k st.dp = some s → s.buf < st.heap.length
  b_tmp : ∀ k s, alLookup k st.tmp = some s → s.buf < st.heap.length
  b_pool : ∀ b ∈ poolBufs st, b < st.heap.length

/-- The heap-level state reads back as the value-level state. -/
structure Sim (st : HSt α) (v : VSt α) : Prop where
  ov : st.overflow = v.overflow
  kdp : keys st.dp = keys v.dp
  ktmp : keys st.tmp = keys v.tmp
  rdp : ∀ k s, alLookup k st.dp = some s → ∃ val, alLookup k v.dp = some val ∧ readS st.heap s = some val
  rtmp : ∀ k s, alLookup k st.tmp = some s → ∃ val, alLookup k v.tmp = some val ∧ readS st.heap s = some val

/-! ### key lists of related maps -/

theorem keys_alInsert_congr {β γ : Type} (k : Int) (v : β) (v' : γ) (m : List (Int × β))
    (m' : List (Int × γ)) (h : keys m = keys m') : keys (alInsert k v m) = keys (alInsert k v' m') := by
  by_cases hk : k ∈ keys m
  · rw [keys_alInsert_of_mem k v m hk, keys_alInsert_of_mem k v' m' (h ▸ hk), h]
  · rw [keys_alInsert_of_not_mem k v m hk, keys_alInsert_of_not_mem k v' m' (h ▸ hk), h]

theorem keys_alErase {β : Type} (k : Int) : ∀ (m : List (Int × β)), keys (alErase k m) = (keys m).erase k
  | [] => rfl
  | (k1, v1) :: r => by
    simp only [alErase, keys, List.map_cons, List.erase_cons]
    by_cases h : k1 = k
    · simp [h]
    · have := keys_alErase k r
      simp only [keys] at this
      simp [h, this]

theorem keys_alErase_congr {β γ : Type} (k : Int) (m : List (Int × β)) (m' : List (Int × γ))
    (h : keys m = keys m') : keys (alErase k m) = keys (alErase k m') := by
  rw [keys_alErase, keys_alErase, h]

theorem lookup_none_of_keys {β γ : Type} {k : Int} {m : List (Int × β)} {m' : List (Int × γ)}
    (h : keys m = keys m') (hn : alLookup k m = none) : alLookup k m' = none :=
  alLookup_none_iff.mpr (h ▸ alLookup_none_iff.mp hn)

/-! ### `Get` + two `append`s -/

section
variable (grow : Nat → Nat)

theorem append2_spec (H : Heap α) (ns0 : Slice) (val : List α) (item : α)
    (h0 : readS H ns0 = some []) :
    ∃ h3 ns1 h4 ns2, appendS grow H ns0 val = some (h3, ns1) ∧
      appendS grow h3 ns1 [item] = some (h4, ns2) ∧ readS h4 ns2 = some (val ++ [item]) ∧
      H.length ≤ h4.length ∧ ns2.buf < h4.length ∧ (ns2.buf = ns0.buf ∨ H.length ≤ ns2.buf) ∧
      ∀ j, j ≠ ns0.buf → j < H.length → h4[j]? = H[j]? := by
  obtain ⟨h3, ns1, e1, r1, l1, b1, c1, f1⟩ := appendS_spec grow H ns0 val [] h0
  simp only [List.nil_append] at r1
  obtain ⟨h4, ns2, e2, r2, l2, b2, c2, f2⟩ := appendS_spec grow h3 ns1 [item] val r1
  refine ⟨h3, ns1, h4, ns2, e1, e2, r2, by omega, b2, ?_, ?_⟩
  · rcases c2 with c2 | c2 <;> rcases c1 with c1 | c1 <;> omega
  · intro j hj hjl
    have hj1 : j ≠ ns1.buf := by rcases c1 with c1 | c1 <;> omega
    rw [f2 j hj1 (by omega), f1 j hj hjl]

/-- A buffer index that no cell of `dp`/`dpTmp` can have: pooled, or not yet allocated. -/
def Fresh (st : HSt α) (b : Nat) : Prop := b ∈ poolBufs st ∨ st.heap.length ≤ b

/-- What `buildNew` returns, relative to the state before. -/
structure Built (st st4 : HSt α) (ns : Slice) (newVal : List α) : Prop where
  rd : readS st4.heap ns = some newVal
  dp : st4.dp = st.dp
  tmp : st4.tmp = st.tmp
  ovf : st4.overflow = st.overflow
  len : st.heap.length ≤ st4.heap.length
  frame : ∀ j, j < st.heap.length → j ∉ poolBufs st → st4.heap[j]? = st.heap[j]?
  bnd : ns.buf < st4.heap.length
  fresh : Fresh st ns.buf
  npool : ns.buf ∉ poolBufs st4
  pool : (poolBufs st4).Sublist (poolBufs st)

theorem buildNew_spec (item : α) (st : HSt α) (solver : Slice) (val : List α) (hna : NoAlias st)
    (hr : readS st.heap solver = some val) :
    ∃ st4 ns, buildNew grow item st solver = some (st4, ns) ∧ Built st st4 ns (val ++ [item]) := by
  have hsl := (readS_some_lt hr).1
  unfold buildNew poolGet
  cases hp : st.pool.getLast? with
  | none =>
    have hpool : st.pool = [] := List.getLast?_eq_none_iff.mp hp
    simp only [allocS]
    have hr' : readS (st.heap ++ [{ cap := solver.len + 1, data := ([] : List α) }]) solver = some val := by
      rw [readS_congr (List.getElem?_append_left hsl)]; exact hr
    have h0 : readS (st.heap ++ [{ cap := solver.len + 1, data := ([] : List α) }])
        { buf := st.heap.length, len := 0 } = some [] := by
      simp [readS]
    obtain ⟨h3, ns1, h4, ns2, e1, e2, r2, l2, b2, c2, f2⟩ := append2_spec grow _ _ val item h0
    simp only [hr', e1, e2]
    refine ⟨_, _, rfl, ?_⟩
    simp only [List.length_append, List.length_singleton] at l2 c2 f2
    refine { rd := r2, dp := rfl, tmp := rfl, ovf := rfl, len := by simp only [] ; omega, frame := ?_,
             bnd := b2, fresh := Or.inr (by omega),
             npool := by simp [poolBufs, hpool], pool := by simp [poolBufs] }
    intro j hj _
    simp only []
    rw [f2 j (by omega) (by omega)]
    exact List.getElem?_append_left hj
  | some p =>
    have hpool : st.pool = st.pool.dropLast ++ [p] := by
      obtain ⟨ys, hys⟩ := List.getLast?_eq_some_iff.mp hp
      rw [hys, List.dropLast_concat]
    have hpm : p.buf ∈ poolBufs st := by
      rw [poolBufs, hpool]; simp
    have hpl : p.buf < st.heap.length := hna.b_pool _ hpm
    have h0 : readS st.heap { buf := p.buf, len := 0 } = some [] := by
      simp only [readS, List.getElem?_eq_getElem hpl]
      simp
    obtain ⟨h3, ns1, h4, ns2, e1, e2, r2, l2, b2, c2, f2⟩ := append2_spec grow st.heap _ val item h0
    simp only [hr, e1, e2]
    refine ⟨_, _, rfl, ?_⟩
    have hnd := hna.nd_pool
    rw [poolBufs, hpool, List.map_append, List.nodup_append] at hnd
    refine { rd := r2, dp := rfl, tmp := rfl, ovf := rfl, len := l2, frame := ?_,
             bnd := b2, fresh := ?_, npool := ?_, pool := ?_ }
    · intro j hj hjp
      exact f2 j (fun e => hjp (e ▸ hpm)) hj
    · rcases c2 with c2 | c2
      · left; simp only [] at c2; rw [c2]; exact hpm
      · right; exact c2
    · simp only [poolBufs]
      intro hmem
      rcases c2 with c2 | c2
      · simp only [] at c2
        exact hnd.2.2 _ hmem p.buf (by simp) c2
      · have : ns2.buf ∈ poolBufs st := by
          rw [poolBufs, hpool, List.map_append]; exact List.mem_append_left _ hmem
        have := hna.b_pool _ this; omega
    · simp only [poolBufs]
      exact (List.dropLast_sublist _).map _

end

/-! ### consequences of `Built` -/

theorem fresh_ne_dp {st : HSt α} (hna : NoAlias st) {b : Nat} (hf : Fresh st b) {k : Int} {s : Slice}
    (hl : alLookup k st.dp = some s) : s.buf ≠ b := by
  rcases hf with hf | hf
  · intro e; exact hna.dp_pool k s hl (e ▸ hf)
  · have := hna.b_dp k s hl; omega

theorem fresh_ne_tmp {st : HSt α} (hna : NoAlias st) {b : Nat} (hf : Fresh st b) {k : Int} {s : Slice}
    (hl : alLookup k st.tmp = some s) : s.buf ≠ b := by
  rcases hf with hf | hf
  · intro e; exact hna.tmp_pool k s hl (e ▸ hf)
  · have := hna.b_tmp k s hl; omega

theorem Built.read_dp {st st4 : HSt α} {ns : Slice} {nv : List α} (hb : Built st st4 ns nv)
    (hna : NoAlias st) {k : Int} {s : Slice} (hl : alLookup k st.dp = some s) :
    readS st4.heap s = readS st.heap s :=
  readS_congr (hb.frame _ (hna.b_dp k s hl) (hna.dp_pool k s hl))

theorem Built.read_tmp {st st4 : HSt α} {ns : Slice} {nv : List α} (hb : Built st st4 ns nv)
    (hna : NoAlias st) {k : Int} {s : Slice} (hl : alLookup k st.tmp = some s) :
    readS st4.heap s = readS st.heap s :=
  readS_congr (hb.frame _ (hna.b_tmp k s hl) (hna.tmp_pool k s hl))

/-- Accepting the new slice into `dpTmp`. -/
theorem Built.accept {st st4 : HSt α} {ns : Slice} {nv : List α} {v : VSt α} (hb : Built st st4 ns nv)
    (hna : NoAlias st) (hs : Sim st v) (key : Int) :
    NoAlias { st4 with tmp := alInsert key ns st4.tmp } ∧
    Sim { st4 with tmp := alInsert key ns st4.tmp } { v with tmp := alInsert key nv v.tmp } := by
  have hsub := hb.pool.subset
  constructor
  · refine { kd := by simp only [hb.dp]; exact hna.kd
             kt := by simp only [hb.tmp]; exact nodup_keys_alInsert _ _ _ hna.kt
             inj_dp := by simp only [hb.dp]; exact hna.inj_dp
             inj_tmp := ?_, dp_tmp := ?_
             nd_pool := hb.pool.nodup hna.nd_pool
             dp_pool := ?_, tmp_pool := ?_, b_dp := ?_, b_tmp := ?_, b_pool := ?_ }
    · intro k1 k2 s1 s2 h1 h2 he
      simp only [hb.tmp, alLookup_alInsert] at h1 h2
      split at h1 <;> split at h2
      · omega
      · cases h1; exact absurd he.symm (fresh_ne_tmp hna hb.fresh h2)
      · cases h2; exact absurd he (fresh_ne_tmp hna hb.fresh h1)
      · exact hna.inj_tmp k1 k2 s1 s2 h1 h2 he
    · intro k1 k2 s1 s2 h1 h2
      simp only [hb.dp] at h1
      simp only [hb.tmp, alLookup_alInsert] at h2
      split at h2
      · cases h2; exact fresh_ne_dp hna hb.fresh h1
      · exact hna.dp_tmp k1 k2 s1 s2 h1 h2
    · intro k s h1 hm
      simp only [hb.dp] at h1
      exact hna.dp_pool k s h1 (hsub hm)
    · intro k s h1
      simp only [hb.tmp, alLookup_alInsert] at h1
      split at h1
      · cases h1; exact hb.npool
      · intro hm; exact hna.tmp_pool k s h1 (hsub hm)
    · intro k s h1
      simp only [hb.dp] at h1
      have := hna.b_dp k s h1; have := hb.len; simp only []; omega
    · intro k s h1
      simp only [hb.tmp, alLookup_alInsert] at h1
      split at h1
      · cases h1; exact hb.bnd
      · have := hna.b_tmp k s h1; have := hb.len; simp only []; omega
    · intro b hm
      have := hna.b_pool b (hsub hm); have := hb.len; simp only []; omega
  · refine { ov := by simp only [hb.ovf]; exact hs.ov
             kdp := by simp only [hb.dp]; exact hs.kdp
             ktmp := by simp only [hb.tmp]; exact keys_alInsert_congr _ _ _ _ _ hs.ktmp
             rdp := ?_, rtmp := ?_ }
    · intro k s h1
      simp only [hb.dp] at h1
      obtain ⟨val, hv, hr⟩ := hs.rdp k s h1
      exact ⟨val, hv, by simp only []; rw [hb.read_dp hna h1]; exact hr⟩
    · intro k s h1
      simp only [hb.tmp, alLookup_alInsert] at h1 ⊢
      split at h1
      · rename_i hk
        cases h1; exact ⟨nv, by rw [if_pos hk], hb.rd⟩
      · rename_i hk
        obtain ⟨val, hv, hr⟩ := hs.rtmp k s h1
        exact ⟨val, by rw [if_neg hk]; exact hv, by rw [hb.read_tmp hna h1]; exact hr⟩

/-- Rejecting it: `tmpPool.Put(newSolver)`. -/
theorem Built.reject {st st4 : HSt α} {ns : Slice} {nv : List α} {v : VSt α} (hb : Built st st4 ns nv)
    (hna : NoAlias st) (hs : Sim st v) : NoAlias (poolPut st4 ns) ∧ Sim (poolPut st4 ns) v := by
  have hsub := hb.pool.subset
  have hpb : poolBufs (poolPut st4 ns) = poolBufs st4 ++ [ns.buf] := by simp [poolBufs, poolPut]
  constructor
  · refine { kd := by simp only [poolPut, hb.dp]; exact hna.kd
             kt := by simp only [poolPut, hb.tmp]; exact hna.kt
             inj_dp := by simp only [poolPut, hb.dp]; exact hna.inj_dp
             inj_tmp := by simp only [poolPut, hb.tmp]; exact hna.inj_tmp
             dp_tmp := by simp only [poolPut, hb.dp, hb.tmp]; exact hna.dp_tmp
             nd_pool := ?_, dp_pool := ?_, tmp_pool := ?_, b_dp := ?_, b_tmp := ?_, b_pool := ?_ }
    · rw [hpb, List.nodup_append]
      refine ⟨hb.pool.nodup hna.nd_pool, by simp, ?_⟩
      intro a ha b hb'
      simp only [List.mem_singleton] at hb'
      subst hb'; intro e; subst e; exact hb.npool ha
    · intro k s h1
      simp only [poolPut, hb.dp] at h1
      rw [hpb, List.mem_append, not_or]
      refine ⟨fun hm => hna.dp_pool k s h1 (hsub hm), ?_⟩
      simp only [List.mem_singleton]
      exact fresh_ne_dp hna hb.fresh h1
    · intro k s h1
      simp only [poolPut, hb.tmp] at h1
      rw [hpb, List.mem_append, not_or]
      refine ⟨fun hm => hna.tmp_pool k s h1 (hsub hm), ?_⟩
      simp only [List.mem_singleton]
      exact fresh_ne_tmp hna hb.fresh h1
    · intro k s h1
      simp only [poolPut, hb.dp] at h1
      have := hna.b_dp k s h1; have := hb.len; simp only [poolPut]; omega
    · intro k s h1
      simp only [poolPut, hb.tmp] at h1
      have := hna.b_tmp k s h1; have := hb.len; simp only [poolPut]; omega
    · intro b hm
      rw [hpb, List.mem_append] at hm
      simp only [poolPut]
      rcases hm with hm | hm
      · have := hna.b_pool b (hsub hm); have := hb.len; omega
      · simp only [List.mem_singleton] at hm; subst hm; exact hb.bnd
  · refine { ov := by simp only [poolPut, hb.ovf]; exact hs.ov
             kdp := by simp only [poolPut, hb.dp]; exact hs.kdp
             ktmp := by simp only [poolPut, hb.tmp]; exact hs.ktmp
             rdp := ?_, rtmp := ?_ }
    · intro k s h1
      simp only [poolPut, hb.dp] at h1
      obtain ⟨val, hv, hr⟩ := hs.rdp k s h1
      exact ⟨val, hv, by simp only [poolPut]; rw [hb.read_dp hna h1]; exact hr⟩
    · intro k s h1
      simp only [poolPut, hb.tmp] at h1
      obtain ⟨val, hv, hr⟩ := hs.rtmp k s h1
      exact ⟨val, hv, by simp only [poolPut]; rw [hb.read_tmp hna h1]; exact hr⟩

end Golib.C18
