/-
Helper lemmas for C20: `formatInt` (the model of `strconv.FormatInt`) writes the standard
positional numeral of the value: its digits evaluate back to the value (Horner), for every
base 2..36.
-/
import Golib.Model.C20Id

set_option linter.unusedSimpArgs false
set_option linter.unusedVariables false

namespace Golib.C20

/-- value of a digit character `0-9a-z` -/
def digitVal (c : Char) : Nat :=
  if '0' ≤ c ∧ c ≤ '9' then c.toNat - 48 else if 'a' ≤ c ∧ c ≤ 'z' then c.toNat - 87 else 36

/-- Horner evaluation of a digit string in base `b` -/
def evalDigits (b : Nat) (cs : List Char) : Nat := cs.foldl (fun a c => a * b + digitVal c) 0

theorem digitVal_digitChar : ∀ d, d < 36 → digitVal (digitChar d) = d := by decide

theorem natDigits_acc (b : Nat) (n : Nat) : ∀ acc, natDigits b n acc = natDigits b n [] ++ acc := by
  induction n using Nat.strongRecOn with
  | _ n ih =>
    intro acc
    rw [natDigits]
    rw [natDigits.eq_def b n []]
    by_cases h : 2 ≤ b ∧ b ≤ n
    · simp only [h, and_self, dite_true]
      have hlt : n / b < n := Nat.div_lt_self (by omega) (by omega)
      rw [ih (n / b) hlt (digitChar (n % b) :: acc), ih (n / b) hlt [digitChar (n % b)]]
      simp
    · simp only [h, dite_false]; simp

theorem evalDigits_natDigits (b : Nat) (hb2 : 2 ≤ b) (hb36 : b ≤ 36) (n : Nat) :
    evalDigits b (natDigits b n []) = n ∧ ∀ c ∈ natDigits b n [], digitVal c < b := by
  induction n using Nat.strongRecOn with
  | _ n ih =>
    rw [natDigits]
    by_cases h : 2 ≤ b ∧ b ≤ n
    · simp only [h, and_self, dite_true]
      have hlt : n / b < n := Nat.div_lt_self (by omega) (by omega)
      rw [natDigits_acc b (n / b) [digitChar (n % b)]]
      obtain ⟨h1, h2⟩ := ih (n / b) hlt
      have hm : n % b < b := Nat.mod_lt _ (by omega)
      have hd : digitVal (digitChar (n % b)) = n % b := digitVal_digitChar _ (by omega)
      constructor
      · simp only [evalDigits, List.foldl_append, List.foldl_cons, List.foldl_nil] at h1 ⊢
        rw [h1, hd, Nat.mul_comm]; exact Nat.div_add_mod n b
      · intro c hc
        rcases List.mem_append.mp hc with hc | hc
        · exact h2 c hc
        · simp only [List.mem_singleton] at hc; rw [hc, hd]; exact hm
    · simp only [h, dite_false]
      have hn : n < b := by omega
      have hd : digitVal (digitChar n) = n := digitVal_digitChar _ (by omega)
      constructor
      · simp [evalDigits, hd]
      · intro c hc; simp only [List.mem_singleton] at hc; rw [hc, hd]; exact hn

end Golib.C20
