/-
C10 (Ring): every single operation of the model refines the bounded-FIFO spec
(`BQ.step`) under the representation invariant; lifted to operation lists in
`Golib/Props/C10.lean`.
-/
import Golib.Model.C10Spec
import Golib.Proof.C10Recap

set_option linter.unusedSimpArgs false
set_option linter.unusedVariables false

namespace Golib.C10
open Golib.Proto

/-- Abstraction function from the ring to the bounded FIFO. -/
def Ring.abs (r : Ring) : BQ := ⟨r.content, r.cap⟩

theorem step_refines (r : Ring) (hi : r.Inv) (op : Op) :
    ∃ r', r.step op = some (r', (r.abs.step op).2) ∧ r'.Inv ∧ r'.abs = (r.abs.step op).1 := by
  generalize hs : r.abs = s
  obtain ⟨q, cp⟩ := s
  have hq : r.content = q := congrArg BQ.q hs
  have hcp : r.cap = cp := congrArg BQ.cap hs
  cases op with
  | push v =>
    obtain ⟨r', ok, hp, hi', hcap, hok, hc⟩ := push_spec r v hi
    rw [hq, hcp] at hok; rw [hq] at hc; rw [hcp] at hcap
    refine ⟨r', ?_, hi', ?_⟩
    · simp only [Ring.step, hp, Option.map_some, BQ.step]
      cases ok with
      | true => rw [if_pos (hok.mp rfl)]; rfl
      | false => rw [if_neg (fun h => by simpa using hok.mpr h)]; rfl
    · simp only [BQ.step, Ring.abs]
      cases ok with
      | true => rw [if_pos (hok.mp rfl)]; simp only [if_true] at hc; rw [hc, hcap]
      | false =>
        rw [if_neg (fun h => by simpa using hok.mpr h)]
        simp only [Bool.false_eq_true, if_false] at hc; rw [hc, hcap]
  | pushx v =>
    obtain ⟨r', hp, hi', hc, hcap⟩ := pushWithExpand_spec r v hi
    rw [hq, hcp] at hcap; rw [hq] at hc
    refine ⟨r', ?_, hi', ?_⟩
    · simp only [Ring.step, hp, Option.map_some, BQ.step]
    · simp only [BQ.step, Ring.abs]; rw [hc, hcap]
  | recap c =>
    obtain ⟨r', ok, hp, hi', hc, hok, hcap⟩ := recap_spec r c hi
    rw [hq, hcp] at hok; rw [hq] at hc; rw [hcp] at hcap
    refine ⟨r', ?_, hi', ?_⟩
    · simp only [Ring.step, hp, Option.map_some, BQ.step]
      cases ok with
      | true => rw [if_pos (hok.mp rfl)]; rfl
      | false => rw [if_neg (fun h => by simpa using hok.mpr h)]; rfl
    · simp only [BQ.step, Ring.abs]
      cases ok with
      | true => rw [if_pos (hok.mp rfl)]; simp only [if_true] at hcap; rw [hcap, hc]
      | false =>
        rw [if_neg (fun h => by simpa using hok.mpr h)]
        simp only [Bool.false_eq_true, if_false] at hcap; rw [hcap, hc]
  | pop =>
    obtain ⟨r', v, ok, hp, hi', hcap, hs⟩ := pop_spec r hi
    rw [hq] at hs; rw [hcp] at hcap
    refine ⟨r', ?_, hi', ?_⟩
    · simp only [Ring.step, hp, Option.map_some, BQ.step]
      rcases hs with ⟨rfl, hc⟩ | ⟨rfl, rfl, hc, rfl⟩
      · rw [hc]
      · rw [hc]
    · simp only [BQ.step, Ring.abs]
      rcases hs with ⟨rfl, hc⟩ | ⟨rfl, rfl, hc, rfl⟩
      · rw [hc, hcap]
      · subst hc; rw [hq, hcp]
  | peek =>
    obtain ⟨v, ok, hp, hs⟩ := peek_spec r hi
    rw [hq] at hs
    refine ⟨r, ?_, hi, ?_⟩
    · simp only [Ring.step, hp, Option.map_some, BQ.step]
      rcases hs with ⟨rfl, hc⟩ | ⟨rfl, rfl, hc⟩
      · cases q with
        | nil => simp at hc
        | cons x xs => simp only [List.head?_cons, Option.some.injEq] at hc; rw [hc]
      · rw [hc]
    · simp only [BQ.step, Ring.abs, hq, hcp]
      cases q <;> rfl
  | len =>
    refine ⟨r, ?_, hi, by simp only [BQ.step, Ring.abs, hq, hcp]⟩
    simp only [Ring.step, BQ.step, ← content_length r hi, hq]
  | cap => exact ⟨r, by simp only [Ring.step, BQ.step, hcp], hi, by simp only [BQ.step, Ring.abs, hq, hcp]⟩
  | isEmpty =>
    refine ⟨r, ?_, hi, by simp only [BQ.step, Ring.abs, hq, hcp]⟩
    simp only [Ring.step, BQ.step]
    have h := isEmpty_spec r hi
    rw [hq] at h
    cases he : r.isEmpty with
    | true => rw [h.mp he]; rfl
    | false =>
      cases q with
      | nil => rw [h.mpr rfl] at he; cases he
      | cons x xs => rfl
  | isFull =>
    refine ⟨r, ?_, hi, by simp only [BQ.step, Ring.abs, hq, hcp]⟩
    have hc0 : ¬ (r.cap = 0) := by have := hi.capPos; omega
    simp only [Ring.step, BQ.step, Ring.isFull?, if_neg hc0, Option.map_some]
    have h := isFull_spec r hi
    rw [hq, hcp] at h
    cases he : r.isFull with
    | true => simp only [h.mp he, decide_true]
    | false =>
      have : ¬ ((q.length : Int) = cp) := fun hh => by rw [h.mpr hh] at he; cases he
      simp only [this, decide_false]

end Golib.C10
