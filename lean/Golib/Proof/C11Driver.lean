/-
C11 — the protocol driver runs the model: one `step <tid>` line of a case (`macroStep` in
Model/C11.lean: the atomic access, then the plain accesses / the tick receive that the Go
shims cannot park at) is between one and five consecutive `step`s of that thread.  So every
state and every event the correspondence check compares with the real code belongs to a
model run `run ord (init vals progs) σ`, with calls `t<k>` of the case being
`Call.popWaitT k` — the scheduler-driven timed-`PopWait` cases instantiate
`c11_popwait_timed`, `c11_history`, `c11_lin_fifo`, ….
-/
import Golib.Model.C11

namespace Golib.C11

theorem run_snoc_fst (ord : Order) (s : State) (σ : List Nat) (i : Nat) :
    (run ord s (σ ++ [i])).1 = (step ord (run ord s σ).1 i).1 := by
  induction σ generalizing s with
  | nil => simp [run]
  | cons x σ ih => simp only [List.cons_append, run]; exact ih _

theorem replicate_succ_front (m i : Nat) :
    List.replicate (m + 1) i = i :: List.replicate m i := rfl

theorem plainRun_is_run (ord : Order) (k : Nat) (s : State) (i : Nat) (e : Event) :
    ∃ m, m ≤ k ∧ (plainRun ord k s i e).1 = (run ord s (List.replicate m i)).1 := by
  induction k generalizing s e with
  | zero => exact ⟨0, Nat.le_refl _, rfl⟩
  | succ k ih =>
    unfold plainRun
    cases hth : s.threads[i]? with
    | none => exact ⟨0, Nat.zero_le _, rfl⟩
    | some th =>
      dsimp only
      split
      · obtain ⟨m, hm, h⟩ := ih (step ord s i).1
          { e with ret := if (step ord s i).2.ret.isSome then (step ord s i).2.ret else e.ret }
        refine ⟨m + 1, by omega, ?_⟩
        rw [replicate_succ_front]
        simp only [run]
        exact h
      · exact ⟨0, Nat.zero_le _, rfl⟩

/-- One `step <tid>` line = 1 … 5 model steps of that thread. -/
theorem macroStep_is_run (ord : Order) (s : State) (i : Nat) :
    ∃ m, 1 ≤ m ∧ m ≤ 5 ∧ (macroStep ord s i).1 = (run ord s (List.replicate m i)).1 := by
  unfold macroStep
  obtain ⟨m, hm, h⟩ := plainRun_is_run ord 4 (step ord s i).1 i (step ord s i).2
  refine ⟨m + 1, by omega, by omega, ?_⟩
  rw [replicate_succ_front]
  simp only [run]
  exact h

end Golib.C11
