/-
C20 (StrGenerator): termination.  `Generate(n)` returns as soon as the random source has
offered `n` acceptable indices — a bound in WORDS read — and never returns if it offers
none (a `rand.Source` that keeps returning a word whose index fields are all rejected).
-/
import Golib.Proof.C20Str

set_option linter.unusedSimpArgs false
set_option linter.unusedVariables false

namespace Golib.C20

/-- words that come after the ones a finished run read are left unread -/
theorem genWords_append (g : StrGen) (ws2 : List Nat) :
    ∀ (ws1 : List Nat) (need : Nat) (acc out : List Int) (r : List Nat),
      genWords g need ws1 acc = .done out r → genWords g need (ws1 ++ ws2) acc = .done out (r ++ ws2) := by
  intro ws1
  induction ws1 with
  | nil =>
    intro need acc out r h
    cases need with
    | zero =>
      simp only [genWords, GenRes.done.injEq] at h
      obtain ⟨rfl, rfl⟩ := h
      cases ws2 <;> simp [genWords]
    | succ k => simp [genWords] at h
  | cons w ws ih =>
    intro need acc out r h
    cases need with
    | zero =>
      simp only [genWords, GenRes.done.injEq] at h
      obtain ⟨rfl, rfl⟩ := h
      simp [genWords]
    | succ k =>
      simp only [genWords, List.cons_append] at h ⊢
      cases hc : chunks g (k + 1) w g.charIdxMax acc with
      | none => simp [hc] at h
      | some p =>
        obtain ⟨n', a'⟩ := p
        simp only [hc] at h ⊢
        exact ih n' a' out r h

theorem generate_append (g : StrGen) (n : Nat) (ws1 ws2 : List Nat) (out : List Int) (r : List Nat)
    (h : generate g n ws1 = .done out r) : generate g n (ws1 ++ ws2) = .done out (r ++ ws2) := by
  have hn : ¬ ((n : Int) < 0) := by omega
  simp only [generate, hn, if_false, Int.toNat_natCast] at h ⊢
  cases ws1 with
  | nil => simp at h
  | cons w ws =>
    simp only [List.cons_append] at h ⊢
    cases hc : chunks g n w g.charIdxMax [] with
    | none => simp [hc] at h
    | some p =>
      obtain ⟨n', a'⟩ := p
      simp only [hc] at h ⊢
      exact genWords_append g ws2 ws n' a' out r h

/-- Fuel bound in words: if the first `k ≥ 1` words offer at least `n` acceptable indices,
`Generate(n)` returns having read at most `k` words. -/
theorem generate_within (g : StrGen) (n k : Nat) (ws : List Nat) (hk : 1 ≤ k) (hne : ws ≠ [])
    (hoff : n ≤ offered g (ws.take k)) :
    ∃ out rest, generate g n ws = .done out rest ∧ out.length = n ∧ ws.length - k ≤ rest.length := by
  have htk : ws.take k ≠ [] := by
    cases ws with
    | nil => exact absurd rfl hne
    | cons w ws' =>
      obtain ⟨j, rfl⟩ : ∃ j, k = j + 1 := ⟨k - 1, by omega⟩
      simp
  rcases generate_spec g n (ws.take k) with ⟨_, h | h⟩ | ⟨out, rest, hd, hl, _, _⟩
  · exact absurd h htk
  · omega
  · refine ⟨out, rest ++ ws.drop k, ?_, hl, ?_⟩
    · have := generate_append g n (ws.take k) (ws.drop k) out rest hd
      rwa [List.take_append_drop] at this
    · simp only [List.length_append, List.length_drop]; omega

/-- if every word offers at least `a` acceptable indices, `k` words offer at least `a·k` -/
theorem offered_ge (g : StrGen) (a : Nat) :
    ∀ (ws : List Nat) (k : Nat), k ≤ ws.length → (∀ w ∈ ws, a ≤ accepted g w g.charIdxMax) →
      a * k ≤ offered g (ws.take k) := by
  intro ws
  induction ws with
  | nil =>
    intro k hk _
    have hk0 : k = 0 := by simpa using hk
    rw [hk0]
    simp [offered]
  | cons w ws ih =>
    intro k hk hall
    cases k with
    | zero => simp [offered]
    | succ j =>
      have h1 := hall w (List.mem_cons_self ..)
      have h2 := ih j (by simpa using hk) (fun x hx => hall x (List.mem_cons_of_mem _ hx))
      simp only [List.take_succ_cons, offered, List.map_cons, List.sum_cons] at h2 ⊢
      rw [Nat.mul_succ]
      omega

/-- no acceptable index offered ⇒ the refill loop never finishes, however many words -/
theorem genWords_never (g : StrGen) :
    ∀ (ws : List Nat) (need : Nat) (acc : List Int), 1 ≤ need →
      (∀ w ∈ ws, accepted g w g.charIdxMax = 0) → genWords g need ws acc = .exhausted := by
  intro ws
  induction ws with
  | nil => intro need acc hn _; obtain ⟨j, rfl⟩ : ∃ j, need = j + 1 := ⟨need - 1, by omega⟩; rfl
  | cons w ws ih =>
    intro need acc hn hall
    obtain ⟨j, rfl⟩ : ∃ j, need = j + 1 := ⟨need - 1, by omega⟩
    obtain ⟨a1, h1, _, _⟩ := chunks_spec g g.charIdxMax (j + 1) w acc
    have h0 := hall w (List.mem_cons_self ..)
    simp only [genWords, h1, h0, Nat.sub_zero]
    exact ih (j + 1) _ (by omega) (fun x hx => hall x (List.mem_cons_of_mem _ hx))

theorem generate_never (g : StrGen) (n : Nat) (ws : List Nat) (hn : 1 ≤ n)
    (hall : ∀ w ∈ ws, accepted g w g.charIdxMax = 0) : generate g n ws = .exhausted := by
  have hneg : ¬ ((n : Int) < 0) := by omega
  simp only [generate, hneg, if_false, Int.toNat_natCast]
  cases ws with
  | nil => rfl
  | cons w ws =>
    obtain ⟨a1, h1, _, _⟩ := chunks_spec g g.charIdxMax n w []
    have h0 := hall w (List.mem_cons_self ..)
    simp only [h1, h0, Nat.sub_zero]
    exact genWords_never g ws n _ hn (fun x hx => hall x (List.mem_cons_of_mem _ hx))

/-! ### the all-ones word offers nothing, for every generator `NewStrGenerator` builds -/

theorem ones_split (m b : Nat) (hb : b ≤ m) :
    2 ^ m - 1 = 2 ^ b * (2 ^ (m - b) - 1) + (2 ^ b - 1) := by
  have hA : 1 ≤ 2 ^ b := Nat.one_le_two_pow
  have hB : 1 ≤ 2 ^ (m - b) := Nat.one_le_two_pow
  have hAB : 2 ^ m = 2 ^ b * 2 ^ (m - b) := by rw [← Nat.pow_add]; congr 1; omega
  have hmul : 2 ^ b * (2 ^ (m - b) - 1) = 2 ^ b * 2 ^ (m - b) - 2 ^ b := by
    rw [Nat.mul_sub, Nat.mul_one]
  have hle : 2 ^ b ≤ 2 ^ b * 2 ^ (m - b) := Nat.le_mul_of_pos_right _ (by omega)
  rw [hmul, hAB]
  omega

theorem ones_mod (m b : Nat) (hb : b ≤ m) : (2 ^ m - 1) % 2 ^ b = 2 ^ b - 1 := by
  rw [ones_split m b hb, Nat.mul_add_mod]
  exact Nat.mod_eq_of_lt (by have : 1 ≤ 2 ^ b := Nat.one_le_two_pow; omega)

theorem ones_div (m b : Nat) (hb : b ≤ m) : (2 ^ m - 1) / 2 ^ b = 2 ^ (m - b) - 1 := by
  have hA : 0 < 2 ^ b := Nat.two_pow_pos b
  rw [ones_split m b hb, Nat.mul_add_div hA, Nat.div_eq_of_lt (by omega)]
  simp

/-- a word `2^m − 1` with at least `bits·remain` one-bits: every index field is the mask -/
theorem accepted_ones (g : StrGen) (hmask : g.charIdxMask = 2 ^ g.charIdxBits - 1)
    (hlen : g.charSet.length < 2 ^ g.charIdxBits) :
    ∀ (remain m : Nat), g.charIdxBits * remain ≤ m → accepted g (2 ^ m - 1) remain = 0 := by
  intro remain
  induction remain with
  | zero => intro m _; rfl
  | succ k ih =>
    intro m hm
    have hb : g.charIdxBits ≤ m := by
      have : g.charIdxBits * (k + 1) = g.charIdxBits * k + g.charIdxBits := Nat.mul_succ _ _
      omega
    have hand : (2 ^ m - 1) &&& g.charIdxMask = 2 ^ g.charIdxBits - 1 := by
      rw [hmask, Nat.and_two_pow_sub_one_eq_mod, ones_mod m _ hb]
    have hshift : (2 ^ m - 1) >>> g.charIdxBits = 2 ^ (m - g.charIdxBits) - 1 := by
      rw [Nat.shiftRight_eq_div_pow, ones_div m _ hb]
    have hrej : ¬ (2 ^ g.charIdxBits - 1 < g.charSet.length) := by omega
    simp only [accepted, hand, hrej, if_false, hshift, Nat.zero_add]
    apply ih
    have : g.charIdxBits * (k + 1) = g.charIdxBits * k + g.charIdxBits := Nat.mul_succ _ _
    omega

end Golib.C20
