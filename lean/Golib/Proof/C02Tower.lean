/-
C02 helper lemmas, part 2: the level loops of the searches, and splice / unsplice over
the tower.  `ls` is always the list of visited levels in visiting order (top first).
-/
import Golib.Proof.C02Chain

set_option linter.unusedSectionVars false

namespace Golib.C02

variable {K : Type} [DecidableEq K] {cmp : K → K → Int}

/-- Visiting order: every level is a sub-list of every later (lower) one. -/
def Down (cmp : K → K → Int) (ls : List (List K)) : Prop :=
  (∀ l ∈ ls, Sorted cmp l) ∧ ls.Pairwise (fun a b => a.Sublist b)

theorem Down.tail {l : List K} {ls : List (List K)} (h : Down cmp (l :: ls)) : Down cmp ls :=
  ⟨fun x hx => h.1 x (by simp [hx]), (List.pairwise_cons.mp h.2).2⟩

theorem Down.head_sub {l : List K} {ls : List (List K)} (h : Down cmp (l :: ls)) :
    ∀ l' ∈ ls, l.Sublist l' := (List.pairwise_cons.mp h.2).1

/-- The node the level loops hit: the node equivalent to `key` on the first visited level
that holds one. -/
def hitIn (cmp : K → K → Int) (key : K) (ls : List (List K)) : Option K := ls.findSome? (findEq cmp key)

/-- The cursor after visiting all of `ls`. -/
def descend (cmp : K → K → Int) (key : K) (ls : List (List K)) (cur : Option K) : Option K :=
  ls.foldl (fun _ l => pred cmp key l) cur

theorem descend_congr (hc : WeakCmp cmp) {n key : K} (h : cmp n key = 0) :
    descend cmp key = descend cmp n := by
  funext ls cur; unfold descend; rw [pred_congr hc h]

theorem hitIn_cons (key : K) (l : List K) (ls : List (List K)) :
    hitIn cmp key (l :: ls) = match findEq cmp key l with
      | some n => some n
      | none => hitIn cmp key ls := by
  unfold hitIn; rw [List.findSome?_cons]; cases findEq cmp key l <;> rfl

theorem setLoop_spec (hc : WeakCmp cmp) (key : K) :
    ∀ (ls : List (List K)) (cur : Option K) (upd : List (Option K)), Down cmp ls →
      (∀ l ∈ ls, CurOK cmp key cur l) →
      setLoop cmp key ls cur upd =
        match hitIn cmp key ls with
        | some n => some (.inl n)
        | none => some (.inr ((ls.map (pred cmp key)).reverse ++ upd)) := by
  intro ls
  induction ls with
  | nil => intro cur upd _ _; simp [setLoop, hitIn]
  | cons l ls ih =>
    intro cur upd hd hcur
    obtain ⟨rest, h1, h2⟩ := level_walk hc key (hd.1 l (by simp)) (hcur l (by simp))
    unfold setLoop
    rw [h1]; simp only []; rw [h2, hitIn_cons]
    cases hf : findEq cmp key l with
    | some n => rfl
    | none =>
      simp only []
      rw [ih _ _ hd.tail]
      · cases hitIn cmp key ls <;> simp
      · intro l' hl'
        exact (pred_curOK key l).mono (hd.head_sub l' hl')

theorem findLoop_spec (hc : WeakCmp cmp) (key : K) :
    ∀ (ls : List (List K)) (cur : Option K), Down cmp ls →
      (∀ l ∈ ls, CurOK cmp key cur l) →
      findLoop cmp key ls cur = some (hitIn cmp key ls) := by
  intro ls
  induction ls with
  | nil => intro cur _ _; simp [findLoop, hitIn]
  | cons l ls ih =>
    intro cur hd hcur
    obtain ⟨rest, h1, h2⟩ := level_walk hc key (hd.1 l (by simp)) (hcur l (by simp))
    unfold findLoop
    rw [h1]; simp only []; rw [h2, hitIn_cons]
    cases hf : findEq cmp key l with
    | some n => rfl
    | none =>
      simp only []
      rw [ih _ hd.tail]
      intro l' hl'
      exact (pred_curOK key l).mono (hd.head_sub l' hl')

theorem startLoop_spec (hc : WeakCmp cmp) (key : K) :
    ∀ (ls : List (List K)) (cur : Option K), Down cmp ls →
      (∀ l ∈ ls, CurOK cmp key cur l) →
      startLoop cmp key ls cur =
        match hitIn cmp key ls with
        | some n => some (.inl n)
        | none => some (.inr (descend cmp key ls cur)) := by
  intro ls
  induction ls with
  | nil => intro cur _ _; simp [startLoop, hitIn, descend]
  | cons l ls ih =>
    intro cur hd hcur
    obtain ⟨rest, h1, h2⟩ := level_walk hc key (hd.1 l (by simp)) (hcur l (by simp))
    unfold startLoop
    rw [h1]; simp only []; rw [h2, hitIn_cons]
    cases hf : findEq cmp key l with
    | some n => rfl
    | none =>
      simp only []
      rw [ih _ hd.tail]
      · simp [descend]
      · intro l' hl'
        exact (pred_curOK key l).mono (hd.head_sub l' hl')

/-- Number of visited levels that hold `key`. -/
def cntHas (key : K) (ls : List (List K)) : Nat := (ls.filter (fun l => decide (key ∈ l))).length

/-- Number of visited levels that hold a node equivalent to `key`. -/
def cntHit (cmp : K → K → Int) (key : K) (ls : List (List K)) : Nat :=
  (ls.filter (fun l => (findEq cmp key l).isSome)).length

theorem cntHit_of_head (hc : WeakCmp cmp) {key n : K} {l : List K} {ls : List (List K)}
    (hd : Down cmp (l :: ls)) (hm : findEq cmp key l = some n) : cntHit cmp key (l :: ls) = ls.length + 1 := by
  obtain ⟨hn, he⟩ := findEq_some hm
  unfold cntHit
  rw [List.filter_eq_self.mpr]
  · simp
  · intro l' hl'
    rcases List.mem_cons.mp hl' with rfl | h
    · simp [hm]
    · rw [findEq_of_mem hc (hd.1 l' (by simp [h])) ((hd.head_sub l' h).subset hn) he]; rfl

theorem removeLoop_spec (hc : WeakCmp cmp) (key : K) :
    ∀ (ls : List (List K)) (cur : Option K) (cl : Nat) (upd : List (Option K)), Down cmp ls →
      (∀ l ∈ ls, CurOK cmp key cur l) →
      removeLoop cmp key ls cur cl upd =
        some (descend cmp key ls cur, (if cl = 0 then cntHit cmp key ls else cl),
              (ls.map (pred cmp key)).reverse ++ upd) := by
  intro ls
  induction ls with
  | nil => intro cur cl upd _ _; simp [removeLoop, descend, cntHit]
  | cons l ls ih =>
    intro cur cl upd hd hcur
    obtain ⟨rest, h1, h2⟩ := level_walk hc key (hd.1 l (by simp)) (hcur l (by simp))
    unfold removeLoop
    rw [h1]; simp only []; rw [h2]; simp only []
    rw [ih _ _ _ hd.tail]
    · cases hm : findEq cmp key l with
      | some n =>
        have hc1 := cntHit_of_head hc hd hm
        by_cases hcl : cl = 0
        · subst hcl; simp [hc1, descend]
        · simp [hcl, descend]
      | none =>
        have : cntHit cmp key (l :: ls) = cntHit cmp key ls := by simp [cntHit, hm]
        by_cases hcl : cl = 0
        · subst hcl; simp [this, descend]
        · simp [hcl, descend]
    · intro l' hl'
      exact (pred_curOK key l).mono (hd.head_sub l' hl')

/-! ### the tower (bottom level first) -/

/-- Bottom-up: every level sorted, every higher level a sub-list of every lower one. -/
def Tower (cmp : K → K → Int) (lv : List (List K)) : Prop :=
  (∀ l ∈ lv, Sorted cmp l) ∧ lv.Pairwise (fun a b => b.Sublist a)

theorem Tower.tail {l : List K} {lv : List (List K)} (h : Tower cmp (l :: lv)) : Tower cmp lv :=
  ⟨fun x hx => h.1 x (by simp [hx]), (List.pairwise_cons.mp h.2).2⟩

theorem Tower.sub_head {l : List K} {lv : List (List K)} (h : Tower cmp (l :: lv)) :
    ∀ l' ∈ lv, l'.Sublist l := (List.pairwise_cons.mp h.2).1

theorem Tower.down (h : Tower cmp lv) (n : Nat) : Down cmp (lv.take n).reverse := by
  constructor
  · intro l hl
    exact h.1 l (List.mem_of_mem_take (List.mem_reverse.mp hl))
  · rw [List.pairwise_reverse]
    exact List.Pairwise.sublist (List.take_sublist n lv) h.2

/-- First `n` levels get `key` spliced in. -/
def insTop (cmp : K → K → Int) (key : K) : Nat → List (List K) → List (List K)
  | 0, lv => lv
  | _ + 1, [] => []
  | n + 1, l :: lv => ins cmp key l :: insTop cmp key n lv

/-- First `n` levels get `key` unspliced. -/
def delTop (cmp : K → K → Int) (key : K) : Nat → List (List K) → List (List K)
  | 0, lv => lv
  | _ + 1, [] => []
  | n + 1, l :: lv => del cmp key l :: delTop cmp key n lv

theorem splice_spec (hc : WeakCmp cmp) (key : K) :
    ∀ (n : Nat) (lv : List (List K)) (us : List (Option K)), n ≤ lv.length → n ≤ us.length →
      (∀ l ∈ lv, Sorted cmp l) →
      (∀ i, i < n → us[i]? = (lv[i]?).map (pred cmp key)) →
      splice key n lv us = some (insTop cmp key n lv) := by
  intro n
  induction n with
  | zero => intro lv us _ _ _ _; simp [splice, insTop]
  | succ n ih =>
    intro lv us hl hu hs hus
    cases lv with
    | nil => simp at hl
    | cons l lv =>
      cases us with
      | nil => simp at hu
      | cons u us =>
        have hu0 : u = pred cmp key l := by simpa using hus 0 (by omega)
        subst hu0
        unfold splice
        rw [spliceAt_pred hc key (hs l (by simp))]
        rw [ih lv us (by simpa using hl) (by simpa using hu) (fun x hx => hs x (by simp [hx]))
          (fun i hi => by simpa using hus (i + 1) (by omega))]
        rfl

theorem unsplice_spec (hc : WeakCmp cmp) (key : K) :
    ∀ (n : Nat) (lv : List (List K)) (us : List (Option K)), n ≤ lv.length → n ≤ us.length →
      (∀ l ∈ lv, Sorted cmp l) →
      (∀ i, i < n → us[i]? = (lv[i]?).map (pred cmp key)) →
      (∀ l ∈ lv.take n, key ∈ l) →
      unsplice key n lv us = some (delTop cmp key n lv) := by
  intro n
  induction n with
  | zero => intro lv us _ _ _ _ _; simp [unsplice, delTop]
  | succ n ih =>
    intro lv us hl hu hs hus hk
    cases lv with
    | nil => simp at hl
    | cons l lv =>
      cases us with
      | nil => simp at hu
      | cons u us =>
        have hu0 : u = pred cmp key l := by simpa using hus 0 (by omega)
        subst hu0
        unfold unsplice
        rw [unspliceAt_pred hc key (hs l (by simp)) (hk l (by simp))]
        rw [ih lv us (by simpa using hl) (by simpa using hu) (fun x hx => hs x (by simp [hx]))
          (fun i hi => by simpa using hus (i + 1) (by omega))
          (fun x hx => hk x (by simp [hx]))]
        rfl

theorem length_insTop (key : K) : ∀ (n : Nat) (lv : List (List K)), (insTop cmp key n lv).length = lv.length := by
  intro n
  induction n with
  | zero => intro lv; rfl
  | succ n ih => intro lv; cases lv with
    | nil => rfl
    | cons l lv => simp [insTop, ih]

theorem length_delTop (key : K) : ∀ (n : Nat) (lv : List (List K)), (delTop cmp key n lv).length = lv.length := by
  intro n
  induction n with
  | zero => intro lv; rfl
  | succ n ih => intro lv; cases lv with
    | nil => rfl
    | cons l lv => simp [delTop, ih]

theorem getElem?_insTop (key : K) : ∀ (n : Nat) (lv : List (List K)) (i : Nat),
    (insTop cmp key n lv)[i]? = if i < n then (lv[i]?).map (ins cmp key) else lv[i]? := by
  intro n
  induction n with
  | zero => intro lv i; simp [insTop]
  | succ n ih =>
    intro lv i
    cases lv with
    | nil => simp [insTop]
    | cons l lv =>
      cases i with
      | zero => simp [insTop]
      | succ i => simp [insTop, ih]

theorem getElem?_delTop (key : K) : ∀ (n : Nat) (lv : List (List K)) (i : Nat),
    (delTop cmp key n lv)[i]? = if i < n then (lv[i]?).map (del cmp key) else lv[i]? := by
  intro n
  induction n with
  | zero => intro lv i; simp [delTop]
  | succ n ih =>
    intro lv i
    cases lv with
    | nil => simp [delTop]
    | cons l lv =>
      cases i with
      | zero => simp [delTop]
      | succ i => simp [delTop, ih]

theorem mem_insTop {key : K} : ∀ {n : Nat} {lv : List (List K)} {b : List K},
    b ∈ insTop cmp key n lv → ∃ l ∈ lv, b = ins cmp key l ∨ b = l := by
  intro n
  induction n with
  | zero => intro lv b hb; exact ⟨b, hb, Or.inr rfl⟩
  | succ n ih =>
    intro lv b hb
    cases lv with
    | nil => simp [insTop] at hb
    | cons l lv =>
      simp only [insTop, List.mem_cons] at hb
      rcases hb with rfl | hb
      · exact ⟨l, by simp, Or.inl rfl⟩
      · obtain ⟨l', hl', h⟩ := ih hb
        exact ⟨l', by simp [hl'], h⟩

theorem mem_delTop {key : K} : ∀ {n : Nat} {lv : List (List K)} {b : List K},
    b ∈ delTop cmp key n lv → ∃ l ∈ lv, b = del cmp key l ∨ b = l := by
  intro n
  induction n with
  | zero => intro lv b hb; exact ⟨b, hb, Or.inr rfl⟩
  | succ n ih =>
    intro lv b hb
    cases lv with
    | nil => simp [delTop] at hb
    | cons l lv =>
      simp only [delTop, List.mem_cons] at hb
      rcases hb with rfl | hb
      · exact ⟨l, by simp, Or.inl rfl⟩
      · obtain ⟨l', hl', h⟩ := ih hb
        exact ⟨l', by simp [hl'], h⟩

/-- Splicing a fresh key into the lowest `n` levels keeps the tower. -/
theorem Tower.insTop (hc : WeakCmp cmp) {key : K} :
    ∀ {n : Nat} {lv : List (List K)}, Tower cmp lv → (∀ l ∈ lv, ∀ y ∈ l, cmp y key ≠ 0) →
      Tower cmp (insTop cmp key n lv) := by
  intro n
  induction n with
  | zero => intro lv h _; exact h
  | succ n ih =>
    intro lv h hk
    cases lv with
    | nil => exact h
    | cons l lv =>
      have ht := ih h.tail (fun x hx => hk x (by simp [hx]))
      have hsl := h.1 l (by simp)
      constructor
      · intro b hb
        simp only [Golib.C02.insTop, List.mem_cons] at hb
        rcases hb with rfl | hb
        · exact ins_sorted hc hsl (hk l (by simp))
        · exact ht.1 b hb
      · simp only [Golib.C02.insTop]
        rw [List.pairwise_cons]
        refine ⟨?_, ht.2⟩
        intro b hb
        obtain ⟨l', hl', h'⟩ := mem_insTop hb
        rcases h' with rfl | rfl
        · exact ins_sublist_ins (h.sub_head l' hl')
        · exact (h.sub_head _ hl').trans (sublist_ins hc hsl)

/-- Unsplicing a key from the lowest `n` levels keeps the tower, provided the levels above
do not hold it. -/
theorem Tower.delTop (hc : WeakCmp cmp) {key : K} :
    ∀ {n : Nat} {lv : List (List K)}, Tower cmp lv → (∀ l ∈ lv.drop n, ∀ y ∈ l, cmp y key ≠ 0) →
      Tower cmp (delTop cmp key n lv) := by
  intro n
  induction n with
  | zero => intro lv h _; exact h
  | succ n ih =>
    intro lv h hk
    cases lv with
    | nil => exact h
    | cons l lv =>
      have ht := ih h.tail (by simpa using hk)
      have hsl := h.1 l (by simp)
      constructor
      · intro b hb
        simp only [Golib.C02.delTop, List.mem_cons] at hb
        rcases hb with rfl | hb
        · exact hsl.sublist (del_sublist hc hsl)
        · exact ht.1 b hb
      · simp only [Golib.C02.delTop]
        rw [List.pairwise_cons]
        refine ⟨?_, ht.2⟩
        intro b hb
        -- b is level i+1 of the new tower: either del l' or an untouched l' that lacks key
        obtain ⟨i, hi, hbi⟩ := List.getElem_of_mem hb
        have hget : (Golib.C02.delTop cmp key n lv)[i]? = some b := by
          rw [List.getElem?_eq_getElem hi, hbi]
        rw [getElem?_delTop] at hget
        have hi' : i < lv.length := by rw [length_delTop] at hi; exact hi
        rw [List.getElem?_eq_getElem hi'] at hget
        have hl'mem : lv[i] ∈ lv := List.getElem_mem hi'
        have hsub := h.sub_head _ hl'mem
        by_cases hin : i < n
        · simp only [hin, if_true, Option.map_some, Option.some.injEq] at hget
          rw [← hget]; exact del_sublist_del hsub
        · simp only [hin, if_false, Option.some.injEq] at hget
          rw [← hget]
          have hnk : ∀ y ∈ lv[i], cmp y key ≠ 0 := by
            apply hk
            simp only [List.drop_succ_cons]
            rw [List.mem_iff_getElem]
            exact ⟨i - n, by simp; omega, by simp; congr 1; omega⟩
          rw [← del_of_not_mem hc (h.1 _ (by simp [hl'mem])) hnk]
          exact del_sublist_del hsub

end Golib.C02
