/-
C20 helper lemmas added by the review:
* the VALUE `ParseBase32` returns for a string over the alphabet: Horner's rule over the
  positions of the characters in the alphabet, wrapped to `int64` (exact below 2^63, in
  particular for every string of at most 12 characters);
* `AddRule` stores a permutation of the rules it was given;
* `Generate(0)`;
* `time.Duration.Milliseconds()` and IDs taken at least a millisecond apart.
-/
import Golib.Proof.C20Base32
import Golib.Proof.C20Count
import Golib.Proof.C20Layout
import Golib.Proof.C20Str

set_option linter.unusedSimpArgs false
set_option linter.unusedVariables false

namespace Golib.C20
open Golib.Gen.C20

/-! ### value of a base-32 numeral -/

/-- digit value of an alphabet character: its position in `encodeBase32Map` -/
def digitOf (c : Nat) : Nat := alphabet.idxOf c

/-- Horner's rule, most significant character first (unbounded) -/
def numeralValue (bs : List Nat) : Nat := bs.foldl (fun a c => a * 32 + digitOf c) 0

theorem alphabet_idx : ∀ c ∈ alphabet, alphabet[alphabet.idxOf c]? = some c ∧ alphabet.idxOf c < 32 := by
  decide

theorem table_digit (t : List Nat) (hs : TableSpec t) (c : Nat) (hc : c ∈ alphabet) :
    t[c]? = some (digitOf c) ∧ digitOf c < 32 := by
  obtain ⟨h1, h2⟩ := alphabet_idx c hc
  obtain ⟨c', hc', ht⟩ := hs.decode _ h2
  rw [h1] at hc'
  cases hc'
  exact ⟨ht, h2⟩

theorem foldl_stepV_eq (t : List Nat) (hs : TableSpec t) (bs : List Nat) (hall : ∀ b ∈ bs, b ∈ alphabet) :
    ∀ acc, bs.foldl (stepV t) acc = bs.foldl (fun a c => a * 32 + digitOf c) acc := by
  induction bs with
  | nil => intro acc; rfl
  | cons c cs ih =>
    intro acc
    simp only [List.foldl_cons]
    have hd : dec t c = digitOf c := by
      simp [dec, (table_digit t hs c (hall c (List.mem_cons_self ..))).1]
    rw [ih (fun b hb => hall b (List.mem_cons_of_mem _ hb))]
    simp only [stepV, hd]

theorem parse_value_with (t : List Nat) (hs : TableSpec t) (bs : List Nat)
    (hall : ∀ b ∈ bs, b ∈ alphabet) :
    parseBase32With t bs = .ok (toInt64 (numeralValue bs)) := by
  rw [parseBase32With, parseLoop_accepts t bs 0, foldl_stepV_eq t hs bs hall 0, numeralValue]
  intro c hc
  obtain ⟨h1, h2⟩ := table_digit t hs c (hall c hc)
  refine ⟨_, h1, ?_⟩
  rw [hs.mark]
  omega

theorem foldl_horner_lt (bs : List Nat) (hall : ∀ b ∈ bs, b ∈ alphabet) :
    ∀ acc k, acc < 32 ^ k →
      bs.foldl (fun a c => a * 32 + digitOf c) acc < 32 ^ (k + bs.length) := by
  induction bs with
  | nil => intro acc k h; simpa using h
  | cons c cs ih =>
    intro acc k h
    simp only [List.foldl_cons, List.length_cons]
    have hd := (alphabet_idx c (hall c (List.mem_cons_self ..))).2
    have : acc * 32 + digitOf c < 32 ^ (k + 1) := by
      simp only [digitOf, Nat.pow_succ]
      omega
    have := ih (fun b hb => hall b (List.mem_cons_of_mem _ hb)) _ (k + 1) this
    rw [show k + (cs.length + 1) = k + 1 + cs.length by omega]
    exact this

theorem numeralValue_lt (bs : List Nat) (hall : ∀ b ∈ bs, b ∈ alphabet) :
    numeralValue bs < 32 ^ bs.length := by
  have := foldl_horner_lt bs hall 0 0 (by decide)
  simpa [numeralValue] using this

/-! ### AddRule stores a permutation of what it was given -/

theorem insertRule_perm (x : Rule) (rs : List Rule) : (insertRule x rs).Perm (x :: rs) := by
  induction rs with
  | nil => exact List.Perm.refl _
  | cons y ys ih =>
    simp only [insertRule]
    split
    · exact List.Perm.refl _
    · exact (List.Perm.cons y ih).trans (List.Perm.swap x y ys)

theorem foldl_addRule_perm (xs : List Rule) :
    ∀ rs, (xs.foldl addRule rs).Perm (xs.reverse ++ rs) := by
  induction xs with
  | nil => intro rs; exact List.Perm.refl _
  | cons x xs ih =>
    intro rs
    simp only [List.foldl_cons, List.reverse_cons, List.append_assoc, List.singleton_append]
    exact (ih (addRule rs x)).trans (List.Perm.append_left _ (insertRule_perm x rs))

/-! ### Generate(0) -/

theorem generate_zero (g : StrGen) (w : Nat) (ws : List Nat) :
    generate g 0 (w :: ws) = .done [] ws := by
  simp [generate, chunks, genWords]

/-! ### Milliseconds -/

theorem millis_step (d1 d2 : Int) (h0 : 0 ≤ d1) (h : d1 + 1000000 ≤ d2) :
    0 ≤ millis d1 ∧ millis d1 + 1 ≤ millis d2 := by
  have e1 : millis d1 = d1 / 1000000 := Int.tdiv_eq_ediv_of_nonneg h0
  have e2 : millis d2 = d2 / 1000000 := Int.tdiv_eq_ediv_of_nonneg (by omega)
  rw [e1, e2]
  omega

end Golib.C20
