/-
Polynomials over GF(2) as natural numbers (bit `i` = coefficient of `x^i`): carry-less
product, reduction modulo a polynomial `P` of degree `n` by cancelling the high coefficients
from the top down, and the shift-and-reduce characterisation
`(Y·x^i) mod P = (x·(…(x·Y mod P)…) mod P)`.  Generic in `(n, P)`; used for GF(2^8)
(`AES.gmul`, this file) and GF(2^128) (`GCM.gfMul`, `C08GcmSpec`).

Result of this file: `gmul_is_clmul_mod` — the shift-and-add loop `AES.gmul a b` is the
carry-less product of `a` and `b` reduced modulo `x^8 + x^4 + x^3 + x + 1`.
-/
import Golib.Proof.C08AesMix

namespace Golib.C08
open AES

/-! ### bits -/

theorem testBit_eq_false_of_lt {v i j : Nat} (h : v < 2 ^ i) (hij : i ≤ j) : v.testBit j = false :=
  Nat.testBit_lt_two_pow (Nat.lt_of_lt_of_le h (Nat.pow_le_pow_right (by decide) hij))

/-- the number whose bits `0 … m-1` are `f 0 … f (m-1)` -/
def ofBits (f : Nat → Bool) : Nat → Nat
  | 0 => 0
  | m + 1 => ofBits f m ||| (if f m then 2 ^ m else 0)

theorem testBit_ofBits (f : Nat → Bool) : ∀ (m j : Nat),
    (ofBits f m).testBit j = (decide (j < m) && f j)
  | 0, j => by simp [ofBits]
  | m + 1, j => by
    rw [ofBits, Nat.testBit_or, testBit_ofBits f m j]
    by_cases hjm : j = m
    · subst hjm
      cases hf : f j <;> simp [Nat.testBit_two_pow_self]
    · have h1 : (if f m then 2 ^ m else 0).testBit j = false := by
        split
        · rw [Nat.testBit_two_pow]; simp; omega
        · simp
      have h2 : decide (j < m + 1) = decide (j < m) := by
        apply decide_eq_decide.mpr; omega
      rw [h1, h2]; simp

theorem ofBits_lt (f : Nat → Bool) (m : Nat) : ofBits f m < 2 ^ m := by
  apply Nat.lt_pow_two_of_testBit
  intro i hi
  rw [testBit_ofBits]
  have : decide (i < m) = false := by simp; omega
  rw [this]; rfl

/-! ### xor-sums -/

/-- `z ⊕ Σ_{i ∈ l, c i} g i` -/
def xsum (c : Nat → Bool) (g : Nat → Nat) (z : Nat) (l : List Nat) : Nat :=
  l.foldl (fun z i => if c i then z ^^^ g i else z) z

theorem xsum_map (f : Nat → Nat) (hf : ∀ a b, f (a ^^^ b) = f a ^^^ f b) (c : Nat → Bool)
    (g : Nat → Nat) : ∀ (l : List Nat) (z : Nat),
    f (xsum c g z l) = xsum c (fun i => f (g i)) (f z) l
  | [], _ => rfl
  | i :: l, z => by
    simp only [xsum, List.foldl_cons]
    have ih := xsum_map f hf c g l (if c i then z ^^^ g i else z)
    simp only [xsum] at ih
    rw [ih]
    cases c i <;> simp [hf]

theorem xsum_congr (c c' : Nat → Bool) (g g' : Nat → Nat) : ∀ (l : List Nat) (z : Nat),
    (∀ i ∈ l, c i = c' i ∧ g i = g' i) → xsum c g z l = xsum c' g' z l
  | [], _, _ => rfl
  | i :: l, z, h => by
    simp only [xsum, List.foldl_cons]
    have hi := h i List.mem_cons_self
    rw [hi.1, hi.2]
    exact xsum_congr c c' g g' l _ (fun j hj => h j (List.mem_cons_of_mem _ hj))

theorem xsum_lt (n : Nat) (c : Nat → Bool) (g : Nat → Nat) : ∀ (l : List Nat) (z : Nat),
    z < 2 ^ n → (∀ i ∈ l, g i < 2 ^ n) → xsum c g z l < 2 ^ n
  | [], _, hz, _ => hz
  | i :: l, z, hz, h => by
    simp only [xsum, List.foldl_cons]
    apply xsum_lt n c g l _ _ (fun j hj => h j (List.mem_cons_of_mem _ hj))
    split
    · exact Nat.xor_lt_two_pow hz (h i List.mem_cons_self)
    · exact hz

/-- carry-less (GF(2)[x]) product of `a` (its low `w` bits) and `b`: `Σ_{i<w} a_i · (b·x^i)` -/
def clmulN (w a b : Nat) : Nat :=
  (List.range w).foldl (fun z i => if a.testBit i then z ^^^ (b <<< i) else z) 0

theorem clmulN_eq_xsum (w a b : Nat) :
    clmulN w a b = xsum (fun i => a.testBit i) (fun i => b <<< i) 0 (List.range w) := rfl

/-! ### reduction modulo a polynomial `P` of degree `n` -/

/-- cancel the coefficient of `x^i` (`i ≥ n`) with the multiple `x^(i-n)·P` -/
def pstep (n P i p : Nat) : Nat := if p.testBit i then p ^^^ (P <<< (i - n)) else p

/-- cancel the coefficients of `x^(n+k-1) … x^n`, from the top down -/
def red (n P k p : Nat) : Nat := (List.range k).foldr (fun j q => pstep n P (n + j) q) p

/-- `Y·x^i mod P` by `i` shift-and-reduce steps -/
def xpow (n P i Y : Nat) : Nat := Nat.repeat (fun r => pstep n P n (r <<< 1)) i Y

section
variable (n P : Nat)

theorem pstep_eq (i p : Nat) : pstep n P i p = p ^^^ bitsel p i (P <<< (i - n)) := by
  unfold pstep bitsel
  split <;> simp

theorem pstep_xor (i a b : Nat) : pstep n P i (a ^^^ b) = pstep n P i a ^^^ pstep n P i b := by
  simp only [pstep_eq, bitsel_xor]
  ac_rfl

theorem pstep_zero (i : Nat) : pstep n P i 0 = 0 := by simp [pstep]

theorem pstep_noop (i p : Nat) (h : p.testBit i = false) : pstep n P i p = p := by
  simp [pstep, h]

theorem red_succ (k p : Nat) : red n P (k + 1) p = red n P k (pstep n P (n + k) p) := by
  simp [red, List.range_succ, List.foldr_append]

theorem red_xor : ∀ (k a b : Nat), red n P k (a ^^^ b) = red n P k a ^^^ red n P k b
  | 0, _, _ => rfl
  | k + 1, a, b => by rw [red_succ, red_succ, red_succ, pstep_xor, red_xor k]

theorem red_zero : ∀ k, red n P k 0 = 0
  | 0 => rfl
  | k + 1 => by rw [red_succ, pstep_zero, red_zero k]

theorem pstep_shift (i q : Nat) (hi : n ≤ i) :
    pstep n P (i + 1) (q <<< 1) = (pstep n P i q) <<< 1 := by
  have e : i + 1 - n = (i - n) + 1 := by omega
  have hb : (q <<< 1).testBit (i + 1) = q.testBit i := by simp
  unfold pstep
  rw [hb, e, Nat.shiftLeft_add]
  split
  · rw [Nat.shiftLeft_xor_distrib]
  · rfl

/-- reducing `x·q` = reduce `q`, multiply by `x`, cancel `x^n` -/
theorem red_shift : ∀ (k q : Nat), red n P (k + 1) (q <<< 1) = pstep n P n ((red n P k q) <<< 1)
  | 0, q => by rw [red_succ]; rfl
  | k + 1, q => by
    rw [red_succ]
    show red n P (k + 1) (pstep n P ((n + k) + 1) (q <<< 1)) = _
    rw [pstep_shift n P (n + k) q (by omega), red_shift k, ← red_succ]

/-- steps above the degree of `p` do nothing -/
theorem red_noop (k p : Nat) (h : p < 2 ^ (n + k)) : ∀ m, red n P (k + m) p = red n P k p
  | 0 => rfl
  | m + 1 => by
    rw [← Nat.add_assoc, red_succ, pstep_noop _ _ _ _ (testBit_eq_false_of_lt h (by omega)),
      red_noop k p h m]

theorem red_of_lt (p : Nat) (h : p < 2 ^ n) (k : Nat) : red n P k p = p := by
  have := red_noop n P 0 p (by simpa using h) k
  rw [Nat.zero_add] at this
  exact this

theorem red_shiftLeft (Y : Nat) : ∀ i, red n P i (Y <<< i) = xpow n P i Y
  | 0 => rfl
  | i + 1 => by
    rw [Nat.shiftLeft_add, red_shift, red_shiftLeft Y i]
    rfl

/-- `(Y·x^i) mod P` for `deg Y < n`, `i ≤ k`, is obtained by `i` shift-and-reduce steps -/
theorem red_shiftLeft_of_lt (Y i k : Nat) (hY : Y < 2 ^ n) (hi : i ≤ k) :
    red n P k (Y <<< i) = xpow n P i Y := by
  have hlt : Y <<< i < 2 ^ (n + i) := by
    rw [Nat.shiftLeft_eq, Nat.pow_add]
    exact Nat.mul_lt_mul_of_pos_right hY (Nat.two_pow_pos i)
  have e : k = i + (k - i) := by omega
  rw [e, red_noop n P i _ hlt, red_shiftLeft]

/-- a step at the top coefficient lowers the degree (`P` monic of degree `n`) -/
theorem pstep_lt (hP : P < 2 ^ (n + 1)) (hPn : P.testBit n = true) (k p : Nat)
    (hp : p < 2 ^ (n + k + 1)) : pstep n P (n + k) p < 2 ^ (n + k) := by
  apply Nat.lt_pow_two_of_testBit
  intro j hj
  have hPj : ∀ j, n + k < j → (P <<< (n + k - n)).testBit j = false := by
    intro j hj
    rw [Nat.testBit_shiftLeft]
    have : P.testBit (j - (n + k - n)) = false := testBit_eq_false_of_lt hP (by omega)
    rw [this]; simp
  have hPtop : (P <<< (n + k - n)).testBit (n + k) = true := by
    rw [Nat.testBit_shiftLeft]
    have e : n + k - (n + k - n) = n := by omega
    rw [e, hPn]; simp
  unfold pstep
  by_cases hjk : j = n + k
  · subst hjk
    split
    · next h => rw [Nat.testBit_xor, h, hPtop]; rfl
    · next h => simpa using h
  · have hpj : p.testBit j = false := testBit_eq_false_of_lt hp (by omega)
    split
    · rw [Nat.testBit_xor, hpj, hPj j (by omega)]; rfl
    · exact hpj

/-- the remainder has degree `< n` -/
theorem red_lt (hP : P < 2 ^ (n + 1)) (hPn : P.testBit n = true) : ∀ (k p : Nat),
    p < 2 ^ (n + k) → red n P k p < 2 ^ n
  | 0, _, hp => hp
  | k + 1, p, hp => by
    rw [red_succ]
    exact red_lt hP hPn k _ (pstep_lt n P hP hPn k p hp)

/-- multiples `x^i·P` reduce to `0` -/
theorem red_P_shiftLeft (hP : P < 2 ^ (n + 1)) (hPn : P.testBit n = true) :
    ∀ (i k : Nat), i < k → red n P k (P <<< i) = 0 := by
  have base : ∀ i, red n P (i + 1) (P <<< i) = 0 := by
    intro i
    induction i with
    | zero =>
      rw [red_succ]
      show red n P 0 (pstep n P n (P <<< 0)) = 0
      simp [red, pstep, hPn]
    | succ i ih =>
      rw [Nat.shiftLeft_add, red_shift, ih]
      simp [pstep]
  intro i k hik
  have hlt : P <<< i < 2 ^ (n + (i + 1)) := by
    rw [Nat.shiftLeft_eq, show n + (i + 1) = (n + 1) + i by omega, Nat.pow_add]
    exact Nat.mul_lt_mul_of_pos_right hP (Nat.two_pow_pos i)
  have e : k = (i + 1) + (k - (i + 1)) := by omega
  rw [e, red_noop n P (i + 1) _ hlt, base]

end

/-! ### `AES.gmul` is the carry-less product modulo `x^8 + x^4 + x^3 + x + 1` -/

/-- `x^8 + x^4 + x^3 + x + 1` -/
def aesPoly : Nat := 2 ^ 8 + 2 ^ 4 + 2 ^ 3 + 2 + 1

/-- remainder of a polynomial of degree `< 15` modulo `aesPoly` -/
def pmod8 (p : Nat) : Nat := red 8 aesPoly 7 p

theorem xtime_eq_fin : ∀ v : Fin 256, xtime v.val = pstep 8 aesPoly 8 (v.val <<< 1) := by
  decide +kernel

theorem repeat_xtime (a : Nat) (ha : a < 256) : ∀ i,
    Nat.repeat xtime i a < 256 ∧ Nat.repeat xtime i a = xpow 8 aesPoly i a
  | 0 => ⟨ha, rfl⟩
  | i + 1 => by
    obtain ⟨h1, h2⟩ := repeat_xtime a ha i
    refine ⟨xtime_lt _, ?_⟩
    show xtime (Nat.repeat xtime i a) = pstep 8 aesPoly 8 ((xpow 8 aesPoly i a) <<< 1)
    rw [← h2]
    exact xtime_eq_fin ⟨_, h1⟩

theorem gmul_fold (a b : Nat) : ∀ n,
    (List.range n).foldl gmulStep (0, a, b) =
      (xsum (fun i => b.testBit i) (fun i => Nat.repeat xtime i a) 0 (List.range n),
        Nat.repeat xtime n a, b / 2 ^ n) := by
  intro n
  induction n with
  | zero => simp [xsum, Nat.repeat]
  | succ n ih =>
    rw [List.range_succ, List.foldl_append, ih]
    simp only [List.foldl_cons, List.foldl_nil, gmulStep, xsum, List.foldl_append]
    have e1 : b / 2 ^ n / 2 = b / 2 ^ (n + 1) := by rw [Nat.div_div_eq_div_mul, Nat.pow_succ]
    have e2 : (b / 2 ^ n % 2 = 1) = (b.testBit n = true) := by
      rw [Nat.testBit_eq_decide_div_mod_eq]; simp
    rw [e1]
    simp only [e2]
    rfl

/-- the shift-and-add loop: `gmul a b = Σ_{i<8} b_i · xtime^i a` -/
theorem gmul_eq_xsum (a b : Nat) (ha : a < 256) (hb : b < 256) :
    gmul a b = xsum (fun i => b.testBit i) (fun i => Nat.repeat xtime i a) 0 (List.range 8) := by
  rw [gmul_eq, Nat.mod_eq_of_lt ha, Nat.mod_eq_of_lt hb, gmul_fold]

/-- **`AES.gmul` is multiplication in GF(2^8) = GF(2)[x]/(x^8+x^4+x^3+x+1)**: the carry-less
product `Σ_i b_i·(a·x^i)` (= `a·b` in GF(2)[x]) reduced modulo `aesPoly`. -/
theorem gmul_is_clmul_mod (a b : Nat) (ha : a < 256) (hb : b < 256) :
    AES.gmul a b = pmod8 (clmulN 8 b a) := by
  rw [gmul_eq_xsum a b ha hb, clmulN_eq_xsum, pmod8, xsum_map (red 8 aesPoly 7) (red_xor 8 aesPoly 7),
    red_zero]
  apply xsum_congr
  intro i hi
  have hi' : i < 8 := List.mem_range.mp hi
  refine ⟨rfl, ?_⟩
  show _ = red 8 aesPoly 7 (a <<< i)
  rw [red_shiftLeft_of_lt 8 aesPoly a i 7 ha (by omega)]
  exact (repeat_xtime a ha i).2

/-- `pmod8` really is "the remainder modulo `aesPoly`": it is xor-linear, the identity on
polynomials of degree `< 8`, kills the multiples `x^i·aesPoly`, and returns degree `< 8`. -/
theorem pmod8_spec :
    (∀ p q, pmod8 (p ^^^ q) = pmod8 p ^^^ pmod8 q) ∧ (∀ p, p < 2 ^ 8 → pmod8 p = p) ∧
      (∀ i, i < 7 → pmod8 (aesPoly <<< i) = 0) ∧ (∀ p, p < 2 ^ 15 → pmod8 p < 2 ^ 8) :=
  ⟨red_xor 8 aesPoly 7, fun p hp => red_of_lt 8 aesPoly p hp 7,
    fun i hi => red_P_shiftLeft 8 aesPoly (by decide) (by decide) i 7 hi,
    fun p hp => red_lt 8 aesPoly (by decide) (by decide) 7 p hp⟩

end Golib.C08
