/-
C04 helper lemmas, part 3: `fix`, `build` and the methods of `Slice`.
-/
import Golib.Proof.C04Sift

set_option linter.unusedSimpArgs false
set_option linter.unusedVariables false

namespace Golib.C04

/-- `Values` satisfies the heap order. -/
def Heap (cmp : Int → Int → Bool) (s : List Int) : Prop := HeapOn cmp (nthN s) 0 s.length

@[simp] theorem fuelOf_cast (n : Nat) : fuelOf (n : Int) = n + 1 := by simp [fuelOf]

/-- The root of a heap is preceded by no element. -/
theorem heap_root_min {cmp} (hs : SWO cmp) {f : Nat → Int} {n : Nat} (h : HeapOn cmp f 0 n) :
    ∀ k, k < n → cmp (f k) (f 0) = false := by
  intro k
  induction k using Nat.strongRecOn with
  | _ k ih =>
    intro hk
    by_cases h0 : k = 0
    · subst h0; exact hs.irrefl _
    · have hp : par k < k := by unfold par; omega
      have h1 := ih (par k) hp (by omega)
      have h2 := h k hk (by omega) (Nat.zero_le _)
      exact hs.negTrans h1 h2

theorem downB_spec {cmp} (hs : SWO cmp) (s : List Int) (i n lo : Nat) (strict : Bool)
    (hn : n ≤ s.length) (hlo : lo ≤ i) (hin : i ≤ n) (hpre : DownPre cmp (nthN s) i n lo strict) :
    ∃ (s' : List Int) (i' : Nat), downB (sliceOps cmp) s (i : Int) (n : Int) = some (s', decide (i < i')) ∧
      DownPost cmp s i n lo strict s' i' := by
  obtain ⟨s', i', hrun, hpost⟩ := down_spec hs (n + 1) s i n lo strict hn hlo hin (by omega) hpre
  refine ⟨s', i', ?_, hpost⟩
  simp only [downB, fuelOf_cast, hrun, Option.map_some]
  congr 2
  simp

/-- `fix(s, cmp, swap, i, n)` from the bare order facts: all pairs not involving `i` are in
order and the children of `i` do not precede `i`'s parent.  Then the heap order is restored on
the first `n` positions; multiset kept; positions `≥ n` untouched; no panic. -/
theorem fix_spec_core {cmp} (hs : SWO cmp) (s : List Int) (i n : Nat)
    (hn : n ≤ s.length) (hi : i < n)
    (hpair : ∀ c, c < n → 1 ≤ c → c ≠ i → par c ≠ i → cmp (nthN s c) (nthN s (par c)) = false)
    (hgrand : 1 ≤ i → ∀ c, c < n → 1 ≤ c → par c = i → cmp (nthN s c) (nthN s (par i)) = false) :
    ∃ s', fix (sliceOps cmp) s (i : Int) (n : Int) = some s' ∧
      s'.length = s.length ∧ s'.Perm s ∧ (∀ k, n ≤ k → nthN s' k = nthN s k) ∧
      HeapOn cmp (nthN s') 0 n := by
  have hpre : DownPre cmp (nthN s) i n 0 false := by
    refine ⟨?_, fun hi1 _ => hgrand hi1⟩
    intro c hc hc1 _ hpi hor
    rcases hor with h | h
    · cases h
    · exact hpair c hc hc1 h hpi
  obtain ⟨s1, i', hrun, hlen, hperm, htail, hle, hpost⟩ :=
    downB_spec hs s i n 0 false hn (Nat.zero_le _) (by omega) hpre
  simp only [fix, hrun]
  by_cases hmv : i < i'
  · simp only [hmv, decide_true]
    have : (false = true ∨ i < i') := Or.inr hmv
    simp only [this, if_true] at hpost
    exact ⟨s1, rfl, hlen, hperm, htail, hpost⟩
  · simp only [hmv, decide_false]
    have : ¬ (false = true ∨ i < i') := by simp [hmv]
    simp only [this, if_false] at hpost
    obtain ⟨rfl, hch⟩ := hpost
    have hup : UpPre cmp (nthN s1) i n := by
      refine ⟨?_, hgrand⟩
      intro c hc hc1 hci
      by_cases hpi : par c = i
      · rw [hpi]; exact hch c hc hc1 hpi
      · exact hpair c hc hc1 hci hpi
    obtain ⟨s2, hrun2, hlen2, hperm2, htail2, hheap⟩ := up_spec hs (i + 1) s1 i n hn hi (by omega) hup
    refine ⟨s2, ?_, hlen2, hperm2, htail2, hheap⟩
    simp only [upF, fuelOf_cast, hrun2]

/-- `fix(s, cmp, swap, i, n)`: if the first `n` positions are a heap except for the value at
`i`, the heap order is restored on them; multiset kept; positions `≥ n` untouched; no panic. -/
theorem fix_spec {cmp} (hs : SWO cmp) (s : List Int) (i n : Nat) (f0 : Nat → Int)
    (hn : n ≤ s.length) (hi : i < n) (h0 : HeapOn cmp f0 0 n)
    (hsame : ∀ k, k < n → k ≠ i → nthN s k = f0 k) :
    ∃ s', fix (sliceOps cmp) s (i : Int) (n : Int) = some s' ∧
      s'.length = s.length ∧ s'.Perm s ∧ (∀ k, n ≤ k → nthN s' k = nthN s k) ∧
      HeapOn cmp (nthN s') 0 n := by
  refine fix_spec_core hs s i n hn hi ?_ ?_
  · intro c hc hc1 hci hpi
    have : par c < n := by unfold par; omega
    rw [hsame c hc hci, hsame (par c) this hpi]
    exact h0 c hc hc1 (Nat.zero_le _)
  · intro hi1 c hc hc1 hpc
    have hci : c ≠ i := by unfold par at hpc; omega
    have hpi : par i ≠ i := by unfold par; omega
    have : par i < n := by unfold par; omega
    rw [hsame c hc hci, hsame (par i) this hpi]
    have h1 := h0 c hc hc1 (Nat.zero_le _)
    rw [hpc] at h1
    exact hs.negTrans (h0 i hi hi1 (Nat.zero_le _)) h1

/-- `build`: any slice becomes a heap; multiset kept; no panic. -/
theorem buildLoop_spec {cmp} (hs : SWO cmp) (n : Nat) : ∀ (k : Nat) (s : List Int),
    s.length = n → k ≤ n → HeapOn cmp (nthN s) k n →
    ∃ s', buildLoop (sliceOps cmp) (n : Int) k s = some s' ∧ s'.length = n ∧ s'.Perm s ∧
      HeapOn cmp (nthN s') 0 n := by
  intro k
  induction k with
  | zero => intro s hlen _ h; exact ⟨s, rfl, hlen, List.Perm.refl _, h⟩
  | succ k ih =>
    intro s hlen hk h
    have hpre : DownPre cmp (nthN s) k n k true := by
      refine ⟨?_, ?_⟩
      · intro c hc hc1 hlo hpk _
        exact h c hc hc1 (by omega)
      · intro hk1 hlo; unfold par at hlo; omega
    obtain ⟨s1, i', hrun, hlen1, hperm1, _, _, hpost⟩ :=
      downB_spec hs s k n k true (by omega) (Nat.le_refl _) (by omega) hpre
    simp only [true_or, if_true] at hpost
    obtain ⟨s2, hrun2, hlen2, hperm2, hheap⟩ := ih s1 (by omega) (by omega) hpost
    refine ⟨s2, ?_, hlen2, hperm2.trans hperm1, hheap⟩
    simp only [buildLoop, hrun, hrun2]

theorem build_spec {cmp} (hs : SWO cmp) (s : List Int) :
    ∃ s', build (sliceOps cmp) s (s.length : Int) = some s' ∧ s'.length = s.length ∧ s'.Perm s ∧
      Heap cmp s' := by
  have e : (Int.tdiv (s.length : Int) 2).toNat = s.length / 2 := by
    have h := Int.ofNat_tdiv s.length 2
    rw [show ((2 : Nat) : Int) = 2 from rfl] at h
    rw [← h]; exact Int.toNat_natCast _
  have h0 : HeapOn cmp (nthN s) (s.length / 2) s.length := by
    intro c hc hc1 hlo; unfold par at hlo; omega
  obtain ⟨s', hrun, hlen, hperm, hheap⟩ := buildLoop_spec hs s.length (s.length / 2) s rfl (by omega) h0
  refine ⟨s', by simp only [build, e, hrun], hlen, hperm, ?_⟩
  simpa [Heap, hlen] using hheap

/-! ### list plumbing -/

theorem nthN_append_left (s : List Int) (x : Int) (k : Nat) (h : k < s.length) :
    nthN (s ++ [x]) k = nthN s k := by
  simp [nthN, List.getElem?_append_left h]

theorem nthN_take (s : List Int) (n k : Nat) (h : k < n) : nthN (s.take n) k = nthN s k := by
  simp [nthN, List.getElem?_take, h]

theorem eq_take_append_last (s : List Int) (n : Nat) (h : s.length = n + 1) :
    s = s.take n ++ [nthN s n] := by
  have hn : n < s.length := by omega
  have e : nthN s n = s[n] := by simp [nthN, List.getElem?_eq_getElem hn]
  rw [e, List.take_append_getElem hn, List.take_of_length_le (by omega)]

theorem nthN_set (s : List Int) (i : Nat) (v : Int) (k : Nat) (h : k ≠ i) :
    nthN (s.set i v) k = nthN s k := by
  simp [nthN, List.getElem?_set, Ne.symm h]

end Golib.C04
