/-
C11 — the Len clause for CALLS (interval form), for the code's single-counter `Len()` and
for the two-counter design variant of `Golib/Model/C11Len2.lean`.

 * real machine: a `Len()` call returns the counter value of ONE instant inside the call, and
   at every instant `poppable ≤ len` (`Inv`), so the result is allowed by `LenCallOK` for
   every window of the run that ends with the return (`len_call_interval`);
 * variant, `popped` loaded first: `popped` only grows, so `pushed(t₂) - popped(t₁) ≥
   pushed(t₂) - popped(t₂) = len(t₂) ≥ poppable(t₂)` (`LenCallSpec2 .poppedFirst`, every
   schedule); with `pushed` first the inequality points the other way and the clause is
   false (`Golib/Findings/C11TwoCounter.lean`).
-/
import Golib.Proof.C11Inv
import Golib.Model.C11Len2

namespace Golib.C11

/-! ### facts about one step of the real machine -/

/-- what a step does to the counter, classified by the access it reports -/
theorem step_len_cases (s : State) (i : Nat) :
    (∃ new, (step .addThenStore s i).2.acc = .addLen 1 new ∧ (step .addThenStore s i).1.len = s.len + 1) ∨
    (∃ new, (step .addThenStore s i).2.acc = .addLen (-1) new ∧ (step .addThenStore s i).1.len = s.len - 1) ∨
    ((∀ d new, (step .addThenStore s i).2.acc ≠ .addLen d new) ∧ (step .addThenStore s i).1.len = s.len) := by
  unfold step
  cases hth : s.threads[i]? with
  | none => simp
  | some th =>
    dsimp only
    cases hpc : th.pc <;> dsimp only <;> (try unfold State.popFail) <;> (repeat' split) <;>
      simp_all [State.setPc, State.fin]

/-- only a thread at `lenLoad` returns a `Len` result, and it is the counter -/
theorem ret_len_atLen {s : State} {i : Nat} {n : Int}
    (h : (step .addThenStore s i).2.ret = some (.len n)) : atLen s i = true ∧ n = s.len := by
  unfold step at h
  unfold atLen
  cases hth : s.threads[i]? with
  | none => rw [hth] at h; simp at h
  | some th =>
    rw [hth] at h
    dsimp only at h ⊢
    cases hpc : th.pc <;> rw [hpc] at h <;> dsimp only at h ⊢ <;>
      (try unfold State.popFail at h) <;> (try (repeat' split at h)) <;> simp_all

/-- the step of a thread at `lenLoad` returns the counter and leaves shared memory alone -/
theorem atLen_step {s : State} {i : Nat} (h : atLen s i = true) :
    (step .addThenStore s i).1.len = s.len ∧ (step .addThenStore s i).2.ret = some (.len s.len) ∧
      poppable (step .addThenStore s i).1 = poppable s := by
  unfold atLen at h
  unfold step
  cases hth : s.threads[i]? with
  | none => rw [hth] at h; simp at h
  | some th =>
    rw [hth] at h
    dsimp only at h ⊢
    have hpc : th.pc = .lenLoad := by simpa using h
    rw [hpc]
    simp [State.fin, poppable]

/-! ### windows of a run -/

theorem run_append_fst' (s : State) (σ₁ σ₂ : List Nat) :
    (run .addThenStore s (σ₁ ++ σ₂)).1 = (run .addThenStore (run .addThenStore s σ₁).1 σ₂).1 := by
  induction σ₁ generalizing s with
  | nil => rfl
  | cons x σ ih => simp only [List.cons_append, run]; exact ih _

/-- the poppable count of the state a window ends in is one of the window's counts -/
theorem last_mem_poppableAlong (s : State) (σ : List Nat) :
    poppable (run .addThenStore s σ).1 ∈ poppableAlong s σ := by
  induction σ generalizing s with
  | nil => simp [run, poppableAlong]
  | cons i σ ih =>
    simp only [run, poppableAlong, List.mem_cons]
    right; exact ih _

theorem poppable_le_len {s : State} (hI : Inv s) : (poppable s : Int) ≤ s.len ∧ 0 ≤ s.len := by
  have h1 := hI.len_eq
  have h2 := hI.head_le_tail
  unfold poppable
  omega

/-- Real machine: in every window `σ₂` of a run (starting after `σ₁`) that ends with thread
`i` returning `n` from `Len()`, `n` is allowed for the poppable counts of the window's
instants — because it is the counter at the window's last instant before the return. -/
theorem len_call_interval {s₀ : State} (hI : Inv s₀) (σ₁ σ₂ : List Nat) (i : Nat) (n : Int)
    (hr : (step .addThenStore (run .addThenStore (run .addThenStore s₀ σ₁).1 σ₂).1 i).2.ret = some (.len n)) :
    LenCallOK (poppableAlong (run .addThenStore s₀ σ₁).1 (σ₂ ++ [i])) n ∧
      n = (run .addThenStore (run .addThenStore s₀ σ₁).1 σ₂).1.len := by
  have hI2 : Inv (run .addThenStore (run .addThenStore s₀ σ₁).1 σ₂).1 := inv_run (inv_run hI σ₁) σ₂
  obtain ⟨hat, hn⟩ := ret_len_atLen hr
  have hp := poppable_le_len hI2
  have hmem := last_mem_poppableAlong (run .addThenStore s₀ σ₁).1 (σ₂ ++ [i])
  rw [run_append_fst'] at hmem
  have hst : (run .addThenStore (run .addThenStore (run .addThenStore s₀ σ₁).1 σ₂).1 [i]).1 =
      (step .addThenStore (run .addThenStore (run .addThenStore s₀ σ₁).1 σ₂).1 i).1 := by
    simp [run]
  rw [hst, (atLen_step hat).2.2] at hmem
  refine ⟨⟨by omega, _, hmem, by omega⟩, hn⟩

/-! ### the two-counter variant -/

/-- a value loaded by the first access of a `Len()` in flight is a lower bound of ITS counter -/
def LocOk (lo : LenOrder) (pushed popped a : Nat) : Prop :=
  match lo with
  | .pushedFirst => a ≤ pushed
  | .poppedFirst => a ≤ popped

structure Inv2 (lo : LenOrder) (L : State2) : Prop where
  inv : Inv L.s
  /-- the real machine's counter is the difference of the two monotonic counters -/
  diff : L.s.len = (L.pushed : Int) - L.popped
  /-- a value loaded by a `Len()` call in flight is a LOWER bound of its counter now
  (both counters only grow) -/
  locs : ∀ (i a : Nat), L.loc[i]? = some (some a) → LocOk lo L.pushed L.popped a

theorem inv2_init (lo : LenOrder) (vals : List Int) (progs : List (List Call)) :
    Inv2 lo (init2 vals progs) := by
  refine ⟨inv_init vals progs, by simp [init2, init], ?_⟩
  intro i a h
  simp only [init2, List.getElem?_map] at h
  cases hp : progs[i]? <;> simp [hp] at h

theorem inv2_step {lo : LenOrder} {L : State2} (h : Inv2 lo L) (i : Nat) :
    Inv2 lo (step2 lo L i).1 := by
  obtain ⟨hI, hd, hl⟩ := h
  unfold step2
  by_cases hat : atLen L.s i = true
  · rw [if_pos hat]
    have hs := atLen_step hat
    split
    · -- second load: the real machine's `Len` step
      cases lo <;> dsimp only <;>
        refine ⟨inv_step hI i, by rw [hs.1]; exact hd, fun j a hj => ?_⟩ <;>
        (by_cases hij : i = j
         · subst hij
           by_cases hlt : i < L.loc.length
           · rw [List.getElem?_set_self hlt] at hj; simp at hj
           · rw [List.getElem?_eq_none (by simp; omega)] at hj; simp at hj
         · rw [List.getElem?_set_ne hij] at hj; exact hl j a hj)
    · -- first load
      cases lo <;> dsimp only <;>
        refine ⟨hI, hd, fun j a hj => ?_⟩ <;>
        (by_cases hij : i = j
         · subst hij
           by_cases hlt : i < L.loc.length
           · rw [List.getElem?_set_self hlt] at hj
             simp only [Option.some.injEq] at hj
             subst hj; exact Nat.le_refl _
           · rw [List.getElem?_eq_none (by simp; omega)] at hj; simp at hj
         · rw [List.getElem?_set_ne hij] at hj; exact hl j a hj)
  · rw [if_neg hat]
    dsimp only
    have hc := step_len_cases L.s i
    have hI' := inv_step hI i
    rcases hc with ⟨new, ha, hlen⟩ | ⟨new, ha, hlen⟩ | ⟨hna, hlen⟩
    · rw [ha]
      simp only [show (0 : Int) ≤ 1 by decide, if_true]
      refine ⟨hI', by simp only []; rw [hlen, hd]; push_cast; omega, fun j a hj => ?_⟩
      have := hl j a hj
      cases lo <;> simp only [LocOk] at this ⊢ <;> omega
    · rw [ha]
      simp only [show ¬ (0 : Int) ≤ -1 by decide, if_false]
      refine ⟨hI', by simp only []; rw [hlen, hd]; push_cast; omega, fun j a hj => ?_⟩
      have := hl j a hj
      cases lo <;> simp only [LocOk] at this ⊢ <;> omega
    · split
      · rename_i d new heq
        exact absurd heq (hna d new)
      · exact ⟨hI', by simp only []; rw [hlen, hd], hl⟩

theorem inv2_run {lo : LenOrder} {L : State2} (h : Inv2 lo L) (σ : List Nat) :
    Inv2 lo (run2 lo L σ).1 := by
  induction σ generalizing L with
  | nil => exact h
  | cons i σ ih => simp only [run2]; exact ih (inv2_step h i)

theorem run2_append_fst (lo : LenOrder) (L : State2) (σ₁ σ₂ : List Nat) :
    (run2 lo L (σ₁ ++ σ₂)).1 = (run2 lo (run2 lo L σ₁).1 σ₂).1 := by
  induction σ₁ generalizing L with
  | nil => rfl
  | cons x σ ih => simp only [List.cons_append, run2]; exact ih _

theorem last_mem_poppableAlong2 (lo : LenOrder) (L : State2) (σ : List Nat) :
    poppable (run2 lo L σ).1.s ∈ poppableAlong2 lo L σ := by
  induction σ generalizing L with
  | nil => simp [run2, poppableAlong2]
  | cons i σ ih =>
    simp only [run2, poppableAlong2, List.mem_cons]
    right; exact ih _

/-- `popped` loaded first: a returning `Len()` reports at least the counter difference of the
instant of its second load, hence at least what can be popped then, and the return step does
not change what can be popped. -/
theorem popped_first_ret {L : State2} (h : Inv2 .poppedFirst L) {i : Nat} {n : Int}
    (hr : (step2 .poppedFirst L i).2.ret = some (.len n)) :
    L.s.len ≤ n ∧ (poppable L.s : Int) ≤ n ∧ 0 ≤ n ∧
      poppable (step2 .poppedFirst L i).1.s = poppable L.s := by
  obtain ⟨hI, hd, hl⟩ := h
  have hp := poppable_le_len hI
  unfold step2 at hr ⊢
  by_cases hat : atLen L.s i = true
  · rw [if_pos hat] at hr ⊢
    split at hr
    · rename_i a heq
      have ha := hl i a heq
      simp only [Option.some.injEq, Ret.len.injEq, LocOk] at hr ha
      refine ⟨by omega, by omega, by omega, ?_⟩
      dsimp only
      exact (atLen_step hat).2.2
    · simp at hr
  · rw [if_neg hat] at hr
    exfalso
    dsimp only at hr
    have hret : (step .addThenStore L.s i).2.ret = some (.len n) := by
      split at hr
      · split at hr <;> exact hr
      · exact hr
    exact hat (ret_len_atLen hret).1

/-- The Len clause for calls holds of the two-counter `Len()` that loads `popped` first, on
every schedule (no use is made of the window hypotheses: the result is justified by the
instant of the second load, which belongs to every window ending with the return). -/
theorem lenCallSpec2_poppedFirst : LenCallSpec2 .poppedFirst := by
  intro vals progs σ₁ σ₂ i n _ _ _ hr
  have h2 : Inv2 .poppedFirst (run2 .poppedFirst (run2 .poppedFirst (init2 vals progs) σ₁).1 σ₂).1 :=
    inv2_run (inv2_run (inv2_init _ vals progs) σ₁) σ₂
  obtain ⟨_, hpop, hn, hsame⟩ := popped_first_ret h2 hr
  have hmem := last_mem_poppableAlong2 .poppedFirst (run2 .poppedFirst (init2 vals progs) σ₁).1 (σ₂ ++ [i])
  rw [run2_append_fst] at hmem
  have hst : (run2 .poppedFirst (run2 .poppedFirst (run2 .poppedFirst (init2 vals progs) σ₁).1 σ₂).1 [i]).1 =
      (step2 .poppedFirst (run2 .poppedFirst (run2 .poppedFirst (init2 vals progs) σ₁).1 σ₂).1 i).1 := by
    simp [run2]
  rw [hst, hsame] at hmem
  exact ⟨hn, _, hmem, hpop⟩

/-! ### exact when quiescent (either order) -/

theorem cnt_eq_zero_of_forall {p : Pc → Bool} {l : List Thread} (h : ∀ th ∈ l, p th.pc = false) :
    cnt p l = 0 := by
  unfold cnt
  rw [List.countP_eq_zero]
  intro th hth
  simp [h th hth]

/-- With no other operation in flight (every other thread idle) a two-counter `Len()` — in
EITHER load order — returns exactly the number of stored values: nothing moves between its
two loads.  (The order only matters under concurrency.) -/
theorem len2_quiescent {lo : LenOrder} {L : State2} (h : Inv2 lo L) {i : Nat}
    (hat : atLen L.s i = true) (hloc : L.loc[i]? = some none)
    (hidle : ∀ j b, j ≠ i → L.s.threads[j]? = some b → b.pc = .idle) :
    (run2 lo L [i, i]).2.map (·.ret) = [none, some (.len (poppable L.s))] := by
  obtain ⟨hI, hd, _⟩ := h
  have hlt : i < L.loc.length := by
    rcases Nat.lt_or_ge i L.loc.length with h | h
    · exact h
    · rw [List.getElem?_eq_none h] at hloc
      simp at hloc
  have hz : ∀ p : Pc → Bool, p .idle = false → p .lenLoad = false → cnt p L.s.threads = 0 := by
    intro p h1 h2
    apply cnt_eq_zero_of_forall
    intro th hth
    obtain ⟨j, hj⟩ := List.getElem?_of_mem hth
    by_cases hij : j = i
    · subst hij
      unfold atLen at hat
      rw [hj] at hat
      have : th.pc = .lenLoad := by simpa using hat
      rw [this]; exact h2
    · rw [hidle j th hij hj]; exact h1
  have hlen : L.s.len = poppable L.s := by
    have h1 := hI.len_eq
    have h2 := hI.head_le_tail
    rw [hz isPushStore rfl rfl, hz isPopPost rfl rfl] at h1
    unfold poppable
    omega
  cases lo <;>
    simp only [run2, step2, hat, if_true, hloc, List.getElem?_set_self hlt, List.map_cons, List.map_nil] <;>
    (congr 2; simp only [Option.some.injEq, Ret.len.injEq]; omega)

end Golib.C11
