/-
C04 helper lemmas, part 8: the invariant of the two-heap memory (`MemOK`) and what the sift
routines, `PushElement` and `h.pop()` do to it.
-/
import Golib.Proof.C04HeapSim

set_option linter.unusedSimpArgs false
set_option linter.unusedVariables false

namespace Golib.C04
open Golib.C13 (PM IM)

/-- element id at position `c` of `h.values` (positions beyond the array read as `0`; never used there) -/
def elemAt (m : HMem) (h : Nat) (c : Nat) : Nat := ((m.arr h)[c]?).getD 0

/-- `h.values` is heap-ordered: the VALUES of the elements, read along the array, form a heap in
the same sense as `Slice.Values` (`Heap`). -/
def HeapOrd (cmp : Int → Int → Bool) (m : HMem) (h : Nat) : Prop :=
  Heap cmp ((m.arr h).map m.val.get)

/-- Index/owner bookkeeping of both heaps: cached indices exact, `e.heap == h` exactly for the
elements of `h.values`, all of them allocated. -/
structure MemCore (m : HMem) : Prop where
  idx : ∀ h, h < 2 → IdxInv m h
  own : ∀ e h, h < 2 → (m.own.get e = some h ↔ e ∈ m.arr h)
  ownR : ∀ e h, m.own.get e = some h → h < 2
  ltf : ∀ h, h < 2 → ∀ e, e ∈ m.arr h → e < m.fresh

/-- Every allocated element without owner (it has left its heap) reports `Index() == -1`
(`P` = the elements this is claimed for). -/
def LeftOK (m : HMem) (P : Nat → Prop) : Prop :=
  ∀ e, P e → e < m.fresh → m.own.get e = none → m.idx.get e = -1

/-- The full invariant; `c h` = the comparator of heap `h` (`h.cmp`). -/
structure MemOK (c : Nat → Int → Int → Bool) (m : HMem) : Prop where
  core : MemCore m
  left : LeftOK m (fun _ => True)
  ord : ∀ h, h < 2 → HeapOrd (c h) m h

/-! ### heap order in terms of positions -/

theorem nthN_ids (m : HMem) (h c : Nat) : nthN (ids m h) c = (elemAt m h c : Int) := by
  simp only [nthN, ids, elemAt, List.getElem?_map]
  cases (m.arr h)[c]? <;> simp

theorem nthN_vals (m : HMem) (h c : Nat) (hc : c < (m.arr h).length) :
    nthN ((m.arr h).map m.val.get) c = m.val.get (elemAt m h c) := by
  simp only [nthN, elemAt, List.getElem?_map, List.getElem?_eq_getElem hc]
  simp

theorem elemAt_get {m : HMem} {h c : Nat} (hc : c < (m.arr h).length) :
    (m.arr h)[c]? = some (elemAt m h c) := by
  simp [elemAt, List.getElem?_eq_getElem hc]

theorem elemAt_mem {m : HMem} {h c : Nat} (hc : c < (m.arr h).length) : elemAt m h c ∈ m.arr h :=
  List.mem_of_getElem? (elemAt_get hc)

theorem mem_elemAt {m : HMem} {h e : Nat} (he : e ∈ m.arr h) :
    ∃ k, k < (m.arr h).length ∧ elemAt m h k = e := by
  obtain ⟨k, hk, e1⟩ := List.mem_iff_getElem.1 he
  exact ⟨k, hk, by simp [elemAt, List.getElem?_eq_getElem hk, e1]⟩

theorem elemAt_inj {m : HMem} {h a b : Nat} (hn : (m.arr h).Nodup) (ha : a < (m.arr h).length)
    (hb : b < (m.arr h).length) (e : elemAt m h a = elemAt m h b) : a = b := by
  have h1 := elemAt_get ha
  have h2 := elemAt_get hb
  rw [e] at h1
  have h1' := List.getElem?_eq_some_iff.1 h1
  have h2' := List.getElem?_eq_some_iff.1 h2
  exact (List.getElem_inj (h₀ := h1'.1) (h₁ := h2'.1) hn).1 (h1'.2.trans h2'.2.symm)

/-- positional form of the heap order -/
def OrdAt (cmp : Int → Int → Bool) (val : IM) (m : HMem) (h : Nat) : Prop :=
  ∀ c, c < (m.arr h).length → 1 ≤ c →
    cmp (val.get (elemAt m h c)) (val.get (elemAt m h (par c))) = false

theorem heapOrd_iff (cmp : Int → Int → Bool) (m : HMem) (h : Nat) :
    HeapOrd cmp m h ↔ OrdAt cmp m.val m h := by
  unfold HeapOrd Heap HeapOn OrdAt
  simp only [List.length_map]
  constructor
  · intro H c hc hc1
    have hp : par c < (m.arr h).length := by unfold par; omega
    have := H c hc hc1 (Nat.zero_le _)
    rwa [nthN_vals m h c hc, nthN_vals m h (par c) hp] at this
  · intro H c hc hc1 _
    have hp : par c < (m.arr h).length := by unfold par; omega
    rw [nthN_vals m h c hc, nthN_vals m h (par c) hp]
    exact H c hc hc1

theorem heapIds_iff (cmp : Int → Int → Bool) (val : IM) (m : HMem) (h : Nat) :
    Heap (cmpId cmp val) (ids m h) ↔ OrdAt cmp val m h := by
  unfold Heap HeapOn OrdAt
  simp only [ids_length, nthN_ids, cmpId, Int.toNat_natCast]
  constructor
  · intro H c hc hc1; exact H c hc hc1 (Nat.zero_le _)
  · intro H c hc hc1 _; exact H c hc hc1

theorem ordAt_congr {cmp} {val val' : IM} {m m' : HMem} {h : Nat} (harr : m'.arr h = m.arr h)
    (hv : ∀ e, e ∈ m.arr h → val'.get e = val.get e) (H : OrdAt cmp val m h) : OrdAt cmp val' m' h := by
  intro c hc hc1
  rw [harr] at hc
  have hp : par c < (m.arr h).length := by unfold par; omega
  have e1 : elemAt m' h c = elemAt m h c := by simp [elemAt, harr]
  have e2 : elemAt m' h (par c) = elemAt m h (par c) := by simp [elemAt, harr]
  rw [e1, e2, hv _ (elemAt_mem hc), hv _ (elemAt_mem hp)]
  exact H c hc hc1

/-- The root of a heap-ordered `h.values` is preceded by no element of the heap. -/
theorem heapOrd_root_min {cmp} (hs : SWO cmp) {m : HMem} {h : Nat} (H : HeapOrd cmp m h) :
    ∀ y, y ∈ m.arr h → cmp (m.val.get y) (m.val.get (elemAt m h 0)) = false := by
  intro y hy
  obtain ⟨k, hk, rfl⟩ := mem_elemAt hy
  have := heap_root_min hs H k (by simpa using hk)
  rwa [nthN_vals m h k hk, nthN_vals m h 0 (by omega)] at this

/-! ### disjointness -/

theorem MemCore.disjoint {m : HMem} (hc : MemCore m) {h : Nat} (hh : h < 2) {e : Nat}
    (he : e ∈ m.arr h) : e ∉ m.arr (oth h) := by
  intro h2
  have o1 := (hc.own e h hh).2 he
  have o2 := (hc.own e (oth h) (oth_lt2 h)).2 h2
  rw [o1] at o2
  exact oth_ne hh (Option.some.inj o2).symm

theorem MemCore.disjoint' {m : HMem} (hc : MemCore m) {h : Nat} (hh : h < 2) {e : Nat}
    (he : e ∈ m.arr (oth h)) : e ∉ m.arr h := fun h2 => hc.disjoint hh h2 he

/-! ### frame of a sift -/

theorem sift_core {m3 m' : HMem} {h : Nat} {s' : List Int} (hh : h < 2) (hc : MemCore m3)
    (R : SiftRel m3 h m' s') : MemCore m' := by
  have mem : ∀ e h', h' < 2 → (e ∈ m'.arr h' ↔ e ∈ m3.arr h') := by
    intro e h' hh'
    rcases eq_or_oth hh hh' with rfl | rfl
    · exact R.perm.mem_iff
    · rw [R.other]
  refine ⟨?_, ?_, ?_, ?_⟩
  · intro h' hh'
    rcases eq_or_oth hh hh' with rfl | rfl
    · exact R.idxInv
    · have hI := hc.idx (oth h) (oth_lt2 h)
      refine ⟨by rw [R.other]; exact hI.nodup, ?_⟩
      intro k e hk
      rw [R.other] at hk
      have : e ∈ m3.arr (oth h) := List.mem_of_getElem? hk
      rw [R.idxFrame e (hc.disjoint' hh this)]
      exact hI.index k e hk
  · intro e h' hh'
    rw [R.own, mem e h' hh']
    exact hc.own e h' hh'
  · intro e h' he
    rw [R.own] at he
    exact hc.ownR e h' he
  · intro h' hh' e he
    rw [R.fresh]
    exact hc.ltf h' hh' e ((mem e h' hh').1 he)

theorem sift_left {m3 m' : HMem} {h : Nat} {s' : List Int} {P : Nat → Prop} (hh : h < 2)
    (hc : MemCore m3) (hl : LeftOK m3 P) (R : SiftRel m3 h m' s') : LeftOK m' P := by
  intro e hP hf ho
  rw [R.fresh] at hf
  rw [R.own] at ho
  have : e ∉ m3.arr h := by
    intro he
    have := (hc.own e h hh).2 he
    rw [ho] at this; cases this
  rw [R.idxFrame e this]
  exact hl e hP hf ho

theorem sift_ord_other {cmp} {m3 m' : HMem} {h : Nat} {s' : List Int}
    (R : SiftRel m3 h m' s') (H : HeapOrd cmp m3 (oth h)) : HeapOrd cmp m' (oth h) := by
  unfold HeapOrd at H ⊢
  rw [R.other, R.val]; exact H

theorem sift_ord {cmp} {m3 m' : HMem} {h : Nat} {s' : List Int}
    (R : SiftRel m3 h m' s') (H : Heap (cmpId cmp m3.val) s') : HeapOrd cmp m' h := by
  rw [heapOrd_iff, R.val, ← heapIds_iff, ← R.idsEq]
  exact H

/-- All of `MemOK` after a sift that ended in a heap-ordered array. -/
theorem sift_memOK {c : Nat → Int → Int → Bool} {m3 m' : HMem} {h : Nat} {s' : List Int} (hh : h < 2)
    (hc : MemCore m3) (hl : LeftOK m3 (fun _ => True)) (ho : HeapOrd (c (oth h)) m3 (oth h))
    (R : SiftRel m3 h m' s') (H : Heap (cmpId (c h) m3.val) s') : MemOK c m' := by
  refine ⟨sift_core hh hc R, sift_left hh hc hl R, ?_⟩
  intro h' hh'
  rcases eq_or_oth hh hh' with rfl | rfl
  · exact sift_ord R H
  · exact sift_ord_other R ho

end Golib.C04
