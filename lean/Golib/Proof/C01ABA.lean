/-
C01 — F12 for every ticket width: on the machine with `w`-bit tickets (`M = 2^w`) and
capacity 2 a `Push` parked between its loads and its CAS re-validates its stale ticket
after `2^w` positions went by, and its CAS succeeds on a FULL ring.
The `2^w − 2` intermediate pop/push pairs are a lemma by induction (`aba_rounds`), not an
evaluation.
-/
import Golib.Model.C01Ring

namespace Golib.C01.ABA
open Golib.C01

/-- full ring of capacity 2 after `n` pop/push pairs: positions `n`, `n+1` stored; thread 0
parked in front of its CAS with the stale ticket 0; a popper and a pusher with `m` calls
left -/
def R (M n m : Nat) : State :=
  { head := n % M, tail := (n + 2) % M,
    slots := if n % 2 = 0 then [⟨(n + 1) % M, 9⟩, ⟨(n + 2) % M, 9⟩]
             else [⟨(n + 2) % M, 9⟩, ⟨(n + 1) % M, 9⟩],
    threads := [⟨.pushCAS 7 0 0, []⟩, mkThread (List.replicate m .pop),
                mkThread (List.replicate m (.push 9))],
    crashed := false }

def rets (es : List Event) : List Ret := es.filterMap (·.ret)

theorem mod_mod_two {M : Nat} (h2 : 2 ∣ M) (x : Nat) : x % M % 2 = x % 2 :=
  Nat.mod_mod_of_dvd x h2

theorem round {M : Nat} (h2 : 2 ∣ M) (n m : Nat) :
    (run ⟨M, 2⟩ (R M n (m + 1)) [1, 1, 1, 1, 1, 1, 2, 2, 2, 2, 2]).1 = R M (n + 1) m ∧
    rets (run ⟨M, 2⟩ (R M n (m + 1)) [1, 1, 1, 1, 1, 1, 2, 2, 2, 2, 2]).2 = [.pop 9 true, .push true] := by
  have e1 : ∀ x, x % M % 2 = x % 2 := mod_mod_two h2
  rcases Nat.mod_two_eq_zero_or_one n with hp | hp
  · have hp1 : (n + 1) % 2 = 1 := by omega
    have hp2 : (n + 2) % 2 = 0 := by omega
    simp [run, step, R, mkThread, Thread.finish, start, State.setPc, State.fin, Cfg.idx, Cfg.mask,
      Cfg.norm, Nat.and_one_is_mod, e1, hp, hp1, hp2, List.replicate_succ, rets]
  · have hp1 : (n + 1) % 2 = 0 := by omega
    have hp2 : (n + 2) % 2 = 1 := by omega
    simp [run, step, R, mkThread, Thread.finish, start, State.setPc, State.fin, Cfg.idx, Cfg.mask,
      Cfg.norm, Nat.and_one_is_mod, e1, hp, hp1, hp2, List.replicate_succ, rets]

theorem run_append (c : Cfg) (s : State) (σ1 σ2 : List Nat) :
    run c s (σ1 ++ σ2) = ((run c (run c s σ1).1 σ2).1, (run c s σ1).2 ++ (run c (run c s σ1).1 σ2).2) := by
  induction σ1 generalizing s with
  | nil => simp [run]
  | cons i σ ih => simp only [List.cons_append, run, ih]

/-- successful pushes minus successful pops -/
def net : List Ret → Int
  | [] => 0
  | .push true :: r => net r + 1
  | .pop _ true :: r => net r - 1
  | _ :: r => net r

theorem net_append (a b : List Ret) : net (a ++ b) = net a + net b := by
  induction a with
  | nil => simp [net]
  | cons x a ih =>
    cases x <;> simp only [List.cons_append, net] <;> try omega
    all_goals (rename_i ok; cases ok <;> simp only [net] <;> omega)

theorem rets_append (a b : List Event) : rets (a ++ b) = rets a ++ rets b := by
  simp [rets, List.filterMap_append]

def roundSched : Nat → List Nat
  | 0 => []
  | k + 1 => [1, 1, 1, 1, 1, 1, 2, 2, 2, 2, 2] ++ roundSched k

/-- `k` pop/push pairs: the warp lemma, by induction -/
theorem rounds {M : Nat} (h2 : 2 ∣ M) (k n m : Nat) :
    (run ⟨M, 2⟩ (R M n (m + k)) (roundSched k)).1 = R M (n + k) m ∧
    net (rets (run ⟨M, 2⟩ (R M n (m + k)) (roundSched k)).2) = 0 := by
  induction k generalizing n with
  | zero => simp [roundSched, run, rets, net]
  | succ k ih =>
    have hr := round h2 n (m + k)
    have e : m + (k + 1) = m + k + 1 := by omega
    rw [e]
    simp only [roundSched, run_append]
    rw [hr.1]
    have ih' := ih (n + 1)
    have e2 : n + 1 + k = n + (k + 1) := by omega
    rw [e2] at ih'
    refine ⟨ih'.1, ?_⟩
    rw [rets_append, net_append, hr.2, ih'.2]
    simp [net]

/-- thread 0 loads the tail and the free slot's sequence number and is parked; thread 2
fills the ring -/
theorem prefix_run {M : Nat} (hM : 2 < M) (K : Nat) :
    (run ⟨M, 2⟩ (init ⟨M, 2⟩ [[.push 7], List.replicate K .pop, List.replicate (K + 2) (.push 9)])
        [0, 0, 2, 2, 2, 2, 2, 2, 2, 2, 2, 2]).1 = R M 0 K ∧
    rets (run ⟨M, 2⟩ (init ⟨M, 2⟩ [[.push 7], List.replicate K .pop, List.replicate (K + 2) (.push 9)])
        [0, 0, 2, 2, 2, 2, 2, 2, 2, 2, 2, 2]).2 = [.push true, .push true] := by
  have h0 : 0 % M = 0 := Nat.zero_mod M
  have h1 : 1 % M = 1 := Nat.mod_eq_of_lt (by omega)
  have h2 : 2 % M = 2 := Nat.mod_eq_of_lt hM
  simp [run, step, R, init, initAt, slotSeq, mkThread, Thread.finish, start, State.setPc, State.fin,
    Cfg.idx, Cfg.mask, Cfg.norm, List.replicate_succ, rets, List.range_succ, h0, h1, h2]

/-- the parked thread's stale CAS succeeds on the full ring once the tail wrapped to 0; it
overwrites slot 0, which holds the oldest unpopped element, and returns true -/
theorem final_run {M : Nat} (h2 : 2 ∣ M) (hM : 2 < M) (K : Nat) (hK : (K + 2) % M = 0) (hKe : K % 2 = 0) :
    rets (run ⟨M, 2⟩ (R M K 0) [0, 0, 0]).2 = [.push true] ∧
    (run ⟨M, 2⟩ (R M K 0) [0]).2 = [⟨0, .casTail 0 1 true, none⟩] ∧
    (R M K 0).slots[0]? = some ⟨(K + 1) % M, 9⟩ ∧ (R M K 0).head = K % M ∧ (R M K 0).tail = 0 ∧
    ((run ⟨M, 2⟩ (R M K 0) [0, 0, 0]).1.slots[0]?).map (·.val) = some 7 := by
  have h1 : 1 % M = 1 := Nat.mod_eq_of_lt (by omega)
  simp [run, step, R, mkThread, Thread.finish, start, State.setPc, State.fin, Cfg.idx, Cfg.mask,
    Cfg.norm, rets, hK, hKe, h1]

def abaProgs (K : Nat) : List (List Call) :=
  [[.push 7], List.replicate K .pop, List.replicate (K + 2) (.push 9)]

def abaPrefix : List Nat := [0, 0, 2, 2, 2, 2, 2, 2, 2, 2, 2, 2]

theorem run_append_fst (c : Cfg) (s : State) (a b : List Nat) :
    (run c s (a ++ b)).1 = (run c (run c s a).1 b).1 := by rw [run_append]

theorem run_append_snd (c : Cfg) (s : State) (a b : List Nat) :
    (run c s (a ++ b)).2 = (run c s a).2 ++ (run c (run c s a).1 b).2 := by rw [run_append]

theorem aba_all_widths (w : Nat) (hw : 2 ≤ w) :
    -- the state in which the parked thread takes its CAS: the ring is full, the tail wrapped
    ((run ⟨2 ^ w, 2⟩ (init ⟨2 ^ w, 2⟩ (abaProgs (2 ^ w - 2))) (abaPrefix ++ roundSched (2 ^ w - 2))).1
        = R (2 ^ w) (2 ^ w - 2) 0 ∧
      (R (2 ^ w) (2 ^ w - 2) 0).tail = 0 ∧ (R (2 ^ w) (2 ^ w - 2) 0).head = 2 ^ w - 2 ∧
      (R (2 ^ w) (2 ^ w - 2) 0).slots[0]? = some ⟨2 ^ w - 2 + 1, 9⟩) ∧
    -- the stale CAS succeeds
    (run ⟨2 ^ w, 2⟩ (R (2 ^ w) (2 ^ w - 2) 0) [0]).2 = [⟨0, .casTail 0 1 true, none⟩] ∧
    -- and the value 9 of the oldest, unpopped position is overwritten by 7
    ((run ⟨2 ^ w, 2⟩ (init ⟨2 ^ w, 2⟩ (abaProgs (2 ^ w - 2)))
        (abaPrefix ++ roundSched (2 ^ w - 2) ++ [0, 0, 0])).1.slots[0]?).map (·.val) = some 7 ∧
    -- one successful push too many
    net (rets (run ⟨2 ^ w, 2⟩ (init ⟨2 ^ w, 2⟩ (abaProgs (2 ^ w - 2)))
        (abaPrefix ++ roundSched (2 ^ w - 2) ++ [0, 0, 0])).2) = 3 := by
  generalize hMd : 2 ^ w = M
  generalize hKd : M - 2 = K
  have hM4 : 4 ≤ M := by
    have : 2 ^ 2 ≤ 2 ^ w := Nat.pow_le_pow_right (by omega) hw
    rw [hMd] at this; simpa using this
  have h2 : 2 ∣ M := by
    have : 2 ^ 1 ∣ 2 ^ w := Nat.pow_dvd_pow 2 (by omega)
    rw [hMd] at this; simpa using this
  have hM : 2 < M := by omega
  have hK2 : K + 2 = M := by omega
  have hK : (K + 2) % M = 0 := by rw [hK2]; exact Nat.mod_self M
  have hKe : K % 2 = 0 := by
    obtain ⟨q, hq⟩ := h2
    have : K = 2 * (q - 1) := by omega
    rw [this]; exact Nat.mul_mod_right 2 _
  have hKM : K % M = K := Nat.mod_eq_of_lt (by omega)
  have hK1 : (K + 1) % M = K + 1 := Nat.mod_eq_of_lt (by omega)
  have hp := prefix_run (M := M) hM K
  have hr := rounds (M := M) h2 K 0 0
  rw [Nat.zero_add] at hr
  have hf := final_run (M := M) h2 hM K hK hKe
  have hs1 : (run ⟨M, 2⟩ (init ⟨M, 2⟩ (abaProgs K)) (abaPrefix ++ roundSched K)).1 = R M K 0 := by
    rw [run_append_fst]
    have e : (run ⟨M, 2⟩ (init ⟨M, 2⟩ (abaProgs K)) abaPrefix).1 = R M 0 K := hp.1
    rw [e]
    exact hr.1
  refine ⟨⟨hs1, hf.2.2.2.2.1, ?_, ?_⟩, hf.2.1, ?_, ?_⟩
  · rw [hf.2.2.2.1, hKM]
  · rw [hf.2.2.1, hK1]
  · rw [run_append_fst, hs1]; exact hf.2.2.2.2.2
  · rw [run_append_snd, rets_append, net_append, hs1, hf.1, run_append_snd, rets_append, net_append]
    have e1 : (run ⟨M, 2⟩ (init ⟨M, 2⟩ (abaProgs K)) abaPrefix).1 = R M 0 K := hp.1
    have e2 : rets (run ⟨M, 2⟩ (init ⟨M, 2⟩ (abaProgs K)) abaPrefix).2 = [.push true, .push true] := hp.2
    rw [e1, e2, hr.2]
    simp [net]

end Golib.C01.ABA
