/-
The scan loops of `Match` / `find` on the pointer-level model simulate the label trie's:
whenever the label loops return a result, the pointer loops (walking ids, `fail` pointers and
child arrays of the node store) return the same result.  Pure step-by-step simulation through
the abstraction relation `Rep`; nothing about the correctness of the links is needed.
-/
import Golib.Proof.C05PtrRep

set_option linter.unusedSimpArgs false
set_option linter.unusedVariables false

namespace Golib.C05
open Golib

/-! ### the depth bound: a node of depth `d` has `d + 1` distinct prefixes in the store -/

theorem nodup_subset_length_nat : ∀ (A B : List Nat), A.Nodup → (∀ x ∈ A, x ∈ B) → A.length ≤ B.length := by
  intro A
  induction A with
  | nil => intro B _ _; simp
  | cons a A' ih =>
    intro B hn hsub
    simp only [List.nodup_cons] at hn
    have ha : a ∈ B := hsub a (by simp)
    have hsub' : ∀ x ∈ A', x ∈ B.erase a := by
      intro x hx
      have hxa : x ≠ a := fun h => hn.1 (h ▸ hx)
      exact (List.mem_erase_of_ne hxa).2 (hsub x (by simp [hx]))
    have := ih (B.erase a) hn.2 hsub'
    rw [List.length_erase_of_mem ha] at this
    have hpos : 0 < B.length := List.length_pos_of_mem ha
    simp only [List.length_cons]; omega

/-- Every node's depth is below the number of nodes. -/
theorem Rep.depth_lt {pt : PTrie} {t : Trie} {lbl : List Label} (h : Rep pt t lbl)
    {l : Label} (hl : l ∈ lbl) : l.length + 1 ≤ pt.nodes.length := by
  rw [← h.len]
  have hsub : ∀ k ∈ List.range (l.length + 1), k ∈ lbl.map List.length := by
    intro k hk
    rw [List.mem_range] at hk
    have hn : IsNode t.pats (l.take k) := by
      have : IsNode t.pats (l.take k ++ l.drop k) := by
        rw [List.take_append_drop]; exact (h.nodes l).2 hl
      exact this.prefix
    rw [List.mem_map]
    exact ⟨l.take k, (h.nodes _).1 hn, by rw [List.length_take]; omega⟩
  have := nodup_subset_length_nat _ _ List.nodup_range hsub
  simpa using this

/-! ### id ↔ label bookkeeping -/

theorem Rep.node_lt {pt : PTrie} {t : Trie} {lbl : List Label} (h : Rep pt t lbl)
    {id : Nat} {l : Label} (hl : lbl[id]? = some l) : id < pt.nodes.length := by
  rw [← h.len]
  obtain ⟨hlt, _⟩ := List.getElem?_eq_some_iff.1 hl
  exact hlt

theorem Rep.node_get {pt : PTrie} {t : Trie} {lbl : List Label} (h : Rep pt t lbl)
    {id : Nat} {l : Label} (hl : lbl[id]? = some l) : ∃ nd, pt.nodes[id]? = some nd :=
  ⟨pt.nodes[id]'(h.node_lt hl), List.getElem?_eq_getElem _⟩

theorem Rep.ne_zero_iff {pt : PTrie} {t : Trie} {lbl : List Label} (h : Rep pt t lbl)
    {id : Nat} {l : Label} (hl : lbl[id]? = some l) : id ≠ 0 ↔ l ≠ [] := by
  constructor
  · intro hid hnil
    subst hnil
    have hlt : id < lbl.length := by
      obtain ⟨hlt, _⟩ := List.getElem?_eq_some_iff.1 hl; exact hlt
    exact hid ((List.getElem?_inj hlt h.nodup).1 (hl.trans h.root.symm))
  · intro hne hid
    subst hid
    rw [h.root] at hl
    exact hne (Option.some.inj hl).symm

/-! ### fuel monotonicity of the pointer loops -/

theorem pFallLoop_mono (pt : PTrie) (v : Int) (k : Nat) : ∀ (fuel node : Nat) (idx : Option Nat)
    (x : Nat × Option Nat), pFallLoop pt v fuel node idx = some x →
    pFallLoop pt v (fuel + k) node idx = some x := by
  intro fuel
  induction fuel with
  | zero => intro node idx x hx; simp [pFallLoop] at hx
  | succ fuel ih =>
    intro node idx x hx
    rw [show fuel + 1 + k = (fuel + k) + 1 by omega]
    unfold pFallLoop at hx ⊢
    split
    · rename_i hc
      rw [if_pos hc] at hx
      split at hx
      · exact hx
      · split at hx
        · exact hx
        · split at hx
          · exact hx
          · split at hx
            · exact hx
            · exact ih _ _ _ hx
    · rename_i hc
      rw [if_neg hc] at hx
      exact hx

theorem pOutWalk_mono (pt : PTrie) (i : Nat) (k : Nat) : ∀ (fuel temp : Nat) (x : List Scope),
    pOutWalk pt i fuel temp = some x → pOutWalk pt i (fuel + k) temp = some x := by
  intro fuel
  induction fuel with
  | zero => intro temp x hx; simp [pOutWalk] at hx
  | succ fuel ih =>
    intro temp x hx
    rw [show fuel + 1 + k = (fuel + k) + 1 by omega]
    unfold pOutWalk at hx ⊢
    split
    · rename_i hc
      rw [if_pos hc] at hx
      split at hx
      · exact hx
      · split at hx
        · exact hx
        · rename_i m hm
          cases hr : pOutWalk pt i fuel m with
          | none => rw [hr] at hx; simp at hx
          | some rest =>
            rw [hr] at hx
            rw [ih _ _ hr]
            exact hx
    · rename_i hc
      rw [if_neg hc] at hx
      exact hx

theorem pAnyEndWalk_mono (pt : PTrie) (k : Nat) : ∀ (fuel temp : Nat) (x : Bool),
    pAnyEndWalk pt fuel temp = some x → pAnyEndWalk pt (fuel + k) temp = some x := by
  intro fuel
  induction fuel with
  | zero => intro temp x hx; simp [pAnyEndWalk] at hx
  | succ fuel ih =>
    intro temp x hx
    rw [show fuel + 1 + k = (fuel + k) + 1 by omega]
    unfold pAnyEndWalk at hx ⊢
    split
    · rename_i hc
      rw [if_pos hc] at hx
      split at hx
      · exact hx
      · rename_i nd hnd
        by_cases he : nd.isEnd = true
        · rw [if_pos he] at hx ⊢; exact hx
        · rw [if_neg he] at hx ⊢
          split at hx
          · exact hx
          · exact ih _ _ hx
    · rename_i hc
      rw [if_neg hc] at hx
      exact hx

/-! ### step-by-step simulation with equal fuel -/

theorem pFallLoop_sim {pt : PTrie} {t : Trie} {lbl : List Label} (h : Rep pt t lbl) (v : Int) :
    ∀ (fuel node : Nat) (l : Label) (idx : Option Nat) (l' : Label) (idx' : Option Nat),
    lbl[node]? = some l → fallLoop t v fuel l idx = some (l', idx') →
    ∃ node', pFallLoop pt v fuel node idx = some (node', idx') ∧ lbl[node']? = some l' := by
  intro fuel
  induction fuel with
  | zero => intro node l idx l' idx' _ hx; simp [fallLoop] at hx
  | succ fuel ih =>
    intro node l idx l' idx' hl hx
    unfold fallLoop at hx
    unfold pFallLoop
    by_cases hc : l ≠ [] ∧ idx = none
    · have hc' : node ≠ 0 ∧ idx = none := ⟨(h.ne_zero_iff hl).2 hc.1, hc.2⟩
      rw [if_pos hc] at hx; rw [if_pos hc']
      obtain ⟨nd, hnd⟩ := h.node_get hl
      rw [hnd]; simp only []
      cases hfo : t.failOf l with
      | none => rw [hfo] at hx; simp at hx
      | some m =>
        rw [hfo] at hx; simp only [] at hx
        rcases h.fail node nd l hnd hl with ⟨_, h2⟩ | ⟨f, lf, hf1, hf2, hf3⟩
        · rw [hfo] at h2; cases h2
        · rw [hfo] at hf3; cases hf3
          rw [hf1]; simp only []
          obtain ⟨mn, hmn⟩ := h.node_get hf2
          rw [hmn]; simp only []
          obtain ⟨hk, _⟩ := h.kids f mn m hmn hf2
          rw [hk] at hx; simp only [] at hx
          cases hi : index mn.vals v with
          | none => rw [hi] at hx; simp at hx
          | some idx2 => rw [hi] at hx; simp only [] at hx ⊢; exact ih _ _ _ _ _ hf2 hx
    · have hc' : ¬ (node ≠ 0 ∧ idx = none) := fun hh => hc ⟨(h.ne_zero_iff hl).1 hh.1, hh.2⟩
      rw [if_neg hc] at hx; rw [if_neg hc']
      cases hx
      exact ⟨node, rfl, hl⟩

theorem pFallback_sim {pt : PTrie} {t : Trie} {lbl : List Label} (h : Rep pt t lbl)
    {node : Nat} {l : Label} (hl : lbl[node]? = some l) (v : Int) {l' : Label} {idx' : Option Nat}
    (hx : fallback t l v = some (l', idx')) :
    ∃ node', pFallback pt node v = some (node', idx') ∧ lbl[node']? = some l' := by
  unfold fallback at hx
  unfold pFallback
  obtain ⟨nd, hnd⟩ := h.node_get hl
  obtain ⟨hk, _⟩ := h.kids node nd l hnd hl
  rw [hnd]; simp only []
  rw [hk] at hx; simp only [] at hx
  cases hi : index nd.vals v with
  | none => rw [hi] at hx; simp at hx
  | some idx =>
    rw [hi] at hx; simp only [] at hx ⊢
    obtain ⟨node', h1, h2⟩ := pFallLoop_sim h v _ _ _ _ _ _ hl hx
    have hb := h.depth_lt (List.mem_of_getElem? hl)
    refine ⟨node', ?_, h2⟩
    have := pFallLoop_mono pt v (pt.nodes.length - l.length) _ _ _ _ h1
    rw [show l.length + 1 + (pt.nodes.length - l.length) = pt.nodes.length + 1 by omega] at this
    exact this

theorem pChildAt_sim {pt : PTrie} {t : Trie} {lbl : List Label} (h : Rep pt t lbl)
    {node : Nat} {l : Label} (hl : lbl[node]? = some l) (idx : Nat) {l' : Label}
    (hx : childAt t l idx = some l') :
    ∃ node', pChildAt pt node idx = some node' ∧ lbl[node']? = some l' := by
  unfold childAt at hx
  unfold pChildAt
  obtain ⟨nd, hnd⟩ := h.node_get hl
  obtain ⟨hk, hc, _⟩ := h.kids node nd l hnd hl
  rw [hnd]; simp only []
  rw [hk] at hx; simp only [] at hx
  simp only [PNode.vals, List.getElem?_map] at hx
  cases hci : nd.children[idx]? with
  | none => rw [hci] at hx; simp at hx
  | some rc =>
    obtain ⟨r, c⟩ := rc
    rw [hci] at hx
    simp only [Option.map_some, Option.some.injEq] at hx
    subst hx
    exact ⟨c, rfl, hc r c (List.mem_of_getElem? hci)⟩

theorem pOutWalk_sim {pt : PTrie} {t : Trie} {lbl : List Label} (h : Rep pt t lbl) (i : Nat) :
    ∀ (fuel node : Nat) (l : Label) (out : List Scope),
    lbl[node]? = some l → outWalk t i fuel l = some out → pOutWalk pt i fuel node = some out := by
  intro fuel
  induction fuel with
  | zero => intro node l out _ hx; simp [outWalk] at hx
  | succ fuel ih =>
    intro node l out hl hx
    unfold outWalk at hx
    unfold pOutWalk
    by_cases hc : l ≠ []
    · have hc' : node ≠ 0 := (h.ne_zero_iff hl).2 hc
      rw [if_pos hc] at hx; rw [if_pos hc']
      obtain ⟨nd, hnd⟩ := h.node_get hl
      rw [hnd]; simp only []
      obtain ⟨_, _, he, hs⟩ := h.kids node nd l hnd hl
      cases hfo : t.failOf l with
      | none => rw [hfo] at hx; simp at hx
      | some m =>
        rw [hfo] at hx; simp only [] at hx
        rcases h.fail node nd l hnd hl with ⟨_, h2⟩ | ⟨f, lf, hf1, hf2, hf3⟩
        · rw [hfo] at h2; cases h2
        · rw [hfo] at hf3; cases hf3
          rw [hf1]; simp only []
          cases hr : outWalk t i fuel m with
          | none => rw [hr] at hx; simp at hx
          | some rest =>
            rw [hr] at hx
            rw [ih _ _ _ hf2 hr, he, hs]
            exact hx
    · have hc' : ¬ node ≠ 0 := fun hh => hc ((h.ne_zero_iff hl).1 hh)
      rw [if_neg hc] at hx; rw [if_neg hc']
      exact hx

theorem pAnyEndWalk_sim {pt : PTrie} {t : Trie} {lbl : List Label} (h : Rep pt t lbl) :
    ∀ (fuel node : Nat) (l : Label) (b : Bool),
    lbl[node]? = some l → anyEndWalk t fuel l = some b → pAnyEndWalk pt fuel node = some b := by
  intro fuel
  induction fuel with
  | zero => intro node l b _ hx; simp [anyEndWalk] at hx
  | succ fuel ih =>
    intro node l b hl hx
    unfold anyEndWalk at hx
    unfold pAnyEndWalk
    by_cases hc : l ≠ []
    · have hc' : node ≠ 0 := (h.ne_zero_iff hl).2 hc
      rw [if_pos hc] at hx; rw [if_pos hc']
      obtain ⟨nd, hnd⟩ := h.node_get hl
      rw [hnd]; simp only []
      obtain ⟨_, _, he, _⟩ := h.kids node nd l hnd hl
      rw [he]
      by_cases hend : isEnd t.pats l = true
      · rw [if_pos hend] at hx ⊢; exact hx
      · rw [if_neg hend] at hx ⊢
        cases hfo : t.failOf l with
        | none => rw [hfo] at hx; simp at hx
        | some m =>
          rw [hfo] at hx; simp only [] at hx
          rcases h.fail node nd l hnd hl with ⟨_, h2⟩ | ⟨f, lf, hf1, hf2, hf3⟩
          · rw [hfo] at h2; cases h2
          · rw [hfo] at hf3; cases hf3
            rw [hf1]; simp only []
            exact ih _ _ _ hf2 hx
    · have hc' : ¬ node ≠ 0 := fun hh => hc ((h.ne_zero_iff hl).1 hh)
      rw [if_neg hc] at hx; rw [if_neg hc']
      exact hx

/-- The walks with the store-size fuel the pointer loops use. -/
theorem pOutWalk_sim_full {pt : PTrie} {t : Trie} {lbl : List Label} (h : Rep pt t lbl) (i : Nat)
    {node : Nat} {l : Label} (hl : lbl[node]? = some l) {out : List Scope}
    (hx : outWalk t i (l.length + 1) l = some out) :
    pOutWalk pt i (pt.nodes.length + 1) node = some out := by
  have hb := h.depth_lt (List.mem_of_getElem? hl)
  have := pOutWalk_mono pt i (pt.nodes.length - l.length) _ _ _ (pOutWalk_sim h i _ _ _ _ hl hx)
  rw [show l.length + 1 + (pt.nodes.length - l.length) = pt.nodes.length + 1 by omega] at this
  exact this

theorem pAnyEndWalk_sim_full {pt : PTrie} {t : Trie} {lbl : List Label} (h : Rep pt t lbl)
    {node : Nat} {l : Label} (hl : lbl[node]? = some l) {b : Bool}
    (hx : anyEndWalk t (l.length + 1) l = some b) :
    pAnyEndWalk pt (pt.nodes.length + 1) node = some b := by
  have hb := h.depth_lt (List.mem_of_getElem? hl)
  have := pAnyEndWalk_mono pt (pt.nodes.length - l.length) _ _ _ (pAnyEndWalk_sim h _ _ _ _ hl hx)
  rw [show l.length + 1 + (pt.nodes.length - l.length) = pt.nodes.length + 1 by omega] at this
  exact this

/-! ### the two scan loops -/

theorem pFindLoop_sim {pt : PTrie} {t : Trie} {lbl : List Label} (h : Rep pt t lbl) :
    ∀ (steps : List Step) (node : Nat) (l : Label) (i : Nat) (acc r : List Scope),
    lbl[node]? = some l → findLoop t steps l i acc = some r → pFindLoop pt steps node i acc = some r := by
  intro steps
  induction steps with
  | nil => intro node l i acc r _ hx; simpa [findLoop, pFindLoop] using hx
  | cons st rest ih =>
    intro node l i acc r hl hx
    obtain ⟨rn, size⟩ := st
    unfold findLoop at hx
    unfold pFindLoop
    simp only [] at hx ⊢
    cases hfb : fallback t l rn with
    | none => rw [hfb] at hx; simp at hx
    | some res =>
      obtain ⟨l1, idx⟩ := res
      obtain ⟨n1, hp1, hl1⟩ := pFallback_sim h hl rn hfb
      rw [hfb] at hx; rw [hp1]
      cases idx with
      | none => simp only [] at hx ⊢; exact ih _ _ _ _ _ hl1 hx
      | some ix =>
        simp only [] at hx ⊢
        cases hca : childAt t l1 ix with
        | none => rw [hca] at hx; simp at hx
        | some l2 =>
          obtain ⟨n2, hp2, hl2⟩ := pChildAt_sim h hl1 ix hca
          rw [hca] at hx; rw [hp2]
          simp only [] at hx ⊢
          cases how : outWalk t (i + size) (l2.length + 1) l2 with
          | none => rw [how] at hx; simp at hx
          | some out =>
            rw [how] at hx; rw [pOutWalk_sim_full h (i + size) hl2 how]
            simp only [] at hx ⊢
            exact ih _ _ _ _ _ hl2 hx

theorem pMatchLoop_sim {pt : PTrie} {t : Trie} {lbl : List Label} (h : Rep pt t lbl) :
    ∀ (steps : List Step) (node : Nat) (l : Label) (b : Bool),
    lbl[node]? = some l → matchLoop t steps l = some b → pMatchLoop pt steps node = some b := by
  intro steps
  induction steps with
  | nil => intro node l b _ hx; simpa [matchLoop, pMatchLoop] using hx
  | cons st rest ih =>
    intro node l b hl hx
    obtain ⟨rn, size⟩ := st
    unfold matchLoop at hx
    unfold pMatchLoop
    cases hfb : fallback t l rn with
    | none => rw [hfb] at hx; simp at hx
    | some res =>
      obtain ⟨l1, idx⟩ := res
      obtain ⟨n1, hp1, hl1⟩ := pFallback_sim h hl rn hfb
      rw [hfb] at hx; rw [hp1]
      cases idx with
      | none => simp only [] at hx ⊢; exact ih _ _ _ hl1 hx
      | some ix =>
        simp only [] at hx ⊢
        cases hca : childAt t l1 ix with
        | none => rw [hca] at hx; simp at hx
        | some l2 =>
          obtain ⟨n2, hp2, hl2⟩ := pChildAt_sim h hl1 ix hca
          rw [hca] at hx; rw [hp2]
          simp only [] at hx ⊢
          cases haw : anyEndWalk t (l2.length + 1) l2 with
          | none => rw [haw] at hx; simp at hx
          | some e =>
            rw [haw] at hx; rw [pAnyEndWalk_sim_full h hl2 haw]
            cases e with
            | true => simp only [] at hx ⊢; exact hx
            | false => simp only [] at hx ⊢; exact ih _ _ _ hl2 hx

/-! ### the theorems -/

/-- `find`: the pointer loop returns what the label loop returns. -/
theorem pfind_rep (pt : PTrie) (t : Trie) (lbl : List Label) (h : Rep pt t lbl) (steps : List Step)
    (r : List Scope) (hf : findSteps t steps = some r) : pFindLoop pt steps 0 0 [] = some r :=
  pFindLoop_sim h steps 0 [] 0 [] r h.root hf

/-- `Match`: the pointer loop returns what the label loop returns. -/
theorem pmatch_rep (pt : PTrie) (t : Trie) (lbl : List Label) (h : Rep pt t lbl) (steps : List Step)
    (b : Bool) (hm : matchSteps t steps = some b) : pMatchLoop pt steps 0 = some b :=
  pMatchLoop_sim h steps 0 [] b h.root hm

theorem pfind_api (pt : PTrie) (t : Trie) (lbl : List Label) (h : Rep pt t lbl) (text : List Nat)
    (r : List Scope) (hf : t.find text = some r) : pt.find text = some r :=
  pfind_rep pt t lbl h (decodeAll text) r hf

theorem pmatch_api (pt : PTrie) (t : Trie) (lbl : List Label) (h : Rep pt t lbl) (text : List Nat)
    (b : Bool) (hm : t.match text = some b) : pt.match text = some b :=
  pmatch_rep pt t lbl h (decodeAll text) b hm

theorem pfindAll_api (pt : PTrie) (t : Trie) (lbl : List Label) (h : Rep pt t lbl) (text : List Nat)
    (ws : List (List Nat)) (hf : t.findAll text = some ws) : pt.findAll text = some ws := by
  unfold Trie.findAll findAllWith at hf
  unfold PTrie.findAll
  cases hs : findSteps t (decodeAllWith decodeStep text) with
  | none => rw [hs] at hf; simp at hf
  | some scopes =>
    rw [hs] at hf
    rw [pfind_api pt t lbl h text scopes hs]
    exact hf

end Golib.C05
