/-
C02 helper lemmas, part 10: traversal through node handles (`Head()/GetNode()`, then
`node.Next()`, `node.Key()`, `node.Value()`): `SL.walkNodes`, `SL.walk`, `SL.walkFrom`.

Everything is proved for weak-order comparators (`WeakCmp`: `cmp a b = 0` is an equivalence,
not necessarily equality; `GetNode(k)` answers the stored equivalent node); the `TotalCmp`
statements are corollaries.

Depends only on the public results of the refinement (`step_sim_weak`, `Inv` and its fields,
`Inv.toMap_sorted`, `Good`, `toMap`, `chain0`, `OMap.*`, `WeakCmp`, `TotalCmp.toWeak`) and on
the model definitions; every other fact is proved here.
-/
import Golib.Proof.C02Refine

set_option linter.unusedSectionVars false
set_option linter.unusedSimpArgs false
set_option linter.unusedVariables false

namespace Golib.C02

variable {K V : Type} [DecidableEq K]

/-- The binding of a node, as `toMap` reads it. -/
def wBind (vals : List (K × V)) (k : K) : Option (K × V) := (getVal vals k).map (fun v => (k, v))

theorem toMap_wBind (s : SL K V) : toMap s = (chain0 s).filterMap (wBind s.vals) := rfl

theorem walk_getVal_isSome {vals : List (K × V)} {k : K} :
    (getVal vals k).isSome = true ↔ k ∈ vals.map Prod.fst := by
  induction vals with
  | nil => simp [getVal]
  | cons p rest ih =>
    obtain ⟨a, b⟩ := p
    unfold getVal
    by_cases h : a = k
    · simp [h]
    · simp only [h, if_false, List.map_cons, List.mem_cons]
      rw [ih]; constructor
      · exact Or.inr
      · rintro (e | e)
        · exact absurd e.symm h
        · exact e

theorem filterMap_wBind_keys (vals : List (K × V)) :
    ∀ (l : List K), (∀ k ∈ l, ∃ v, getVal vals k = some v) →
      (l.filterMap (wBind vals)).map Prod.fst = l := by
  intro l
  induction l with
  | nil => intro _; rfl
  | cons x xs ih =>
    intro h
    obtain ⟨v, hv⟩ := h x (by simp)
    have : wBind vals x = some (x, v) := by simp [wBind, hv]
    rw [List.filterMap_cons, this]
    simp only [List.map_cons]
    rw [ih (fun k hk => h k (by simp [hk]))]

theorem mem_filterMap_wBind {vals : List (K × V)} {l : List K} {p : K × V}
    (h : p ∈ l.filterMap (wBind vals)) : p.1 ∈ l := by
  obtain ⟨k, hk, hp⟩ := List.mem_filterMap.mp h
  unfold wBind at hp
  cases hg : getVal vals k with
  | none => rw [hg] at hp; cases hp
  | some v => rw [hg] at hp; simp only [Option.map_some, Option.some.injEq] at hp; rw [← hp]; exact hk

theorem walk_afterNode_mid {pre rest : List K} {n : K} (h : n ∉ pre) :
    afterNode n (pre ++ n :: rest) = some rest := by
  induction pre with
  | nil => simp [afterNode]
  | cons a pre ih =>
    simp only [List.mem_cons, not_or] at h
    have : a ≠ n := fun e => h.1 e.symm
    simp only [List.cons_append, afterNode, this, if_false]
    exact ih h.2

theorem walkNodes_none (s : SL K V) (fuel : Nat) : s.walkNodes fuel none = some [] := by
  cases fuel <;> rfl

/-- Following `Next()` from a node of the level-0 chain visits the rest of the chain. -/
theorem walkNodes_chain (s : SL K V) (l0 : List K) (rest0 : List (List K))
    (hlv : s.lv = l0 :: rest0) (hnd : l0.Nodup) (hv : ∀ k ∈ l0, ∃ v, getVal s.vals k = some v) :
    ∀ (rest pre : List K) (n : K) (fuel : Nat), l0 = pre ++ n :: rest → rest.length < fuel →
      s.walkNodes fuel (some n) = some ((n :: rest).filterMap (wBind s.vals)) := by
  intro rest
  induction rest with
  | nil =>
    intro pre n fuel hl hf
    obtain ⟨f, rfl⟩ : ∃ f, fuel = f + 1 := ⟨fuel - 1, by simp only [List.length_nil] at hf; omega⟩
    obtain ⟨c, hc⟩ := hv n (by rw [hl]; simp)
    have hnp : n ∉ pre := by
      rw [hl] at hnd
      have := (List.nodup_append.mp hnd).2.2
      intro hm; exact this n hm n (by simp) rfl
    have hnx : s.nodeNext n = some none := by
      unfold SL.nodeNext; rw [hlv]; simp only []; rw [hl, walk_afterNode_mid hnp]; rfl
    unfold SL.walkNodes
    simp only [hc, hnx, walkNodes_none, Option.map_some, List.filterMap_cons, wBind, List.filterMap_nil]
  | cons m rest ih =>
    intro pre n fuel hl hf
    obtain ⟨f, rfl⟩ : ∃ f, fuel = f + 1 := ⟨fuel - 1, by simp only [List.length_cons] at hf; omega⟩
    obtain ⟨c, hc⟩ := hv n (by rw [hl]; simp)
    have hnp : n ∉ pre := by
      rw [hl] at hnd
      have := (List.nodup_append.mp hnd).2.2
      intro hm; exact this n hm n (by simp) rfl
    have hnx : s.nodeNext n = some (some m) := by
      unfold SL.nodeNext; rw [hlv]; simp only []; rw [hl, walk_afterNode_mid hnp]; rfl
    have := ih (pre ++ [n]) m f (by rw [hl]; simp) (by simp only [List.length_cons] at hf; omega)
    unfold SL.walkNodes
    simp only [hc, hnx, this, Option.map_some]
    rw [List.filterMap_cons (a := n)]
    simp only [wBind, hc, Option.map_some]

/-- What the traversal lemmas need from the invariant: the shape of `lv`, every chain node has
a value, the chain is strictly ascending (hence duplicate-free). -/
theorem Inv.walk_prep {cmp : K → K → Int} (hc : WeakCmp cmp) {s : SL K V} (h : Inv cmp s) :
    (∃ rest0, s.lv = chain0 s :: rest0) ∧ (∀ k ∈ chain0 s, ∃ v, getVal s.vals k = some v) ∧
      (chain0 s).Pairwise (fun a b => cmp a b < 0) ∧ (chain0 s).Nodup := by
  have h32 := h.len32
  have hlv : ∃ rest0, s.lv = chain0 s :: rest0 := by
    unfold chain0
    cases hl : s.lv with
    | nil => rw [hl] at h32; simp [maxLevel] at h32
    | cons l0 rest0 => exact ⟨rest0, rfl⟩
  have hv : ∀ k ∈ chain0 s, ∃ v, getVal s.vals k = some v := fun k hk =>
    Option.isSome_iff_exists.mp (walk_getVal_isSome.mpr ((h.vals k).mpr hk))
  have hs : (chain0 s).Pairwise (fun a b => cmp a b < 0) := by
    have := h.toMap_sorted
    rw [← filterMap_wBind_keys s.vals (chain0 s) hv, ← toMap_wBind, List.pairwise_map]
    exact this
  refine ⟨hlv, hv, hs, hs.imp ?_⟩
  intro a b hab e
  subst e
  have := hc.refl a
  omega

/-- The bindings with key `≥ n`, for a node `n` of the chain, are the bindings of `n` and of
the nodes after it. -/
theorem from_split {cmp : K → K → Int} (hc : WeakCmp cmp) (vals : List (K × V)) {pre rest : List K} {n : K}
    (hs : (pre ++ n :: rest).Pairwise (fun a b => cmp a b < 0)) :
    OMap.from cmp ((pre ++ n :: rest).filterMap (wBind vals)) n = (n :: rest).filterMap (wBind vals) := by
  obtain ⟨_, h2, h3⟩ := List.pairwise_append.mp hs
  unfold OMap.from
  rw [List.filterMap_append, List.filter_append]
  have e1 : (pre.filterMap (wBind vals)).filter (fun p => !decide (cmp p.1 n < 0)) = [] := by
    rw [List.filter_eq_nil_iff]
    intro p hp
    have := h3 p.1 (mem_filterMap_wBind hp) n (by simp)
    simp [this]
  have e2 : ((n :: rest).filterMap (wBind vals)).filter (fun p => !decide (cmp p.1 n < 0))
      = (n :: rest).filterMap (wBind vals) := by
    rw [List.filter_eq_self]
    intro p hp
    have hm := mem_filterMap_wBind hp
    have : ¬ cmp p.1 n < 0 := by
      rcases List.mem_cons.mp hm with e | e
      · rw [e]; have := hc.refl n; omega
      · have h1 := (List.pairwise_cons.mp h2).1 p.1 e
        have := (hc.gt_iff p.1 n).mpr h1
        omega
    simp [this]
  rw [e1, e2]; rfl

/-- The general lemma: a node that is linked at level 0 walks exactly the current bindings
with key `≥` its own, within `len` rounds. -/
theorem walkNodes_linked_weak {cmp : K → K → Int} (hc : WeakCmp cmp) {s : SL K V} (h : Inv cmp s) {n : K}
    (hn : n ∈ chain0 s) :
    s.walkNodes (chain0 s).length (some n) = some (OMap.from cmp (toMap s) n) := by
  obtain ⟨⟨rest0, hlv⟩, hv, hs, hnd⟩ := h.walk_prep hc
  obtain ⟨pre, rest, hl⟩ := List.append_of_mem hn
  rw [walkNodes_chain s (chain0 s) rest0 hlv hnd hv rest pre n _ hl (by rw [hl]; simp; omega)]
  rw [toMap_wBind]
  rw [hl] at hs ⊢
  rw [from_split hc s.vals hs]

/-- The same for every reachable state (a node is never linked in the untouched zero value). -/
theorem walkNodes_good_weak (cfg : Cfg K V) (hc : WeakCmp cfg.cmp) {s : SL K V} (hg : Good cfg s) {n : K}
    (hn : n ∈ chain0 s) :
    s.walkNodes (chain0 s).length (some n) = some (OMap.from cfg.cmp (toMap s) n) := by
  rcases hg with h | ⟨_, rfl⟩
  · exact walkNodes_linked_weak hc h hn
  · simp [chain0, SL.zero] at hn

/-- (1) `for n := s.Head(); n != nil; n = n.Next()` visits every binding once, ascending. -/
theorem headWalk_spec_weak (cfg : Cfg K V) (hc : WeakCmp cfg.cmp) {s : SL K V} (hg : Good cfg s) :
    s.walk = some (toMap s) := by
  rcases hg with h | ⟨_, rfl⟩
  · obtain ⟨⟨rest0, hlv⟩, hv, hs, hnd⟩ := h.walk_prep hc
    have hlen := h.len
    unfold SL.walk SL.head
    show (match (if (s.len == 0) = true then some none else
        match s.lv with
        | [] => none
        | l :: _ => some l.head?) with
      | none => none
      | some hd => s.walkNodes (chain0 s).length hd) = _
    rw [hlv, toMap_wBind]
    cases hl : chain0 s with
    | nil =>
      rw [hl] at hlen
      simp only [List.length_nil] at hlen
      simp [hlen, walkNodes_none]
    | cons n rest =>
      rw [hl] at hlen
      simp only [List.length_cons] at hlen
      have hne : (s.len == 0) = false := by rw [hlen]; simp; omega
      simp only [hne, Bool.false_eq_true, if_false, List.head?_cons]
      rw [← hl]
      rw [walkNodes_chain s (chain0 s) rest0 hlv hnd hv rest [] n _ (by simp [hl]) (by rw [hl]; simp)]
      rw [hl]
  · simp [SL.walk, SL.head, SL.zero, walkNodes_none]
    rfl

/-- The stored key equivalent to `k`, when there is one, is a node of the chain. -/
theorem keyW_some {cmp : K → K → Int} {s : SL K V} {k n : K} (h : OMap.keyW cmp (toMap s) k = some n) :
    n ∈ chain0 s ∧ cmp n k = 0 := by
  unfold OMap.keyW at h
  cases hf : (toMap s).find? (fun p => cmp p.1 k == 0) with
  | none => rw [hf] at h; cases h
  | some p =>
    rw [hf] at h
    simp only [Option.map_some, Option.some.injEq] at h
    have hp := List.mem_of_find?_eq_some hf
    have hq := List.find?_some hf
    have := mem_filterMap_wBind (vals := s.vals) (l := chain0 s) (by rw [← toMap_wBind]; exact hp)
    rw [h] at this hq
    exact ⟨this, by simpa using hq⟩

theorem walk_lt_of_lt_of_le {cmp : K → K → Int} (h : WeakCmp cmp) {a b c : K} (h1 : cmp a b < 0)
    (h2 : cmp b c ≤ 0) : cmp a c < 0 := by
  have h3 := h.le_trans a b c (by omega) h2
  rcases (by omega : (cmp a c) < 0 ∨ (cmp a c) ≥ 0) with h4 | h4
  · exact h4
  · have h5 : cmp a c = 0 := by omega
    have h5' : cmp c a ≤ 0 := by
      rcases (by omega : 0 < (cmp c a) ∨ (cmp c a) ≤ 0) with h6 | h6
      · have := (h.gt_iff c a).mp h6; omega
      · exact h6
    have h6 := h.le_trans b c a h2 h5'
    have h7 := (h.gt_iff b a).mpr h1
    omega

/-- "Key `≥ n`" and "key `≥ k`" select the same bindings when `n` and `k` are equivalent. -/
theorem from_congr_equiv {cmp : K → K → Int} (hc : WeakCmp cmp) (m : List (K × V)) {n k : K}
    (h : cmp n k = 0) : OMap.from cmp m n = OMap.from cmp m k := by
  have hkn : cmp k n ≤ 0 := by
    rcases (by omega : 0 < (cmp k n) ∨ (cmp k n) ≤ 0) with h6 | h6
    · have := (hc.gt_iff k n).mp h6; omega
    · exact h6
  unfold OMap.from
  apply List.filter_congr
  intro p _
  have : cmp p.1 n < 0 ↔ cmp p.1 k < 0 :=
    ⟨fun h1 => walk_lt_of_lt_of_le hc h1 (by omega), fun h1 => walk_lt_of_lt_of_le hc h1 hkn⟩
  simp only [this]

/-- (2), in terms of the node `GetNode(k)` answers: the stored key equivalent to `k`. -/
theorem walkFrom_keyW (cfg : Cfg K V) (hc : WeakCmp cfg.cmp) (hf : cfg.fixed = true) {s : SL K V}
    (hg : Good cfg s) (k : K) :
    s.walkFrom cfg k = some (match OMap.keyW cfg.cmp (toMap s) k with
      | some n => OMap.from cfg.cmp (toMap s) n
      | none => []) := by
  obtain ⟨s', out, h1, _, h3, _⟩ := step_sim_weak cfg hc hf hg (.getNode k)
  simp only [SL.step, OMap.stepW] at h1 h3
  unfold SL.walkFrom
  cases hn : s.getNode cfg k with
  | none => rw [hn] at h1; cases h1
  | some nd =>
    rw [hn] at h1
    simp only [Option.map_some, Option.some.injEq, Prod.mk.injEq] at h1
    obtain ⟨rfl, rfl⟩ := h1
    simp only [Prod.mk.injEq, Out.node.injEq, true_and] at h3
    subst h3
    simp only []
    cases hk : OMap.keyW cfg.cmp (toMap s) k with
    | none => simp only [walkNodes_none]
    | some n => exact walkNodes_good_weak cfg hc hg (keyW_some hk).1

/-- (2) `for n := s.GetNode(k); n != nil; n = n.Next()`: nothing when no stored key is equivalent
to `k`, else exactly the bindings with key `≥ k`. -/
theorem walkFrom_spec_weak (cfg : Cfg K V) (hc : WeakCmp cfg.cmp) (hf : cfg.fixed = true) {s : SL K V}
    (hg : Good cfg s) (k : K) :
    s.walkFrom cfg k =
      some (if (OMap.getW cfg.cmp (toMap s) k).isSome then OMap.from cfg.cmp (toMap s) k else []) := by
  rw [walkFrom_keyW cfg hc hf hg k]
  have hiso : (OMap.getW cfg.cmp (toMap s) k).isSome = (OMap.keyW cfg.cmp (toMap s) k).isSome := by
    simp only [OMap.getW, OMap.keyW, Option.isSome_map]
  rw [hiso]
  cases hk : OMap.keyW cfg.cmp (toMap s) k with
  | none => simp
  | some n =>
    simp only [Option.isSome_some, if_true]
    rw [from_congr_equiv hc (toMap s) (keyW_some hk).2]

/-- (3) handle stability: after any call, a node that is still linked walks the current suffix. -/
theorem walkNodes_after_step_weak (cfg : Cfg K V) (hc : WeakCmp cfg.cmp) (hf : cfg.fixed = true) {s : SL K V}
    (hg : Good cfg s) (op : Op K V) {s' : SL K V} {out : Out K V} (hs : s.step cfg op = some (s', out))
    {n : K} (hn : n ∈ chain0 s') :
    s'.walkNodes (chain0 s').length (some n) = some (OMap.from cfg.cmp (toMap s') n) := by
  obtain ⟨s1, out1, h1, h2, _, _⟩ := step_sim_weak cfg hc hf hg op
  rw [hs] at h1
  simp only [Option.some.injEq, Prod.mk.injEq] at h1
  obtain ⟨rfl, _⟩ := h1
  exact walkNodes_good_weak cfg hc h2 hn

/-! ### total orders: corollaries -/

theorem walkNodes_linked {cmp : K → K → Int} (hc : TotalCmp cmp) {s : SL K V} (h : Inv cmp s) {n : K}
    (hn : n ∈ chain0 s) :
    s.walkNodes (chain0 s).length (some n) = some (OMap.from cmp (toMap s) n) :=
  walkNodes_linked_weak hc.toWeak h hn

theorem walkNodes_good (cfg : Cfg K V) (hc : TotalCmp cfg.cmp) {s : SL K V} (hg : Good cfg s) {n : K}
    (hn : n ∈ chain0 s) :
    s.walkNodes (chain0 s).length (some n) = some (OMap.from cfg.cmp (toMap s) n) :=
  walkNodes_good_weak cfg hc.toWeak hg hn

theorem headWalk_spec (cfg : Cfg K V) (hc : TotalCmp cfg.cmp) {s : SL K V} (hg : Good cfg s) :
    s.walk = some (toMap s) :=
  headWalk_spec_weak cfg hc.toWeak hg

/-- Under a total order "equivalent" is "equal". -/
theorem walk_getW_eq_get {cmp : K → K → Int} (hc : TotalCmp cmp) (m : List (K × V)) (k : K) :
    OMap.getW cmp m k = OMap.get m k := by
  unfold OMap.getW OMap.get
  have : (fun (p : K × V) => cmp p.1 k == 0) = (fun p => decide (p.1 = k)) := by
    funext p
    rw [Bool.eq_iff_iff]
    simp [hc.eq_iff]
  rw [this]

theorem walkFrom_spec (cfg : Cfg K V) (hc : TotalCmp cfg.cmp) (hf : cfg.fixed = true) {s : SL K V}
    (hg : Good cfg s) (k : K) :
    s.walkFrom cfg k =
      some (if (OMap.get (toMap s) k).isSome then OMap.from cfg.cmp (toMap s) k else []) := by
  rw [walkFrom_spec_weak cfg hc.toWeak hf hg k, walk_getW_eq_get hc]

theorem walkNodes_after_step (cfg : Cfg K V) (hc : TotalCmp cfg.cmp) (hf : cfg.fixed = true) {s : SL K V}
    (hg : Good cfg s) (op : Op K V) {s' : SL K V} {out : Out K V} (hs : s.step cfg op = some (s', out))
    {n : K} (hn : n ∈ chain0 s') :
    s'.walkNodes (chain0 s').length (some n) = some (OMap.from cfg.cmp (toMap s') n) :=
  walkNodes_after_step_weak cfg hc.toWeak hf hg op hs hn

end Golib.C02
