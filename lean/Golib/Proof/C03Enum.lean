/-
C03 helper lemmas: `Range` / `All` — every loop of the enumeration feeds the callback the
per-word decomposition of the member list (`enumAll`); closed forms for a callback that
never stops and for one that stops at its k-th call.  Core-only.
-/
import Golib.Proof.C03Spec
namespace Golib.C03

/-- Feeding a list of values to the callback, stopping when it answers `false`. -/
def feed : List Nat → Sink → Sink × Bool
  | [], s => (s, true)
  | v :: rest, s =>
    let (s', go) := s.call v
    if go then feed rest s' else (s', false)

theorem feed_append (A B : List Nat) (s : Sink) :
    feed (A ++ B) s = if (feed A s).2 then feed B (feed A s).1 else ((feed A s).1, false) := by
  induction A generalizing s with
  | nil => simp [feed]
  | cons a A ih =>
    simp only [List.cons_append, feed]
    by_cases h : (s.call a).2 = true <;> simp [h, ih]

theorem rangeArr_feed (high : Nat) (l : List Nat) (s : Sink) :
    rangeArr high l s = feed (l.map (high <<< 16 ||| ·)) s := by
  induction l generalizing s with
  | nil => simp [rangeArr, feed]
  | cons a l ih =>
    simp only [rangeArr, List.map_cons, feed]
    cases h : (s.call (high <<< 16 ||| a)).2 <;> simp [ih]

theorem rangeWord_feed (high i : Nat) (w : Word) (cnt j : Nat) (s : Sink) :
    rangeWord high i w cnt j s =
      feed (((List.range' j cnt).filter (bitSet w)).map (fun b => high <<< 16 ||| (i * 64 + b))) s := by
  induction cnt generalizing j s with
  | zero => simp [rangeWord, feed]
  | succ cnt ih =>
    simp only [rangeWord, List.range'_succ, List.filter_cons]
    cases hb : bitSet w j
    · simp [ih]
    · simp only [if_true, List.map_cons, feed, shl6]
      cases h : (s.call (high <<< 16 ||| (i * 64 + j))).2 <;> simp [ih]

theorem rangeWords_feed (high : Nat) (ws : List Word) (i : Nat) (s : Sink) :
    rangeWords high ws i s = feed ((bitsFrom ws i 0).map (high <<< 16 ||| ·)) s := by
  induction ws generalizing i s with
  | nil => simp [rangeWords, bitsFrom, feed]
  | cons w ws ih =>
    simp only [rangeWords, bitsFrom, List.map_append, feed_append, List.map_map, Nat.sub_zero]
    rw [rangeWord_feed]
    simp only [Function.comp_def]
    cases h : (feed (List.map (fun b => high <<< 16 ||| (i * 64 + b))
      (List.filter (bitSet w) (List.range' 0 64))) s).2 <;> simp [ih]

theorem enum_arr (v : Array Nat) : (Container.arr v).enum = v.toList := rfl
theorem enum_bmp (n : Int) (w : Array Word) : (Container.bmp n w).enum = bitsFrom w.toList 0 0 := rfl

theorem rangeNodes_feed (cs : OMap) (s : Sink) :
    rangeNodes cs s = feed (cs.flatMap fun p => p.2.enum.map (p.1 <<< 16 ||| ·)) s := by
  induction cs generalizing s with
  | nil => simp [rangeNodes, feed]
  | cons p cs ih =>
    obtain ⟨high, c⟩ := p
    simp only [rangeNodes, List.flatMap_cons, feed_append]
    cases c with
    | arr v =>
      simp only [enum_arr, rangeArr_feed, ih]
      rfl
    | bmp n w =>
      simp only [enum_bmp, rangeWords_feed, ih]
      rfl

theorem bitsFrom_lt (ws : List Word) (i : Nat) : ∀ x ∈ bitsFrom ws i 0, x < (i + ws.length) * 64 := by
  induction ws generalizing i with
  | nil => simp [bitsFrom]
  | cons w ws ih =>
    intro x hx
    simp only [bitsFrom, List.mem_append, List.mem_map, List.mem_filter, List.mem_range'_1,
      Nat.sub_zero] at hx
    simp only [List.length_cons]
    rcases hx with ⟨b, ⟨⟨_, hb⟩, _⟩, rfl⟩ | hx
    · omega
    · have := ih (i + 1) x hx
      omega

theorem enum_lt (c : Container) (hc : c.Inv0) : ∀ x ∈ c.enum, x < 65536 := by
  cases c with
  | arr v => exact hc.2.1
  | bmp n w =>
    intro x hx
    have := bitsFrom_lt w.toList 0 x hx
    have h2 : w.toList.length = 1024 := by simpa using hc.1
    omega

theorem flatMap_shl_eq (cs : OMap) (hk : ∀ p ∈ cs, p.2.Inv0) :
    (cs.flatMap fun p => p.2.enum.map (p.1 <<< 16 ||| ·)) = enumAll cs := by
  unfold enumAll
  induction cs with
  | nil => rfl
  | cons p cs ih =>
    simp only [List.flatMap_cons]
    rw [ih (fun q hq => hk q (List.mem_cons_of_mem _ hq))]
    congr 1
    apply List.map_congr_left
    intro x hx
    exact shl16_or _ _ (enum_lt p.2 (hk p List.mem_cons_self) x hx)

theorem rangeNodes_eq_feed (cs : OMap) (s : Sink) (hk : ∀ p ∈ cs, p.2.Inv0) :
    rangeNodes cs s = feed (enumAll cs) s := by
  rw [rangeNodes_feed, flatMap_shl_eq cs hk]

theorem feed_stop0 (L : List Nat) (acc : List Nat) (n : Nat) :
    feed L ⟨acc, n, 0⟩ = (⟨L.reverse ++ acc, n + L.length, 0⟩, true) := by
  induction L generalizing acc n with
  | nil => simp [feed]
  | cons a L ih =>
    simp only [feed, Sink.call, ih]
    simp [Nat.add_assoc, Nat.add_comm 1]

theorem rangeNodes_stop0 (cs : OMap) (s : Sink) (hs : s.stop = 0)
    (hk : ∀ p ∈ cs, p.2.Inv0) :
    rangeNodes cs s = (⟨(enumAll cs).reverse ++ s.acc, s.n + (enumAll cs).length, 0⟩, true) := by
  obtain ⟨acc, n, stop⟩ := s
  simp only at hs
  subst hs
  rw [rangeNodes_eq_feed cs _ hk, feed_stop0]

theorem range_zero_eq (r : RB) (hk : ∀ p ∈ r.cs, p.2.Inv0) : r.range 0 = enumAll r.cs := by
  simp [RB.range, Sink.new, rangeNodes_stop0 r.cs ⟨[], 0, 0⟩ rfl hk, Sink.out]

theorem all_zero_eq (r : RB) (hk : ∀ p ∈ r.cs, p.2.Inv0) : r.all 0 = enumAll r.cs := by
  simp [RB.all, Sink.new, rangeNodes_stop0 r.cs ⟨[], 0, 0⟩ rfl hk, Sink.out]

theorem feed_lt (L : List Nat) (acc : List Nat) (n stop : Nat) (h : n < stop) :
    feed L ⟨acc, n, stop⟩ =
      (⟨(L.take (stop - n)).reverse ++ acc, n + (L.take (stop - n)).length, stop⟩,
        decide (L.length < stop - n)) := by
  induction L generalizing acc n with
  | nil => simp [feed]; omega
  | cons a L ih =>
    simp only [feed, Sink.call]
    by_cases h1 : n + 1 = stop
    · subst h1
      simp
    · have h2 : n + 1 < stop := by omega
      have h3 : stop - n = (stop - (n + 1)) + 1 := by omega
      have h4 : (n + 1 == stop) = false := by simp [h1]
      rw [h3]
      simp only [h4, Bool.not_false, if_true, ih (a :: acc) (n + 1) h2, List.take_succ_cons,
        List.reverse_cons, List.append_assoc, List.singleton_append, List.length_cons,
        List.length_take]
      simp only [Sink.mk.injEq, Prod.mk.injEq, true_and, and_true, decide_eq_decide]
      omega

theorem rangeNodes_lt (cs : OMap) (s : Sink) (hs : s.n < s.stop) (hk : ∀ p ∈ cs, p.2.Inv0) :
    rangeNodes cs s =
      (⟨((enumAll cs).take (s.stop - s.n)).reverse ++ s.acc,
        s.n + ((enumAll cs).take (s.stop - s.n)).length, s.stop⟩,
        decide ((enumAll cs).length < s.stop - s.n)) := by
  obtain ⟨acc, n, stop⟩ := s
  rw [rangeNodes_eq_feed cs _ hk, feed_lt _ _ _ _ hs]

theorem range_take (r : RB) (hk : ∀ p ∈ r.cs, p.2.Inv0) (k : Nat) (hpos : 0 < k) :
    r.range k = (enumAll r.cs).take k := by
  simp [RB.range, Sink.new, rangeNodes_lt r.cs ⟨[], 0, k⟩ hpos hk, Sink.out]

theorem all_take (r : RB) (hk : ∀ p ∈ r.cs, p.2.Inv0) (k : Nat) (hpos : 0 < k) :
    r.all k = (enumAll r.cs).take k := by
  simp [RB.all, Sink.new, rangeNodes_lt r.cs ⟨[], 0, k⟩ hpos hk, Sink.out]

end Golib.C03
