/-
C01 — progress: from a quiescent state with a free slot (a stored element), as long as
only threads that are idle or at the first step of a `Push` (`Pop`) take steps, nobody
returns before the first tail-CAS (head-CAS) is executed and that CAS succeeds; the thread
that executed it returns true when it finishes.
-/
import Golib.Proof.C01Lin
import Golib.Proof.C01LinStep

namespace Golib.C01
open Golib.C01.Util

/-- idle, or about to execute the FIRST access of a call (no call in flight) -/
def atStart : Pc → Bool
  | .idle | .pushLoadTail _ | .popLoadHead | .lenLoadTail | .emptyLoadHead | .fullLoadTail => true
  | _ => false

/-- no operation is in flight -/
def Quiescent (s : State) : Prop := ∀ th ∈ s.threads, atStart th.pc = true

theorem quiescent_counts {s : State} (hq : Quiescent s) (p : Nat) :
    cW s.threads p = 0 ∧ cR s.threads p = 0 := by
  constructor
  · apply countP_eq_zero_of_forall
    intro th hth
    have := hq th hth
    cases hpc : th.pc <;> simp [hpc, atStart, pushAt] at this ⊢
  · apply countP_eq_zero_of_forall
    intro th hth
    have := hq th hth
    cases hpc : th.pc <;> simp [hpc, atStart, popAt] at this ⊢

/-- a step of thread `i` leaves every other thread alone -/
theorem step_threads_other (c : Cfg) (s : State) {i j : Nat} (h : j ≠ i) :
    (step c s i).1.threads[j]? = s.threads[j]? := by
  have hne : ∀ th : Thread, (s.threads.set i th)[j]? = s.threads[j]? :=
    fun th => List.getElem?_set_ne (fun e => h e.symm)
  unfold step
  cases s.threads[i]? with
  | none => rfl
  | some th =>
    simp only []
    cases th.pc <;> dsimp only <;> (repeat' split) <;>
      first | rfl | exact hne _

theorem getElem?_lt {α : Type} {l : List α} {i : Nat} {a : α} (h : l[i]? = some a) : i < l.length := by
  by_cases hlt : i < l.length
  · exact hlt
  · rw [List.getElem?_eq_none (Nat.le_of_not_lt hlt)] at h; simp at h

/-! ### pushers -/

/-- program counters a pusher can be at before the first tail-CAS is executed -/
def PrePush (T : Nat) : Pc → Prop
  | .idle => True
  | .pushLoadTail _ => True
  | .pushLoadSeq _ pos => pos = T
  | .pushCAS _ pos _ => pos = T
  | _ => False

structure PreP (c : Cfg) (P : Nat → Prop) (T : Nat) (s : State) : Prop where
  tail : s.tail = T
  slot : sq s.slots (T % c.cap) = some T
  pcs : ∀ i th, P i → s.threads[i]? = some th → PrePush T th.pc

theorem sq_some {slots : List Slot} {k q : Nat} (h : sq slots k = some q) :
    ∃ sl, slots[k]? = some sl ∧ sl.seq = q := by
  simp only [sq] at h
  cases hs : slots[k]? with
  | none => rw [hs] at h; simp at h
  | some sl =>
    rw [hs] at h
    exact ⟨sl, rfl, by simpa using h⟩

theorem preP_set {c : Cfg} {P : Nat → Prop} {T : Nat} {s : State} (h : PreP c P T s) {i : Nat}
    {th' : Thread} (hown : PrePush T th'.pc) :
    PreP c P T { s with threads := s.threads.set i th' } := by
  refine ⟨h.tail, h.slot, ?_⟩
  intro j b hj hb
  simp only at hb
  by_cases e : j = i
  · subst e
    rw [List.getElem?_set] at hb
    simp only [if_true] at hb
    split at hb
    · obtain rfl := Option.some.inj hb; exact hown
    · simp at hb
  · rw [List.getElem?_set_ne (fun e' => e e'.symm)] at hb
    exact h.pcs j b hj hb

/-- Before the first tail-CAS: a step of a pusher either IS a tail-CAS, and succeeds, or
returns nothing, is not a CAS and keeps the situation. -/
theorem prePush_step {c : Cfg} (g : Ghost c) {P : Nat → Prop} {T : Nat} {s : State}
    (h : PreP c P T s) {i : Nat} (hi : P i) :
    (∃ th v seq, s.threads[i]? = some th ∧ th.pc = .pushCAS v T seq ∧
        (step c s i).2 = ⟨i, .casTail T (T + 1) true, none⟩ ∧
        (step c s i).1.threads[i]? = some { th with pc := .pushWrite v T seq }) ∨
    (PreP c P T (step c s i).1 ∧ (step c s i).2.ret = none ∧
      ∀ o n ok, (step c s i).2.acc ≠ .casTail o n ok) := by
  unfold step
  cases hth : s.threads[i]? with
  | none => right; exact ⟨h, rfl, fun _ _ _ e => by simp at e⟩
  | some th =>
    have hpre := h.pcs i th hi hth
    have hilt := getElem?_lt hth
    simp only []
    cases hpc : th.pc with
    | idle => right; exact ⟨h, rfl, fun _ _ _ e => by simp at e⟩
    | pushLoadTail v =>
      right
      dsimp only
      exact ⟨preP_set h (by simp only [PrePush]; exact h.tail), rfl, fun _ _ _ e => by simp at e⟩
    | pushLoadSeq v pos =>
      right
      dsimp only
      simp only [hpc, PrePush] at hpre
      subst hpre
      obtain ⟨sl, hsl, hseq⟩ := sq_some h.slot
      rw [g.idx_mod, hsl]
      dsimp only
      rw [if_neg (by simp [hseq])]
      exact ⟨preP_set h (by simp only [PrePush]), rfl, fun _ _ _ e => by simp at e⟩
    | pushCAS v pos seq =>
      left
      dsimp only
      simp only [hpc, PrePush] at hpre
      subst hpre
      rw [if_pos h.tail, g.norm]
      refine ⟨th, v, seq, rfl, hpc, rfl, ?_⟩
      simp only [State.setPc]
      exact List.getElem?_set_self hilt
    | _ => simp only [hpc, PrePush] at hpre

/-- the quiescent situation is a pre-CAS situation for the pushers -/
theorem preP_of_quiescent {c : Cfg} (g : Ghost c) {s : State} (hI : Inv c s) (hq : Quiescent s)
    (hfree : s.tail - s.head < c.cap) (P : Nat → Prop)
    (hP : ∀ i th, P i → s.threads[i]? = some th → th.pc = .idle ∨ ∃ v, th.pc = .pushLoadTail v) :
    PreP c P s.tail s := by
  refine ⟨rfl, (quiescent_slots g hI (quiescent_counts hq)).1 hfree, ?_⟩
  intro i th hi hth
  rcases hP i th hi hth with e | ⟨v, e⟩ <;> rw [e] <;> simp [PrePush]

theorem preP_run {c : Cfg} (g : Ghost c) {P : Nat → Prop} {T : Nat} {s : State}
    (h : PreP c P T s) (σ : List Nat) (hσ : ∀ i ∈ σ, P i)
    (hno : ∀ e ∈ (run c s σ).2, ∀ o n ok, e.acc ≠ .casTail o n ok) :
    PreP c P T (run c s σ).1 ∧ ∀ e ∈ (run c s σ).2, e.ret = none := by
  induction σ generalizing s with
  | nil => exact ⟨h, fun e he => by simp [run] at he⟩
  | cons j σ ih =>
    simp only [run] at hno ⊢
    rcases prePush_step g h (hσ j (by simp)) with ⟨th, v, seq, _, _, hev, _⟩ | ⟨h1, hr, _⟩
    · exfalso
      exact hno (step c s j).2 (by simp) T (T + 1) true (by rw [hev])
    · have := ih h1 (fun i hi => hσ i (by simp [hi])) (fun e he => hno e (by simp [he]))
      refine ⟨this.1, ?_⟩
      intro e he
      simp only [List.mem_cons] at he
      rcases he with rfl | he
      · exact hr
      · exact this.2 e he

/-- A thread between its tail-CAS and its publication returns `true` in every run at the
end of which nobody is between a tail-CAS and its publication. -/
theorem owner_push_returns {c : Cfg} (g : Ghost c) {s : State} (hI : Inv c s) {i : Nat} {th : Thread}
    (hth : s.threads[i]? = some th) {p : Nat} (hat : pushAt p th.pc = true) (σ : List Nat)
    (hdone : ∀ p, cW (run c s σ).1.threads p = 0) :
    ∃ e ∈ (run c s σ).2, e.tid = i ∧ e.ret = some (.push true) := by
  induction σ generalizing s th p with
  | nil =>
    exfalso
    have := countP_pos_of_getElem (p := fun (t : Thread) => pushAt p t.pc) hth hat
    have h0 := hdone p
    simp only [run, cW] at h0
    omega
  | cons j σ ih =>
    simp only [run] at hdone ⊢
    by_cases e : j = i
    · subst e
      cases hpc : th.pc with
      | pushWrite v pos seq =>
        obtain ⟨sl, hsl⟩ := slot_exists g hI pos
        have hilt := getElem?_lt hth
        have hnext : (step c s j).1.threads[j]? = some { th with pc := .pushStore pos seq } := by
          simp only [step, hth, hpc, hsl, State.setPc]
          exact List.getElem?_set_self hilt
        obtain ⟨e, he, h1, h2⟩ := ih (inv_step g hI j) hnext (p := pos) (by simp [pushAt]) hdone
        exact ⟨e, by simp [he], h1, h2⟩
      | pushStore pos seq =>
        refine ⟨(step c s j).2, by simp, ?_, push_returns_true g hI hth hpc⟩
        obtain ⟨sl, hsl⟩ := slot_exists g hI pos
        simp only [step, hth, hpc, hsl]
      | _ => simp [hpc, pushAt] at hat
    · have hnext : (step c s j).1.threads[i]? = some th := by
        rw [step_threads_other c s (fun e' => e e'.symm)]; exact hth
      obtain ⟨e, he, h1, h2⟩ := ih (inv_step g hI j) hnext hat hdone
      exact ⟨e, by simp [he], h1, h2⟩

/-- complete runs of pushers: if any call returned and nobody is left between CAS and
store, some `Push` returned true -/
theorem pushers_some_true {c : Cfg} (g : Ghost c) {P : Nat → Prop} {T : Nat} {s : State}
    (hI : Inv c s) (h : PreP c P T s) (σ : List Nat) (hσ : ∀ i ∈ σ, P i)
    (hdone : ∀ p, cW (run c s σ).1.threads p = 0)
    (hret : ∃ e ∈ (run c s σ).2, e.ret ≠ none) :
    ∃ e ∈ (run c s σ).2, e.ret = some (.push true) := by
  induction σ generalizing s with
  | nil => obtain ⟨e, he, _⟩ := hret; simp [run] at he
  | cons j σ ih =>
    simp only [run] at hdone hret ⊢
    rcases prePush_step g h (hσ j (by simp)) with ⟨th, v, seq, _, _, _, hnext⟩ | ⟨h1, hr, _⟩
    · obtain ⟨e, he, _, h2⟩ := owner_push_returns g (inv_step g hI j) hnext (p := T)
        (by simp [pushAt]) σ hdone
      exact ⟨e, by simp [he], h2⟩
    · have hret' : ∃ e ∈ (run c (step c s j).1 σ).2, e.ret ≠ none := by
        obtain ⟨e, he, hne⟩ := hret
        simp only [List.mem_cons] at he
        rcases he with rfl | he
        · exact absurd hr hne
        · exact ⟨e, he, hne⟩
      obtain ⟨e, he, h2⟩ := ih (inv_step g hI j) h1 (fun i hi => hσ i (by simp [hi])) hdone hret'
      exact ⟨e, by simp [he], h2⟩

/-! ### poppers -/

def PrePop (H : Nat) : Pc → Prop
  | .idle => True
  | .popLoadHead => True
  | .popLoadSeq pos => pos = H
  | .popCAS pos _ => pos = H
  | _ => False

structure PreQ (c : Cfg) (P : Nat → Prop) (H : Nat) (s : State) : Prop where
  head : s.head = H
  slot : sq s.slots (H % c.cap) = some (H + 1)
  pcs : ∀ i th, P i → s.threads[i]? = some th → PrePop H th.pc

theorem preQ_set {c : Cfg} {P : Nat → Prop} {H : Nat} {s : State} (h : PreQ c P H s) {i : Nat}
    {th' : Thread} (hown : PrePop H th'.pc) :
    PreQ c P H { s with threads := s.threads.set i th' } := by
  refine ⟨h.head, h.slot, ?_⟩
  intro j b hj hb
  simp only at hb
  by_cases e : j = i
  · subst e
    rw [List.getElem?_set] at hb
    simp only [if_true] at hb
    split at hb
    · obtain rfl := Option.some.inj hb; exact hown
    · simp at hb
  · rw [List.getElem?_set_ne (fun e' => e e'.symm)] at hb
    exact h.pcs j b hj hb

theorem prePop_step {c : Cfg} (g : Ghost c) {P : Nat → Prop} {H : Nat} {s : State}
    (h : PreQ c P H s) {i : Nat} (hi : P i) :
    (∃ th seq, s.threads[i]? = some th ∧ th.pc = .popCAS H seq ∧
        (step c s i).2 = ⟨i, .casHead H (H + 1) true, none⟩ ∧
        (step c s i).1.threads[i]? = some { th with pc := .popRead H seq }) ∨
    (PreQ c P H (step c s i).1 ∧ (step c s i).2.ret = none ∧
      ∀ o n ok, (step c s i).2.acc ≠ .casHead o n ok) := by
  unfold step
  cases hth : s.threads[i]? with
  | none => right; exact ⟨h, rfl, fun _ _ _ e => by simp at e⟩
  | some th =>
    have hpre := h.pcs i th hi hth
    have hilt := getElem?_lt hth
    simp only []
    cases hpc : th.pc with
    | idle => right; exact ⟨h, rfl, fun _ _ _ e => by simp at e⟩
    | popLoadHead =>
      right
      dsimp only
      exact ⟨preQ_set h (by simp only [PrePop]; exact h.head), rfl, fun _ _ _ e => by simp at e⟩
    | popLoadSeq pos =>
      right
      dsimp only
      simp only [hpc, PrePop] at hpre
      subst hpre
      obtain ⟨sl, hsl, hseq⟩ := sq_some h.slot
      rw [g.idx_mod, hsl]
      dsimp only
      rw [g.norm, if_neg (by simp [hseq])]
      exact ⟨preQ_set h (by simp only [PrePop]), rfl, fun _ _ _ e => by simp at e⟩
    | popCAS pos seq =>
      left
      dsimp only
      simp only [hpc, PrePop] at hpre
      subst hpre
      rw [if_pos h.head, g.norm]
      refine ⟨th, seq, rfl, hpc, rfl, ?_⟩
      simp only [State.setPc]
      exact List.getElem?_set_self hilt
    | _ => simp only [hpc, PrePop] at hpre

theorem preQ_of_quiescent {c : Cfg} (g : Ghost c) {s : State} (hI : Inv c s) (hq : Quiescent s)
    (hstored : 0 < s.tail - s.head) (P : Nat → Prop)
    (hP : ∀ i th, P i → s.threads[i]? = some th → th.pc = .idle ∨ th.pc = .popLoadHead) :
    PreQ c P s.head s := by
  refine ⟨rfl, (quiescent_slots g hI (quiescent_counts hq)).2 hstored, ?_⟩
  intro i th hi hth
  rcases hP i th hi hth with e | e <;> rw [e] <;> simp [PrePop]

theorem preQ_run {c : Cfg} (g : Ghost c) {P : Nat → Prop} {H : Nat} {s : State}
    (h : PreQ c P H s) (σ : List Nat) (hσ : ∀ i ∈ σ, P i)
    (hno : ∀ e ∈ (run c s σ).2, ∀ o n ok, e.acc ≠ .casHead o n ok) :
    PreQ c P H (run c s σ).1 ∧ ∀ e ∈ (run c s σ).2, e.ret = none := by
  induction σ generalizing s with
  | nil => exact ⟨h, fun e he => by simp [run] at he⟩
  | cons j σ ih =>
    simp only [run] at hno ⊢
    rcases prePop_step g h (hσ j (by simp)) with ⟨th, seq, _, _, hev, _⟩ | ⟨h1, hr, _⟩
    · exfalso
      exact hno (step c s j).2 (by simp) H (H + 1) true (by rw [hev])
    · have := ih h1 (fun i hi => hσ i (by simp [hi])) (fun e he => hno e (by simp [he]))
      refine ⟨this.1, ?_⟩
      intro e he
      simp only [List.mem_cons] at he
      rcases he with rfl | he
      · exact hr
      · exact this.2 e he

theorem owner_pop_returns {c : Cfg} (g : Ghost c) {s : State} (hI : Inv c s) {i : Nat} {th : Thread}
    (hth : s.threads[i]? = some th) {p : Nat} (hat : popAt p th.pc = true) (σ : List Nat)
    (hdone : ∀ p, cR (run c s σ).1.threads p = 0) :
    ∃ e ∈ (run c s σ).2, e.tid = i ∧ ∃ v, e.ret = some (.pop v true) := by
  induction σ generalizing s th p with
  | nil =>
    exfalso
    have := countP_pos_of_getElem (p := fun (t : Thread) => popAt p t.pc) hth hat
    have h0 := hdone p
    simp only [run, cR] at h0
    omega
  | cons j σ ih =>
    simp only [run] at hdone ⊢
    by_cases e : j = i
    · subst e
      have hilt := getElem?_lt hth
      cases hpc : th.pc with
      | popRead pos seq =>
        obtain ⟨sl, hsl⟩ := slot_exists g hI pos
        have hnext : (step c s j).1.threads[j]? = some { th with pc := .popClear pos seq sl.val } := by
          simp only [step, hth, hpc, hsl, State.setPc]
          exact List.getElem?_set_self hilt
        obtain ⟨e, he, h1, h2⟩ := ih (inv_step g hI j) hnext (p := pos) (by simp [popAt]) hdone
        exact ⟨e, by simp [he], h1, h2⟩
      | popClear pos seq v =>
        obtain ⟨sl, hsl⟩ := slot_exists g hI pos
        have hnext : (step c s j).1.threads[j]? = some { th with pc := .popStore pos seq v } := by
          simp only [step, hth, hpc, hsl, State.setPc]
          exact List.getElem?_set_self hilt
        obtain ⟨e, he, h1, h2⟩ := ih (inv_step g hI j) hnext (p := pos) (by simp [popAt]) hdone
        exact ⟨e, by simp [he], h1, h2⟩
      | popStore pos seq v =>
        obtain ⟨sl, hsl⟩ := slot_exists g hI pos
        refine ⟨(step c s j).2, by simp, ?_, v, ?_⟩ <;> simp only [step, hth, hpc, hsl]
      | _ => simp [hpc, popAt] at hat
    · have hnext : (step c s j).1.threads[i]? = some th := by
        rw [step_threads_other c s (fun e' => e e'.symm)]; exact hth
      obtain ⟨e, he, h1, h2⟩ := ih (inv_step g hI j) hnext hat hdone
      exact ⟨e, by simp [he], h1, h2⟩

theorem poppers_some_true {c : Cfg} (g : Ghost c) {P : Nat → Prop} {H : Nat} {s : State}
    (hI : Inv c s) (h : PreQ c P H s) (σ : List Nat) (hσ : ∀ i ∈ σ, P i)
    (hdone : ∀ p, cR (run c s σ).1.threads p = 0)
    (hret : ∃ e ∈ (run c s σ).2, e.ret ≠ none) :
    ∃ e ∈ (run c s σ).2, ∃ v, e.ret = some (.pop v true) := by
  induction σ generalizing s with
  | nil => obtain ⟨e, he, _⟩ := hret; simp [run] at he
  | cons j σ ih =>
    simp only [run] at hdone hret ⊢
    rcases prePop_step g h (hσ j (by simp)) with ⟨th, seq, _, _, _, hnext⟩ | ⟨h1, hr, _⟩
    · obtain ⟨e, he, _, h2⟩ := owner_pop_returns g (inv_step g hI j) hnext (p := H)
        (by simp [popAt]) σ hdone
      exact ⟨e, by simp [he], h2⟩
    · have hret' : ∃ e ∈ (run c (step c s j).1 σ).2, e.ret ≠ none := by
        obtain ⟨e, he, hne⟩ := hret
        simp only [List.mem_cons] at he
        rcases he with rfl | he
        · exact absurd hr hne
        · exact ⟨e, he, hne⟩
      obtain ⟨e, he, h2⟩ := ih (inv_step g hI j) h1 (fun i hi => hσ i (by simp [hi])) hdone hret'
      exact ⟨e, by simp [he], h2⟩

theorem run_append (c : Cfg) (s : State) (σ1 σ2 : List Nat) :
    run c s (σ1 ++ σ2) = ((run c (run c s σ1).1 σ2).1, (run c s σ1).2 ++ (run c (run c s σ1).1 σ2).2) := by
  induction σ1 generalizing s with
  | nil => simp [run]
  | cons i σ ih => simp only [List.cons_append, run, ih]

end Golib.C01
