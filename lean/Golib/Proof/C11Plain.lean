/-
C11 — plain accesses, over the whole run: all plain (non-atomic) accesses to the `value` of a
given node that ever happen in a run are made by ONE thread (the popper whose head CAS made
that node the head).  Together with `c11_race_free` (state level) this is data-race freedom at
the granularity of the code's plain accesses: two accesses to the same location by different
threads never occur at all after the node is published; the creator's initialising write is
ordered before everything else by the link CAS.
-/
import Golib.Proof.C11Hist

namespace Golib.C11

/-- node whose `value` the access reads or writes plainly -/
def Acc.touches : Acc → Option Nat
  | .rdVal n _ => some n
  | .wrVal n => some n
  | _ => Option.none

def Touched (es : List Event) (i n : Nat) : Prop := ∃ e ∈ es, e.tid = i ∧ e.acc.touches = some n

theorem touched_append {es : List Event} {e : Event} {i n : Nat} :
    Touched (es ++ [e]) i n ↔ Touched es i n ∨ (e.tid = i ∧ e.acc.touches = some n) := by
  constructor
  · rintro ⟨a, ha, h⟩
    rcases List.mem_append.mp ha with h1 | h1
    · exact Or.inl ⟨a, h1, h⟩
    · simp only [List.mem_singleton] at h1; subst h1; exact Or.inr h
  · rintro (⟨a, ha, h⟩ | h)
    · exact ⟨a, List.mem_append_left _ ha, h⟩
    · exact ⟨e, List.mem_append_right _ (List.mem_singleton.mpr rfl), h⟩

structure PInv (s : State) (es : List Event) : Prop where
  uniq : ∀ n i j, Touched es i n → Touched es j n → i = j
  pend : ∀ n i j th, Touched es i n → s.threads[j]? = some th → plainNode th.pc = some n → j = i
  below : ∀ n i, Touched es i n → n ≤ s.head

/-- a step that touches node `n` is a step of a thread whose pc is a plain access to `n` -/
theorem touch_step {s : State} {x n : Nat} (h : (step .addThenStore s x).2.acc.touches = some n) :
    ∃ th, s.threads[x]? = some th ∧ plainNode th.pc = some n := by
  unfold step at h
  cases hth : s.threads[x]? with
  | none => rw [hth] at h; simp [Acc.touches] at h
  | some th =>
    rw [hth] at h
    dsimp only at h
    refine ⟨th, rfl, ?_⟩
    cases hpc : th.pc <;> rw [hpc] at h <;> dsimp only at h <;>
      (try unfold State.popFail at h) <;> (try (repeat' split at h)) <;>
      simp_all [Acc.touches, plainNode]

theorem plainNode_finish (th : Thread) : plainNode th.finish.pc = none := by
  rcases finish_pc_cases th with h | ⟨v, h⟩ | h | h <;> rw [h] <;> rfl

syntax "no_plain" : tactic
set_option hygiene false in
macro_rules
  | `(tactic| no_plain) => `(tactic|
      (simp only [State.setPc, State.fin, List.getElem?_set_self hlt, Option.some.injEq] at h
       subst h
       first
         | (rw [plainNode_finish] at hp; exact absurd hp (by simp))
         | (simp [plainNode] at hp)))

/-- a plain access pending after a step was pending before, or was created by this step's
head CAS and concerns the node after the old head -/
theorem plain_after {s : State} (hI : Inv s) {x j n : Nat} {th' : Thread}
    (h : (step .addThenStore s x).1.threads[j]? = some th') (hp : plainNode th'.pc = some n) :
    (∃ th, s.threads[j]? = some th ∧ plainNode th.pc = some n) ∨ (j = x ∧ n = s.head + 1) := by
  by_cases e : j = x
  · subst e
    unfold step at h
    cases hth : s.threads[j]? with
    | none => rw [hth] at h; dsimp only at h; rw [hth] at h; simp at h
    | some th =>
      have hloc := hI.locals th (List.mem_of_getElem? hth)
      have hlt : j < s.threads.length := by
        by_cases hlt : j < s.threads.length
        · exact hlt
        · rw [List.getElem?_eq_none (Nat.le_of_not_lt hlt)] at hth; simp at hth
      have hfail : ∀ acc, (s.popFail j th acc).1.threads[j]? = some th' → False := by
        intro acc h
        unfold State.popFail at h
        split at h
        · no_plain
        · split at h
          · simp only [List.getElem?_set_self hlt, Option.some.injEq] at h
            subst h; simp [plainNode] at hp
          · no_plain
      rw [hth] at h
      dsimp only at h
      cases hpc : th.pc with
      | idle => rw [hpc] at h; dsimp only at h; rw [hth] at h; obtain rfl := Option.some.inj h; rw [hpc] at hp; simp [plainNode] at hp
      | pushLoadTail v => rw [hpc] at h; dsimp only at h; no_plain
      | pushLoadNext v t => rw [hpc] at h; dsimp only at h; split at h <;> no_plain
      | pushCAS v t => rw [hpc] at h; dsimp only at h; split at h <;> no_plain
      | pushAdd v m => rw [hpc] at h; dsimp only at h; no_plain
      | pushStore v m => rw [hpc] at h; dsimp only at h; no_plain
      | pushYield v => rw [hpc] at h; dsimp only at h; no_plain
      | popLoadHead => rw [hpc] at h; dsimp only at h; no_plain
      | popLoadTail hh =>
        rw [hpc] at h; dsimp only at h
        split at h
        · exact (hfail _ h).elim
        · no_plain
      | popLoadNext hh => rw [hpc] at h; dsimp only at h; no_plain
      | popCAS hh nn =>
        rw [hpc] at h hloc
        simp only [PcOk] at hloc
        obtain ⟨_, _, rfl⟩ := hloc
        dsimp only at h
        by_cases hc : s.head = hh
        · simp only [if_pos hc, State.setPc, List.getElem?_set_self hlt, Option.some.injEq] at h
          subst h
          simp only [plainNode, Option.some.injEq] at hp
          right; exact ⟨rfl, by omega⟩
        · simp only [if_neg hc] at h
          exact (hfail _ h).elim
      | popRead m =>
        left
        refine ⟨th, rfl, ?_⟩
        rw [hpc] at h; dsimp only at h
        split at h
        · simp only [State.setPc, List.getElem?_set_self hlt, Option.some.injEq] at h
          subst h
          simp only [plainNode, Option.some.injEq] at hp
          rw [hpc]; simp [plainNode, hp]
        · simp only [State.setPc, List.getElem?_set_self hlt, Option.some.injEq] at h
          subst h; simp [plainNode] at hp
      | popClear m v => rw [hpc] at h; dsimp only at h; no_plain
      | popAdd v => rw [hpc] at h; dsimp only at h; no_plain
      | popYield => rw [hpc] at h; dsimp only at h; no_plain
      | popTick => rw [hpc] at h; dsimp only at h; no_plain
      | lenLoad => rw [hpc] at h; dsimp only at h; no_plain
  · left
    rw [step_threads_ne s e] at h
    exact ⟨th', h, hp⟩

theorem pinv_step {s : State} {g : Ghost} (hG : GInv s g) {es : List Event} (hP : PInv s es)
    (x : Nat) : PInv (step .addThenStore s x).1 (es ++ [(step .addThenStore s x).2]) := by
  have hI := hG.inv
  have hhead : s.head ≤ (step .addThenStore s x).1.head := by rw [head_step hI x]; omega
  have htid : (step .addThenStore s x).2.tid = x := by
    unfold step
    cases s.threads[x]? with
    | none => rfl
    | some th =>
      dsimp only
      cases th.pc <;> (try dsimp only) <;> (try unfold State.popFail) <;> (repeat' split) <;> rfl
  have hbel : ∀ {j n : Nat} {th : Thread}, s.threads[j]? = some th → plainNode th.pc = some n → n ≤ s.head := by
    intro j n th hj hp
    have hloc := hI.locals th (List.mem_of_getElem? hj)
    cases hpc : th.pc <;> rw [hpc] at hp hloc <;>
      simp only [plainNode, reduceCtorEq, Option.some.injEq] at hp <;>
      simp only [PcOk] at hloc <;> omega
  have hown : ∀ {a b n : Nat} {tha thb : Thread}, s.threads[a]? = some tha → s.threads[b]? = some thb →
      plainNode tha.pc = some n → plainNode thb.pc = some n → a = b := by
    intro a b n tha thb ha hb hpa hpb
    by_cases e : a = b
    · exact e
    · exact (no_conflict hG e ha hb hpa hpb).elim
  refine ⟨?_, ?_, ?_⟩
  · intro n i j hi hj
    rcases touched_append.mp hi with hi | ⟨hi1, hi2⟩ <;> rcases touched_append.mp hj with hj | ⟨hj1, hj2⟩
    · exact hP.uniq n i j hi hj
    · obtain ⟨th, hth, hp⟩ := touch_step hj2
      rw [htid] at hj1; subst hj1
      exact (hP.pend n i _ th hi hth hp).symm
    · obtain ⟨th, hth, hp⟩ := touch_step hi2
      rw [htid] at hi1; subst hi1
      exact hP.pend n j _ th hj hth hp
    · rw [← hi1, ← hj1]
  · intro n i j th' hi hj hp
    rcases plain_after hI hj hp with ⟨th, hth, hpo⟩ | ⟨rfl, hn⟩
    · rcases touched_append.mp hi with hi | ⟨hi1, hi2⟩
      · exact hP.pend n i j th hi hth hpo
      · obtain ⟨thx, hthx, hpx⟩ := touch_step hi2
        rw [htid] at hi1; subst hi1
        exact hown hth hthx hpo hpx
    · exfalso
      rcases touched_append.mp hi with hi | ⟨hi1, hi2⟩
      · have := hP.below n i hi; omega
      · obtain ⟨thx, hthx, hpx⟩ := touch_step hi2
        have := hbel hthx hpx; omega
  · intro n i hi
    rcases touched_append.mp hi with hi | ⟨hi1, hi2⟩
    · have := hP.below n i hi; omega
    · obtain ⟨thx, hthx, hpx⟩ := touch_step hi2
      have := hbel hthx hpx; omega

theorem pinv_run {s : State} {g : Ghost} (hG : GInv s g) {es : List Event} (hP : PInv s es)
    (σ : List Nat) : PInv (run .addThenStore s σ).1 (es ++ (run .addThenStore s σ).2) := by
  induction σ generalizing s g es with
  | nil => simpa [run] using hP
  | cons x σ ih =>
    have := ih (ginv_step hG x) (pinv_step hG hP x)
    simpa [run, List.append_assoc] using this

/-- All plain accesses to the value of one node, over a whole run, are by one thread. -/
theorem plain_exclusive (vals : List Int) (progs : List (List Call)) (σ : List Nat)
    (e1 e2 : Event) (n : Nat)
    (h1 : e1 ∈ (run .addThenStore (init vals progs) σ).2)
    (h2 : e2 ∈ (run .addThenStore (init vals progs) σ).2)
    (t1 : e1.acc.touches = some n) (t2 : e2.acc.touches = some n) : e1.tid = e2.tid := by
  have h0 : PInv (init vals progs) [] :=
    ⟨fun n i j ⟨_, h, _⟩ => by simp at h, fun n i j th ⟨_, h, _⟩ => by simp at h,
     fun n i ⟨_, h, _⟩ => by simp at h⟩
  have := pinv_run (ginv_init vals progs) h0 σ
  simp only [List.nil_append] at this
  exact this.uniq n _ _ ⟨e1, h1, rfl, t1⟩ ⟨e2, h2, rfl, t2⟩

end Golib.C11
