import Golib.Model.C18
/-
The C18 graph driver looks adjacency up in per-vertex lists (`adjLists`) instead of scanning the
arc list; this file proves that the two answer the same, so the relation `nb` handed to the
model `bk` / `maximalCliques` by the driver is exactly "the arc `(v, u)` was parsed".
-/
namespace Golib.C18

theorem adjLists_fold (n : Nat) : ∀ (edges : List (Nat × Nat)) (a : Array (List Nat)) (v u : Nat),
    a.size = n → v < n →
    ((edges.foldl (fun a e => a.modify e.1 (fun l => e.2 :: l)) a).getD v []).contains u =
      (edges.contains (v, u) || (a.getD v []).contains u)
  | [], a, v, u, _, _ => by simp
  | e :: es, a, v, u, hs, hv => by
    rw [List.foldl_cons, adjLists_fold n es _ v u (by simp [hs]) hv]
    obtain ⟨x, y⟩ := e
    by_cases h : x = v
    · subst h
      have h1 : (a.modify x (fun l => y :: l)).getD x [] = y :: a.getD x [] := by
        simp [Array.getD, Array.getElem_modify, hs, hv]
      rw [h1]
      by_cases h2 : y = u
      · subst h2; simp
      · have h3 : ((x, u) == (x, y)) = false := by
          rw [beq_eq_false_iff_ne]; intro hh; exact h2 (Prod.mk.inj hh).2.symm
        have h4 : (u == y) = false := by
          rw [beq_eq_false_iff_ne]; exact fun hh => h2 hh.symm
        simp only [List.contains_cons, h3, h4, Bool.false_or]
    · have h1 : (a.modify x (fun l => y :: l)).getD v [] = a.getD v [] := by
        simp [Array.getD, Array.getElem_modify, hs, hv, h]
      have h3 : ((v, u) == (x, y)) = false := by
        rw [beq_eq_false_iff_ne]; intro hh; exact h (Prod.mk.inj hh).1.symm
      rw [h1]
      simp only [List.contains_cons, h3, Bool.false_or]

/-- The adjacency lists the driver builds answer exactly `edges.contains (v, u)`. -/
theorem adjLists_contains (n : Nat) (edges : List (Nat × Nat)) (v u : Nat) (hv : v < n) :
    ((adjLists n edges).getD v []).contains u = edges.contains (v, u) := by
  unfold adjLists
  rw [adjLists_fold n edges _ v u (by simp) hv]
  simp [Array.getD, hv]
end Golib.C18
