/-
C20: the string `Generate` returns is `string(runes)` for runes taken from
`[]rune(charSet)`; those are valid scalar values (an invalid byte of the character set
became U+FFFD), hence the string decodes back to exactly those runes.
Uses the shared facts about the UTF-8 prelude (`Golib/Proof/C17Utf8.lean`,
`Golib/Proof/C17Utf8Valid.lean`, proved for C17).
-/
import Golib.Proof.C17Utf8Valid

namespace Golib.Utf8

theorem validRune_runeError : validRune runeError = true := by decide

theorem decodeRune_validRune (b : Nat) (rest : List Nat) :
    validRune (decodeRune (b :: rest)).1 = true := by
  by_cases hok : (decodeRune (b :: rest)).1 = runeError ∧ (decodeRune (b :: rest)).2 = 1
  · rw [hok.1]; exact validRune_runeError
  · exact (decodeRune_ok b rest _ _ rfl hok).1

theorem rangeDecode_go_validRune :
    ∀ (fuel off : Nat) (bs : List Nat), ∀ x ∈ rangeDecode.go fuel off bs, validRune x.2.1 = true := by
  intro fuel
  induction fuel with
  | zero => intro off bs x hx; simp [rangeDecode.go] at hx
  | succ fuel ih =>
    intro off bs x hx
    cases bs with
    | nil => simp [rangeDecode.go] at hx
    | cons b rest =>
      simp only [rangeDecode.go, List.mem_cons] at hx
      rcases hx with rfl | hx
      · exact decodeRune_validRune b rest
      · exact ih _ _ x hx

/-- every rune of `[]rune(s)` is a valid scalar value -/
theorem runes_validRune (bs : List Nat) : ∀ r ∈ runes bs, validRune r = true := by
  intro r hr
  simp only [runes, List.mem_map] at hr
  obtain ⟨x, hx, rfl⟩ := hr
  exact rangeDecode_go_validRune _ _ _ x hx

end Golib.Utf8
