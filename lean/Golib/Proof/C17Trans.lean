/-
C17 — tie between the definitions `go2lean` regenerates from `strz/strs.go` on every run
(`Golib/Gen/TransC17.lean`) and the hand-written model `Golib/Model/C17Strs.lean`.

Representation: the model uses `List Nat` strings (bytes `< 256`), `Int` runes and `Nat` cursors;
the translation uses `List (BitVec 8)`, `BitVec 32` runes and `Int` cursors.  The abstraction is
`GoSem.strNat = List.map BitVec.toNat` (inverse on the image: `GoSem.natStr`), stated in every tie.
The UTF-8 functions of the translation are the SAME `Golib.Utf8` functions the model uses, reached
through the `GoSem` wrappers.

Shape of a tie: `∃ r, model (strNat s) args = some r ∧ Gen.f s args = .ok (natStr r)` — the model
does not panic, the translation neither panics nor runs out of fuel, and the bytes agree.
-/
import Golib.Gen.TransC17
import Golib.Proof.C17Strs
import Golib.Proof.C17Loops

namespace Golib.C17.Tie
open Golib.GoSem Golib.Utf8 Golib.C17

theorem natStr_strNat (s : List (BitVec 8)) : natStr (strNat s) = s := by
  induction s with
  | nil => rfl
  | cons b t ih =>
    simp only [natStr, strNat, List.map_cons, List.map_map] at ih ⊢
    rw [ih]; simp

theorem strNat_length (s : List (BitVec 8)) : (strNat s).length = s.length := by simp [strNat]

theorem strNat_drop (s : List (BitVec 8)) (i : Nat) : (strNat s).drop i = strNat (s.drop i) := by
  simp [strNat, List.map_drop]

theorem strNat_take (s : List (BitVec 8)) (i : Nat) : (strNat s).take i = strNat (s.take i) := by
  simp [strNat, List.map_take]

theorem strNat_getElem? (s : List (BitVec 8)) (i : Nat) :
    (strNat s)[i]? = (s[i]?).map BitVec.toNat := by simp [strNat]

theorem strNat_eq_nil (s : List (BitVec 8)) : strNat s = [] ↔ s = [] := by
  cases s <;> simp [strNat]

theorem natStr_append (a b : List Nat) : natStr (a ++ b) = natStr a ++ natStr b := by
  simp [natStr]

theorem byte_lt_128 (b : BitVec 8) : (b < 128#8) = (b.toNat < 0x80) := by
  simp [BitVec.lt_def]

/-- `s[i:]` of the translation at a cursor inside the string. -/
theorem slice_from (s : List (BitVec 8)) (i : Nat) (h : i ≤ s.length) :
    GoSem.slice s (i : Int) (Int.ofNat s.length) = .ok (s.drop i) := by
  have e := slice_natCast s i s.length
  simp only [Int.ofNat_eq_natCast] at e ⊢
  have : ¬ (s.length < i ∨ s.length < s.length) := by omega
  rw [e, if_neg this, List.take_length]

/-- `s[a:b]` of the translation for cursors in order. -/
theorem slice_mid (s : List (BitVec 8)) (a b : Nat) (h : a ≤ b) (hb : b ≤ s.length) :
    GoSem.slice s (a : Int) (b : Int) = .ok ((s.take b).drop a) := by
  rw [slice_natCast]
  have : ¬ (b < a ∨ s.length < b) := by omega
  simp [this]

/-! ### Len -/

theorem trans_Len (s : List (BitVec 8)) :
    Golib.Gen.Trans.C17.Len s = .ok ((Golib.C17.len (strNat s) : Nat) : Int) := by
  simp [Golib.Gen.Trans.C17.Len, Golib.C17.len, utf8RuneCount]

/-! ### Sub -/

/-- what `Sub` does after its loop (`.ret` = the loop returned). -/
def subPost (s : List (BitVec 8)) : Flow (List (BitVec 8)) (Int × Int × Int) → Res (List (BitVec 8))
  | .ret r => .ok r
  | .done (begin, _, _) =>
    if begin < 0 then .ok [] else GoSem.slice s begin (Int.ofNat s.length)

/-- the cursor step of the byte loops, as the translation writes it. -/
theorem step_eq (s : List (BitVec 8)) (i : Nat) (h : i < s.length) :
    ∃ i' : Nat, advance (strNat s) i = some i' ∧ i < i' ∧
      GoSem.idx s (i : Int) = .ok s[i] ∧
      (if s[i] < 128#8 then (i : Int) + 1
        else (i : Int) + (GoSem.utf8DecodeRune (s.drop i)).2) = (i' : Int) := by
  have hi : (strNat s)[i]? = some s[i].toNat := by simp [strNat_getElem?, h]
  refine ⟨if s[i].toNat < 0x80 then i + 1 else i + (decodeRune ((strNat s).drop i)).2, ?_, ?_, ?_, ?_⟩
  · have hl : i ≤ (strNat s).length := by rw [strNat_length]; omega
    simp only [advance, hi, sliceFrom, hl, if_true]
    split <;> rfl
  · split
    · omega
    · have := decode_drop_bounds (strNat s) i (by rw [strNat_length]; exact h)
      omega
  · exact idx_ofNat s i h
  · simp only [byte_lt_128]
    split
    · simp
    · simp [utf8DecodeRune, strNat_drop]

theorem sub_loop (s : List (BitVec 8)) (start length : Int) :
    ∀ (fuel i count : Nat) (begin : Int) (r : List Nat), i ≤ s.length →
      (0 ≤ begin → begin.toNat ≤ i) →
      subLoop (strNat s) start length fuel i count begin = some r →
      (Golib.Gen.Trans.C17.Sub_loop1 fuel s start length begin count i >>= subPost s) = .ok (natStr r) := by
  intro fuel
  induction fuel with
  | zero => intro i count begin r _ _ h; simp [subLoop] at h
  | succ fuel ih =>
    intro i count begin r hil hb h
    rw [subLoop, strNat_length] at h
    rw [Golib.Gen.Trans.C17.Sub_loop1]
    by_cases hi : i < s.length
    · have hi' : ((i : Int) < Int.ofNat s.length) := by simp; omega
      obtain ⟨i', ha, hlt, hidx, hstep⟩ := step_eq s i hi
      have hsl : GoSem.slice s (i : Int) ((s.length : Nat) : Int) = .ok (s.drop i) := slice_from s i hil
      simp only [hi, if_true, ha] at h
      have hi'l : i' ≤ s.length := by
        have := advance_lt (strNat s) i (by rw [strNat_length]; exact hi)
        obtain ⟨j, hj, _, hjl⟩ := this
        rw [ha] at hj; injection hj with hj; subst hj; rw [strNat_length] at hjl; exact hjl
      -- the inlined cursor step: both arms land on `i'`
      have hadv : (if s[i] < 128#8 then (Res.ok ((i : Int) + 1) : Res Int)
            else Res.ok ((i : Int) + (GoSem.utf8DecodeRune (s.drop i)).2)) = Res.ok (i' : Int) := by
        rw [← hstep]; split <;> rfl
      by_cases hc : (count : Int) = start
      · simp only [hc, if_true] at h
        by_cases hl : length = -1
        · simp only [hl, if_true, sliceFrom, strNat_length, hil] at h
          injection h with h; subst h
          simp [hi, hsl, hc, hl, subPost, strNat_drop, natStr_strNat]
        · simp only [hl, if_false] at h
          have := ih i' (count + 1) i r hi'l (by intro _; simp; omega) h
          rw [← this]
          simp [hi, hc, hl, hidx, hsl, hadv]
      · simp only [hc, if_false] at h
        have hc' : ((count : Int) == start) = false := by simp [hc]
        by_cases hr : 0 ≤ begin ∧ start + length = count
        · simp only [hr, and_self, if_true, sliceI, slice, strNat_length] at h
          have hb1 := hb hr.1
          have hbi : begin.toNat ≤ i ∧ i ≤ s.length := ⟨hb1, hil⟩
          simp only [hbi, and_self, if_true] at h
          injection h with h; subst h
          have hsm := slice_mid s begin.toNat i hb1 hil
          rw [Int.toNat_of_nonneg hr.1] at hsm
          have e1 : (start + length == (count : Int)) = true := by simp [hr.2]
          have e2 : ((count : Int) == start + length) = true := by simp [hr.2]
          simp [hi, hc', hr.1, e1, e2, hsm, subPost, strNat_drop, strNat_take, natStr_strNat,
            List.drop_take]
        · simp only [hr, if_false] at h
          have := ih i' (count + 1) begin r hi'l (by intro hb0; have := hb hb0; omega) h
          rw [← this]
          have hr' : (decide (begin ≥ 0) && (start + length == (count : Int))) = false := by
            simp only [Bool.and_eq_false_iff, decide_eq_false_iff_not, beq_eq_false_iff_ne]
            by_cases h0 : 0 ≤ begin
            · right; intro e; exact hr ⟨h0, e⟩
            · left; omega
          have hr'' : (decide (begin ≥ 0) && ((count : Int) == start + length)) = false := by
            rw [← hr']; congr 1; exact Bool.beq_comm
          simp [hi, hc', hr', hr'', hidx, hsl, hadv]
    · simp only [hi, if_false] at h
      by_cases hb0 : begin < 0
      · simp only [hb0, if_true] at h
        injection h with h; subst h
        simp [hi, subPost, hb0, natStr]
      · simp only [hb0, if_false, sliceFromI, sliceFrom, strNat_length] at h
        have hb1 := hb (by omega)
        have hbl : begin.toNat ≤ s.length := by omega
        have h0 : 0 ≤ begin := by omega
        simp only [h0, hbl, if_true] at h
        injection h with h; subst h
        have hsf : GoSem.slice s ((begin.toNat : Nat) : Int) ((s.length : Nat) : Int) = .ok (s.drop begin.toNat) :=
          slice_from s begin.toNat hbl
        rw [Int.toNat_of_nonneg h0] at hsf
        simp [hi, subPost, hb0, hsf, strNat_drop, natStr_strNat]

theorem trans_Sub (s : List (BitVec 8)) (start length : Int) :
    ∃ r, sub (strNat s) start length = some r ∧
      Golib.Gen.Trans.C17.Sub s start length = .ok (natStr r) := by
  obtain ⟨r, hr⟩ := sub_some (strNat s) start length
  refine ⟨r, hr, ?_⟩
  unfold sub at hr
  unfold Golib.Gen.Trans.C17.Sub
  by_cases h1 : start < 0 ∨ length < -1 ∨ strNat s = []
  · rw [if_pos h1] at hr
    injection hr with hr; subst hr
    have : ((decide (start < 0) || decide (length < -1)) || (s == ([] : List (BitVec 8)))) = true := by
      rcases h1 with h | h | h
      · simp [h]
      · simp [h]
      · simp [(strNat_eq_nil s).1 h]
    rw [if_pos this]; simp [natStr_strNat]
  · rw [if_neg h1] at hr
    have : ((decide (start < 0) || decide (length < -1)) || (s == ([] : List (BitVec 8)))) = false := by
      have hs : s ≠ [] := fun e => h1 (Or.inr (Or.inr ((strNat_eq_nil s).2 e)))
      have h2 : ¬ start < 0 := fun e => h1 (Or.inl e)
      have h3 : ¬ length < -1 := fun e => h1 (Or.inr (Or.inl e))
      simp [h2, h3, hs]
    simp only [this, Bool.false_eq_true, if_false]
    by_cases h0 : length = 0
    · simp only [h0, if_true] at hr
      injection hr with hr; subst hr
      simp [h0, natStr]
    · simp only [h0, if_false, strNat_length] at hr
      have hl := sub_loop s start length (s.length + 1) 0 0 (-1) r (by omega) (by omega) hr
      have h0' : (length == (0 : Int)) = false := by simp [h0]
      simp only [h0', Bool.false_eq_true, if_false]
      simp only [show ((0 : Nat) : Int) = 0 from rfl] at hl
      generalize Golib.Gen.Trans.C17.Sub_loop1 (s.length + 1) s start length (-1) 0 0 = x at hl ⊢
      cases x with
      | ok f =>
        cases f with
        | ret v => simpa [subPost] using hl
        | done st =>
          obtain ⟨b, c, i⟩ := st
          simp only [Res.bind_ok, subPost] at hl
          simp only [Res.bind_ok]
          split at hl
          · rename_i hneg; simpa [hneg] using hl
          · rename_i hneg
            have hl' : GoSem.slice s b ((s.length : Nat) : Int) = Res.ok (natStr r) := hl
            simp [hneg, hl']
      | panic => simp at hl
      | fuel => simp at hl

end Golib.C17.Tie
