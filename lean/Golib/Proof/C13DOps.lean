/-
C13 helper lemmas, part 3: the public methods of `DList` against the `container/list`
semantics written out on `List Nat` (node ids front to back).
-/
import Golib.Proof.C13DInv

set_option linter.unusedSimpArgs false
set_option linter.unusedVariables false

namespace Golib.C13

/-! ### the specification: `container/list` on a list of node ids -/

/-- insert `e` right after `m` (no-op if `m` does not occur) -/
def insAfter (e m : Nat) : List Nat → List Nat
  | [] => []
  | x :: xs => if x = m then x :: e :: xs else x :: insAfter e m xs

/-- insert `e` right before `m` (no-op if `m` does not occur) -/
def insBefore (e m : Nat) : List Nat → List Nat
  | [] => []
  | x :: xs => if x = m then e :: x :: xs else x :: insBefore e m xs

theorem insAfter_split (e m : Nat) (p q : List Nat) (h : m ∉ p) :
    insAfter e m (p ++ m :: q) = p ++ m :: e :: q := by
  induction p with
  | nil => simp [insAfter]
  | cons x xs ih =>
    simp only [List.mem_cons, not_or] at h
    simp [insAfter, Ne.symm h.1, ih h.2]

theorem insBefore_split (e m : Nat) (p q : List Nat) (h : m ∉ p) :
    insBefore e m (p ++ m :: q) = p ++ e :: m :: q := by
  induction p with
  | nil => simp [insBefore]
  | cons x xs ih =>
    simp only [List.mem_cons, not_or] at h
    simp [insBefore, Ne.symm h.1, ih h.2]

theorem erase_split (e : Nat) (p q : List Nat) (h : e ∉ p) : (p ++ e :: q).erase e = p ++ q := by
  induction p with
  | nil => simp
  | cons x xs ih =>
    simp only [List.mem_cons, not_or] at h
    simp [List.erase_cons, Ne.symm h.1, ih h.2]

/-- Splice after `a`, where `a` is the sentinel `l` or a node of `L`. -/
def insAfterC (l : Nat) (L : List Nat) (a e : Nat) : List Nat :=
  if a = l then e :: L else insAfter e a L

theorem split_of_mem {a : Nat} {L : List Nat} (h : a ∈ L) : ∃ p q, L = p ++ a :: q ∧ a ∉ p := by
  induction L with
  | nil => simp at h
  | cons x xs ih =>
    by_cases hx : x = a
    · exact ⟨[], xs, by simp [hx], by simp⟩
    · have : a ∈ xs := by simpa [Ne.symm hx] using h
      obtain ⟨p, q, e, hp⟩ := ih this
      exact ⟨x :: p, q, by simp [e], by simp [Ne.symm hx, hp]⟩

/-- Where `a` sits in the ring `l :: L`, and what splicing after it gives. -/
theorem ring_split {l a : Nat} {L : List Nat} (ha : a ∈ l :: L) (nd : (l :: L).Nodup) :
    ∃ pre post, l :: L = pre ++ a :: post ∧ ∀ e, l :: insAfterC l L a e = pre ++ a :: e :: post := by
  by_cases hal : a = l
  · subst hal
    exact ⟨[], L, rfl, fun e => by simp [insAfterC]⟩
  · have haL : a ∈ L := by simpa [hal] using ha
    obtain ⟨p, q, e1, hp⟩ := split_of_mem haL
    refine ⟨l :: p, q, by simp [e1], fun e => ?_⟩
    simp [insAfterC, hal, e1, insAfter_split e a p q hp]

/-! ### reading the ring -/

theorem ginv_ring_of_mem {s : DSt} {A : Nat → List Nat} {l x : Nat} (h : GInv s A) (hl : l < s.nl)
    (hx : x ∈ A l) : Ring s.next s.prev (l :: A l) := by
  rcases (h.lists l hl).ring with ⟨_, _, e⟩ | hr
  · rw [e] at hx; simp at hx
  · exact hr

theorem ring_next_root {nx pv : PM} {l : Nat} {L : List Nat} (h : Ring nx pv (l :: L)) :
    nx.get l = (L ++ [l]).head? := by
  have := (ring_links (pre := []) (x := l) (post := L) (by simpa using h)).1
  simpa using this

theorem ring_prev_root {nx pv : PM} {l : Nat} {L : List Nat} (h : Ring nx pv (l :: L)) :
    pv.get l = (l :: L).getLast? := by
  have := (ring_links (pre := []) (x := l) (post := L) (by simpa using h)).2
  simpa using this

/-! ### `lazyInit`, allocation -/

theorem lazyInit_spec {s : DSt} {A : Nat → List Nat} {l : Nat} (h : GInv s A) (hl : l < s.nl) :
    GInv (s.lazyInit l) A ∧ Ring (s.lazyInit l).next (s.lazyInit l).prev (l :: A l) ∧
      (s.lazyInit l).val = s.val ∧ (s.lazyInit l).fresh = s.fresh ∧ (s.lazyInit l).nl = s.nl ∧
      (s.lazyInit l).list = s.list := by
  have hI := h.lists l hl
  by_cases hz : s.next.get l = none
  · have hA : A l = [] := by
      rcases hI.ring with ⟨_, _, e⟩ | hr
      · exact e
      · have := ring_next_root hr; rw [hz] at this
        cases hL : A l <;> simp [hL] at this
    have hring : Ring (s.init l).next (s.init l).prev (l :: A l) := by
      rw [hA]; simp [Ring, Seg, DSt.init, PM.get_set]
    simp only [DSt.lazyInit, hz, if_true]
    refine ⟨?_, hring, rfl, rfl, rfl, rfl⟩
    have hupd : upd A l [] = A := by funext k; by_cases hk : k = l <;> simp [upd, hk, hA]
    rw [← hupd]
    refine ginv_frame h hl rfl rfl ?_ ?_ ?_ ?_ ⟨Or.inr (hA ▸ hring), by simp, ?_, ?_⟩ ?_ ?_ ?_
    · intro x hx _
      have : x ≠ l := fun hh => hx (by simp [hh])
      simp [DSt.init, PM.get_set, this]
    · intro x hx _
      have : x ≠ l := fun hh => hx (by simp [hh])
      simp [DSt.init, PM.get_set, this]
    · intro x _ _; rfl
    · intro k hk; simp [DSt.init, IM.get_set, hk]
    · intro n; have := hI.owner n; rw [hA] at this; simpa [DSt.init] using this
    · simp [DSt.init, IM.get_set]
    · intro x hx; simp at hx
    · intro x hx; simp at hx
    · intro x hx; rw [hA] at hx; simp at hx
  · have hr : Ring s.next s.prev (l :: A l) := by
      rcases hI.ring with ⟨e, _, _⟩ | hr
      · exact absurd e hz
      · exact hr
    have e : s.lazyInit l = s := by simp [DSt.lazyInit, hz]
    rw [e]; exact ⟨h, hr, rfl, rfl, rfl, rfl⟩

theorem alloc_spec {s : DSt} {A : Nat → List Nat} (v : Int) (h : GInv s A) :
    GInv (s.alloc v).1 A ∧ Detached (s.alloc v).1 s.fresh ∧ (s.alloc v).2 = s.fresh ∧
      (s.alloc v).1.next = s.next ∧ (s.alloc v).1.prev = s.prev ∧ (s.alloc v).1.nl = s.nl ∧
      (s.alloc v).1.fresh = s.fresh + 1 ∧ (s.alloc v).1.list = s.list := by
  refine ⟨⟨fun l hl => ?_, fun l hl x hx => ?_, ?_, h.clean, h.rootOwner, h.ownerRange, fun n hn => ?_⟩,
    ⟨h.freshOk, Nat.lt_succ_self _, h.unalloc _ (Nat.le_refl _)⟩, rfl, rfl, rfl, rfl, rfl, rfl⟩
  · have hI := h.lists l hl
    exact ⟨hI.ring, hI.nodup, hI.owner, hI.len⟩
  · have := h.nodes l hl x hx
    exact ⟨this.1, Nat.lt_succ_of_lt this.2⟩
  · exact Nat.le_succ_of_le h.freshOk
  · exact h.unalloc n (Nat.le_of_succ_le hn)

/-! ### splice after any ring member -/

theorem insert_after_mem {s : DSt} {A : Nat → List Nat} {l e a : Nat}
    (h : GInv s A) (hl : l < s.nl) (hr : Ring s.next s.prev (l :: A l))
    (ha : a ∈ l :: A l) (he : Detached s e) :
    ∃ s', s.insert l e (some a) = some s' ∧ GInv s' (upd A l (insAfterC l (A l) a e)) ∧
      s'.val = s.val ∧ s'.fresh = s.fresh ∧ s'.nl = s.nl := by
  obtain ⟨pre, post, h1, h2⟩ := ring_split ha (h.lists l hl).nodup
  obtain ⟨s', r1, r2, r3, r4, r5, _⟩ := insert_spec h hl hr h1 (h2 e) he
  exact ⟨s', r1, r2, r3, r4, r5⟩

theorem insertValue_after_mem {s : DSt} {A : Nat → List Nat} {l a : Nat} (v : Int)
    (h : GInv s A) (hl : l < s.nl) (hr : Ring s.next s.prev (l :: A l)) (ha : a ∈ l :: A l) :
    ∃ s', s.insertValue l v (some a) = some (s', s.fresh) ∧
      GInv s' (upd A l (insAfterC l (A l) a s.fresh)) ∧
      s'.fresh = s.fresh + 1 ∧ s'.nl = s.nl ∧ s'.val = s.val.set s.fresh v := by
  obtain ⟨g1, g2, g3, g4, g5, g6, g7, _⟩ := alloc_spec v h
  have hr' : Ring (s.alloc v).1.next (s.alloc v).1.prev (l :: A l) := by rw [g4, g5]; exact hr
  obtain ⟨s', r1, r2, r3, r4, r5⟩ := insert_after_mem g1 (g6 ▸ hl) hr' ha g2
  refine ⟨s', ?_, r2, by rw [r4, g7], by rw [r5, g6], ?_⟩
  · simp only [DSt.insertValue]
    have : s.alloc v = ((s.alloc v).1, s.fresh) := by rw [← g3]
    rw [this]; simp only [r1, Option.bind_eq_bind, Option.bind_some]; rfl
  · rw [r3]; rfl


/-! ### pure list facts about the ring `l :: L` -/

theorem eq_nil_or_snoc (L : List Nat) : L = [] ∨ ∃ L0 w, L = L0 ++ [w] := by
  rcases List.eq_nil_or_concat L with h | ⟨a, b, h⟩
  · exact Or.inl h
  · exact Or.inr ⟨a, b, by simpa using h⟩

theorem insAfterC_root (l : Nat) (L : List Nat) (e : Nat) : insAfterC l L l e = e :: L := by
  simp [insAfterC]

theorem insAfterC_node {l a : Nat} {L : List Nat} (e : Nat) (ha : a ∈ L) (nd : (l :: L).Nodup) :
    insAfterC l L a e = insAfter e a L := by
  have : a ≠ l := by intro hh; subst hh; simp at nd; exact nd.1 ha
  simp [insAfterC, this]

theorem insAfterC_last {l z : Nat} {L : List Nat} (e : Nat) (nd : (l :: L).Nodup)
    (hz : (l :: L).getLast? = some z) : insAfterC l L z e = L ++ [e] := by
  rcases eq_nil_or_snoc L with rfl | ⟨L0, w, rfl⟩
  · simp at hz; subst hz; simp [insAfterC]
  · have : w = z := by
      rw [show l :: (L0 ++ [w]) = (l :: L0) ++ [w] by simp, List.getLast?_append] at hz
      simpa using hz
    subst this
    have hw : w ∉ L0 := by
      simp [List.nodup_cons, List.nodup_append] at nd; grind
    have hwl : w ≠ l := by intro hh; subst hh; simp at nd
    simp [insAfterC, hwl]
    have := insAfter_split e w L0 [] hw
    simpa using this

theorem insAfterC_pred {l m z : Nat} {p q : List Nat} (e : Nat) (nd : (l :: (p ++ m :: q)).Nodup)
    (hz : (l :: p).getLast? = some z) : insAfterC l (p ++ m :: q) z e = insBefore e m (p ++ m :: q) := by
  have hm : m ∉ p := by simp [List.nodup_cons, List.nodup_append] at nd; grind
  rw [insBefore_split e m p q hm]
  rcases eq_nil_or_snoc p with rfl | ⟨p0, w, rfl⟩
  · simp at hz; subst hz; simp [insAfterC]
  · have : w = z := by
      rw [show l :: (p0 ++ [w]) = (l :: p0) ++ [w] by simp, List.getLast?_append] at hz
      simpa using hz
    subst this
    have hw : w ∉ p0 := by simp [List.nodup_cons, List.nodup_append] at nd; grind
    have hwl : w ≠ l := by intro hh; subst hh; simp at nd
    simp only [insAfterC, hwl, if_false]
    have := insAfter_split e w p0 (m :: q) hw
    simpa using this

/-- predecessor of a node in the ring -/
theorem ring_prev_node {nx pv : PM} {l m : Nat} {p q : List Nat}
    (h : Ring nx pv (l :: (p ++ m :: q))) : pv.get m = (l :: p).getLast? := by
  have := (ring_links (pre := l :: p) (x := m) (post := q) (by simpa using h)).2
  rw [this]
  rw [show m :: (q ++ l :: p) = (m :: q) ++ (l :: p) by simp, List.getLast?_append]
  rw [List.getLast?_eq_some_getLast (l := l :: p) (by simp)]; rfl

theorem getLast_mem_ring (l : Nat) (p : List Nat) : ∃ z, (l :: p).getLast? = some z ∧ z ∈ l :: p := by
  refine ⟨(l :: p).getLast (by simp), List.getLast?_eq_some_getLast (by simp), List.getLast_mem _⟩

/-! ### the public methods -/

theorem pushFront_spec {s : DSt} {A : Nat → List Nat} {l : Nat} (v : Int) (h : GInv s A) (hl : l < s.nl) :
    ∃ s', s.pushFront l v = some (s', s.fresh) ∧ GInv s' (upd A l (s.fresh :: A l)) ∧
      s'.fresh = s.fresh + 1 ∧ s'.nl = s.nl ∧ s'.val = s.val.set s.fresh v := by
  obtain ⟨g1, g2, g3, g4, g5, _⟩ := lazyInit_spec h hl
  obtain ⟨s', r1, r2, r3, r4, r5⟩ := insertValue_after_mem (a := l) v g1 (g5 ▸ hl) g2 (by simp)
  rw [g4] at r1 r2 r3 r5
  rw [g3] at r5
  rw [insAfterC_root] at r2
  exact ⟨s', by simpa [DSt.pushFront] using r1, r2, r3, by rw [r4, g5], r5⟩

theorem pushBack_spec {s : DSt} {A : Nat → List Nat} {l : Nat} (v : Int) (h : GInv s A) (hl : l < s.nl) :
    ∃ s', s.pushBack l v = some (s', s.fresh) ∧ GInv s' (upd A l (A l ++ [s.fresh])) ∧
      s'.fresh = s.fresh + 1 ∧ s'.nl = s.nl ∧ s'.val = s.val.set s.fresh v := by
  obtain ⟨g1, g2, g3, g4, g5, _⟩ := lazyInit_spec h hl
  obtain ⟨z, hz, hzm⟩ := getLast_mem_ring l (A l)
  have hat : (s.lazyInit l).prev.get l = some z := by rw [ring_prev_root g2, hz]
  obtain ⟨s', r1, r2, r3, r4, r5⟩ := insertValue_after_mem (a := z) v g1 (g5 ▸ hl) g2 hzm
  rw [g4] at r1 r2 r3 r5
  rw [g3] at r5
  rw [insAfterC_last _ (h.lists l hl).nodup hz] at r2
  exact ⟨s', by simpa [DSt.pushBack, hat] using r1, r2, r3, by rw [r4, g5], r5⟩

theorem insertAfter_spec {s : DSt} {A : Nat → List Nat} {l : Nat} (v : Int) (mark : Nat)
    (h : GInv s A) (hl : l < s.nl) :
    (mark ∉ A l → s.insertAfter l v mark = some (s, none)) ∧
    (mark ∈ A l → ∃ s', s.insertAfter l v mark = some (s', some s.fresh) ∧
      GInv s' (upd A l (insAfter s.fresh mark (A l))) ∧
      s'.fresh = s.fresh + 1 ∧ s'.nl = s.nl ∧ s'.val = s.val.set s.fresh v) := by
  have hown := (h.lists l hl).owner mark
  refine ⟨fun hm => ?_, fun hm => ?_⟩
  · have : s.list.get mark ≠ some l := fun hh => hm (hown.1 hh)
    simp [DSt.insertAfter, this]
  · have hg : ¬ (s.list.get mark ≠ some l) := by simp [hown.2 hm]
    have hr := ginv_ring_of_mem h hl hm
    obtain ⟨s', r1, r2, r3, r4, r5⟩ := insertValue_after_mem (a := mark) v h hl hr (by simp [hm])
    rw [insAfterC_node _ hm (h.lists l hl).nodup] at r2
    refine ⟨s', ?_, r2, r3, r4, r5⟩
    simp only [DSt.insertAfter, hg, if_false, r1, Option.bind_eq_bind, Option.bind_some]; rfl

theorem insertBefore_spec {s : DSt} {A : Nat → List Nat} {l : Nat} (v : Int) (mark : Nat)
    (h : GInv s A) (hl : l < s.nl) :
    (mark ∉ A l → s.insertBefore l v mark = some (s, none)) ∧
    (mark ∈ A l → ∃ s', s.insertBefore l v mark = some (s', some s.fresh) ∧
      GInv s' (upd A l (insBefore s.fresh mark (A l))) ∧
      s'.fresh = s.fresh + 1 ∧ s'.nl = s.nl ∧ s'.val = s.val.set s.fresh v) := by
  have hown := (h.lists l hl).owner mark
  refine ⟨fun hm => ?_, fun hm => ?_⟩
  · have : s.list.get mark ≠ some l := fun hh => hm (hown.1 hh)
    simp [DSt.insertBefore, this]
  · have hg : ¬ (s.list.get mark ≠ some l) := by simp [hown.2 hm]
    have hr := ginv_ring_of_mem h hl hm
    have nd := (h.lists l hl).nodup
    obtain ⟨p, q, e1, hp⟩ := split_of_mem hm
    obtain ⟨z, hz, hzm⟩ := getLast_mem_ring l p
    have hat : s.prev.get mark = some z := by rw [ring_prev_node (e1 ▸ hr), hz]
    have hzm' : z ∈ l :: A l := by rw [e1]; simp at hzm ⊢; grind
    obtain ⟨s', r1, r2, r3, r4, r5⟩ := insertValue_after_mem (a := z) v h hl hr hzm'
    have : insAfterC l (A l) z s.fresh = insBefore s.fresh mark (A l) := by
      rw [e1]; exact insAfterC_pred _ (e1 ▸ nd) hz
    rw [this] at r2
    refine ⟨s', ?_, r2, r3, r4, r5⟩
    simp only [DSt.insertBefore, hg, if_false, hat, r1, Option.bind_eq_bind, Option.bind_some]; rfl

theorem removeNode_spec {s : DSt} {A : Nat → List Nat} {l : Nat} (e : Nat)
    (h : GInv s A) (hl : l < s.nl) :
    (e ∉ A l → s.removeNode l e = some (s, s.val.get e)) ∧
    (e ∈ A l → ∃ s', s.removeNode l e = some (s', s.val.get e) ∧
      GInv s' (upd A l ((A l).erase e)) ∧ s'.fresh = s.fresh ∧ s'.nl = s.nl ∧ s'.val = s.val ∧
      Detached s' e) := by
  have hown := (h.lists l hl).owner e
  refine ⟨fun hm => ?_, fun hm => ?_⟩
  · have : ¬ (s.list.get e = some l) := fun hh => hm (hown.1 hh)
    simp [DSt.removeNode, this]
  · have hr := ginv_ring_of_mem h hl hm
    obtain ⟨p, q, e1, hp⟩ := split_of_mem hm
    obtain ⟨pre, pp, e2⟩ : ∃ pre pp, l :: p = pre ++ [pp] := by
      rcases eq_nil_or_snoc (l :: p) with h0 | ⟨a, b, h0⟩
      · cases h0
      · exact ⟨a, b, h0⟩
    have hs1 : l :: A l = pre ++ pp :: e :: q := by
      rw [e1]; rw [show l :: (p ++ e :: q) = (l :: p) ++ e :: q by simp, e2]; simp
    have hs2 : l :: (A l).erase e = pre ++ pp :: q := by
      rw [e1, erase_split e p q hp, show l :: (p ++ q) = (l :: p) ++ q by simp, e2]; simp
    obtain ⟨s', r1, r2, r3, r4, r5, _, r7⟩ := remove_spec h hl hr hs1 hs2
    refine ⟨s', ?_, r2, r4, r5, r3, r7⟩
    simp only [DSt.removeNode, hown.2 hm, if_true, r1, Option.bind_eq_bind, Option.bind_some, r3]; rfl

/-- `move(e, at)` for a node `e` of `l` and any other ring member `at`. -/
theorem move_after_mem {s : DSt} {A : Nat → List Nat} {l e a : Nat}
    (h : GInv s A) (hl : l < s.nl) (he : e ∈ A l) (ha : a ∈ l :: (A l).erase e) :
    ∃ s', s.move e (some a) = some s' ∧ GInv s' (upd A l (insAfterC l ((A l).erase e) a e)) ∧
      s'.val = s.val ∧ s'.fresh = s.fresh ∧ s'.nl = s.nl := by
  have hr := ginv_ring_of_mem h hl he
  have nd := (h.lists l hl).nodup
  obtain ⟨p, q, e1, hp⟩ := split_of_mem he
  obtain ⟨pre, pp, e2⟩ : ∃ pre pp, l :: p = pre ++ [pp] := by
    rcases eq_nil_or_snoc (l :: p) with h0 | ⟨a, b, h0⟩
    · cases h0
    · exact ⟨a, b, h0⟩
  have hs1 : l :: A l = pre ++ pp :: e :: q := by
    rw [e1]; rw [show l :: (p ++ e :: q) = (l :: p) ++ e :: q by simp, e2]; simp
  have hs2 : l :: (A l).erase e = pre ++ pp :: q := by
    rw [e1, erase_split e p q hp, show l :: (p ++ q) = (l :: p) ++ q by simp, e2]; simp
  have nd1 : (l :: (A l).erase e).Nodup := by
    rw [hs2]; exact (nodup_sub_mid (hs1 ▸ nd)).1
  obtain ⟨pre2, post2, h1, h2⟩ := ring_split ha nd1
  obtain ⟨s', r1, r2, r3, r4, r5, _⟩ := move_spec h hl hr hs1 (hs2 ▸ h1) (h2 e)
  exact ⟨s', r1, r2, r3, r4, r5⟩

theorem moveToFront_spec {s : DSt} {A : Nat → List Nat} {l : Nat} (e : Nat)
    (h : GInv s A) (hl : l < s.nl) :
    (e ∉ A l → s.moveToFront l e = some s) ∧
    (e ∈ A l → ∃ s', s.moveToFront l e = some s' ∧ GInv s' (upd A l (e :: (A l).erase e)) ∧
      s'.val = s.val ∧ s'.fresh = s.fresh ∧ s'.nl = s.nl) := by
  have hown := (h.lists l hl).owner e
  refine ⟨fun hm => ?_, fun hm => ?_⟩
  · have : s.list.get e ≠ some l := fun hh => hm (hown.1 hh)
    simp [DSt.moveToFront, this]
  · have hr := ginv_ring_of_mem h hl hm
    by_cases hfirst : s.next.get l = some e
    · -- already at the front: the guard returns, and the spec changes nothing
      have hhead : (A l ++ [l]).head? = some e := by rw [← ring_next_root hr]; exact hfirst
      have hA : e :: (A l).erase e = A l := by
        cases hL : A l with
        | nil => rw [hL] at hm; simp at hm
        | cons x xs => rw [hL] at hhead; simp at hhead; subst hhead; simp
      have hupd : upd A l (e :: (A l).erase e) = A := by
        funext k; by_cases hk : k = l <;> simp [upd, hk, hA]
      exact ⟨s, by simp [DSt.moveToFront, hfirst], by rw [hupd]; exact h, rfl, rfl, rfl⟩
    · obtain ⟨s', r1, r2, r3⟩ := move_after_mem (a := l) h hl hm (by simp)
      rw [insAfterC_root] at r2
      refine ⟨s', ?_, r2, r3⟩
      have : ¬ (s.list.get e ≠ some l ∨ s.next.get l = some e) := by simp [hown.2 hm, hfirst]
      simp only [DSt.moveToFront, this, if_false, r1]

theorem moveAfter_spec {s : DSt} {A : Nat → List Nat} {l : Nat} (e mark : Nat)
    (h : GInv s A) (hl : l < s.nl) :
    ((e ∉ A l ∨ e = mark ∨ mark ∉ A l) → s.moveAfter l e mark = some s) ∧
    (e ∈ A l → e ≠ mark → mark ∈ A l → ∃ s', s.moveAfter l e mark = some s' ∧
      GInv s' (upd A l (insAfter e mark ((A l).erase e))) ∧
      s'.val = s.val ∧ s'.fresh = s.fresh ∧ s'.nl = s.nl) := by
  have hown := (h.lists l hl).owner
  refine ⟨fun hm => ?_, fun he hne hm => ?_⟩
  · have : s.list.get e ≠ some l ∨ e = mark ∨ s.list.get mark ≠ some l := by
      rcases hm with h1 | h1 | h1
      · exact Or.inl fun hh => h1 ((hown e).1 hh)
      · exact Or.inr (Or.inl h1)
      · exact Or.inr (Or.inr fun hh => h1 ((hown mark).1 hh))
    simp [DSt.moveAfter, this]
  · have hm' : mark ∈ (A l).erase e := (List.mem_erase_of_ne (Ne.symm hne)).2 hm
    obtain ⟨s', r1, r2, r3⟩ := move_after_mem (a := mark) h hl he (by simp [hm'])
    have nd := (h.lists l hl).nodup
    have nd1 : (l :: (A l).erase e).Nodup := by
      simp only [List.nodup_cons] at nd ⊢
      exact ⟨fun hh => nd.1 (List.mem_of_mem_erase hh), nd.2.erase e⟩
    rw [insAfterC_node _ hm' nd1] at r2
    refine ⟨s', ?_, r2, r3⟩
    have : ¬ (s.list.get e ≠ some l ∨ e = mark ∨ s.list.get mark ≠ some l) := by
      simp [(hown e).2 he, (hown mark).2 hm, hne]
    simp only [DSt.moveAfter, this, if_false, r1]


/-! ### node-inserting forms (given a detached node) -/

theorem detached_lazyInit {s : DSt} {l e : Nat} (he : Detached s e) : Detached (s.lazyInit l) e := by
  unfold DSt.lazyInit
  split
  · exact he
  · exact he

theorem pushFrontNode_spec {s : DSt} {A : Nat → List Nat} {l e : Nat} (h : GInv s A) (hl : l < s.nl)
    (he : Detached s e) :
    ∃ s', s.pushFrontNode l e = some s' ∧ GInv s' (upd A l (e :: A l)) ∧
      s'.val = s.val ∧ s'.fresh = s.fresh ∧ s'.nl = s.nl := by
  obtain ⟨g1, g2, g3, g4, g5, _⟩ := lazyInit_spec h hl
  obtain ⟨s', r1, r2, r3, r4, r5⟩ :=
    insert_after_mem (a := l) g1 (g5 ▸ hl) g2 (by simp) (detached_lazyInit he)
  rw [insAfterC_root] at r2
  exact ⟨s', by simpa [DSt.pushFrontNode] using r1, r2, by rw [r3, g3], by rw [r4, g4], by rw [r5, g5]⟩

theorem pushBackNode_spec {s : DSt} {A : Nat → List Nat} {l e : Nat} (h : GInv s A) (hl : l < s.nl)
    (he : Detached s e) :
    ∃ s', s.pushBackNode l e = some s' ∧ GInv s' (upd A l (A l ++ [e])) ∧
      s'.val = s.val ∧ s'.fresh = s.fresh ∧ s'.nl = s.nl := by
  obtain ⟨g1, g2, g3, g4, g5, _⟩ := lazyInit_spec h hl
  obtain ⟨z, hz, hzm⟩ := getLast_mem_ring l (A l)
  have hat : (s.lazyInit l).prev.get l = some z := by rw [ring_prev_root g2, hz]
  obtain ⟨s', r1, r2, r3, r4, r5⟩ :=
    insert_after_mem (a := z) g1 (g5 ▸ hl) g2 hzm (detached_lazyInit he)
  rw [insAfterC_last _ (h.lists l hl).nodup hz] at r2
  exact ⟨s', by simpa [DSt.pushBackNode, hat] using r1, r2, by rw [r3, g3], by rw [r4, g4], by rw [r5, g5]⟩

theorem insertNodeAfter_spec {s : DSt} {A : Nat → List Nat} {l e : Nat} (mark : Nat)
    (h : GInv s A) (hl : l < s.nl) (he : Detached s e) :
    (mark ∉ A l → s.insertNodeAfter l e mark = some s) ∧
    (mark ∈ A l → ∃ s', s.insertNodeAfter l e mark = some s' ∧
      GInv s' (upd A l (insAfter e mark (A l))) ∧ s'.val = s.val ∧ s'.fresh = s.fresh ∧ s'.nl = s.nl) := by
  have hown := (h.lists l hl).owner mark
  refine ⟨fun hm => ?_, fun hm => ?_⟩
  · have : s.list.get mark ≠ some l := fun hh => hm (hown.1 hh)
    simp [DSt.insertNodeAfter, this]
  · have hg : ¬ (s.list.get mark ≠ some l) := by simp [hown.2 hm]
    have hr := ginv_ring_of_mem h hl hm
    obtain ⟨s', r1, r2, r3⟩ := insert_after_mem (a := mark) h hl hr (by simp [hm]) he
    rw [insAfterC_node _ hm (h.lists l hl).nodup] at r2
    exact ⟨s', by simp only [DSt.insertNodeAfter, hg, if_false, r1], r2, r3⟩

theorem insertNodeBefore_spec {s : DSt} {A : Nat → List Nat} {l e : Nat} (mark : Nat)
    (h : GInv s A) (hl : l < s.nl) (he : Detached s e) :
    (mark ∉ A l → s.insertNodeBefore l e mark = some s) ∧
    (mark ∈ A l → ∃ s', s.insertNodeBefore l e mark = some s' ∧
      GInv s' (upd A l (insBefore e mark (A l))) ∧ s'.val = s.val ∧ s'.fresh = s.fresh ∧ s'.nl = s.nl) := by
  have hown := (h.lists l hl).owner mark
  refine ⟨fun hm => ?_, fun hm => ?_⟩
  · have : s.list.get mark ≠ some l := fun hh => hm (hown.1 hh)
    simp [DSt.insertNodeBefore, this]
  · have hg : ¬ (s.list.get mark ≠ some l) := by simp [hown.2 hm]
    have hr := ginv_ring_of_mem h hl hm
    have nd := (h.lists l hl).nodup
    obtain ⟨p, q, e1, hp⟩ := split_of_mem hm
    obtain ⟨z, hz, hzm⟩ := getLast_mem_ring l p
    have hat : s.prev.get mark = some z := by rw [ring_prev_node (e1 ▸ hr), hz]
    have hzm' : z ∈ l :: A l := by rw [e1]; simp at hzm ⊢; grind
    obtain ⟨s', r1, r2, r3⟩ := insert_after_mem (a := z) h hl hr hzm' he
    have : insAfterC l (A l) z e = insBefore e mark (A l) := by
      rw [e1]; exact insAfterC_pred _ (e1 ▸ nd) hz
    rw [this] at r2
    exact ⟨s', by simp only [DSt.insertNodeBefore, hg, if_false, hat, r1], r2, r3⟩

end Golib.C13
