/-
C07 helper lemmas: slices, copies, the flush, and `parseUint` index facts.
-/
import Golib.Model.C07Enc

namespace Golib.C07
open Golib

theorem slice_eq {s : Bytes} {a b : Nat} (h1 : a ≤ b) (h2 : b ≤ s.length) :
    slice s a b = some ((s.take b).drop a) := by
  simp [slice, h1, h2]

theorem take_drop_shift (src : Bytes) (i a b : Nat) :
    ((src.drop i).take b).drop a = (src.take (i + b)).drop (i + a) := by
  apply List.ext_getElem?; intro k
  simp only [List.getElem?_take, List.getElem?_drop]
  grind

theorem writeAt_spec {dst : Bytes} {e : Nat} {bs : Bytes} (h : e + bs.length ≤ dst.length) :
    ∃ dst', writeAt dst e bs = some (dst', bs.length) ∧ dst'.length = dst.length ∧
      dst'.take (e + bs.length) = dst.take e ++ bs := by
  refine ⟨dst.take e ++ bs ++ dst.drop (e + bs.length), by simp [writeAt, h], ?_, ?_⟩
  · simp only [List.length_append, List.length_take, List.length_drop]; omega
  · apply List.ext_getElem?; intro k
    simp only [List.getElem?_take, List.getElem?_append, List.length_take, List.length_append]
    grind

theorem copyAt_spec {dst : Bytes} {e : Nat} {seg : Bytes} (h : e + seg.length ≤ dst.length) :
    ∃ dst', copyAt dst e seg = some (dst', seg.length) ∧ dst'.length = dst.length ∧
      dst'.take (e + seg.length) = dst.take e ++ seg := by
  have hk : min (dst.length - e) seg.length = seg.length := by omega
  refine ⟨dst.take e ++ seg ++ dst.drop (e + seg.length), ?_, ?_, ?_⟩
  · have : e ≤ dst.length := by omega
    simp [copyAt, this, hk]
  · simp only [List.length_append, List.length_take, List.length_drop]; omega
  · apply List.ext_getElem?; intro k
    simp only [List.getElem?_take, List.getElem?_append, List.length_take, List.length_append]
    grind

/-- The pending literal run `src[f:i]` is appended to `dst[:e]`. -/
theorem flush_spec {src : Bytes} {s : St} (hfi : s.f ≤ s.i) (hil : s.i ≤ src.length)
    (hroom : s.e + (s.i - s.f) ≤ s.dst.length) :
    ∃ s1, flush src s = some s1 ∧ s1.dst.length = s.dst.length ∧ s1.e = s.e + (s.i - s.f) ∧
      s1.f = s.f ∧ s1.i = s.i ∧
      s1.dst.take s1.e = s.dst.take s.e ++ (src.take s.i).drop s.f := by
  obtain ⟨dst, e, f, i⟩ := s
  simp only [] at *
  by_cases hlt : f < i
  · have hlen : ((src.take i).drop f).length = i - f := by
      simp only [List.length_drop, List.length_take]; omega
    obtain ⟨dst', hc, hl, ht⟩ := copyAt_spec (dst := dst) (e := e) (seg := (src.take i).drop f)
      (by rw [hlen]; exact hroom)
    rw [hlen] at hc ht
    refine ⟨⟨dst', e + (i - f), f, i⟩, ?_, hl, rfl, rfl, rfl, ht⟩
    simp [flush, hlt, slice_eq (Nat.le_of_lt hlt) hil, hc]
  · have : i - f = 0 := by omega
    have h0 : (src.take i).drop f = [] := by
      apply List.eq_nil_of_length_eq_zero
      simp only [List.length_drop, List.length_take]; omega
    refine ⟨⟨dst, e, f, i⟩, by simp [flush, hlt], rfl, by simp only []; omega, rfl, rfl, ?_⟩
    simp [h0]

/-- A failing `parseUint` reports an index inside the digit window. -/
theorem parseUintLoop_fail_lt (base cutoff maxVal : Nat) :
    ∀ (s : Bytes) (i n v j : Nat), parseUintLoop base cutoff maxVal s i n = (v, j, false) →
      i ≤ j ∧ j < i + s.length
  | [], i, n, v, j, h => by simp [parseUintLoop] at h
  | c :: rest, i, n, v, j, h => by
    unfold parseUintLoop at h
    split at h
    · simp only [Prod.mk.injEq] at h; simp only [List.length_cons]; omega
    · split at h
      · simp only [Prod.mk.injEq] at h; simp only [List.length_cons]; omega
      · split at h
        · simp only [Prod.mk.injEq] at h; simp only [List.length_cons]; omega
        · simp only [] at h
          split at h
          · simp only [Prod.mk.injEq] at h; simp only [List.length_cons]; omega
          · have := parseUintLoop_fail_lt base cutoff maxVal rest (i + 1) _ v j h
            simp only [List.length_cons]; omega

theorem parseUint_fail_lt {s : Bytes} {base bits v j : Nat}
    (h : parseUint s base bits = (v, j, false)) : j < s.length := by
  have := parseUintLoop_fail_lt _ _ _ s 0 0 v j h
  omega

theorem parseUintLoop_ok_idx (base cutoff maxVal : Nat) :
    ∀ (s : Bytes) (i n v j : Nat), parseUintLoop base cutoff maxVal s i n = (v, j, true) →
      j = i + s.length
  | [], i, n, v, j, h => by simp [parseUintLoop] at h; simp [h.2]
  | c :: rest, i, n, v, j, h => by
    unfold parseUintLoop at h
    split at h
    · simp at h
    · split at h
      · simp at h
      · split at h
        · simp at h
        · simp only [] at h
          split at h
          · simp at h
          · have := parseUintLoop_ok_idx base cutoff maxVal rest (i + 1) _ v j h
            simp only [List.length_cons]; omega

end Golib.C07
