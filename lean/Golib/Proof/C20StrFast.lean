/-
C20: the linear-time `generateFast` (reversed accumulator) equals `generate`.
-/
import Golib.Model.C20Str

set_option linter.unusedSimpArgs false
set_option linter.unusedVariables false

namespace Golib.C20

theorem chunksR_eq (g : StrGen) :
    ∀ (remain need cache : Nat) (acc : List Int),
      chunksR g need cache remain acc =
        (chunks g need cache remain acc.reverse).map fun p => (p.1, p.2.reverse) := by
  intro remain
  induction remain with
  | zero =>
    intro need cache acc
    cases need with
    | zero => simp [chunksR, chunks]
    | succ k => simp [chunksR, chunks]
  | succ rem ih =>
    intro need cache acc
    cases need with
    | zero => simp [chunksR, chunks]
    | succ k =>
      simp only [chunksR, chunks]
      split
      · cases hget : g.charSet[cache &&& g.charIdxMask]? with
        | none => simp
        | some r =>
          simp only []
          rw [ih k _ (r :: acc)]
          simp
      · exact ih (k + 1) _ acc

theorem genWordsR_eq (g : StrGen) :
    ∀ (ws : List Nat) (need : Nat) (acc : List Int),
      genWordsR g need ws acc = genWords g need ws acc.reverse := by
  intro ws
  induction ws with
  | nil =>
    intro need acc
    cases need <;> simp [genWordsR, genWords]
  | cons w ws ih =>
    intro need acc
    cases need with
    | zero => simp [genWordsR, genWords]
    | succ k =>
      simp only [genWordsR, genWords, chunksR_eq]
      cases chunks g (k + 1) w g.charIdxMax acc.reverse with
      | none => simp
      | some p =>
        obtain ⟨n', a'⟩ := p
        simp only [Option.map_some]
        rw [ih n' a'.reverse]
        simp

theorem generateFast_eq (g : StrGen) (n : Int) (ws : List Nat) :
    generateFast g n ws = generate g n ws := by
  simp only [generateFast, generate]
  split
  · rfl
  · cases ws with
    | nil => rfl
    | cons w ws =>
      simp only [chunksR_eq, List.reverse_nil]
      cases chunks g n.toNat w g.charIdxMax [] with
      | none => simp
      | some p =>
        obtain ⟨n', a'⟩ := p
        simp only [Option.map_some]
        rw [genWordsR_eq]
        simp

end Golib.C20
