/-
C07 — tie of the regenerated `UnicodeParse` (`Golib/Gen/TransC07.lean`) to the cursor model `parse unicodeBody`
(`Golib/Model/C07Enc.lean`).  Same scheme as `Proof/C07TransParse.lean`; new here: `utf8.EncodeRune(dst[e:], rune(n))`
(`GoSem.utf8EncodeRuneAt`) against the model's all-or-panic `writeAt … (Utf8.encodeRune n)`.
-/
import Golib.Proof.C07TransParse

set_option linter.unusedSimpArgs false
namespace Golib.C07.Tie
open Golib.GoSem

theorem parseUintLoop_lt (base cutoff maxVal : Nat) (hm : maxVal < 2 ^ 64) :
    ∀ (s : Bytes) (i n : Nat), n < 2 ^ 64 → (parseUintLoop base cutoff maxVal s i n).1 < 2 ^ 64 := by
  intro s
  induction s with
  | nil => intro i n hn; simpa [parseUintLoop] using hn
  | cons c rest ih =>
    intro i n hn
    simp only [parseUintLoop]
    repeat' split
    all_goals first
      | (apply ih; omega)
      | (simp only []; omega)

theorem parseUint_lt (s : Bytes) (base bits : Nat) : (Golib.C07.parseUint s base bits).1 < 2 ^ 64 := by
  unfold Golib.C07.parseUint
  apply parseUintLoop_lt
  · omega
  · omega

theorem encBytes_eq (r : BitVec 32) : bytesOf (GoSem.utf8EncodeRuneBytes r) = Utf8.encodeRune r.toInt := by
  unfold GoSem.utf8EncodeRuneBytes Utf8.encodeRune Utf8.isSurrogate Utf8.maxRune
  generalize r.toInt = v
  by_cases hneg : v < 0
  · simp only [hneg, if_true]; rfl
  · obtain ⟨n, rfl⟩ := Int.eq_ofNat_of_zero_le (by omega : 0 ≤ v)
    simp only [hneg, if_false, Int.toNat_natCast, Bool.and_eq_true, decide_eq_true_eq]
    repeat' split
    all_goals first
      | rfl
      | (exfalso; omega)
      | (simp only [bytesOf, List.map_cons, List.map_nil, BitVec.toNat_ofNat]; congr <;> omega)

theorem rune_of_u64 (v : Nat) (h : v ≤ 0x10FFFF) : ((BitVec.ofNat 64 v).setWidth 32).toInt = (v : Int) := by
  rw [BitVec.toInt_eq_toNat_of_lt]
  · simp only [BitVec.toNat_setWidth, BitVec.toNat_ofNat]; omega
  · simp only [BitVec.toNat_setWidth, BitVec.toNat_ofNat]; omega


/-- `utf8.EncodeRune(dst[e:], r)` in both worlds. -/
theorem encAt_both (dst : List (BitVec 8)) (e' : Int) (e : Nat) (he : e' = e) (r : BitVec 32) :
    (∃ d, ∃ k : Nat, GoSem.utf8EncodeRuneAt dst e' (Int.ofNat dst.length) r = .ok (d, (k : Int)) ∧
        Golib.C07.writeAt (bytesOf dst) e (Utf8.encodeRune r.toInt) = some (bytesOf d, k)) ∨
    (GoSem.utf8EncodeRuneAt dst e' (Int.ofNat dst.length) r = .panic ∧
        Golib.C07.writeAt (bytesOf dst) e (Utf8.encodeRune r.toInt) = none) := by
  subst he
  unfold GoSem.utf8EncodeRuneAt Golib.C07.writeAt
  rw [← encBytes_eq]
  generalize GoSem.utf8EncodeRuneBytes r = bs
  simp only [bytesOf_length, Int.ofNat_eq_natCast, Int.toNat_natCast]
  by_cases h : e + bs.length ≤ dst.length
  · left
    have h1 : ¬ ((e : Int) < 0 ∨ (dst.length : Int) < (e : Int) ∨ (dst.length : Int) < (dst.length : Int)) := by omega
    have h2 : ¬ ((dst.length : Int) - (e : Int) < (bs.length : Int)) := by omega
    refine ⟨dst.take e ++ bs ++ dst.drop (e + bs.length), bs.length, ?_, ?_⟩
    · simp only [h1, h2, if_false]
    · simp only [h, if_true, bytesOf_take, bytesOf_drop, bytesOf_append]
  · right
    by_cases h1 : ((e : Int) < 0 ∨ (dst.length : Int) < (e : Int) ∨ (dst.length : Int) < (dst.length : Int))
    · simp only [h1, if_true, h, if_false, and_self]
    · have h2 : ((dst.length : Int) - (e : Int) < (bs.length : Int)) := by omega
      simp only [h1, h2, if_true, if_false, h, and_self]

theorem u64_lt_iff (v c : Nat) (hv : v < 2 ^ 64) (hc : c < 2 ^ 64) : (BitVec.ofNat 64 v < BitVec.ofNat 64 c) ↔ v < c := by
  simp only [BitVec.lt_def, BitVec.toNat_ofNat, Nat.mod_eq_of_lt hv, Nat.mod_eq_of_lt hc]

/-! ### `UnicodeParse` -/

section
open Golib.Gen.Trans.C07 (UnicodeParse_loop1)

/-- `if n < RuneSelf { dst[e] = byte(n); e++ } else { e += utf8.EncodeRune(dst[e:], rune(n)) }; i += w; f = i` after the
flush, at the state `(d, E)` (`E` the `Int` term of the natural `e2`). -/
macro "write_u" d:ident E:term:max e2:term:max v:ident hv64:ident hle:ident : tactic => `(tactic|
  (by_cases hsm : $v < 128
   · have hsm' : (BitVec.ofNat 64 $v < 128#64) := (u64_lt_iff $v 128 $hv64 (by omega)).2 hsm
     simp only [hsm, hsm', decide_true, if_true]
     rcases setIdx_both $d $E $e2 (by omega) (BitVec.setWidth 8 (BitVec.ofNat 64 $v)) with ⟨d2, h3, h4⟩ | ⟨h3, h4⟩
     · rw [byte_of_u64] at h4
       rw [h3, h4]
       simp only [Res.bind_ok']
       apply StepRel.cont
       congr 1 <;> omega
     · rw [byte_of_u64] at h4
       rw [h3, h4]
       simp only [Res.bind_panic']
       exact StepRel.panic
   · have hsm' : ¬ (BitVec.ofNat 64 $v < 128#64) := fun h => hsm ((u64_lt_iff $v 128 $hv64 (by omega)).1 h)
     simp only [hsm, hsm', decide_false, if_false, Bool.false_eq_true]
     rcases encAt_both $d $E $e2 (by omega) (BitVec.setWidth 32 (BitVec.ofNat 64 $v)) with ⟨d2, k2, h3, h4⟩ | ⟨h3, h4⟩
     · rw [rune_of_u64 $v $hle] at h4
       rw [h3, h4]
       simp only [Res.bind_ok']
       apply StepRel.cont
       congr 1 <;> omega
     · rw [rune_of_u64 $v $hle] at h4
       rw [h3, h4]
       simp only [Res.bind_panic']
       exact StepRel.panic))

macro "emit_tail_u" src:ident dst:ident e:ident f:ident i:ident v:ident hv64:ident hle:ident : tactic => `(tactic|
  (by_cases hfi : $f < $i
   · have hfi' : (($f : Nat) : Int) < (($i : Nat) : Int) := by omega
     simp only [hfi', decide_true, if_true]
     rw [slice_ok' $src _ _ $f $i rfl rfl (by omega) (by omega), flush_true $src $dst $e $f $i hfi (by omega)]
     simp only [Res.bind_ok']
     rcases copyAt_both $dst ((List.take $i $src).drop $f) _ $e rfl with ⟨d, k, h1, h2⟩ | ⟨h1, h2⟩
     · rw [h1, h2]
       simp only [Res.bind_ok']
       write_u d ((($e : Nat) : Int) + ((k : Nat) : Int)) ($e + k) $v $hv64 $hle
     · rw [h1, h2]
       simp only [Res.bind_panic']
       exact StepRel.panic
   · have hfi' : ¬ (($f : Nat) : Int) < (($i : Nat) : Int) := by omega
     simp only [hfi', decide_false, Bool.false_eq_true, if_false, Res.bind_ok', flush_false _ _ _ _ _ hfi]
     write_u $dst (($e : Nat) : Int) $e $v $hv64 $hle))

theorem unicode_step (src dst : List (BitVec 8)) (e f i fuel : Nat) (hi : i < src.length) :
    StepRel (fun d e f i => .ok (d, e, f, i)) (UnicodeParse_loop1 fuel src)
      (unicodeBody (bytesOf src) ⟨bytesOf dst, e, f, i⟩)
      (UnicodeParse_loop1 (fuel + 1) src dst (e : Int) (f : Int) (i : Int)) := by
  conv => arg 4; unfold UnicodeParse_loop1
  unfold unicodeBody
  have hlt : (i : Int) < Int.ofNat src.length := by simp; omega
  simp only [hlt, decide_true, if_true, bytesOf_length]
  by_cases h4 : src.length - i < 10
  · have h4' : Int.ofNat src.length - (i : Int) < 10 := by simp; omega
    simp only [h4, h4', decide_true, if_true]
    exact StepRel.brk _ _ _ _ _ rfl
  · have h4' : ¬ Int.ofNat src.length - (i : Int) < 10 := by simp; omega
    simp only [h4, h4', decide_false, if_false, Bool.false_eq_true]
    have hi1 : i + 1 < src.length := by omega
    rw [idx_ok' src _ i rfl hi]
    have hm : (bytesOf src)[i]? = some (src[i]).toNat := by
      simp [bytesOf_getElem?, List.getElem?_eq_getElem hi]
    have hm1 : (bytesOf src)[i + 1]? = some (src[i + 1]).toNat := by
      simp [bytesOf_getElem?, List.getElem?_eq_getElem hi1]
    simp only [hm, hm1, bind, pure, Res.bind_ok']
    generalize src[i] = c
    by_cases hc : c = 92#8
    · subst hc
      simp only [bne_self_eq_false, beq_self_eq_true, Bool.not_true, Bool.not_not, Bool.not_false, Bool.false_eq_true, if_true, if_false, BitVec.toNat_ofNat,
        Nat.reducePow, Nat.reduceMod, ne_eq, not_true_eq_false]
      rw [idx_ok' src _ (i + 1) (by omega) hi1]
      simp only [Res.bind_ok']
      generalize src[i + 1] = c1
      by_cases hc1 : c1 = 85#8
      · subst hc1
        simp only [bne_self_eq_false, beq_self_eq_true, Bool.not_true, Bool.not_not, Bool.false_eq_true, if_false, BitVec.toNat_ofNat, Nat.reducePow, Nat.reduceMod,
          ne_eq, not_true_eq_false]
        rw [slice_ok' src _ _ (i + 2) (i + 10) (by omega) (by omega) (by omega) (by omega)]
        rw [(slice_ok src (i + 2) (i + 10) (by omega) (by omega)).2]
        simp only [Res.bind_ok']
        rw [parseUint_lit _ 16 32 (by omega) (by omega) (by omega) (16 : Int) (32 : Int) rfl rfl]
        simp only [Res.bind_ok']
        have hv64 := parseUint_lt (bytesOf (List.drop (i + 2) (List.take (i + 10) src))) 16 32
        generalize Golib.C07.parseUint (bytesOf (List.drop (i + 2) (List.take (i + 10) src))) 16 32 = r at hv64
        obtain ⟨v, j, ok⟩ := r
        simp only [] at hv64
        cases ok
        · simp only [Bool.not_false, if_true]
          apply StepRel.cont
          congr 1 <;> omega
        · simp only [Bool.not_true, Bool.false_eq_true, if_false]
          by_cases hbig : v > 1114111
          · have hbig' : (BitVec.ofNat 64 v > 1114111#64) := (u64_lt_iff 1114111 v (by omega) hv64).2 hbig
            simp only [hbig, hbig', decide_true, if_true]
            apply StepRel.cont
            congr 1 <;> omega
          · have hbig' : ¬ (BitVec.ofNat 64 v > 1114111#64) := fun h => hbig ((u64_lt_iff 1114111 v (by omega) hv64).1 h)
            have hle : v ≤ 0x10FFFF := by omega
            simp only [hbig, hbig', decide_false, if_false, Bool.false_eq_true]
            emit_tail_u src dst e f i v hv64 hle
      · have hc1' : c1.toNat ≠ 85 := by
          intro h; apply hc1; apply BitVec.eq_of_toNat_eq; simpa using h
        have hb : (c1 != 85#8) = true := by simpa using hc1
        have hbe : (c1 == 85#8) = false := by simpa using hc1
        simp only [hb, hbe, Bool.not_false, Bool.not_true, Bool.not_not, if_true, ne_eq, hc1', not_false_eq_true]
        apply StepRel.cont
        congr 1 <;> omega
    · have hc' : c.toNat ≠ 92 := by
        intro h; apply hc; apply BitVec.eq_of_toNat_eq; simpa using h
      have hb : (c != 92#8) = true := by simpa using hc
      have hbe : (c == 92#8) = false := by simpa using hc
      simp only [hb, hbe, Bool.not_false, Bool.not_true, Bool.not_not, Bool.not_true, Bool.false_eq_true, if_false, if_true, Res.bind_ok', ne_eq, hc', not_false_eq_true]
      apply StepRel.cont
      congr 1 <;> omega

theorem unicode_end (src : List (BitVec 8)) (fuel : Nat) (dst : List (BitVec 8)) (e f i : Nat) (h : ¬ i < src.length) :
    UnicodeParse_loop1 (fuel + 1) src dst e f i = .ok (dst, (e : Int), (f : Int), (i : Int)) := by
  unfold UnicodeParse_loop1
  have hlt : ¬ (i : Int) < Int.ofNat src.length := by simp; omega
  simp only [hlt, decide_false, Bool.false_eq_true, if_false]

/-- The regenerated `UnicodeParse` IS the cursor model `parse unicodeBody`, for every `dst` and `src`. -/
theorem trans_UnicodeParse_rel (dst src : List (BitVec 8)) :
    OutRel (parse unicodeBody (bytesOf dst) (bytesOf src)) (Golib.Gen.Trans.C07.UnicodeParse dst src) := by
  unfold Golib.Gen.Trans.C07.UnicodeParse parse run
  have hl := loop_rel src (unicodeBody (bytesOf src)) (fun fuel => UnicodeParse_loop1 fuel src)
    (unicode_progress _) (fun fuel dst e f i hi => unicode_step src dst e f i fuel hi) (unicode_end src)
    (src.length + 1) dst 0 0 0 (by omega)
  simp only [Int.natCast_zero, bytesOf_length] at hl ⊢
  generalize loop (unicodeBody (bytesOf src)) src.length (src.length + 1) ⟨bytesOf dst, 0, 0, 0⟩ = ml at hl ⊢
  generalize UnicodeParse_loop1 (src.length + 1) src dst 0 0 0 = gl at hl ⊢
  cases hl with
  | panic => simp only [bind, Res.bind_panic']; exact OutRel.panic
  | ok d e f i =>
    simp only [bind, pure, Res.bind_ok']
    fin_tail src d e f

end

end Golib.C07.Tie
