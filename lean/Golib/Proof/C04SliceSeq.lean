/-
C04 helper lemmas, part 13: `Slice` along every operation sequence — `Values` is heap-ordered
after every call, no call panics, every call changes the multiset as a priority queue should.
-/
import Golib.Proof.C04SliceOps

set_option linter.unusedSimpArgs false
set_option linter.unusedVariables false

namespace Golib.C04

/-- The only client obligation: `s.Values[i] = v` is an assignment inside the slice. -/
def sPre (s : List Int) : SOp → Prop
  | .setFix i _ => i < s.length
  | _ => True

/-- What one call does to `Values` (`s` before, `s'` after) and what it returns. -/
def SPost (cmp : Int → Int → Bool) (s : List Int) : SOp → SRet → List Int → Prop
  | .push x, r, s' => r = .unit ∧ s'.Perm (x :: s)
  | .pop, r, s' => (s = [] ∧ r = .val 0 false ∧ s' = s) ∨
      ∃ x, r = .val x true ∧ (x :: s').Perm s ∧ ∀ y, y ∈ s → cmp y x = false
  | .peek, r, s' => s' = s ∧ ((s = [] ∧ r = .val 0 false) ∨
      ∃ x, r = .val x true ∧ x ∈ s ∧ ∀ y, y ∈ s → cmp y x = false)
  | .len, r, s' => s' = s ∧ r = .len s.length
  | .remove i, r, s' => ((i < 0 ∨ (s.length : Int) ≤ i) ∧ r = .val 0 false ∧ s' = s) ∨
      ∃ k : Nat, i = (k : Int) ∧ k < s.length ∧ r = .val (nthN s k) true ∧ (nthN s k :: s').Perm s
  | .fix _, r, s' => r = .unit ∧ s'.Perm s
  | .setFix i v, r, s' => r = .unit ∧ s'.Perm (s.set i v)
  | .popAll, r, s' => s' = [] ∧ ∃ xs, r = .vals xs ∧ xs.Perm s ∧ xs.Pairwise (fun a b => cmp b a = false)

/-- Along `ops`: no call panics, `Values` is heap-ordered after it, the call did what `SPost` says. -/
def SliceSteps (cmp : Int → Int → Bool) : List SOp → List Int → Prop
  | [], _ => True
  | op :: ops, s => sPre s op → ∃ s' r, stepS cmp s op = some (s', r) ∧ Heap cmp s' ∧
      SPost cmp s op r s' ∧ SliceSteps cmp ops s'

theorem slice_step {cmp} (hs : SWO cmp) (s : List Int) (h : Heap cmp s) (op : SOp) (hpre : sPre s op) :
    ∃ s' r, stepS cmp s op = some (s', r) ∧ Heap cmp s' ∧ SPost cmp s op r s' := by
  cases op with
  | push x =>
    obtain ⟨s', h1, h2, h3⟩ := slice_push hs s x h
    exact ⟨s', .unit, by simp [stepS, h1], h2, rfl, h3⟩
  | pop =>
    by_cases h0 : s = []
    · have := (slice_pop hs s h).1 h0
      subst h0
      exact ⟨[], .val 0 false, by simp [stepS, this], h, Or.inl ⟨rfl, rfl, rfl⟩⟩
    · obtain ⟨s', x, h1, h2, h3, h4⟩ := (slice_pop hs s h).2 h0
      exact ⟨s', .val x true, by simp [stepS, h1], h2, Or.inr ⟨x, rfl, h3, h4⟩⟩
  | peek =>
    by_cases h0 : s = []
    · have := (slice_peek hs s h).1 h0
      exact ⟨s, .val 0 false, by simp [stepS, this], h, rfl, Or.inl ⟨h0, rfl⟩⟩
    · obtain ⟨x, h1, h2, h3⟩ := (slice_peek hs s h).2 h0
      exact ⟨s, .val x true, by simp [stepS, h1], h, rfl, Or.inr ⟨x, rfl, h2, h3⟩⟩
  | len => exact ⟨s, .len s.length, rfl, h, rfl, rfl⟩
  | remove i =>
    by_cases hout : i < 0 ∨ (s.length : Int) ≤ i
    · have := slice_remove_out cmp s i hout
      exact ⟨s, .val 0 false, by simp [stepS, this], h, Or.inl ⟨hout, rfl, rfl⟩⟩
    · obtain ⟨k, rfl⟩ := Int.eq_ofNat_of_zero_le (show 0 ≤ i by omega)
      have hk : k < s.length := by omega
      obtain ⟨s', h1, h2, h3⟩ := slice_remove_in hs s k h hk
      exact ⟨s', .val (nthN s k) true, by simp [stepS, h1], h2, Or.inr ⟨k, rfl, hk, rfl, h3⟩⟩
  | fix i =>
    by_cases hout : i < 0 ∨ (s.length : Int) ≤ i
    · have := slice_fix_out cmp s i hout
      exact ⟨s, .unit, by simp [stepS, this], h, rfl, List.Perm.refl _⟩
    · obtain ⟨k, rfl⟩ := Int.eq_ofNat_of_zero_le (show 0 ≤ i by omega)
      have hk : k < s.length := by omega
      obtain ⟨s', h1, h2, h3⟩ := slice_fix_in hs s k (s[k]) h hk
      rw [List.set_getElem_self hk] at h1 h3
      exact ⟨s', .unit, by simp [stepS, h1], h2, rfl, h3⟩
  | setFix i v =>
    have hi : i < s.length := hpre
    obtain ⟨s', h1, h2, h3⟩ := slice_fix_in hs s i v h hi
    exact ⟨s', .unit, by simp [stepS, hi, h1], h2, rfl, h3⟩
  | popAll =>
    obtain ⟨xs, h1, h2, h3⟩ := slice_popAll hs s.length s rfl h
    exact ⟨[], .vals xs, by simp [stepS, h1], heap_nil cmp, rfl, xs, rfl, h2, h3⟩

theorem slice_steps {cmp} (hs : SWO cmp) : ∀ (ops : List SOp) (s : List Int), Heap cmp s →
    SliceSteps cmp ops s := by
  intro ops
  induction ops with
  | nil => intro s _; trivial
  | cons op ops ih =>
    intro s h hpre
    obtain ⟨s', r, h1, h2, h3⟩ := slice_step hs s h op hpre
    exact ⟨s', r, h1, h2, h3, ih s' h2⟩

end Golib.C04
