/-
C04 helper lemmas, part 13: `Slice` along every operation sequence — `Values` is heap-ordered
after every call, no call panics, every call changes the multiset as a priority queue should.
-/
import Golib.Proof.C04SliceOps

set_option linter.unusedSimpArgs false
set_option linter.unusedVariables false

namespace Golib.C04

/-- The only client obligation: `s.Values[i] = v` is an assignment inside the slice. -/
def sPre (s : List Int) : SOp → Prop
  | .setFix i _ => i < s.length
  | _ => True

/-- What one call does to `Values` (`s` before, `s'` after) and what it returns. -/
def SPost (cmp : Int → Int → Bool) (s : List Int) : SOp → SRet → List Int → Prop
  | .push x, r, s' => r = .unit ∧ s'.Perm (x :: s)
  | .pop, r, s' => (s = [] ∧ r = .val 0 false ∧ s' = s) ∨
      ∃ x, r = .val x true ∧ (x :: s').Perm s ∧ ∀ y, y ∈ s → cmp y x = false
  | .peek, r, s' => s' = s ∧ ((s = [] ∧ r = .val 0 false) ∨
      ∃ x, r = .val x true ∧ x ∈ s ∧ ∀ y, y ∈ s → cmp y x = false)
  | .len, r, s' => s' = s ∧ r = .len s.length
  | .remove i, r, s' => ((i < 0 ∨ (s.length : Int) ≤ i) ∧ r = .val 0 false ∧ s' = s) ∨
      ∃ k : Nat, i = (k : Int) ∧ k < s.length ∧ r = .val (nthN s k) true ∧ (nthN s k :: s').Perm s
  | .fix _, r, s' => r = .unit ∧ s'.Perm s
  | .setFix i v, r, s' => r = .unit ∧ s'.Perm (s.set i v)
  | .popAll, r, s' => s' = [] ∧ ∃ xs, r = .vals xs ∧ xs.Perm s ∧ xs.Pairwise (fun a b => cmp b a = false)
  | .popAllN k, r, s' => ∃ xs, r = .vals xs ∧ xs.length = min k s.length ∧ (xs ++ s').Perm s ∧
      xs.Pairwise (fun a b => cmp b a = false) ∧ ∀ x, x ∈ xs → ∀ y, y ∈ s' → cmp y x = false

/-- Along `ops`: no call panics, `Values` is heap-ordered after it, the call did what `SPost` says. -/
def SliceSteps (cmp : Int → Int → Bool) : List SOp → List Int → Prop
  | [], _ => True
  | op :: ops, s => sPre s op → ∃ s' r, stepS cmp s op = some (s', r) ∧ Heap cmp s' ∧
      SPost cmp s op r s' ∧ SliceSteps cmp ops s'

/-- An interrupted `PopAll` (`k` elements received): `min k len` elements are yielded, sorted, none
of the remaining ones precedes any of them, `Values` is a heap of exactly the remaining multiset. -/
theorem slice_popAllK {cmp} (hs : SWO cmp) : ∀ (k : Nat) (s : List Int), Heap cmp s →
    ∃ s' xs, Slice.popAllK cmp k s = some (s', xs) ∧ Heap cmp s' ∧ xs.length = min k s.length ∧
      (xs ++ s').Perm s ∧ xs.Pairwise (fun a b => cmp b a = false) ∧
      ∀ x, x ∈ xs → ∀ y, y ∈ s' → cmp y x = false := by
  intro k
  induction k with
  | zero => intro s h; exact ⟨s, [], rfl, h, by simp, by simp, List.Pairwise.nil, by simp⟩
  | succ k ih =>
    intro s h
    by_cases h0 : s = []
    · subst h0
      exact ⟨[], [], by simp [Slice.popAllK, Slice.pop], h, by simp, by simp, List.Pairwise.nil, by simp⟩
    · obtain ⟨s1, x, hpop, hheap1, hperm1, hmin⟩ := (slice_pop hs s h).2 h0
      obtain ⟨s2, xs, hrun, hheap2, hlen, hperm, hsorted, hcross⟩ := ih s1 hheap1
      have hl : s.length = s1.length + 1 := by have := hperm1.length_eq; simp at this; omega
      have hsub : ∀ y, y ∈ xs ++ s2 → y ∈ s := fun y hy =>
        hperm1.subset (List.mem_cons_of_mem x (hperm.subset hy))
      refine ⟨s2, x :: xs, ?_, hheap2, ?_, ?_, ?_, ?_⟩
      · simp only [Slice.popAllK, hpop, hrun]
      · simp only [List.length_cons, hlen, hl]; omega
      · exact (List.Perm.cons x hperm).trans hperm1
      · refine List.Pairwise.cons ?_ hsorted
        intro y hy; exact hmin y (hsub y (List.mem_append_left _ hy))
      · intro x' hx' y hy
        rcases List.mem_cons.1 hx' with rfl | hx'
        · exact hmin y (hsub y (List.mem_append_right _ hy))
        · exact hcross x' hx' y hy

theorem slice_step {cmp} (hs : SWO cmp) (s : List Int) (h : Heap cmp s) (op : SOp) (hpre : sPre s op) :
    ∃ s' r, stepS cmp s op = some (s', r) ∧ Heap cmp s' ∧ SPost cmp s op r s' := by
  cases op with
  | push x =>
    obtain ⟨s', h1, h2, h3⟩ := slice_push hs s x h
    exact ⟨s', .unit, by simp [stepS, h1], h2, rfl, h3⟩
  | pop =>
    by_cases h0 : s = []
    · have := (slice_pop hs s h).1 h0
      subst h0
      exact ⟨[], .val 0 false, by simp [stepS, this], h, Or.inl ⟨rfl, rfl, rfl⟩⟩
    · obtain ⟨s', x, h1, h2, h3, h4⟩ := (slice_pop hs s h).2 h0
      exact ⟨s', .val x true, by simp [stepS, h1], h2, Or.inr ⟨x, rfl, h3, h4⟩⟩
  | peek =>
    by_cases h0 : s = []
    · have := (slice_peek hs s h).1 h0
      exact ⟨s, .val 0 false, by simp [stepS, this], h, rfl, Or.inl ⟨h0, rfl⟩⟩
    · obtain ⟨x, h1, h2, h3⟩ := (slice_peek hs s h).2 h0
      exact ⟨s, .val x true, by simp [stepS, h1], h, rfl, Or.inr ⟨x, rfl, h2, h3⟩⟩
  | len => exact ⟨s, .len s.length, rfl, h, rfl, rfl⟩
  | remove i =>
    by_cases hout : i < 0 ∨ (s.length : Int) ≤ i
    · have := slice_remove_out cmp s i hout
      exact ⟨s, .val 0 false, by simp [stepS, this], h, Or.inl ⟨hout, rfl, rfl⟩⟩
    · obtain ⟨k, rfl⟩ := Int.eq_ofNat_of_zero_le (show 0 ≤ i by omega)
      have hk : k < s.length := by omega
      obtain ⟨s', h1, h2, h3⟩ := slice_remove_in hs s k h hk
      exact ⟨s', .val (nthN s k) true, by simp [stepS, h1], h2, Or.inr ⟨k, rfl, hk, rfl, h3⟩⟩
  | fix i =>
    by_cases hout : i < 0 ∨ (s.length : Int) ≤ i
    · have := slice_fix_out cmp s i hout
      exact ⟨s, .unit, by simp [stepS, this], h, rfl, List.Perm.refl _⟩
    · obtain ⟨k, rfl⟩ := Int.eq_ofNat_of_zero_le (show 0 ≤ i by omega)
      have hk : k < s.length := by omega
      obtain ⟨s', h1, h2, h3⟩ := slice_fix_in hs s k (s[k]) h hk
      rw [List.set_getElem_self hk] at h1 h3
      exact ⟨s', .unit, by simp [stepS, h1], h2, rfl, h3⟩
  | setFix i v =>
    have hi : i < s.length := hpre
    obtain ⟨s', h1, h2, h3⟩ := slice_fix_in hs s i v h hi
    exact ⟨s', .unit, by simp [stepS, hi, h1], h2, rfl, h3⟩
  | popAll =>
    obtain ⟨xs, h1, h2, h3⟩ := slice_popAll hs s.length s rfl h
    exact ⟨[], .vals xs, by simp [stepS, h1], heap_nil cmp, rfl, xs, rfl, h2, h3⟩
  | popAllN k =>
    obtain ⟨s', xs, h1, h2, h3, h4, h5, h6⟩ := slice_popAllK hs k s h
    exact ⟨s', .vals xs, by simp [stepS, h1], h2, xs, rfl, h3, h4, h5, h6⟩

theorem slice_steps {cmp} (hs : SWO cmp) : ∀ (ops : List SOp) (s : List Int), Heap cmp s →
    SliceSteps cmp ops s := by
  intro ops
  induction ops with
  | nil => intro s _; trivial
  | cons op ops ih =>
    intro s h hpre
    obtain ⟨s', r, h1, h2, h3⟩ := slice_step hs s h op hpre
    exact ⟨s', r, h1, h2, h3, ih s' h2⟩

/-! ### an interrupted `PopAll` IS `k` `Pop`s -/

/-- run an op list, keeping only `Values` -/
def runS (cmp : Int → Int → Bool) : List SOp → List Int → Option (List Int)
  | [], s => some s
  | op :: ops, s =>
    match stepS cmp s op with
    | none => none
    | some (s', _) => runS cmp ops s'

theorem slice_pop_false {cmp} {s s1 : List Int} {x : Int} (h : Slice.pop cmp s = some (s1, x, false)) :
    s = [] ∧ s1 = [] := by
  cases s with
  | nil => simp [Slice.pop] at h; exact ⟨rfl, h.1⟩
  | cons a t =>
    exfalso
    simp only [Slice.pop] at h
    split at h
    · simp at *; omega
    · split at h
      · split at h <;> simp at h
      · split at h
        · cases h
        · split at h
          · cases h
          · split at h <;> simp at h

theorem runS_pops_nil (cmp : Int → Int → Bool) : ∀ k, runS cmp (List.replicate k .pop) [] = some [] := by
  intro k
  induction k with
  | zero => rfl
  | succ k ih => simp [List.replicate_succ, runS, stepS, Slice.pop, ih]

/-- `Values` after `PopAll` was left at the `k`-th element = `Values` after `k` calls of `Pop`. -/
theorem slice_popAllN_is_pops (cmp : Int → Int → Bool) : ∀ (k : Nat) (s : List Int),
    (stepS cmp s (.popAllN k)).map (fun p => p.1) = runS cmp (List.replicate k .pop) s := by
  intro k
  induction k with
  | zero => intro s; simp [stepS, Slice.popAllK, runS]
  | succ k ih =>
    intro s
    have ih' := ih
    simp only [stepS] at ih' ⊢
    simp only [List.replicate_succ, runS, stepS, Slice.popAllK]
    cases hp : Slice.pop cmp s with
    | none => simp
    | some p =>
      obtain ⟨s1, x, ok⟩ := p
      cases ok with
      | false =>
        obtain ⟨_, rfl⟩ := slice_pop_false hp
        simp [runS_pops_nil]
      | true =>
        simp only [Option.map_some]
        rw [← ih' s1]
        cases Slice.popAllK cmp k s1 <;> simp

/-! ### `PopAll` with a loop body -/

/-- a list of calls, each doing what `SPost` says, `Values` heap-ordered after each -/
def SRunOK (cmp : Int → Int → Bool) : List Int → List SOp → List SRet → List Int → Prop
  | s, [], rs, s' => rs = [] ∧ s' = s
  | s, o :: os, rs, s' => ∃ r rs' s1, rs = r :: rs' ∧ SPost cmp s o r s1 ∧ Heap cmp s1 ∧
      SRunOK cmp s1 os rs' s'

/-- The explicit loop `for len > 0 { x := Pop(); body(i, x); if i+1 == k { break } }` in terms of
the multiset: each yielded `x` is preceded by no element of `Values` at its turn (after the EARLIER
bodies), and the body of its iteration runs on `Values` without `x`. -/
def SBodyLoopOK (cmp : Int → Int → Bool) (body : Nat → List SOp) (k : Nat) :
    Nat → Nat → List Int → List Int → List SRet → Bool → List Int → Prop
  | 0, _, s, xs, rs, d, s' => xs = [] ∧ rs = [] ∧ d = false ∧ s' = s
  | f + 1, i, s, xs, rs, d, s' =>
    (s = [] ∧ xs = [] ∧ rs = [] ∧ d = true ∧ s' = []) ∨
    ∃ x xs' rs1 rs2 s1 s2, xs = x :: xs' ∧ rs = rs1 ++ rs2 ∧ (x :: s1).Perm s ∧
      (∀ y, y ∈ s → cmp y x = false) ∧ Heap cmp s1 ∧ SRunOK cmp s1 (body i) rs1 s2 ∧
      (if i + 1 = k then xs' = [] ∧ rs2 = [] ∧ d = true ∧ s' = s2
       else SBodyLoopOK cmp body k f (i + 1) s2 xs' rs2 d s')

theorem runSR_ok {cmp} (hs : SWO cmp) : ∀ (ops : List SOp) (s : List Int), Heap cmp s →
    (∀ o, o ∈ ops → ∀ s', sPre s' o) →
    ∃ s' rs, runSR cmp s ops = some (s', rs) ∧ SRunOK cmp s ops rs s' ∧ Heap cmp s' := by
  intro ops
  induction ops with
  | nil => intro s h _; exact ⟨s, [], rfl, ⟨rfl, rfl⟩, h⟩
  | cons o os ih =>
    intro s h hp
    obtain ⟨s1, r, h1, h2, h3⟩ := slice_step hs s h o (hp o List.mem_cons_self s)
    obtain ⟨s2, rs, hrun, hok, hheap⟩ := ih s1 h2 (fun o' ho' => hp o' (List.mem_cons_of_mem _ ho'))
    exact ⟨s2, r :: rs, by simp [runSR, h1, hrun], ⟨r, rs, s1, rfl, h3, h2, hok⟩, hheap⟩

/-- `Slice.PopAll` with a loop body (pop, then yield, as coded) = the explicit loop; no panic;
`Values` heap-ordered at the end. -/
theorem slice_body_loop {cmp} (hs : SWO cmp) (body : Nat → List SOp) (k : Nat)
    (hb : ∀ i o, o ∈ body i → ∀ s', sPre s' o) :
    ∀ (f i : Nat) (s : List Int), Heap cmp s →
    ∃ s' xs rs d, Slice.popAllBody cmp body k f i s = some (s', xs, rs, d) ∧
      SBodyLoopOK cmp body k f i s xs rs d s' ∧ Heap cmp s' := by
  intro f
  induction f with
  | zero => intro i s h; exact ⟨s, [], [], false, rfl, ⟨rfl, rfl, rfl, rfl⟩, h⟩
  | succ f ih =>
    intro i s h
    by_cases h0 : s = []
    · subst h0
      exact ⟨[], [], [], true, by simp [Slice.popAllBody, Slice.pop], Or.inl ⟨rfl, rfl, rfl, rfl, rfl⟩, h⟩
    · obtain ⟨s1, x, hpop, hheap1, hperm1, hmin⟩ := (slice_pop hs s h).2 h0
      obtain ⟨s2, rs1, hrun1, hok1, hheap2⟩ := runSR_ok hs (body i) s1 hheap1 (hb i)
      by_cases hk : i + 1 = k
      · refine ⟨s2, [x], rs1, true, by simp [Slice.popAllBody, hpop, hrun1, hk], Or.inr ?_, hheap2⟩
        exact ⟨x, [], rs1, [], s1, s2, rfl, by simp, hperm1, hmin, hheap1, hok1, by simp [hk]⟩
      · obtain ⟨s3, xs, rs2, d, hrun3, hok3, hheap3⟩ := ih (i + 1) s2 hheap2
        refine ⟨s3, x :: xs, rs1 ++ rs2, d, by simp [Slice.popAllBody, hpop, hrun1, hk, hrun3], Or.inr ?_, hheap3⟩
        exact ⟨x, xs, rs1, rs2, s1, s2, rfl, rfl, hperm1, hmin, hheap1, hok1, by simp [hk]; exact hok3⟩

end Golib.C04
