/-
AES key expansion invariant for the executable AES of `Golib/Model/C08Aes.lean`:
for a key of 16/24/32 bytes every round key `roundKey (expandKey key) r`, `r ≤ Nr`, has
16 elements (and consists of bytes when the key does).  Consequences that need nothing
else: `encryptBlock` / `decryptBlock` always return 16 elements for such keys.

The invariant is proved once, for an arbitrary element predicate `P` that is closed under
the operations of the key schedule; `P := fun _ => True` gives the pure length facts and
`P := (· < 256)` the byte-range facts.
-/
import Golib.Model.C08Aes
import Golib.Model.C08Pad

namespace Golib.C08
open AES

/-- every element satisfies `P` (`IsBytes` is `AllP (· < 256)`) -/
def AllP (P : Nat → Prop) (x : List Nat) : Prop := ∀ y ∈ x, P y

theorem isBytes_iff_allP (x : Bytes) : IsBytes x ↔ AllP (· < 256) x := Iff.rfl

theorem allP_true (x : List Nat) : AllP (fun _ => True) x := fun _ _ => trivial

theorem allP_append {P : Nat → Prop} {a b : List Nat} :
    AllP P (a ++ b) ↔ AllP P a ∧ AllP P b := by
  constructor
  · intro h
    exact ⟨fun y hy => h y (List.mem_append_left _ hy), fun y hy => h y (List.mem_append_right _ hy)⟩
  · rintro ⟨ha, hb⟩ y hy
    rcases List.mem_append.mp hy with h | h
    · exact ha y h
    · exact hb y h

/-! ### `xorBlock` -/

theorem xorBlock_length (a b : List Nat) : (xorBlock a b).length = min a.length b.length := by
  simp [xorBlock]

theorem xorBlock_allP {P : Nat → Prop} (hxor : ∀ a b, P a → P b → P (a ^^^ b)) :
    ∀ (a b : List Nat), AllP P a → AllP P b → AllP P (xorBlock a b)
  | [], _, _, _ => by simp [xorBlock, AllP]
  | _ :: _, [], _, _ => by simp [xorBlock, AllP]
  | x :: a, y :: b, ha, hb => by
    have ih := xorBlock_allP hxor a b (fun z hz => ha z (List.mem_cons_of_mem _ hz))
      (fun z hz => hb z (List.mem_cons_of_mem _ hz))
    intro z hz
    simp only [xorBlock, List.zipWith_cons_cons, List.mem_cons] at hz ih
    rcases hz with hz | hz
    · subst hz
      exact hxor _ _ (ha x (List.mem_cons_self)) (hb y (List.mem_cons_self))
    · exact ih z hz

theorem xorBlock_cancel : ∀ (a b : List Nat), a.length ≤ b.length → xorBlock (xorBlock a b) b = a
  | [], _, _ => by simp [xorBlock]
  | _ :: _, [], h => by simp at h
  | x :: a, y :: b, h => by
    have ih := xorBlock_cancel a b (by simpa using h)
    simp only [xorBlock, List.zipWith_cons_cons] at ih ⊢
    rw [ih, Nat.xor_assoc, Nat.xor_self, Nat.xor_zero]

/-! ### the element predicate -/

/-- closure properties of the element predicate used by the key schedule and the rounds -/
structure Closed (P : Nat → Prop) : Prop where
  xor : ∀ a b, P a → P b → P (a ^^^ b)
  sub : ∀ a, P (subByte a)
  zero : P 0
  rcon : ∀ i, P (rcon.getD i 0)

theorem closed_true : Closed (fun _ => True) :=
  ⟨fun _ _ _ _ => trivial, fun _ => trivial, trivial, fun _ => trivial⟩

theorem subByte_lt_fin : ∀ b : Fin 256, subByte b.val < 256 := by decide +kernel

theorem subByte_lt (a : Nat) : subByte a < 256 := by
  have h := subByte_lt_fin ⟨a % 256, Nat.mod_lt _ (by decide)⟩
  have e : subByte a = subByte (a % 256) := by simp [subByte]
  rw [e]; exact h

theorem xor_lt_256 (a b : Nat) (ha : a < 256) (hb : b < 256) : a ^^^ b < 256 :=
  Nat.xor_lt_two_pow (n := 8) ha hb

theorem rcon_lt_fin : ∀ i : Fin 10, rcon.getD i.val 0 < 256 := by decide +kernel

theorem rcon_lt (i : Nat) : rcon.getD i 0 < 256 := by
  by_cases h : i < 10
  · exact rcon_lt_fin ⟨i, h⟩
  · have : rcon.length ≤ i := by simp [rcon]; omega
    simp [List.getD, List.getElem?_eq_none this]

theorem closed_byte : Closed (· < 256) :=
  ⟨xor_lt_256, subByte_lt, by decide, rcon_lt⟩

/-! ### key expansion -/

/-- a key-schedule word: 4 elements, all satisfying `P` -/
def Word (P : Nat → Prop) (x : List Nat) : Prop := x.length = 4 ∧ AllP P x

/-- one step of the key-expansion fold (the lambda of `expandKey`). -/
def ekStep (nk : Nat) (w : Array (List Nat)) (j : Nat) : Array (List Nat) :=
  let i := j + nk
  let prev := w.getD (i - 1) []
  let temp :=
    if i % nk = 0 then
      xorBlock ((prev.drop 1 ++ prev.take 1).map subByte) [AES.rcon.getD (i / nk - 1) 0, 0, 0, 0]
    else if nk > 6 ∧ i % nk = 4 then prev.map subByte
    else prev
  w.push (xorBlock (w.getD (i - nk) []) temp)

theorem expandKey_eq (key : List Nat) :
    expandKey key =
      (List.range (4 * (key.length / 4 + 6 + 1) - key.length / 4)).foldl (ekStep (key.length / 4))
        (((List.range (key.length / 4)).map fun i => (key.drop (4*i)).take 4).toArray) := rfl

/-- the first `sz` words are well formed -/
def Good (P : Nat → Prop) (w : Array (List Nat)) (sz : Nat) : Prop :=
  w.size = sz ∧ ∀ i, i < sz → Word P (w.getD i [])

theorem getD_push_lt (w : Array (List Nat)) (x : List Nat) (i : Nat) (h : i < w.size) :
    (w.push x).getD i [] = w.getD i [] := by
  simp [Array.getD, Array.getElem_push, h, Nat.lt_succ_of_lt h]

theorem getD_push_eq (w : Array (List Nat)) (x : List Nat) :
    (w.push x).getD w.size [] = x := by
  simp [Array.getD]

theorem word_xor {P : Nat → Prop} (hP : Closed P) {a b : List Nat} (ha : Word P a) (hb : Word P b) :
    Word P (xorBlock a b) :=
  ⟨by rw [xorBlock_length, ha.1, hb.1]; rfl, xorBlock_allP hP.xor a b ha.2 hb.2⟩

theorem word_map_sub {P : Nat → Prop} (hP : Closed P) {a : List Nat} (ha : a.length = 4) :
    Word P (a.map subByte) := by
  refine ⟨by simp [ha], ?_⟩
  intro y hy
  obtain ⟨z, _, rfl⟩ := List.mem_map.mp hy
  exact hP.sub z

theorem ekStep_good {P : Nat → Prop} (hP : Closed P) (nk : Nat) (hnk : 0 < nk)
    (w : Array (List Nat)) (j : Nat) (hw : Good P w (nk + j)) :
    Good P (ekStep nk w j) (nk + (j + 1)) := by
  obtain ⟨hsz, hall⟩ := hw
  have hprev : Word P (w.getD (j + nk - 1) []) := hall _ (by omega)
  have hback : Word P (w.getD (j + nk - nk) []) := hall _ (by omega)
  have htemp : Word P
      (if (j + nk) % nk = 0 then
        xorBlock (((w.getD (j + nk - 1) []).drop 1 ++ (w.getD (j + nk - 1) []).take 1).map subByte)
          [AES.rcon.getD ((j + nk) / nk - 1) 0, 0, 0, 0]
      else if nk > 6 ∧ (j + nk) % nk = 4 then (w.getD (j + nk - 1) []).map subByte
      else w.getD (j + nk - 1) []) := by
    split
    · refine word_xor hP (word_map_sub hP ?_) ⟨rfl, ?_⟩
      · rw [List.length_append, List.length_drop, List.length_take, hprev.1]; rfl
      · intro y hy
        simp only [List.mem_cons, List.not_mem_nil, or_false] at hy
        rcases hy with rfl | rfl | rfl | rfl
        · exact hP.rcon _
        · exact hP.zero
        · exact hP.zero
        · exact hP.zero
    · split
      · exact word_map_sub hP hprev.1
      · exact hprev
  have hnew := word_xor hP hback htemp
  refine ⟨by simp only [ekStep, Array.size_push, hsz]; omega, ?_⟩
  intro i hi
  by_cases h : i < w.size
  · have : (ekStep nk w j).getD i [] = w.getD i [] := getD_push_lt _ _ _ h
    rw [this]; exact hall i (by omega)
  · have hi' : i = w.size := by omega
    subst hi'
    have : (ekStep nk w j).getD w.size [] = _ := getD_push_eq _ _
    rw [this]; exact hnew

theorem foldl_ekStep_good {P : Nat → Prop} (hP : Closed P) (nk : Nat) (hnk : 0 < nk)
    (w0 : Array (List Nat)) (h0 : Good P w0 nk) :
    ∀ n, Good P ((List.range n).foldl (ekStep nk) w0) (nk + n) := by
  intro n
  induction n with
  | zero => simpa using h0
  | succ n ih =>
    rw [List.range_succ, List.foldl_append]
    exact ekStep_good hP nk hnk _ n ih

theorem w0_good {P : Nat → Prop} (key : List Nat) (hk : AllP P key) (nk : Nat)
    (hlen : 4 * nk ≤ key.length) :
    Good P (((List.range nk).map fun i => (key.drop (4*i)).take 4).toArray) nk := by
  refine ⟨by simp, ?_⟩
  intro i hi
  have : (((List.range nk).map fun i => (key.drop (4*i)).take 4).toArray).getD i [] =
      (key.drop (4*i)).take 4 := by
    simp [Array.getD, hi]
  rw [this]
  refine ⟨by simp; omega, ?_⟩
  intro y hy
  exact hk y (List.mem_of_mem_drop (List.mem_of_mem_take hy))

theorem keyOK_cases {key : Bytes} (hk : keyOK key = true) :
    key.length = 16 ∨ key.length = 24 ∨ key.length = 32 := by
  simpa [keyOK] using hk

theorem expandKey_good {P : Nat → Prop} (hP : Closed P) (key : Bytes) (hk : keyOK key = true)
    (hkb : AllP P key) :
    Good P (expandKey key) (4 * (numRounds key + 1)) := by
  have hc := keyOK_cases hk
  have h := foldl_ekStep_good hP (key.length / 4) (by omega)
    _ (w0_good key hkb (key.length / 4) (by omega)) (4 * (key.length / 4 + 6 + 1) - key.length / 4)
  rw [← expandKey_eq] at h
  have e : key.length / 4 + (4 * (key.length / 4 + 6 + 1) - key.length / 4) =
      4 * (numRounds key + 1) := by
    simp only [numRounds]; omega
  rw [e] at h
  exact h

/-- a 16-element block whose elements satisfy `P` -/
def Block (P : Nat → Prop) (x : List Nat) : Prop := x.length = 16 ∧ AllP P x

theorem roundKey_block {P : Nat → Prop} (hP : Closed P) (key : Bytes) (hk : keyOK key = true)
    (hkb : AllP P key) (r : Nat) (hr : r ≤ numRounds key) :
    Block P (roundKey (expandKey key) r) := by
  obtain ⟨_, hall⟩ := expandKey_good hP key hk hkb
  have h0 := hall (4*r) (by omega)
  have h1 := hall (4*r+1) (by omega)
  have h2 := hall (4*r+2) (by omega)
  have h3 := hall (4*r+3) (by omega)
  refine ⟨by simp only [roundKey, List.length_append, h0.1, h1.1, h2.1, h3.1], ?_⟩
  simp only [roundKey]
  exact allP_append.mpr ⟨allP_append.mpr ⟨allP_append.mpr ⟨h0.2, h1.2⟩, h2.2⟩, h3.2⟩

theorem roundKey_length (key : Bytes) (hk : keyOK key = true) (r : Nat) (hr : r ≤ numRounds key) :
    (roundKey (expandKey key) r).length = 16 :=
  (roundKey_block closed_true key hk (allP_true key) r hr).1

theorem roundKey_isBytes (key : Bytes) (hk : keyOK key = true) (hkb : IsBytes key)
    (r : Nat) (hr : r ≤ numRounds key) :
    IsBytes (roundKey (expandKey key) r) :=
  (roundKey_block closed_byte key hk hkb r hr).2

/-! ### lengths of the round operations and of the ciphers -/

theorem shiftRows_length (s : List Nat) : (shiftRows s).length = 16 := by simp [shiftRows]
theorem invShiftRows_length (s : List Nat) : (invShiftRows s).length = 16 := by simp [invShiftRows]
theorem mixWith_length (m s : List Nat) : (mixWith m s).length = 16 := rfl
theorem subBytes_length (s : List Nat) : (subBytes s).length = s.length := by simp [subBytes]
theorem invSubBytes_length (s : List Nat) : (invSubBytes s).length = s.length := by simp [invSubBytes]

/-- `Cipher` returns 16 elements for every valid key, whatever the input block is. -/
theorem encryptBlock_length (key blk : Bytes) (hk : keyOK key = true) :
    (encryptBlock key blk).length = 16 := by
  simp only [encryptBlock]
  rw [xorBlock_length, shiftRows_length, roundKey_length key hk _ (Nat.le_refl _)]
  rfl

/-- `InvCipher` returns 16 elements for every valid key, whatever the input block is. -/
theorem decryptBlock_length (key blk : Bytes) (hk : keyOK key = true) :
    (decryptBlock key blk).length = 16 := by
  simp only [decryptBlock]
  rw [xorBlock_length, invSubBytes_length, invShiftRows_length,
    roundKey_length key hk _ (Nat.zero_le _)]
  rfl

end Golib.C08
