/-
Helper lemmas for C20 (CountGenerator): with rules sorted by period and positive
parameters (fitting a Go `int`, i.e. below 2^63), `Generate` never panics, lies
between `Min` and `Max`, and is non-decreasing in `diff`.
-/
import Golib.Model.C20Count

set_option linter.unusedSimpArgs false
set_option linter.unusedVariables false

namespace Golib.C20

/-- positive parameters; the two that go through `uint64(max)` fit a Go `int` -/
structure Rule.OK (v : Rule) : Prop where
  period   : 0 < v.period
  interval : 0 < v.interval
  imax0    : 0 < v.intervalMaxIncr
  imax1    : v.intervalMaxIncr < 2 ^ 63
  pmax0    : 0 < v.periodEndMaxIncr
  pmax1    : v.periodEndMaxIncr < 2 ^ 63

/-- periods non-decreasing along the list, starting at or above `last` -/
def Sorted (last : Int) : List Rule → Prop
  | [] => True
  | v :: rs => last ≤ v.period ∧ Sorted v.period rs

theorem getRand_range (n : Nat) (max : Int) (h0 : 0 < max) (h1 : max < 2 ^ 63) :
    ∃ m, getRand n max = some m ∧ 1 ≤ m ∧ m ≤ max := by
  obtain ⟨k, rfl⟩ := Int.eq_ofNat_of_zero_le (Int.le_of_lt h0)
  have hk0 : 0 < k := by omega
  have hk1 : k < 9223372036854775808 := by omega
  have hne : ¬ ((k : Int) = 0) := by omega
  have hm : ((k : Int) % 2 ^ 64).toNat = k := by omega
  have hlt : n % k < k := Nat.mod_lt _ hk0
  have hmz : ¬ (k = 0) := by omega
  refine ⟨((n % k : Nat) : Int) + 1, ?_, by omega, by omega⟩
  simp only [getRand, hne, if_false, hm, hmz]

theorem goDiv_pos (a b : Int) (ha : 0 ≤ a) (hb : 0 < b) :
    goDiv a b = some (a / b) ∧ 0 ≤ a / b := by
  have : ¬ (b = 0) := by omega
  simp only [goDiv, this, if_false, Int.tdiv_eq_ediv_of_nonneg ha, true_and]
  exact Int.ediv_nonneg ha (Int.le_of_lt hb)

/-- Bounds, generalised over the accumulated counts. -/
theorem loops_bounds (hn : Nat) (diff : Int) :
    ∀ (rs : List Rule) (last count cmin cmax : Int),
      Sorted last rs → (∀ v ∈ rs, v.OK) → last ≤ diff → cmin ≤ count → count ≤ cmax →
      ∃ g mn mx, genLoop hn diff rs count last = some g ∧ minLoop diff rs cmin last = some mn ∧
        maxLoop diff rs cmax last = some mx ∧ mn ≤ g ∧ g ≤ mx ∧ count ≤ g := by
  intro rs
  induction rs with
  | nil =>
    intro last count cmin cmax _ _ _ h1 h2
    exact ⟨count, cmin, cmax, rfl, rfl, rfl, h1, h2, Int.le_refl _⟩
  | cons v rs ih =>
    intro last count cmin cmax hs hok hl h1 h2
    have hv := hok v (List.mem_cons_self ..)
    obtain ⟨multi, hmulti, hm1, hm2⟩ := getRand_range hn v.intervalMaxIncr hv.imax0 hv.imax1
    obtain ⟨pe, hpe, hp1, hp2⟩ := getRand_range hn v.periodEndMaxIncr hv.pmax0 hv.pmax1
    simp only [genLoop, minLoop, maxLoop, hmulti]
    by_cases hd : diff < v.period
    · simp only [hd, if_true]
      obtain ⟨hq, hq0⟩ := goDiv_pos (diff - last) v.interval (by omega) hv.interval
      simp only [hq, Option.map_some]
      generalize (diff - last) / v.interval = q at hq0
      have e1 : q * 1 ≤ q * multi := Int.mul_le_mul_of_nonneg_left hm1 hq0
      have e2 : q * multi ≤ q * v.intervalMaxIncr := Int.mul_le_mul_of_nonneg_left hm2 hq0
      have e3 : 0 ≤ q * multi := Int.mul_nonneg hq0 (by omega)
      exact ⟨_, _, _, rfl, rfl, rfl, by omega, by omega, by omega⟩
    · simp only [hd, if_false]
      obtain ⟨hq, hq0⟩ := goDiv_pos (v.period - last) v.interval (by have := hs.1; omega) hv.interval
      simp only [hq, hpe]
      generalize (v.period - last) / v.interval = q at hq0
      have e1 : q * 1 ≤ q * multi := Int.mul_le_mul_of_nonneg_left hm1 hq0
      have e2 : q * multi ≤ q * v.intervalMaxIncr := Int.mul_le_mul_of_nonneg_left hm2 hq0
      have e3 : 0 ≤ q * multi := Int.mul_nonneg hq0 (by omega)
      obtain ⟨g, mn, mx, hg, hmn, hmx, b1, b2, b3⟩ :=
        ih v.period (count + (q * multi + pe)) (cmin + (q + 1))
          (cmax + (q * v.intervalMaxIncr + v.periodEndMaxIncr)) hs.2
          (fun w hw => hok w (List.mem_cons_of_mem _ hw)) (by omega) (by omega) (by omega)
      exact ⟨g, mn, mx, hg, hmn, hmx, b1, b2, by omega⟩

/-- Monotonicity in `diff`, generalised over the accumulated count. -/
theorem genLoop_mono (hn : Nat) (d1 d2 : Int) (hd : d1 ≤ d2) :
    ∀ (rs : List Rule) (last count : Int),
      Sorted last rs → (∀ v ∈ rs, v.OK) → last ≤ d1 →
      ∃ g1 g2, genLoop hn d1 rs count last = some g1 ∧ genLoop hn d2 rs count last = some g2 ∧
        g1 ≤ g2 := by
  intro rs
  induction rs with
  | nil => intro last count _ _ _; exact ⟨count, count, rfl, rfl, Int.le_refl _⟩
  | cons v rs ih =>
    intro last count hs hok hl
    have hv := hok v (List.mem_cons_self ..)
    obtain ⟨multi, hmulti, hm1, hm2⟩ := getRand_range hn v.intervalMaxIncr hv.imax0 hv.imax1
    obtain ⟨pe, hpe, hp1, hp2⟩ := getRand_range hn v.periodEndMaxIncr hv.pmax0 hv.pmax1
    have hok' : ∀ w ∈ rs, w.OK := fun w hw => hok w (List.mem_cons_of_mem _ hw)
    simp only [genLoop, hmulti]
    by_cases h1 : d1 < v.period
    · simp only [h1, if_true]
      obtain ⟨hq1, hq10⟩ := goDiv_pos (d1 - last) v.interval (by omega) hv.interval
      simp only [hq1, Option.map_some]
      by_cases h2 : d2 < v.period
      · simp only [h2, if_true]
        obtain ⟨hq2, hq20⟩ := goDiv_pos (d2 - last) v.interval (by omega) hv.interval
        simp only [hq2, Option.map_some]
        have hle : (d1 - last) / v.interval ≤ (d2 - last) / v.interval :=
          Int.ediv_le_ediv hv.interval (by omega)
        have := Int.mul_le_mul_of_nonneg_right hle (by omega : 0 ≤ multi)
        exact ⟨_, _, rfl, rfl, by omega⟩
      · simp only [h2, if_false]
        obtain ⟨hq, hq0⟩ := goDiv_pos (v.period - last) v.interval (by omega) hv.interval
        simp only [hq, hpe]
        obtain ⟨g, _, _, hg, _, _, _, _, b3⟩ :=
          loops_bounds hn d2 rs v.period (count + ((v.period - last) / v.interval * multi + pe))
            (count + ((v.period - last) / v.interval * multi + pe))
            (count + ((v.period - last) / v.interval * multi + pe)) hs.2 hok' (by omega)
            (Int.le_refl _) (Int.le_refl _)
        have hle : (d1 - last) / v.interval ≤ (v.period - last) / v.interval :=
          Int.ediv_le_ediv hv.interval (by omega)
        have := Int.mul_le_mul_of_nonneg_right hle (by omega : 0 ≤ multi)
        exact ⟨_, g, rfl, hg, by omega⟩
    · have h2 : ¬ (d2 < v.period) := by omega
      simp only [h1, h2, if_false]
      obtain ⟨hq, hq0⟩ := goDiv_pos (v.period - last) v.interval (by have := hs.1; omega) hv.interval
      simp only [hq, hpe]
      exact ih v.period _ hs.2 hok' (by omega)

/-! ### AddRule keeps the rules sorted -/

theorem insertRule_sorted (x : Rule) :
    ∀ (rs : List Rule) (last : Int), Sorted last rs → last ≤ x.period → Sorted last (insertRule x rs) := by
  intro rs
  induction rs with
  | nil => intro last _ h; exact ⟨h, trivial⟩
  | cons y ys ih =>
    intro last hs h
    simp only [insertRule]
    split
    · exact ⟨h, ⟨by omega, hs.2⟩⟩
    · exact ⟨hs.1, ih y.period hs.2 (by omega)⟩

theorem insertRule_mem (x : Rule) (rs : List Rule) (w : Rule) :
    w ∈ insertRule x rs → w = x ∨ w ∈ rs := by
  induction rs with
  | nil => intro h; simp only [insertRule, List.mem_singleton] at h; exact Or.inl h
  | cons y ys ih =>
    intro h
    simp only [insertRule] at h
    split at h
    · rcases List.mem_cons.mp h with h | h
      · exact Or.inl h
      · exact Or.inr h
    · rcases List.mem_cons.mp h with h | h
      · exact Or.inr (h ▸ List.mem_cons_self ..)
      · rcases ih h with h | h
        · exact Or.inl h
        · exact Or.inr (List.mem_cons_of_mem _ h)

theorem foldl_addRule_ok (xs : List Rule) (hx : ∀ v ∈ xs, v.OK) :
    ∀ rs, Sorted 0 rs → (∀ v ∈ rs, v.OK) →
      Sorted 0 (xs.foldl addRule rs) ∧ ∀ v ∈ xs.foldl addRule rs, v.OK := by
  induction xs with
  | nil => intro rs h1 h2; exact ⟨h1, h2⟩
  | cons x xs ih =>
    intro rs h1 h2
    simp only [List.foldl_cons]
    have hxok := hx x (List.mem_cons_self ..)
    apply ih (fun v hv => hx v (List.mem_cons_of_mem _ hv))
    · exact insertRule_sorted x rs 0 h1 (Int.le_of_lt hxok.period)
    · intro w hw
      rcases insertRule_mem x rs w hw with rfl | h
      · exact hxok
      · exact h2 w h

end Golib.C20
