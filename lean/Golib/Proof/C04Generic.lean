/-
C04 helper lemmas, part 12: the generic `Init/Push/Pop/Remove/Fix` of `std_heap.go` on ANY lawful
`Interface` implementation.  "Lawful" = relative to an abstraction `abs : σ → List Int` the five
methods behave as those of a slice: `Less`/`Swap` give the same answers and panic in the same
cases (`Sim`), `Len` is the length, `Push` appends, `Pop` removes and returns the last element.
-/
import Golib.Proof.C04HeapOps

set_option linter.unusedSimpArgs false
set_option linter.unusedVariables false

namespace Golib.C04

/-- `Pop()` of a slice-like container: remove and return the last element (`none` = panic). -/
def sliceLast (s : List Int) : Option (List Int × Int) :=
  match nth s ((s.length : Int) - 1) with
  | none => none
  | some x => some (s.take ((s.length : Int) - 1).toNat, x)

structure Lawful {σ : Type} (I : Iface σ) (abs : σ → List Int) (cmp : Int → Int → Bool) : Prop where
  sim  : Sim I.ops (sliceOps cmp) (fun a s => abs a = s)
  len  : ∀ a, I.len a = ((abs a).length : Int)
  push : ∀ a x, abs (I.push a x) = abs a ++ [x]
  pop  : ∀ a, RelO (fun p q => abs p.1 = q.1 ∧ p.2 = q.2) (I.pop a) (sliceLast (abs a))

/-- the recording container of the harness is lawful -/
theorem rec_lawful (cmp : Int → Int → Bool) : Lawful (recIface cmp) (fun r => r.data) cmp := by
  refine ⟨rec_sim cmp, fun a => rfl, fun a x => rfl, fun a => ?_⟩
  simp only [recIface, Rec.popLast, sliceLast]
  cases nth a.data ((a.data.length : Int) - 1) <;> simp [RelO]

theorem relO_refl {α : Type} (R : α → α → Prop) (x : Option α) (hr : ∀ a, R a a) : RelO R x x := by
  cases x <;> simp [RelO, hr]

variable {σ : Type} {I : Iface σ} {abs : σ → List Int} {cmp : Int → Int → Bool}

theorem sliceLast_spec (s : List Int) (n : Nat) (h : s.length = n + 1) :
    sliceLast s = some (s.take n, nthN s n) := by
  have e : ((s.length : Nat) : Int) - 1 = (n : Int) := by omega
  simp only [sliceLast, e, nth_cast s n (by omega), Int.toNat_natCast]

theorem pop_law (L : Lawful I abs cmp) (a : σ) (n : Nat) (h : (abs a).length = n + 1) :
    ∃ a', I.pop a = some (a', nthN (abs a) n) ∧ abs a' = (abs a).take n := by
  have := L.pop a
  rw [sliceLast_spec _ n h] at this
  obtain ⟨p, hp, h1, h2⟩ := relO_some this
  obtain ⟨a', x⟩ := p
  simp only at h1 h2
  subst h2
  exact ⟨a', hp, h1⟩

theorem genI_init (hs : SWO cmp) (L : Lawful I abs cmp) (a : σ) :
    ∃ a', GenI.init I a = some a' ∧ Heap cmp (abs a') ∧ (abs a').Perm (abs a) := by
  obtain ⟨s', h1, _, h3, h4⟩ := build_spec hs (abs a)
  have := build_sim L.sim a (abs a) ((abs a).length : Int) rfl
  rw [h1] at this
  obtain ⟨a', e, hd⟩ := relO_some this
  exact ⟨a', by simpa [GenI.init, L.len] using e, hd ▸ h4, hd ▸ h3⟩

theorem genI_push (hs : SWO cmp) (L : Lawful I abs cmp) (a : σ) (x : Int) (h : Heap cmp (abs a)) :
    ∃ a', GenI.push I a x = some a' ∧ Heap cmp (abs a') ∧ (abs a').Perm (x :: abs a) := by
  obtain ⟨s', h1, h2, h3⟩ := slice_push hs (abs a) x h
  simp only [Slice.push] at h1
  have := up_sim L.sim (fuelOf (((abs a ++ [x]).length : Int) - 1)) (I.push a x) (abs a ++ [x])
    (((abs a ++ [x]).length : Int) - 1) (L.push a x)
  simp only [upF] at h1
  rw [h1] at this
  obtain ⟨a', e, hd⟩ := relO_some this
  refine ⟨a', ?_, hd ▸ h2, hd ▸ h3⟩
  simp only [GenI.push, upF, L.len, L.push]
  exact e

theorem genI_fix (hs : SWO cmp) (L : Lawful I abs cmp) (a : σ) (s0 : List Int) (i : Nat) (v : Int)
    (h : Heap cmp s0) (hi : i < s0.length) (ha : abs a = s0.set i v) :
    ∃ a', GenI.fix I a (i : Int) = some a' ∧ Heap cmp (abs a') ∧ (abs a').Perm (abs a) := by
  obtain ⟨s', hrun, hlen, hperm, _, hheap⟩ :=
    fix_spec hs (s0.set i v) i s0.length (nthN s0) (by simp) hi h (fun k _ hki => nthN_set s0 i v k hki)
  have := fix_sim L.sim a (s0.set i v) (i : Int) (s0.length : Int) ha
  rw [hrun] at this
  obtain ⟨a', e, hd⟩ := relO_some this
  refine ⟨a', ?_, ?_, by rw [hd, ha]; exact hperm⟩
  · simp only [GenI.fix, L.len, ha, List.length_set]; exact e
  · have : s'.length = s0.length := by rw [hlen]; simp
    rw [hd]; simpa [Heap, this] using hheap

theorem swapL_self (s : List Int) (k : Nat) (hk : k < s.length) : swapL s (k : Int) (k : Int) = some s := by
  rw [swapL_cast s k k hk hk]
  congr 1
  simp only [swapN]
  rw [List.set_set]
  have : nthN s k = s[k] := by simp [nthN, List.getElem?_eq_getElem hk]
  rw [this]; exact List.set_getElem_self hk

/-- generic `Pop(h)` on a non-empty heap: returns an element no element precedes, removes exactly
it, keeps the heap order. -/
theorem genI_pop (hs : SWO cmp) (L : Lawful I abs cmp) (a : σ) (h : Heap cmp (abs a))
    (hne : abs a ≠ []) :
    ∃ a' x, GenI.pop I a = some (a', x) ∧ Heap cmp (abs a') ∧ (x :: abs a').Perm (abs a) ∧
      ∀ y, y ∈ abs a → cmp y x = false := by
  have hmin : ∀ y, y ∈ abs a → cmp y (nthN (abs a) 0) = false := by
    intro y hy
    obtain ⟨k, hk, rfl⟩ := mem_nthN hy
    exact heap_root_min hs h k hk
  cases hL : (abs a).length with
  | zero => exact absurd (List.length_eq_zero_iff.1 hL) hne
  | succ n1 =>
    cases n1 with
    | zero =>
      -- one element: Swap(0,0), std_down(h,0,0) does nothing, h.Pop()
      have e0 : I.len a - 1 = 0 := by rw [L.len, hL]; rfl
      have hsw := L.sim.swap a (abs a) 0 0 rfl
      have hsw2 : (sliceOps cmp).swap (abs a) 0 0 = some (abs a) := by
        simp only [sliceOps]; simpa using swapL_self (abs a) 0 (by omega)
      rw [hsw2] at hsw
      obtain ⟨a1, ha1, hd1⟩ := relO_some hsw
      have hdn := downB_sim L.sim a1 (abs a) 0 0 hd1
      have hdn2 : downB (sliceOps cmp) (abs a) 0 0 = some (abs a, false) := by
        simp [downB, fuelOf, down]
      rw [hdn2] at hdn
      obtain ⟨p, hp, hq1, hq2⟩ := relO_some hdn
      obtain ⟨a2, b⟩ := p
      simp only at hq1 hq2
      obtain ⟨a', hpop, habs'⟩ := pop_law L a2 0 (by rw [hq1]; exact hL)
      rw [hq1] at hpop habs'
      refine ⟨a', nthN (abs a) 0, ?_, ?_, ?_, hmin⟩
      · simp only [GenI.pop, e0, ha1, hp, hpop]
      · rw [habs']; simpa using heap_nil cmp
      · rw [habs']
        have := eq_take_append_last (abs a) 0 hL
        simp only [List.take_zero, List.nil_append] at this ⊢
        rw [← this]
    | succ n =>
      obtain ⟨s2, b, hsw, hd, hs2len, hx, hheap', hperm'⟩ := slice_pop_run hs (abs a) h n hL
      have e0 : I.len a - 1 = ((n + 1 : Nat) : Int) := by rw [L.len, hL]; omega
      have hsw' := L.sim.swap a (abs a) 0 ((n + 1 : Nat) : Int) rfl
      have : (sliceOps cmp).swap (abs a) 0 ((n + 1 : Nat) : Int) = some (swapN (abs a) 0 (n + 1)) := hsw
      rw [this] at hsw'
      obtain ⟨a1, ha1, hd1⟩ := relO_some hsw'
      have hdn := downB_sim L.sim a1 _ 0 ((n + 1 : Nat) : Int) hd1
      rw [hd] at hdn
      obtain ⟨p, hp, hq1, hq2⟩ := relO_some hdn
      obtain ⟨a2, b2⟩ := p
      simp only at hq1 hq2
      obtain ⟨a', hpop', habs'⟩ := pop_law L a2 (n + 1) (by rw [hq1]; exact hs2len)
      rw [hq1, hx] at hpop'
      rw [hq1] at habs'
      refine ⟨a', nthN (abs a) 0, ?_, by rw [habs']; exact hheap', by rw [habs']; exact hperm', hmin⟩
      simp only [GenI.pop, e0, ha1, hp, hpop']

/-- generic `Remove(h, i)` at an index in range: returns and removes exactly element `i`, keeps
the heap order. -/
theorem genI_remove (hs : SWO cmp) (L : Lawful I abs cmp) (a : σ) (h : Heap cmp (abs a)) (k : Nat)
    (hk : k < (abs a).length) :
    ∃ a', GenI.remove I a (k : Int) = some (a', nthN (abs a) k) ∧ Heap cmp (abs a') ∧
      (nthN (abs a) k :: abs a').Perm (abs a) := by
  obtain ⟨n, hL⟩ : ∃ n, (abs a).length = n + 1 := ⟨(abs a).length - 1, by omega⟩
  have e0 : I.len a - 1 = (n : Int) := by rw [L.len, hL]; omega
  by_cases hkn : k = n
  · subst hkn
    obtain ⟨a', hpop', habs'⟩ := pop_law L a k hL
    refine ⟨a', ?_, ?_, ?_⟩
    · simp only [GenI.remove, e0, ne_eq, not_true_eq_false, if_false, hpop']
    · rw [habs']; exact heap_take (by omega) (fun c hc hc1 hlo => h c (by omega) hc1 hlo)
    · rw [habs']
      have h1 := eq_take_append_last (abs a) k hL
      have p : (nthN (abs a) k :: (abs a).take k).Perm ((abs a).take k ++ [nthN (abs a) k]) :=
        List.perm_append_comm (l₁ := [nthN (abs a) k]) (l₂ := (abs a).take k)
      exact p.trans (by rw [← h1])
  · have hlt : k < n := by omega
    obtain ⟨s2, hsw, hfix, hs2len, hx, hheap', hperm'⟩ := slice_remove_run hs (abs a) k n h hL hlt
    have hsw' := L.sim.swap a (abs a) (k : Int) (n : Int) rfl
    have : (sliceOps cmp).swap (abs a) (k : Int) (n : Int) = some (swapN (abs a) k n) := hsw
    rw [this] at hsw'
    obtain ⟨a1, ha1, hd1⟩ := relO_some hsw'
    have hfx := fix_sim L.sim a1 _ (k : Int) (n : Int) hd1
    rw [hfix] at hfx
    obtain ⟨a2, ha2, hd2⟩ := relO_some hfx
    obtain ⟨a', hpop', habs'⟩ := pop_law L a2 n (by rw [hd2]; exact hs2len)
    rw [hd2, hx] at hpop'
    rw [hd2] at habs'
    refine ⟨a', ?_, by rw [habs']; exact hheap', by rw [habs']; exact hperm'⟩
    have hne : ((n : Int) ≠ (k : Int)) := by omega
    -- `if !std_down(h, i, n) { std_up(h, i) }` is `fix`
    have ha2' := ha2
    unfold fix at ha2'
    cases hd : downB I.ops a1 (k : Int) (n : Int) with
    | none => rw [hd] at ha2'; cases ha2'
    | some p =>
      obtain ⟨x, b⟩ := p
      rw [hd] at ha2'
      cases b with
      | true =>
        simp only at ha2'
        have hxa : x = a2 := Option.some.inj ha2'
        subst hxa
        simp only [GenI.remove, e0, hne, ne_eq, not_false_eq_true, if_true, ha1, hd, hpop']
      | false =>
        simp only at ha2'
        simp only [GenI.remove, e0, hne, ne_eq, not_false_eq_true, if_true, ha1, hd, ha2', hpop']

/-! ### the recording container of the harness -/

theorem gen_init {cmp} (hs : SWO cmp) (r : Rec) :
    ∃ r', Gen.init cmp r = some r' ∧ Heap cmp r'.data ∧ r'.data.Perm r.data :=
  genI_init hs (rec_lawful cmp) r

theorem gen_push {cmp} (hs : SWO cmp) (r : Rec) (x : Int) (h : Heap cmp r.data) :
    ∃ r', Gen.push cmp r x = some r' ∧ Heap cmp r'.data ∧ r'.data.Perm (x :: r.data) :=
  genI_push hs (rec_lawful cmp) r x h

theorem gen_fix {cmp} (hs : SWO cmp) (r : Rec) (i : Nat) (v : Int) (h : Heap cmp r.data)
    (hi : i < r.data.length) :
    ∃ r', Gen.fix cmp { r with data := r.data.set i v } (i : Int) = some r' ∧ Heap cmp r'.data ∧
      r'.data.Perm (r.data.set i v) :=
  genI_fix hs (rec_lawful cmp) { r with data := r.data.set i v } r.data i v h hi rfl

end Golib.C04
