/-
C12 — loops and branches.  The extractor lists the statements of a loop / branch once,
between the surrounding lock events (and guarantees that no lock event occurs inside
a loop or branch).  What a goroutine really executes is an EXPANSION of that list:
the lock events exactly as listed, and between two of them any sequence (none, one,
many, any order) of the non-lock events listed in that segment.  The lock discipline
and the single critical section carry over to every expansion, so the race-freedom
and atomicity theorems apply to the real executions, not only to the flattened lists.
-/
import Golib.Proof.C12Race

namespace Golib.C12

def Ev.isLockEv : Ev → Bool
  | .rlock | .runlock | .lock | .unlock => true
  | _ => false

/-- `Expands body actual` -/
inductive Expands : List Ev → List Ev → Prop
  /-- the rest of the body has no lock event and is not executed any more -/
  | done {b : List Ev} : (∀ e ∈ b, e.isLockEv = false) → Expands b []
  /-- execute (again) any statement of the current segment -/
  | acc {e : Ev} {seg b a : List Ev} : (∀ x ∈ seg, x.isLockEv = false) → e ∈ seg →
      Expands (seg ++ b) a → Expands (seg ++ b) (e :: a)
  /-- leave the segment through the next lock event -/
  | cross {l : Ev} {seg b a : List Ev} : (∀ x ∈ seg, x.isLockEv = false) → l.isLockEv = true →
      Expands b a → Expands (seg ++ l :: b) (l :: a)

theorem check_nonlock {m m' : Mode} {e : Ev} (h : m.check e = some m') (he : e.isLockEv = false) :
    m' = m := by
  cases m <;> cases e <;> simp_all [Mode.check, Ev.isLockEv]

/-- Over a lock-free prefix the mode does not change and every statement is allowed. -/
theorem wl_prefix {m : Mode} {seg rest : List Ev} (hs : ∀ x ∈ seg, x.isLockEv = false)
    (h : wellLockedFrom m (seg ++ rest) = true) :
    wellLockedFrom m rest = true ∧ ∀ e ∈ seg, m.check e = some m := by
  induction seg with
  | nil => exact ⟨h, fun _ he => by cases he⟩
  | cons x xs ih =>
    simp only [List.cons_append, wellLockedFrom] at h
    split at h
    · rename_i m' hck
      have := check_nonlock hck (hs x (by simp))
      subst this
      obtain ⟨h1, h2⟩ := ih (fun y hy => hs y (by simp [hy])) h
      refine ⟨h1, fun e he => ?_⟩
      rcases List.mem_cons.1 he with rfl | he
      · exact hck
      · exact h2 e he
    · cases h

theorem Expands.wellLockedFrom {b a : List Ev} (hx : Expands b a) :
    ∀ {m : Mode}, wellLockedFrom m b = true → wellLockedFrom m a = true := by
  induction hx with
  | done hs =>
    intro m h
    have := (wl_prefix (rest := []) hs (by simpa using h)).1
    exact this
  | acc hs he _ ih =>
    intro m h
    have hck := (wl_prefix hs h).2 _ he
    show (match m.check _ with | some m' => Golib.C12.wellLockedFrom m' _ | none => false) = true
    rw [hck]
    exact ih h
  | cross hs _ _ ih =>
    intro m h
    have h1 := (wl_prefix hs h).1
    obtain ⟨m', hck, hw'⟩ := wellLockedFrom_cons h1
    show (match m.check _ with | some m' => Golib.C12.wellLockedFrom m' _ | none => false) = true
    rw [hck]
    exact ih hw'

theorem acquire_isLockEv {e : Ev} (h : e.isAcquire = true) : e.isLockEv = true := by
  cases e <;> simp_all [Ev.isAcquire, Ev.isLockEv]

theorem filter_acq_nonlock {seg : List Ev} (hs : ∀ x ∈ seg, x.isLockEv = false) :
    seg.filter Ev.isAcquire = [] := by
  rw [List.filter_eq_nil_iff]
  intro x hx hacq
  have := acquire_isLockEv hacq
  rw [hs x hx] at this
  cases this

theorem Expands.acquires {b a : List Ev} (hx : Expands b a) :
    (a.filter Ev.isAcquire).length = (b.filter Ev.isAcquire).length := by
  induction hx with
  | done hs => simp [filter_acq_nonlock hs]
  | @acc e seg b a hs he _ ih =>
    have : e.isAcquire = false := by
      cases hq : e.isAcquire
      · rfl
      · have := acquire_isLockEv hq
        rw [hs _ he] at this
        cases this
    rw [List.filter_cons, this]
    simpa using ih
  | cross hs _ _ ih =>
    simp only [List.filter_append, List.filter_cons, filter_acq_nonlock hs, List.nil_append]
    split <;> simp [ih]

/-- Every expansion of a body that passes the obligation passes it too. -/
theorem Expands.bodyOK {b a : List Ev} (hx : Expands b a) (h : bodyOK b = true) : bodyOK a = true := by
  simp only [Golib.C12.bodyOK, Bool.and_eq_true, wellLocked, oneSection, decide_eq_true_eq] at h ⊢
  exact ⟨hx.wellLockedFrom h.1, by rw [hx.acquires]; exact h.2⟩

end Golib.C12
