/-
The optimum of the 0-1 knapsack as a plain recursion over the item list (take it or leave
it) — the specification the value returned by `Knapsack` is compared with when the limit is
too large for the table-based model to be executed (limits around 2^20 and above, few items).
-/
import Golib.Proof.C18Knap

namespace Golib.C18

variable {α : Type}

theorem isum_cons (f : α → Int) (x : α) (l : List α) : isum f (x :: l) = f x + isum f l := by
  simp [isum]

theorem isum_nonneg' (f : α → Int) : ∀ l : List α, (∀ x ∈ l, 0 ≤ f x) → 0 ≤ isum f l
  | [], _ => by simp [isum]
  | x :: l, h => by
    have := isum_nonneg' f l (fun y hy => h y (List.mem_cons_of_mem _ hy))
    have := h x (by simp)
    rw [isum_cons]; omega

/-- `bruteOpt` is attained by a sub-selection within the capacity … -/
theorem bruteOpt_attained (wf vf : α → Int) : ∀ (items : List α) (cap : Int), 0 ≤ cap →
    ∃ t, t.Sublist items ∧ isum wf t ≤ cap ∧ isum vf t = bruteOpt wf vf items cap
  | [], cap, h => ⟨[], List.Sublist.refl _, by simpa [isum] using h, by simp [isum, bruteOpt]⟩
  | x :: xs, cap, h => by
    obtain ⟨t1, s1, w1, v1⟩ := bruteOpt_attained wf vf xs cap h
    simp only [bruteOpt]
    by_cases hx : wf x ≤ cap
    · rw [if_pos hx]
      obtain ⟨t2, s2, w2, v2⟩ := bruteOpt_attained wf vf xs (cap - wf x) (by omega)
      split
      · exact ⟨x :: t2, s2.cons_cons x, by rw [isum_cons]; omega, by rw [isum_cons, v2]⟩
      · exact ⟨t1, s1.cons x, w1, v1⟩
    · rw [if_neg hx]
      exact ⟨t1, s1.cons x, w1, v1⟩

/-- … and bounds every sub-selection within the capacity (non-negative weights). -/
theorem bruteOpt_upper (wf vf : α → Int) : ∀ (items : List α) (cap : Int),
    (∀ x ∈ items, 0 ≤ wf x) → ∀ t : List α, t.Sublist items → isum wf t ≤ cap →
    isum vf t ≤ bruteOpt wf vf items cap
  | [], cap, _, t, ht, _ => by
    have : t = [] := List.sublist_nil.mp ht
    subst this; simp [isum, bruteOpt]
  | x :: xs, cap, hw, t, ht, hc => by
    have hw' : ∀ y ∈ xs, 0 ≤ wf y := fun y hy => hw y (List.mem_cons_of_mem _ hy)
    simp only [bruteOpt]
    cases ht with
    | cons _ h =>
      have := bruteOpt_upper wf vf xs cap hw' t h hc
      split
      · split <;> omega
      · exact this
    | cons_cons _ h =>
      rename_i t'
      rw [isum_cons] at hc ⊢
      have hnn : 0 ≤ isum wf t' := isum_nonneg' wf t' (fun y hy => hw' y (h.subset hy))
      have hx : wf x ≤ cap := by omega
      have := bruteOpt_upper wf vf xs (cap - wf x) hw' t' h (by omega)
      rw [if_pos hx]
      split <;> omega

/-- The value of the selection `Knapsack` returns is `bruteOpt`. -/
theorem knapsack_value_eq_brute (br : Option (List α → List α → Bool)) (wf vf : α → Int)
    (W : Int) (items : List α) (hW : 0 ≤ W) (hw : ∀ x ∈ items, 0 ≤ wf x) :
    ∃ sel, knapsackGo br wf vf W items = some sel ∧ sel.Sublist items ∧ isum wf sel ≤ W ∧
      isum vf sel = bruteOpt wf vf items W := by
  obtain ⟨sel, h1, h2, h3, h4⟩ := knapsackGo_spec br wf vf W items hW hw
  obtain ⟨t, ts, tw, tv⟩ := bruteOpt_attained wf vf items W hW
  have hle := bruteOpt_upper wf vf items W hw sel h2 h3
  have hge := h4 t ts tw
  exact ⟨sel, h1, h2, h3, by omega⟩

end Golib.C18
