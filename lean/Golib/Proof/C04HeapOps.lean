/-
C04 helper lemmas, part 9: `PushElement`, `h.pop()`, `Pop`, `Peek`, `Remove(e)`, `Fix(e)` of
`Heap` keep the invariant `MemOK`, never panic, and change the set of live handles exactly as
a priority queue with handles should.
-/
import Golib.Proof.C04HeapInv

set_option linter.unusedSimpArgs false
set_option linter.unusedVariables false

namespace Golib.C04
open Golib.C13 (PM IM)

/-! ### `PushElement` -/

theorem pushElement_core {cm : Nat → Int → Int → Bool} {m : HMem} {h e : Nat} (hs : SWO (cm h)) (hh : h < 2)
    (hc : MemCore m) (hl : LeftOK m (fun x => x ≠ e)) (ho : ∀ h', h' < 2 → HeapOrd (cm h') m h')
    (hf : e < m.fresh) (hown : m.own.get e = none) :
    ∃ m', m.pushElement (cm h) h e = some m' ∧ MemOK cm m' ∧ (m'.arr h).Perm (e :: m.arr h) ∧
      m'.arr (oth h) = m.arr (oth h) ∧ m'.val = m.val ∧ m'.fresh = m.fresh := by
  -- the state handed to `up`
  let m2 : HMem := { ({ m with own := m.own.set e (some h) } : HMem) with
    idx := m.idx.set e ((m.arr h).length : Int) }
  let m3 : HMem := m2.setArr h (m.arr h ++ [e])
  have hrun0 : m.pushElement (cm h) h e = upF (heapOps (cm h) h) m3 ((m.arr h).length : Int) := rfl
  have a3 : m3.arr h = m.arr h ++ [e] := arr_setArr m2 h _
  have o3 : m3.arr (oth h) = m.arr (oth h) := arr_setArr_oth m2 h _
  have v3 : m3.val = m.val := val_setArr m2 h _
  have f3 : m3.fresh = m.fresh := fresh_setArr m2 h _
  have own3 : m3.own = m.own.set e (some h) := own_setArr m2 h _
  have idx3 : m3.idx = m.idx.set e ((m.arr h).length : Int) := idx_setArr m2 h _
  have enot : ∀ h', h' < 2 → e ∉ m.arr h' := by
    intro h' hh' he
    have := (hc.own e h' hh').2 he
    rw [hown] at this; cases this
  have arr3 : ∀ h', h' < 2 → ∀ x, (x ∈ m3.arr h' ↔ x ∈ m.arr h' ∨ (x = e ∧ h' = h)) := by
    intro h' hh' x
    rcases eq_or_oth hh hh' with rfl | rfl
    · rw [a3]; simp
    · rw [o3]; have := oth_ne hh; simp [this]
  have hI3 : IdxInv m3 h := by
    have hI := hc.idx h hh
    refine ⟨?_, ?_⟩
    · rw [a3, List.nodup_append]
      refine ⟨hI.nodup, by simp, ?_⟩
      intro a ha b hb
      simp at hb; subst hb
      intro hab; subst hab; exact enot h hh ha
    · intro k x hk
      rw [a3] at hk
      rw [idx3, IM.get_set]
      by_cases hlt : k < (m.arr h).length
      · rw [List.getElem?_append_left hlt] at hk
        have hx : x ≠ e := fun hxe => enot h hh (hxe ▸ List.mem_of_getElem? hk)
        simp only [hx, if_false]
        exact hI.index k x hk
      · rw [List.getElem?_append_right (by omega)] at hk
        have hk0 : k - (m.arr h).length = 0 := by
          cases hd : k - (m.arr h).length with
          | zero => rfl
          | succ d => rw [hd] at hk; simp at hk
        rw [hk0] at hk
        simp at hk
        subst hk
        simp only [if_true]
        omega
  have hc3 : MemCore m3 := by
    refine ⟨?_, ?_, ?_, ?_⟩
    · intro h' hh'
      rcases eq_or_oth hh hh' with rfl | rfl
      · exact hI3
      · have hI := hc.idx (oth h) (oth_lt2 h)
        refine ⟨by rw [o3]; exact hI.nodup, ?_⟩
        intro k x hk
        rw [o3] at hk
        have hx : x ≠ e := fun hxe => enot (oth h) (oth_lt2 h) (hxe ▸ List.mem_of_getElem? hk)
        rw [idx3, IM.get_set]
        simp only [hx, if_false]
        exact hI.index k x hk
    · intro x h' hh'
      rw [own3, PM.get_set, arr3 h' hh' x]
      by_cases hx : x = e
      · subst hx
        simp only [if_true]
        constructor
        · intro h1; exact Or.inr ⟨trivial, (Option.some.inj h1).symm⟩
        · rintro (h1 | ⟨_, h1⟩)
          · exact absurd h1 (enot h' hh')
          · rw [h1]
      · simp only [hx, if_false, false_and, or_false]
        exact hc.own x h' hh'
    · intro x h' hx
      rw [own3, PM.get_set] at hx
      by_cases hxe : x = e
      · simp only [hxe, if_true] at hx
        rw [← Option.some.inj hx]; exact hh
      · simp only [hxe, if_false] at hx
        exact hc.ownR x h' hx
    · intro h' hh' x hx
      rw [f3]
      rcases (arr3 h' hh' x).1 hx with h1 | ⟨h1, _⟩
      · exact hc.ltf h' hh' x h1
      · rw [h1]; exact hf
  have hl3 : LeftOK m3 (fun _ => True) := by
    intro x _ hxf hxo
    rw [own3, PM.get_set] at hxo
    by_cases hxe : x = e
    · simp [hxe] at hxo
    · simp only [hxe, if_false] at hxo
      rw [idx3, IM.get_set]
      simp only [hxe, if_false]
      rw [f3] at hxf
      exact hl x hxe hxf hxo
  have ho3 : HeapOrd (cm (oth h)) m3 (oth h) := by
    have := ho (oth h) (oth_lt2 h)
    unfold HeapOrd at this ⊢
    rw [o3, v3]; exact this
  -- the slice side
  have hs' := cmpId_swo hs m.val
  have hheap : Heap (cmpId (cm h) m.val) (ids m h) := (heapIds_iff (cm h) m.val m h).2 ((heapOrd_iff (cm h) m h).1 (ho h hh))
  obtain ⟨s', hpush, hheap', hperm'⟩ := slice_push hs' (ids m h) (e : Int) hheap
  have hids3 : ids m3 h = ids m h ++ [(e : Int)] := by simp [ids, a3]
  have hidx : (((ids m h ++ [(e : Int)]).length : Nat) : Int) - 1 = ((m.arr h).length : Int) := by
    simp
  simp only [Slice.push, hidx] at hpush
  rw [← hids3, ← v3] at hpush
  obtain ⟨m', hrun, R⟩ := up_transfer (cmp := cm h) (SiftRel.refl hI3) hpush
  refine ⟨m', hrun0.trans hrun, ?_, ?_, ?_, ?_, ?_⟩
  · exact sift_memOK hh hc3 hl3 ho3 R (by rw [v3]; exact hheap')
  · refine R.perm.trans ?_
    rw [a3]; exact List.perm_append_comm (l₁ := m.arr h) (l₂ := [e])
  · rw [R.other, o3]
  · rw [R.val, v3]
  · rw [R.fresh, f3]

/-! ### `h.pop()` after the victim has been moved to the end -/

theorem popLast_core {cm : Nat → Int → Int → Bool} {m2 : HMem} {h n : Nat} (hh : h < 2)
    (hc : MemCore m2) (hl : LeftOK m2 (fun _ => True)) (ho : HeapOrd (cm (oth h)) m2 (oth h))
    (hlen : (m2.arr h).length = n + 1)
    (hheap : Heap (cmpId (cm h) m2.val) ((ids m2 h).take n)) :
    ∃ m', m2.popLast h = some (m', elemAt m2 h n) ∧ MemOK cm m' ∧
      m'.arr h = (m2.arr h).take n ∧ m'.arr (oth h) = m2.arr (oth h) ∧ m'.val = m2.val ∧
      m'.fresh = m2.fresh ∧ m'.idx.get (elemAt m2 h n) = -1 ∧ m'.own.get (elemAt m2 h n) = none ∧
      (elemAt m2 h n :: m'.arr h).Perm (m2.arr h) := by
  let e := elemAt m2 h n
  have hen : (m2.arr h)[n]? = some e := elemAt_get (by omega)
  have hnth : nth (m2.arr h) (((m2.arr h).length : Int) - 1) = some e := by
    rw [nth_some_iff]; exact ⟨n, by omega, hen⟩
  let m1 : HMem := m2.setArr h ((m2.arr h).take n)
  let m' : HMem := { m1 with own := m1.own.set e none, idx := m1.idx.set e (-1) }
  have hrun : m2.popLast h = some (m', e) := by
    simp only [HMem.popLast, hnth]
    have : (((m2.arr h).length : Int) - 1).toNat = n := by omega
    rw [this]
  have a' : m'.arr h = (m2.arr h).take n := (arr_congr m1 m' h rfl rfl).trans (arr_setArr m2 h _)
  have o' : m'.arr (oth h) = m2.arr (oth h) := (arr_congr m1 m' (oth h) rfl rfl).trans (arr_setArr_oth m2 h _)
  have v' : m'.val = m2.val := val_setArr m2 h _
  have f' : m'.fresh = m2.fresh := fresh_setArr m2 h _
  have own' : m'.own = m2.own.set e none := by
    show m1.own.set e none = _; rw [own_setArr]
  have idx' : m'.idx = m2.idx.set e (-1) := by
    show m1.idx.set e (-1) = _; rw [idx_setArr]
  have hI := hc.idx h hh
  have hsplit : m2.arr h = (m2.arr h).take n ++ [e] := by
    have hn : n < (m2.arr h).length := by omega
    have e1 : e = (m2.arr h)[n] := by
      have := List.getElem?_eq_some_iff.1 hen; exact this.2.symm
    rw [e1, List.take_append_getElem hn, List.take_of_length_le (by omega)]
  have hnd : ((m2.arr h).take n ++ [e]).Nodup := hsplit ▸ hI.nodup
  have enot : e ∉ (m2.arr h).take n := by
    rw [List.nodup_append] at hnd
    intro he; exact hnd.2.2 e he e (by simp) rfl
  have emem : e ∈ m2.arr h := List.mem_of_getElem? hen
  have memtake : ∀ x, x ∈ (m2.arr h).take n ↔ (x ∈ m2.arr h ∧ x ≠ e) := by
    intro x
    constructor
    · intro hx; exact ⟨List.mem_of_mem_take hx, fun hxe => enot (hxe ▸ hx)⟩
    · rintro ⟨hx, hxe⟩
      rw [hsplit] at hx
      simp at hx
      rcases hx with hx | hx
      · exact hx
      · exact absurd hx hxe
  have arr' : ∀ h', h' < 2 → ∀ x, (x ∈ m'.arr h' ↔ x ∈ m2.arr h' ∧ x ≠ e) := by
    intro h' hh' x
    rcases eq_or_oth hh hh' with rfl | rfl
    · rw [a']; exact memtake x
    · rw [o']
      constructor
      · intro hx; exact ⟨hx, fun hxe => hc.disjoint hh emem (hxe ▸ hx)⟩
      · exact fun hx => hx.1
  have hc' : MemCore m' := by
    refine ⟨?_, ?_, ?_, ?_⟩
    · intro h' hh'
      have hI' := hc.idx h' hh'
      refine ⟨?_, ?_⟩
      · rcases eq_or_oth hh hh' with rfl | rfl
        · rw [a']; exact hI.nodup.sublist (List.take_sublist _ _)
        · rw [o']; exact hI'.nodup
      · intro k x hk
        have hx : x ∈ m'.arr h' := List.mem_of_getElem? hk
        have hxe : x ≠ e := ((arr' h' hh' x).1 hx).2
        rw [idx', IM.get_set]
        simp only [hxe, if_false]
        apply hI'.index
        rcases eq_or_oth hh hh' with rfl | rfl
        · rw [a', List.getElem?_take] at hk
          split at hk
          · exact hk
          · cases hk
        · rw [o'] at hk; exact hk
    · intro x h' hh'
      rw [own', PM.get_set, arr' h' hh' x]
      by_cases hxe : x = e
      · simp [hxe]
      · simp only [hxe, if_false, ne_eq, not_false_eq_true, and_true]
        exact hc.own x h' hh'
    · intro x h' hx
      rw [own', PM.get_set] at hx
      by_cases hxe : x = e
      · simp [hxe] at hx
      · simp only [hxe, if_false] at hx
        exact hc.ownR x h' hx
    · intro h' hh' x hx
      rw [f']
      exact hc.ltf h' hh' x ((arr' h' hh' x).1 hx).1
  have hl' : LeftOK m' (fun _ => True) := by
    intro x _ hxf hxo
    rw [idx', IM.get_set]
    by_cases hxe : x = e
    · simp [hxe]
    · simp only [hxe, if_false]
      rw [own', PM.get_set] at hxo
      simp only [hxe, if_false] at hxo
      rw [f'] at hxf
      exact hl x trivial hxf hxo
  refine ⟨m', hrun, ⟨hc', hl', ?_⟩, a', o', v', f', ?_, ?_, ?_⟩
  · intro h' hh'
    rcases eq_or_oth hh hh' with rfl | rfl
    · rw [heapOrd_iff, ← heapIds_iff]
      have : ids m' h' = (ids m2 h').take n := by simp [ids, a', List.map_take]
      rw [this, v']; exact hheap
    · unfold HeapOrd at ho ⊢
      rw [o', v']; exact ho
  · show m'.idx.get e = -1
    rw [idx', IM.get_set]; simp
  · show m'.own.get e = none
    rw [own', PM.get_set]; simp
  · show (e :: m'.arr h).Perm (m2.arr h)
    rw [a']
    have p : (e :: (m2.arr h).take n).Perm ((m2.arr h).take n ++ [e]) :=
      List.perm_append_comm (l₁ := [e]) (l₂ := (m2.arr h).take n)
    exact p.trans (by rw [← hsplit])

/-! ### inversion of successful `Slice.Pop` / `Slice.Remove` runs into their sift calls -/

theorem slice_pop_inv {cmp} {s s' : List Int} {x : Int} {n : Nat} (hlen : s.length = n + 2)
    (h : Slice.pop cmp s = some (s', x, true)) :
    ∃ s1 s2 b, swapL s 0 ((n : Int) + 1) = some s1 ∧
      downB (sliceOps cmp) s1 0 ((n : Int) + 1) = some (s2, b) ∧
      nth s2 ((n : Int) + 1) = some x ∧ s' = s2.take (n + 1) := by
  have e0 : ((s.length : Nat) : Int) ≠ 0 := by omega
  have e1 : ((s.length : Nat) : Int) ≠ 1 := by omega
  have e2 : ((s.length : Nat) : Int) - 1 = ((n : Int) + 1) := by omega
  simp only [Slice.pop, e0, e1, if_false, e2] at h
  cases hsw : swapL s 0 ((n : Int) + 1) with
  | none => simp [hsw] at h
  | some s1 =>
    simp only [hsw] at h
    cases hd : downB (sliceOps cmp) s1 0 ((n : Int) + 1) with
    | none => simp [hd] at h
    | some p =>
      obtain ⟨s2, b⟩ := p
      simp only [hd] at h
      cases hn : nth s2 ((n : Int) + 1) with
      | none => simp [hn] at h
      | some y =>
        simp only [hn, Option.some.injEq, Prod.mk.injEq, and_true] at h
        obtain ⟨h1, h2⟩ := h
        subst h2
        refine ⟨s1, s2, b, rfl, hd, hn, ?_⟩
        rw [← h1]
        have : ((n : Int) + 1).toNat = n + 1 := by omega
        rw [this]

theorem slice_remove_inv {cmp} {s s' : List Int} {x : Int} {n k : Nat} (hlen : s.length = n + 1)
    (hk : k < n) (h : Slice.remove cmp s (k : Int) = some (s', x, true)) :
    ∃ s1 s2, swapL s (k : Int) (n : Int) = some s1 ∧
      fix (sliceOps cmp) s1 (k : Int) (n : Int) = some s2 ∧
      nth s2 (n : Int) = some x ∧ s' = s2.take n := by
  have hguard : ¬ ((k : Int) < 0 ∨ (k : Int) ≥ (s.length : Int)) := by omega
  have e1 : ((s.length : Nat) : Int) - 1 = ((n : Nat) : Int) := by omega
  have hne : ((n : Nat) : Int) ≠ ((k : Nat) : Int) := by omega
  simp only [Slice.remove, hguard, if_false, e1, hne, ne_eq, not_false_eq_true, if_true] at h
  cases hsw : swapL s (k : Int) (n : Int) with
  | none => simp [hsw] at h
  | some s1 =>
    simp only [hsw] at h
    cases hd : fix (sliceOps cmp) s1 (k : Int) (n : Int) with
    | none => simp [hd] at h
    | some s2 =>
      simp only [hd] at h
      cases hn : nth s2 (n : Int) with
      | none => simp [hn] at h
      | some y =>
        simp only [hn, Option.some.injEq, Prod.mk.injEq, and_true] at h
        obtain ⟨h1, h2⟩ := h
        subst h2
        refine ⟨s1, s2, rfl, hd, hn, ?_⟩
        rw [← h1, Int.toNat_natCast]

/-! ### `Pop`, `Peek`, `Remove(e)` -/

/-- What an element-removing operation (`Pop`, `Remove(e)`) leaves behind: the invariant holds,
exactly `e` has left heap `h`, `e` reports `Index() == -1` and has no owner, nothing else moved
between heaps, no value changed. -/
structure Removed (cm : Nat → Int → Int → Bool) (m m' : HMem) (h e : Nat) : Prop where
  ok : MemOK cm m'
  perm : (e :: m'.arr h).Perm (m.arr h)
  other : m'.arr (oth h) = m.arr (oth h)
  val : m'.val = m.val
  fresh : m'.fresh = m.fresh
  idx : m'.idx.get e = -1
  own : m'.own.get e = none

theorem heapIds_of_ok {cm : Nat → Int → Int → Bool} {m : HMem} {h : Nat} (hh : h < 2) (hok : MemOK cm m) :
    Heap (cmpId (cm h) m.val) (ids m h) :=
  (heapIds_iff (cm h) m.val m h).2 ((heapOrd_iff (cm h) m h).1 (hok.ord h hh))

theorem elemAt_of_nthN {m m2 : HMem} {h a b : Nat} (e : nthN (ids m2 h) a = nthN (ids m h) b) :
    elemAt m2 h a = elemAt m h b := by
  rw [nthN_ids, nthN_ids] at e
  exact Int.ofNat.inj e

theorem pop_spec {cm : Nat → Int → Int → Bool} {m : HMem} {h : Nat} (hs : SWO (cm h)) (hh : h < 2) (hok : MemOK cm m) :
    (m.arr h = [] → m.pop (cm h) h = some (m, none)) ∧
    (m.arr h ≠ [] → ∃ m', m.pop (cm h) h = some (m', some (elemAt m h 0)) ∧
      Removed cm m m' h (elemAt m h 0)) := by
  refine ⟨fun h0 => by simp [HMem.pop, h0], fun hne => ?_⟩
  have hI := hok.core.idx h hh
  have hs' := cmpId_swo hs m.val
  have hheap := heapIds_of_ok hh hok
  cases hL : (m.arr h).length with
  | zero => exact absurd (List.length_eq_zero_iff.1 hL) hne
  | succ n1 =>
    cases n1 with
    | zero =>
      -- a single element: `return h.pop()`
      obtain ⟨m', hpl, hok', a', o', v', f', i', w', p'⟩ :=
        popLast_core (cm := cm) (n := 0) hh hok.core hok.left (hok.ord _ (oth_lt2 h)) hL
          (by simpa using heap_nil _)
      refine ⟨m', ?_, hok', p', o', v', f', i', w'⟩
      have e0 : ((m.arr h).length : Int) ≠ 0 := by omega
      have e1 : ((m.arr h).length : Int) = 1 := by omega
      simp [HMem.pop, e1, hpl]
    | succ n =>
      have hlen : (ids m h).length = n + 2 := by simpa using hL
      obtain ⟨s', hpop, hheap', _⟩ := slice_pop_big hs' (ids m h) hheap (by omega)
      obtain ⟨s1, s2, b, hsw, hd, hn, rfl⟩ := slice_pop_inv hlen hpop
      obtain ⟨m1, hm1, R1⟩ := swap_transfer (cmp := cm h) (SiftRel.refl hI) hsw
      obtain ⟨m2, hm2, R2⟩ := downB_transfer R1 hd
      have len2 : (m2.arr h).length = n + 1 + 1 := by rw [R2.perm.length_eq]; exact hL
      have hheap2 : Heap (cmpId (cm h) m2.val) ((ids m2 h).take (n + 1)) := by
        rw [R2.val, ← R2.idsEq]; exact hheap'
      obtain ⟨m', hpl, hok', a', o', v', f', i', w', p'⟩ :=
        popLast_core hh (sift_core hh hok.core R2) (sift_left hh hok.core hok.left R2)
          (sift_ord_other R2 (hok.ord _ (oth_lt2 h))) len2 hheap2
      have hs2len : s2.length = n + 2 := by rw [R2.idsEq]; simpa using len2
      have he : elemAt m2 h (n + 1) = elemAt m h 0 := by
        apply elemAt_of_nthN
        have := nth_cast s2 (n + 1) (by omega)
        rw [show (((n + 1 : Nat) : Int)) = (n : Int) + 1 by omega, hn] at this
        rw [← R2.idsEq]; exact (Option.some.inj this).symm
      rw [he] at hpl i' w' p'
      refine ⟨m', ?_, hok', p'.trans R2.perm, o'.trans R2.other, v'.trans R2.val,
        f'.trans R2.fresh, i', w'⟩
      have e0 : ((m.arr h).length : Int) ≠ 0 := by omega
      have e1 : ((m.arr h).length : Int) ≠ 1 := by omega
      have e2 : ((m.arr h).length : Int) - 1 = (n : Int) + 1 := by omega
      simp only [HMem.pop, e0, e1, if_false, e2, hm1, hm2, hpl, Option.map_some]

theorem peek_spec (m : HMem) (h : Nat) :
    (m.arr h = [] → m.peek h = some none) ∧
    (m.arr h ≠ [] → m.peek h = some (some (elemAt m h 0))) := by
  refine ⟨fun h0 => by simp [HMem.peek, h0], fun hne => ?_⟩
  have hpos : 0 < (m.arr h).length := List.length_pos_iff.2 hne
  have e0 : ((m.arr h).length : Int) ≠ 0 := by omega
  have : nth (m.arr h) 0 = some (elemAt m h 0) :=
    (nth_some_iff _ _ _).2 ⟨0, rfl, elemAt_get hpos⟩
  simp only [HMem.peek, e0, if_false, this]

/-- position of a live element -/
theorem live_pos {m : HMem} {h e : Nat} (hh : h < 2) (hc : MemCore m) (hown : m.own.get e = some h) :
    ∃ k, k < (m.arr h).length ∧ elemAt m h k = e ∧ m.idx.get e = (k : Int) := by
  obtain ⟨k, hk, he⟩ := mem_elemAt ((hc.own e h hh).1 hown)
  refine ⟨k, hk, he, ?_⟩
  have := (hc.idx h hh).index k (elemAt m h k) (elemAt_get hk)
  rwa [he] at this

theorem remove_spec {cm : Nat → Int → Int → Bool} {m : HMem} {h e : Nat} (hs : SWO (cm h)) (hh : h < 2) (hok : MemOK cm m)
    (hown : m.own.get e = some h) :
    ∃ m', m.remove (cm h) h e = some m' ∧ Removed cm m m' h e := by
  have hI := hok.core.idx h hh
  have hs' := cmpId_swo hs m.val
  have hheap := heapIds_of_ok hh hok
  obtain ⟨k, hk, hek, hidx⟩ := live_pos hh hok.core hown
  obtain ⟨n, hL⟩ : ∃ n, (m.arr h).length = n + 1 := ⟨(m.arr h).length - 1, by omega⟩
  have g1 : ¬ (m.own.get e = none ∨ m.own.get e ≠ some h) := by simp [hown]
  have g2 : ¬ (m.idx.get e < 0 ∨ m.idx.get e ≥ ((m.arr h).length : Int)) := by omega
  have e1 : ((m.arr h).length : Int) - 1 = (n : Int) := by omega
  by_cases hkn : k = n
  · -- the last element: nothing to fix
    subst hkn
    have hheap2 : Heap (cmpId (cm h) m.val) ((ids m h).take k) :=
      heap_take (by simp; omega) (fun c hc hc1 hlo => hheap c (by simp; omega) hc1 hlo)
    obtain ⟨m', hpl, hok', a', o', v', f', i', w', p'⟩ :=
      popLast_core hh hok.core hok.left (hok.ord _ (oth_lt2 h)) hL hheap2
    rw [hek] at hpl i' w' p'
    refine ⟨m', ?_, hok', p', o', v', f', i', w'⟩
    have : ¬ ((k : Int) ≠ m.idx.get e) := by omega
    simp only [HMem.remove, g1, g2, if_false, e1, this, hpl, Option.map_some]
  · have hlt : k < n := by omega
    have hlen : (ids m h).length = n + 1 := by simpa using hL
    obtain ⟨s', hrem, hheap', _⟩ := slice_remove_in hs' (ids m h) k hheap (by omega)
    obtain ⟨s1, s2, hsw, hfix, hn, rfl⟩ := slice_remove_inv hlen hlt hrem
    obtain ⟨m1, hm1, R1⟩ := swap_transfer (cmp := cm h) (SiftRel.refl hI) hsw
    obtain ⟨m2, hm2, R2⟩ := fix_transfer R1 hfix
    have len2 : (m2.arr h).length = n + 1 := by rw [R2.perm.length_eq]; exact hL
    have hheap2 : Heap (cmpId (cm h) m2.val) ((ids m2 h).take n) := by
      rw [R2.val, ← R2.idsEq]; exact hheap'
    obtain ⟨m', hpl, hok', a', o', v', f', i', w', p'⟩ :=
      popLast_core hh (sift_core hh hok.core R2) (sift_left hh hok.core hok.left R2)
        (sift_ord_other R2 (hok.ord _ (oth_lt2 h))) len2 hheap2
    have hs2len : s2.length = n + 1 := by rw [R2.idsEq]; simpa using len2
    have he : elemAt m2 h n = e := by
      rw [← hek]
      apply elemAt_of_nthN
      have := nth_cast s2 n (by omega)
      rw [hn] at this
      rw [← R2.idsEq]; exact (Option.some.inj this).symm
    rw [he] at hpl i' w' p'
    refine ⟨m', ?_, hok', p'.trans R2.perm, o'.trans R2.other, v'.trans R2.val,
      f'.trans R2.fresh, i', w'⟩
    have hne : ((n : Int) ≠ m.idx.get e) := by omega
    simp only [HMem.remove, g1, g2, if_false, e1, hne, ne_eq, not_false_eq_true, if_true]
    simp only [hidx, hm1, hm2, hpl, Option.map_some]

/-! ### `Fix(e)` after an arbitrary change of `e.Value` -/

theorem fixElem_spec {cm : Nat → Int → Int → Bool} {m0 : HMem} {val' : IM} {h e : Nat} (hs : SWO (cm h)) (hh : h < 2)
    (hok : MemOK cm m0) (hv : ∀ x, x ≠ e → val'.get x = m0.val.get x)
    (hown : m0.own.get e = some h) :
    ∃ m', ({ m0 with val := val' } : HMem).fixElem (cm h) h e = some m' ∧ MemOK cm m' ∧
      (m'.arr h).Perm (m0.arr h) ∧ m'.arr (oth h) = m0.arr (oth h) ∧ m'.val = val' ∧
      m'.fresh = m0.fresh := by
  let m : HMem := { m0 with val := val' }
  have hc0 := hok.core
  have hc : MemCore m :=
    ⟨fun h' hh' => ⟨(hc0.idx h' hh').nodup, (hc0.idx h' hh').index⟩, hc0.own, hc0.ownR, hc0.ltf⟩
  have hl : LeftOK m (fun _ => True) := hok.left
  have hI := hc.idx h hh
  have hs' := cmpId_swo hs val'
  obtain ⟨k, hk, hek, hidx⟩ := live_pos hh hc0 hown
  have hO : OrdAt (cm h) m0.val m0 h := (heapOrd_iff (cm h) m0 h).1 (hok.ord h hh)
  have hoth : HeapOrd (cm (oth h)) m (oth h) := by
    rw [heapOrd_iff]
    refine ordAt_congr (m := m0) rfl ?_ ((heapOrd_iff (cm (oth h)) m0 (oth h)).1 (hok.ord _ (oth_lt2 h)))
    intro x hx
    apply hv
    intro hxe
    exact hc0.disjoint' hh hx (hxe ▸ (hc0.own e h hh).1 hown)
  have hval : ∀ c, c < (m0.arr h).length → c ≠ k →
      val'.get (elemAt m0 h c) = m0.val.get (elemAt m0 h c) := by
    intro c hc hck
    apply hv
    intro hce
    exact hck (elemAt_inj (hc0.idx h hh).nodup hc hk (hce.trans hek.symm))
  have hidsm : ids m h = ids m0 h := rfl
  have hpair : ∀ c, c < (m0.arr h).length → 1 ≤ c → c ≠ k → par c ≠ k →
      cmpId (cm h) val' (nthN (ids m h) c) (nthN (ids m h) (par c)) = false := by
    intro c hc hc1 hck hpk
    have hp : par c < (m0.arr h).length := by unfold par; omega
    rw [hidsm, nthN_ids, nthN_ids]
    simp only [cmpId, Int.toNat_natCast]
    rw [hval c hc hck, hval (par c) hp hpk]
    exact hO c hc hc1
  have hgrand : 1 ≤ k → ∀ c, c < (m0.arr h).length → 1 ≤ c → par c = k →
      cmpId (cm h) val' (nthN (ids m h) c) (nthN (ids m h) (par k)) = false := by
    intro hk1 c hc hc1 hpc
    have hck : c ≠ k := by unfold par at hpc; omega
    have hpk : par k ≠ k := by unfold par; omega
    have hp : par k < (m0.arr h).length := by unfold par; omega
    rw [hidsm, nthN_ids, nthN_ids]
    simp only [cmpId, Int.toNat_natCast]
    rw [hval c hc hck, hval (par k) hp hpk]
    have h1 := hO c hc hc1
    rw [hpc] at h1
    exact hs.negTrans (hO k hk hk1) h1
  obtain ⟨s', hrun, hlen, _, _, hheapOn⟩ :=
    fix_spec_core hs' (ids m h) k (m0.arr h).length (by simp [hidsm]) hk hpair hgrand
  obtain ⟨m', hfix, R⟩ := fix_transfer (cmp := cm h) (SiftRel.refl hI) hrun
  have hheap' : Heap (cmpId (cm h) m.val) s' := by
    have : s'.length = (m0.arr h).length := by rw [hlen]; simp [hidsm]
    unfold Heap; rw [this]; exact hheapOn
  refine ⟨m', ?_, sift_memOK hh hc hl hoth R hheap', R.perm, R.other, R.val, R.fresh⟩
  have g1 : ¬ (m.own.get e = none ∨ m.own.get e ≠ some h) := by
    show ¬ (m0.own.get e = none ∨ m0.own.get e ≠ some h); simp [hown]
  have g2 : ¬ (m.idx.get e < 0 ∨ m.idx.get e ≥ ((m.arr h).length : Int)) := by
    show ¬ (m0.idx.get e < 0 ∨ m0.idx.get e ≥ ((m0.arr h).length : Int)); omega
  have e3 : m.idx.get e = (k : Int) := hidx
  show m.fixElem (cm h) h e = some m'
  simp only [HMem.fixElem, g1, g2, if_false]
  rw [e3]
  exact hfix

/-! ### `Remove(e)` after `e.Value` was changed WITHOUT `Fix` -/

/-- `e.Value = v; h.Remove(e)`: the invariant held before the value of `e` (live in `h`) was
changed arbitrarily; `Remove(e)` needs no `Fix` first — it never looks at `e`'s (possibly wrong)
place, only re-sites the element moved into the hole: exactly `e` leaves, the invariant holds
again (in the new value table). -/
theorem remove_change_spec {cm : Nat → Int → Int → Bool} {m0 : HMem} {val' : IM} {h e : Nat}
    (hs : SWO (cm h)) (hh : h < 2) (hok : MemOK cm m0)
    (hv : ∀ x, x ≠ e → val'.get x = m0.val.get x) (hown : m0.own.get e = some h) :
    ∃ m', ({ m0 with val := val' } : HMem).remove (cm h) h e = some m' ∧ MemOK cm m' ∧
      (e :: m'.arr h).Perm (m0.arr h) ∧ m'.arr (oth h) = m0.arr (oth h) ∧ m'.val = val' ∧
      m'.fresh = m0.fresh ∧ m'.idx.get e = -1 ∧ m'.own.get e = none := by
  let m : HMem := { m0 with val := val' }
  have hc0 := hok.core
  have hc : MemCore m :=
    ⟨fun h' hh' => ⟨(hc0.idx h' hh').nodup, (hc0.idx h' hh').index⟩, hc0.own, hc0.ownR, hc0.ltf⟩
  have hl : LeftOK m (fun _ => True) := hok.left
  have hI := hc.idx h hh
  have hs' := cmpId_swo hs val'
  obtain ⟨k, hk, hek, hidx⟩ := live_pos hh hc0 hown
  have hO : OrdAt (cm h) m0.val m0 h := (heapOrd_iff (cm h) m0 h).1 (hok.ord h hh)
  have hoth : HeapOrd (cm (oth h)) m (oth h) := by
    rw [heapOrd_iff]
    refine ordAt_congr (m := m0) rfl ?_ ((heapOrd_iff (cm (oth h)) m0 (oth h)).1 (hok.ord _ (oth_lt2 h)))
    intro x hx
    apply hv
    intro hxe
    exact hc0.disjoint' hh hx (hxe ▸ (hc0.own e h hh).1 hown)
  have hval : ∀ c, c < (m0.arr h).length → c ≠ k →
      val'.get (elemAt m0 h c) = m0.val.get (elemAt m0 h c) := by
    intro c hc hck
    apply hv
    intro hce
    exact hck (elemAt_inj (hc0.idx h hh).nodup hc hk (hce.trans hek.symm))
  have hidsm : ids m h = ids m0 h := rfl
  have hpair : ∀ c, c < (m0.arr h).length → 1 ≤ c → c ≠ k → par c ≠ k →
      cmpId (cm h) val' (nthN (ids m h) c) (nthN (ids m h) (par c)) = false := by
    intro c hc hc1 hck hpk
    have hp : par c < (m0.arr h).length := by unfold par; omega
    rw [hidsm, nthN_ids, nthN_ids]
    simp only [cmpId, Int.toNat_natCast]
    rw [hval c hc hck, hval (par c) hp hpk]
    exact hO c hc hc1
  have hgrand : 1 ≤ k → ∀ c, c < (m0.arr h).length → 1 ≤ c → par c = k →
      cmpId (cm h) val' (nthN (ids m h) c) (nthN (ids m h) (par k)) = false := by
    intro hk1 c hc hc1 hpc
    have hck : c ≠ k := by unfold par at hpc; omega
    have hpk : par k ≠ k := by unfold par; omega
    have hp : par k < (m0.arr h).length := by unfold par; omega
    rw [hidsm, nthN_ids, nthN_ids]
    simp only [cmpId, Int.toNat_natCast]
    rw [hval c hc hck, hval (par k) hp hpk]
    have h1 := hO c hc hc1
    rw [hpc] at h1
    exact hs.negTrans (hO k hk hk1) h1
  obtain ⟨n, hL⟩ : ∃ n, (m0.arr h).length = n + 1 := ⟨(m0.arr h).length - 1, by omega⟩
  have hLm : (m.arr h).length = n + 1 := hL
  have g1 : ¬ (m.own.get e = none ∨ m.own.get e ≠ some h) := by
    show ¬ (m0.own.get e = none ∨ m0.own.get e ≠ some h); simp [hown]
  have g2 : ¬ (m.idx.get e < 0 ∨ m.idx.get e ≥ ((m.arr h).length : Int)) := by
    show ¬ (m0.idx.get e < 0 ∨ m0.idx.get e ≥ ((m0.arr h).length : Int)); omega
  have hidxm : m.idx.get e = (k : Int) := hidx
  have e1 : ((m.arr h).length : Int) - 1 = (n : Int) := by
    show ((m0.arr h).length : Int) - 1 = (n : Int); omega
  have hekm : elemAt m h k = e := hek
  show ∃ m', m.remove (cm h) h e = some m' ∧ _
  by_cases hkn : k = n
  · subst hkn
    have hheap2 : Heap (cmpId (cm h) m.val) ((ids m h).take k) := by
      refine heap_take (by simp [hidsm]; omega) ?_
      intro c hcc hc1 _
      have hc' : c < (m0.arr h).length := by omega
      exact hpair c hc' hc1 (by omega) (by unfold par; omega)
    obtain ⟨m', hpl, hok', a', o', v', f', i', w', p'⟩ :=
      popLast_core hh hc hl hoth hLm hheap2
    rw [hekm] at hpl i' w' p'
    refine ⟨m', ?_, hok', p', o', v', f', i', w'⟩
    have : ¬ ((k : Int) ≠ m.idx.get e) := by omega
    simp only [HMem.remove, g1, g2, if_false, e1, this, hpl, Option.map_some]
  · have hlt : k < n := by omega
    have hlen : (ids m h).length = n + 1 := by simpa [hidsm] using hL
    obtain ⟨s2, hsw, hfix, hs2len, hx, hheap', _⟩ :=
      slice_remove_run_core hs' (ids m h) k n hlen hlt
        (fun c hcc hc1 hck hpk => hpair c (by omega) hc1 hck hpk)
        (fun hk1 c hcc hc1 hpc => hgrand hk1 c (by omega) hc1 hpc)
    obtain ⟨m1, hm1, R1⟩ := swap_transfer (cmp := cm h) (SiftRel.refl hI) hsw
    obtain ⟨m2, hm2, R2⟩ := fix_transfer R1 hfix
    have len2 : (m2.arr h).length = n + 1 := by rw [R2.perm.length_eq]; exact hLm
    have hheap2 : Heap (cmpId (cm h) m2.val) ((ids m2 h).take n) := by
      rw [R2.val, ← R2.idsEq]; exact hheap'
    obtain ⟨m', hpl, hok', a', o', v', f', i', w', p'⟩ :=
      popLast_core hh (sift_core hh hc R2) (sift_left hh hc hl R2) (sift_ord_other R2 hoth) len2 hheap2
    have he : elemAt m2 h n = e := by
      rw [← hekm]
      apply elemAt_of_nthN
      rw [← R2.idsEq]; exact hx
    rw [he] at hpl i' w' p'
    refine ⟨m', ?_, hok', p'.trans R2.perm, o'.trans R2.other, v'.trans R2.val,
      f'.trans R2.fresh, i', w'⟩
    have hne : ((n : Int) ≠ m.idx.get e) := by omega
    simp only [HMem.remove, g1, g2, if_false, e1, hne, ne_eq, not_false_eq_true, if_true]
    simp only [hidxm, hm1, hm2, hpl, Option.map_some]

end Golib.C04
