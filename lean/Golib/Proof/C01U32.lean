/-
C01 — the 32-bit machine `Conc32` (`Cfg.M = 2^32`: what the code does) is simulated step
by step by the ghost machine `Conc` (`Cfg.M = 0`) as long as the stepping thread's stale
ticket is within `2^32 − cap` of the current counter (BoundedLag).
`wrapState` forgets everything above bit 31 of every counter, sequence number and local.
-/
import Golib.Proof.C01Inv

namespace Golib.C01
open Golib.C01.Util

/-- `2^32` -/
scoped notation "W32" => (4294967296 : Nat)

def wrapPc : Pc → Pc
  | .pushLoadSeq v pos => .pushLoadSeq v (pos % W32)
  | .pushCAS v pos seq => .pushCAS v (pos % W32) (seq % W32)
  | .pushWrite v pos seq => .pushWrite v (pos % W32) (seq % W32)
  | .pushStore pos seq => .pushStore (pos % W32) (seq % W32)
  | .popLoadSeq pos => .popLoadSeq (pos % W32)
  | .popCAS pos seq => .popCAS (pos % W32) (seq % W32)
  | .popRead pos seq => .popRead (pos % W32) (seq % W32)
  | .popClear pos seq v => .popClear (pos % W32) (seq % W32) v
  | .popStore pos seq v => .popStore (pos % W32) (seq % W32) v
  | .lenLoadHead t => .lenLoadHead (t % W32)
  | .emptyLoadTail h => .emptyLoadTail (h % W32)
  | .fullLoadHead t => .fullLoadHead (t % W32)
  | pc => pc

def wrapThread (th : Thread) : Thread := { th with pc := wrapPc th.pc }
def wrapSlot (sl : Slot) : Slot := { sl with seq := sl.seq % W32 }

def wrapState (s : State) : State :=
  { head := s.head % W32, tail := s.tail % W32, slots := s.slots.map wrapSlot,
    threads := s.threads.map wrapThread, crashed := s.crashed }

def wrapAcc : Acc → Acc
  | .ldTail v => .ldTail (v % W32)
  | .ldHead v => .ldHead (v % W32)
  | .ldSeq i v => .ldSeq i (v % W32)
  | .casTail o n ok => .casTail (o % W32) (n % W32) ok
  | .casHead o n ok => .casHead (o % W32) (n % W32) ok
  | .stSeq i v => .stSeq i (v % W32)
  | a => a

/-- events agree up to wrapping of the ticket values in the access; thread id and RETURN
VALUE are identical -/
def wrapEvent (e : Event) : Event := { e with acc := wrapAcc e.acc }

def wrapRes (p : State × Event) : State × Event := (wrapState p.1, wrapEvent p.2)

/-- the stepping thread's stale ticket is within `2^32 − cap` of the current counter.
The bounds are TIGHT per kind of call: `Push`/`Pop`/`Len` tolerate a lag of exactly
`2^32 − cap` (one more and a stale ticket can be re-validated: `lag_tight_push` in
Props/C01.lean), `IsFull`/`IsEmpty` need it strictly smaller (at exactly `2^32 − cap` the
32-bit difference of the two loaded counters can equal `cap` resp. `0` on an empty resp.
full ring: `lag_tight_isFull`). -/
def Lag (cap : Nat) (s : State) : Pc → Prop
  | .pushLoadSeq _ pos => s.tail - pos ≤ W32 - cap
  | .pushCAS _ pos _ => s.tail - pos ≤ W32 - cap
  | .popLoadSeq pos => s.head - pos ≤ W32 - cap
  | .popCAS pos _ => s.head - pos ≤ W32 - cap
  | .lenLoadHead t => s.tail - t ≤ W32 - cap
  | .fullLoadHead t => s.tail - t < W32 - cap
  | .emptyLoadTail h => s.head - h < W32 - cap
  | _ => True

theorem wrap_finish (th : Thread) : wrapThread th.finish = (wrapThread th).finish := by
  unfold Thread.finish wrapThread
  cases th.prog with
  | nil => rfl
  | cons c r => cases c <;> rfl

theorem wrap_setPc (s : State) (i : Nat) (th : Thread) (pc : Pc) :
    wrapState (s.setPc i th pc) = (wrapState s).setPc i (wrapThread th) (wrapPc pc) := by
  simp only [wrapState, State.setPc, List.map_set]
  rfl

theorem wrap_fin (s : State) (i : Nat) (th : Thread) :
    wrapState (s.fin i th) = (wrapState s).fin i (wrapThread th) := by
  simp only [wrapState, State.fin, List.map_set, wrap_finish]

theorem wrap_threads_get (s : State) (i : Nat) :
    (wrapState s).threads[i]? = (s.threads[i]?).map wrapThread := by
  simp [wrapState]

theorem wrap_slots_get (s : State) (k : Nat) :
    (wrapState s).slots[k]? = (s.slots[k]?).map wrapSlot := by
  simp [wrapState]

/-- index masking does not see the wrap: `2^k` divides `2^32` -/
theorem idx_wrap {k : Nat} (hk : k ≤ 32) (M M' : Nat) (pos : Nat) :
    (Cfg.mk M (2 ^ k)).idx (pos % W32) = (Cfg.mk M' (2 ^ k)).idx pos := by
  simp only [Cfg.idx, Cfg.mask, Nat.and_two_pow_sub_one_eq_mod]
  have : (2:Nat) ^ k ∣ W32 := by
    have : (W32 : Nat) = 2 ^ 32 := by decide
    rw [this]
    exact Nat.pow_dvd_pow 2 hk
  exact Nat.mod_mod_of_dvd pos this

/-- every sequence number is within `cap` of the counters -/
theorem seq_window {c : Cfg} (g : Ghost c) {s : State} (hI : Inv c s) (pos : Nat) :
    ∃ sl, s.slots[pos % c.cap]? = some sl ∧ s.tail ≤ sl.seq + c.cap ∧
      (sl.seq < s.head + c.cap ∨ sl.seq ≤ s.tail) := by
  have hk : pos % c.cap < c.cap := Nat.mod_lt _ (by have := g.cap2; omega)
  obtain ⟨q, hq, p, _, hph⟩ := hI.phases _ hk
  have hHT := hI.head_le_tail
  have hTc := hI.tail_le
  simp only [sq] at hq
  cases hs : s.slots[pos % c.cap]? with
  | none => rw [hs] at hq; simp at hq
  | some sl =>
    rw [hs] at hq
    have e : sl.seq = q := by simpa using hq
    refine ⟨sl, rfl, ?_⟩
    rcases hph with ⟨a, b, d⟩ | ⟨a, b, d, _⟩ | ⟨a, b, d⟩ | ⟨a, b, d, _⟩ <;> omega

theorem lenOf_wrap {cap t h : Nat} (hcap : cap < W32) (hth : t ≤ h + cap) (hlag : h - t ≤ W32 - cap)
    (hc0 : 0 < cap) :
    (Cfg.mk W32 cap).lenOf (t % W32) (h % W32) = (Cfg.mk 0 cap).lenOf t h := by
  simp only [Cfg.lenOf, Cfg.sub]
  have hW : (W32 = 0) = False := by simp
  simp only [hW, if_false, if_true, Nat.mod_mod]
  by_cases hle : h ≤ t
  · have e : (t % W32 + W32 - h % W32) % W32 = t - h := by omega
    rw [e, if_pos hle]
  · have e : (t % W32 + W32 - h % W32) % W32 = W32 - (h - t) := by omega
    rw [e, if_neg hle]
    rw [if_pos (show cap + 1 > cap by omega)]
    split <;> omega

theorem full_wrap {cap t h : Nat} (hcap : cap < W32) (hth : t ≤ h + cap) (hlag : h - t < W32 - cap) :
    ((Cfg.mk W32 cap).sub (t % W32) (h % W32) == cap) = ((Cfg.mk 0 cap).sub t h == cap) := by
  simp only [Cfg.sub]
  have hW : (W32 = 0) = False := by simp
  simp only [hW, if_false, if_true, Nat.mod_mod]
  by_cases hle : h ≤ t
  · have e : (t % W32 + W32 - h % W32) % W32 = t - h := by omega
    rw [e, if_pos hle]
  · have e : (t % W32 + W32 - h % W32) % W32 = W32 - (h - t) := by omega
    rw [e, if_neg hle]
    have h1 : (W32 - (h - t) == cap) = false := by simp; omega
    have h2 : (cap + 1 == cap) = false := by simp
    rw [h1, h2]

/-- One step of the 32-bit machine on the wrapped state is the wrapped step of the ghost
machine, provided the stepping thread satisfies BoundedLag. -/
theorem step32 {k : Nat} (hk1 : 1 ≤ k) (hk : k ≤ 31) {s : State}
    (hI : Inv { M := 0, cap := 2 ^ k } s) (i : Nat)
    (hlag : ∀ th, s.threads[i]? = some th → Lag (2 ^ k) s th.pc) :
    step { M := W32, cap := 2 ^ k } (wrapState s) i = wrapRes (step { M := 0, cap := 2 ^ k } s i) := by
  have g := ghost_pow k hk1
  have hcap31 : 2 ^ k ≤ 2147483648 := by
    have : (2:Nat) ^ k ≤ 2 ^ 31 := Nat.pow_le_pow_right (by omega) hk
    have : (2:Nat) ^ 31 = 2147483648 := by decide
    omega
  have hcap : 2 ^ k < W32 := by omega
  have hpos : 0 < 2 ^ k := Nat.pow_pos (by omega)
  have hHT := hI.head_le_tail
  have hTc : s.tail ≤ s.head + 2 ^ k := hI.tail_le
  have hidx : ∀ pos, (Cfg.mk W32 (2 ^ k)).idx (pos % W32) = (Cfg.mk 0 (2 ^ k)).idx pos :=
    fun pos => idx_wrap (by omega) _ _ pos
  cases hth : s.threads[i]? with
  | none =>
    have hth' : (wrapState s).threads[i]? = none := by rw [wrap_threads_get, hth]; rfl
    simp only [step, hth, hth']
    rfl
  | some th =>
    have hth' : (wrapState s).threads[i]? = some (wrapThread th) := by rw [wrap_threads_get, hth]; rfl
    have hloc := hI.locals th (List.mem_of_getElem? hth)
    have hlg := hlag th hth
    cases hpc : th.pc with
    | idle =>
      have hpc' : (wrapThread th).pc = .idle := by simp [wrapThread, hpc, wrapPc]
      simp only [step, hth, hth', hpc, hpc']
      rfl
    | pushLoadTail v =>
      have hpc' : (wrapThread th).pc = .pushLoadTail v := by simp [wrapThread, hpc, wrapPc]
      simp only [step, hth, hth', hpc, hpc', wrapRes, wrap_setPc]
      rfl
    | pushLoadSeq v pos =>
      have hpc' : (wrapThread th).pc = .pushLoadSeq v (pos % W32) := by simp [wrapThread, hpc, wrapPc]
      obtain ⟨sl, hsl, hw1, hw2⟩ := seq_window g hI pos
      have hw1 : s.tail ≤ sl.seq + 2 ^ k := hw1
      have hw2 : sl.seq < s.head + 2 ^ k ∨ sl.seq ≤ s.tail := hw2
      rw [← g.idx_mod] at hsl
      have hsl' : (wrapState s).slots[(Cfg.mk W32 (2 ^ k)).idx (pos % W32)]? = some (wrapSlot sl) := by
        rw [hidx, wrap_slots_get, hsl]; rfl
      simp only [hpc, PcOk] at hloc
      simp only [hpc, Lag] at hlg
      simp only [step, hth, hth', hpc, hpc', hsl, hsl']
      by_cases hc : pos = sl.seq
      · have hc' : pos % W32 = (wrapSlot sl).seq := by simp only [wrapSlot]; omega
        rw [if_neg (not_not_intro hc'), if_neg (not_not_intro hc)]
        simp only [wrapRes, wrap_setPc, hidx]
        rfl
      · have hc' : pos % W32 ≠ (wrapSlot sl).seq := by simp only [wrapSlot]; omega
        rw [if_pos hc', if_pos hc]
        simp only [wrapRes, wrap_fin, hidx]
        rfl
    | pushCAS v pos seq =>
      have hpc' : (wrapThread th).pc = .pushCAS v (pos % W32) (seq % W32) := by simp [wrapThread, hpc, wrapPc]
      simp only [hpc, PcOk] at hloc
      simp only [hpc, Lag] at hlg
      simp only [step, hth, hth', hpc, hpc']
      have htl : (wrapState s).tail = s.tail % W32 := rfl
      by_cases hc : s.tail = pos
      · have hc' : (wrapState s).tail = pos % W32 := by rw [htl, hc]
        rw [if_pos hc', if_pos hc]
        simp only [wrapRes, wrap_setPc, Cfg.norm]
        simp only [wrapState, wrapEvent, wrapAcc, wrapPc, State.setPc, Nat.mod_zero, Nat.mod_add_mod]
      · have hc' : ¬ (wrapState s).tail = pos % W32 := by rw [htl]; omega
        rw [if_neg hc', if_neg hc]
        simp only [wrapRes, wrap_fin, Cfg.norm]
        simp only [wrapEvent, wrapAcc, Nat.mod_zero, Nat.mod_add_mod]
    | pushWrite v pos seq =>
      have hpc' : (wrapThread th).pc = .pushWrite v (pos % W32) (seq % W32) := by simp [wrapThread, hpc, wrapPc]
      obtain ⟨sl, hsl, hw1, hw2⟩ := seq_window g hI pos
      have hw1 : s.tail ≤ sl.seq + 2 ^ k := hw1
      have hw2 : sl.seq < s.head + 2 ^ k ∨ sl.seq ≤ s.tail := hw2
      rw [← g.idx_mod] at hsl
      have hsl' : (wrapState s).slots[(Cfg.mk W32 (2 ^ k)).idx (pos % W32)]? = some (wrapSlot sl) := by
        rw [hidx, wrap_slots_get, hsl]; rfl
      simp only [step, hth, hth', hpc, hpc', hsl, hsl']
      simp only [wrapRes, wrap_setPc, hidx]
      simp only [wrapState, wrapEvent, wrapAcc, wrapPc, wrapSlot, State.setPc, List.map_set]
    | pushStore pos seq =>
      have hpc' : (wrapThread th).pc = .pushStore (pos % W32) (seq % W32) := by simp [wrapThread, hpc, wrapPc]
      obtain ⟨sl, hsl, hw1, hw2⟩ := seq_window g hI pos
      have hw1 : s.tail ≤ sl.seq + 2 ^ k := hw1
      have hw2 : sl.seq < s.head + 2 ^ k ∨ sl.seq ≤ s.tail := hw2
      rw [← g.idx_mod] at hsl
      have hsl' : (wrapState s).slots[(Cfg.mk W32 (2 ^ k)).idx (pos % W32)]? = some (wrapSlot sl) := by
        rw [hidx, wrap_slots_get, hsl]; rfl
      simp only [step, hth, hth', hpc, hpc', hsl, hsl']
      simp only [wrapRes, wrap_fin, hidx, Cfg.norm]
      simp only [wrapState, wrapEvent, wrapAcc, wrapSlot, State.fin, List.map_set, Nat.mod_zero,
        Nat.mod_add_mod]
    | popLoadHead =>
      have hpc' : (wrapThread th).pc = .popLoadHead := by simp [wrapThread, hpc, wrapPc]
      simp only [step, hth, hth', hpc, hpc', wrapRes, wrap_setPc]
      rfl
    | popLoadSeq pos =>
      have hpc' : (wrapThread th).pc = .popLoadSeq (pos % W32) := by simp [wrapThread, hpc, wrapPc]
      obtain ⟨sl, hsl, hw1, hw2⟩ := seq_window g hI pos
      have hw1 : s.tail ≤ sl.seq + 2 ^ k := hw1
      have hw2 : sl.seq < s.head + 2 ^ k ∨ sl.seq ≤ s.tail := hw2
      rw [← g.idx_mod] at hsl
      have hsl' : (wrapState s).slots[(Cfg.mk W32 (2 ^ k)).idx (pos % W32)]? = some (wrapSlot sl) := by
        rw [hidx, wrap_slots_get, hsl]; rfl
      simp only [hpc, PcOk] at hloc
      simp only [hpc, Lag] at hlg
      simp only [step, hth, hth', hpc, hpc', hsl, hsl', Cfg.norm, Nat.mod_zero, Nat.mod_add_mod]
      by_cases hc : pos + 1 = sl.seq
      · have hc' : (pos + 1) % W32 = (wrapSlot sl).seq := by simp only [wrapSlot]; omega
        rw [if_neg (not_not_intro hc'), if_neg (not_not_intro hc)]
        simp only [wrapRes, wrap_setPc, hidx]
        rfl
      · have hc' : (pos + 1) % W32 ≠ (wrapSlot sl).seq := by simp only [wrapSlot]; omega
        rw [if_pos hc', if_pos hc]
        simp only [wrapRes, wrap_fin, hidx]
        rfl
    | popCAS pos seq =>
      have hpc' : (wrapThread th).pc = .popCAS (pos % W32) (seq % W32) := by simp [wrapThread, hpc, wrapPc]
      simp only [hpc, PcOk] at hloc
      simp only [hpc, Lag] at hlg
      simp only [step, hth, hth', hpc, hpc']
      have htl : (wrapState s).head = s.head % W32 := rfl
      by_cases hc : s.head = pos
      · have hc' : (wrapState s).head = pos % W32 := by rw [htl, hc]
        rw [if_pos hc', if_pos hc]
        simp only [wrapRes, wrap_setPc, Cfg.norm]
        simp only [wrapState, wrapEvent, wrapAcc, wrapPc, State.setPc, Nat.mod_zero, Nat.mod_add_mod]
      · have hc' : ¬ (wrapState s).head = pos % W32 := by rw [htl]; omega
        rw [if_neg hc', if_neg hc]
        simp only [wrapRes, wrap_fin, Cfg.norm]
        simp only [wrapEvent, wrapAcc, Nat.mod_zero, Nat.mod_add_mod]
    | popRead pos seq =>
      have hpc' : (wrapThread th).pc = .popRead (pos % W32) (seq % W32) := by simp [wrapThread, hpc, wrapPc]
      obtain ⟨sl, hsl, hw1, hw2⟩ := seq_window g hI pos
      have hw1 : s.tail ≤ sl.seq + 2 ^ k := hw1
      have hw2 : sl.seq < s.head + 2 ^ k ∨ sl.seq ≤ s.tail := hw2
      rw [← g.idx_mod] at hsl
      have hsl' : (wrapState s).slots[(Cfg.mk W32 (2 ^ k)).idx (pos % W32)]? = some (wrapSlot sl) := by
        rw [hidx, wrap_slots_get, hsl]; rfl
      simp only [step, hth, hth', hpc, hpc', hsl, hsl']
      simp only [wrapRes, wrap_setPc, hidx]
      rfl
    | popClear pos seq v =>
      have hpc' : (wrapThread th).pc = .popClear (pos % W32) (seq % W32) v := by simp [wrapThread, hpc, wrapPc]
      obtain ⟨sl, hsl, hw1, hw2⟩ := seq_window g hI pos
      have hw1 : s.tail ≤ sl.seq + 2 ^ k := hw1
      have hw2 : sl.seq < s.head + 2 ^ k ∨ sl.seq ≤ s.tail := hw2
      rw [← g.idx_mod] at hsl
      have hsl' : (wrapState s).slots[(Cfg.mk W32 (2 ^ k)).idx (pos % W32)]? = some (wrapSlot sl) := by
        rw [hidx, wrap_slots_get, hsl]; rfl
      simp only [step, hth, hth', hpc, hpc', hsl, hsl']
      simp only [wrapRes, wrap_setPc, hidx]
      simp only [wrapState, wrapEvent, wrapAcc, wrapPc, wrapSlot, State.setPc, List.map_set]
    | popStore pos seq v =>
      have hpc' : (wrapThread th).pc = .popStore (pos % W32) (seq % W32) v := by simp [wrapThread, hpc, wrapPc]
      obtain ⟨sl, hsl, hw1, hw2⟩ := seq_window g hI pos
      have hw1 : s.tail ≤ sl.seq + 2 ^ k := hw1
      have hw2 : sl.seq < s.head + 2 ^ k ∨ sl.seq ≤ s.tail := hw2
      rw [← g.idx_mod] at hsl
      have hsl' : (wrapState s).slots[(Cfg.mk W32 (2 ^ k)).idx (pos % W32)]? = some (wrapSlot sl) := by
        rw [hidx, wrap_slots_get, hsl]; rfl
      simp only [step, hth, hth', hpc, hpc', hsl, hsl']
      simp only [wrapRes, wrap_fin, hidx, Cfg.norm]
      simp only [wrapState, wrapEvent, wrapAcc, wrapSlot, State.fin, List.map_set, Nat.mod_zero,
        Nat.mod_add_mod, Cfg.mask]
    | lenLoadTail =>
      have hpc' : (wrapThread th).pc = .lenLoadTail := by simp [wrapThread, hpc, wrapPc]
      simp only [step, hth, hth', hpc, hpc', wrapRes, wrap_setPc]
      rfl
    | lenLoadHead t =>
      have hpc' : (wrapThread th).pc = .lenLoadHead (t % W32) := by simp [wrapThread, hpc, wrapPc]
      simp only [hpc, PcOk] at hloc
      simp only [hpc, Lag] at hlg
      simp only [step, hth, hth', hpc, hpc', wrapRes, wrap_fin]
      have e := lenOf_wrap (cap := 2 ^ k) (t := t) (h := s.head) hcap (by omega) (by omega) hpos
      have htl : (wrapState s).head = s.head % W32 := rfl
      rw [htl, e]
      rfl
    | emptyLoadHead =>
      have hpc' : (wrapThread th).pc = .emptyLoadHead := by simp [wrapThread, hpc, wrapPc]
      simp only [step, hth, hth', hpc, hpc', wrapRes, wrap_setPc]
      rfl
    | emptyLoadTail h =>
      have hpc' : (wrapThread th).pc = .emptyLoadTail (h % W32) := by simp [wrapThread, hpc, wrapPc]
      simp only [hpc, PcOk] at hloc
      simp only [hpc, Lag] at hlg
      simp only [step, hth, hth', hpc, hpc', wrapRes, wrap_fin]
      have htl : (wrapState s).tail = s.tail % W32 := rfl
      have e : (h % W32 == s.tail % W32) = (h == s.tail) := by
        rw [Bool.eq_iff_iff]
        simp only [beq_iff_eq]
        omega
      rw [htl, e]
      rfl
    | fullLoadTail =>
      have hpc' : (wrapThread th).pc = .fullLoadTail := by simp [wrapThread, hpc, wrapPc]
      simp only [step, hth, hth', hpc, hpc', wrapRes, wrap_setPc]
      rfl
    | fullLoadHead t =>
      have hpc' : (wrapThread th).pc = .fullLoadHead (t % W32) := by simp [wrapThread, hpc, wrapPc]
      simp only [hpc, PcOk] at hloc
      simp only [hpc, Lag] at hlg
      simp only [step, hth, hth', hpc, hpc', wrapRes, wrap_fin]
      have e := full_wrap (cap := 2 ^ k) (t := t) (h := s.head) hcap (by omega) (by omega)
      have htl : (wrapState s).head = s.head % W32 := rfl
      rw [htl, e]
      rfl

end Golib.C01
