/-
Helper lemmas for C09: `EncryptStreamTo` / `DecryptStreamTo` as wholes.
-/
import Golib.Proof.C09Stream

namespace Golib.C09
open Golib.C08

def Src.data : Src → Bytes
  | .generic r => r.data
  | .writerTo d => d

/-- the source ends with `io.EOF` (a `*bytes.Reader` always does) -/
def Src.good : Src → Prop
  | .generic r => r.failAtEnd = false
  | .writerTo _ => True

def emptyWriter : Writer := { chunks := [], failAt := none }

/-- the CTR keystream `EncryptStreamTo`/`DecryptStreamTo` use for this secret and salt -/
def streamKS (P : Prims) (secret salt : Bytes) : Nat → Nat :=
  P.KS (evpKey P.md5 secret salt) (evpIV P.md5 secret salt)

theorem encryptStreamTo_spec (P : Prims) (hmd : Md5Len P.md5) (salt secret : Bytes) (src : Src)
    (hsrc : src.good) :
    ∃ w, encryptStreamTo P salt secret src emptyWriter = .ok w ∧
      w.content = fixedSaltHeader ++ salt ++ ctrXor (streamKS P secret salt) 0 src.data := by
  unfold encryptStreamTo
  rw [deriveCred_eq P.md5 hmd]
  simp only []
  obtain ⟨hk, hiv⟩ := cred_slices P.md5 hmd secret salt
  rw [hk, hiv]
  simp only []
  have hk' : ¬ (¬ keyOK (evpKey P.md5 secret salt) = true) := by simp [evpKey_ok P.md5 hmd]
  rw [if_neg hk']
  obtain ⟨w1, e1, c1, f1, _⟩ := write_ok emptyWriter fixedSaltHeader rfl
  rw [e1]; simp only []
  obtain ⟨w2, e2, c2, f2, _⟩ := write_ok w1 salt f1
  rw [e2]; simp only []
  have hc2 : w2.content = fixedSaltHeader ++ salt := by
    rw [c2, c1]; simp [emptyWriter, Writer.content]
  cases src with
  | generic r =>
    simp only []
    obtain ⟨w', a, _, c⟩ := copyLoop_spec (P.KS (evpKey P.md5 secret salt) (evpIV P.md5 secret salt))
      (r.measure + 2) r w2 0 hsrc f2 (Nat.le_refl _)
    rw [a]
    exact ⟨w', rfl, by rw [c, hc2]; rfl⟩
  | writerTo d =>
    simp only [copyWriterTo]
    by_cases hd : d.length = 0
    · rw [if_pos hd]
      have : d = [] := List.length_eq_zero_iff.mp hd
      exact ⟨w2, rfl, by rw [hc2, this]; simp [Src.data, ctrXor]⟩
    · rw [if_neg hd]
      obtain ⟨w3, e3, c3, _, _⟩ := write_ok w2
        (ctrXor (P.KS (evpKey P.md5 secret salt) (evpIV P.md5 secret salt)) 0 d) f2
      rw [e3]
      exact ⟨w3, rfl, by rw [c3, hc2]; rfl⟩

theorem readHeader_full (r : Reader) (h16 : 16 ≤ r.data.length) :
    ∃ r', readHeader .readFull r = .ok (r.data.take 16, r') ∧ r'.data = r.data.drop 16 ∧
      r'.failAtEnd = r.failAtEnd := by
  unfold readHeader
  simp only []
  obtain ⟨r', a, b, c⟩ := readFullLoop_spec (r.measure + 2) r aesBlockSize [] h16 (Nat.le_refl _)
  rw [a]
  simp only [List.nil_append]
  have h1 : ¬ (none : Option RdErr).isSome = true := by simp
  have h2 : ¬ (r.data.take aesBlockSize).length ≠ aesBlockSize := by
    simp only [aesBlockSize, List.length_take]; omega
  rw [if_neg h1, if_neg h2]
  exact ⟨r', rfl, b, c⟩

theorem decryptStreamTo_spec (P : Prims) (hmd : Md5Len P.md5) (secret salt body : Bytes)
    (hs : salt.length = 8) (r : Reader) (hr : r.data = fixedSaltHeader ++ salt ++ body)
    (hf : r.failAtEnd = false) :
    ∃ w, decryptStreamTo P .readFull secret r emptyWriter = .ok w ∧
      w.content = ctrXor (streamKS P secret salt) 0 body := by
  obtain ⟨p1, p2, p3⟩ := envelope_parts salt body hs
  have h8 := header_length
  have hl : 16 ≤ r.data.length := by rw [hr]; simp [h8, hs]; omega
  unfold decryptStreamTo
  obtain ⟨r', a, b, c⟩ := readHeader_full r hl
  rw [a]
  simp only []
  have ht : r.data.take 16 = fixedSaltHeader ++ salt := by
    rw [hr]; exact List.take_left' (by simp [h8, hs])
  rw [ht]
  have s1 : sliceTo (fixedSaltHeader ++ salt) 8 = some fixedSaltHeader := by
    have := sliceTo_nat (fixedSaltHeader ++ salt) 8 (by simp [h8])
    rw [← h8, List.take_left] at this; rw [h8] at this; exact this
  have s2 : sliceFrom (fixedSaltHeader ++ salt) 8 = some salt := by
    have := sliceFrom_nat (fixedSaltHeader ++ salt) 8 (by simp [h8])
    rw [← h8, List.drop_left] at this; rw [h8] at this; exact this
  rw [s1, s2]
  simp only []
  have : ¬ fixedSaltHeader ≠ fixedSaltHeader := by simp
  rw [if_neg this, deriveCred_eq P.md5 hmd]
  simp only []
  obtain ⟨hk, hiv⟩ := cred_slices P.md5 hmd secret salt
  rw [hk, hiv]
  simp only []
  have hk' : ¬ (¬ keyOK (evpKey P.md5 secret salt) = true) := by simp [evpKey_ok P.md5 hmd]
  rw [if_neg hk']
  obtain ⟨w', a', _, c'⟩ := copyLoop_spec (P.KS (evpKey P.md5 secret salt) (evpIV P.md5 secret salt))
    (r'.measure + 2) r' emptyWriter 0 (by rw [c, hf]) rfl (Nat.le_refl _)
  rw [a']
  refine ⟨w', rfl, ?_⟩
  rw [c', b, hr, p3]
  simp [emptyWriter, Writer.content, streamKS]

/-- the header read, in either mode, never panics and hands on exactly 16 bytes -/
theorem readHeader_total (mode : HeaderRead) (r : Reader) :
    readHeader mode r ≠ .panic ∧ ∀ h r', readHeader mode r = .ok (h, r') → h.length = 16 := by
  cases mode with
  | single =>
    unfold readHeader
    simp only []
    generalize r.read aesBlockSize = res
    obtain ⟨chunk, err, r1⟩ := res
    simp only []
    by_cases h1 : err.isSome = true
    · rw [if_pos h1]; exact ⟨by simp, by simp⟩
    · rw [if_neg h1]
      by_cases h2 : chunk.length ≠ aesBlockSize
      · rw [if_pos h2]; exact ⟨by simp, by simp⟩
      · rw [if_neg h2]
        refine ⟨by simp, fun h r' heq => ?_⟩
        injection heq with heq; injection heq with e1 _
        rw [← e1]; simpa [aesBlockSize] using h2
  | readFull =>
    unfold readHeader
    simp only []
    have hnd := readFullLoop_nodiv (r.measure + 2) r aesBlockSize [] (Nat.le_refl _)
    cases hres : readFullLoop (r.measure + 2) r aesBlockSize [] with
    | none => exact absurd hres hnd
    | some res =>
      obtain ⟨got, err, r1⟩ := res
      simp only []
      by_cases h1 : err.isSome = true
      · rw [if_pos h1]; exact ⟨by simp, by simp⟩
      · rw [if_neg h1]
        by_cases h2 : got.length ≠ aesBlockSize
        · rw [if_pos h2]; exact ⟨by simp, by simp⟩
        · rw [if_neg h2]
          refine ⟨by simp, fun h r' heq => ?_⟩
          injection heq with heq; injection heq with e1 _
          rw [← e1]; simpa [aesBlockSize] using h2

theorem decryptStreamTo_total (P : Prims) (hmd : Md5Len P.md5) (mode : HeaderRead)
    (secret : Bytes) (r : Reader) (out : Writer) :
    decryptStreamTo P mode secret r out ≠ .panic := by
  unfold decryptStreamTo
  obtain ⟨hnp, hlen⟩ := readHeader_total mode r
  cases hrh : readHeader mode r with
  | panic => exact absurd hrh hnp
  | err e => simp
  | ok res =>
    obtain ⟨hdr, r1⟩ := res
    have hl := hlen hdr r1 hrh
    simp only []
    have s1 : sliceTo hdr 8 = some (hdr.take 8) := sliceTo_nat hdr 8 (by omega)
    have s2 : sliceFrom hdr 8 = some (hdr.drop 8) := sliceFrom_nat hdr 8 (by omega)
    rw [s1, s2]
    simp only []
    split
    · simp
    · rw [deriveCred_eq P.md5 hmd]
      simp only []
      obtain ⟨hk, hiv⟩ := cred_slices P.md5 hmd secret (hdr.drop 8)
      rw [hk, hiv]
      simp only []
      split
      · simp
      · have := copyLoop_nodiv (P.KS (evpKey P.md5 secret (hdr.drop 8)) (evpIV P.md5 secret (hdr.drop 8)))
          (r1.measure + 2) r1 out 0 (Nat.le_refl _)
        cases hc : copyLoop (P.KS (evpKey P.md5 secret (hdr.drop 8)) (evpIV P.md5 secret (hdr.drop 8)))
          (r1.measure + 2) r1 out 0 with
        | diverged => exact absurd hc this
        | ok w => simp
        | readErr => simp
        | writeErr => simp

end Golib.C09
