/-
Helper lemmas for the Knapsack theorems (C18).

Invariant of the outer loop, after the items `pre` have been processed: every cell
`dp[i] = (s, sel)` holds a sub-selection `sel <+ pre` (a `Sublist`: each position of
`pre` used at most once, in order) with `wsum sel ≤ i`, `vsum sel = s`, that is optimal
among all sub-selections of `pre` of weight `≤ i`.

The inner loop runs from high to low index; the key fact is that the cells it reads
(`dp[n]` and `dp[w+n]`) have not yet been written in this pass.
-/
import Golib.Model.C18Knap

namespace Golib.C18

variable {α : Type}

def wsum (wf : α → Nat) (l : List α) : Nat := (l.map wf).sum
def vsum (vf : α → Int) (l : List α) : Int := (l.map vf).sum

@[simp] theorem wsum_nil (wf : α → Nat) : wsum wf [] = 0 := rfl
@[simp] theorem vsum_nil (vf : α → Int) : vsum vf [] = 0 := rfl
theorem wsum_snoc (wf : α → Nat) (l : List α) (x : α) : wsum wf (l ++ [x]) = wsum wf l + wf x := by
  simp [wsum, List.sum_append]
theorem vsum_snoc (vf : α → Int) (l : List α) (x : α) : vsum vf (l ++ [x]) = vsum vf l + vf x := by
  simp [vsum, List.sum_append]

theorem sublist_snoc {t pre : List α} {x : α} (h : t.Sublist (pre ++ [x])) :
    t.Sublist pre ∨ ∃ t', t = t' ++ [x] ∧ t'.Sublist pre := by
  obtain ⟨l₁, l₂, rfl, h1, h2⟩ := List.sublist_append_iff.mp h
  rcases List.sublist_cons_iff.mp h2 with h3 | ⟨r, rfl, h3⟩
  · have : l₂ = [] := List.sublist_nil.mp h3
    subst this; left; simpa using h1
  · have : r = [] := List.sublist_nil.mp h3
    subst this; right; exact ⟨l₁, rfl, h1⟩

/-- What a good cell at capacity `i` is, relative to the processed items `pre`. -/
def CellGood (wf : α → Nat) (vf : α → Int) (pre : List α) (i : Nat) (c : Cell α) : Prop :=
  c.2.Sublist pre ∧ wsum wf c.2 ≤ i ∧ vsum vf c.2 = c.1 ∧
    ∀ t : List α, t.Sublist pre → wsum wf t ≤ i → vsum vf t ≤ c.1

def TableGood (wf : α → Nat) (vf : α → Int) (pre : List α) (dp : List (Cell α)) : Prop :=
  ∀ i c, dp[i]? = some c → CellGood wf vf pre i c

/-- A cell that is good for `pre` at an index below the weight of `x` stays good. -/
theorem cellGood_below {wf : α → Nat} {vf : α → Int} {pre : List α} {x : α} {i : Nat} {c : Cell α}
    (h : CellGood wf vf pre i c) (hi : i < wf x) : CellGood wf vf (pre ++ [x]) i c := by
  obtain ⟨h1, h2, h3, h4⟩ := h
  refine ⟨h1.trans (List.sublist_append_left _ _), h2, h3, ?_⟩
  intro t ht hw
  rcases sublist_snoc ht with ht | ⟨t', rfl, _⟩
  · exact h4 t ht hw
  · rw [wsum_snoc] at hw; omega

/-- The new cell computed by one inner step is good for `pre ++ [x]`. -/
theorem kStep_spec (br : Option (List α → List α → Bool)) {wf : α → Nat} {vf : α → Int}
    {pre : List α} (x : α) (n : Nat) (dp : List (Cell α)) {src cur : Cell α}
    (hsrc : dp[n]? = some src) (hcur : dp[wf x + n]? = some cur)
    (gsrc : CellGood wf vf pre n src) (gcur : CellGood wf vf pre (wf x + n) cur) :
    ∃ dp', kStep br x (wf x) (vf x) n dp = some dp' ∧ dp'.length = dp.length ∧
      (∀ j, j ≠ wf x + n → dp'[j]? = dp[j]?) ∧
      (∀ c, dp'[wf x + n]? = some c → CellGood wf vf (pre ++ [x]) (wf x + n) c) := by
  obtain ⟨s1, s2, s3, s4⟩ := gsrc
  obtain ⟨c1, c2, c3, c4⟩ := gcur
  have hlt : wf x + n < dp.length := by
    have := (List.getElem?_eq_some_iff.mp hcur).1; exact this
  -- the candidate cell
  have gnew : (src.1 + vf x ≥ cur.1) →
      CellGood wf vf (pre ++ [x]) (wf x + n) (src.1 + vf x, src.2 ++ [x]) := by
    intro hge
    refine ⟨s1.append (List.Sublist.refl _), ?_, ?_, ?_⟩
    · simp only [wsum_snoc]; omega
    · simp only [vsum_snoc]; omega
    · intro t ht hw
      rcases sublist_snoc ht with ht | ⟨t', rfl, ht'⟩
      · have := c4 t ht hw; simp only []; omega
      · rw [wsum_snoc] at hw
        have := s4 t' ht' (by omega)
        simp only [vsum_snoc]; omega
  -- the old cell, when it is not beaten
  have gold : (src.1 + vf x ≤ cur.1) → CellGood wf vf (pre ++ [x]) (wf x + n) cur := by
    intro hle
    refine ⟨c1.trans (List.sublist_append_left _ _), c2, c3, ?_⟩
    intro t ht hw
    rcases sublist_snoc ht with ht | ⟨t', rfl, ht'⟩
    · exact c4 t ht hw
    · rw [wsum_snoc] at hw
      have := s4 t' ht' (by omega)
      simp only [vsum_snoc]; omega
  have hset : ∀ c', CellGood wf vf (pre ++ [x]) (wf x + n) c' →
      (dp.set (wf x + n) c').length = dp.length ∧
      (∀ j, j ≠ wf x + n → (dp.set (wf x + n) c')[j]? = dp[j]?) ∧
      (∀ c, (dp.set (wf x + n) c')[wf x + n]? = some c → CellGood wf vf (pre ++ [x]) (wf x + n) c) := by
    intro c' hc'
    refine ⟨by simp, ?_, ?_⟩
    · intro j hj; rw [List.getElem?_set]; simp [Ne.symm hj]
    · intro c hc; rw [List.getElem?_set] at hc; simp [hlt] at hc; subst hc; exact hc'
  have hkeep : (src.1 + vf x ≤ cur.1) →
      dp.length = dp.length ∧ (∀ j, j ≠ wf x + n → dp[j]? = dp[j]?) ∧
      (∀ c, dp[wf x + n]? = some c → CellGood wf vf (pre ++ [x]) (wf x + n) c) := by
    intro hle
    refine ⟨rfl, fun _ _ => rfl, ?_⟩
    intro c hc; rw [hcur] at hc; cases hc; exact gold hle
  unfold kStep
  simp only [hsrc, hcur]
  by_cases h1 : src.1 + vf x > cur.1
  · simp only [h1, if_true]
    exact ⟨_, rfl, hset _ (gnew (by omega))⟩
  · simp only [h1, if_false]
    by_cases h2 : src.1 + vf x = cur.1
    · simp only [h2, if_true]
      cases br with
      | none => exact ⟨_, rfl, hkeep (by omega)⟩
      | some b =>
        simp only []
        by_cases h3 : b cur.2 (src.2 ++ [x]) = true
        · simp only [h3, if_true]
          have := hset _ (gnew (by omega))
          rw [h2] at this
          exact ⟨_, rfl, this⟩
        · simp only [h3]
          exact ⟨_, rfl, hkeep (by omega)⟩
    · simp only [h2, if_false]
      exact ⟨_, rfl, hkeep (by omega)⟩

/-- The inner loop from counter `n`: cells below `w+n` are still those of the previous
pass (`dp0`), cells from `w+n` on are already good for `pre ++ [x]`. -/
theorem kInner_spec (br : Option (List α → List α → Bool)) {wf : α → Nat} {vf : α → Int}
    {pre : List α} (x : α) (dp0 : List (Cell α)) (g0 : TableGood wf vf pre dp0) :
    ∀ (n : Nat) (dp : List (Cell α)), (n = 0 ∨ wf x + n ≤ dp0.length) → dp.length = dp0.length →
      (∀ i, i < wf x + n → dp[i]? = dp0[i]?) →
      (∀ i c, wf x + n ≤ i → dp[i]? = some c → CellGood wf vf (pre ++ [x]) i c) →
      ∃ dp', kInner br x (wf x) (vf x) n dp = some dp' ∧ dp'.length = dp0.length ∧
        TableGood wf vf (pre ++ [x]) dp' := by
  intro n
  induction n with
  | zero =>
    intro dp _ hlen hlow hhigh
    refine ⟨dp, rfl, hlen, ?_⟩
    intro i c hc
    by_cases hi : i < wf x
    · rw [hlow i (by omega)] at hc
      exact cellGood_below (g0 i c hc) hi
    · exact hhigh i c (by omega) hc
  | succ n ih =>
    intro dp hle hlen hlow hhigh
    have hle : wf x + (n + 1) ≤ dp0.length := by omega
    have hn : n < dp.length := by omega
    have hwn : wf x + n < dp.length := by omega
    obtain ⟨src, hsrc⟩ : ∃ src, dp[n]? = some src := ⟨dp[n], List.getElem?_eq_getElem hn⟩
    obtain ⟨cur, hcur⟩ : ∃ cur, dp[wf x + n]? = some cur := ⟨dp[wf x + n], List.getElem?_eq_getElem hwn⟩
    have gsrc : CellGood wf vf pre n src := g0 n src (by rw [← hlow n (by omega)]; exact hsrc)
    have gcur : CellGood wf vf pre (wf x + n) cur :=
      g0 _ cur (by rw [← hlow (wf x + n) (by omega)]; exact hcur)
    obtain ⟨dp1, hstep, hlen1, hother, hnew⟩ := kStep_spec br x n dp hsrc hcur gsrc gcur
    obtain ⟨dp', hrun, hlen', hgood⟩ := ih dp1 (Or.inr (by omega)) (by omega)
      (fun i hi => by rw [hother i (by omega)]; exact hlow i (by omega))
      (fun i c hi hc => by
        by_cases he : i = wf x + n
        · subst he; exact hnew c hc
        · rw [hother i he] at hc; exact hhigh i c (by omega) hc)
    refine ⟨dp', ?_, hlen', hgood⟩
    simp only [kInner, hstep]
    exact hrun

theorem kItems_spec (br : Option (List α → List α → Bool)) (wf : α → Nat) (vf : α → Int) (W : Nat) :
    ∀ (items pre : List α) (dp : List (Cell α)), dp.length = W + 1 → TableGood wf vf pre dp →
      ∃ dp', kItems br wf vf W items dp = some dp' ∧ dp'.length = W + 1 ∧
        TableGood wf vf (pre ++ items) dp' := by
  intro items
  induction items with
  | nil => intro pre dp hl hg; exact ⟨dp, rfl, hl, by simpa using hg⟩
  | cons x xs ih =>
    intro pre dp hl hg
    obtain ⟨dp1, h1, hl1, hg1⟩ := kInner_spec br x dp hg (W + 1 - wf x) dp (by omega) rfl
      (fun _ _ => rfl) (fun i c hi hc => by
        have := (List.getElem?_eq_some_iff.mp hc).1
        omega)
    obtain ⟨dp', h2, hl2, hg2⟩ := ih (pre ++ [x]) dp1 (by omega) hg1
    refine ⟨dp', ?_, hl2, by simpa using hg2⟩
    simp only [kItems, h1]
    exact h2

theorem tableGood_init (wf : α → Nat) (vf : α → Int) (W : Nat) :
    TableGood wf vf [] (List.replicate (W + 1) ((0 : Int), ([] : List α))) := by
  intro i c hc
  rw [List.getElem?_replicate] at hc
  split at hc
  · cases hc
    refine ⟨List.Sublist.refl _, by simp, by simp, ?_⟩
    intro t ht _
    have : t = [] := List.sublist_nil.mp ht
    subst this; simp
  · cases hc

theorem knapsack_spec (br : Option (List α → List α → Bool)) (wf : α → Nat) (vf : α → Int) (W : Nat)
    (items : List α) :
    ∃ sel, knapsack br wf vf W items = some sel ∧ sel.Sublist items ∧ wsum wf sel ≤ W ∧
      ∀ t : List α, t.Sublist items → wsum wf t ≤ W → vsum vf t ≤ vsum vf sel := by
  obtain ⟨dp', h, hl, hg⟩ := kItems_spec br wf vf W items [] _ (by simp) (tableGood_init wf vf W)
  have hW : W < dp'.length := by omega
  have hc : dp'[W]? = some dp'[W] := List.getElem?_eq_getElem hW
  obtain ⟨g1, g2, g3, g4⟩ := hg W _ hc
  refine ⟨dp'[W].2, ?_, by simpa using g1, g2, ?_⟩
  · simp only [knapsack, h, hc, Option.map_some]
  · intro t ht hw
    rw [g3]; exact g4 t (by simpa using ht) hw

/-! ### the Go entry point (`int` weights and limit) -/

def isum (f : α → Int) (l : List α) : Int := (l.map f).sum

theorem wsum_toNat (wf : α → Int) (l : List α) (h : ∀ x ∈ l, 0 ≤ wf x) :
    ((wsum (fun x => (wf x).toNat) l : Nat) : Int) = isum wf l := by
  induction l with
  | nil => rfl
  | cons a l ih =>
    have ha := h a (by simp)
    have := ih (fun x hx => h x (by simp [hx]))
    simp only [wsum, isum, List.map_cons, List.sum_cons] at this ⊢
    omega

theorem knapsackGo_spec (br : Option (List α → List α → Bool)) (wf vf : α → Int) (W : Int)
    (items : List α) (hW : 0 ≤ W) (hw : ∀ x ∈ items, 0 ≤ wf x) :
    ∃ sel, knapsackGo br wf vf W items = some sel ∧ sel.Sublist items ∧ isum wf sel ≤ W ∧
      ∀ t : List α, t.Sublist items → isum wf t ≤ W → isum vf t ≤ isum vf sel := by
  obtain ⟨sel, h1, h2, h3, h4⟩ := knapsack_spec br (fun x => (wf x).toNat) vf W.toNat items
  refine ⟨sel, ?_, h2, ?_, ?_⟩
  · have hany : items.any (fun x => decide (wf x < 0)) = false := by
      rw [List.any_eq_false]; intro x hx; simpa using hw x hx
    have : ¬ (W < 0 ∨ items.any (fun x => decide (wf x < 0)) = true) := by
      rw [hany]; simp; omega
    simp only [knapsackGo, this, if_false]; exact h1
  · have := wsum_toNat wf sel (fun x hx => hw x (h2.subset hx)); omega
  · intro t ht hwt
    have := wsum_toNat wf t (fun x hx => hw x (ht.subset hx))
    exact h4 t ht (by omega)

end Golib.C18
