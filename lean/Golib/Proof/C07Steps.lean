/-
C07: step lemmas shared by the four loop bodies (skip / flush / write), and the
translation of index accesses at `i` into accesses on the suffix `src.drop i`.
-/
import Golib.Proof.C07Cursor

namespace Golib.C07
open Golib

theorem take_drop_append_drop (src : Bytes) {f i : Nat} (h : f ≤ i) :
    (src.take i).drop f ++ src.drop i = src.drop f := by
  apply List.ext_getElem?; intro k
  simp only [List.getElem?_append, List.getElem?_take, List.getElem?_drop, List.length_drop,
    List.length_take]
  grind

theorem take_drop_extend (src : Bytes) {f i : Nat} (k : Nat) (h : f ≤ i) :
    (src.take (i + k)).drop f = (src.take i).drop f ++ (src.drop i).take k := by
  apply List.ext_getElem?; intro j
  simp only [List.getElem?_append, List.getElem?_take, List.getElem?_drop, List.length_drop,
    List.length_take]
  grind

theorem take_drop_self (src : Bytes) (i : Nat) : (src.take i).drop i = [] := by
  apply List.eq_nil_of_length_eq_zero
  simp only [List.length_drop, List.length_take]; omega

theorem getElem?_of_lt {src : Bytes} {i : Nat} (h : i < src.length) : ∃ c, src[i]? = some c :=
  ⟨src[i], List.getElem?_eq_getElem h⟩

theorem stop_final {src : Bytes} {n : Nat} {s : St} (hi : Inv src n s) :
    Final src n s (virt src s ++ src.drop s.i) := by
  refine ⟨hi.ef, Nat.le_trans hi.fi hi.il, hi.dl, ?_⟩
  simp only [virt, List.append_assoc, take_drop_append_drop src hi.fi]

theorem skip_step {src : Bytes} {n : Nat} {dst : Bytes} {e f i : Nat} (k : Nat)
    (hi : Inv src n ⟨dst, e, f, i⟩) (hk : i + k ≤ src.length) :
    Inv src n ⟨dst, e, f, i + k⟩ ∧
      virt src ⟨dst, e, f, i + k⟩ = virt src ⟨dst, e, f, i⟩ ++ (src.drop i).take k := by
  obtain ⟨hef, hfi, hil, hdl, hsd⟩ := hi
  simp only [] at *
  refine ⟨⟨hef, by simp only []; omega, hk, hdl, hsd⟩, ?_⟩
  simp only [virt, take_drop_extend src k hfi, List.append_assoc]

/-- `if f < i { e += copy(dst[e:], src[f:i]); f = i }` (for the three simple codecs the
assignment `f = i` happens later, together with `i += w`). -/
theorem flush_step {src : Bytes} {n : Nat} {s : St} (hi : Inv src n s) :
    ∃ s0, flush src s = some s0 ∧ s0.e = s.e + (s.i - s.f) ∧ s0.f = s.f ∧ s0.i = s.i ∧
      Inv src n ⟨s0.dst, s0.e, s.i, s.i⟩ ∧ virt src ⟨s0.dst, s0.e, s.i, s.i⟩ = virt src s := by
  obtain ⟨hef, hfi, hil, hdl, hsd⟩ := hi
  obtain ⟨s0, h0, hl, he, hf, hi', ht⟩ := flush_spec (src := src) (s := s) hfi hil (by omega)
  refine ⟨s0, h0, he, hf, hi', ⟨by simp only []; omega, Nat.le_refl _, hil, by rw [← hdl]; exact hl, hsd⟩, ?_⟩
  simp only [virt, take_drop_self, List.append_nil, ht]

/-- Writing `bs` for `k` consumed bytes when nothing is pending (`f = i`). -/
theorem write_step {src : Bytes} {n : Nat} {dst : Bytes} {e i : Nat} {bs : Bytes} (k : Nat)
    (hi : Inv src n ⟨dst, e, i, i⟩) (hk : i + k ≤ src.length) (hb : bs.length ≤ k) :
    ∃ dst', writeAt dst e bs = some (dst', bs.length) ∧
      Inv src n ⟨dst', e + bs.length, i + k, i + k⟩ ∧
      virt src ⟨dst', e + bs.length, i + k, i + k⟩ = virt src ⟨dst, e, i, i⟩ ++ bs := by
  obtain ⟨hef, hfi, hil, hdl, hsd⟩ := hi
  simp only [] at *
  obtain ⟨dst', hw, hl, ht⟩ := writeAt_spec (dst := dst) (e := e) (bs := bs) (by omega)
  refine ⟨dst', hw, ⟨by simp only []; omega, Nat.le_refl _, hk, by rw [hl]; exact hdl, hsd⟩, ?_⟩
  simp only [virt, take_drop_self, List.append_nil, ht]

/-- flush, then write, then `i += k; f = i` (octal / hex / unicode). -/
theorem emit_step {src : Bytes} {n : Nat} {s : St} {bs : Bytes} (k : Nat)
    (hi : Inv src n s) (hk : s.i + k ≤ src.length) (hb : bs.length ≤ k) :
    ∃ s0 dst', flush src s = some s0 ∧ writeAt s0.dst s0.e bs = some (dst', bs.length) ∧
      Inv src n ⟨dst', s0.e + bs.length, s.i + k, s.i + k⟩ ∧
      virt src ⟨dst', s0.e + bs.length, s.i + k, s.i + k⟩ = virt src s ++ bs := by
  obtain ⟨s0, h0, -, -, -, hinv, hv⟩ := flush_step hi
  obtain ⟨dst', hw, hinv', hv'⟩ := write_step k hinv hk hb
  exact ⟨s0, dst', h0, hw, hinv', by rw [hv', hv]⟩

theorem drop_getElem?_zero (src : Bytes) (i : Nat) : (src.drop i)[0]? = src[i]? := by simp
theorem drop_getElem?_one (src : Bytes) (i : Nat) : (src.drop i)[1]? = src[i + 1]? := by simp

theorem window_eq (src : Bytes) (i a b : Nat) :
    ((src.drop i).take b).drop a = (src.take (i + b)).drop (i + a) := take_drop_shift src i a b

end Golib.C07
