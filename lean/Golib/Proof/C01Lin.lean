/-
C01 — consequences of the invariant for the linearization points (the successful CASes)
and for false returns.  Ghost-ticket machine.
-/
import Golib.Proof.C01Inv

namespace Golib.C01
open Golib.C01.Util

/-- A tail-CAS that succeeds now happens on a ring that is not full; a head-CAS that
succeeds now happens on a ring that is not empty (the sizes along the sequence of
linearization points are those of a legal bounded-queue run). -/
theorem cas_legal {c : Cfg} (g : Ghost c) {s : State} (hI : Inv c s) {th : Thread}
    (hth : th ∈ s.threads) :
    (∀ v pos seq, th.pc = .pushCAS v pos seq → s.tail = pos → s.tail - s.head < c.cap) ∧
    (∀ pos seq, th.pc = .popCAS pos seq → s.head = pos → 0 < s.tail - s.head) := by
  have hloc := hI.locals th hth
  refine ⟨?_, ?_⟩
  · intro v pos seq hpc hT
    simp only [hpc, PcOk] at hloc
    obtain ⟨_, _, q, hq, hle⟩ := hloc
    have hk : pos % c.cap < c.cap := Nat.mod_lt _ (by have := g.cap2; omega)
    obtain ⟨q0, hq0, hph⟩ := hI.phases _ hk
    rw [hq] at hq0
    obtain rfl := Option.some.inj hq0
    have := phase_F_of g.cap2 hph hT hI.head_le_tail hI.tail_le hle
    have := hI.head_le_tail
    omega
  · intro pos seq hpc hH
    simp only [hpc, PcOk] at hloc
    obtain ⟨_, _, q, hq, hle⟩ := hloc
    have hk : pos % c.cap < c.cap := Nat.mod_lt _ (by have := g.cap2; omega)
    obtain ⟨q0, hq0, hph⟩ := hI.phases _ hk
    rw [hq] at hq0
    obtain rfl := Option.some.inj hq0
    have := phase_S_of hph hH hI.tail_le hle
    omega

/-- `Push` is about to return false at its sequence-number check (`pos != seq`): the tail
moved since this call loaded it (another `Push` overlapped), or the ring is full now, or a
`Pop` in flight still holds the slot (it has claimed position `tail − cap` and not yet
released it).  At its CAS: the tail moved. -/
theorem push_false_reason {c : Cfg} (g : Ghost c) {s : State} (hI : Inv c s) {th : Thread}
    (hth : th ∈ s.threads) :
    (∀ v pos q, th.pc = .pushLoadSeq v pos → sq s.slots (pos % c.cap) = some q → pos ≠ q →
      pos < s.tail ∨ s.tail - s.head = c.cap ∨ (c.cap ≤ s.tail ∧ cR s.threads (s.tail - c.cap) = 1)) ∧
    (∀ v pos seq, th.pc = .pushCAS v pos seq → s.tail ≠ pos → pos < s.tail) := by
  have hloc := hI.locals th hth
  have hHT := hI.head_le_tail
  have hTc := hI.tail_le
  have h2 := g.cap2
  refine ⟨?_, ?_⟩
  · intro v pos q hpc hq hne
    simp only [hpc, PcOk] at hloc
    by_cases hlt : pos < s.tail
    · left; exact hlt
    · right
      have hT : s.tail = pos := by omega
      have hk : pos % c.cap < c.cap := Nat.mod_lt _ (by omega)
      obtain ⟨q0, hq0, p, hp, hph⟩ := hI.phases _ hk
      rw [hq] at hq0
      obtain rfl := Option.some.inj hq0
      rcases hph with ⟨a, b, d⟩ | ⟨a, b, d, _⟩ | ⟨a, b, d⟩ | ⟨a, b, d, e⟩
      · exfalso
        have := eq_of_mod_eq_of_window hp.symm (by omega) (by omega)
        omega
      · left
        have hp' : p % c.cap = (p + c.cap) % c.cap := by rw [Nat.add_mod_right]
        by_cases hge : p + c.cap ≤ pos
        · have := eq_of_mod_eq_of_window (hp'.symm.trans hp) hge (by omega)
          omega
        · exfalso
          have := eq_of_mod_eq_of_window hp (by omega) (by omega)
          omega
      · left
        have hp' : p % c.cap = (p + c.cap) % c.cap := by rw [Nat.add_mod_right]
        by_cases hge : p + c.cap ≤ pos
        · have := eq_of_mod_eq_of_window (hp'.symm.trans hp) hge (by omega)
          omega
        · exfalso
          have := eq_of_mod_eq_of_window hp (by omega) (by omega)
          omega
      · right
        have hp' : p % c.cap = (p + c.cap) % c.cap := by rw [Nat.add_mod_right]
        have hpe : p + c.cap = pos := by
          by_cases hge : p + c.cap ≤ pos
          · exact eq_of_mod_eq_of_window (hp'.symm.trans hp) hge (by omega)
          · exfalso
            have := eq_of_mod_eq_of_window hp (by omega) (by omega)
            omega
        have e2 : s.tail - c.cap = p := by omega
        exact ⟨by omega, by rw [e2]; exact e⟩
  · intro v pos seq hpc hne
    simp only [hpc, PcOk] at hloc
    omega

/-- `Pop` is about to return false at its sequence-number check (`pos+1 != seq`): the head
moved since this call loaded it (another `Pop` overlapped), or the ring is empty now, or a
`Push` in flight has claimed position `head` and not yet published it.  At its CAS: the
head moved. -/
theorem pop_false_reason {c : Cfg} (g : Ghost c) {s : State} (hI : Inv c s) {th : Thread}
    (hth : th ∈ s.threads) :
    (∀ pos q, th.pc = .popLoadSeq pos → sq s.slots (pos % c.cap) = some q → pos + 1 ≠ q →
      pos < s.head ∨ s.tail = s.head ∨ cW s.threads s.head = 1) ∧
    (∀ pos seq, th.pc = .popCAS pos seq → s.head ≠ pos → pos < s.head) := by
  have hloc := hI.locals th hth
  have hHT := hI.head_le_tail
  have hTc := hI.tail_le
  have h2 := g.cap2
  refine ⟨?_, ?_⟩
  · intro pos q hpc hq hne
    simp only [hpc, PcOk] at hloc
    by_cases hlt : pos < s.head
    · left; exact hlt
    · right
      have hH : s.head = pos := by omega
      have hk : pos % c.cap < c.cap := Nat.mod_lt _ (by omega)
      obtain ⟨q0, hq0, p, hp, hph⟩ := hI.phases _ hk
      rw [hq] at hq0
      obtain rfl := Option.some.inj hq0
      rcases hph with ⟨a, b, d⟩ | ⟨a, b, d, e⟩ | ⟨a, b, d⟩ | ⟨a, b, d, _⟩
      · left
        have := eq_of_mod_eq_of_window hp.symm (by omega) (by omega)
        omega
      · right
        have := eq_of_mod_eq_of_window hp.symm (by omega) (by omega)
        rw [hH, this]; exact e
      · exfalso
        have := eq_of_mod_eq_of_window hp.symm (by omega) (by omega)
        omega
      · left
        have hp' : p % c.cap = (p + c.cap) % c.cap := by rw [Nat.add_mod_right]
        by_cases hge : p + c.cap ≤ pos
        · have := eq_of_mod_eq_of_window (hp'.symm.trans hp) hge (by omega)
          omega
        · exfalso
          have := eq_of_mod_eq_of_window hp (by omega) (by omega)
          omega
  · intro pos seq hpc hne
    simp only [hpc, PcOk] at hloc
    omega

/-- Key fact for progress: when no thread is inside a critical window (between its CAS and
its store) the slot at the tail is free for the tail position unless the ring is full,
and the slot at the head is published for the head position unless the ring is empty. -/
theorem quiescent_slots {c : Cfg} (g : Ghost c) {s : State} (hI : Inv c s)
    (hq : ∀ p, cW s.threads p = 0 ∧ cR s.threads p = 0) :
    (s.tail - s.head < c.cap → sq s.slots (s.tail % c.cap) = some s.tail) ∧
    (0 < s.tail - s.head → sq s.slots (s.head % c.cap) = some (s.head + 1)) := by
  have hHT := hI.head_le_tail
  have hTc := hI.tail_le
  have h2 := g.cap2
  refine ⟨?_, ?_⟩
  · intro hfree
    have hk : s.tail % c.cap < c.cap := Nat.mod_lt _ (by omega)
    obtain ⟨q0, hq0, p, hp, hph⟩ := hI.phases _ hk
    rcases hph with ⟨a, b, d⟩ | ⟨a, b, d, e⟩ | ⟨a, b, d⟩ | ⟨a, b, d, e⟩
    · have := eq_of_mod_eq_of_window hp.symm b (by omega)
      rw [hq0, a, this]
    · have := (hq p).1; omega
    · exfalso
      have hp' : p % c.cap = (p + c.cap) % c.cap := by rw [Nat.add_mod_right]
      by_cases hge : p + c.cap ≤ s.tail
      · have := eq_of_mod_eq_of_window (hp'.symm.trans hp) hge (by omega)
        omega
      · have := eq_of_mod_eq_of_window hp (by omega) (by omega)
        omega
    · have := (hq p).2; omega
  · intro hne
    have hk : s.head % c.cap < c.cap := Nat.mod_lt _ (by omega)
    obtain ⟨q0, hq0, p, hp, hph⟩ := hI.phases _ hk
    rcases hph with ⟨a, b, d⟩ | ⟨a, b, d, e⟩ | ⟨a, b, d⟩ | ⟨a, b, d, e⟩
    · exfalso
      have := eq_of_mod_eq_of_window hp.symm (by omega) (by omega)
      omega
    · have := (hq p).1; omega
    · have := eq_of_mod_eq_of_window hp.symm b (by omega)
      rw [hq0, a, this]
    · have := (hq p).2; omega

/-! ### arithmetic core of the 32-bit refinement -/

/-- Two unbounded counter values less than `2^32` apart compare equal after wrapping to
32 bits exactly when they are equal. -/
theorem wrap_eq_iff {a b : Nat} (h : a ≤ b) (hlag : b - a < 2 ^ 32) :
    (a % 2 ^ 32 = b % 2 ^ 32 ↔ a = b) := by
  constructor
  · intro e; omega
  · intro e; rw [e]

/-- The 32-bit difference of two wrapped counters is the true difference when that is
below `2^32`. -/
theorem sub32_exact (cap : Nat) {t h : Nat} (hle : h ≤ t) (hlag : t - h < 2 ^ 32) :
    (Cfg.mk (2 ^ 32) cap).sub (t % 2 ^ 32) (h % 2 ^ 32) = t - h := by
  simp only [Cfg.sub]
  have : (2 : Nat) ^ 32 ≠ 0 := by decide
  simp only [this, if_false, Nat.mod_mod]
  omega

end Golib.C01
