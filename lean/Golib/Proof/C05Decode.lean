/-
C05 helper lemmas about the (repaired) trie decoder: one step consumes 1..len bytes and
writing the rune back yields exactly the consumed bytes (so a label determines its bytes);
widths agree with `runeWidth`; the decoding loop unfolds.
-/
import Golib.Proof.C05Enc
namespace Golib.C05
open Golib

def leaderOK (b : Nat) : Bool :=
  match Utf8.leader b with
  | none => decide (0x80 ≤ b)
  | some (sz, lo, hi) =>
    (sz == 1 && decide (b < 0x80)) ||
    (sz == 2 && decide (0xC2 ≤ b) && decide (b ≤ 0xDF) && lo == 0x80 && hi == 0xBF) ||
    (sz == 3 && decide (0xE0 ≤ b) && decide (b ≤ 0xEF) && decide (0x80 ≤ lo) && decide (hi ≤ 0xBF) &&
      (b != 0xE0 || lo == 0xA0) && (b != 0xED || hi == 0x9F)) ||
    (sz == 4 && decide (0xF0 ≤ b) && decide (b ≤ 0xF4) && decide (0x80 ≤ lo) && decide (hi ≤ 0xBF) &&
      (b != 0xF0 || lo == 0x90) && (b != 0xF4 || hi == 0x8F))

theorem leader_table : ∀ b : Fin 256, leaderOK b.val = true := by decide +kernel

theorem leader_cases (b : Nat) (hb : b < 256) :
    (Utf8.leader b = none ∧ 0x80 ≤ b) ∨
    (b < 0x80 ∧ ∃ lo hi, Utf8.leader b = some (1, lo, hi)) ∨
    (0xC2 ≤ b ∧ b ≤ 0xDF ∧ Utf8.leader b = some (2, 0x80, 0xBF)) ∨
    (0xE0 ≤ b ∧ b ≤ 0xEF ∧ ∃ lo hi, Utf8.leader b = some (3, lo, hi) ∧ 0x80 ≤ lo ∧ hi ≤ 0xBF ∧
        (b = 0xE0 → lo = 0xA0) ∧ (b = 0xED → hi = 0x9F)) ∨
    (0xF0 ≤ b ∧ b ≤ 0xF4 ∧ ∃ lo hi, Utf8.leader b = some (4, lo, hi) ∧ 0x80 ≤ lo ∧ hi ≤ 0xBF ∧
        (b = 0xF0 → lo = 0x90) ∧ (b = 0xF4 → hi = 0x8F)) := by
  have h := leader_table ⟨b, hb⟩
  simp only [leaderOK] at h
  cases hl : Utf8.leader b with
  | none => rw [hl] at h; simp at h; exact Or.inl ⟨rfl, h⟩
  | some v =>
    obtain ⟨sz, lo, hi⟩ := v
    rw [hl] at h
    simp only [Bool.or_eq_true, Bool.and_eq_true, beq_iff_eq, decide_eq_true_eq, bne_iff_ne, ne_eq] at h
    rcases h with ((h | h) | h) | h
    · obtain ⟨rfl, h2⟩ := h; exact Or.inr (Or.inl ⟨h2, lo, hi, rfl⟩)
    · obtain ⟨⟨⟨⟨rfl, h2⟩, h3⟩, rfl⟩, rfl⟩ := h; exact Or.inr (Or.inr (Or.inl ⟨h2, h3, rfl⟩))
    · obtain ⟨⟨⟨⟨⟨⟨rfl, h2⟩, h3⟩, h4⟩, h5⟩, h6⟩, h7⟩ := h
      exact Or.inr (Or.inr (Or.inr (Or.inl ⟨h2, h3, lo, hi, rfl, h4, h5, by omega, by omega⟩)))
    · obtain ⟨⟨⟨⟨⟨⟨rfl, h2⟩, h3⟩, h4⟩, h5⟩, h6⟩, h7⟩ := h
      exact Or.inr (Or.inr (Or.inr (Or.inr ⟨h2, h3, lo, hi, rfl, h4, h5, by omega, by omega⟩)))
theorem enc2 (b0 b1 : Nat) (h0 : 0xC2 ≤ b0) (h1 : b0 ≤ 0xDF) (h2 : 0x80 ≤ b1) (h3 : b1 ≤ 0xBF) :
    Utf8.encodeRune (((b0 % 32) * 64 + b1 % 64 : Nat) : Int) = [b0, b1] ∧
    Utf8.runeLen (((b0 % 32) * 64 + b1 % 64 : Nat) : Int) = 2 ∧
    (0x80 : Int) ≤ (((b0 % 32) * 64 + b1 % 64 : Nat) : Int) := by
  generalize hn : (b0 % 32) * 64 + b1 % 64 = n
  have hlo : 128 ≤ n := by omega
  have hhi : n < 2048 := by omega
  refine ⟨?_, ?_, by omega⟩
  · simp only [Utf8.encodeRune, Int.toNat_natCast]
    rw [if_neg (by omega), if_neg (by omega), if_pos (by omega)]
    congr 1
    · omega
    · congr 1; omega
  · simp only [Utf8.runeLen]
    rw [if_neg (by omega), if_neg (by omega), if_pos (by omega)]

theorem enc3 (b0 b1 b2 lo hi : Nat) (h0 : 0xE0 ≤ b0) (h1 : b0 ≤ 0xEF) (hlo : 0x80 ≤ lo) (hhi : hi ≤ 0xBF)
    (hE0 : b0 = 0xE0 → lo = 0xA0) (hED : b0 = 0xED → hi = 0x9F)
    (h2 : lo ≤ b1) (h3 : b1 ≤ hi) (h4 : Utf8.isCont b2 = true) :
    Utf8.encodeRune (((b0 % 16) * 4096 + (b1 % 64) * 64 + b2 % 64 : Nat) : Int) = [b0, b1, b2] ∧
    Utf8.runeLen (((b0 % 16) * 4096 + (b1 % 64) * 64 + b2 % 64 : Nat) : Int) = 3 ∧
    (0x80 : Int) ≤ (((b0 % 16) * 4096 + (b1 % 64) * 64 + b2 % 64 : Nat) : Int) := by
  simp only [Utf8.isCont, Bool.and_eq_true, decide_eq_true_eq] at h4
  generalize hn : (b0 % 16) * 4096 + (b1 % 64) * 64 + b2 % 64 = n
  have hnlo : 2048 ≤ n := by omega
  have hnhi : n < 65536 := by omega
  have hsur : ¬ (55296 ≤ n ∧ n ≤ 57343) := by omega
  have hs : Utf8.isSurrogate (n : Int) = false := by
    simp only [Utf8.isSurrogate, Bool.and_eq_false_iff, decide_eq_false_iff_not]; omega
  refine ⟨?_, ?_, by omega⟩
  · simp only [Utf8.encodeRune, Int.toNat_natCast, hs, Utf8.maxRune]
    rw [if_neg (by omega), if_neg (by omega), if_neg (by omega), if_neg (by simp; omega), if_pos (by omega)]
    congr 1
    · omega
    · congr 1
      · omega
      · congr 1; omega
  · simp only [Utf8.runeLen, hs]
    rw [if_neg (by omega), if_neg (by omega), if_neg (by omega), if_neg (by simp), if_pos (by omega)]

theorem enc4 (b0 b1 b2 b3 lo hi : Nat) (h0 : 0xF0 ≤ b0) (h1 : b0 ≤ 0xF4) (hlo : 0x80 ≤ lo) (hhi : hi ≤ 0xBF)
    (hF0 : b0 = 0xF0 → lo = 0x90) (hF4 : b0 = 0xF4 → hi = 0x8F)
    (h2 : lo ≤ b1) (h3 : b1 ≤ hi) (h4 : Utf8.isCont b2 = true) (h5 : Utf8.isCont b3 = true) :
    Utf8.encodeRune (((b0 % 8) * 262144 + (b1 % 64) * 4096 + (b2 % 64) * 64 + b3 % 64 : Nat) : Int)
      = [b0, b1, b2, b3] ∧
    Utf8.runeLen (((b0 % 8) * 262144 + (b1 % 64) * 4096 + (b2 % 64) * 64 + b3 % 64 : Nat) : Int) = 4 ∧
    (0x80 : Int) ≤ (((b0 % 8) * 262144 + (b1 % 64) * 4096 + (b2 % 64) * 64 + b3 % 64 : Nat) : Int) := by
  simp only [Utf8.isCont, Bool.and_eq_true, decide_eq_true_eq] at h4 h5
  generalize hn : (b0 % 8) * 262144 + (b1 % 64) * 4096 + (b2 % 64) * 64 + b3 % 64 = n
  have hnlo : 65536 ≤ n := by omega
  have hnhi : n ≤ 1114111 := by omega
  have hs : Utf8.isSurrogate (n : Int) = false := by
    simp only [Utf8.isSurrogate, Bool.and_eq_false_iff, decide_eq_false_iff_not]; omega
  refine ⟨?_, ?_, by omega⟩
  · simp only [Utf8.encodeRune, Int.toNat_natCast, hs, Utf8.maxRune]
    rw [if_neg (by omega), if_neg (by omega), if_neg (by omega), if_neg (by simp; omega), if_neg (by omega)]
    congr 1
    · omega
    · congr 1
      · omega
      · congr 1
        · omega
        · congr 1; omega
  · unfold Utf8.runeLen Utf8.maxRune
    rw [hs, if_neg (by omega), if_neg (by omega), if_neg (by omega), if_neg (by decide), if_neg (by omega),
      if_pos (by omega)]

/-- `utf8.DecodeRune` on a non-ASCII leading byte: an encoding error, or a rune `≥ 0x80`
of width 2–4 that encodes back to exactly the consumed bytes, all but the first of which
are continuation bytes. -/
theorem decodeRune_cases (b : Nat) (rest : List Nat) (hb : Bytes (b :: rest)) (hna : 0x80 ≤ b) :
    Utf8.decodeRune (b :: rest) = (Utf8.runeError, 1) ∨
    (∃ r w, Utf8.decodeRune (b :: rest) = (r, w) ∧ 2 ≤ w ∧ w ≤ rest.length + 1 ∧ 0x80 ≤ r ∧
      Utf8.encodeRune r = (b :: rest).take w ∧ Utf8.runeLen r = (w : Int) ∧
      ∀ c ∈ rest.take (w - 1), Utf8.isCont c = true) := by
  have hb0 : b < 256 := hb b (by simp)
  rcases leader_cases b hb0 with ⟨hl, _⟩ | ⟨h, _⟩ | ⟨h0, h1, hl⟩ | ⟨h0, h1, lo, hi, hl, hlo, hhi, hE0, hED⟩ |
      ⟨h0, h1, lo, hi, hl, hlo, hhi, hF0, hF4⟩
  · left; simp only [Utf8.decodeRune, hl]
  · omega
  · -- two bytes
    cases rest with
    | nil => left; simp only [Utf8.decodeRune, hl]
    | cons b1 rest =>
      by_cases hr : 0x80 ≤ b1 ∧ b1 ≤ 0xBF
      · right
        obtain ⟨e1, e2, e3⟩ := enc2 b b1 h0 h1 hr.1 hr.2
        refine ⟨_, 2, by simp only [Utf8.decodeRune, hl, hr, and_self, if_true], by omega, by simp, e3, ?_, e2, ?_⟩
        · rw [e1]; simp
        · intro c hc
          simp only [Nat.add_one_sub_one, List.take_succ_cons, List.take_zero, List.mem_singleton] at hc
          subst hc; simp [Utf8.isCont, hr.1, hr.2]
      · left; simp only [Utf8.decodeRune, hl, hr, if_false]
  · -- three bytes
    match rest with
    | [] => left; simp only [Utf8.decodeRune, hl]
    | [_] => left; simp only [Utf8.decodeRune, hl]
    | b1 :: b2 :: rest =>
      by_cases hr : lo ≤ b1 ∧ b1 ≤ hi ∧ Utf8.isCont b2 = true
      · right
        obtain ⟨e1, e2, e3⟩ := enc3 b b1 b2 lo hi h0 h1 hlo hhi hE0 hED hr.1 hr.2.1 hr.2.2
        refine ⟨_, 3, by simp only [Utf8.decodeRune, hl, hr, and_self, if_true], by omega, by simp, e3, ?_, e2, ?_⟩
        · rw [e1]; simp
        · intro c hc
          simp only [Nat.add_one_sub_one, List.take_succ_cons, List.take_zero, List.mem_cons,
            List.not_mem_nil, or_false] at hc
          rcases hc with hc | hc
          · subst hc; simp only [Utf8.isCont, Bool.and_eq_true, decide_eq_true_eq]; omega
          · subst hc; exact hr.2.2
      · left; simp only [Utf8.decodeRune, hl, hr, if_false]
  · -- four bytes
    match rest with
    | [] => left; simp only [Utf8.decodeRune, hl]
    | [_] => left; simp only [Utf8.decodeRune, hl]
    | [_, _] => left; simp only [Utf8.decodeRune, hl]
    | b1 :: b2 :: b3 :: rest =>
      by_cases hr : lo ≤ b1 ∧ b1 ≤ hi ∧ Utf8.isCont b2 = true ∧ Utf8.isCont b3 = true
      · right
        obtain ⟨e1, e2, e3⟩ := enc4 b b1 b2 b3 lo hi h0 h1 hlo hhi hF0 hF4 hr.1 hr.2.1 hr.2.2.1 hr.2.2.2
        refine ⟨_, 4, by simp only [Utf8.decodeRune, hl, hr, and_self, if_true], by omega, by simp, e3, ?_, e2, ?_⟩
        · rw [e1]; simp
        · intro c hc
          simp only [Nat.add_one_sub_one, List.take_succ_cons, List.take_zero, List.mem_cons,
            List.not_mem_nil, or_false] at hc
          rcases hc with hc | hc | hc
          · subst hc; simp only [Utf8.isCont, Bool.and_eq_true, decide_eq_true_eq]; omega
          · subst hc; exact hr.2.2.1
          · subst hc; exact hr.2.2.2
      · left; simp only [Utf8.decodeRune, hl, hr, if_false]

/-- The three kinds of decoder step. -/
theorem decodeStep_cases (b : Nat) (rest : List Nat) (hb : Bytes (b :: rest)) :
    (b < 0x80 ∧ decodeStep (b :: rest) = ((b : Int), 1)) ∨
    (0x80 ≤ b ∧ decodeStep (b :: rest) = (-1 - (b : Int), 1)) ∨
    (0x80 ≤ b ∧ ∃ r w, decodeStep (b :: rest) = (r, w) ∧ 2 ≤ w ∧ w ≤ rest.length + 1 ∧ 0x80 ≤ r ∧
      Utf8.encodeRune r = (b :: rest).take w ∧ Utf8.runeLen r = (w : Int) ∧
      ∀ c ∈ rest.take (w - 1), Utf8.isCont c = true) := by
  by_cases ha : b < 0x80
  · left; exact ⟨ha, by simp only [decodeStep, ha, if_true]⟩
  · right
    have hna : 0x80 ≤ b := by omega
    rcases decodeRune_cases b rest hb hna with h | ⟨r, w, h, h2, h3, h4, h5, h6, h7⟩
    · left; refine ⟨hna, ?_⟩
      simp only [decodeStep, ha, if_false, h, and_self, if_true]
    · right; refine ⟨hna, r, w, ?_, h2, h3, h4, h5, h6, h7⟩
      have : ¬ (r = Utf8.runeError ∧ w = 1) := by omega
      simp only [decodeStep, ha, if_false, h, this]

/-- One decoder step on a non-empty byte string: consumes between 1 and `len` bytes,
writing the rune back yields exactly the consumed bytes, `runeWidth` agrees with the width. -/
theorem decodeStep_spec (b : Nat) (rest : List Nat) (hb : Bytes (b :: rest)) :
    1 ≤ (decodeStep (b :: rest)).2 ∧ (decodeStep (b :: rest)).2 ≤ (b :: rest).length ∧
    writeRune (decodeStep (b :: rest)).1 = (b :: rest).take (decodeStep (b :: rest)).2 ∧
    runeWidth (decodeStep (b :: rest)).1 = ((decodeStep (b :: rest)).2 : Int) := by
  have hb0 : b < 256 := hb b (by simp)
  rcases decodeStep_cases b rest hb with ⟨ha, h⟩ | ⟨ha, h⟩ | ⟨ha, r, w, h, h2, h3, h4, h5, h6, _⟩
  · rw [h]
    refine ⟨by simp, by simp, ?_, ?_⟩
    · unfold writeRune Utf8.encodeRune
      rw [if_neg (by omega), if_neg (by omega), if_pos (by omega)]; simp
    · unfold runeWidth Utf8.runeLen
      rw [if_neg (by omega), if_neg (by omega), if_pos (by omega)]; simp
  · rw [h]
    refine ⟨by simp, by simp, ?_, ?_⟩
    · simp only [writeRune]
      rw [if_pos (by omega)]
      have : (-1 - (-1 - (b : Int))).toNat % 256 = b := by omega
      rw [this]; simp
    · simp only [runeWidth]
      rw [if_pos (by omega)]; simp
  · rw [h]
    refine ⟨by simp only []; omega, by simp only [List.length_cons]; omega, ?_, ?_⟩
    · simp only [writeRune]
      rw [if_neg (by omega)]; exact h5
    · simp only [runeWidth]
      rw [if_neg (by omega)]; exact h6

theorem decodeStep_width_pos (b : Nat) (rest : List Nat) (hb : Bytes (b :: rest)) :
    1 ≤ (decodeStep (b :: rest)).2 := (decodeStep_spec b rest hb).1

theorem Bytes.drop {bs : List Nat} (h : Bytes bs) (k : Nat) : Bytes (bs.drop k) :=
  fun b hb => h b (List.mem_of_mem_drop hb)

theorem Bytes.take {bs : List Nat} (h : Bytes bs) (k : Nat) : Bytes (bs.take k) :=
  fun b hb => h b (List.mem_of_mem_take hb)

theorem Bytes.append {a b : List Nat} (ha : Bytes a) (hb : Bytes b) : Bytes (a ++ b) := by
  intro x hx; rcases List.mem_append.1 hx with h | h
  · exact ha x h
  · exact hb x h

theorem Bytes.of_append_left {a b : List Nat} (h : Bytes (a ++ b)) : Bytes a :=
  fun x hx => h x (List.mem_append_left _ hx)

theorem Bytes.of_append_right {a b : List Nat} (h : Bytes (a ++ b)) : Bytes b :=
  fun x hx => h x (List.mem_append_right _ hx)

/-- More fuel than bytes changes nothing. -/
theorem decodeWith_fuel : ∀ (fuel : Nat) (bs : List Nat), Bytes bs → bs.length ≤ fuel →
    decodeWith decodeStep fuel bs = decodeWith decodeStep bs.length bs := by
  intro fuel
  induction fuel using Nat.strongRecOn with
  | _ fuel ih =>
    intro bs hb hle
    cases bs with
    | nil => cases fuel <;> rfl
    | cons b rest =>
      cases fuel with
      | zero => simp at hle
      | succ fuel =>
        have hw := decodeStep_spec b rest hb
        simp only [decodeWith, List.length_cons]
        congr 1
        have hlen : ((b :: rest).drop (decodeStep (b :: rest)).2).length ≤ rest.length := by
          simp only [List.length_drop, List.length_cons]; omega
        rw [ih fuel (Nat.lt_succ_self _) _ (hb.drop _) (by simp only [List.length_cons] at hle; omega)]
        exact (ih rest.length (by simp only [List.length_cons] at hle; omega) _ (hb.drop _) hlen).symm

theorem decodeAll_nil : decodeAll [] = [] := rfl

/-- Unfolding of the decoding loop on a non-empty string. -/
theorem decodeAll_cons (b : Nat) (rest : List Nat) (hb : Bytes (b :: rest)) :
    decodeAll (b :: rest) =
      decodeStep (b :: rest) :: decodeAll ((b :: rest).drop (decodeStep (b :: rest)).2) := by
  have hw := decodeStep_spec b rest hb
  simp only [decodeAll, decodeAllWith, List.length_cons, decodeWith]
  congr 1
  apply decodeWith_fuel _ _ (hb.drop _)
  simp only [List.length_drop, List.length_cons]; omega

theorem decodeAll_eq_nil_iff (bs : List Nat) : decodeAll bs = [] ↔ bs = [] := by
  cases bs with
  | nil => simp [decodeAll_nil]
  | cons b rest => simp [decodeAll, decodeAllWith, decodeWith]

/-- Induction principle following the decoder. -/
theorem decode_induction {P : List Nat → Prop} (h0 : P [])
    (hstep : ∀ b rest, Bytes (b :: rest) → P ((b :: rest).drop (decodeStep (b :: rest)).2) → P (b :: rest)) :
    ∀ bs, Bytes bs → P bs := by
  intro bs
  induction h : bs.length using Nat.strongRecOn generalizing bs with
  | _ n ih =>
    intro hb
    cases bs with
    | nil => exact h0
    | cons b rest =>
      have hw := decodeStep_spec b rest hb
      apply hstep b rest hb
      apply ih _ _ _ rfl (hb.drop _)
      subst h
      simp only [List.length_drop, List.length_cons]; omega

theorem decodeAll_wf (bs : List Nat) (hb : Bytes bs) : StepsWF (decodeAll bs) := by
  revert hb
  apply decode_induction (P := fun bs => StepsWF (decodeAll bs))
  · intro st hst; simp [decodeAll_nil] at hst
  · intro b rest hb ih st hst
    rw [decodeAll_cons b rest hb, List.mem_cons] at hst
    rcases hst with rfl | hst
    · obtain ⟨h1, h2, h3, _⟩ := decodeStep_spec b rest hb
      refine ⟨?_, h1⟩
      rw [h3, List.length_take]; omega
    · exact ih st hst

/-- Round trip: the label determines the bytes. -/
theorem decodeAll_encode (bs : List Nat) (hb : Bytes bs) : encodeLabel (lab (decodeAll bs)) = bs := by
  revert hb
  apply decode_induction (P := fun bs => encodeLabel (lab (decodeAll bs)) = bs)
  · rfl
  · intro b rest hb ih
    rw [decodeAll_cons b rest hb]
    simp only [lab, List.map_cons] at ih ⊢
    rw [encodeLabel_cons, ih, (decodeStep_spec b rest hb).2.2.1, List.take_append_drop]

theorem decodeAll_widths (bs : List Nat) (hb : Bytes bs) : ((decodeAll bs).map (·.2)).sum = bs.length := by
  revert hb
  apply decode_induction (P := fun bs => ((decodeAll bs).map (·.2)).sum = bs.length)
  · rfl
  · intro b rest hb ih
    have hw := decodeStep_spec b rest hb
    rw [decodeAll_cons b rest hb]
    simp only [List.map_cons, List.sum_cons, ih, List.length_drop, List.length_cons] at hw ⊢
    omega

theorem decodeAll_inj (a b : List Nat) (ha : Bytes a) (hb : Bytes b)
    (h : lab (decodeAll a) = lab (decodeAll b)) : a = b := by
  rw [← decodeAll_encode a ha, ← decodeAll_encode b hb, h]

end Golib.C05
