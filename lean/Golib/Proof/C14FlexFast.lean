/-
C14 helper lemmas, part 11: the array representation of the FlexSlice model agrees with the list
model on `Pop` and `Get` for every state (the remaining operations are the list model's).
-/
import Golib.Proof.C14Flex
import Golib.Model.C14FlexFast

namespace Golib.C14

theorem FlexA.to_of (f : Flex) : (FlexA.ofFlex f).toFlex = f := by
  simp [FlexA.ofFlex, FlexA.toFlex]

theorem pop_mem_eq (mem : List Int) (len : Nat) (h0 : 0 < len) (hl : len ≤ mem.length) :
    (mem.take len).eraseIdx (len - 1) ++ [0] ++ mem.drop len = mem.set (len - 1) 0 := by
  apply List.ext_getElem?; intro k
  simp only [List.getElem?_append, List.getElem?_eraseIdx, List.getElem?_take, List.getElem?_drop,
    List.getElem?_set, List.length_append, List.length_eraseIdx, List.length_take, List.length_cons,
    List.length_nil]
  grind

theorem FlexA.pop_eq (f : FlexA) :
    (f.pop).map (fun r => (r.1.toFlex, r.2.1, r.2.2)) = f.toFlex.pop := by
  unfold FlexA.pop
  by_cases h : 0 < f.len ∧ f.len ≤ f.mem.size
  · simp only [h, and_self, if_true]
    obtain ⟨h0, hl⟩ := h
    have hidx : f.len - 1 < f.mem.size := by omega
    have hv : f.mem[f.len - 1]? = some f.mem[f.len - 1] := by simp [hidx]
    have hInv : f.toFlex.Inv := by simpa [Flex.Inv, FlexA.toFlex] using hl
    have hvl := length_values f.toFlex hInv
    -- the list model's Pop
    have hrm := (remove_spec false f.toFlex.values (((f.len - 1 : Nat)) : Int)).2 (f.len - 1) rfl
      (by rw [hvl]; simp [FlexA.toFlex]; omega)
    have hidxI : ((f.toFlex.len : Int) - 1) = ((f.len - 1 : Nat) : Int) := by
      simp only [FlexA.toFlex]; omega
    have hval : f.toFlex.values[f.len - 1]'(by rw [hvl]; simp [FlexA.toFlex]; omega) = f.mem[f.len - 1] := by
      simp [Flex.values, FlexA.toFlex]
    have hmem : (f.toFlex.values.eraseIdx (f.len - 1) ++ [0]) ++ f.toFlex.mem.drop f.toFlex.len =
        (f.mem.setIfInBounds (f.len - 1) 0).toList := by
      simp only [Flex.values, FlexA.toFlex, Array.toList_setIfInBounds]
      exact pop_mem_eq f.mem.toList f.len h0 (by simpa using hl)
    have hlen : (f.toFlex.values.eraseIdx (f.len - 1)).length = f.len - 1 := by
      rw [List.length_eraseIdx, hvl]
      show (if f.len - 1 < f.len then f.len - 1 else f.len) = f.len - 1
      rw [if_pos (by omega)]
    simp only [Flex.pop, Flex.remove, hidxI, hrm, hmem, hlen, hval, hv]
    have hsz : (f.mem.setIfInBounds (f.len - 1) 0).size = f.mem.size := by simp
    simp only [Flex.shrink, Flex.cap, FlexA.toFlex, Array.length_toList, hsz]
    by_cases h8 : f.mem.size ≤ 8
    · simp [h8]
    · simp only [h8, if_false]
      by_cases hq : f.len - 1 ≤ f.mem.size / 4
      · first
          | (simp [hq, FlexA.ofFlex]; done)
          | (simp [hq, FlexA.ofFlex]; rfl)
      · simp [hq]
  · simp only [h, if_false, Option.map_map]
    cases f.toFlex.pop with
    | none => rfl
    | some r => simp [FlexA.to_of]

theorem FlexA.get_eq (f : FlexA) (index : Int) : f.get index = f.toFlex.get index := by
  unfold FlexA.get
  by_cases h : index ≥ 0 ∧ index < f.len ∧ f.len ≤ f.mem.size
  · simp only [h, and_self, if_true]
    obtain ⟨h0, h1, h2⟩ := h
    have hw : Flex.withinRange ⟨f.mem.toList, f.len⟩ index = true := by
      simp [Flex.withinRange, h0, h1]
    simp only [Flex.get, FlexA.toFlex, hw, if_true, Flex.values]
    have : index.toNat < f.len := by omega
    rw [List.getElem?_take, if_pos this]
    rw [Array.getElem?_toList]
    cases f.mem[index.toNat]? <;> rfl
  · simp only [h, if_false]

/-- A `SubSlice` child that was not reallocated by `shrink` is the window `[st, st+l)` of the
parent's backing array.  An `Append` on the parent never changes what the child reads: within
capacity it writes only cells `≥ len(parent) ≥ st + l` of the shared array, beyond capacity the
parent moves to a new array and the shared one is left as it is. -/
theorem flex_child_stable_append (g : Nat → Nat → Nat) (f : Flex) (v : List Int) (st l : Nat)
    (hi : f.Inv) (hc : st + l ≤ f.len) (hcap : f.len + v.length ≤ f.cap) :
    ((f.append g v).mem.drop st).take l = (f.mem.drop st).take l := by
  unfold Flex.Inv at hi
  simp only [Flex.append, hcap, if_true]
  apply List.ext_getElem?; intro k
  simp only [List.getElem?_take, List.getElem?_drop, List.getElem?_append, List.length_take,
    List.length_append]
  grind

/-- `Pop` on the parent writes exactly one cell of the shared array (`s[last] = zero`, before any
`shrink` reallocation): a child window that ends at or before that cell is unchanged, a child
that contains it reads the zero there. -/
theorem flex_child_pop (f : Flex) (st l : Nat) (h0 : 0 < f.len) (hi : f.Inv) :
    (st + l ≤ f.len - 1 → ((f.mem.set (f.len - 1) 0).drop st).take l = (f.mem.drop st).take l) ∧
    (st ≤ f.len - 1 → f.len - 1 < st + l →
      ((f.mem.set (f.len - 1) 0).drop st).take l = ((f.mem.drop st).take l).set (f.len - 1 - st) 0) := by
  unfold Flex.Inv at hi
  constructor
  · intro h
    apply List.ext_getElem?; intro k
    simp only [List.getElem?_take, List.getElem?_drop, List.getElem?_set]
    grind
  · intro h1 h2
    apply List.ext_getElem?; intro k
    simp only [List.getElem?_take, List.getElem?_drop, List.getElem?_set, List.length_take, List.length_drop]
    grind

end Golib.C14
