/-
C14 helper lemmas, part 9: the InPlace variants on ONE arena.  The swap loop running on the
arena cells `off .. off+len` is the swap loop of `C14Slices.lean` on the window, the rest of
the arena untouched; since the membership map is a snapshot of `s2` taken before the first
swap, this holds for EVERY position of `s2` relative to `s1`.
-/
import Golib.Proof.C14FirstOcc
import Golib.Model.C14Arena

namespace Golib.C14

/-- First occurrences by key under the key type's `==` (`E` need not be reflexive: a key that is
not equal to itself — NaN — is kept every time it occurs). -/
def firstOccE (E : ElemEq) (key : Int → Int) : List Int → List Int → List Int
  | _, [] => []
  | seen, v :: vs =>
    if memE E seen (key v) then firstOccE E key seen vs else v :: firstOccE E key (key v :: seen) vs

theorem selSpec_uniqueE (E : ElemEq) (key : Int → Int) (seen : List Int) (l : List Int) :
    selSpec (uniqueSelE E key) (seen, seen.length) l = firstOccE E key seen l := by
  induction l generalizing seen with
  | nil => rfl
  | cons v vs ih =>
    simp only [selSpec, uniqueSelE, mapInsertE, firstOccE]
    by_cases hc : memE E seen (key v) = true
    · simp only [hc, if_true, Nat.lt_irrefl, if_false, Bool.false_eq_true]
      exact ih seen
    · simp only [hc, Bool.false_eq_true, if_false, List.length_cons, Nat.lt_succ_self, if_true]
      have := ih (key v :: seen)
      simp only [List.length_cons] at this
      rw [this]

theorem memE_nil (E : ElemEq) (v : Int) : memE E [] v = false := rfl

/-- for `int` elements `memE` is list membership and `firstOccE` is `firstOcc` -/
theorem memE_int (m : List Int) (v : Int) : memE intEq m v = m.contains v := by
  induction m with
  | nil => rfl
  | cons x xs ih => simp only [memE, intEq, List.any_cons, List.contains_cons] at ih ⊢; rw [ih]

theorem firstOccE_int (key : Int → Int) (seen l : List Int) : firstOccE intEq key seen l = firstOcc key seen l := by
  induction l generalizing seen with
  | nil => rfl
  | cons v vs ih => simp only [firstOccE, firstOcc, memE_int, ih]

theorem set_mid (pre W post : List Int) (r : Nat) (v : Int) (hr : r < W.length) :
    (pre ++ W ++ post).set (pre.length + r) v = pre ++ W.set r v ++ post := by
  rw [List.append_assoc, List.set_append_right _ _ (by omega), List.set_append_left _ _ (by simpa using hr)]
  simp [List.append_assoc]

theorem get_mid (pre W post : List Int) (i : Nat) (hi : i < W.length) :
    (pre ++ W ++ post)[pre.length + i]? = W[i]? := by
  rw [List.append_assoc, List.getElem?_append_right (by omega), List.getElem?_append_left (by simpa using hi)]
  simp

theorem swap_mid (pre W post : List Int) (r i : Nat) (hr : r < W.length) (hi : i < W.length) :
    swap (pre ++ W ++ post) (pre.length + r) (pre.length + i) =
      (swap W r i).map fun m => pre ++ m ++ post := by
  simp only [swap, get_mid pre W post i hi, get_mid pre W post r hr,
    List.getElem?_eq_getElem hi, List.getElem?_eq_getElem hr, Option.map_some]
  rw [set_mid pre W post r _ hr, set_mid pre _ post i _ (by simpa using hi)]

/-- the arena loop = the window loop, surroundings untouched -/
theorem aipLoop_sim {σ : Type} (sel : σ → Int → σ × Bool) (pre post : List Int) :
    ∀ (f i : Nat) (st : σ) (W : List Int) (r : Nat), r ≤ i → f + i = W.length →
      aipLoop sel pre.length f i st (pre ++ W ++ post) r =
        (ipLoop sel f i st W r).map fun mk => (pre ++ mk.1 ++ post, mk.2) := by
  intro f
  induction f with
  | zero => intro i st W r _ _; rfl
  | succ f ih =>
    intro i st W r hr hf
    have hi : i < W.length := by omega
    have hrr : r < W.length := by omega
    simp only [aipLoop, ipLoop, get_mid pre W post i hi, List.getElem?_eq_getElem hi]
    cases ht : (sel st W[i]).2
    · have : sel st W[i] = ((sel st W[i]).1, false) := by rw [← ht]
      rw [this]
      simp only [Bool.false_eq_true, if_false]
      exact ih (i + 1) _ W r (by omega) (by omega)
    · have : sel st W[i] = ((sel st W[i]).1, true) := by rw [← ht]
      rw [this]
      simp only [if_true]
      rw [swap_mid pre W post r i hrr hi]
      obtain ⟨W1, hs, _, hl, _, _⟩ := swap_spec W r i hr hi
      rw [hs]
      simp only [Option.map_some]
      exact ih (i + 1) _ W1 (r + 1) (by omega) (by omega)

/-- What every InPlace function guarantees on the arena: the result is the window
`[off, off+k)` holding `sel`, the cells of `s1` are a permutation of what they were, every
other cell of the arena is unchanged. -/
structure ArenaIpOk (sel : List Int) (A : List Int) (s1 : Win) (A' : List Int) (res : ARes) : Prop where
  result : ∃ k, res = .win s1.off k ∧ (A'.drop s1.off).take k = sel
  perm : ((A'.drop s1.off).take s1.len).Perm (s1.read A)
  before : A'.take s1.off = A.take s1.off
  after : A'.drop (s1.off + s1.len) = A.drop (s1.off + s1.len)
  length : A'.length = A.length

theorem split_arena (A : List Int) (s1 : Win) (h : s1.off + s1.len ≤ A.length) :
    A = A.take s1.off ++ s1.read A ++ A.drop (s1.off + s1.len) ∧ (A.take s1.off).length = s1.off ∧
      (s1.read A).length = s1.len := by
  refine ⟨?_, by simp; omega, by simp [Win.read]; omega⟩
  simp only [Win.read]
  rw [List.append_assoc, ← List.drop_drop, List.take_append_drop, List.take_append_drop]

theorem aipLoop_ok {σ : Type} (sel : σ → Int → σ × Bool) (st : σ) (A : List Int) (s1 : Win)
    (h : s1.off + s1.len ≤ A.length) :
    ∃ A' res, aipFinish s1 (aipLoop sel s1.off s1.len 0 st A 0) = some (A', res) ∧
      ArenaIpOk (selSpec sel st (s1.read A)) A s1 A' res := by
  obtain ⟨hA, hpre, hW⟩ := split_arena A s1 h
  obtain ⟨m', k, hs, hp, hl, hk, htk⟩ :=
    ipLoop_spec sel s1.len 0 st (s1.read A) 0 (by omega) (by omega)
  have hsim := aipLoop_sim sel (A.take s1.off) (A.drop (s1.off + s1.len)) s1.len 0 st (s1.read A) 0
    (by omega) (by omega)
  rw [hpre, ← hA, hs] at hsim
  simp only [Option.map_some] at hsim
  refine ⟨A.take s1.off ++ m' ++ A.drop (s1.off + s1.len), .win s1.off k,
    by simp only [aipFinish, hsim, Option.map_some], ?_⟩
  have hl' : m'.length = s1.len := by omega
  have hd : (A.take s1.off ++ m' ++ A.drop (s1.off + s1.len)).drop s1.off = m' ++ A.drop (s1.off + s1.len) := by
    rw [List.append_assoc, List.drop_append_of_le_length (by omega), List.drop_of_length_le (by omega)]
    simp
  refine ⟨⟨k, rfl, ?_⟩, ?_, ?_, ?_, ?_⟩
  · rw [hd, List.take_append_of_le_length (by omega)]
    simpa using htk
  · rw [hd, List.take_append_of_le_length (by omega), List.take_of_length_le (by omega)]
    exact hp
  · rw [List.append_assoc, List.take_append_of_le_length (by omega), List.take_of_length_le (by omega)]
  · rw [List.drop_append_of_le_length (by simp; omega), List.drop_of_length_le (by simp; omega)]
    simp
  · simp; omega

theorem arenaIpOk_refl (A : List Int) (s1 : Win) (k : Nat) (sel : List Int)
    (hk : (A.drop s1.off).take k = sel) : ArenaIpOk sel A s1 A (.win s1.off k) :=
  ⟨⟨k, rfl, hk⟩, List.Perm.refl _, rfl, rfl, rfl⟩

theorem read_nil_of_len (A : List Int) (w : Win) (h : w.len = 0) : w.read A = [] := by
  simp [Win.read, h]

theorem filterInPlaceA_spec (p : Int → Bool) (A : List Int) (s1 : Win) (h : s1.off + s1.len ≤ A.length) :
    ∃ A' res, filterInPlaceA p A s1 = some (A', res) ∧ ArenaIpOk ((s1.read A).filter p) A s1 A' res := by
  have := aipLoop_ok (statelessSel p) () A s1 h
  rwa [selSpec_stateless] at this

/-- `s2` is an arbitrary window — no hypothesis relates it to `s1` -/
theorem diffInPlaceA_spec (E : ElemEq) (A : List Int) (s1 s2 : Win) (h : s1.off + s1.len ≤ A.length) :
    ∃ A' res, diffInPlaceA E A s1 s2 = some (A', res) ∧
      ArenaIpOk ((s1.read A).filter fun v => !memE E (s2.read A) v) A s1 A' res := by
  unfold diffInPlaceA
  by_cases h0 : s1.len = 0 ∨ s2.len = 0
  · simp only [h0, if_true]
    refine ⟨A, _, rfl, arenaIpOk_refl A s1 s1.len _ ?_⟩
    rcases h0 with h0 | h0
    · simp [Win.read, h0]
    · rw [read_nil_of_len A s2 h0]
      simp only [memE_nil, Bool.not_false]
      exact (List.filter_eq_self.mpr (by simp)).symm
  · simp only [h0, if_false]
    have := aipLoop_ok (statelessSel fun v => !memE E (s2.read A) v) () A s1 h
    rwa [selSpec_stateless] at this

theorem intersectInPlaceA_spec (E : ElemEq) (A : List Int) (s1 s2 : Win) (h : s1.off + s1.len ≤ A.length) :
    ∃ A' res, intersectInPlaceA E A s1 s2 = some (A', res) ∧
      ArenaIpOk ((s1.read A).filter fun v => memE E (s2.read A) v) A s1 A' res := by
  unfold intersectInPlaceA
  by_cases h0 : s1.len = 0 ∨ s2.len = 0
  · simp only [h0, if_true]
    refine ⟨A, _, rfl, arenaIpOk_refl A s1 0 _ ?_⟩
    rcases h0 with h0 | h0
    · simp [Win.read, h0]
    · rw [read_nil_of_len A s2 h0]; simp [memE_nil]
  · simp only [h0, if_false]
    have := aipLoop_ok (statelessSel fun v => memE E (s2.read A) v) () A s1 h
    rwa [selSpec_stateless] at this

theorem uniqueByKeyInPlaceA_spec (E : ElemEq) (key : Int → Int) (A : List Int) (s1 : Win) (h : s1.off + s1.len ≤ A.length) :
    ∃ A' res, uniqueByKeyInPlaceA E key A s1 = some (A', res) ∧
      ArenaIpOk (firstOccE E key [] (s1.read A)) A s1 A' res := by
  unfold uniqueByKeyInPlaceA
  by_cases h0 : s1.len = 0
  · simp only [h0, if_true]
    refine ⟨A, _, rfl, arenaIpOk_refl A s1 0 _ ?_⟩
    simp [Win.read, h0, firstOccE]
  · simp only [h0, if_false]
    have := aipLoop_ok (uniqueSelE E key) ([], 0) A s1 h
    rwa [show (([] : List Int), 0) = (([] : List Int), ([] : List Int).length) from rfl, selSpec_uniqueE] at this

/-- `Copy` on a source window with spare capacity: fresh result, the arena — including the spare
capacity behind `len` — is not written. -/
theorem copyA_spec (A : List Int) (s : Win) (a len : Int) :
    ∃ res, copyA A s a len = some (A, res) ∧ ∃ xs n, res = .fresh xs n := by
  unfold copyA
  obtain ⟨hc, _⟩ := copy_spec (s.read A) a len
  rw [hc]
  cases copyRange (s.read A).length a len with
  | none => exact ⟨_, rfl, [], true, rfl⟩
  | some p => exact ⟨_, rfl, _, false, rfl⟩

/-! ### Equal / Index with a possibly non-reflexive `==` -/

theorem equalLoopE_spec (E : ElemEq) : ∀ (s1 s2 : List Int), s1.length = s2.length →
    equalLoopE E s1 s2 = some ((s1.zip s2).all fun p => E.eq p.1 p.2)
  | [], _, _ => by simp [equalLoopE]
  | a :: as, [], h => by simp at h
  | a :: as, b :: bs, h => by
    have ih := equalLoopE_spec E as bs (by simpa using h)
    simp only [equalLoopE, List.zip_cons_cons, List.all_cons]
    cases E.eq a b <;> simp [ih]

/-- `Equal` is the length test followed by the element-wise `==` — nothing else; in particular it
does NOT depend on where the arguments live, and `Equal(s, s)` is true iff every element of `s`
is `==` to itself. -/
theorem equalE_spec (E : ElemEq) (s1 s2 : List Int) :
    equalE E s1 s2 = some (decide (s1.length = s2.length) && (s1.zip s2).all fun p => E.eq p.1 p.2) := by
  unfold equalE
  by_cases h : s1.length = s2.length
  · simp [h, equalLoopE_spec E s1 s2 h]
  · simp [h]

theorem equalE_self (E : ElemEq) (s : List Int) : equalE E s s = some (s.all fun x => E.eq x x) := by
  rw [equalE_spec]
  simp only [decide_true, Bool.true_and]
  congr 1
  induction s with
  | nil => rfl
  | cons a as ih => simp only [List.zip_cons_cons, List.all_cons, ih]

end Golib.C14
