/-
C07: `Utf16Parse ∘ Utf16Format` at the functional level for valid UTF-8, with the
UTF-16 surrogate arithmetic (`utf16Dec (utf16Enc c) = c`).
-/
import Golib.Proof.C07Unicode

namespace Golib.C07
open Golib

theorem utf16Dec_pair (q t : Nat) (hq : q < 1024) (ht : t < 1024) :
    utf16Dec (0xd800 + q) (0xdc00 + t) = ((q * 1024 + t + 0x10000 : Nat) : Int) := by
  unfold utf16Dec
  have hc : 0xd800 ≤ 0xd800 + q ∧ 0xd800 + q < 0xdc00 ∧ 0xdc00 ≤ 0xdc00 + t ∧ 0xdc00 + t < 0xe000 := by
    omega
  rw [if_pos hc]
  have e1 : 0xd800 + q - 0xd800 = q := Nat.add_sub_cancel_left _ _
  have e2 : 0xdc00 + t - 0xdc00 = t := Nat.add_sub_cancel_left _ _
  have ht' : t < 2 ^ 10 := by omega
  rw [e1, e2, ← Nat.shiftLeft_add_eq_or_of_lt ht', Nat.shiftLeft_eq]

theorem utf16Dec_split (k : Nat) (hq : k / 1024 < 1024) (ht : k % 1024 < 1024) :
    utf16Dec (0xd800 + k / 1024) (0xdc00 + k % 1024) = ((k + 0x10000 : Nat) : Int) := by
  rw [utf16Dec_pair _ _ hq ht]
  have : k / 1024 * 1024 + k % 1024 = k := by omega
  rw [this]

theorem utf16_enc_dec {m : Nat} (h1 : 0x10000 ≤ m) (h2 : m ≤ 0x10FFFF) :
    0xd800 ≤ (utf16Enc m).1 ∧ (utf16Enc m).1 < 0xdc00 ∧ 0xdc00 ≤ (utf16Enc m).2 ∧
      (utf16Enc m).2 < 0xe000 ∧ utf16Dec (utf16Enc m).1 (utf16Enc m).2 = (m : Int) := by
  have hp : (2 : Nat) ^ 10 = 1024 := by decide
  simp only [utf16Enc, Nat.shiftRight_eq_div_pow, hp]
  obtain ⟨k, rfl⟩ : ∃ k, m = k + 0x10000 := ⟨m - 0x10000, by omega⟩
  have e0 : k + 0x10000 - 0x10000 = k := Nat.add_sub_cancel _ _
  rw [e0]
  have hq : k / 1024 < 1024 := by omega
  have ht : k % 1024 < 1024 := by omega
  have e3 : k / 1024 % 1024 = k / 1024 := Nat.mod_eq_of_lt hq
  rw [e3]
  refine ⟨by omega, by omega, by omega, by omega, ?_⟩
  exact utf16Dec_split k hq ht

theorem utf16_rune_parse {m : Nat} (hmax : m ≤ 0x10FFFF) (hns : m < 0xD800 ∨ 0xDFFF < m) (r : Bytes) :
    ∃ esc, utf16FormatRune (m : Int) = some esc ∧
      parseFun utf16DecF (esc ++ r) = Utf8.encodeRune (m : Int) ++ parseFun utf16DecF r := by
  unfold utf16FormatRune
  by_cases hfd : (m : Int) = Utf8.runeError
  · refine ⟨92 :: 117 :: litFFFD, by simp [hfd], ?_⟩
    have : m = 0xFFFD := by simp only [Utf8.runeError] at hfd; omega
    subst this
    exact utf16_step1 (by decide) parse_litFFFD (by omega)
  · rw [if_neg hfd]
    by_cases hbmp : (0 ≤ (m : Int) ∧ (m : Int) < 0xd800) ∨ (0xe000 ≤ (m : Int) ∧ (m : Int) < 0x10000)
    · rw [if_pos hbmp]
      have hm : m < 0x10000 := by omega
      obtain ⟨X, hX, hXl, hXp⟩ := escu_parse hm
      refine ⟨92 :: 117 :: X, by simpa using hX, ?_⟩
      exact utf16_step1 hXl hXp (by omega)
    · rw [if_neg hbmp]
      have h1 : 0x10000 ≤ m := by omega
      have hsup : 0x10000 ≤ (m : Int) ∧ (m : Int) ≤ Utf8.maxRune := by
        simp only [Utf8.maxRune]; omega
      rw [if_pos hsup]
      obtain ⟨a1, a2, a3, a4, a5⟩ := utf16_enc_dec h1 hmax
      obtain ⟨X, hX, hXl, hXp⟩ := escu_parse (m := (utf16Enc m).1) (by omega)
      obtain ⟨Y, hY, hYl, hYp⟩ := escu_parse (m := (utf16Enc m).2) (by omega)
      refine ⟨(92 :: 117 :: X) ++ (92 :: 117 :: Y), ?_, ?_⟩
      · rw [Int.toNat_natCast]
        generalize utf16Enc m = p at hX hY ⊢
        obtain ⟨r1, r2⟩ := p
        simp only [] at hX hY
        simp only [hX, hY]
      · have := utf16_step2 (r := r) hXl hYl hXp ⟨a1, a2⟩ hYp ⟨a3, a4⟩
        rw [a5] at this
        simpa using this

/-- For every input: `Utf16Parse ∘ Utf16Format` re-encodes the runes of the range loop
(each invalid byte becomes U+FFFD). -/
theorem utf16_fun_reencode_aux : ∀ (fuel : Nat) (s : Bytes) (off : Nat), s.length ≤ fuel →
    ∃ out, utf16FormatAux fuel s = some out ∧
      parseFun utf16DecF out = Utf8L.reencode (Utf8.rangeDecode.go fuel off s)
  | 0, [], _, _ => ⟨[], rfl, by simp [parseFun_nil, Utf8.rangeDecode.go, Utf8L.reencode]⟩
  | 0, _ :: _, _, h => by simp at h
  | fuel + 1, [], _, _ => ⟨[], rfl, by simp [parseFun_nil, Utf8.rangeDecode.go, Utf8L.reencode]⟩
  | fuel + 1, b :: rest, off, hlen => by
    rw [go_cons]
    rcases hdr : Utf8.decodeRune (b :: rest) with ⟨c, size⟩
    have hcases := Utf8L.decodeRune_cases b rest
    rw [hdr] at hcases
    simp only [] at hcases ⊢
    have hs1 : 1 ≤ size := by
      rcases hcases with h | h
      · simp only [Prod.mk.injEq] at h; omega
      · exact h.sz1
    have hsz : (if size = 0 then 1 else size) = size := by
      have : size ≠ 0 := by omega
      simp [this]
    rw [hsz]
    obtain ⟨r, hr, hpr⟩ := utf16_fun_reencode_aux fuel ((b :: rest).drop size) (off + size)
      (by simp only [List.length_drop, List.length_cons] at hlen ⊢; omega)
    simp only [Utf8L.reencode, List.flatMap_cons]
    simp only [Utf8L.reencode] at hpr
    rw [← hpr]
    by_cases hb : b < 0x80
    · have hda := Utf8L.decodeRune_ascii rest hb
      rw [hdr] at hda
      simp only [Prod.mk.injEq] at hda
      obtain ⟨rfl, rfl⟩ := hda
      obtain ⟨X, hX, hXl, hXp⟩ := escu_parse (m := b) (by omega)
      refine ⟨92 :: 117 :: X ++ r, ?_, ?_⟩
      · simp only [List.drop_succ_cons, List.drop_zero] at hr
        simp [utf16FormatAux, hb, hX, hr]
      · rw [utf16_step1 hXl hXp (by omega)]
    · have hm : ∃ m : Nat, c = (m : Int) ∧ m ≤ 0x10FFFF ∧ (m < 0xD800 ∨ 0xDFFF < m) := by
        rcases hcases with herr | hdec
        · simp only [Prod.mk.injEq] at herr
          exact ⟨0xFFFD, by rw [herr.1]; rfl, by omega, by omega⟩
        · exact hdec.nat
      obtain ⟨m, hm, hmax, hns⟩ := hm
      obtain ⟨esc, hesc, hpe⟩ := utf16_rune_parse hmax hns r
      refine ⟨esc ++ r, ?_, ?_⟩
      · rw [← hm] at hesc
        simp [utf16FormatAux, hb, hdr, hesc, hr]
      · rw [hpe, ← hm]

theorem utf16_fun_reencode (s : Bytes) :
    ∃ out, utf16Format s = some out ∧ parseFun utf16DecF out = Utf8.encode (Utf8.runes s) := by
  rw [Utf8L.encode_runes]
  exact utf16_fun_reencode_aux s.length s 0 (Nat.le_refl _)

theorem utf16_fun_roundtrip (s : Bytes) (hv : Utf8.valid s = true) :
    ∃ out, utf16Format s = some out ∧ parseFun utf16DecF out = s := by
  obtain ⟨out, h1, h2⟩ := utf16_fun_reencode s
  exact ⟨out, h1, by rw [h2, Utf8L.encode_runes_valid s hv]⟩

end Golib.C07
