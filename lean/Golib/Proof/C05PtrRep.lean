/-
The abstraction relation between the pointer-level model (`Golib/Model/C05Ptr.lean`) and the
label trie (`Golib/Model/C05Trie.lean`): `lbl[id]` is the rune path of node `id`.
-/
import Golib.Model.C05Ptr
import Golib.Proof.C05Nodes

namespace Golib.C05
open Golib

/-- `pt` represents the label trie `t`; `lbl` maps node ids to labels. -/
structure Rep (pt : PTrie) (t : Trie) (lbl : List Label) : Prop where
  len : lbl.length = pt.nodes.length
  root : lbl[0]? = some []
  nodup : lbl.Nodup
  /-- the ids are exactly the nodes of the label trie -/
  nodes : ∀ n, IsNode t.pats n ↔ n ∈ lbl
  /-- child arrays, isEnd and size of every node agree with the label trie; the children's ids
  carry the extended labels -/
  kids : ∀ (id : Nat) (nd : PNode) (l : Label), pt.nodes[id]? = some nd → lbl[id]? = some l →
    t.children l = some nd.vals ∧
    (∀ r c, (r, c) ∈ nd.children → lbl[c]? = some (l ++ [r])) ∧
    nd.isEnd = isEnd t.pats l ∧ nd.size = sizeOf t.pats l
  /-- fail pointers are the label trie's `failOf` -/
  fail : ∀ (id : Nat) (nd : PNode) (l : Label), pt.nodes[id]? = some nd → lbl[id]? = some l →
    (nd.fail = none ∧ t.failOf l = none) ∨
    (∃ f lf, nd.fail = some f ∧ lbl[f]? = some lf ∧ t.failOf l = some lf)
  /-- the failure table has entries only for nodes (so a node created by a later `Insert` has
  `fail = nil` in both models) -/
  table : ∀ n, t.failOf n ≠ none → n ∈ lbl

theorem rep_empty : Rep PTrie.empty Trie.empty [[]] := by
  refine ⟨rfl, rfl, by simp, ?_, ?_, ?_, by simp [Trie.failOf, Trie.empty]⟩
  · intro n
    simp only [List.mem_singleton]
    rw [isNode_iff]
    simp [Trie.empty]
  · intro id nd l h1 h2
    cases id with
    | zero =>
      simp only [PTrie.empty, List.getElem?_cons_zero, Option.some.injEq] at h1 h2
      subst h1; subst h2
      refine ⟨by simp [Trie.children, childrenOf, childrenLoop, Trie.empty, PNode.vals], by simp, ?_, ?_⟩
      · simp [isEnd, Trie.empty]
      · simp [sizeOf, Trie.empty]
    | succ k => simp [PTrie.empty] at h1
  · intro id nd l h1 h2
    cases id with
    | zero =>
      simp only [PTrie.empty, List.getElem?_cons_zero, Option.some.injEq] at h1 h2
      subst h1; subst h2
      exact Or.inl ⟨rfl, by simp [Trie.failOf, Trie.empty]⟩
    | succ k => simp [PTrie.empty] at h1

end Golib.C05
