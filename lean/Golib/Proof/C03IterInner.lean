/-
C03 — the container iterators (`uint16Iter`): `scanWord` / `scanWords` against the
per-word decomposition `bitsFrom`, the remaining enumeration `Inner.rem` of an iterator
state, and the specification of one `Next` / `Value` step.  Core-only.
-/
import Golib.Proof.C03Spec

namespace Golib.C03

/-! ### `scanWord` -/

theorem scanWord_spec (w : Word) : ∀ (n j : Nat),
    match scanWord w n j with
    | none => (List.range' j n).filter (bitSet w) = []
    | some j' => j ≤ j' ∧ j' < j + n ∧
        (List.range' j n).filter (bitSet w)
          = j' :: (List.range' (j' + 1) (j + n - (j' + 1))).filter (bitSet w) := by
  intro n
  induction n with
  | zero => intro j; simp [scanWord]
  | succ n ih =>
    intro j
    unfold scanWord
    by_cases hb : bitSet w j = true
    · simp only [hb, if_true]
      refine ⟨Nat.le_refl _, by omega, ?_⟩
      rw [List.range'_succ, List.filter_cons_of_pos hb]
      have : j + (n + 1) - (j + 1) = n := by omega
      rw [this]
    · have hb' : bitSet w j = false := by simpa using hb
      simp only [hb', Bool.false_eq_true, if_false]
      have h := ih (j + 1)
      have hf : (List.range' j (n + 1)).filter (bitSet w)
          = (List.range' (j + 1) n).filter (bitSet w) := by
        rw [List.range'_succ, List.filter_cons_of_neg hb]
      rw [hf]
      split
      · next heq => rw [heq] at h; exact h
      · next j' heq =>
        rw [heq] at h
        obtain ⟨h1, h2, h3⟩ := h
        refine ⟨by omega, by omega, ?_⟩
        rw [h3]
        have : j + 1 + n - (j' + 1) = j + (n + 1) - (j' + 1) := by omega
        rw [this]

/-! ### `scanWords` against `bitsFrom` -/

theorem bitsFrom_cons_of_scan (w : Word) (ws : List Word) (i j j' : Nat) (hj : j ≤ 64)
    (h : scanWord w (64 - j) j = some j') :
    j' < 64 ∧ bitsFrom (w :: ws) i j = (i * 64 + j') :: bitsFrom (w :: ws) i (j' + 1) := by
  have hs := scanWord_spec w (64 - j) j
  rw [h] at hs
  obtain ⟨h1, h2, h3⟩ := hs
  refine ⟨by omega, ?_⟩
  have e : j + (64 - j) - (j' + 1) = 64 - (j' + 1) := by omega
  rw [e] at h3
  simp only [bitsFrom, h3, List.map_cons, List.cons_append]

theorem bitsFrom_cons_of_scan_none (w : Word) (ws : List Word) (i j : Nat)
    (h : scanWord w (64 - j) j = none) :
    bitsFrom (w :: ws) i j = bitsFrom ws (i + 1) 0 := by
  have hs := scanWord_spec w (64 - j) j
  rw [h] at hs
  simp only [bitsFrom, hs, List.map_nil, List.nil_append]

theorem scanWords_spec : ∀ (ws : List Word) (i j : Nat), j ≤ 64 →
    (bitsFrom ws i j = [] → ∃ i' j', scanWords ws i j = (i', j', false)) ∧
    (∀ m rest, bitsFrom ws i j = m :: rest →
      ∃ i' j', scanWords ws i j = (i', j', true) ∧ m = i' * 64 + j' ∧ j' < 64 ∧ i ≤ i' ∧
        i' - i < ws.length ∧ rest = bitsFrom (ws.drop (i' - i)) i' (j' + 1)) := by
  intro ws
  induction ws with
  | nil =>
    intro i j _
    refine ⟨fun _ => ⟨i, j, rfl⟩, ?_⟩
    intro m rest h
    simp [bitsFrom] at h
  | cons w ws ih =>
    intro i j hj
    unfold scanWords
    cases hsw : scanWord w (64 - j) j with
    | some j' =>
      obtain ⟨hj', hb⟩ := bitsFrom_cons_of_scan w ws i j j' hj hsw
      simp only []
      rw [hb]
      refine ⟨fun h => by simp at h, ?_⟩
      intro m rest h
      simp only [List.cons.injEq] at h
      refine ⟨i, j', rfl, h.1.symm, hj', Nat.le_refl _, by simp, ?_⟩
      simp only [Nat.sub_self, List.drop_zero]
      exact h.2.symm
    | none =>
      have hb := bitsFrom_cons_of_scan_none w ws i j hsw
      simp only []
      rw [hb]
      obtain ⟨ih1, ih2⟩ := ih (i + 1) 0 (by omega)
      refine ⟨ih1, ?_⟩
      intro m rest h
      obtain ⟨i', j', e1, e2, e3, e4, e5, e6⟩ := ih2 m rest h
      refine ⟨i', j', e1, e2, e3, by omega, by simp only [List.length_cons]; omega, ?_⟩
      have : i' - i = (i' - (i + 1)) + 1 := by omega
      rw [this, List.drop_succ_cons]
      exact e6

/-! ### the remaining enumeration of an inner iterator -/

/-- What the iterator state will still deliver, in order. -/
def Inner.rem : Inner → List Nat
  | .arrIt vals i => vals.toList.drop (i + 1).toNat
  | .bmpIt w i j read => bitsFrom (w.toList.drop i) i (if read then j + 1 else j)

/-- Well-formed iterator state over a container with `uint16` contents. -/
def Inner.Ok : Inner → Prop
  | .arrIt vals i => -1 ≤ i ∧ ∀ x ∈ vals.toList, x < 65536
  | .bmpIt w _ j read => (if read then j + 1 else j) ≤ 64 ∧ w.size ≤ 1024

theorem Container.iter_rem (c : Container) : c.iter.rem = c.enum := by
  cases c with
  | arr v => simp [Container.iter, Inner.rem, Container.enum]
  | bmp n w => simp [Container.iter, Inner.rem, Container.enum]

theorem Container.iter_ok (c : Container) (h : c.Inv0) : c.iter.Ok := by
  cases c with
  | arr v => exact ⟨by omega, h.2.1⟩
  | bmp n w =>
    simp only [Container.iter, Inner.Ok]
    exact ⟨by simp, by have := h.1; omega⟩

/-- One `Next` (and the `Value` after it) of a well-formed inner iterator. -/
theorem Inner.next_spec (x : Inner) (hx : x.Ok) :
    (x.rem = [] → x.next.2 = false) ∧
    (∀ m rest, x.rem = m :: rest →
      ∃ x', x.next = (x', true) ∧ x'.value = some m ∧ m < 65536 ∧ x'.rem = rest ∧ x'.Ok) := by
  cases x with
  | arrIt vals i =>
    obtain ⟨hi, hb⟩ := hx
    obtain ⟨n, hn⟩ : ∃ n : Nat, i + 1 = (n : Int) := ⟨(i + 1).toNat, by omega⟩
    have hi' : i = (n : Int) - 1 := by omega
    subst hi'
    simp only [Inner.rem, Inner.next]
    have e1 : ((n : Int) - 1 + 1).toNat = n := by omega
    rw [e1]
    by_cases hlt : n < vals.size
    · have hlt' : ((n : Int) - 1 < (vals.size : Int) - 1) := by omega
      simp only [hlt', if_true]
      refine ⟨?_, ?_⟩
      · intro h
        have := congrArg List.length h
        simp only [List.length_drop, Array.length_toList, List.length_nil] at this
        omega
      · intro m rest h
        rw [List.drop_eq_getElem_cons (by simpa using hlt)] at h
        simp only [List.cons.injEq] at h
        refine ⟨_, rfl, ?_, ?_, ?_, ?_⟩
        · simp only [Inner.value, e1]
          have : ¬ ((n : Int) - 1 + 1 < 0) := by omega
          simp only [this, if_false]
          rw [← h.1]
          simp [hlt]
        · rw [← h.1]; apply hb; simp
        · show vals.toList.drop ((n : Int) - 1 + 1 + 1).toNat = rest
          have : ((n : Int) - 1 + 1 + 1).toNat = n + 1 := by omega
          rw [this]; exact h.2
        · exact ⟨by omega, hb⟩
    · have hlt' : ¬ ((n : Int) - 1 < (vals.size : Int) - 1) := by omega
      simp only [hlt', if_false]
      refine ⟨fun _ => trivial, ?_⟩
      intro m rest h
      have := congrArg List.length h
      simp only [List.length_drop, Array.length_toList, List.length_cons] at this
      omega
  | bmpIt w i j read =>
    obtain ⟨hj, hw⟩ := hx
    simp only [Inner.rem, Inner.next]
    obtain ⟨s1, s2⟩ := scanWords_spec (w.toList.drop i) i (if read then j + 1 else j) hj
    refine ⟨?_, ?_⟩
    · intro h
      obtain ⟨i', j', e⟩ := s1 h
      rw [e]
    · intro m rest h
      obtain ⟨i', j', e, hm, hj', hi', hlen, hrest⟩ := s2 m rest h
      rw [e]
      simp only [List.length_drop, Array.length_toList] at hlen
      have hi'' : i' < 1024 := by omega
      refine ⟨_, rfl, ?_, by omega, ?_, ?_⟩
      · simp only [Inner.value, shl6]
        rw [Nat.mod_eq_of_lt (by omega), hm]
      · show bitsFrom (w.toList.drop i') i' (if true = true then j' + 1 else j') = rest
        simp only [if_true]
        rw [hrest, List.drop_drop]
        have : i + (i' - i) = i' := by omega
        rw [this]
      · exact ⟨by simp only [if_true]; omega, hw⟩

end Golib.C03
