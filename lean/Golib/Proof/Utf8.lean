/-
Facts about the shared UTF-8 prelude (`Golib.Utf8`), in namespace `Golib.Utf8L` (so that they
cannot clash with other builders' lemma files): `decodeRune` on a non-empty byte
string either reports an error `(U+FFFD, 1)` or returns a scalar value whose `encodeRune`
is exactly the bytes consumed (encode ∘ decode = id on well-formed sequences).
-/
import Golib.Prelude.Utf8

namespace Golib.Utf8L
open Golib.Utf8

theorem encodeRune_nat1 {m : Nat} (h : m < 0x80) : encodeRune (m : Int) = [m] := by
  unfold encodeRune
  have h1 : ¬ ((m : Int) < 0) := by omega
  have h2 : (m : Int) < 0x80 := by omega
  simp [h1, h2]

theorem encodeRune_nat2 {m : Nat} (h1 : 0x80 ≤ m) (h2 : m < 0x800) :
    encodeRune (m : Int) = [0xC0 + m / 64, 0x80 + m % 64] := by
  unfold encodeRune
  have a1 : ¬ ((m : Int) < 0) := by omega
  have a2 : ¬ ((m : Int) < 0x80) := by omega
  have a3 : (m : Int) < 0x800 := by omega
  simp [a1, a2, a3]

theorem encodeRune_nat3 {m : Nat} (h1 : 0x800 ≤ m) (h2 : m < 0x10000)
    (h3 : m < 0xD800 ∨ 0xDFFF < m) :
    encodeRune (m : Int) = [0xE0 + m / 4096, 0x80 + m / 64 % 64, 0x80 + m % 64] := by
  unfold encodeRune
  have a1 : ¬ ((m : Int) < 0) := by omega
  have a2 : ¬ ((m : Int) < 0x80) := by omega
  have a3 : ¬ ((m : Int) < 0x800) := by omega
  have a4 : ¬ (isSurrogate (m : Int) = true ∨ maxRune < (m : Int)) := by
    simp only [isSurrogate, maxRune, Bool.and_eq_true, decide_eq_true_eq]; omega
  have a5 : (m : Int) < 0x10000 := by omega
  simp [a1, a2, a3, a4, a5]

theorem encodeRune_nat4 {m : Nat} (h1 : 0x10000 ≤ m) (h2 : m ≤ 0x10FFFF) :
    encodeRune (m : Int) =
      [0xF0 + m / 262144, 0x80 + m / 4096 % 64, 0x80 + m / 64 % 64, 0x80 + m % 64] := by
  unfold encodeRune
  have a1 : ¬ ((m : Int) < 0) := by omega
  have a2 : ¬ ((m : Int) < 0x80) := by omega
  have a3 : ¬ ((m : Int) < 0x800) := by omega
  have a4 : ¬ (isSurrogate (m : Int) = true ∨ maxRune < (m : Int)) := by
    simp only [isSurrogate, maxRune, Bool.and_eq_true, decide_eq_true_eq]; omega
  have a5 : ¬ ((m : Int) < 0x10000) := by omega
  simp [a1, a2, a3, a4, a5]

/-- What a successful decode guarantees. -/
structure DecOK (s : List Nat) (r : Int) (sz : Nat) : Prop where
  nat : ∃ m : Nat, r = (m : Int) ∧ m ≤ 0x10FFFF ∧ (m < 0xD800 ∨ 0xDFFF < m)
  sz1 : 1 ≤ sz
  szl : sz ≤ s.length
  sz4 : sz ≤ 4
  enc : encodeRune r = s.take sz
  hi : ∀ b ∈ s.head?, 0x80 ≤ b → 0x80 ≤ r

theorem isCont_iff (b : Nat) : isCont b = true ↔ 0x80 ≤ b ∧ b ≤ 0xBF := by
  simp [isCont]

theorem dec3 {b lo hi : Nat} (rest : List Nat) (hl : leader b = some (3, lo, hi))
    (hb : 0xE0 ≤ b ∧ b ≤ 0xEF) (hlo : 0x80 ≤ lo) (hhi : hi ≤ 0xBF)
    (hE0 : b = 0xE0 → 0xA0 ≤ lo) (hED : b = 0xED → hi ≤ 0x9F) :
    decodeRune (b :: rest) = (runeError, 1) ∨
      DecOK (b :: rest) (decodeRune (b :: rest)).1 (decodeRune (b :: rest)).2 := by
  match rest with
  | [] => left; simp [decodeRune, hl]
  | [_] => left; simp [decodeRune, hl]
  | b1 :: b2 :: rest =>
    by_cases hc : lo ≤ b1 ∧ b1 ≤ hi ∧ isCont b2 = true
    · right
      have hd : decodeRune (b :: b1 :: b2 :: rest) =
          (((b % 16 * 4096 + b1 % 64 * 64 + b2 % 64 : Nat) : Int), 3) := by
        simp [decodeRune, hl, hc]
      rw [hd]
      obtain ⟨c1, c2, c3⟩ := hc
      rw [isCont_iff] at c3
      refine ⟨⟨_, rfl, by omega, by omega⟩, by simp, by simp, by simp, ?_, ?_⟩
      · rw [encodeRune_nat3 (by omega) (by omega) (by omega)]
        simp only [List.take_succ_cons, List.take_zero, List.cons.injEq, and_true]
        omega
      · intro b' _ _; simp only []; omega
    · left
      simp only [decodeRune, hl]
      rw [if_neg hc]

theorem dec4 {b lo hi : Nat} (rest : List Nat) (hl : leader b = some (4, lo, hi))
    (hb : 0xF0 ≤ b ∧ b ≤ 0xF4) (hlo : 0x80 ≤ lo) (hhi : hi ≤ 0xBF)
    (hF0 : b = 0xF0 → 0x90 ≤ lo) (hF4 : b = 0xF4 → hi ≤ 0x8F) :
    decodeRune (b :: rest) = (runeError, 1) ∨
      DecOK (b :: rest) (decodeRune (b :: rest)).1 (decodeRune (b :: rest)).2 := by
  match rest with
  | [] => left; simp [decodeRune, hl]
  | [_] => left; simp [decodeRune, hl]
  | [_, _] => left; simp [decodeRune, hl]
  | b1 :: b2 :: b3 :: rest =>
    by_cases hc : lo ≤ b1 ∧ b1 ≤ hi ∧ isCont b2 = true ∧ isCont b3 = true
    · right
      have hd : decodeRune (b :: b1 :: b2 :: b3 :: rest) =
          (((b % 8 * 262144 + b1 % 64 * 4096 + b2 % 64 * 64 + b3 % 64 : Nat) : Int), 4) := by
        simp [decodeRune, hl, hc]
      rw [hd]
      obtain ⟨c1, c2, c3, c4⟩ := hc
      rw [isCont_iff] at c3 c4
      refine ⟨⟨_, rfl, by omega, by omega⟩, by simp, by simp, by simp, ?_, ?_⟩
      · rw [encodeRune_nat4 (by omega) (by omega)]
        simp only [List.take_succ_cons, List.take_zero, List.cons.injEq, and_true]
        omega
      · intro b' _ _; simp only []; omega
    · left
      simp only [decodeRune, hl]
      rw [if_neg hc]

theorem decodeRune_cases (b : Nat) (rest : List Nat) :
    decodeRune (b :: rest) = (runeError, 1) ∨
      DecOK (b :: rest) (decodeRune (b :: rest)).1 (decodeRune (b :: rest)).2 := by
  by_cases h1 : b < 0x80
  · right
    have hl : leader b = some (1, 0, 0) := by simp [leader, h1]
    have hd : decodeRune (b :: rest) = ((b : Int), 1) := by simp [decodeRune, hl]
    rw [hd]
    exact ⟨⟨b, rfl, by omega, by omega⟩, by simp, by simp, by simp, by simp [encodeRune_nat1 h1],
      by intro b' hb' h; simp at hb'; omega⟩
  by_cases h2 : b < 0xC2
  · left
    have hl : leader b = none := by simp [leader, h1, h2]
    simp [decodeRune, hl]
  by_cases h3 : b ≤ 0xDF
  · have hl : leader b = some (2, 0x80, 0xBF) := by simp [leader, h1, h2, h3]
    cases rest with
    | nil => left; simp [decodeRune, hl]
    | cons b1 rest =>
      by_cases hc : 0x80 ≤ b1 ∧ b1 ≤ 0xBF
      · right
        have hd : decodeRune (b :: b1 :: rest) = (((b % 32 * 64 + b1 % 64 : Nat) : Int), 2) := by
          simp [decodeRune, hl, hc]
        rw [hd]
        refine ⟨⟨_, rfl, by omega, by omega⟩, by simp, by simp, by simp, ?_, ?_⟩
        · rw [encodeRune_nat2 (by omega) (by omega)]
          simp only [List.take_succ_cons, List.take_zero, List.cons.injEq, and_true]
          omega
        · intro b' _ _; simp only []; omega
      · left; simp [decodeRune, hl, hc]
  by_cases h4 : b = 0xE0
  · exact dec3 rest (lo := 0xA0) (hi := 0xBF) (by simp [leader, h4]) (by omega) (by omega) (by omega) (by omega) (by omega)
  by_cases h5 : b ≤ 0xEC
  · exact dec3 rest (lo := 0x80) (hi := 0xBF) (by simp [leader, h1, h2, h3, h4, h5]) (by omega) (by omega) (by omega) (by omega) (by omega)
  by_cases h6 : b = 0xED
  · exact dec3 rest (lo := 0x80) (hi := 0x9F) (by simp [leader, h6]) (by omega) (by omega) (by omega) (by omega) (by omega)
  by_cases h7 : b ≤ 0xEF
  · exact dec3 rest (lo := 0x80) (hi := 0xBF) (by simp [leader, h1, h2, h3, h4, h5, h6, h7]) (by omega) (by omega) (by omega) (by omega) (by omega)
  by_cases h8 : b = 0xF0
  · exact dec4 rest (lo := 0x90) (hi := 0xBF) (by simp [leader, h8]) (by omega) (by omega) (by omega) (by omega) (by omega)
  by_cases h9 : b ≤ 0xF3
  · exact dec4 rest (lo := 0x80) (hi := 0xBF) (by simp [leader, h1, h2, h3, h4, h5, h6, h7, h8, h9]) (by omega) (by omega) (by omega) (by omega) (by omega)
  by_cases h10 : b = 0xF4
  · exact dec4 rest (lo := 0x80) (hi := 0x8F) (by simp [leader, h10]) (by omega) (by omega) (by omega) (by omega) (by omega)
  · left
    have hl : leader b = none := by simp [leader, h1, h2, h3, h4, h5, h6, h7, h8, h9, h10]
    simp [decodeRune, hl]

theorem decodeRune_ascii {b : Nat} (rest : List Nat) (h : b < 0x80) :
    decodeRune (b :: rest) = ((b : Int), 1) := by
  have hl : leader b = some (1, 0, 0) := by simp [leader, h]
  simp [decodeRune, hl]

/-- One step of the range loop is not an encoding error. -/
def okStep (x : Nat × Int × Nat) : Bool := !(x.2.1 == runeError && x.2.2 == 1)

theorem valid_eq (bs : List Nat) : valid bs = (rangeDecode bs).all okStep := by
  unfold valid
  congr 1

theorem go_cons' (fuel off b : Nat) (rest : List Nat) :
    rangeDecode.go (fuel + 1) off (b :: rest) =
      (off, (decodeRune (b :: rest)).1,
          if (decodeRune (b :: rest)).2 = 0 then 1 else (decodeRune (b :: rest)).2) ::
        rangeDecode.go fuel
          (off + if (decodeRune (b :: rest)).2 = 0 then 1 else (decodeRune (b :: rest)).2)
          ((b :: rest).drop (if (decodeRune (b :: rest)).2 = 0 then 1 else (decodeRune (b :: rest)).2)) := by
  rw [rangeDecode.go]

/-- Re-encoding the runes of the range loop (`string([]rune(s))`, each invalid byte becomes
U+FFFD), written on the loop itself. -/
def reencode (steps : List (Nat × Int × Nat)) : List Nat := steps.flatMap fun x => encodeRune x.2.1

theorem encode_runes (bs : List Nat) : encode (runes bs) = reencode (rangeDecode bs) := by
  simp [encode, runes, reencode, List.flatMap_map]

theorem reencode_valid_aux : ∀ (fuel : Nat) (s : List Nat) (off : Nat), s.length ≤ fuel →
    (rangeDecode.go fuel off s).all okStep = true → reencode (rangeDecode.go fuel off s) = s
  | 0, [], _, _, _ => by simp [rangeDecode.go, reencode]
  | 0, _ :: _, _, h, _ => by simp at h
  | fuel + 1, [], _, _, _ => by simp [rangeDecode.go, reencode]
  | fuel + 1, b :: rest, off, hlen, hall => by
    rw [go_cons'] at hall ⊢
    rw [List.all_cons, Bool.and_eq_true] at hall
    obtain ⟨hok, hall⟩ := hall
    rcases decodeRune_cases b rest with herr | hdec
    · rw [herr] at hok; simp [okStep] at hok
    · have hs1 := hdec.sz1
      have hsz : (if (decodeRune (b :: rest)).2 = 0 then 1 else (decodeRune (b :: rest)).2) =
          (decodeRune (b :: rest)).2 := by
        have : (decodeRune (b :: rest)).2 ≠ 0 := by omega
        simp [this]
      rw [hsz] at hall ⊢
      have ih := reencode_valid_aux fuel ((b :: rest).drop (decodeRune (b :: rest)).2)
        (off + (decodeRune (b :: rest)).2)
        (by simp only [List.length_drop, List.length_cons] at hlen ⊢; omega) hall
      simp only [reencode, List.flatMap_cons] at ih ⊢
      rw [ih, hdec.enc, List.take_append_drop]

/-- encode ∘ decode = id on valid UTF-8. -/
theorem encode_runes_valid (bs : List Nat) (h : valid bs = true) : encode (runes bs) = bs := by
  rw [encode_runes]
  rw [valid_eq] at h
  exact reencode_valid_aux bs.length bs 0 (Nat.le_refl _) h

end Golib.Utf8L
