/-
C16 helper lemmas, part 7: the three bulk loops of the one-memory model.  The other operand is
a header COPY `o`; it is either the receiver's own header (`x.Diff(x)`) or a header whose
backing array is disjoint from the receiver's.  In both cases the loops compute, on the views,
the by-value functions `diffWords` / `intersectWords` / `mergeWords`, and are framed on the
receiver.
-/
import Golib.Proof.C16HeapOps

namespace Golib.C16

/-- list twin of `hZipLoop` -/
def zipTail (g : W → W → W) (tail : Option W) : List W → List W → List W
  | [], _ => []
  | a :: as, [] =>
    match tail with
    | none => a :: as
    | some z => z :: zipTail g tail as []
  | a :: as, b :: bs => g a b :: zipTail g tail as bs

theorem diffWords_eq (a b : List W) : diffWords a b = zipTail (fun a b => a &&& ~~~ b) none a b := by
  induction a generalizing b with
  | nil => simp [diffWords, zipTail]
  | cons x xs ih => cases b <;> simp [diffWords, zipTail, ih]

theorem intersectWords_eq (a b : List W) :
    intersectWords a b = zipTail (fun a b => a &&& b) (some 0#64) a b := by
  induction a generalizing b with
  | nil => simp [intersectWords, zipTail]
  | cons x xs ih => cases b <;> simp [intersectWords, zipTail, ih]

theorem take_succ_set (l : List W) (i : Nat) (z : W) (hi : i < l.length) :
    (l.set i z).take (i + 1) = l.take i ++ [z] := by
  apply List.ext_getElem?; intro k
  simp only [List.getElem?_take, List.getElem?_set, List.getElem?_append, List.length_take]
  grind

theorem drop_succ_set (l : List W) (i : Nat) (z : W) : (l.set i z).drop (i + 1) = l.drop (i + 1) := by
  apply List.ext_getElem?; intro k
  simp only [List.getElem?_drop, List.getElem?_set]
  grind

theorem Wf_set (H : Heap) (o : Hdr) (p : Nat) (v : W) (ho : Wf H o) : Wf (H.set p v) o := by
  unfold Wf at *; simpa using ho

/-- after `h[i] = v`, what the other header copy reads from position `i+1` on is unchanged
(whether it is the receiver's own header or a disjoint one) -/
theorem other_after_write (H : Heap) (h o : Hdr) (i : Nat) (v : W) (hw : Wf H h) (ho : Wf H o)
    (hs : o = h ∨ Disj h o) (hi : i < h.len) :
    (o.view (H.set (h.base + i) v)).drop (i + 1) = (o.view H).drop (i + 1) := by
  rcases hs with rfl | hd
  · rw [view_set_in H o i v hw hi, drop_succ_set]
  · rw [((hwr_frame H h i v hw hi).other ho hd).1]

theorem hZipLoop_spec (g : W → W → W) (tail : Option W) (h o : Hdr) (hs : o = h ∨ Disj h o) :
    ∀ (fuel i : Nat) (H : Heap), Wf H h → Wf H o → i + fuel = h.len →
      ∃ H', hZipLoop g tail h o fuel i H = some H' ∧
        h.view H' = (h.view H).take i ++ zipTail g tail ((h.view H).drop i) ((o.view H).drop i) ∧
        Frame H h H' h := by
  intro fuel
  induction fuel with
  | zero =>
    intro i H hw ho hi
    have hvl := view_length H h hw
    refine ⟨H, rfl, ?_, Frame.refl H h hw⟩
    rw [List.drop_eq_nil_of_le (by omega), List.take_of_length_le (by omega)]
    simp [zipTail]
  | succ f ih =>
    intro i H hw ho hi
    have hvl := view_length H h hw
    have hvo := view_length H o ho
    have hil : i < h.len := by omega
    have hA : (h.view H).drop i = (h.view H)[i]'(by omega) :: (h.view H).drop (i + 1) :=
      List.drop_eq_getElem_cons (by omega)
    unfold hZipLoop
    by_cases hc : i ≥ o.len
    · simp only [hc, if_true]
      have hB : (o.view H).drop i = [] := List.drop_eq_nil_of_le (by omega)
      cases tail with
      | none =>
        refine ⟨H, rfl, ?_, Frame.refl H h hw⟩
        rw [hB, hA]; simp only [zipTail]; rw [← hA, List.take_append_drop]
      | some z =>
        simp only []
        rw [hwr_some H h i z hw hil]
        simp only []
        have hw1 := Wf_set H h (h.base + i) z hw
        have ho1 := Wf_set H o (h.base + i) z ho
        obtain ⟨H', hl, hv, hf⟩ := ih (i + 1) (H.set (h.base + i) z) hw1 ho1 (by omega)
        refine ⟨H', hl, ?_, Frame.trans hw (hwr_frame H h i z hw hil) hf⟩
        rw [hv, view_set_in H h i z hw hil, take_succ_set _ _ _ (by omega), drop_succ_set,
          other_after_write H h o i z hw ho hs hil, hB, hA]
        have hB' : (o.view H).drop (i + 1) = [] := List.drop_eq_nil_of_le (by omega)
        simp [zipTail, hB']
    · simp only [hc, if_false]
      have hio : i < o.len := by omega
      have hB : (o.view H).drop i = (o.view H)[i]'(by omega) :: (o.view H).drop (i + 1) :=
        List.drop_eq_getElem_cons (by omega)
      rw [hrd_eq, hrd_eq, List.getElem?_eq_getElem (by omega), List.getElem?_eq_getElem (by omega)]
      simp only []
      rw [hwr_some H h i _ hw hil]
      simp only []
      have hw1 := Wf_set H h (h.base + i) (g (h.view H)[i] (o.view H)[i]) hw
      have ho1 := Wf_set H o (h.base + i) (g (h.view H)[i] (o.view H)[i]) ho
      obtain ⟨H', hl, hv, hf⟩ := ih (i + 1) _ hw1 ho1 (by omega)
      refine ⟨H', hl, ?_, Frame.trans hw (hwr_frame H h i _ hw hil) hf⟩
      rw [hv, view_set_in H h i _ hw hil, take_succ_set _ _ _ (by omega), drop_succ_set,
        other_after_write H h o i _ hw ho hs hil, hB, hA]
      simp [zipTail]

theorem hDiff_spec (H : Heap) (h o : Hdr) (hw : Wf H h) (ho : Wf H o) (hs : o = h ∨ Disj h o) :
    ∃ H', hDiff H h o = some H' ∧ h.view H' = diffWords (h.view H) (o.view H) ∧ Frame H h H' h := by
  obtain ⟨H', hl, hv, hf⟩ := hZipLoop_spec (fun a b => a &&& ~~~ b) none h o hs h.len 0 H hw ho (by omega)
  exact ⟨H', hl, by simpa [diffWords_eq] using hv, hf⟩

theorem hIntersect_spec (H : Heap) (h o : Hdr) (hw : Wf H h) (ho : Wf H o) (hs : o = h ∨ Disj h o) :
    ∃ H', hIntersect H h o = some H' ∧ h.view H' = intersectWords (h.view H) (o.view H) ∧
      Frame H h H' h := by
  obtain ⟨H', hl, hv, hf⟩ := hZipLoop_spec (fun a b => a &&& b) (some 0#64) h o hs h.len 0 H hw ho (by omega)
  exact ⟨H', hl, by simpa [intersectWords_eq] using hv, hf⟩

theorem mergeWords_nil_right (as : List W) : mergeWords as [] = as := by
  cases as <;> simp [mergeWords]

theorem hMergeLoop_spec (grow : Nat → Nat → Nat) (o : Hdr) :
    ∀ (fuel i : Nat) (H : Heap) (h : Hdr), Wf H h → Wf H o → (o = h ∨ Disj h o) → i ≤ h.len →
      i + fuel = o.len →
      ∃ H' h', hMergeLoop grow o fuel i H h = some (H', h') ∧
        h'.view H' = (h.view H).take i ++ mergeWords ((h.view H).drop i) ((o.view H).drop i) ∧
        Frame H h H' h' := by
  intro fuel
  induction fuel with
  | zero =>
    intro i H h hw ho _ _ hi
    have hvo := view_length H o ho
    refine ⟨H, h, rfl, ?_, Frame.refl H h hw⟩
    rw [List.drop_eq_nil_of_le (as := o.view H) (by omega), mergeWords_nil_right, List.take_append_drop]
  | succ f ih =>
    intro i H h hw ho hs hle hi
    have hvl := view_length H h hw
    have hvo := view_length H o ho
    have hio : i < o.len := by omega
    have hB : (o.view H).drop i = (o.view H)[i]'(by omega) :: (o.view H).drop (i + 1) :=
      List.drop_eq_getElem_cons (by omega)
    unfold hMergeLoop
    by_cases hc : i ≥ h.len
    · simp only [hc, if_true]
      have hieq : i = h.len := by omega
      have hd : Disj h o := by
        rcases hs with rfl | hd
        · omega
        · exact hd
      rw [hrd_eq, List.getElem?_eq_getElem (by omega)]
      simp only []
      obtain ⟨hv1, hf1, hl1⟩ := happend_spec grow H h [(o.view H)[i]] hw
      obtain ⟨hov, ho1, hd1⟩ := hf1.other ho hd
      obtain ⟨H', h', hl, hv, hf⟩ := ih (i + 1) _ _ hf1.wf ho1 (.inr hd1) (by simp at hl1; omega) (by omega)
      refine ⟨H', h', hl, ?_, Frame.trans hw hf1 hf⟩
      rw [hv, hv1, hov, hB]
      have h1 : (h.view H ++ [(o.view H)[i]]).take (i + 1) = h.view H ++ [(o.view H)[i]] :=
        List.take_of_length_le (by simp [hvl]; omega)
      have h2 : (h.view H ++ [(o.view H)[i]]).drop (i + 1) = [] :=
        List.drop_eq_nil_of_le (by simp [hvl]; omega)
      have h3 : (h.view H).take i = h.view H := List.take_of_length_le (by omega)
      have h4 : (h.view H).drop i = [] := List.drop_eq_nil_of_le (by omega)
      rw [h1, h2, h3, h4]
      simp [mergeWords]
    · simp only [hc, if_false]
      have hil : i < h.len := by omega
      have hA : (h.view H).drop i = (h.view H)[i]'(by omega) :: (h.view H).drop (i + 1) :=
        List.drop_eq_getElem_cons (by omega)
      rw [hrd_eq, hrd_eq, List.getElem?_eq_getElem (by omega), List.getElem?_eq_getElem (by omega)]
      simp only []
      rw [hwr_some H h i _ hw hil]
      simp only []
      have hw1 := Wf_set H h (h.base + i) ((h.view H)[i] ||| (o.view H)[i]) hw
      have ho1 := Wf_set H o (h.base + i) ((h.view H)[i] ||| (o.view H)[i]) ho
      obtain ⟨H', h', hl, hv, hf⟩ := ih (i + 1) _ h hw1 ho1 hs (by omega) (by omega)
      refine ⟨H', h', hl, ?_, Frame.trans hw (hwr_frame H h i _ hw hil) hf⟩
      rw [hv, view_set_in H h i _ hw hil, take_succ_set _ _ _ (by omega), drop_succ_set,
        other_after_write H h o i _ hw ho hs hil, hB, hA]
      simp [mergeWords]

theorem hMerge_spec (grow : Nat → Nat → Nat) (H : Heap) (h o : Hdr) (hw : Wf H h) (ho : Wf H o)
    (hs : o = h ∨ Disj h o) :
    ∃ H' h', hMerge grow H h o = some (H', h') ∧ h'.view H' = mergeWords (h.view H) (o.view H) ∧
      Frame H h H' h' := by
  obtain ⟨H', h', hl, hv, hf⟩ := hMergeLoop_spec grow o o.len 0 H h hw ho hs (by omega) (by omega)
  exact ⟨H', h', hl, by simpa using hv, hf⟩

end Golib.C16
