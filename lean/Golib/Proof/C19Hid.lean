/-
C19 — which handler a task uses: captured once, at the `go Recover(fn, l.panicHandler, …)`
statement (`added → ready`), from the handler configured at that moment; never changed
afterwards (helper lemmas for `c19_handler_configured`).
-/
import Golib.Model.C19Lim

namespace Golib.C19

/-- `adv j` leaves every other task alone and keeps `hid` of task `j` unless `j` is at its
go statement, where `hid` becomes the configured handler. -/
theorem adv_hid {s s' : St} {j : Nat} (h : s.adv j = some s') (i : Nat) (t : Task)
    (ht : s.tasks[i]? = some t) :
    ∃ t', s'.tasks[i]? = some t' ∧
      t'.hid = (if i = j ∧ t.pc = .added then s.cur else t.hid) ∧
      (i = j → t.pc = .added → t'.pc = .ready) := by
  unfold St.adv at h
  cases htj : s.tasks[j]? with
  | none => rw [htj] at h; cases h
  | some tj =>
    rw [htj] at h
    have hlen : j < s.tasks.length := (List.getElem?_eq_some_iff.1 htj).1
    by_cases hij : i = j
    · subst hij
      have : tj = t := by rw [ht] at htj; exact (Option.some.inj htj).symm
      subst this
      obtain ⟨pc, outcome, starts, handled, hid⟩ := tj
      cases pc <;> simp only [] at h
      all_goals (repeat' (split at h))
      all_goals first
        | (cases h; done)
        | (cases h; exact ⟨_, List.getElem?_set_self hlen, by simp, by simp⟩)
    · have hset : ∀ (x : Task), (s.tasks.set j x)[i]? = some t := by
        intro x
        rw [List.getElem?_set_ne (Ne.symm hij)]; exact ht
      obtain ⟨pc, outcome, starts, handled, hid⟩ := tj
      cases pc <;> simp only [] at h
      all_goals (repeat' (split at h))
      all_goals first
        | (cases h; done)
        | (cases h; exact ⟨t, hset _, by simp [hij], fun e => absurd e hij⟩)

end Golib.C19
