/-
The text of `HexDecode`'s errors, written out byte by byte — a specification of
`fmt.Errorf("encoding/hex: invalid byte: %#U", rune(c))` for a byte `c` that uses neither the
`%#U` model (`fmtSharpU`) nor the UTF-8 encoder; checked against the model for all 256 bytes.
-/
import Golib.Model.C15Hex

namespace Golib.C15

/-- `encoding/hex: invalid byte: U+00XY`, then for a printable Latin-1 character the quoted
character (itself below 0x80; the two UTF-8 bytes `0xC2/0xC3, 0x80..0xBF` from 0xA1 on; the
soft hyphen U+00AD, the C0/C1 controls, DEL and NBSP are not printable and get no quote). -/
def invalidByteTextSpec (c : Nat) : List Nat :=
  asciiBytes "encoding/hex: invalid byte: U+00" ++ [upperHexDigit (c / 16), upperHexDigit (c % 16)] ++
    (if 0x20 ≤ c ∧ c ≤ 0x7e then [32, 39, c, 39]
     else if 0xa1 ≤ c ∧ c ≤ 0xff ∧ c ≠ 0xad then [32, 39, 0xC0 + c / 64, 0x80 + c % 64, 39]
     else [])

theorem invalidByte_text_all :
    (List.range 256).all (fun c => (HErr.invalidByte c).text == some (invalidByteTextSpec c)) = true := by
  decide +kernel

theorem invalidByte_text (c : Nat) (hc : c < 256) :
    (HErr.invalidByte c).text = some (invalidByteTextSpec c) :=
  eq_of_beq (List.all_eq_true.mp invalidByte_text_all c (List.mem_range.mpr hc))

end Golib.C15
