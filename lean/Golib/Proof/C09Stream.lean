/-
Helper lemmas for C09: the `io.Reader` model, `io.ReadFull`, `io.Copy` with the CTR
keystream, and stream-mode encryption / decryption.
-/
import Golib.Proof.C09Env

namespace Golib.C09
open Golib.C08

/-! ### CTR as a position-indexed keystream -/

theorem ctrXor_append (ks : Nat → Nat) : ∀ (a b : Bytes) (pos : Nat),
    ctrXor ks pos (a ++ b) = ctrXor ks pos a ++ ctrXor ks (pos + a.length) b
  | [], b, pos => by simp [ctrXor]
  | x :: a, b, pos => by
    simp only [List.cons_append, ctrXor, List.length_cons]
    rw [ctrXor_append ks a b (pos + 1)]
    congr 3; omega

theorem ctrXor_length (ks : Nat → Nat) : ∀ (a : Bytes) (pos : Nat), (ctrXor ks pos a).length = a.length
  | [], _ => by simp [ctrXor]
  | _ :: a, pos => by simp [ctrXor, ctrXor_length ks a (pos + 1)]

theorem ctrXor_invol (ks : Nat → Nat) : ∀ (a : Bytes) (pos : Nat), ctrXor ks pos (ctrXor ks pos a) = a
  | [], _ => by simp [ctrXor]
  | x :: a, pos => by
    simp only [ctrXor]
    rw [ctrXor_invol ks a (pos + 1), Nat.xor_assoc, Nat.xor_self, Nat.xor_zero]

/-! ### one `Read` -/

/-- everything the loops need to know about one `Read` -/
theorem read_cases (r : Reader) (want : Nat) (chunk : Bytes) (err : Option RdErr) (r' : Reader)
    (h : r.read want = (chunk, err, r')) :
    chunk ++ r'.data = r.data ∧ chunk.length ≤ want ∧
    r'.eofWithData = r.eofWithData ∧ r'.failAtEnd = r.failAtEnd ∧
    (err = none → 0 < want → r'.measure < r.measure) ∧
    (∀ e, err = some e → r'.data = [] ∧ (r.failAtEnd = false → e = .eof)) := by
  unfold Reader.read at h
  simp only [Prod.mk.injEq] at h
  obtain ⟨hc, he, hr⟩ := h
  generalize hn : min (match r.plan with | [] => want | l :: _ => min l want) r.data.length = n at *
  have hnw : n ≤ want := by
    rw [← hn]; cases r.plan <;> simp only [] <;> omega
  have hnd : n ≤ r.data.length := by omega
  subst hc hr
  refine ⟨List.take_append_drop _ _, by simp only [List.length_take]; omega, rfl, rfl, ?_, ?_⟩
  · intro herr hw
    rw [← he] at herr
    by_cases hcond : r.data.drop n = [] ∧ (n = 0 ∨ r.eofWithData = true)
    · rw [if_pos hcond] at herr; cases herr
    · simp only [Reader.measure, List.length_drop, List.length_tail]
      cases hp : r.plan with
      | nil =>
        rw [hp] at hn
        simp only [] at hn
        simp only [List.length_nil]
        have hn0 : 0 < n := by
          apply Nat.pos_of_ne_zero
          intro h0
          apply hcond
          have hd : r.data.length = 0 := by omega
          have hd' : r.data = [] := List.length_eq_zero_iff.mp hd
          exact ⟨by rw [hd']; simp, Or.inl h0⟩
        omega
      | cons l ps =>
        simp only [List.length_cons]; omega
  · intro e herr
    rw [← he] at herr
    by_cases hcond : r.data.drop n = [] ∧ (n = 0 ∨ r.eofWithData = true)
    · rw [if_pos hcond] at herr
      refine ⟨hcond.1, fun hf => ?_⟩
      rw [hf] at herr
      injection herr with herr
      exact herr.symm
    · rw [if_neg hcond] at herr; cases herr

/-! ### non-failing writer -/

theorem write_ok (w : Writer) (p : Bytes) (h : w.failAt = none) :
    ∃ w', w.write p = some w' ∧ w'.content = w.content ++ p ∧ w'.failAt = none ∧
      w'.chunks = w.chunks ++ [p] := by
  unfold Writer.write
  rw [h]
  exact ⟨_, rfl, by simp [Writer.content], rfl, rfl⟩

/-! ### `io.Copy` -/

theorem copyLoop_nodiv (ks : Nat → Nat) : ∀ (fuel : Nat) (r : Reader) (w : Writer) (pos : Nat),
    r.measure + 2 ≤ fuel → copyLoop ks fuel r w pos ≠ .diverged := by
  intro fuel
  induction fuel with
  | zero => intro r w pos h; omega
  | succ fuel ih =>
    intro r w pos h
    unfold copyLoop
    simp only []
    have hrc := read_cases r 32768
    generalize r.read 32768 = res at *
    obtain ⟨chunk, err, r'⟩ := res
    obtain ⟨_, _, _, _, hprog, _⟩ := hrc chunk err r' rfl
    simp only []
    split
    · simp
    · cases err with
      | none =>
        simp only []
        have := hprog rfl (by omega)
        exact ih _ _ _ (by omega)
      | some e => cases e <;> simp

/-- with a reader that ends in `io.EOF` and a writer that accepts everything, `io.Copy`
succeeds and has written the keystream-XOR of all the reader's data, whatever the chunking -/
theorem copyLoop_spec (ks : Nat → Nat) : ∀ (fuel : Nat) (r : Reader) (w : Writer) (pos : Nat),
    r.failAtEnd = false → w.failAt = none → r.measure + 2 ≤ fuel →
    ∃ w', copyLoop ks fuel r w pos = .ok w' ∧ w'.failAt = none ∧
      w'.content = w.content ++ ctrXor ks pos r.data := by
  intro fuel
  induction fuel with
  | zero => intro r w pos _ _ h; omega
  | succ fuel ih =>
    intro r w pos hf hw h
    unfold copyLoop
    simp only []
    have hrc := read_cases r 32768
    generalize r.read 32768 = res at *
    obtain ⟨chunk, err, r'⟩ := res
    obtain ⟨hdata, _, _, hf', hprog, hre⟩ := hrc chunk err r' rfl
    simp only []
    -- the write
    have hw1 : ∃ w1, (if chunk.length > 0 then w.write (ctrXor ks pos chunk) else some w) = some w1 ∧
        w1.failAt = none ∧ w1.content = w.content ++ ctrXor ks pos chunk := by
      by_cases hc : chunk.length > 0
      · rw [if_pos hc]
        obtain ⟨w1, a, b, c, _⟩ := write_ok w (ctrXor ks pos chunk) hw
        exact ⟨w1, a, c, b⟩
      · rw [if_neg hc]
        have : chunk = [] := List.length_eq_zero_iff.mp (by omega)
        exact ⟨w, rfl, hw, by simp [this, ctrXor]⟩
    obtain ⟨w1, hw1e, hw1f, hw1c⟩ := hw1
    rw [hw1e]
    simp only []
    cases herr : err with
    | none =>
      simp only []
      have hprog := hprog herr (by omega)
      obtain ⟨w', a, b, c⟩ := ih r' w1 (pos + chunk.length) (by rw [hf', hf]) hw1f (by omega)
      refine ⟨w', a, b, ?_⟩
      rw [c, hw1c, ← hdata, ctrXor_append, List.append_assoc]
    | some e =>
      have hre := hre e herr
      have he : e = .eof := hre.2 hf
      subst he
      simp only []
      refine ⟨w1, rfl, hw1f, ?_⟩
      rw [hw1c, ← hdata, hre.1, List.append_nil]

/-! ### `io.ReadFull` -/

theorem readFullLoop_nodiv : ∀ (fuel : Nat) (r : Reader) (need : Nat) (acc : Bytes),
    r.measure + 2 ≤ fuel → readFullLoop fuel r need acc ≠ none := by
  intro fuel
  induction fuel with
  | zero => intro r need acc h; omega
  | succ fuel ih =>
    intro r need acc h
    unfold readFullLoop
    split
    · simp
    · rename_i hn
      simp only []
      have hrc := read_cases r need
      generalize r.read need = res at *
      obtain ⟨chunk, err, r'⟩ := res
      obtain ⟨_, _, _, _, hprog, _⟩ := hrc chunk err r' rfl
      simp only []
      cases err with
      | none =>
        simp only []
        have := hprog rfl (by omega)
        exact ih _ _ _ (by omega)
      | some e => simp only []; split <;> simp

/-- when the reader still holds at least `need` bytes, `io.ReadFull` returns exactly the
next `need` bytes without error, whatever the chunking and however the end is reported -/
theorem readFullLoop_spec : ∀ (fuel : Nat) (r : Reader) (need : Nat) (acc : Bytes),
    need ≤ r.data.length → r.measure + 2 ≤ fuel →
    ∃ r', readFullLoop fuel r need acc = some (acc ++ r.data.take need, none, r') ∧
      r'.data = r.data.drop need ∧ r'.failAtEnd = r.failAtEnd := by
  intro fuel
  induction fuel with
  | zero => intro r need acc _ h; omega
  | succ fuel ih =>
    intro r need acc hneed h
    unfold readFullLoop
    by_cases hn : need = 0
    · rw [if_pos hn]; subst hn
      exact ⟨r, by simp, by simp, rfl⟩
    · rw [if_neg hn]
      simp only []
      have hrc := read_cases r need
      generalize r.read need = res at *
      obtain ⟨chunk, err, r'⟩ := res
      obtain ⟨hdata, hcl, _, hf', hprog, hre⟩ := hrc chunk err r' rfl
      simp only []
      cases herr : err with
      | none =>
        simp only []
        have hp := hprog herr (by omega)
        have hl : r.data.length = chunk.length + r'.data.length := by rw [← hdata]; simp
        obtain ⟨r'', a, b, c⟩ := ih r' (need - chunk.length) (acc ++ chunk) (by omega) (by omega)
        refine ⟨r'', ?_, ?_, by rw [c, hf']⟩
        · rw [a]
          congr 2
          rw [← hdata, List.append_assoc, List.take_append, List.take_of_length_le hcl]
        · rw [b, ← hdata, List.drop_append]
          have : List.drop need chunk = [] := List.drop_eq_nil_of_le hcl
          rw [this, List.nil_append]
      | some e =>
        simp only []
        have hd := (hre e herr).1
        have hce : chunk = r.data := by rw [← hdata, hd, List.append_nil]
        have hle : need ≤ chunk.length := by rw [hce]; exact hneed
        rw [if_pos hle]
        refine ⟨r', ?_, ?_, hf'⟩
        · congr 2
          rw [← hce, List.take_of_length_le (by omega)]
        · rw [hd]
          exact (List.drop_eq_nil_of_le (by rw [← hce]; omega)).symm

/-- whenever `io.ReadFull` reports no error it has filled the buffer -/
theorem readFullLoop_len : ∀ (fuel : Nat) (r : Reader) (need : Nat) (acc got : Bytes) (r' : Reader),
    readFullLoop fuel r need acc = some (got, none, r') → got.length = acc.length + need := by
  intro fuel
  induction fuel with
  | zero => intro r need acc got r' h; simp [readFullLoop] at h
  | succ fuel ih =>
    intro r need acc got r' h
    unfold readFullLoop at h
    by_cases hn : need = 0
    · rw [if_pos hn] at h
      injection h with h; injection h with h1 _
      rw [← h1, hn]; rfl
    · rw [if_neg hn] at h
      simp only [] at h
      have hrc := read_cases r need
      generalize r.read need = res at *
      obtain ⟨chunk, err, r1⟩ := res
      obtain ⟨_, hcl, _⟩ := hrc chunk err r1 rfl
      simp only [] at h
      cases herr : err with
      | none =>
        rw [herr] at h
        simp only [] at h
        have := ih _ _ _ _ _ h
        rw [this]; simp only [List.length_append]; omega
      | some e =>
        rw [herr] at h
        simp only [] at h
        split at h
        · injection h with h; injection h with h1 _
          rw [← h1]; simp only [List.length_append]; omega
        · injection h with h; injection h with _ h2
          injection h2 with h2; cases h2

end Golib.C09
