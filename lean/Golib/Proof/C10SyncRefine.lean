/-
C10 (SyncRing, one goroutine): every operation on a canonical state refines the
bounded FIFO, for every value of the ghost counter; honest push/pop pairs advance it.
-/
import Golib.Model.C10Spec
import Golib.Proof.C10Sync
import Golib.Proof.C10Wait

set_option linter.unusedSimpArgs false
set_option linter.unusedVariables false

namespace Golib.C10
open Golib.Proto

theorem sync_step_refines_basic {c e : Nat} (g : Geom c e) (H : Nat) (q : List Int) (hq : q.length ≤ c)
    (op : SOp) (hb : ∀ v w, op ≠ .pushW v w) (hb' : ∀ w, op ≠ .popW w) :
    ∃ H' q', (mkSync c H q).step op = some (mkSync c H' q', ((⟨q, c⟩ : BQ).step op.toOp).2) ∧
      ((⟨q, c⟩ : BQ).step op.toOp).1 = ⟨q', c⟩ ∧ q'.length ≤ c := by
  obtain ⟨hlen, hemp, hfull⟩ := len_mk g H q hq
  cases op with
  | push v =>
    simp only [SyncRing.step, push_mk g H q v hq, Option.map_some, SOp.toOp, BQ.step]
    by_cases hlt : q.length < c
    · have : (q.length : Int) < (c : Int) := by omega
      simp only [hlt, this, if_true]
      exact ⟨H, q ++ [v], rfl, rfl, by simp; omega⟩
    · have : ¬ ((q.length : Int) < (c : Int)) := by omega
      simp only [hlt, this, if_false]
      exact ⟨H, q, rfl, rfl, hq⟩
  | pop =>
    cases q with
    | nil =>
      simp only [SyncRing.step, pop_mk_nil g H, Option.map_some, SOp.toOp, BQ.step]
      exact ⟨H, [], rfl, rfl, hq⟩
    | cons x q' =>
      simp only [SyncRing.step, pop_mk_cons g H x q' hq, Option.map_some, SOp.toOp, BQ.step]
      exact ⟨H + 1, q', rfl, rfl, by simp at hq; omega⟩
  | len =>
    refine ⟨H, q, ?_, rfl, hq⟩
    simp only [SyncRing.step, SOp.toOp, BQ.step, hlen]
  | cap =>
    refine ⟨H, q, ?_, rfl, hq⟩
    simp only [SyncRing.step, SOp.toOp, BQ.step, mkSync]
  | isEmpty =>
    refine ⟨H, q, ?_, rfl, hq⟩
    simp only [SyncRing.step, SOp.toOp, BQ.step]
    cases q with
    | nil => rw [hemp.mpr rfl]; rfl
    | cons x q' =>
      have : (mkSync c H (x :: q')).isEmpty = false := by
        cases h : (mkSync c H (x :: q')).isEmpty with
        | false => rfl
        | true => exact absurd (hemp.mp h) (by simp)
      rw [this]; rfl
  | isFull =>
    refine ⟨H, q, ?_, rfl, hq⟩
    simp only [SyncRing.step, SOp.toOp, BQ.step]
    by_cases hf : q.length = c
    · have : (q.length : Int) = (c : Int) := by omega
      rw [hfull.mpr hf]; simp only [this, decide_true]
    · have h1 : (mkSync c H q).isFull = false := by
        cases h : (mkSync c H q).isFull with
        | false => rfl
        | true => exact absurd (hfull.mp h) hf
      have : ¬ ((q.length : Int) = (c : Int)) := by omega
      rw [h1]; simp only [this, decide_false]
  | pushW v w => exact absurd rfl (hb v w)
  | popW w => exact absurd rfl (hb' w)

/-- Every operation, waits with `maxWait ≥ 0` included (they print and do what the plain
operation does: `step_pushW`, `step_popW`). -/
theorem sync_step_refines {c e : Nat} (g : Geom c e) (H : Nat) (q : List Int) (hq : q.length ≤ c)
    (op : SOp) :
    ∃ H' q', (mkSync c H q).step op = some (mkSync c H' q', ((⟨q, c⟩ : BQ).step op.toOp).2) ∧
      ((⟨q, c⟩ : BQ).step op.toOp).1 = ⟨q', c⟩ ∧ q'.length ≤ c := by
  cases op with
  | pushW v w =>
    rw [step_pushW]
    exact sync_step_refines_basic g H q hq (.push v) (by intro _ _ h; cases h) (by intro _ h; cases h)
  | popW w =>
    rw [step_popW]
    exact sync_step_refines_basic g H q hq .pop (by intro _ _ h; cases h) (by intro _ h; cases h)
  | push v => exact sync_step_refines_basic g H q hq _ (by intro _ _ h; cases h) (by intro _ h; cases h)
  | pop => exact sync_step_refines_basic g H q hq _ (by intro _ _ h; cases h) (by intro _ h; cases h)
  | len => exact sync_step_refines_basic g H q hq _ (by intro _ _ h; cases h) (by intro _ h; cases h)
  | cap => exact sync_step_refines_basic g H q hq _ (by intro _ _ h; cases h) (by intro _ h; cases h)
  | isEmpty => exact sync_step_refines_basic g H q hq _ (by intro _ _ h; cases h) (by intro _ h; cases h)
  | isFull => exact sync_step_refines_basic g H q hq _ (by intro _ _ h; cases h) (by intro _ h; cases h)

theorem sync_run_refines {c e : Nat} (g : Geom c e) (ops : List SOp) :
    ∀ (H : Nat) (q : List Int), q.length ≤ c →
    ∃ H' q', (mkSync c H q).run ops = some (mkSync c H' q', ((⟨q, c⟩ : BQ).run (ops.map SOp.toOp)).2) ∧
      ((⟨q, c⟩ : BQ).run (ops.map SOp.toOp)).1 = ⟨q', c⟩ ∧ q'.length ≤ c := by
  induction ops with
  | nil => intro H q hq; exact ⟨H, q, rfl, rfl, hq⟩
  | cons op ops ih =>
    intro H q hq
    obtain ⟨H1, q1, h1, hs1, hq1⟩ := sync_step_refines g H q hq op
    obtain ⟨H2, q2, h2, hs2, hq2⟩ := ih H1 q1 hq1
    refine ⟨H2, q2, ?_, ?_, hq2⟩
    · simp only [SyncRing.run, h1, h2, List.map_cons, BQ.run]
      have : ((⟨q, c⟩ : BQ).step op.toOp) = (⟨q1, c⟩, ((⟨q, c⟩ : BQ).step op.toOp).2) := by
        rw [← hs1]
      rw [this]
    · simp only [List.map_cons, BQ.run]
      have : ((⟨q, c⟩ : BQ).step op.toOp) = (⟨q1, c⟩, ((⟨q, c⟩ : BQ).step op.toOp).2) := by
        rw [← hs1]
      rw [this]; simp only []; exact hs2

theorem pushPop_mk {c e : Nat} (g : Geom c e) (H : Nat) (v : Int) :
    (mkSync c H []).pushPop v = some (mkSync c (H + 1) []) := by
  obtain ⟨hc2, _⟩ := g.bounds
  have h0 : ([] : List Int).length < c := by simp; omega
  simp only [SyncRing.pushPop, push_mk g H [] v (by simp), h0, if_true, List.nil_append,
    pop_mk_cons g H v [] (by simp; omega), if_true]

theorem pairs_mk {c e : Nat} (g : Geom c e) (vs : Nat → Int) (k : Nat) :
    (mkSync c 0 []).pairs vs k = some (mkSync c k []) := by
  induction k with
  | zero => rfl
  | succ k ih => simp only [SyncRing.pairs, ih, pushPop_mk g k]

end Golib.C10
