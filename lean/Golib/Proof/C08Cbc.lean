/-
Helper lemmas for C08: CBC over a parametric block cipher — lengths, round trip, and the
in-place (backward, one shared buffer) decryption loop equals the forward fold.
-/
import Golib.Proof.C08Pad

namespace Golib.C08

theorem xorBytes_length (a b : Bytes) : (xorBytes a b).length = min a.length b.length := by
  simp [xorBytes]

theorem xorBytes_cancel : ∀ (a b : Bytes), a.length ≤ b.length → xorBytes (xorBytes a b) b = a
  | [], _, _ => by simp [xorBytes]
  | _ :: _, [], h => by simp at h
  | x :: a, y :: b, h => by
    have ih := xorBytes_cancel a b (by simpa using h)
    simp only [xorBytes, List.zipWith_cons_cons] at ih ⊢
    rw [ih, Nat.xor_assoc, Nat.xor_self, Nat.xor_zero]

theorem cbcEncrypt_short (E : Bytes → Bytes) (iv src : Bytes) (h : src.length < 16) :
    cbcEncrypt E iv src = [] := by
  rw [cbcEncrypt]; simp [h]

theorem cbcEncrypt_step (E : Bytes → Bytes) (iv src : Bytes) (h : ¬ src.length < 16) :
    cbcEncrypt E iv src =
      E (xorBytes (src.take 16) iv) ++ cbcEncrypt E (E (xorBytes (src.take 16) iv)) (src.drop 16) := by
  rw [cbcEncrypt]; simp [h]

theorem cbcDecrypt_short (D : Bytes → Bytes) (iv src : Bytes) (h : src.length < 16) :
    cbcDecrypt D iv src = [] := by
  rw [cbcDecrypt]; simp [h]

theorem cbcDecrypt_step (D : Bytes → Bytes) (iv src : Bytes) (h : ¬ src.length < 16) :
    cbcDecrypt D iv src =
      xorBytes (D (src.take 16)) iv ++ cbcDecrypt D (src.take 16) (src.drop 16) := by
  rw [cbcDecrypt]; simp [h]

/-- a block cipher maps blocks to blocks -/
def BlockLen (F : Bytes → Bytes) : Prop := ∀ x, x.length = 16 → (F x).length = 16

theorem cbcEncrypt_length (E : Bytes → Bytes) (hE : BlockLen E) :
    ∀ (k : Nat) (iv src : Bytes), iv.length = 16 → src.length = 16 * k →
      (cbcEncrypt E iv src).length = src.length := by
  intro k
  induction k with
  | zero => intro iv src _ hs; rw [cbcEncrypt_short E iv src (by omega)]; simp; omega
  | succ k ih =>
    intro iv src hiv hs
    rw [cbcEncrypt_step E iv src (by omega)]
    have hx : (xorBytes (src.take 16) iv).length = 16 := by
      rw [xorBytes_length]; simp; omega
    have hc := hE _ hx
    rw [List.length_append, hc, ih _ _ hc (by simp; omega)]
    simp; omega

theorem cbcDecrypt_length (D : Bytes → Bytes) (hD : BlockLen D) :
    ∀ (k : Nat) (iv src : Bytes), iv.length = 16 → src.length = 16 * k →
      (cbcDecrypt D iv src).length = src.length := by
  intro k
  induction k with
  | zero => intro iv src _ hs; rw [cbcDecrypt_short D iv src (by omega)]; simp; omega
  | succ k ih =>
    intro iv src hiv hs
    rw [cbcDecrypt_step D iv src (by omega)]
    have ht : (src.take 16).length = 16 := by simp; omega
    have hx : (xorBytes (D (src.take 16)) iv).length = 16 := by
      rw [xorBytes_length, hD _ ht]; omega
    rw [List.length_append, hx, ih _ _ ht (by simp; omega)]
    simp; omega

/-- CBC decryption inverts CBC encryption, for any number of blocks (including none). -/
theorem cbc_roundtrip (E D : Bytes → Bytes) (hE : BlockLen E)
    (hDE : ∀ x, x.length = 16 → D (E x) = x) :
    ∀ (k : Nat) (iv src : Bytes), iv.length = 16 → src.length = 16 * k →
      cbcDecrypt D iv (cbcEncrypt E iv src) = src := by
  intro k
  induction k with
  | zero =>
    intro iv src _ hs
    have : src = [] := List.length_eq_zero_iff.mp (by omega)
    subst this
    rw [cbcEncrypt_short E iv [] (by simp), cbcDecrypt_short D iv [] (by simp)]
  | succ k ih =>
    intro iv src hiv hs
    rw [cbcEncrypt_step E iv src (by omega)]
    have hx : (xorBytes (src.take 16) iv).length = 16 := by
      rw [xorBytes_length]; simp; omega
    generalize hc : E (xorBytes (src.take 16) iv) = c
    have hcl : c.length = 16 := by rw [← hc]; exact hE _ hx
    have hrest : (src.drop 16).length = 16 * k := by simp; omega
    have hrl := cbcEncrypt_length E hE k c (src.drop 16) hcl hrest
    rw [cbcDecrypt_step D iv _ (by simp; omega)]
    have htake : (c ++ cbcEncrypt E c (src.drop 16)).take 16 = c := by
      rw [← hcl]; simp
    have hdrop : (c ++ cbcEncrypt E c (src.drop 16)).drop 16 = cbcEncrypt E c (src.drop 16) := by
      rw [← hcl]; simp
    rw [htake, hdrop, ih c (src.drop 16) hcl hrest, ← hc, hDE _ hx,
      xorBytes_cancel _ _ (by simp; omega)]
    exact List.take_append_drop 16 src

/-! ### the same, relativised to byte strings (`IsBytes`): what a concrete block cipher on
bytes (AES) can actually satisfy — its behaviour on lists holding numbers ≥ 256 is irrelevant -/

theorem isBytes_xorBytes : ∀ (a b : Bytes), IsBytes a → IsBytes b → IsBytes (xorBytes a b)
  | [], _, _, _ => by simp [xorBytes, IsBytes]
  | _ :: _, [], _, _ => by simp [xorBytes, IsBytes]
  | x :: a, y :: b, ha, hb => by
    have ih := isBytes_xorBytes a b (fun z hz => ha z (List.mem_cons_of_mem _ hz))
      (fun z hz => hb z (List.mem_cons_of_mem _ hz))
    have hx : x < 2 ^ 8 := ha x (List.mem_cons_self)
    have hy : y < 2 ^ 8 := hb y (List.mem_cons_self)
    intro z hz
    simp only [xorBytes, List.zipWith_cons_cons, List.mem_cons] at hz
    rcases hz with rfl | hz
    · exact Nat.xor_lt_two_pow hx hy
    · exact ih z hz

theorem isBytes_take {x : Bytes} (n : Nat) (h : IsBytes x) : IsBytes (x.take n) :=
  fun y hy => h y (List.mem_of_mem_take hy)

theorem isBytes_drop {x : Bytes} (n : Nat) (h : IsBytes x) : IsBytes (x.drop n) :=
  fun y hy => h y (List.mem_of_mem_drop hy)

/-- a block cipher on BYTES maps 16-byte blocks to 16-byte blocks -/
def BlockLenB (F : Bytes → Bytes) : Prop :=
  ∀ x, x.length = 16 → IsBytes x → (F x).length = 16 ∧ IsBytes (F x)

theorem BlockLenB_of_all {F : Bytes → Bytes} (h : BlockLen F) (hb : ∀ x, IsBytes x → IsBytes (F x)) :
    BlockLenB F := fun x hx hxb => ⟨h x hx, hb x hxb⟩

theorem cbcEncrypt_lengthB (E : Bytes → Bytes) (hE : BlockLenB E) :
    ∀ (k : Nat) (iv src : Bytes), iv.length = 16 → IsBytes iv → src.length = 16 * k → IsBytes src →
      (cbcEncrypt E iv src).length = src.length ∧ IsBytes (cbcEncrypt E iv src) := by
  intro k
  induction k with
  | zero =>
    intro iv src _ _ hs _
    rw [cbcEncrypt_short E iv src (by omega)]
    exact ⟨by simp; omega, by simp [IsBytes]⟩
  | succ k ih =>
    intro iv src hiv hivb hs hsb
    rw [cbcEncrypt_step E iv src (by omega)]
    have hx : (xorBytes (src.take 16) iv).length = 16 := by
      rw [xorBytes_length]; simp; omega
    have hxb := isBytes_xorBytes _ _ (isBytes_take 16 hsb) hivb
    obtain ⟨hc, hcb⟩ := hE _ hx hxb
    obtain ⟨hl, hlb⟩ := ih _ (src.drop 16) hc hcb (by simp; omega) (isBytes_drop 16 hsb)
    refine ⟨?_, isBytes_append.mpr ⟨hcb, hlb⟩⟩
    rw [List.length_append, hc, hl]
    simp; omega

/-- CBC decryption inverts CBC encryption on byte strings, for any number of blocks, for every
`(E, D)` that is a bijection pair ON BYTE BLOCKS. -/
theorem cbc_roundtripB (E D : Bytes → Bytes) (hE : BlockLenB E)
    (hDE : ∀ x, x.length = 16 → IsBytes x → D (E x) = x) :
    ∀ (k : Nat) (iv src : Bytes), iv.length = 16 → IsBytes iv → src.length = 16 * k → IsBytes src →
      cbcDecrypt D iv (cbcEncrypt E iv src) = src := by
  intro k
  induction k with
  | zero =>
    intro iv src _ _ hs _
    have : src = [] := List.length_eq_zero_iff.mp (by omega)
    subst this
    rw [cbcEncrypt_short E iv [] (by simp), cbcDecrypt_short D iv [] (by simp)]
  | succ k ih =>
    intro iv src hiv hivb hs hsb
    rw [cbcEncrypt_step E iv src (by omega)]
    have hx : (xorBytes (src.take 16) iv).length = 16 := by
      rw [xorBytes_length]; simp; omega
    have hxb := isBytes_xorBytes _ _ (isBytes_take 16 hsb) hivb
    generalize hc : E (xorBytes (src.take 16) iv) = c
    obtain ⟨hcl', hcb'⟩ := hE _ hx hxb
    have hcl : c.length = 16 := by rw [← hc]; exact hcl'
    have hcb : IsBytes c := by rw [← hc]; exact hcb'
    have hrest : (src.drop 16).length = 16 * k := by simp; omega
    have hrl := (cbcEncrypt_lengthB E hE k c (src.drop 16) hcl hcb hrest (isBytes_drop 16 hsb)).1
    rw [cbcDecrypt_step D iv _ (by simp; omega)]
    have htake : (c ++ cbcEncrypt E c (src.drop 16)).take 16 = c := by
      rw [← hcl]; simp
    have hdrop : (c ++ cbcEncrypt E c (src.drop 16)).drop 16 = cbcEncrypt E c (src.drop 16) := by
      rw [← hcl]; simp
    rw [htake, hdrop, ih c (src.drop 16) hcl hcb hrest (isBytes_drop 16 hsb), ← hc, hDE _ hx hxb,
      xorBytes_cancel _ _ (by simp; omega)]
    exact List.take_append_drop 16 src

/-! ### the in-place backward loop -/

theorem cbcDecrypt_append (D : Bytes → Bytes) :
    ∀ (k : Nat) (iv pre blk : Bytes), iv.length = 16 → pre.length = 16 * (k + 1) → blk.length = 16 →
      cbcDecrypt D iv (pre ++ blk) =
        cbcDecrypt D iv pre ++ xorBytes (D blk) (getBlock pre k) := by
  intro k
  induction k with
  | zero =>
    intro iv pre blk hiv hp hb
    rw [cbcDecrypt_step D iv (pre ++ blk) (by simp; omega), cbcDecrypt_step D iv pre (by omega)]
    have h1 : (pre ++ blk).take 16 = pre := by
      rw [List.take_append_of_le_length (by omega)]; exact List.take_of_length_le (by omega)
    have h2 : (pre ++ blk).drop 16 = blk := by
      have : 16 = pre.length := by omega
      rw [this]; simp
    have h3 : pre.take 16 = pre := List.take_of_length_le (by omega)
    have h4 : pre.drop 16 = [] := List.drop_eq_nil_of_le (by omega)
    rw [h1, h2, h3, h4, cbcDecrypt_short D pre [] (by simp),
      cbcDecrypt_step D pre blk (by omega)]
    have h5 : blk.take 16 = blk := List.take_of_length_le (by omega)
    have h6 : blk.drop 16 = [] := List.drop_eq_nil_of_le (by omega)
    rw [h5, h6, cbcDecrypt_short D blk [] (by simp)]
    simp [getBlock, h3]
  | succ k ih =>
    intro iv pre blk hiv hp hb
    rw [cbcDecrypt_step D iv (pre ++ blk) (by simp; omega), cbcDecrypt_step D iv pre (by omega)]
    have h1 : (pre ++ blk).take 16 = pre.take 16 := List.take_append_of_le_length (by omega)
    have h2 : (pre ++ blk).drop 16 = pre.drop 16 ++ blk := List.drop_append_of_le_length (by omega)
    have ht : (pre.take 16).length = 16 := by simp; omega
    rw [h1, h2, ih (pre.take 16) (pre.drop 16) blk ht (by simp; omega) hb]
    have hg : getBlock (pre.drop 16) k = getBlock pre (k + 1) := by
      simp only [getBlock, List.drop_drop]
      congr 2; omega
    rw [hg, List.append_assoc]

theorem getBlock_append_left (pre suf : Bytes) (i : Nat) (h : 16 * (i + 1) ≤ pre.length) :
    getBlock (pre ++ suf) i = getBlock pre i := by
  simp only [getBlock]
  rw [List.drop_append_of_le_length (by omega), List.take_append_of_le_length (by simp; omega)]

/-- Processing blocks `k, k-1, …, 0` of a buffer whose first `16(k+1)` bytes are still
ciphertext leaves exactly the CBC decryption of that prefix there, and never touches what
lies behind it. -/
theorem cbcDecInPlace_spec (D : Bytes → Bytes) :
    ∀ (k : Nat) (iv pre suf : Bytes), iv.length = 16 → pre.length = 16 * (k + 1) →
      cbcDecInPlace D iv (pre ++ suf) k = cbcDecrypt D iv pre ++ suf := by
  intro k
  induction k with
  | zero =>
    intro iv pre suf hiv hp
    simp only [cbcDecInPlace, setBlock]
    have hg : getBlock (pre ++ suf) 0 = pre := by
      rw [getBlock_append_left pre suf 0 (by omega)]
      simp only [getBlock, Nat.mul_zero, List.drop_zero]; exact List.take_of_length_le (by omega)
    rw [hg, cbcDecrypt_step D iv pre (by omega)]
    have h3 : pre.take 16 = pre := List.take_of_length_le (by omega)
    have h4 : pre.drop 16 = [] := List.drop_eq_nil_of_le (by omega)
    rw [h3, h4, cbcDecrypt_short D pre [] (by simp)]
    have : 16 * (0 + 1) = pre.length := by omega
    rw [this]; simp
  | succ k ih =>
    intro iv pre suf hiv hp
    simp only [cbcDecInPlace]
    -- split the prefix into the first k+1 blocks and the last block
    have hsplit : pre = pre.take (16 * (k + 1)) ++ pre.drop (16 * (k + 1)) :=
      (List.take_append_drop _ _).symm
    generalize hp1 : pre.take (16 * (k + 1)) = p1 at hsplit
    generalize hb1 : pre.drop (16 * (k + 1)) = blk at hsplit
    have hp1l : p1.length = 16 * (k + 1) := by rw [← hp1]; simp; omega
    have hbl : blk.length = 16 := by rw [← hb1]; simp; omega
    subst hsplit
    have hg1 : getBlock (p1 ++ blk ++ suf) (k + 1) = blk := by
      simp only [getBlock]
      rw [← hp1l, List.append_assoc, List.drop_left, ← hbl]; simp
    have hg0 : getBlock (p1 ++ blk ++ suf) k = getBlock p1 k := by
      rw [List.append_assoc, getBlock_append_left p1 _ k (by omega)]
    have hset : ∀ nb : Bytes, setBlock (p1 ++ blk ++ suf) (k + 1) nb = p1 ++ (nb ++ suf) := by
      intro nb
      simp only [setBlock]
      have e1 : (p1 ++ blk ++ suf).take (16 * (k + 1)) = p1 := by
        rw [← hp1l, List.append_assoc, List.take_left]
      have e2 : (p1 ++ blk ++ suf).drop (16 * (k + 1 + 1)) = suf := by
        have : 16 * (k + 1 + 1) = (p1 ++ blk).length := by simp; omega
        rw [this, List.drop_left]
      rw [e1, e2, List.append_assoc]
    rw [hg1, hg0, hset, ih iv p1 _ hiv hp1l,
      cbcDecrypt_append D k iv p1 blk hiv hp1l hbl, List.append_assoc]

end Golib.C08
