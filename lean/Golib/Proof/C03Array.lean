/-
C03 helper lemmas, part 4: the array container (`Add` in its three branches, `Remove`,
`Contains`) on a strictly ascending array.  Core-only.
-/
import Golib.Proof.C03Words
namespace Golib.C03

theorem arrContains_spec (v : Array Nat) (x : Nat) (hs : Sorted v) :
    arrContains v x = some (decide (x ∈ v.toList)) := by
  obtain ⟨p, hp, hlb⟩ := search_spec v x hs
  have := lowerBound_hit_iff hs hlb
  simp only [arrContains, hp]
  cases hb : (decide (p < v.size) && v[p]? == some x) <;> simp_all

theorem lb_take {v : Array Nat} {x p : Nat} (h : LowerBound v x p) :
    ∀ a ∈ v.toList.take p, a < x := by
  intro a ha
  obtain ⟨i, hi⟩ := List.mem_iff_getElem?.mp ha
  rw [List.getElem?_take] at hi
  by_cases hip : i < p
  · simp only [hip, if_true, Array.getElem?_toList] at hi
    exact h.2.1 i a hip hi
  · simp [hip] at hi

theorem lb_drop {v : Array Nat} {x p : Nat} (h : LowerBound v x p) :
    ∀ a ∈ v.toList.drop p, x ≤ a := by
  intro a ha
  obtain ⟨i, hi⟩ := List.mem_iff_getElem?.mp ha
  rw [List.getElem?_drop, Array.getElem?_toList] at hi
  exact h.2.2 (p + i) a (by omega) hi

theorem toList_insertAt (v : Array Nat) (x p : Nat) (_hp : p ≤ v.size) :
    (v.extract 0 p ++ #[x] ++ v.extract p v.size).toList
      = v.toList.take p ++ [x] ++ v.toList.drop p := by
  simp only [Array.toList_append, Array.toList_extract, List.extract_eq_take_drop]
  have : ∀ q, List.take (v.size - q) (List.drop q v.toList) = List.drop q v.toList := by
    intro q; apply List.take_of_length_le; simp
  simp [this]

theorem toList_removeAt (v : Array Nat) (p : Nat) (_hp : p < v.size) :
    (v.extract 0 p ++ v.extract (p + 1) v.size).toList
      = v.toList.take p ++ v.toList.drop (p + 1) := by
  simp only [Array.toList_append, Array.toList_extract, List.extract_eq_take_drop]
  have : ∀ q, List.take (v.size - q) (List.drop q v.toList) = List.drop q v.toList := by
    intro q; apply List.take_of_length_le; simp
  simp [this]

/-- Insertion at the lower bound (the two array branches of `Add`). -/
theorem arrAdd_small (v : Array Nat) (x : Nat) (hs : Sorted v) (hx : x ∉ v.toList)
    (hsz : v.size < threshold) :
    ∃ v', arrAdd v x = some (v', .arr v', true) ∧ Sorted v' ∧ v'.size = v.size + 1 ∧
      ∀ y, y ∈ v'.toList ↔ (y = x ∨ y ∈ v.toList) := by
  obtain ⟨p, hp, hlb⟩ := search_spec v x hs
  have hhit := lowerBound_hit_iff hs hlb
  have hmiss : (decide (p < v.size) && v[p]? == some x) = false := by
    cases hb : (decide (p < v.size) && v[p]? == some x)
    · rfl
    · exact absurd (hhit.mp hb) hx
  have hple : ¬ p > v.size := by have := hlb.1; omega
  simp only [arrAdd, hp, hmiss, hsz, if_true, hple, if_false, Bool.false_eq_true]
  refine ⟨_, rfl, ?_, ?_, ?_⟩
  · unfold Sorted
    rw [toList_insertAt v x p hlb.1]
    have hs' : (v.toList.take p ++ v.toList.drop p).Pairwise (· < ·) := by
      rw [List.take_append_drop]; exact hs
    rw [List.pairwise_append] at hs'
    obtain ⟨h1, h2, h3⟩ := hs'
    have hd : ∀ a ∈ v.toList.drop p, x < a := by
      intro a ha
      have h1 := lb_drop hlb a ha
      have h2 : a ≠ x := fun e => hx (e ▸ List.mem_of_mem_drop ha)
      omega
    rw [List.append_assoc, List.pairwise_append]
    refine ⟨h1, ?_, ?_⟩
    · simp only [List.singleton_append, List.pairwise_cons]
      exact ⟨hd, h2⟩
    · intro a ha b hb
      simp only [List.singleton_append, List.mem_cons] at hb
      rcases hb with rfl | hb
      · exact lb_take hlb a ha
      · exact h3 a ha b hb
  · have := hlb.1
    simp only [Array.size_append, Array.size_extract]
    simp; omega
  · intro y
    rw [toList_insertAt v x p hlb.1]
    conv => rhs; rw [← List.take_append_drop p v.toList]
    simp only [List.mem_append, List.mem_singleton]
    grind

theorem arrAdd_hit (v : Array Nat) (x : Nat) (hs : Sorted v) (hx : x ∈ v.toList) :
    arrAdd v x = some (v, .arr v, false) := by
  obtain ⟨p, hp, hlb⟩ := search_spec v x hs
  have hhit := (lowerBound_hit_iff hs hlb).mpr hx
  simp only [arrAdd, hp, hhit, if_true]

theorem arrRemove_miss (v : Array Nat) (x : Nat) (hs : Sorted v) (hx : x ∉ v.toList) :
    arrRemove v x = some (v, false) := by
  obtain ⟨p, hp, hlb⟩ := search_spec v x hs
  have hhit := lowerBound_hit_iff hs hlb
  have hmiss : (decide (p < v.size) && v[p]? == some x) = false := by
    cases hb : (decide (p < v.size) && v[p]? == some x)
    · rfl
    · exact absurd (hhit.mp hb) hx
  simp only [arrRemove, hp, hmiss, if_false, Bool.false_eq_true]

theorem arrRemove_hit (v : Array Nat) (x : Nat) (hs : Sorted v) (hx : x ∈ v.toList) :
    ∃ v', arrRemove v x = some (v', true) ∧ Sorted v' ∧ v'.size + 1 = v.size ∧
      ∀ y, y ∈ v'.toList ↔ (y ≠ x ∧ y ∈ v.toList) := by
  obtain ⟨p, hp, hlb⟩ := search_spec v x hs
  have hhit := (lowerBound_hit_iff hs hlb).mpr hx
  simp only [arrRemove, hp, hhit, if_true]
  simp only [Bool.and_eq_true, decide_eq_true_eq, beq_iff_eq] at hhit
  obtain ⟨hpsz, hpx⟩ := hhit
  have hpl : p < v.toList.length := by simpa using hpsz
  have hpx' : v.toList[p] = x := by
    have := Array.getElem?_eq_some_iff.mp hpx
    obtain ⟨_, h⟩ := this
    simpa using h
  have hsplit : v.toList = v.toList.take p ++ x :: v.toList.drop (p + 1) := by
    conv => lhs; rw [← List.take_append_drop p v.toList, List.drop_eq_getElem_cons hpl, hpx']
  have hs' : (v.toList.take p ++ x :: v.toList.drop (p + 1)).Pairwise (· < ·) := by
    rw [← hsplit]; exact hs
  rw [List.pairwise_append, List.pairwise_cons] at hs'
  obtain ⟨h1, ⟨h2, h3⟩, h4⟩ := hs'
  refine ⟨_, rfl, ?_, ?_, ?_⟩
  · unfold Sorted
    rw [toList_removeAt v p hpsz, List.pairwise_append]
    exact ⟨h1, h3, fun a ha b hb => h4 a ha b (List.mem_cons_of_mem _ hb)⟩
  · simp only [Array.size_append, Array.size_extract]
    simp; omega
  · intro y
    rw [toList_removeAt v p hpsz]
    conv => rhs; rw [hsplit]
    simp only [List.mem_append, List.mem_cons]
    have hxa : ∀ a ∈ v.toList.take p, a ≠ x := fun a ha => Nat.ne_of_lt (h4 a ha x (List.mem_cons_self))
    have hxb : ∀ a ∈ v.toList.drop (p + 1), a ≠ x := fun a ha => Nat.ne_of_gt (h2 a ha)
    grind

/-! ### the conversion branch -/

theorem wordsBit_zero (k n : Nat) : wordsBit (Array.replicate k 0#64) n = false := by
  unfold wordsBit
  rw [Array.getElem?_replicate]
  split
  · rename_i v h
    split at h
    · cases h; exact bitSet_zero _
    · cases h
  · rfl

theorem addAllRaw_spec : ∀ (l : List Nat) (w : Array Word), w.size = 1024 → (∀ y ∈ l, y < 65536) →
    ∃ w', addAllRaw l w = some w' ∧ w'.size = 1024 ∧
      ∀ n, wordsBit w' n = (decide (n ∈ l) || wordsBit w n) := by
  intro l
  induction l with
  | nil => intro w hw _; exact ⟨w, rfl, hw, by simp⟩
  | cons a l ih =>
    intro w hw hl
    have ha : a < 65536 := hl a List.mem_cons_self
    obtain ⟨w1, h1, hsz1, hb1⟩ := bitmapAddRaw_spec w a (by omega)
    obtain ⟨w2, h2, hsz2, hb2⟩ := ih w1 (by omega) (fun y hy => hl y (List.mem_cons_of_mem _ hy))
    refine ⟨w2, by simp only [addAllRaw, h1, h2], hsz2, ?_⟩
    intro n
    rw [hb2, hb1]
    simp only [List.mem_cons, Bool.decide_or]
    cases decide (n ∈ l) <;> cases decide (n = a) <;> simp

theorem arrAdd_convert (v : Array Nat) (x : Nat) (hs : Sorted v) (hb : ∀ y ∈ v.toList, y < 65536)
    (hsz : v.size = threshold) (hx65 : x < 65536) (hx : x ∉ v.toList) :
    ∃ w, arrAdd v x = some (v, .bmp 4097 w, true) ∧ w.size = 1024 ∧
      ∀ n, wordsBit w n = (decide (n = x) || decide (n ∈ v.toList)) := by
  obtain ⟨p, hp, hlb⟩ := search_spec v x hs
  have hhit := lowerBound_hit_iff hs hlb
  have hmiss : (decide (p < v.size) && v[p]? == some x) = false := by
    cases hb : (decide (p < v.size) && v[p]? == some x)
    · rfl
    · exact absurd (hhit.mp hb) hx
  have hnlt : ¬ v.size < threshold := by omega
  have hbuf : (v.extract 0 threshold).toList = v.toList := by
    rw [← hsz]; simp
  obtain ⟨w1, h1, hsz1, hb1⟩ := addAllRaw_spec v.toList (Array.replicate 1024 0#64) (by simp) hb
  obtain ⟨w2, h2, hsz2, hb2⟩ := bitmapAddRaw_spec w1 x (by omega)
  refine ⟨w2, ?_, by omega, ?_⟩
  · simp only [arrAdd, hp, hmiss, hnlt, if_false, Bool.false_eq_true, hbuf, h1, h2]
  · intro n
    rw [hb2, hb1, wordsBit_zero]
    simp

end Golib.C03
