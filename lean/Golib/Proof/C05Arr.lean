/-
The array-backed trie model (`Golib/Model/C05Arr.lean`) computes what the pointer-level List
model (`Golib/Model/C05Ptr.lean`) computes.
-/
import Golib.Model.C05Arr

namespace Golib.C05
open Golib

theorem ATrie.toP_get (a : ATrie) (i : Nat) : a.toP.nodes[i]? = a.nodes[i]? := by
  simp only [ATrie.toP, Array.getElem?_toList]

theorem ATrie.toP_len (a : ATrie) : a.toP.nodes.length = a.nodes.size := by
  simp only [ATrie.toP, Array.length_toList]

/-! ### read-only walks -/

theorem aFailWalk_toP (a : ATrie) (v : Int) (fuel : Nat) (m : Option Nat) :
    aFailWalk a v fuel m = pFailWalk a.toP v fuel m := by
  induction fuel generalizing m with
  | zero => simp only [aFailWalk, pFailWalk]
  | succ n ih =>
    cases m with
    | none => simp only [aFailWalk, pFailWalk]
    | some m => simp only [aFailWalk, pFailWalk, ATrie.toP_get, ih]; rfl

theorem aFallLoop_toP (a : ATrie) (v : Int) (fuel node : Nat) (idx : Option Nat) :
    aFallLoop a v fuel node idx = pFallLoop a.toP v fuel node idx := by
  induction fuel generalizing node idx with
  | zero => simp only [aFallLoop, pFallLoop]
  | succ n ih => simp only [aFallLoop, pFallLoop, ATrie.toP_get, ih]; rfl

theorem aFallback_toP (a : ATrie) (node : Nat) (v : Int) :
    aFallback a node v = pFallback a.toP node v := by
  simp only [aFallback, pFallback, ATrie.toP_get, ATrie.toP_len, aFallLoop_toP]; rfl

theorem aChildAt_toP (a : ATrie) (node idx : Nat) :
    aChildAt a node idx = pChildAt a.toP node idx := by
  simp only [aChildAt, pChildAt, ATrie.toP_get]; rfl

theorem aOutWalk_toP (a : ATrie) (i fuel temp : Nat) :
    aOutWalk a i fuel temp = pOutWalk a.toP i fuel temp := by
  induction fuel generalizing temp with
  | zero => simp only [aOutWalk, pOutWalk]
  | succ n ih => simp only [aOutWalk, pOutWalk, ATrie.toP_get, ih]; rfl

theorem aAnyEndWalk_toP (a : ATrie) (fuel temp : Nat) :
    aAnyEndWalk a fuel temp = pAnyEndWalk a.toP fuel temp := by
  induction fuel generalizing temp with
  | zero => simp only [aAnyEndWalk, pAnyEndWalk]
  | succ n ih => simp only [aAnyEndWalk, pAnyEndWalk, ATrie.toP_get, ih]; rfl

theorem aFindLoop_toP (a : ATrie) (text : List Step) (node i : Nat) (acc : List Scope) :
    aFindLoop a text node i acc = pFindLoop a.toP text node i acc := by
  induction text generalizing node i acc with
  | nil => simp only [aFindLoop, pFindLoop]
  | cons s rest ih =>
    obtain ⟨r, size⟩ := s
    simp only [aFindLoop, pFindLoop, aFallback_toP, aChildAt_toP, aOutWalk_toP, ATrie.toP_len, ih]; rfl

theorem aMatchLoop_toP (a : ATrie) (text : List Step) (node : Nat) :
    aMatchLoop a text node = pMatchLoop a.toP text node := by
  induction text generalizing node with
  | nil => simp only [aMatchLoop, pMatchLoop]
  | cons s rest ih =>
    obtain ⟨r, size⟩ := s
    simp only [aMatchLoop, pMatchLoop, aFallback_toP, aChildAt_toP, aAnyEndWalk_toP, ATrie.toP_len, ih]; rfl

theorem afind_toP (a : ATrie) (text : List Nat) : a.find text = a.toP.find text := by
  simp only [ATrie.find, PTrie.find, aFindLoop_toP]

theorem amatch_toP (a : ATrie) (text : List Nat) : a.match text = a.toP.match text := by
  simp only [ATrie.match, PTrie.match, aMatchLoop_toP]

theorem afindAll_toP (a : ATrie) (text : List Nat) : a.findAll text = a.toP.findAll text := by
  simp only [ATrie.findAll, PTrie.findAll, afind_toP]; rfl

/-! ### Insert -/

theorem ATrie.toP_set (nodes : Array PNode) (n : Nat) (x : PNode) :
    (ATrie.mk (nodes.setIfInBounds n x)).toP = ⟨(ATrie.mk nodes).toP.nodes.set n x⟩ := by
  simp only [ATrie.toP, Array.toList_setIfInBounds]

theorem ATrie.toP_set_push (nodes : Array PNode) (n : Nat) (x y : PNode) :
    (ATrie.mk ((nodes.setIfInBounds n x).push y)).toP = ⟨(ATrie.mk nodes).toP.nodes.set n x ++ [y]⟩ := by
  simp only [ATrie.toP, Array.toList_push, Array.toList_setIfInBounds]

theorem aInsertLoop_toP (a : ATrie) (p : List Step) (node i : Nat) :
    (aInsertLoop a p node i).map (fun x => (x.1.toP, x.2)) = pInsertLoop a.toP p node i := by
  induction p generalizing a node i with
  | nil => simp only [aInsertLoop, pInsertLoop, Option.map_some]
  | cons s rest ih =>
    obtain ⟨r, size⟩ := s
    obtain ⟨nodes⟩ := a
    simp only [aInsertLoop, pInsertLoop, ATrie.toP_get, ATrie.toP_len]
    cases h1 : nodes[node]? with
    | none => rfl
    | some nd =>
      simp only []
      cases h2 : findChildIndex nd.vals r with
      | none => rfl
      | some idx =>
        simp only []
        by_cases h3 : idx ≥ nd.children.length
        · simp only [if_pos h3]
          rw [ih, ATrie.toP_set_push]
        · simp only [if_neg h3]
          cases h4 : nd.children[idx]? with
          | none => rfl
          | some vc =>
            obtain ⟨v, c⟩ := vc
            simp only []
            by_cases h5 : v ≠ r
            · simp only [if_pos h5]
              rw [ih, ATrie.toP_set_push]
            · simp only [if_neg h5]
              rw [ih]

theorem ainsert_toP (a : ATrie) (p : List Step) : (a.insert p).map ATrie.toP = a.toP.insert p := by
  unfold ATrie.insert PTrie.insert
  by_cases hp : p.isEmpty
  · simp only [if_pos hp, Option.map_some]
  · simp only [if_neg hp, ← aInsertLoop_toP]
    cases h1 : aInsertLoop a p 0 0 with
    | none => rfl
    | some x =>
      obtain ⟨a', node⟩ := x
      obtain ⟨nodes⟩ := a'
      simp only [Option.map_some, ATrie.toP_get]
      cases h2 : nodes[node]? with
      | none => rfl
      | some nd => simp only [Option.map_some, ATrie.toP_set]

theorem ainsertAll_toP (a : ATrie) (pats : List (List Nat)) :
    (a.insertAll pats).map ATrie.toP = a.toP.insertAll pats := by
  induction pats generalizing a with
  | nil => simp only [ATrie.insertAll, PTrie.insertAll, Option.map_some]
  | cons p ps ih =>
    simp only [ATrie.insertAll, PTrie.insertAll, ← ainsert_toP]
    cases h : a.insert (decodeAll p) with
    | none => rfl
    | some a' => simp only [Option.bind_some, Option.map_some, ih]

/-! ### trieNodeQueue -/

/-- The List-queue content of an array of slots. -/
def qL (arr : Array Nat) : List Label := arr.toList.map slotLabel

theorem AQueue.toQ_eq (nodes : Array Nat) (h t c : Nat) :
    (AQueue.mk nodes h t c).toQ = ⟨qL nodes, h, t, c⟩ := rfl

theorem qL_length (arr : Array Nat) : (qL arr).length = arr.size := by
  simp only [qL, List.length_map, Array.length_toList]

theorem qL_extract (arr : Array Nat) (lo hi : Nat) :
    qL (arr.extract lo hi) = ((qL arr).take hi).drop lo := by
  simp only [qL, Array.toList_extract, List.extract_eq_take_drop, List.drop_take, List.map_take,
    List.map_drop]

theorem qL_append (x y : Array Nat) : qL (x ++ y) = qL x ++ qL y := by
  simp only [qL, Array.toList_append, List.map_append]

theorem qL_replicate (n : Nat) : qL (Array.replicate n 0) = List.replicate n [] := by
  simp only [qL, Array.toList_replicate, List.map_replicate, slotLabel]

theorem qL_set (arr : Array Nat) (i id : Nat) :
    qL (arr.setIfInBounds i (id + 1)) = (qL arr).set i (ptrLabel id) := by
  simp only [qL, Array.toList_setIfInBounds, List.map_set, slotLabel]

theorem qL_get (arr : Array Nat) (i : Nat) : (qL arr)[i]? = arr[i]?.map slotLabel := by
  simp only [qL, List.getElem?_map, Array.getElem?_toList]

theorem slice_qL (l : Array Nat) (lo hi : Nat) :
    slice? (qL l) lo hi = (aslice? l lo hi).map qL := by
  unfold slice? aslice?
  rw [qL_length]
  by_cases h : lo ≤ hi ∧ hi ≤ l.size
  · simp only [if_pos h, Option.map_some, qL_extract]
  · simp only [if_neg h, Option.map_none]

theorem copyInto_qL (d s : Array Nat) :
    copyInto (qL d) (qL s) = (qL (acopyInto d s).1, (acopyInto d s).2) := by
  unfold copyInto acopyInto
  simp only [qL_length, qL_append, qL_extract, List.drop_zero]
  rw [List.take_of_length_le (l := qL d) (by rw [qL_length]; exact Nat.le_refl _)]

theorem copyInto_qL_fst (d s : Array Nat) :
    (copyInto (qL d) (qL s)).1 = qL (acopyInto d s).1 := by
  rw [copyInto_qL]

theorem qL_extract_to (X : Array Nat) (n : Nat) : qL (X.extract 0 n) = (qL X).take n := by
  rw [qL_extract, List.drop_zero]

theorem qL_extract_from (X : Array Nat) (n : Nat) : qL (X.extract n X.size) = (qL X).drop n := by
  rw [qL_extract, List.take_of_length_le (by rw [qL_length]; exact Nat.le_refl _)]

theorem AQueue.isEmpty_toQ (q : AQueue) : q.toQ.isEmpty = q.isEmpty := rfl
theorem AQueue.isFull_toQ (q : AQueue) : q.toQ.isFull = q.isFull := rfl

theorem AQueue.init_toQ (cap : Nat) : (AQueue.init cap).toQ = Queue.init cap := by
  simp only [AQueue.init, Queue.init, AQueue.toQ_eq, qL_replicate]

theorem AQueue.pop_toQ (q : AQueue) :
    q.toQ.pop = q.pop.map fun x => (slotLabel x.1, x.2.toQ) := by
  obtain ⟨nodes, head, tail, cap⟩ := q
  unfold Queue.pop AQueue.pop
  simp only [Queue.isEmpty, AQueue.isEmpty, AQueue.toQ_eq, qL_get]
  by_cases h1 : (head == tail) = true
  · simp only [if_pos h1, Option.map_none]
  · simp only [if_neg h1]
    by_cases h2 : cap = 0
    · simp only [if_pos h2, Option.map_none]
    · simp only [if_neg h2]
      cases nodes[head % cap]? with
      | none => rfl
      | some n => rfl

theorem AQueue.toQ_nodes (q : AQueue) : q.toQ.nodes = qL q.nodes := rfl
theorem AQueue.toQ_head (q : AQueue) : q.toQ.head = q.head := rfl
theorem AQueue.toQ_tail (q : AQueue) : q.toQ.tail = q.tail := rfl
theorem AQueue.toQ_cap (q : AQueue) : q.toQ.cap = q.cap := rfl

/-- the growth step of `Queue.push`, verbatim -/
def Queue.growL (q : Queue) : Option Queue :=
  if q.cap = 0 then none   -- integer divide by zero
  else
    let tailPos := (q.tail - 1) % q.cap
    let headPos := q.head % q.cap
    let cap' := q.cap * 2
    let newNodes : List Label := List.replicate cap' []
    let copied : Option (List Label) :=
      if tailPos > headPos then
        (slice? q.nodes headPos (tailPos + 1)).map fun s => (copyInto newNodes s).1
      else
        match slice? q.nodes headPos q.nodes.length, slice? q.nodes 0 (tailPos + 1) with
        | some s1, some s2 =>
          let (nv, n) := copyInto newNodes s1
          some (nv.take n ++ (copyInto (nv.drop n) s2).1)
        | _, _ => none
    copied.map fun nv => { nodes := nv, head := 0, tail := q.tail - q.head, cap := cap' }

/-- the store step of `Queue.push`, verbatim -/
def Queue.putL (q1 : Queue) (node : Label) : Option Queue :=
  if q1.cap = 0 then none
  else (set? q1.nodes (q1.tail % q1.cap) node).map fun nv => { q1 with nodes := nv, tail := q1.tail + 1 }

theorem Queue.push_eq_growL_putL (q : Queue) (x : Label) :
    q.push x =
      match (if q.isFull then q.growL else some q) with
      | none => none
      | some q1 => q1.putL x := rfl

def AQueue.put (q1 : AQueue) (id : Nat) : Option AQueue :=
  if q1.cap = 0 then none
  else if q1.tail % q1.cap < q1.nodes.size then
    some ⟨q1.nodes.setIfInBounds (q1.tail % q1.cap) (id + 1), q1.head, q1.tail + 1, q1.cap⟩
  else none

theorem AQueue.push_eq_grow_put (q : AQueue) (id : Nat) :
    q.push id =
      match (if q.isFull then q.grow else some q) with
      | none => none
      | some q1 => q1.put id := by
  unfold AQueue.push
  cases (if q.isFull then q.grow else some q) with
  | none => rfl
  | some q1 => rfl

theorem AQueue.put_toQ (q : AQueue) (id : Nat) :
    q.toQ.putL (ptrLabel id) = (q.put id).map AQueue.toQ := by
  unfold Queue.putL AQueue.put
  simp only [AQueue.toQ_cap, AQueue.toQ_tail, AQueue.toQ_nodes, AQueue.toQ_head, set?, qL_length]
  by_cases hc : q.cap = 0
  · simp only [if_pos hc, Option.map_none]
  · simp only [if_neg hc]
    by_cases hl : q.tail % q.cap < q.nodes.size
    · simp only [if_pos hl, Option.map_some, AQueue.toQ_eq, qL_set]
    · simp only [if_neg hl, Option.map_none]

theorem AQueue.grow_toQ (q : AQueue) : q.toQ.growL = q.grow.map AQueue.toQ := by
  unfold Queue.growL AQueue.grow
  simp only [AQueue.toQ_cap, AQueue.toQ_tail, AQueue.toQ_nodes, AQueue.toQ_head, qL_length]
  by_cases hc : q.cap = 0
  · simp only [if_pos hc, Option.map_none]
  · simp only [if_neg hc]
    by_cases ht : (q.tail - 1) % q.cap > q.head % q.cap
    · simp only [if_pos ht, slice_qL, ← qL_replicate]
      cases aslice? q.nodes (q.head % q.cap) ((q.tail - 1) % q.cap + 1) with
      | none => rfl
      | some s => simp only [Option.map_some, copyInto_qL, AQueue.toQ_eq]
    · simp only [if_neg ht, slice_qL, ← qL_replicate]
      cases aslice? q.nodes (q.head % q.cap) q.nodes.size with
      | none => rfl
      | some s1 =>
        cases aslice? q.nodes 0 ((q.tail - 1) % q.cap + 1) with
        | none => rfl
        | some s2 =>
          simp only [Option.map_some, copyInto_qL, AQueue.toQ_eq]
          generalize (acopyInto (Array.replicate (q.cap * 2) 0) s1).fst = X
          generalize (acopyInto (Array.replicate (q.cap * 2) 0) s1).snd = n
          rw [qL_append, qL_extract_to, ← copyInto_qL_fst, qL_extract_from]

theorem AQueue.push_toQ (q : AQueue) (id : Nat) :
    q.toQ.push (ptrLabel id) = (q.push id).map AQueue.toQ := by
  rw [Queue.push_eq_growL_putL, AQueue.push_eq_grow_put, AQueue.isFull_toQ]
  by_cases hf : q.isFull = true
  · simp only [if_pos hf, AQueue.grow_toQ]
    cases q.grow with
    | none => rfl
    | some q1 => exact AQueue.put_toQ q1 id
  · simp only [if_neg hf]
    exact AQueue.put_toQ q id

/-! ### BuildFailureLinks -/

theorem ABState.toP_eq (q : AQueue) (a : ATrie) : (ABState.mk q a).toP = ⟨q.toQ, a.toP⟩ := rfl

theorem aSeedRoot_toP (cs : List (Int × Nat)) (s : ABState) :
    (aSeedRoot cs s).map ABState.toP = pSeedRoot cs s.toP := by
  induction cs generalizing s with
  | nil => simp only [aSeedRoot, pSeedRoot, Option.map_some]
  | cons rc rest ih =>
    obtain ⟨r, c⟩ := rc
    obtain ⟨q, ⟨nodes⟩⟩ := s
    simp only [aSeedRoot, pSeedRoot, ABState.toP_eq, ATrie.toP_get, AQueue.push_toQ]
    cases nodes[c]? with
    | none => rfl
    | some cd =>
      simp only []
      cases q.push c with
      | none => rfl
      | some q' =>
        simp only [Option.map_some]
        rw [ih, ABState.toP_eq, ATrie.toP_set]

theorem aProcessChildren_toP (curr : Nat) (cs : List (Int × Nat)) (s : ABState) :
    (aProcessChildren curr cs s).map ABState.toP = pProcessChildren curr cs s.toP := by
  induction cs generalizing s with
  | nil => simp only [aProcessChildren, pProcessChildren, Option.map_some]
  | cons rc rest ih =>
    obtain ⟨r, c⟩ := rc
    obtain ⟨q, ⟨nodes⟩⟩ := s
    simp only [aProcessChildren, pProcessChildren, ABState.toP_eq, ATrie.toP_get, ATrie.toP_len,
      AQueue.push_toQ, aFailWalk_toP]
    cases nodes[curr]? with
    | none => rfl
    | some cn =>
      simp only []
      cases pFailWalk (ATrie.mk nodes).toP r (nodes.size + 2) cn.fail with
      | none => rfl
      | some w =>
        have tail : ∀ target : Nat,
            Option.map ABState.toP
              (match some target, nodes[c]? with
              | some target, some cd =>
                match q.push c with
                | none => none
                | some q' =>
                  aProcessChildren curr rest
                    { q := q', a := ⟨nodes.setIfInBounds c { cd with fail := some target }⟩ }
              | _, _ => none) =
            (match some target, nodes[c]? with
              | some target, some cd =>
                match Option.map AQueue.toQ (q.push c) with
                | none => none
                | some q' =>
                  pProcessChildren curr rest
                    { q := q', pt := ⟨(ATrie.mk nodes).toP.nodes.set c { cd with fail := some target }⟩ }
              | _, _ => none) := by
          intro target
          cases nodes[c]? with
          | none => rfl
          | some cd =>
            simp only []
            cases q.push c with
            | none => rfl
            | some q' =>
              simp only [Option.map_some]
              rw [ih, ABState.toP_eq, ATrie.toP_set]
        cases w with
        | none => exact tail 0
        | some mi =>
          obtain ⟨m, idx⟩ := mi
          simp only []
          cases nodes[m]? with
          | none => rfl
          | some mn =>
            simp only []
            cases mn.children[idx]? with
            | none => rfl
            | some vc => exact tail vc.2

theorem labelPtr_slot_zero : labelPtr (slotLabel 0) = none := rfl

theorem labelPtr_slot_succ (id : Nat) : labelPtr (slotLabel (id + 1)) = some id := by
  simp only [slotLabel, ptrLabel, labelPtr, Int.toNat_natCast]

theorem aBfsLoop_toP (fuel : Nat) (s : ABState) :
    (aBfsLoop fuel s).map ABState.toP = pBfsLoop fuel s.toP := by
  induction fuel generalizing s with
  | zero => simp only [aBfsLoop, pBfsLoop, Option.map_none]
  | succ n ih =>
    obtain ⟨q, ⟨nodes⟩⟩ := s
    simp only [aBfsLoop, pBfsLoop, ABState.toP_eq, AQueue.isEmpty_toQ, AQueue.pop_toQ, ATrie.toP_get]
    by_cases he : q.isEmpty = true
    · simp only [if_pos he, Option.map_some, ABState.toP_eq]
    · simp only [if_neg he]
      cases q.pop with
      | none => rfl
      | some vq =>
        obtain ⟨v, q'⟩ := vq
        cases v with
        | zero => rfl
        | succ curr =>
          simp only [Option.map_some, labelPtr_slot_succ]
          cases nodes[curr]? with
          | none => rfl
          | some cn =>
            simp only []
            rw [← ABState.toP_eq, ← aProcessChildren_toP]
            cases aProcessChildren curr cn.children ⟨q', ⟨nodes⟩⟩ with
            | none => rfl
            | some s' => exact ih s'

theorem abuild_toP (a : ATrie) : a.build.map ATrie.toP = a.toP.build := by
  unfold ATrie.build PTrie.build
  simp only [ATrie.toP_get, ATrie.toP_len]
  cases a.nodes[0]? with
  | none => rfl
  | some root =>
    simp only [← AQueue.init_toQ, ← ABState.toP_eq, ← aSeedRoot_toP]
    cases aSeedRoot root.children ⟨AQueue.init 10, a⟩ with
    | none => rfl
    | some s0 =>
      simp only [Option.map_some, ← aBfsLoop_toP, Option.map_map]
      rfl

theorem aofPatterns_toP (pats : List (List Nat)) :
    (ATrie.ofPatterns pats).map ATrie.toP = PTrie.ofPatterns pats := by
  unfold ATrie.ofPatterns PTrie.ofPatterns
  have h := ainsertAll_toP ATrie.empty pats
  have he : ATrie.empty.toP = PTrie.empty := rfl
  rw [he] at h
  rw [← h]
  cases ATrie.empty.insertAll pats with
  | none => rfl
  | some a => simp only [Option.bind_some, Option.map_some, abuild_toP]

end Golib.C05
