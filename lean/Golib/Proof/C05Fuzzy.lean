/-
C05: what `FuzzySearch(key)` returns, as a function (`fuzzySpec`), for a non-empty key:
nothing if some rune of the key is not the first rune of a pattern (the walk gives up as soon as
a rune has no transition even from the root); otherwise, for every non-empty suffix `n` of the
key's runes that is a trie node, longest first (the failure chain of the automaton state): the
pattern `n` itself if it is one, then the patterns strictly below `n` in the order of the
explicit-stack DFS (last child first).  A pattern below several chain nodes is listed once per
chain node.
-/
import Golib.Proof.C05Search

set_option linter.unusedSimpArgs false
set_option linter.unusedVariables false

namespace Golib.C05
open Golib

/-- `dfsLoop_spec` with the visiting order made explicit (`below`). -/
theorem dfsLoop_eq (t : Trie) (w : Int → Int) (enc : Int → List Nat)
    (hw : ∀ p ∈ t.pats, ∀ st ∈ p, w st.1 = ((enc st.1).length : Int))
    (n : Label) (hn : IsNode t.pats n) (cs : List Int) (hcs : t.children n = some cs)
    (B : List Nat) (ret : List (List Nat)) :
    dfsLoop t w enc (nodeBound t.pats + 1) (pushFrames n 0 cs []) B ret
      = some (ret ++ ((below t.pats (nodeBound t.pats) n).filter (isEnd t.pats)).map
          (fun m => B ++ (m.drop n.length).flatMap enc)) := by
  have hD : ∀ m, IsNode t.pats m → m.length ≤ nodeBound t.pats := fun m h => isNode_length_le h
  have hc : childrenOf t.pats n = some cs := hcs
  have hnodes := pushFrames_nodes (0 : Int) [] hc
  simp only [List.map_nil, List.append_nil] at hnodes
  have hd0 : (0 : Int) = ((encRel enc n n).length : Int) := by simp [encRel_self]
  have hkids : ∀ r ∈ cs, IsNode t.pats (n ++ [r]) := fun r hr => (mem_children_iff hc r).1 hr
  have hinv : Inv t.pats enc n B (pushFrames n 0 cs []) B := by
    rcases List.eq_nil_or_concat cs with h | ⟨cs0, cl, h⟩
    · subst h; simp [pushFrames, Inv]
    · rw [List.concat_eq_append] at h
      subst h
      rw [pushFrames_concat]
      refine ⟨n, ⟨rfl, List.prefix_refl _, hkids cl (by simp), hd0⟩, by simp [encRel_self], ?_⟩
      exact chain_push (List.prefix_refl _) hd0 cs0 [] (fun r hr => hkids r (by simp [hr])) trivial
  have hlen := below_length hD hn
  have h := dfsLoop_sub t w enc hw n B hD (nodeBound t.pats + 1) _ B ret hinv
    (by rw [hnodes]; unfold below at hlen; omega)
  rw [h, hnodes]
  rfl

/-- The non-root nodes on the failure chain of `n`: `n`, `lps n`, … (at most `fuel` of them). -/
def chainOf (ps : List (List Step)) : Nat → Label → List Label
  | 0, _ => []
  | fuel + 1, n => if n = [] then [] else n :: chainOf ps fuel (lps ps n)

/-- What the outer loop of `FuzzySearch` reports at chain node `n`. -/
def fuzzyBelow (ps : List (List Step)) (n : Label) : List (List Nat) :=
  (if isEnd ps n then [encodeLabel n] else []) ++
    ((below ps (nodeBound ps) n).filter (isEnd ps)).map encodeLabel

/-- The key walk survives: after every rune read, some non-empty suffix of what has been
read is a trie node (otherwise `FuzzySearch` returns nil at that rune). -/
def alive (ps : List (List Step)) : Label → Label → Bool
  | _, [] => true
  | seen, r :: rest => (lns ps (seen ++ [r]) != []) && alive ps (seen ++ [r]) rest

/-- Specification of `FuzzySearch` for a key with rune sequence `k ≠ []`. -/
def fuzzySpec (ps : List (List Step)) (k : Label) : List (List Nat) :=
  if alive ps [] k then
    (chainOf ps ((lns ps k).length + 1) (lns ps k)).flatMap (fuzzyBelow ps)
  else []

theorem fuzzyOuter_spec (pats : List (List Nat)) (hp : ∀ p ∈ pats, Bytes p) (key : List Nat)
    (hk : Bytes key) (t : Trie) (h2 : t.pats = decodedPats pats) (hF : FailOK t) :
    ∀ (fuel : Nat) (node : Label) (ret : List (List Nat)), node.length < fuel → IsNode t.pats node →
      node <:+ lab (decodeAll key) →
      fuzzyOuter t runeWidth writeRune key fuel node ret
        = some (ret ++ (chainOf t.pats fuel node).flatMap (fuzzyBelow t.pats)) := by
  intro fuel
  induction fuel with
  | zero => intro node _ h; omega
  | succ fuel ih =>
    intro node ret hlen hnode hsuf
    by_cases hroot : node = []
    · subst hroot
      simp [fuzzyOuter, chainOf]
    · have hwf : ∀ p ∈ t.pats, StepsWF p := by rw [h2]; exact decodedPats_wf pats hp
      have hw' : ∀ p ∈ t.pats, ∀ st ∈ p, runeWidth st.1 = ((writeRune st.1).length : Int) := by
        rw [h2]; exact decodedPats_runeWidth pats hp
      obtain ⟨cs, hcs⟩ := children_exists t.pats node
      have hcs' : t.children node = some cs := hcs
      have hslice := key_suffix t.pats hwf key hk node hnode hroot hsuf
      have hD : ∀ m, IsNode t.pats m → m.length ≤ nodeBound t.pats := fun m h => isNode_length_le h
      have hdfs := dfsLoop_eq t runeWidth writeRune hw' node hnode cs hcs' (encodeLabel node)
        (if isEnd t.pats node = true then ret ++ [encodeLabel node] else ret)
      have hmap : ((below t.pats (nodeBound t.pats) node).filter (isEnd t.pats)).map
            (fun m => encodeLabel node ++ (m.drop node.length).flatMap writeRune)
          = ((below t.pats (nodeBound t.pats) node).filter (isEnd t.pats)).map encodeLabel := by
        apply List.map_congr_left
        intro m hm
        have hm' := (List.mem_filter.1 hm).1
        exact encode_rel (((below_spec hD hnode).2 m).1 hm').2.1
      rw [hmap] at hdfs
      have hfail := hF node hnode hroot
      have hrec := ih (lps t.pats node)
        ((if isEnd t.pats node = true then ret ++ [encodeLabel node] else ret) ++
          ((below t.pats (nodeBound t.pats) node).filter (isEnd t.pats)).map encodeLabel)
        (by have := lps_length_lt t.pats node hroot; omega)
        (lps_isNode _ _) ((lps_suffix _ _).trans hsuf)
      simp only [fuzzyOuter, ne_eq, hroot, not_false_eq_true, if_true, hslice, hcs', hfail, hdfs, hrec,
        chainOf, if_false, List.flatMap_cons, fuzzyBelow]
      congr 1
      split <;> simp [List.append_assoc]

/-- The key walk of `FuzzySearch`, exactly. -/
theorem fuzzyDescend_exact (t : Trie) (hF : FailOK t) : ∀ (steps : List Step) (seen : Label),
    fuzzyDescend t steps (lns t.pats seen) =
      if alive t.pats seen (lab steps) then some (some (lns t.pats (seen ++ lab steps)))
      else some none := by
  intro steps
  induction steps with
  | nil => intro seen; simp [fuzzyDescend, lab, alive]
  | cons st rest ih =>
    intro seen
    obtain ⟨r, sz⟩ := st
    have hstate := lns_snoc t.pats seen r
    have hl : seen ++ lab ((r, sz) :: rest) = (seen ++ [r]) ++ lab rest := by simp [lab]
    have hlab : lab ((r, sz) :: rest) = r :: lab rest := rfl
    rw [hl, hlab]
    simp only [fuzzyDescend, alive]
    rcases fallback_spec t hF (lns t.pats seen) r (lns_isNode _ _) with ⟨m, idx, h1, h2, h3⟩ | ⟨h1, h2⟩
    · rw [← hstate] at h2 h3
      have hne : (lns t.pats (seen ++ [r]) != []) = true := by simpa using h3
      simp only [h1, h2, hne, Bool.true_and]
      exact ih (seen ++ [r])
    · rw [← hstate] at h2
      have hne : (lns t.pats (seen ++ [r]) != []) = false := by simp [h2]
      simp only [h1, hne, Bool.false_and]
      rfl

theorem chainOf_nil (ps : List (List Step)) : ∀ fuel, chainOf ps fuel [] = []
  | 0 => rfl
  | _ + 1 => by simp [chainOf]

theorem alive_last (ps : List (List Step)) : ∀ (rest seen : Label), alive ps seen rest = true →
    rest ≠ [] → lns ps (seen ++ rest) ≠ [] := by
  intro rest
  induction rest with
  | nil => intro _ _ h; exact absurd rfl h
  | cons r rest ih =>
    intro seen ha _
    simp only [alive, Bool.and_eq_true, bne_iff_ne, ne_eq] at ha
    cases rest with
    | nil => simpa using ha.1
    | cons r2 rest2 =>
      have := ih (seen ++ [r]) ha.2 (by simp)
      simpa [List.append_assoc] using this

/-- `FuzzySearch(key)` for a non-empty key on a built trie: never panics and returns exactly
`fuzzySpec` (order and multiplicities included). -/
theorem fuzzySearch_spec (pats : List (List Nat)) (hp : ∀ p ∈ pats, Bytes p) (key : List Nat)
    (hk : Bytes key) (hne : key ≠ []) (t : Trie) (hbuilt : Trie.ofPatterns pats = some t) :
    t.fuzzySearch key = some (fuzzySpec t.pats (lab (decodeAll key))) := by
  have hempty : key.isEmpty = false := by cases key <;> simp_all
  obtain ⟨t', h1, h2, h3⟩ := ofPatterns_spec pats
  rw [hbuilt] at h1; cases h1
  have hwf : ∀ p ∈ t.pats, StepsWF p := by rw [h2]; exact decodedPats_wf pats hp
  have hkne : lab (decodeAll key) ≠ [] := by
    intro h
    have : decodeAll key = [] := by simpa [lab] using h
    exact hne ((decodeAll_eq_nil_iff key).1 this)
  simp only [Trie.fuzzySearch, fuzzySearchWith, hempty, Bool.false_eq_true, if_false]
  have hdesc := fuzzyDescend_exact t h3 (decodeAll key) []
  simp only [lns, List.nil_append] at hdesc
  have hdesc' : fuzzyDescend t (decodeAllWith decodeStep key) [] = _ := hdesc
  rw [hdesc']
  unfold fuzzySpec
  cases ha : alive t.pats [] (lab (decodeAll key)) with
  | false => simp
  | true =>
    simp only [if_true]
    generalize hnd : lns t.pats (lab (decodeAll key)) = node
    have hnode : IsNode t.pats node := hnd ▸ lns_isNode _ _
    have hsuf : node <:+ lab (decodeAll key) := hnd ▸ lns_suffix _ _
    have hroot : node ≠ [] := by
      have := alive_last t.pats (lab (decodeAll key)) [] ha hkne
      rw [List.nil_append, hnd] at this; exact this
    obtain ⟨cs, hcs⟩ := children_exists t.pats node
    have hcs' : t.children node = some cs := hcs
    simp only [hcs']
    by_cases hearly : cs.isEmpty = true ∧ t.failOf node = some []
    · simp only [hearly, and_self, if_true]
      have hlps : lps t.pats node = [] := by
        have := h3 node hnode hroot
        rw [hearly.2] at this; exact (Option.some.inj this).symm
      have hcsnil : cs = [] := by cases cs <;> simp_all
      have hbelow : below t.pats (nodeBound t.pats) node = [] := by
        simp [below, dkids, hcs, hcsnil]
      have hchain : chainOf t.pats (node.length + 1) node = [node] := by
        simp [chainOf, hroot, hlps, chainOf_nil]
      rw [hchain]
      simp only [List.flatMap_cons, List.flatMap_nil, List.append_nil, fuzzyBelow, hbelow,
        List.filter_nil, List.map_nil]
      by_cases he : isEnd t.pats node = true
      · simp only [he, if_true]
        rw [key_suffix t.pats hwf key hk node hnode hroot hsuf]
        rfl
      · simp only [he]
        rfl
    · simp only [hearly, if_false]
      have := fuzzyOuter_spec pats hp key hk t h2 h3 (node.length + 1) node [] (by omega) hnode hsuf
      simpa using this

end Golib.C05
