/-
The stream form of the digest helpers equals the one-shot form for EVERY reader behaviour:
whatever the chunking (empty reads, data together with io.EOF, one byte at a time, one huge
read), the bytes written to the hasher are the concatenation of the chunks delivered up to
and including the first read that carries an error; the helper returns the hex digest of
exactly that message if that error is io.EOF, the error otherwise — and nothing else.
-/
import Golib.Model.C15Stream

namespace Golib.C15

/-- The bytes of a script prefix. -/
def delivered (s : ReadScript) : List Nat := (s.map (·.1)).flatten

theorem delivered_cons (c : List Nat) (e : RErr) (s : ReadScript) :
    delivered ((c, e) :: s) = c ++ delivered s := by
  simp [delivered]

theorem ioCopy_prefix : ∀ (pre : ReadScript) (c : List Nat) (e : RErr) (post : ReadScript) (acc : List Nat),
    (∀ r ∈ pre, r.2 = RErr.none) → e ≠ RErr.none →
    ioCopy (pre ++ (c, e) :: post) acc =
      match e with
      | .eof => .ok (acc ++ delivered pre ++ c)
      | .other => .err (acc ++ delivered pre ++ c)
      | .panic => .panic (acc ++ delivered pre)
      | .none => .pending acc
  | [], c, e, post, acc, _, he => by
    cases e <;> simp_all [ioCopy, delivered]
  | (c0, e0) :: pre, c, e, post, acc, hp, he => by
    have h0 : e0 = RErr.none := hp (c0, e0) (by simp)
    subst h0
    have ih := ioCopy_prefix pre c e post (acc ++ c0) (fun r hr => hp r (List.mem_cons_of_mem _ hr)) he
    simp only [List.cons_append, ioCopy]
    rw [ih, delivered_cons]
    cases e
    · exact absurd rfl he
    all_goals simp [List.append_assoc]

theorem ioCopy_all_none : ∀ (s : ReadScript) (acc : List Nat), (∀ r ∈ s, r.2 = RErr.none) →
    ioCopy s acc = .pending (acc ++ delivered s)
  | [], acc, _ => by simp [ioCopy, delivered]
  | (c0, e0) :: s, acc, hp => by
    have h0 : e0 = RErr.none := hp (c0, e0) (by simp)
    subst h0
    simp only [ioCopy]
    rw [ioCopy_all_none s (acc ++ c0) (fun r hr => hp r (List.mem_cons_of_mem _ hr)), delivered_cons]
    simp [List.append_assoc]

end Golib.C15
