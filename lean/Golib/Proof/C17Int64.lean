/-
C17: `Sub` with Go's 64-bit `int`.  The only arithmetic `Sub` performs on its arguments is
the sum in the comparison `start+length == count`.  `sub64` is `sub` with that sum wrapped to
two's complement; for non-negative arguments (and `length = -1`) it is the same function:
a wrapped sum of two non-negative `int`s that overflowed is negative, the exact sum is
≥ 2^63, and `0 ≤ count ≤ len(s) < 2^63` equals neither.
-/
import Golib.Proof.C17Strs
import Golib.Findings.C17

namespace Golib.C17
open Golib.Utf8 Golib.C17.Findings

def subLoop64 (s : List Nat) (start length : Int) : Nat → Nat → Nat → Int → Option (List Nat)
  | 0, _, _, _ => none
  | fuel + 1, i, count, begin =>
    if i < s.length then
      if (count : Int) = start then
        if length = -1 then sliceFrom s i
        else
          match advance s i with
          | none => none
          | some i' => subLoop64 s start length fuel i' (count + 1) i
      else if 0 ≤ begin ∧ wrap64 (start + length) = count then sliceI s begin i
      else
        match advance s i with
        | none => none
        | some i' => subLoop64 s start length fuel i' (count + 1) begin
    else if begin < 0 then some []
    else sliceFromI s begin

def sub64 (s : List Nat) (start length : Int) : Option (List Nat) :=
  if start < 0 ∨ length < -1 ∨ s = [] then some s
  else if length = 0 then some []
  else subLoop64 s start length (s.length + 1) 0 0 (-1)

theorem wrap_sum_eq_iff (start length : Int) (count : Nat)
    (hs : 0 ≤ start ∧ start ≤ 9223372036854775807)
    (hl : -1 ≤ length ∧ length ≤ 9223372036854775807)
    (hc : (count : Int) ≤ 9223372036854775807) :
    (wrap64 (start + length) = count) ↔ (start + length = count) := by
  unfold wrap64; omega

theorem subLoop64_eq (s : List Nat) (start length : Int)
    (hlen : (s.length : Int) ≤ 9223372036854775807)
    (hs : 0 ≤ start ∧ start ≤ 9223372036854775807)
    (hl : -1 ≤ length ∧ length ≤ 9223372036854775807) :
    ∀ (fuel i count : Nat) (begin : Int), count ≤ i →
      subLoop64 s start length fuel i count begin = subLoop s start length fuel i count begin := by
  intro fuel
  induction fuel with
  | zero => intro i count begin _; rfl
  | succ f ih =>
    intro i count begin hci
    unfold subLoop64 subLoop
    by_cases hi : i < s.length
    · rw [if_pos hi, if_pos hi]
      obtain ⟨i', ha, hlt, -⟩ := advance_lt s i hi
      have hw := wrap_sum_eq_iff start length count hs hl (by omega)
      simp only [ha, hw]
      rw [ih i' (count + 1) i (by omega), ih i' (count + 1) begin (by omega)]
    · rw [if_neg hi, if_neg hi]

theorem sub64_eq_sub (s : List Nat) (start length : Int)
    (hlen : (s.length : Int) ≤ 9223372036854775807)
    (hs : 0 ≤ start ∧ start ≤ 9223372036854775807)
    (hl : -1 ≤ length ∧ length ≤ 9223372036854775807) :
    sub64 s start length = sub s start length := by
  unfold sub64 sub
  rw [subLoop64_eq s start length hlen hs hl _ 0 0 (-1) (Nat.le_refl _)]

end Golib.C17
