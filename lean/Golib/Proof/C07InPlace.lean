/-
C07: parsing with one memory (`Model/C07InPlace.lean`) returns the bytes of the functional
parser — hence of parsing into a fresh buffer.
-/
import Golib.Model.C07InPlace
import Golib.Proof.C07Round

namespace Golib.C07

/-- What the in-place argument needs from a decision function: a step stays inside the
remaining input and never emits more bytes than it consumes. -/
def DecOk (dec : Bytes → Dec) : Prop :=
  ∀ t : Bytes, t ≠ [] →
    (∀ n, dec t = .skip n → 0 < n → n ≤ t.length) ∧
    (∀ bs n, dec t = .emit bs n → 0 < n → n ≤ t.length ∧ bs.length ≤ n)

/-- Every decision function that is the functional layer of a loop body (`BodySpec`) is `DecOk`. -/
theorem decOk_of_bodySpec {body : Bytes → St → Option Step} {dec : Bytes → Dec}
    (hb : ∀ src n, BodySpec (body src) dec src n) : DecOk dec := by
  intro t ht
  have hpos : 0 < t.length := List.length_pos_iff.mpr ht
  let s0 : St := ⟨List.replicate t.length 0, 0, 0, 0⟩
  have hinv : Inv t t.length s0 := ⟨Nat.le_refl _, Nat.le_refl _, Nat.zero_le _, by simp [s0], Nat.le_refl _⟩
  have h := hb t t.length s0 hinv hpos
  simp only [s0, List.drop_zero] at h
  constructor
  · intro n hd _
    rw [hd] at h
    exact h.2.1 |> fun x => by simpa using x
  · intro bs n hd _
    rw [hd] at h
    obtain ⟨-, hle, s', -, hinv', hi', hv⟩ := h
    refine ⟨by simpa using hle, ?_⟩
    have hlen := congrArg List.length hv
    simp only [virt, List.length_append, List.length_take, List.length_drop, List.take_zero,
      List.drop_zero, List.length_nil] at hlen
    have := hinv'.ef; have := hinv'.fi; have := hinv'.il; have := hinv'.dl
    simp only [Nat.zero_add] at hi'
    omega

structure InvIP (src : Bytes) (k : Nat) (s : IP) : Prop where
  len : s.mem.length = k + src.length
  ef : s.e ≤ k + s.f
  fi : s.f ≤ s.i
  il : s.i ≤ src.length
  tail : s.mem.drop (k + s.f) = src.drop s.f

theorem moveIP_spec {src : Bytes} {k : Nat} {mem : Bytes} {e f i : Nat} (h : InvIP src k ⟨mem, e, f, i⟩) :
    ∃ mem', moveIP k ⟨mem, e, f, i⟩ = ⟨mem', e + (i - f), f, i⟩ ∧
      mem'.take (e + (i - f)) = mem.take e ++ (src.drop f).take (i - f) ∧
      mem'.length = mem.length ∧ mem'.drop (k + i) = mem.drop (k + i) := by
  obtain ⟨hlen, hef, hfi, hil, htail⟩ := h
  simp only [] at hlen hef hfi hil htail
  unfold moveIP
  by_cases hlt : f < i
  · simp only [hlt, if_true, htail]
    have hseg : ((src.drop f).take (i - f)).length = i - f := by
      simp only [List.length_take, List.length_drop]; omega
    refine ⟨_, by rw [hseg], ?_, ?_, ?_⟩
    · apply List.ext_getElem?; intro j
      simp only [List.getElem?_take, List.getElem?_append, List.getElem?_drop, List.length_take,
        List.length_drop, List.length_append]
      grind
    · simp only [List.length_append, List.length_take, List.length_drop]; omega
    · apply List.ext_getElem?; intro j
      simp only [List.getElem?_take, List.getElem?_append, List.getElem?_drop, List.length_take,
        List.length_drop, List.length_append]
      grind
  · simp only [hlt, if_false]
    have h0 : i - f = 0 := by omega
    exact ⟨mem, by simp [h0], by rw [h0]; simp, rfl, rfl⟩

theorem drop_tail {src : Bytes} {k : Nat} {mem : Bytes} {e f i : Nat} (h : InvIP src k ⟨mem, e, f, i⟩) :
    mem.drop (k + i) = src.drop i := by
  obtain ⟨-, -, hfi, -, htail⟩ := h
  simp only [] at hfi htail
  have := congrArg (List.drop (i - f)) htail
  simp only [List.drop_drop] at this
  have e1 : k + f + (i - f) = k + i := by omega
  have e2 : f + (i - f) = i := by omega
  rw [e1, e2] at this
  exact this

/-- The pending literal run followed by the rest, as one suffix of `src`. -/
theorem pending_append (src : Bytes) {f i : Nat} (h : f ≤ i) :
    (src.drop f).take (i - f) ++ src.drop i = src.drop f := by
  apply List.ext_getElem?; intro j
  simp only [List.getElem?_append, List.getElem?_take, List.getElem?_drop, List.length_take,
    List.length_drop]
  grind

theorem pending_extend (src : Bytes) {f i : Nat} (n : Nat) (h : f ≤ i) :
    (src.drop f).take (i + n - f) = (src.drop f).take (i - f) ++ (src.drop i).take n := by
  apply List.ext_getElem?; intro j
  simp only [List.getElem?_append, List.getElem?_take, List.getElem?_drop, List.length_take,
    List.length_drop]
  grind

/-- Final flush of a state whose loop has ended. -/
def finishIP (src : Bytes) (k : Nat) (s : IP) : IP := moveIP k { s with i := src.length }

/-- `out` is what the machine returns from state `s`: `dst[:e]` after the final flush. -/
def Ret (src : Bytes) (k : Nat) (s : IP) (out : Bytes) : Prop :=
  (finishIP src k s).mem.take (finishIP src k s).e = out ∧
  (finishIP src k s).e ≤ (finishIP src k s).mem.length

theorem finishIP_spec {src : Bytes} {k : Nat} {mem : Bytes} {e f i : Nat} (h : InvIP src k ⟨mem, e, f, i⟩) :
    Ret src k ⟨mem, e, f, i⟩ (mem.take e ++ src.drop f) := by
  have h' : InvIP src k ⟨mem, e, f, src.length⟩ :=
    ⟨h.len, h.ef, Nat.le_trans h.fi h.il, Nat.le_refl _, h.tail⟩
  obtain ⟨mem', hm, h1, h2, -⟩ := moveIP_spec h'
  have hlen := h.len; have hef := h.ef; have hfi := h.fi; have hil := h.il
  simp only [] at hlen hef hfi hil
  unfold Ret finishIP
  simp only [hm]
  refine ⟨?_, by omega⟩
  rw [h1]
  congr 1
  apply List.take_of_length_le
  simp only [List.length_drop]; omega

theorem loopIP_spec {dec : Bytes → Dec} (hd : DecOk dec) (src : Bytes) (k : Nat) :
    ∀ (fuel : Nat) (mem : Bytes) (e f i : Nat), InvIP src k ⟨mem, e, f, i⟩ → src.length - i ≤ fuel →
      Ret src k (loopIP dec k fuel ⟨mem, e, f, i⟩)
        (mem.take e ++ (src.drop f).take (i - f) ++ parseFun dec (src.drop i)) := by
  intro fuel
  induction fuel with
  | zero =>
    intro mem e f i h hf
    have hil := h.il; have hfi := h.fi
    simp only [] at hil hfi
    have hi : i = src.length := by omega
    have hnil : src.drop i = [] := by rw [hi]; simp
    simp only [loopIP]
    rw [hnil, parseFun_nil, List.append_nil]
    have := finishIP_spec h
    rw [← pending_append src hfi, hnil, List.append_nil] at this
    exact this
  | succ fu ih =>
    intro mem e f i h hf
    have hil := h.il; have hfi := h.fi; have hef := h.ef; have hlen := h.len
    simp only [] at hil hfi hef hlen
    have htl := drop_tail h
    have hstop : Ret src k ⟨mem, e, f, i⟩ (mem.take e ++ (src.drop f).take (i - f) ++ src.drop i) := by
      rw [List.append_assoc, pending_append src hfi]; exact finishIP_spec h
    simp only [loopIP, htl]
    by_cases hnil : src.drop i = []
    · simp only [hnil, if_true]
      rw [parseFun_nil]; rw [hnil] at hstop; exact hstop
    · simp only [hnil, if_false]
      obtain ⟨hsk, hem⟩ := hd (src.drop i) hnil
      have hdl : (src.drop i).length = src.length - i := List.length_drop
      rw [parseFun]
      simp only [hnil, dite_false]
      cases hdec : dec (src.drop i) with
      | stop => simpa using hstop
      | skip n =>
        simp only []
        by_cases hn : 0 < n
        · simp only [hn, if_true, dite_true]
          have hle := hsk n hdec hn
          have hinv : InvIP src k ⟨mem, e, f, i + n⟩ :=
            ⟨h.len, h.ef, by simp only []; omega, by simp only []; omega, h.tail⟩
          have := ih mem e f (i + n) hinv (by omega)
          rw [pending_extend src n hfi] at this
          simpa [List.append_assoc, List.drop_drop, Nat.add_comm] using this
        · simp only [hn, if_false, dite_false]
          exact hstop
      | emit bs n =>
        simp only []
        by_cases hn : 0 < n
        · simp only [hn, if_true, dite_true]
          obtain ⟨hle, hbl⟩ := hem bs n hdec hn
          obtain ⟨m1, hm, t1, l1, d1⟩ := moveIP_spec h
          simp only [hm, writeIP]
          have hd1 : m1.drop (k + (i + n)) = src.drop (i + n) := by
            have := congrArg (List.drop n) d1
            simp only [List.drop_drop] at this
            rw [← Nat.add_assoc, this, ← List.drop_drop, htl, List.drop_drop]
          have hinv : InvIP src k ⟨m1.take (e + (i - f)) ++ bs ++ m1.drop (e + (i - f) + bs.length),
              e + (i - f) + bs.length, i + n, i + n⟩ := by
            refine ⟨?_, by simp only []; omega, Nat.le_refl _, by simp only []; omega, ?_⟩
            · simp only [List.length_append, List.length_take, List.length_drop, l1]; omega
            · simp only []
              rw [← hd1]
              apply List.ext_getElem?; intro j
              simp only [List.getElem?_take, List.getElem?_append, List.getElem?_drop,
                List.length_take, List.length_append, l1]
              grind
          have := ih _ _ _ _ hinv (by omega)
          simp only [Nat.sub_self, List.take_zero, List.append_nil] at this
          have htk : (m1.take (e + (i - f)) ++ bs ++ m1.drop (e + (i - f) + bs.length)).take
              (e + (i - f) + bs.length) = m1.take (e + (i - f)) ++ bs := by
            have hl : (m1.take (e + (i - f)) ++ bs).length = e + (i - f) + bs.length := by
              simp only [List.length_append, List.length_take, l1]; omega
            rw [← hl, List.take_left']
            rfl
          rw [htk] at this
          rw [← t1]
          simpa [Nat.add_comm, List.append_assoc] using this
        · simp only [hn, if_false, dite_false]
          exact hstop

theorem loopIPe_spec (early : IP → Bool) {dec : Bytes → Dec} (hd : DecOk dec) (src : Bytes) (k : Nat) :
    ∀ (fuel : Nat) (mem : Bytes) (e f i : Nat), InvIP src k ⟨mem, e, f, i⟩ →
      2 * (src.length - i) + (if f < i then 1 else 0) ≤ fuel →
      Ret src k (loopIPe early dec k fuel ⟨mem, e, f, i⟩)
        (mem.take e ++ (src.drop f).take (i - f) ++ parseFun dec (src.drop i)) := by
  intro fuel
  induction fuel with
  | zero =>
    intro mem e f i h hf
    have hil := h.il; have hfi := h.fi
    simp only [] at hil hfi
    have hi : i = src.length := by split at hf <;> omega
    have hnil : src.drop i = [] := by rw [hi]; simp
    simp only [loopIPe]
    rw [hnil, parseFun_nil, List.append_nil]
    have := finishIP_spec h
    rw [← pending_append src hfi, hnil, List.append_nil] at this
    exact this
  | succ fu ih =>
    intro mem e f i h hf
    have hil := h.il; have hfi := h.fi; have hef := h.ef; have hlen := h.len
    simp only [] at hil hfi hef hlen
    have htl := drop_tail h
    have hstop : Ret src k ⟨mem, e, f, i⟩ (mem.take e ++ (src.drop f).take (i - f) ++ src.drop i) := by
      rw [List.append_assoc, pending_append src hfi]; exact finishIP_spec h
    rw [loopIPe]
    by_cases hearly : early ⟨mem, e, f, i⟩ = true ∧ f < i
    · rw [if_pos hearly]
      obtain ⟨m1, hm, t1, l1, d1⟩ := moveIP_spec h
      simp only [hm]
      have hinv : InvIP src k ⟨m1, e + (i - f), i, i⟩ :=
        ⟨by simp only []; omega, by simp only []; omega, Nat.le_refl _, hil, by simp only []; rw [d1, htl]⟩
      have := ih m1 (e + (i - f)) i i hinv (by simp only [Nat.lt_irrefl, if_false]; rw [if_pos hearly.2] at hf; omega)
      simp only [Nat.sub_self, List.take_zero, List.append_nil] at this
      rw [t1] at this
      exact this
    rw [if_neg hearly]
    have hf' : 2 * (src.length - i) ≤ fu + 1 := by split at hf <;> omega
    simp only [htl]
    by_cases hnil : src.drop i = []
    · simp only [hnil, if_true]
      rw [parseFun_nil]; rw [hnil] at hstop; exact hstop
    · simp only [hnil, if_false]
      obtain ⟨hsk, hem⟩ := hd (src.drop i) hnil
      have hdl : (src.drop i).length = src.length - i := List.length_drop
      rw [parseFun]
      simp only [hnil, dite_false]
      cases hdec : dec (src.drop i) with
      | stop => simpa using hstop
      | skip n =>
        simp only []
        by_cases hn : 0 < n
        · simp only [hn, if_true, dite_true]
          have hle := hsk n hdec hn
          have hinv : InvIP src k ⟨mem, e, f, i + n⟩ :=
            ⟨h.len, h.ef, by simp only []; omega, by simp only []; omega, h.tail⟩
          have := ih mem e f (i + n) hinv (by split <;> omega)
          rw [pending_extend src n hfi] at this
          simpa [List.append_assoc, List.drop_drop, Nat.add_comm] using this
        · simp only [hn, if_false, dite_false]
          exact hstop
      | emit bs n =>
        simp only []
        by_cases hn : 0 < n
        · simp only [hn, if_true, dite_true]
          obtain ⟨hle, hbl⟩ := hem bs n hdec hn
          obtain ⟨m1, hm, t1, l1, d1⟩ := moveIP_spec h
          simp only [hm, writeIP]
          have hd1 : m1.drop (k + (i + n)) = src.drop (i + n) := by
            have := congrArg (List.drop n) d1
            simp only [List.drop_drop] at this
            rw [← Nat.add_assoc, this, ← List.drop_drop, htl, List.drop_drop]
          have hinv : InvIP src k ⟨m1.take (e + (i - f)) ++ bs ++ m1.drop (e + (i - f) + bs.length),
              e + (i - f) + bs.length, i + n, i + n⟩ := by
            refine ⟨?_, by simp only []; omega, Nat.le_refl _, by simp only []; omega, ?_⟩
            · simp only [List.length_append, List.length_take, List.length_drop, l1]; omega
            · simp only []
              rw [← hd1]
              apply List.ext_getElem?; intro j
              simp only [List.getElem?_take, List.getElem?_append, List.getElem?_drop,
                List.length_take, List.length_append, l1]
              grind
          have := ih _ _ _ _ hinv (by simp only [Nat.lt_irrefl, if_false]; omega)
          simp only [Nat.sub_self, List.take_zero, List.append_nil] at this
          have htk : (m1.take (e + (i - f)) ++ bs ++ m1.drop (e + (i - f) + bs.length)).take
              (e + (i - f) + bs.length) = m1.take (e + (i - f)) ++ bs := by
            have hl : (m1.take (e + (i - f)) ++ bs).length = e + (i - f) + bs.length := by
              simp only [List.length_append, List.length_take, l1]; omega
            rw [← hl, List.take_left']
            rfl
          rw [htk] at this
          rw [← t1]
          simpa [Nat.add_comm, List.append_assoc] using this
        · simp only [hn, if_false, dite_false]
          exact hstop

/-- Parsing with one memory: `dst = mem[0:]`, `src = mem[k:]` (`mem = pad ++ src`). -/
theorem runIP_eq {dec : Bytes → Dec} (hd : DecOk dec) (pad src : Bytes) :
    runIP dec pad.length (pad ++ src) = ((parseFun dec src).length, parseFun dec src) := by
  have hinv : InvIP src pad.length ⟨pad ++ src, 0, 0, 0⟩ :=
    ⟨by simp, Nat.zero_le _, Nat.le_refl _, Nat.zero_le _, by simp⟩
  obtain ⟨h1, h2⟩ := loopIP_spec hd src pad.length ((pad ++ src).length + 1) (pad ++ src) 0 0 0 hinv
    (by simp; omega)
  simp only [List.take_zero, List.drop_zero, Nat.sub_self, List.nil_append] at h1
  unfold finishIP at h1 h2
  unfold runIP
  have hl : (pad ++ src).length - pad.length = src.length := by simp
  simp only [hl]
  refine Prod.ext ?_ h1
  simp only []
  have hlen := congrArg List.length h1
  simp only [List.length_take] at hlen
  omega

theorem runIPe_eq (early : IP → Bool) {dec : Bytes → Dec} (hd : DecOk dec) (pad src : Bytes) :
    runIPe early dec pad.length (pad ++ src) = ((parseFun dec src).length, parseFun dec src) := by
  have hinv : InvIP src pad.length ⟨pad ++ src, 0, 0, 0⟩ :=
    ⟨by simp, Nat.zero_le _, Nat.le_refl _, Nat.zero_le _, by simp⟩
  obtain ⟨h1, h2⟩ := loopIPe_spec early hd src pad.length (2 * (pad ++ src).length + 2) (pad ++ src) 0 0 0 hinv
    (by simp; omega)
  simp only [List.take_zero, List.drop_zero, Nat.sub_self, List.nil_append] at h1
  unfold finishIP at h1 h2
  unfold runIPe
  have hl : (pad ++ src).length - pad.length = src.length := by simp
  simp only [hl]
  refine Prod.ext ?_ h1
  simp only []
  have hlen := congrArg List.length h1
  simp only [List.length_take] at hlen
  omega

end Golib.C07
