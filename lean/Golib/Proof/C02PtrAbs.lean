/-
C02 pointer model, part 1: the abstraction relation between the pointer-level model
(`Golib/Model/C02Ptr.lean`) and the levels-as-lists model (`Golib/Model/C02Skip.lean`), and the
chain lemmas every method proof needs.

`ChainK p f i st ks`: following `next[i]` from the pointer `st` visits exactly the nodes
`f k` for `k` in `ks` (in this order), each node `f k` carries the key `k`, and the last one
points to nil.  `f : K → Nat` sends a live key to the id of its node: `Abs p s` says that such
an `f` exists for which every level-`i` chain of `p` is `s.lv[i]` and the node values agree.
Since node `f k` carries key `k`, `f` is injective on every chain: no node is visited twice
on a level whose key list has no duplicate (which `Inv` gives), i.e. the chains are acyclic.
-/
import Golib.Model.C02Ptr
import Golib.Proof.C02Refine

set_option linter.unusedSectionVars false
set_option linter.unusedSimpArgs false
set_option linter.unusedVariables false

namespace Golib.C02

variable {K V : Type} [DecidableEq K]

/-- Following `next[i]` from `st` visits exactly the nodes `f k`, `k ∈ ks`, in order, node
`f k` has key `k`, and the chain ends with nil. -/
def ChainK (p : PSL K V) (f : K → Nat) (i : Nat) : Option Nat → List K → Prop
  | none, [] => True
  | some id, k :: ks =>
    id = f k ∧ ∃ nd nx, p.nodes[id]? = some nd ∧ nd.key = k ∧ nd.next[i]? = some nx ∧ ChainK p f i nx ks
  | none, _ :: _ => False
  | some _, [] => False

/-- The abstraction relation with the key-to-node map given. -/
structure AbsF (f : K → Nat) (p : PSL K V) (s : SL K V) : Prop where
  level : p.level = s.level
  len : p.len = s.len
  rand : p.hasRand = s.hasRand
  headNone : p.head = none ↔ s.lv = []
  headSize : ∀ h, p.head = some h → h.size = s.lv.length
  /-- the level-`i` chain from the head runs through the nodes of the keys `s.lv[i]` -/
  chains : ∀ i l, s.lv[i]? = some l → ∃ st, p.nextOf none i = some st ∧ ChainK p f i st l
  /-- a live node carries the value the list model stores for its key -/
  vals : ∀ k ∈ chain0 s, ∀ nd, p.nodes[f k]? = some nd → getVal s.vals k = some nd.val

/-- The pointer state `p` represents the levels-as-lists state `s`. -/
def Abs (p : PSL K V) (s : SL K V) : Prop := ∃ f : K → Nat, AbsF f p s

/-! ### basic facts about chains -/

theorem chainK_nil {p : PSL K V} {f : K → Nat} {i : Nat} {st : Option Nat} :
    ChainK p f i st [] ↔ st = none := by
  cases st <;> simp [ChainK]

theorem chainK_cons {p : PSL K V} {f : K → Nat} {i : Nat} {st : Option Nat} {k : K} {ks : List K} :
    ChainK p f i st (k :: ks) ↔
      st = some (f k) ∧ ∃ nd nx, p.nodes[f k]? = some nd ∧ nd.key = k ∧ nd.next[i]? = some nx ∧
        ChainK p f i nx ks := by
  cases st with
  | none => simp [ChainK]
  | some id =>
    simp only [ChainK, Option.some.injEq]
    constructor
    · rintro ⟨rfl, h⟩; exact ⟨rfl, h⟩
    · rintro ⟨rfl, h⟩; exact ⟨rfl, h⟩

/-- Every key of a chain has its node, with that key, linked at this level. -/
theorem ChainK.node {p : PSL K V} {f : K → Nat} {i : Nat} :
    ∀ {ks : List K} {st : Option Nat}, ChainK p f i st ks → ∀ k ∈ ks,
      ∃ nd nx, p.nodes[f k]? = some nd ∧ nd.key = k ∧ nd.next[i]? = some nx := by
  intro ks
  induction ks with
  | nil => intro _ _ k hk; cases hk
  | cons x xs ih =>
    intro st h k hk
    obtain ⟨_, nd, nx, h1, h2, h3, h4⟩ := chainK_cons.mp h
    rcases List.mem_cons.mp hk with rfl | hk
    · exact ⟨nd, nx, h1, h2, h3⟩
    · exact ih h4 k hk

theorem ChainK.lt_size {p : PSL K V} {f : K → Nat} {i : Nat} {ks : List K} {st : Option Nat}
    (h : ChainK p f i st ks) {k : K} (hk : k ∈ ks) : f k < p.nodes.size := by
  obtain ⟨nd, _, h1, _, _⟩ := h.node k hk
  exact (Array.getElem?_eq_some_iff.mp h1).1

theorem ChainK.slot_lt {p : PSL K V} {f : K → Nat} {i : Nat} {ks : List K} {st : Option Nat}
    (h : ChainK p f i st ks) {k : K} (hk : k ∈ ks) :
    ∃ nd, p.nodes[f k]? = some nd ∧ i < nd.next.size := by
  obtain ⟨nd, nx, h1, _, h3⟩ := h.node k hk
  exact ⟨nd, h1, (Array.getElem?_eq_some_iff.mp h3).1⟩

/-- `f` is injective on the keys of a chain (node `f k` carries key `k`). -/
theorem ChainK.inj {p : PSL K V} {f : K → Nat} {i j : Nat} {ks ks' : List K} {st st' : Option Nat}
    (h : ChainK p f i st ks) (h' : ChainK p f j st' ks') {a b : K} (ha : a ∈ ks) (hb : b ∈ ks')
    (hf : f a = f b) : a = b := by
  obtain ⟨nd, _, h1, h2, _⟩ := h.node a ha
  obtain ⟨nd', _, h1', h2', _⟩ := h'.node b hb
  rw [hf, h1'] at h1
  cases h1
  rw [← h2, ← h2']

/-- Frame rule: a chain only depends on the `key` and the slot `i` of its own nodes. -/
theorem ChainK.mono {p p' : PSL K V} {f f' : K → Nat} {i : Nat} :
    ∀ {ks : List K} {st : Option Nat}, ChainK p f i st ks →
      (∀ k ∈ ks, f' k = f k) →
      (∀ k ∈ ks, ∀ nd, p.nodes[f k]? = some nd →
        ∃ nd', p'.nodes[f k]? = some nd' ∧ nd'.key = nd.key ∧ nd'.next[i]? = nd.next[i]?) →
      ChainK p' f' i st ks := by
  intro ks
  induction ks with
  | nil => intro st h _ _; rw [chainK_nil] at h ⊢; exact h
  | cons x xs ih =>
    intro st h hf hn
    obtain ⟨h0, nd, nx, h1, h2, h3, h4⟩ := chainK_cons.mp h
    obtain ⟨nd', g1, g2, g3⟩ := hn x (by simp) nd h1
    rw [chainK_cons, hf x (by simp)]
    refine ⟨h0, nd', nx, g1, by rw [g2, h2], by rw [g3, h3], ?_⟩
    exact ih h4 (fun k hk => hf k (by simp [hk])) (fun k hk => hn k (by simp [hk]))

/-- A chain is determined by its start: the key list is unique. -/
theorem ChainK.unique {p : PSL K V} {f : K → Nat} {i : Nat} :
    ∀ {ks ks' : List K} {st : Option Nat}, ChainK p f i st ks → ChainK p f i st ks' → ks = ks' := by
  intro ks
  induction ks with
  | nil =>
    intro ks' st h h'
    rw [chainK_nil] at h; subst h
    cases ks' with
    | nil => rfl
    | cons _ _ => simp [ChainK] at h'
  | cons x xs ih =>
    intro ks' st h h'
    obtain ⟨h0, nd, nx, h1, h2, h3, h4⟩ := chainK_cons.mp h
    cases ks' with
    | nil => rw [chainK_nil] at h'; rw [h'] at h0; cases h0
    | cons y ys =>
      obtain ⟨g0, nd', nx', g1, g2, g3, g4⟩ := chainK_cons.mp h'
      rw [h0] at g0
      have e : f x = f y := Option.some.inj g0
      rw [← e, h1] at g1; cases g1
      have : x = y := by rw [← h2, ← g2]
      subst this
      rw [h3] at g3; cases g3
      rw [ih h4 g4]

/-! ### the cursor: `after` on keys is `next[i]` on pointers -/

theorem ChainK.afterNode {p : PSL K V} {f : K → Nat} {i : Nat} {c : K} :
    ∀ {l : List K} {st : Option Nat} {rest : List K}, ChainK p f i st l → afterNode c l = some rest →
      ∃ st', p.nextOf (some (f c)) i = some st' ∧ ChainK p f i st' rest := by
  intro l
  induction l with
  | nil => intro st rest _ h; simp [Golib.C02.afterNode] at h
  | cons x xs ih =>
    intro st rest h ha
    obtain ⟨_, nd, nx, h1, h2, h3, h4⟩ := chainK_cons.mp h
    unfold Golib.C02.afterNode at ha
    by_cases hx : x = c
    · subst hx
      rw [if_pos rfl] at ha; cases ha
      exact ⟨nx, by simp [PSL.nextOf, h1, h3], h4⟩
    · rw [if_neg hx] at ha
      exact ih h4 ha

/-- The chain from `cur.next[i]` is the key list `after cur l`. -/
theorem ChainK.after {p : PSL K V} {f : K → Nat} {i : Nat} {l : List K} {st : Option Nat}
    (h : ChainK p f i st l) (hst : p.nextOf none i = some st) {cur : Option K} {rest : List K}
    (ha : after cur l = some rest) :
    ∃ st', p.nextOf (cur.map f) i = some st' ∧ ChainK p f i st' rest := by
  cases cur with
  | none =>
    simp only [Golib.C02.after] at ha; cases ha
    exact ⟨st, hst, h⟩
  | some c => exact h.afterNode ha

/-! ### the inner loop -/

/-- The pointer inner loop follows `walk` on the key list step by step. -/
theorem walkLevel_sim (cmp : K → K → Int) {p : PSL K V} {f : K → Nat} {i : Nat} (key : K) :
    ∀ {rest : List K} {st : Option Nat} (cur : Option K) (fuel : Nat), ChainK p f i st rest →
      p.nextOf (cur.map f) i = some st → rest.length < fuel →
      p.walkLevel cmp key i fuel (cur.map f) =
        some (((walk cmp key cur rest).1).map f, ((walk cmp key cur rest).2).map f) := by
  intro rest
  induction rest with
  | nil =>
    intro st cur fuel h hn hf
    rw [chainK_nil] at h; subst h
    obtain ⟨fuel, rfl⟩ : ∃ n, fuel = n + 1 := ⟨fuel - 1, by omega⟩
    simp [PSL.walkLevel, hn, walk]
  | cons n rest ih =>
    intro st cur fuel h hn hf
    obtain ⟨h0, nd, nx, h1, h2, h3, h4⟩ := chainK_cons.mp h
    subst h0
    obtain ⟨fuel, rfl⟩ : ∃ m, fuel = m + 1 := ⟨fuel - 1, by omega⟩
    unfold PSL.walkLevel walk
    simp only [hn, h1, h2]
    by_cases c1 : cmp n key > 0
    · simp [c1]
    · simp only [c1, if_false]
      by_cases c2 : (cmp n key == 0) = true
      · simp [c2]
      · simp only [c2, if_false, Bool.false_eq_true]
        have := ih (some n) fuel h4 (by simp [PSL.nextOf, h1, h3]) (by simp at hf; omega)
        simpa using this

/-! ### acyclicity: a chain is no longer than the heap -/

theorem length_le_of_nodup_lt : ∀ (n : Nat) (l : List Nat), l.Nodup → (∀ x ∈ l, x < n) → l.length ≤ n := by
  intro n
  induction n with
  | zero =>
    intro l _ h
    cases l with
    | nil => simp
    | cons x xs => exact absurd (h x (by simp)) (by omega)
  | succ n ih =>
    intro l hnd h
    have h1 : (l.erase n).Nodup := hnd.erase n
    have h2 : ∀ x ∈ l.erase n, x < n := by
      intro x hx
      have hxl : x ∈ l := List.mem_of_mem_erase hx
      have hne : x ≠ n := by
        intro e; subst e
        exact (List.Nodup.mem_erase_iff hnd).mp hx |>.1 rfl
      have := h x hxl; omega
    have h3 := ih (l.erase n) h1 h2
    have h4 : l.length ≤ (l.erase n).length + 1 := by
      rw [List.length_erase]; split <;> omega
    omega

/-- The ids of a chain with pairwise different keys are pairwise different. -/
theorem ChainK.nodup_ids {p : PSL K V} {f : K → Nat} {i : Nat} {ks : List K} {st : Option Nat}
    (h : ChainK p f i st ks) (hnd : ks.Nodup) : (ks.map f).Nodup := by
  rw [List.nodup_iff_pairwise_ne] at hnd ⊢
  rw [List.pairwise_map]
  have : ∀ a ∈ ks, ∀ b ∈ ks, a ≠ b → f a ≠ f b :=
    fun a ha b hb hab e => hab (h.inj h ha hb e)
  exact List.Pairwise.imp_of_mem (fun {a b} ha hb hab => this a ha b hb hab) hnd

theorem ChainK.length_le {p : PSL K V} {f : K → Nat} {i : Nat} {ks : List K} {st : Option Nat}
    (h : ChainK p f i st ks) (hnd : ks.Nodup) : ks.length ≤ p.nodes.size := by
  have := length_le_of_nodup_lt p.nodes.size (ks.map f) (h.nodup_ids hnd)
    (fun x hx => by
      obtain ⟨k, hk, rfl⟩ := List.mem_map.mp hx
      exact h.lt_size hk)
  simpa using this

theorem ChainK.length_lt_fuel {p : PSL K V} {f : K → Nat} {i : Nat} {ks : List K} {st : Option Nat}
    (h : ChainK p f i st ks) (hnd : ks.Nodup) : ks.length < p.fuel := by
  have := h.length_le hnd; unfold PSL.fuel; omega

/-- A sub-list (suffix, in all uses) of a duplicate-free list is duplicate-free. -/
theorem after_nodup {cur : Option K} {l rest : List K} (hnd : l.Nodup) (ha : after cur l = some rest) :
    rest.Nodup := by
  cases cur with
  | none => simp only [Golib.C02.after] at ha; cases ha; exact hnd
  | some c =>
    simp only [Golib.C02.after] at ha
    induction l with
    | nil => simp [Golib.C02.afterNode] at ha
    | cons x xs ih =>
      unfold Golib.C02.afterNode at ha
      by_cases hx : x = c
      · rw [if_pos hx] at ha; cases ha; exact (List.nodup_cons.mp hnd).2
      · rw [if_neg hx] at ha; exact ih (List.nodup_cons.mp hnd).2 ha

/-! ### the computed dump agrees with the relation -/

theorem chainFrom_eq {p : PSL K V} {f : K → Nat} {i : Nat} :
    ∀ {ks : List K} {st : Option Nat} (fuel : Nat), ChainK p f i st ks → ks.length < fuel →
      p.chainFrom i fuel st = ks.map f := by
  intro ks
  induction ks with
  | nil =>
    intro st fuel h _
    rw [chainK_nil] at h; subst h
    cases fuel <;> rfl
  | cons x xs ih =>
    intro st fuel h hf
    obtain ⟨h0, nd, nx, h1, h2, h3, h4⟩ := chainK_cons.mp h
    subst h0
    obtain ⟨fuel, rfl⟩ : ∃ m, fuel = m + 1 := ⟨fuel - 1, by omega⟩
    simp only [PSL.chainFrom, h1, h3, Option.join, List.map_cons, Option.bind_some, id]
    rw [ih fuel h4 (by simp at hf; omega)]

/-- Sorted chains have no duplicate key. -/
theorem Sorted.nodup {cmp : K → K → Int} (hc : WeakCmp cmp) {l : List K} (hs : Sorted cmp l) : l.Nodup := by
  rw [List.nodup_iff_pairwise_ne]
  exact List.Pairwise.imp (fun h => hc.ne_of_lt h) hs

theorem Inv.lv_nodup {cmp : K → K → Int} (hc : WeakCmp cmp) {s : SL K V} (h : Inv cmp s) :
    ∀ l ∈ s.lv, l.Nodup := fun l hl => (h.tower.1 l hl).nodup hc

theorem Good.lv_nodup {cfg : Cfg K V} (hc : WeakCmp cfg.cmp) {s : SL K V} (hg : Good cfg s) :
    ∀ l ∈ s.lv, l.Nodup := by
  rcases hg with h | ⟨_, rfl⟩
  · exact h.lv_nodup hc
  · intro l hl; simp [SL.zero] at hl

/-! ### the two starting points -/

theorem absF_zero (f : K → Nat) : AbsF f (PSL.zero : PSL K V) (SL.zero : SL K V) := by
  refine ⟨rfl, rfl, rfl, by simp [PSL.zero, SL.zero], by intro h hh; simp [PSL.zero] at hh, ?_, ?_⟩
  · intro i l hl; simp [SL.zero] at hl
  · intro k hk; simp [chain0, SL.zero] at hk

theorem absF_init (f : K → Nat) : AbsF f (PSL.init : PSL K V) (SL.init : SL K V) := by
  refine ⟨rfl, rfl, rfl, by simp [PSL.init, SL.init, maxLevel], ?_, ?_, ?_⟩
  · intro h hh; simp only [PSL.init, Option.some.injEq] at hh; subst hh; simp [SL.init]
  · intro i l hl
    simp only [SL.init] at hl
    have hi : i < maxLevel := by
      rcases Nat.lt_or_ge i maxLevel with h | hge
      · exact h
      · rw [List.getElem?_eq_none (by simp; omega)] at hl; cases hl
    have : l = [] := by
      rw [List.getElem?_replicate] at hl; simp [hi] at hl; exact hl
    subst this
    exact ⟨none, by simp [PSL.nextOf, PSL.init, hi], trivial⟩
  · intro k hk; simp [chain0, SL.init, maxLevel] at hk

theorem abs_zero : Abs (PSL.zero : PSL K V) (SL.zero : SL K V) := ⟨fun _ => 0, absF_zero _⟩
theorem abs_init : Abs (PSL.init : PSL K V) (SL.init : SL K V) := ⟨fun _ => 0, absF_init _⟩

/-! ### what `AbsF` gives to every method -/

theorem AbsF.chainZero {f : K → Nat} {p : PSL K V} {s : SL K V} (ha : AbsF f p s) {rest : List (List K)}
    (hr : s.lv = chain0 s :: rest) :
    ∃ st, p.nextOf none 0 = some st ∧ ChainK p f 0 st (chain0 s) :=
  ha.chains 0 (chain0 s) (by rw [hr]; rfl)

/-- Under `AbsF` the computed level chains are the key lists of the list model. -/
theorem AbsF.chain_eq {f : K → Nat} {p : PSL K V} {s : SL K V} (ha : AbsF f p s)
    (hnd : ∀ l ∈ s.lv, l.Nodup) {i : Nat} {l : List K} (hl : s.lv[i]? = some l) :
    p.chain i = l.map f ∧ (p.chain i).filterMap p.keyOf = l := by
  obtain ⟨st, h1, h2⟩ := ha.chains i l hl
  have hl' : l ∈ s.lv := List.mem_of_getElem? hl
  have e : p.chain i = l.map f := by
    unfold PSL.chain
    rw [h1]
    exact chainFrom_eq _ h2 (h2.length_lt_fuel (hnd l hl'))
  refine ⟨e, ?_⟩
  rw [e, List.filterMap_map]
  have : ∀ k ∈ l, (p.keyOf ∘ f) k = some k := by
    intro k hk
    obtain ⟨nd, _, g1, g2, _⟩ := h2.node k hk
    simp [PSL.keyOf, g1, g2]
  clear e h2 hl hl'
  induction l with
  | nil => rfl
  | cons x xs ih =>
    rw [List.filterMap_cons, this x (by simp)]
    simp only []
    rw [ih (fun k hk => this k (by simp [hk]))]

/-- `absLv` of the pointer state is `lv` of the list state. -/
theorem AbsF.absLv_eq {f : K → Nat} {p : PSL K V} {s : SL K V} (ha : AbsF f p s)
    (hnd : ∀ l ∈ s.lv, l.Nodup) : p.absLv = s.lv := by
  unfold PSL.absLv
  cases hh : p.head with
  | none => simp only []; exact (ha.headNone.mp hh).symm
  | some h =>
    simp only []
    have hs := ha.headSize h hh
    apply List.ext_getElem
    · simp [hs]
    · intro i h1 h2
      simp only [List.getElem_map, List.getElem_range]
      exact (ha.chain_eq hnd (List.getElem?_eq_getElem h2)).2

/-! ### one level of a search, and the level loops -/

/-- One level of every search loop: the pointer inner loop from the cursor `cur.map f` gives
the image under `f` of what `walk` gives on `after cur l`. -/
theorem AbsF.level_step {f : K → Nat} {p : PSL K V} {s : SL K V} (ha : AbsF f p s)
    (hnd : ∀ l ∈ s.lv, l.Nodup) (cmp : K → K → Int) (key : K) {n : Nat} {l rest : List K} {cur : Option K}
    (hl : s.lv[n]? = some l) (hafter : after cur l = some rest) :
    p.walkLevel cmp key n p.fuel (cur.map f) =
      some (((walk cmp key cur rest).1).map f, ((walk cmp key cur rest).2).map f) := by
  obtain ⟨st, h1, h2⟩ := ha.chains n l hl
  obtain ⟨st', h3, h4⟩ := h2.after h1 hafter
  have hl' : l ∈ s.lv := List.mem_of_getElem? hl
  exact walkLevel_sim cmp key cur p.fuel h4 h3 (h4.length_lt_fuel (after_nodup (hnd l hl') hafter))

/-- The levels `n-1 … 0` in visiting order. -/
theorem take_succ_reverse {α : Type} {lv : List α} {n : Nat} {l : α} (hl : lv[n]? = some l) :
    (lv.take (n + 1)).reverse = l :: (lv.take n).reverse := by
  rw [List.take_add_one, hl]; simp

theorem lv_getElem_of_lt {s : SL K V} {n : Nat} (h : n + 1 ≤ s.lv.length) : ∃ l, s.lv[n]? = some l :=
  ⟨s.lv[n], List.getElem?_eq_getElem (by omega)⟩

/-- The level loop of `GetNode`. -/
theorem AbsF.findLoop_sim {f : K → Nat} {p : PSL K V} {s : SL K V} (ha : AbsF f p s)
    (hnd : ∀ l ∈ s.lv, l.Nodup) (cmp : K → K → Int) (key : K) :
    ∀ (n : Nat), n ≤ s.lv.length → ∀ (cur : Option K) (r : Option K),
      findLoop cmp key (s.lv.take n).reverse cur = some r →
      p.findLoop cmp key n (cur.map f) = some (r.map f) := by
  intro n
  induction n with
  | zero => intro _ cur r h; simp [findLoop] at h; subst h; rfl
  | succ n ih =>
    intro hn cur r h
    obtain ⟨l, hl⟩ := lv_getElem_of_lt hn
    rw [take_succ_reverse hl] at h
    unfold findLoop at h
    cases hafter : after cur l with
    | none => rw [hafter] at h; cases h
    | some rest =>
      rw [hafter] at h; simp only [] at h
      unfold PSL.findLoop
      rw [ha.level_step hnd cmp key hl hafter]
      rcases hw : walk cmp key cur rest with ⟨c', hit⟩
      rw [hw] at h
      cases hit with
      | some x => simp only [] at h ⊢; cases h; rfl
      | none => simp only [Option.map_none] at h ⊢; exact ih (by omega) c' r h

/-- The level loop of `RangeWithStart`. -/
theorem AbsF.startLoop_sim {f : K → Nat} {p : PSL K V} {s : SL K V} (ha : AbsF f p s)
    (hnd : ∀ l ∈ s.lv, l.Nodup) (cmp : K → K → Int) (key : K) :
    ∀ (n : Nat), n ≤ s.lv.length → ∀ (cur : Option K) (r : K ⊕ Option K),
      startLoop cmp key (s.lv.take n).reverse cur = some r →
      p.startLoop cmp key n (cur.map f) = some (match r with
        | .inl k => .inl (f k)
        | .inr c => .inr (c.map f)) := by
  intro n
  induction n with
  | zero => intro _ cur r h; simp [startLoop] at h; subst h; rfl
  | succ n ih =>
    intro hn cur r h
    obtain ⟨l, hl⟩ := lv_getElem_of_lt hn
    rw [take_succ_reverse hl] at h
    unfold startLoop at h
    cases hafter : after cur l with
    | none => rw [hafter] at h; cases h
    | some rest =>
      rw [hafter] at h; simp only [] at h
      unfold PSL.startLoop
      rw [ha.level_step hnd cmp key hl hafter]
      rcases hw : walk cmp key cur rest with ⟨c', hit⟩
      rw [hw] at h
      cases hit with
      | some x => simp only [] at h ⊢; cases h; rfl
      | none => simp only [Option.map_none] at h ⊢; exact ih (by omega) c' r h

/-- `update` of the list model (entries of the levels `n … n + upd.length - 1`, lowest first)
against the `update` array of the pointer model. -/
def UpdRel (f : K → Nat) (n : Nat) (upd : List (Option K)) (updP : Array (Option Ptr)) : Prop :=
  updP.size = maxLevel ∧ n + upd.length ≤ maxLevel ∧
    ∀ j u, upd[j]? = some u → updP[n + j]? = some (some (u.map f))

theorem UpdRel.nil (f : K → Nat) {n : Nat} (hn : n ≤ maxLevel) :
    UpdRel f n ([] : List (Option K)) (Array.replicate maxLevel none) :=
  ⟨by simp, by simpa using hn, fun j u h => by simp at h⟩

theorem UpdRel.cons {f : K → Nat} {n : Nat} {upd : List (Option K)} {updP : Array (Option Ptr)}
    (h : UpdRel f (n + 1) upd updP) (c : Option K) :
    n < updP.size ∧ UpdRel f n (c :: upd) (updP.setIfInBounds n (some (c.map f))) := by
  obtain ⟨h1, h2, h3⟩ := h
  refine ⟨by omega, by simpa using h1, by simp only [List.length_cons]; omega, ?_⟩
  intro j u hj
  cases j with
  | zero =>
    simp only [List.getElem?_cons_zero, Option.some.injEq] at hj; subst hj
    simp [Array.getElem?_setIfInBounds, show n < updP.size by omega]
  | succ j =>
    simp only [List.getElem?_cons_succ] at hj
    have := h3 j u hj
    rw [Array.getElem?_setIfInBounds]
    rw [if_neg (by omega)]
    rw [show n + (j + 1) = n + 1 + j by omega]; exact this

/-- The level loop of `set`. -/
theorem AbsF.setLoop_sim {f : K → Nat} {p : PSL K V} {s : SL K V} (ha : AbsF f p s)
    (hnd : ∀ l ∈ s.lv, l.Nodup) (cmp : K → K → Int) (key : K) :
    ∀ (n : Nat), n ≤ s.lv.length → ∀ (cur : Option K) (upd : List (Option K)) (updP : Array (Option Ptr))
      (r : K ⊕ List (Option K)), UpdRel f n upd updP →
      setLoop cmp key (s.lv.take n).reverse cur upd = some r →
      match r with
      | .inl k => p.setLoop cmp key n (cur.map f) updP = some (.inl (f k))
      | .inr upd' => ∃ updP', p.setLoop cmp key n (cur.map f) updP = some (.inr updP') ∧ UpdRel f 0 upd' updP' := by
  intro n
  induction n with
  | zero =>
    intro _ cur upd updP r hu h
    simp [setLoop] at h; subst h
    exact ⟨updP, rfl, hu⟩
  | succ n ih =>
    intro hn cur upd updP r hu h
    obtain ⟨l, hl⟩ := lv_getElem_of_lt hn
    rw [take_succ_reverse hl] at h
    unfold setLoop at h
    cases hafter : after cur l with
    | none => rw [hafter] at h; cases h
    | some rest =>
      rw [hafter] at h; simp only [] at h
      unfold PSL.setLoop
      rw [ha.level_step hnd cmp key hl hafter]
      rcases hw : walk cmp key cur rest with ⟨c', hit⟩
      rw [hw] at h
      cases hit with
      | some x => simp only [] at h ⊢; cases h; rfl
      | none =>
        simp only [Option.map_none] at h ⊢
        obtain ⟨hlt, hu'⟩ := hu.cons c'
        rw [if_pos hlt]
        exact ih (by omega) c' (c' :: upd) _ r hu' h

/-- The level loop of `Remove`. -/
theorem AbsF.removeLoop_sim {f : K → Nat} {p : PSL K V} {s : SL K V} (ha : AbsF f p s)
    (hnd : ∀ l ∈ s.lv, l.Nodup) (cmp : K → K → Int) (key : K) :
    ∀ (n : Nat), n ≤ s.lv.length → ∀ (cur : Option K) (cl : Nat) (upd : List (Option K))
      (updP : Array (Option Ptr)) (cur' : Option K) (cl' : Nat) (upd' : List (Option K)),
      UpdRel f n upd updP →
      removeLoop cmp key (s.lv.take n).reverse cur cl upd = some (cur', cl', upd') →
      ∃ updP', p.removeLoop cmp key n (cur.map f) cl updP = some (cur'.map f, cl', updP') ∧
        UpdRel f 0 upd' updP' := by
  intro n
  induction n with
  | zero =>
    intro _ cur cl upd updP cur' cl' upd' hu h
    simp [removeLoop] at h
    obtain ⟨rfl, rfl, rfl⟩ := h
    exact ⟨updP, rfl, hu⟩
  | succ n ih =>
    intro hn cur cl upd updP cur' cl' upd' hu h
    obtain ⟨l, hl⟩ := lv_getElem_of_lt hn
    rw [take_succ_reverse hl] at h
    unfold removeLoop at h
    cases hafter : after cur l with
    | none => rw [hafter] at h; cases h
    | some rest =>
      rw [hafter] at h; simp only [] at h
      unfold PSL.removeLoop
      rw [ha.level_step hnd cmp key hl hafter]
      rcases hw : walk cmp key cur rest with ⟨c', hit⟩
      rw [hw] at h
      simp only [] at h ⊢
      obtain ⟨hlt, hu'⟩ := hu.cons c'
      rw [if_pos hlt]
      have hlen : (s.lv.take n).reverse.length = n := by simp; omega
      rw [hlen] at h
      have hiso : (hit.map f).isSome = hit.isSome := by cases hit <;> rfl
      rw [hiso]
      exact ih (by omega) c' _ (c' :: upd) _ cur' cl' upd' hu' h

/-- What `levelsDown` is under `AbsF`. -/
theorem levelsDown_some {s : SL K V} {ls : List (List K)} (h : s.levelsDown = some ls) :
    s.level ≤ s.lv.length ∧ ls = (s.lv.take s.level).reverse := by
  unfold SL.levelsDown at h
  split at h
  · cases h; exact ⟨by assumption, rfl⟩
  · cases h

/-! ### frame rules for the writes -/

/-- Allocating a node changes no chain. -/
theorem ChainK.push {p : PSL K V} {f : K → Nat} {i : Nat} {ks : List K} {st : Option Nat}
    (h : ChainK p f i st ks) (nd0 : PNode K V) :
    ChainK { p with nodes := p.nodes.push nd0 } f i st ks := by
  refine h.mono (fun _ _ => rfl) ?_
  intro k hk nd hnd
  refine ⟨nd, ?_, rfl, rfl⟩
  have hlt := (Array.getElem?_eq_some_iff.mp hnd).1
  simp only []
  rw [Array.getElem?_push, if_neg (by omega)]; exact hnd

theorem nextOf_push {p : PSL K V} (nd0 : PNode K V) {c : Ptr} {i : Nat} {x : Option Nat}
    (h : p.nextOf c i = some x) : ({ p with nodes := p.nodes.push nd0 } : PSL K V).nextOf c i = some x := by
  cases c with
  | none => exact h
  | some id =>
    simp only [PSL.nextOf] at h ⊢
    cases hn : p.nodes[id]? with
    | none => rw [hn] at h; cases h
    | some nd =>
      have hlt := (Array.getElem?_eq_some_iff.mp hn).1
      rw [Array.getElem?_push, if_neg (by omega), hn]
      rw [hn] at h; exact h

end Golib.C02
