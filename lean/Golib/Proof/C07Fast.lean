/-
C07: the linear-time evaluator `parseFast` (Model/C07Fast.lean) computes `parseFun`.
-/
import Golib.Model.C07Fast
import Golib.Proof.C07Cursor

namespace Golib.C07

theorem shortL_iff (t : Bytes) (w : Nat) : shortL t w = true ↔ t.length < w := by
  cases w with
  | zero => simp [shortL]
  | succ w =>
    simp only [shortL, List.isEmpty_iff, List.drop_eq_nil_iff]
    omega

theorem shortL_eq (t : Bytes) (w : Nat) : shortL t w = decide (t.length < w) := by
  by_cases h : t.length < w
  · rw [(shortL_iff t w).mpr h]; simp [h]
  · have : shortL t w = false := by
      cases hs : shortL t w with
      | false => rfl
      | true => exact absurd ((shortL_iff t w).mp hs) h
    rw [this]; simp [h]

theorem octalDecQ_eq : octalDecQ = octalDec := by
  funext t; unfold octalDecQ octalDec; simp only [shortL_eq, decide_eq_true_eq]; rfl

theorem hexDecQ_eq : hexDecQ = hexDec := by
  funext t; unfold hexDecQ hexDec; simp only [shortL_eq, decide_eq_true_eq]; rfl

theorem unicodeDecQ_eq : unicodeDecQ = unicodeDec := by
  funext t; unfold unicodeDecQ unicodeDec; simp only [shortL_eq, decide_eq_true_eq]; rfl

theorem utf16Dec2Q_eq (n1 : Nat) (u : Bytes) : utf16Dec2Q n1 u = utf16Dec2 n1 u := by
  unfold utf16Dec2Q utf16Dec2; simp only [shortL_eq, decide_eq_true_eq]; rfl

theorem utf16DecQ_eq : utf16DecQ = utf16DecF := by
  funext t; unfold utf16DecQ utf16DecF; simp only [shortL_eq, decide_eq_true_eq, utf16Dec2Q_eq]; rfl

theorem parseAcc_eq (dec : Bytes → Dec) : ∀ (fuel : Nat) (s acc : Bytes), s.length ≤ fuel →
    parseAcc dec fuel s acc = acc.reverse ++ parseFun dec s := by
  intro fuel
  induction fuel with
  | zero =>
    intro s acc h
    have : s = [] := List.eq_nil_of_length_eq_zero (by omega)
    subst this
    simp [parseAcc, parseFun_nil]
  | succ f ih =>
    intro s acc h
    cases s with
    | nil => simp [parseAcc, parseFun_nil]
    | cons b t =>
      rw [parseFun]
      simp only [parseAcc, reduceCtorEq, dite_false]
      cases hd : dec (b :: t) with
      | stop => rfl
      | skip k =>
        simp only []
        by_cases hk : 0 < k
        · simp only [hk, if_true, dite_true]
          rw [ih _ _ (by simp only [List.length_drop, List.length_cons] at h ⊢; omega)]
          simp [List.reverse_append, List.append_assoc]
        · simp only [hk, if_false, dite_false]
      | emit bs k =>
        simp only []
        by_cases hk : 0 < k
        · simp only [hk, if_true, dite_true]
          rw [ih _ _ (by simp only [List.length_drop, List.length_cons] at h ⊢; omega)]
          simp [List.reverse_append, List.append_assoc]
        · simp only [hk, if_false, dite_false]

theorem parseFast_eq (dec : Bytes → Dec) (s : Bytes) : parseFast dec s = parseFun dec s := by
  unfold parseFast
  rw [parseAcc_eq dec s.length s [] (Nat.le_refl _)]
  rfl

end Golib.C07
