/-
C07: the linear-time evaluator `parseFast` (Model/C07Fast.lean) computes `parseFun`.
-/
import Golib.Model.C07Fast
import Golib.Proof.C07Cursor

namespace Golib.C07

theorem shortL_iff (t : Bytes) (w : Nat) : shortL t w = true ↔ t.length < w := by
  cases w with
  | zero => simp [shortL]
  | succ w =>
    simp only [shortL, List.isEmpty_iff, List.drop_eq_nil_iff]
    omega

theorem shortL_eq (t : Bytes) (w : Nat) : shortL t w = decide (t.length < w) := by
  by_cases h : t.length < w
  · rw [(shortL_iff t w).mpr h]; simp [h]
  · have : shortL t w = false := by
      cases hs : shortL t w with
      | false => rfl
      | true => exact absurd ((shortL_iff t w).mp hs) h
    rw [this]; simp [h]

theorem octalDecQ_eq : octalDecQ = octalDec := by
  funext t; unfold octalDecQ octalDec; simp only [shortL_eq, decide_eq_true_eq]; rfl

theorem hexDecQ_eq : hexDecQ = hexDec := by
  funext t; unfold hexDecQ hexDec; simp only [shortL_eq, decide_eq_true_eq]; rfl

theorem unicodeDecQ_eq : unicodeDecQ = unicodeDec := by
  funext t; unfold unicodeDecQ unicodeDec; simp only [shortL_eq, decide_eq_true_eq]; rfl

theorem utf16Dec2Q_eq (n1 : Nat) (u : Bytes) : utf16Dec2Q n1 u = utf16Dec2 n1 u := by
  unfold utf16Dec2Q utf16Dec2; simp only [shortL_eq, decide_eq_true_eq]; rfl

theorem utf16DecQ_eq : utf16DecQ = utf16DecF := by
  funext t; unfold utf16DecQ utf16DecF; simp only [shortL_eq, decide_eq_true_eq, utf16Dec2Q_eq]; rfl

theorem parseAcc_eq (dec : Bytes → Dec) : ∀ (fuel : Nat) (s acc : Bytes), s.length ≤ fuel →
    parseAcc dec fuel s acc = acc.reverse ++ parseFun dec s := by
  intro fuel
  induction fuel with
  | zero =>
    intro s acc h
    have : s = [] := List.eq_nil_of_length_eq_zero (by omega)
    subst this
    simp [parseAcc, parseFun_nil]
  | succ f ih =>
    intro s acc h
    cases s with
    | nil => simp [parseAcc, parseFun_nil]
    | cons b t =>
      rw [parseFun]
      simp only [parseAcc, reduceCtorEq, dite_false]
      cases hd : dec (b :: t) with
      | stop => rfl
      | skip k =>
        simp only []
        by_cases hk : 0 < k
        · simp only [hk, if_true, dite_true]
          rw [ih _ _ (by simp only [List.length_drop, List.length_cons] at h ⊢; omega)]
          simp [List.reverse_append, List.append_assoc]
        · simp only [hk, if_false, dite_false]
      | emit bs k =>
        simp only []
        by_cases hk : 0 < k
        · simp only [hk, if_true, dite_true]
          rw [ih _ _ (by simp only [List.length_drop, List.length_cons] at h ⊢; omega)]
          simp [List.reverse_append, List.append_assoc]
        · simp only [hk, if_false, dite_false]

theorem parseFast_eq (dec : Bytes → Dec) (s : Bytes) : parseFast dec s = parseFun dec s := by
  unfold parseFast
  rw [parseAcc_eq dec s.length s [] (Nat.le_refl _)]
  rfl

theorem utf16FormatAcc_eq : ∀ (fuel : Nat) (s acc : Bytes),
    utf16FormatAcc fuel s acc = (utf16FormatAux fuel s).map (fun out => acc.reverse ++ out) := by
  intro fuel
  induction fuel with
  | zero =>
    intro s acc
    cases s with
    | nil => simp [utf16FormatAcc, utf16FormatAux]
    | cons b t => simp [utf16FormatAcc, utf16FormatAux]
  | succ f ih =>
    intro s acc
    cases s with
    | nil => simp [utf16FormatAcc, utf16FormatAux]
    | cons bt rest =>
      unfold utf16FormatAcc utf16FormatAux
      by_cases hb : bt < 0x80
      · rw [if_pos hb, if_pos hb]
        cases escu bt with
        | none => rfl
        | some d =>
          simp only []
          rw [ih]
          cases utf16FormatAux f rest with
          | none => rfl
          | some r => simp [List.reverse_append, List.append_assoc]
      · rw [if_neg hb, if_neg hb]
        rcases Utf8.decodeRune (bt :: rest) with ⟨c, size⟩
        simp only []
        cases utf16FormatRune c with
        | none => rfl
        | some d =>
          simp only []
          rw [ih]
          cases utf16FormatAux f ((bt :: rest).drop size) with
          | none => rfl
          | some r => simp [List.reverse_append, List.append_assoc]

theorem unicodeFormatAcc_eq : ∀ (fuel : Nat) (s acc : Bytes),
    unicodeFormatAcc fuel s acc = (unicodeFormatAux fuel s).map (fun out => acc.reverse ++ out) := by
  intro fuel
  induction fuel with
  | zero =>
    intro s acc
    cases s with
    | nil => simp [unicodeFormatAcc, unicodeFormatAux]
    | cons b t => simp [unicodeFormatAcc, unicodeFormatAux]
  | succ f ih =>
    intro s acc
    cases s with
    | nil => simp [unicodeFormatAcc, unicodeFormatAux]
    | cons bt rest =>
      unfold unicodeFormatAcc unicodeFormatAux
      by_cases hb : bt < 0x80
      · rw [if_pos hb, if_pos hb]
        cases escU bt with
        | none => rfl
        | some d =>
          simp only []
          rw [ih]
          cases unicodeFormatAux f rest with
          | none => rfl
          | some r => simp [List.reverse_append, List.append_assoc]
      · rw [if_neg hb, if_neg hb]
        rcases Utf8.decodeRune (bt :: rest) with ⟨c, size⟩
        simp only []
        by_cases hc : c = Utf8.runeError
        · rw [if_pos hc, if_pos hc, ih]
          cases unicodeFormatAux f ((bt :: rest).drop size) with
          | none => rfl
          | some r => simp [List.reverse_append, List.append_assoc]
        · rw [if_neg hc, if_neg hc]
          cases escU c.toNat with
          | none => rfl
          | some d =>
            simp only []
            rw [ih]
            cases unicodeFormatAux f ((bt :: rest).drop size) with
            | none => rfl
            | some r => simp [List.reverse_append, List.append_assoc]

theorem formatFast_eq (s : Bytes) :
    unicodeFormatFast s = unicodeFormat s ∧ utf16FormatFast s = utf16Format s := by
  unfold unicodeFormatFast utf16FormatFast unicodeFormat utf16Format
  rw [unicodeFormatAcc_eq, utf16FormatAcc_eq]
  constructor
  · cases unicodeFormatAux s.length s <;> simp
  · cases utf16FormatAux s.length s <;> simp

end Golib.C07
