/-
C03 helper lemmas, part 14: the multi-object layer of the driver (`Golib/Model/C03.lean`,
`MSt / stepM / runToksM`) keeps the objects independent: the run projects, object by object, to
the single-object driver on that object's own lines.
-/
import Golib.Model.C03

namespace Golib.C03
open Golib.Proto

/-- The single-object driver on raw lines is `runToks` on the parsed lines. -/
theorem runOps_eq_runToks : ∀ (ls : List String) (o : Option St),
    runOps o ls = (runToks o (ls.map toks)).2 := by
  intro ls
  induction ls with
  | nil => intro o; cases o <;> rfl
  | cons l ls ih =>
    intro o
    cases o with
    | none => simp only [runOps, List.map_cons, runToks, stepO, ih]
    | some st =>
      simp only [runOps, List.map_cons, runToks, stepO]
      cases hs : stepSt st (toks l) with
      | none => simp only [ih]
      | some r =>
        cases r with
        | none => simp only [ih]
        | some q => obtain ⟨st', out⟩ := q; simp only [ih]

/-- The current object after a line. -/
def nextCur (c : Nat) (t : List String) : Nat := if isObj t then (objArg? t).getD c else c

/-- The lines addressed to object `k` (`c` = the current object before the first line):
the non-`obj` lines issued while `k` is current. -/
def ownOps (k : Nat) : Nat → List (List String) → List (List String)
  | _, [] => []
  | c, t :: ts =>
    if isObj t then ownOps k (nextCur c t) ts
    else if c = k then t :: ownOps k c ts else ownOps k c ts

/-- The answers to those lines. -/
def ownOuts (k : Nat) : Nat → List (List String) → List String → List String
  | c, t :: ts, o :: os =>
    if isObj t then ownOuts k (nextCur c t) ts os
    else if c = k then o :: ownOuts k c ts os else ownOuts k c ts os
  | _, _, _ => []

theorem stepM_obj (m : MSt) {t : List String} (h : isObj t = true) :
    (stepM m t).1.objs = m.objs ∧ (stepM m t).1.cur = nextCur m.cur t := by
  unfold stepM nextCur
  rw [if_pos h, if_pos h]
  cases objArg? t <;> exact ⟨rfl, rfl⟩

theorem stepM_op (m : MSt) {t : List String} (h : ¬ isObj t = true) :
    stepM m t = (m.put (stepO (m.objs m.cur) t).1, (stepO (m.objs m.cur) t).2) := by
  unfold stepM
  rw [if_neg h]

/-- Projection: for every object `k`, running ONLY its own lines on its own initial state gives
its final state and exactly the answers it gave in the interleaved run. -/
theorem runToksM_proj : ∀ (ts : List (List String)) (m : MSt) (k : Nat),
    runToks (m.objs k) (ownOps k m.cur ts) =
      ((runToksM m ts).1.objs k, ownOuts k m.cur ts (runToksM m ts).2) := by
  intro ts
  induction ts with
  | nil => intro m k; rfl
  | cons t ts ih =>
    intro m k
    by_cases ho : isObj t = true
    · obtain ⟨e1, e2⟩ := stepM_obj m ho
      have := ih (stepM m t).1 k
      rw [e1, e2] at this
      simp only [ownOps, ownOuts, runToksM, ho, if_true]
      exact this
    · have hs := stepM_op m ho
      have := ih (stepM m t).1 k
      rw [hs] at this
      simp only [MSt.put] at this
      simp only [ownOps, ownOuts, runToksM, ho, Bool.false_eq_true, if_false, hs]
      by_cases hk : m.cur = k
      · subst hk
        simp only [if_true] at this ⊢
        simp only [runToks, this, MSt.put]
      · have hk' : ¬ k = m.cur := fun e => hk e.symm
        simp only [hk, hk', if_false] at this ⊢
        simp only [MSt.put]
        exact this

end Golib.C03
