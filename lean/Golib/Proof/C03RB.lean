/-
C03 helper lemmas, part 7: `RoaringBitmap.Add / Remove / Contains` against the member list,
for every state satisfying the representation invariant.  Core-only.
-/
import Golib.Proof.C03Map

namespace Golib.C03

theorem RB.Inv.inv0 {r : RB} (h : r.Inv) : ∀ p ∈ r.cs, p.2.Inv0 := fun p hp => (h.conts p hp).inv0

theorem RB.Inv.sorted {r : RB} (h : r.Inv) : r.toList.Pairwise (· < ·) :=
  omToList_sorted r.cs h.keys h.inv0

theorem RB.mem_toList {r : RB} (h : r.Inv) (y : Nat) :
    y ∈ r.toList ↔ ∃ c, omGet r.cs (y / 65536) = some c ∧ y % 65536 ∈ c.members :=
  mem_omToList r.cs h.keys h.inv0 y

theorem split16 (x y : Nat) : y = x ↔ (y / 65536 = x / 65536 ∧ y % 65536 = x % 65536) := by omega

theorem RB.empty_inv : RB.empty.Inv :=
  ⟨by simp [RB.empty], by simp [RB.empty], by simp [RB.empty], by simp [RB.empty, RB.toList, omToList]⟩

theorem RB.contains_spec (r : RB) (h : r.Inv) (x : Nat) :
    r.contains x = some (decide (x ∈ r.toList)) := by
  simp only [RB.contains, shr16]
  cases hg : omGet r.cs (x / 65536) with
  | none =>
    have : x ∉ r.toList := by
      rw [RB.mem_toList h]; rintro ⟨c, hc, _⟩; rw [hg] at hc; cases hc
    simp [this]
  | some c =>
    have hc0 := (h.conts _ (omGet_mem hg)).inv0
    simp only [c.contains_spec hc0, Option.some.injEq]
    apply decide_eq_decide.mpr
    rw [RB.mem_toList h]
    constructor
    · exact fun hm => ⟨c, hg, hm⟩
    · rintro ⟨c', hc', hm⟩; rw [hg] at hc'; cases hc'; exact hm

/-- Assemble the invariant of the state after an `Add`. -/
theorem inv_after_add (r : RB) (h : r.Inv) (x : Nat) (cs' : OMap) (len' : Int)
    (hs' : KeysSorted cs') (hkb : ∀ p ∈ cs', p.1 < 65536) (hc : ∀ p ∈ cs', p.2.Inv)
    (hm : ∀ y, y ∈ omToList cs' ↔ (y = x ∨ y ∈ r.toList))
    (hlen : len' = if x ∈ r.toList then r.len else r.len + 1) : (⟨cs', len'⟩ : RB).Inv := by
  refine ⟨hs', hkb, hc, ?_⟩
  have hsorted' := omToList_sorted cs' hs' (fun p hp => (hc p hp).inv0)
  simp only [RB.toList]
  by_cases hx : x ∈ r.toList
  · have := length_same (nodup_of_lt h.sorted) (nodup_of_lt hsorted') (by
      intro y; rw [hm y]; constructor
      · rintro (rfl | h')
        · exact hx
        · exact h'
      · exact fun h' => Or.inr h')
    rw [hlen, this]; simp only [hx, if_true]; exact h.len
  · have := length_insert (nodup_of_lt h.sorted) (nodup_of_lt hsorted') hx hm
    rw [hlen, this]; simp only [hx, if_false]; rw [h.len]; simp

/-- Assemble the invariant of the state after a `Remove`. -/
theorem inv_after_remove (r : RB) (h : r.Inv) (x : Nat) (cs' : OMap) (len' : Int)
    (hs' : KeysSorted cs') (hkb : ∀ p ∈ cs', p.1 < 65536) (hc : ∀ p ∈ cs', p.2.Inv)
    (hm : ∀ y, y ∈ omToList cs' ↔ (y ≠ x ∧ y ∈ r.toList))
    (hlen : len' = if x ∈ r.toList then r.len - 1 else r.len) : (⟨cs', len'⟩ : RB).Inv := by
  refine ⟨hs', hkb, hc, ?_⟩
  have hsorted' := omToList_sorted cs' hs' (fun p hp => (hc p hp).inv0)
  simp only [RB.toList]
  by_cases hx : x ∈ r.toList
  · have := length_erase (nodup_of_lt h.sorted) (nodup_of_lt hsorted') hx hm
    rw [hlen]; simp only [hx, if_true]; rw [h.len]; omega
  · have := length_same (nodup_of_lt h.sorted) (nodup_of_lt hsorted') (by
      intro y; rw [hm y]; constructor
      · exact fun h' => h'.2
      · exact fun h' => ⟨fun e => hx (e ▸ h'), h'⟩)
    rw [hlen, this]; simp only [hx, if_false]; exact h.len

theorem RB.add_spec (r : RB) (h : r.Inv) (x : Nat) (hx : x < 4294967296) :
    ∃ r' ok, r.add x = some (r', ok) ∧ r'.Inv ∧ ok = !decide (x ∈ r.toList) ∧
      ∀ y, y ∈ r'.toList ↔ (y = x ∨ y ∈ r.toList) := by
  have hhigh : x / 65536 < 65536 := by omega
  have hlow : x % 65536 < 65536 := by omega
  have hks : KeysSorted r.cs := h.keys
  cases hg : omGet r.cs (x / 65536) with
  | none =>
    have hnone : ∀ y, y / 65536 = x / 65536 → y ∉ r.toList := by
      intro y hy
      rw [RB.mem_toList h, hy]; rintro ⟨c, hc, _⟩; rw [hg] at hc; cases hc
    have hxn : x ∉ r.toList := hnone x rfl
    obtain ⟨v', hadd, hs', hsz', hm'⟩ := arrAdd_small #[] (x % 65536)
      (by simp [Sorted]) (by simp) (by simp [threshold])
    have hcinv : (Container.arr v').Inv := by
      refine ⟨hs', ?_, by omega, by simp at hsz'; omega⟩
      intro y hy
      rcases (hm' y).mp hy with rfl | hy
      · exact hlow
      · simp at hy
    obtain ⟨hkb, hc, hm⟩ := update_spec r.cs (omSet r.cs (x / 65536) (.arr v')) (x / 65536)
      (some (.arr v')) h.keys h.keyBound h.conts (hks.omSet _ _) hhigh
      (by intro c' e; cases e; exact hcinv) (omGet_omSet r.cs _ _)
    have hmem : ∀ y, y ∈ omToList (omSet r.cs (x / 65536) (.arr v')) ↔ (y = x ∨ y ∈ r.toList) := by
      intro y
      rw [hm y, split16 x y]
      by_cases hk : y / 65536 = x / 65536
      · have := hnone y hk
        simp only [hk, if_true, Option.some.injEq, exists_eq_left', Container.members, hm',
          List.not_mem_nil, or_false, true_and, this]
      · simp only [hk, if_false, false_and, false_or]; rfl
    refine ⟨⟨omSet r.cs (x / 65536) (.arr v'), r.len + 1⟩, true,
      by simp only [RB.add, shr16, hg, hadd], ?_, by simp [hxn], hmem⟩
    exact inv_after_add r h x _ _ (hks.omSet _ _) hkb hc hmem (by simp [hxn])
  | some c =>
    have hcinv := h.conts _ (omGet_mem hg)
    obtain ⟨c1, nc, ok, hadd, hncinv, hok, hm'⟩ := c.add_spec hcinv.inv0 (x % 65536) hlow
    have hxiff : x ∈ r.toList ↔ x % 65536 ∈ c.members := by
      rw [RB.mem_toList h]
      constructor
      · rintro ⟨c', hc', hm⟩; rw [hg] at hc'; cases hc'; exact hm
      · exact fun hm => ⟨c, hg, hm⟩
    obtain ⟨hkb, hc, hm⟩ := update_spec r.cs (omSetValue r.cs (x / 65536) nc) (x / 65536)
      (some nc) h.keys h.keyBound h.conts (hks.omSetValue _ _) hhigh
      (by intro c' e; cases e; exact hncinv)
      (by intro k'; rw [omGet_omSetValue, hg]; rfl)
    have hmem : ∀ y, y ∈ omToList (omSetValue r.cs (x / 65536) nc) ↔ (y = x ∨ y ∈ r.toList) := by
      intro y
      rw [hm y, split16 x y]
      by_cases hk : y / 65536 = x / 65536
      · have : y ∈ r.toList ↔ y % 65536 ∈ c.members := by
          rw [RB.mem_toList h, hk]
          constructor
          · rintro ⟨c', hc', hm⟩; rw [hg] at hc'; cases hc'; exact hm
          · exact fun hm => ⟨c, hg, hm⟩
        simp only [hk, if_true, Option.some.injEq, exists_eq_left', hm', true_and, this]
      · simp only [hk, if_false, false_and, false_or]; rfl
    have hokx : ok = !decide (x ∈ r.toList) := by rw [hok]; congr 1; exact decide_eq_decide.mpr hxiff.symm
    refine ⟨⟨omSetValue r.cs (x / 65536) nc, if ok then r.len + 1 else r.len⟩, ok,
      by simp only [RB.add, shr16, hg, hadd], ?_, hokx, hmem⟩
    apply inv_after_add r h x _ _ (hks.omSetValue _ _) hkb hc hmem
    rw [hokx]
    by_cases hxm : x ∈ r.toList <;> simp [hxm]

theorem RB.remove_spec (r : RB) (h : r.Inv) (x : Nat) (hx : x < 4294967296) :
    ∃ r' ok, r.remove x = some (r', ok) ∧ r'.Inv ∧ ok = decide (x ∈ r.toList) ∧
      ∀ y, y ∈ r'.toList ↔ (y ≠ x ∧ y ∈ r.toList) := by
  have hhigh : x / 65536 < 65536 := by omega
  have hks : KeysSorted r.cs := h.keys
  cases hg : omGet r.cs (x / 65536) with
  | none =>
    have hxn : x ∉ r.toList := by
      rw [RB.mem_toList h]; rintro ⟨c, hc, _⟩; rw [hg] at hc; cases hc
    refine ⟨r, false, by simp only [RB.remove, shr16, hg], h, by simp [hxn], ?_⟩
    intro y
    constructor
    · exact fun h' => ⟨fun e => hxn (e ▸ h'), h'⟩
    · exact fun h' => h'.2
  | some c =>
    have hcinv := h.conts _ (omGet_mem hg)
    obtain ⟨c', ok, hrm, hc'inv0, hok, hm'⟩ := c.remove_spec hcinv.inv0 (x % 65536)
    have hmemc : ∀ y, y / 65536 = x / 65536 → (y ∈ r.toList ↔ y % 65536 ∈ c.members) := by
      intro y hk
      rw [RB.mem_toList h, hk]
      constructor
      · rintro ⟨c', hc', hm⟩; rw [hg] at hc'; cases hc'; exact hm
      · exact fun hm => ⟨c, hg, hm⟩
    have hxiff := hmemc x rfl
    have hokx : ok = decide (x ∈ r.toList) := by rw [hok]; exact decide_eq_decide.mpr hxiff.symm
    have hs1 : KeysSorted (omSetValue r.cs (x / 65536) c') := hks.omSetValue _ _
    have hget1 : ∀ k', omGet (omSetValue r.cs (x / 65536) c') k'
        = if k' = x / 65536 then some c' else omGet r.cs k' := by
      intro k'; rw [omGet_omSetValue, hg]; rfl
    -- the bucket list after the call, whatever the branch
    have hcs' : ∃ cs', r.remove x = some (⟨cs', if ok then r.len - 1 else r.len⟩, ok) ∧ KeysSorted cs' ∧
        ∀ k', omGet cs' k' = if k' = x / 65536 then (if c'.members = [] then none else some c')
          else omGet r.cs k' := by
      simp only [RB.remove, shr16, hg, hrm]
      cases hokb : ok with
      | false =>
        have hxn : x % 65536 ∉ c.members := by
          rw [hokb] at hok; intro hm; simp [hm] at hok
        obtain ⟨m, hm⟩ := List.exists_mem_of_ne_nil _ (Container.members_ne_nil hcinv)
        have hm2 : m ∈ c'.members := (hm' m).mpr ⟨fun e => hxn (e ▸ hm), hm⟩
        have hne : c'.members ≠ [] := List.ne_nil_of_mem hm2
        refine ⟨_, by simp, hs1, ?_⟩
        intro k'; rw [hget1]; simp only [hne, if_false]
      | true =>
        have hlen0 : (c'.len == 0) = true ↔ c'.members = [] := by
          rw [c'.len_eq hc'inv0]
          simp only [beq_iff_eq]
          constructor
          · intro e; exact List.eq_nil_of_length_eq_zero (by omega)
          · intro e; rw [e]; rfl
        by_cases hemp : c'.members = []
        · refine ⟨omRemove (omSetValue r.cs (x / 65536) c') (x / 65536), by simp [hlen0.mpr hemp],
            hs1.omRemove _, ?_⟩
          intro k'
          rw [omGet_omRemove _ hs1, hget1]
          by_cases hk : k' = x / 65536 <;> simp [hk, hemp]
        · have : ¬ (c'.len == 0) = true := fun e => hemp (hlen0.mp e)
          refine ⟨omSetValue r.cs (x / 65536) c', by simp [this], hs1, ?_⟩
          intro k'; rw [hget1]; simp only [hemp, if_false]
    obtain ⟨cs', hrem, hs', hget⟩ := hcs'
    obtain ⟨hkb, hc, hm⟩ := update_spec r.cs cs' (x / 65536)
      (if c'.members = [] then none else some c') h.keys h.keyBound h.conts hs' hhigh
      (by
        intro c'' e
        by_cases hemp : c'.members = []
        · simp [hemp] at e
        · simp only [hemp, if_false, Option.some.injEq] at e
          subst e
          obtain ⟨m, hm⟩ := List.exists_mem_of_ne_nil _ hemp
          exact Container.inv_of_mem hc'inv0 hm)
      hget
    have hmem : ∀ y, y ∈ omToList cs' ↔ (y ≠ x ∧ y ∈ r.toList) := by
      intro y
      rw [hm y]
      by_cases hk : y / 65536 = x / 65536
      · simp only [hk, if_true, hmemc y hk]
        have hne : y ≠ x ↔ y % 65536 ≠ x % 65536 := by rw [ne_eq, split16 x y]; simp [hk]
        rw [hne, ← hm' (y % 65536)]
        by_cases hemp : c'.members = []
        · simp [hemp]
        · simp [hemp]
      · simp only [hk, if_false]
        have : y ≠ x := fun e => hk (by rw [e])
        simp only [ne_eq, this, not_false_eq_true, true_and]; rfl
    refine ⟨⟨cs', if ok then r.len - 1 else r.len⟩, ok, hrem, ?_, hokx, hmem⟩
    apply inv_after_remove r h x _ _ hs' hkb hc hmem
    rw [hokx]
    by_cases hxm : x ∈ r.toList <;> simp [hxm]

end Golib.C03
