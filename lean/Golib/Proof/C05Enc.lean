/-
C05: vocabulary for the byte level — the bytes a label stands for, and well-formed
decoded strings (every step's width is the number of bytes its rune is written back as).
-/
import Golib.Model.C05Trie

namespace Golib.C05
open Golib

/-- Every element is a byte. -/
def Bytes (bs : List Nat) : Prop := ∀ b ∈ bs, b < 256

/-- The bytes a rune path stands for (`writeRune` of every rune). -/
def encodeLabel (l : Label) : List Nat := l.flatMap writeRune

/-- A decoded string is well formed: the width of every step is the number of bytes its
rune is written back as, and is at least 1. -/
def StepsWF (p : List Step) : Prop := ∀ st ∈ p, st.2 = (writeRune st.1).length ∧ 1 ≤ st.2

/-- No step is an invalid byte (the repaired decoder marks those by negative runes). -/
def ValidUtf8 (bs : List Nat) : Prop := ∀ st ∈ decodeAll bs, 0 ≤ st.1

theorem encodeLabel_append (a b : Label) : encodeLabel (a ++ b) = encodeLabel a ++ encodeLabel b := by
  simp [encodeLabel]

theorem encodeLabel_nil : encodeLabel [] = [] := rfl

theorem encodeLabel_cons (r : Int) (l : Label) : encodeLabel (r :: l) = writeRune r ++ encodeLabel l := by
  simp [encodeLabel]

end Golib.C05
