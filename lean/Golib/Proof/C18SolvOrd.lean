/-
FindDpSolvers: the observable part of the result does not depend on the iteration orders.

`InK k` : `k` is `≤` every attainable total above `maxValue` (so every `k ≤ maxValue`, and
the least attainable total above `maxValue`, satisfy it).  For such keys the cell `dp[k]`
after each pass is a function of the cells `dp[k - v]`, `dp[k]` before the pass and of the
tie-breaker only.
-/
import Golib.Proof.C18SolvV

namespace Golib.C18

variable {α : Type}

section
variable (br : Option (List α → List α → Bool)) (maxV : Int) (allowOver : Bool) (vf : α → Int)
variable (items : List α)

def InK (k : Int) : Prop := ∀ a, Att vf items a → maxV < a → k ≤ a

/-- The decision taken for `newValue = k` when the entry `(k - v, s)` is visited. -/
def decide1 (x : α) (s : List α) (k : Int) (dp : List (Int × List α)) : Option (List α) :=
  if k > maxV ∧ allowOver = false then none else
  match alLookup k dp, br with
  | some _, none => none
  | some old, some b => if b old (s ++ [x]) then some (s ++ [x]) else none
  | none, _ => some (s ++ [x])

/-- What the pass of `x` stores in `dpTmp[k]`. -/
def tmpAt (x : α) (dp : List (Int × List α)) (k : Int) : Option (List α) :=
  match alLookup (k - vf x) dp with
  | none => none
  | some s => decide1 br maxV allowOver x s k dp

def OvOK (st : VSt α) : Prop := st.overflow = 0 ∨ (maxV < st.overflow ∧ Att vf items st.overflow)

/-- Effect of one step of the first loop on `dpTmp[k]`, for an observable key `k`. -/
theorem vStep1_tmp (x : α) (st : VSt α) (e : Int × List α) (k : Int)
    (hk : InK maxV vf items k) (hov : OvOK maxV vf items st) :
    alLookup k (vStep1 br maxV allowOver x (vf x) st e).tmp =
      if e.1 + vf x = k then
        (match decide1 br maxV allowOver x e.2 k st.dp with
          | some r => some r
          | none => alLookup k st.tmp)
      else alLookup k st.tmp := by
  simp only [vStep1]
  by_cases hek : e.1 + vf x = k
  · rw [if_pos hek]
    subst hek
    by_cases hA : e.1 + vf x > maxV ∧ (allowOver = false ∨ (st.overflow > 0 ∧ e.1 + vf x > st.overflow))
    · rw [if_pos hA]
      have hno : allowOver = false := by
        rcases hA.2 with h | ⟨hpos, hgt⟩
        · exact h
        · exfalso
          rcases hov with h0 | ⟨hm, hatt⟩
          · omega
          · have := hk _ hatt hm; omega
      have : decide1 br maxV allowOver x e.2 (e.1 + vf x) st.dp = none := by
        simp only [decide1]; rw [if_pos ⟨hA.1, hno⟩]
      rw [this]
    · rw [if_neg hA]
      have hB : ¬ (e.1 + vf x > maxV ∧ allowOver = false) := fun h => hA ⟨h.1, Or.inl h.2⟩
      simp only [decide1]
      rw [if_neg hB]
      have hdp : (if e.1 + vf x > maxV then { st with overflow := e.1 + vf x } else st).dp = st.dp := by
        split <;> rfl
      have htmp : (if e.1 + vf x > maxV then { st with overflow := e.1 + vf x } else st).tmp = st.tmp := by
        split <;> rfl
      rw [hdp]
      cases hl : alLookup (e.1 + vf x) st.dp with
      | none => simp only [htmp, alLookup_alInsert, if_true]
      | some old =>
        cases br with
        | none => simp only [htmp]
        | some b =>
          simp only []
          by_cases hb : b old (e.2 ++ [x]) = true
          · simp only [hb, if_true, htmp, alLookup_alInsert]
          · have hb' : b old (e.2 ++ [x]) = false := by simpa using hb
            simp only [hb', Bool.false_eq_true, if_false, htmp]
  · rw [if_neg hek]
    by_cases hA : e.1 + vf x > maxV ∧ (allowOver = false ∨ (st.overflow > 0 ∧ e.1 + vf x > st.overflow))
    · rw [if_pos hA]
    · rw [if_neg hA]
      have htmp : (if e.1 + vf x > maxV then { st with overflow := e.1 + vf x } else st).tmp = st.tmp := by
        split <;> rfl
      have hdp : (if e.1 + vf x > maxV then { st with overflow := e.1 + vf x } else st).dp = st.dp := by
        split <;> rfl
      rw [hdp]
      cases hl : alLookup (e.1 + vf x) st.dp with
      | none => simp only [htmp, alLookup_alInsert, if_neg hek]
      | some old =>
        cases br with
        | none => simp only [htmp]
        | some b =>
          simp only []
          by_cases hb : b old (e.2 ++ [x]) = true
          · simp only [hb, if_true, htmp, alLookup_alInsert, if_neg hek]
          · have hb' : b old (e.2 ++ [x]) = false := by simpa using hb
            simp only [hb', Bool.false_eq_true, if_false, htmp]

/-- The first loop: closed form of `dpTmp[k]` in terms of the visited keys. -/
theorem vLoop1_tmp {pre : List α} (x : α) (hsub : (pre ++ [x]).Sublist items)
    (dp : List (Int × List α)) :
    ∀ (L : List (Int × List α)) (vis : List Int) (st : VSt α),
    st.dp = dp → PInv maxV allowOver vf (pre ++ [x]) st →
    (∀ e ∈ L, EntrySound vf pre e ∧ alLookup e.1 dp = some e.2) →
    (L.map (·.1)).Nodup → (∀ e ∈ L, e.1 ∉ vis) →
    (∀ k, InK maxV vf items k →
      alLookup k st.tmp = if k - vf x ∈ vis then tmpAt br maxV allowOver vf x dp k else none) →
    ∀ k, InK maxV vf items k →
      alLookup k (L.foldl (vStep1 br maxV allowOver x (vf x)) st).tmp =
        if k - vf x ∈ vis ++ L.map (·.1) then tmpAt br maxV allowOver vf x dp k else none
  | [], vis, st, _, _, _, _, _, h => by simpa using h
  | e :: L, vis, st, hdp, hi, hL, hnd, hvis, h => by
    intro k hk
    have he := hL e (by simp)
    obtain ⟨i1, i2, _, _⟩ := vStep1_inv br maxV allowOver vf x st e hi he.1
    simp only [List.foldl_cons]
    have hnd' := List.nodup_cons.mp (show (e.1 :: L.map (·.1)).Nodup from hnd)
    have hov : OvOK maxV vf items st := by
      rcases hi.ov with h0 | ⟨hm, s, hs, hsum⟩
      · exact Or.inl h0
      · exact Or.inr ⟨hm, s, hs.trans hsub, hsum⟩
    have := vLoop1_tmp x hsub dp L (vis ++ [e.1]) _ (i2.trans hdp) i1
      (fun e' he' => hL e' (List.mem_cons_of_mem _ he')) hnd'.2
      (by
        intro e' he' hm
        rcases List.mem_append.mp hm with hm | hm
        · exact hvis e' (List.mem_cons_of_mem _ he') hm
        · simp only [List.mem_singleton] at hm
          exact hnd'.1 (hm ▸ List.mem_map.mpr ⟨e', he', rfl⟩))
      (by
        intro k' hk'
        rw [vStep1_tmp br maxV allowOver vf items x st e k' hk' hov, h k' hk', hdp]
        by_cases hek : e.1 + vf x = k'
        · have hkv : k' - vf x = e.1 := by omega
          rw [if_pos hek, hkv]
          have hnv : e.1 ∉ vis := hvis e (by simp)
          rw [if_neg hnv, if_pos (by simp)]
          simp only [tmpAt, hkv, he.2]
          cases decide1 br maxV allowOver x e.2 k' dp <;> rfl
        · rw [if_neg hek]
          have hkv : k' - vf x ≠ e.1 := by omega
          by_cases hv : k' - vf x ∈ vis
          · rw [if_pos hv, if_pos (List.mem_append_left _ hv)]
          · rw [if_neg hv, if_neg (by simp [hv, hkv])])
      k hk
    rw [this]
    simp only [List.map_cons, List.append_assoc, List.singleton_append]

/-- The second loop: closed form of `dp[k]` and `dpTmp[k]`. -/
theorem vLoop2_lookup (tmp0 : List (Int × List α)) (hn0 : (keys tmp0).Nodup) :
    ∀ (L : List (Int × List α)) (st : VSt α), (keys st.tmp).Nodup →
    (∀ e ∈ L, alLookup e.1 tmp0 = some e.2) → (L.map (·.1)).Nodup →
    (∀ k, alLookup k st.tmp = if k ∈ L.map (·.1) then alLookup k tmp0 else none) →
    ∀ k, alLookup k (L.foldl vStep2 st).dp =
        (if k ∈ L.map (·.1) then alLookup k tmp0 else alLookup k st.dp) ∧
      alLookup k (L.foldl vStep2 st).tmp = none
  | [], st, _, _, _, h => by intro k; simpa using h k
  | e :: L, st, hnt, hL, hnd, h => by
    intro k
    have hnd' := List.nodup_cons.mp (show (e.1 :: L.map (·.1)).Nodup from hnd)
    simp only [List.foldl_cons]
    have ih := vLoop2_lookup tmp0 hn0 L (vStep2 st e) (nodup_keys_alErase _ _ hnt)
      (fun e' he' => hL e' (List.mem_cons_of_mem _ he')) hnd'.2
      (by
        intro k'
        simp only [vStep2, alLookup_alErase _ _ _ hnt, h k']
        by_cases hek : e.1 = k'
        · subst hek; rw [if_pos rfl, if_neg hnd'.1]
        · rw [if_neg hek]
          simp only [List.map_cons, List.mem_cons]
          by_cases hm : k' ∈ L.map (·.1)
          · rw [if_pos (Or.inr hm), if_pos hm]
          · rw [if_neg (by intro h'; rcases h' with h' | h'; exact hek h'.symm; exact hm h'), if_neg hm])
      k
    refine ⟨?_, ih.2⟩
    rw [ih.1]
    simp only [vStep2, alLookup_alInsert, List.map_cons, List.mem_cons]
    by_cases hm : k ∈ L.map (·.1)
    · rw [if_pos hm, if_pos (Or.inr hm)]
    · rw [if_neg hm]
      by_cases hek : e.1 = k
      · subst hek; rw [if_pos rfl, if_pos (Or.inl rfl), hL e (by simp)]
      · rw [if_neg hek, if_neg (by intro h'; rcases h' with h' | h'; exact hek h'.symm; exact hm h')]

theorem entriesIn_keys {β : Type} (m : List (Int × β)) : ∀ (ks : List Int), (∀ k ∈ ks, k ∈ keys m) →
    (entriesIn m ks).map (·.1) = ks
  | [], _ => rfl
  | k :: ks, h => by
    have hk := h k (by simp)
    cases hl : alLookup k m with
    | none => exact absurd hk (alLookup_none_iff.mp hl)
    | some v =>
      have := entriesIn_keys m ks (fun k' hk' => h k' (List.mem_cons_of_mem _ hk'))
      simp only [entriesIn, List.filterMap_cons, hl, Option.map_some, List.map_cons] at this ⊢
      rw [this]

theorem entriesIn_lookup {β : Type} (m : List (Int × β)) (ks : List Int) :
    ∀ e ∈ entriesIn m ks, alLookup e.1 m = some e.2 := by
  intro e he
  simp only [entriesIn, List.mem_filterMap, Option.map_eq_some_iff] at he
  obtain ⟨k, _, v, hv, rfl⟩ := he
  exact hv

variable (ord1 ord2 : Nat → List Int → List Int)
variable (hord1 : ∀ i l, (ord1 i l).Perm l) (hord2 : ∀ i l, (ord2 i l).Perm l)

include hord1 hord2 in
/-- One pass: the observable cells afterwards, as a function of the cells before. -/
theorem vPass_lookup {pre : List α} (i : Nat) (x : α) (hsub : (pre ++ [x]).Sublist items)
    (st : VSt α) (hq : PInv maxV allowOver vf pre st) (htmp : ∀ k, alLookup k st.tmp = none) :
    (∀ k, InK maxV vf items k →
      alLookup k (vPass br maxV allowOver vf ord1 ord2 i x st).dp =
        match tmpAt br maxV allowOver vf x st.dp k with
        | some r => some r
        | none => alLookup k st.dp) ∧
    (∀ k, alLookup k (vPass br maxV allowOver vf ord1 ord2 i x st).tmp = none) := by
  unfold vPass
  have hp1 := hord1 i (keys st.dp)
  have hmem1 := mem_entriesIn hq.nd hp1
  have hkeys1 : (entriesIn st.dp (ord1 i (st.dp.map (·.1)))).map (·.1) = ord1 i (st.dp.map (·.1)) :=
    entriesIn_keys st.dp _ (fun k hk => hp1.mem_iff.mp hk)
  have hL1 : ∀ e ∈ entriesIn st.dp (ord1 i (st.dp.map (·.1))),
      EntrySound vf pre e ∧ alLookup e.1 st.dp = some e.2 :=
    fun e he => ⟨hq.snd e ((hmem1 e).mp he), entriesIn_lookup st.dp _ e he⟩
  have hnd1 : ((entriesIn st.dp (ord1 i (st.dp.map (·.1)))).map (·.1)).Nodup := by
    rw [hkeys1]; exact hp1.nodup_iff.mpr hq.nd
  have hpi := hq.mono maxV allowOver vf x
  have t1 := vLoop1_tmp br maxV allowOver vf items x hsub st.dp
    (entriesIn st.dp (ord1 i (st.dp.map (·.1)))) [] st rfl hpi hL1 hnd1 (by simp)
    (by intro k _; simp [htmp k])
  obtain ⟨a1, a2, _, _⟩ := vLoop1_inv br maxV allowOver vf x
    (entriesIn st.dp (ord1 i (st.dp.map (·.1)))) st hpi (fun e he => (hL1 e he).1)
  generalize (entriesIn st.dp (ord1 i (st.dp.map (·.1)))).foldl (vStep1 br maxV allowOver x (vf x)) st = st1
    at t1 a1 a2
  -- loop 2
  have hp2 := hord2 i (keys st1.tmp)
  have hkeys2 : (entriesIn st1.tmp (ord2 i (st1.tmp.map (·.1)))).map (·.1) = ord2 i (st1.tmp.map (·.1)) :=
    entriesIn_keys st1.tmp _ (fun k hk => hp2.mem_iff.mp hk)
  have hnd2 : ((entriesIn st1.tmp (ord2 i (st1.tmp.map (·.1)))).map (·.1)).Nodup := by
    rw [hkeys2]; exact hp2.nodup_iff.mpr a1.ndt
  have t2 := vLoop2_lookup st1.tmp a1.ndt (entriesIn st1.tmp (ord2 i (st1.tmp.map (·.1)))) st1 a1.ndt
    (entriesIn_lookup st1.tmp _) hnd2
    (by
      intro k
      rw [hkeys2]
      by_cases hk : k ∈ ord2 i (st1.tmp.map (·.1))
      · rw [if_pos hk]
      · rw [if_neg hk]
        exact alLookup_none_iff.mpr (fun h => hk (hp2.mem_iff.mpr h)))
  rw [hkeys2] at t2
  refine ⟨?_, fun k => (t2 k).2⟩
  intro k hk
  rw [(t2 k).1, a2]
  have ht := t1 k hk
  rw [hkeys1] at ht
  simp only [List.nil_append] at ht
  by_cases hm : k ∈ ord2 i (st1.tmp.map (·.1))
  · rw [if_pos hm, ht]
    have hsome : (alLookup k st1.tmp).isSome := alLookup_isSome_iff.mpr (hp2.mem_iff.mp hm)
    rw [ht] at hsome
    by_cases hv : k - vf x ∈ ord1 i (st.dp.map (·.1))
    · rw [if_pos hv] at hsome ⊢
      cases h : tmpAt br maxV allowOver vf x st.dp k with
      | none => rw [h] at hsome; cases hsome
      | some r => rfl
    · rw [if_neg hv] at hsome; cases hsome
  · rw [if_neg hm]
    have hnone : alLookup k st1.tmp = none := alLookup_none_iff.mpr (fun h => hm (hp2.mem_iff.mpr h))
    rw [ht] at hnone
    by_cases hv : k - vf x ∈ ord1 i (st.dp.map (·.1))
    · rw [if_pos hv] at hnone; rw [hnone]
    · have : alLookup (k - vf x) st.dp = none :=
        alLookup_none_iff.mpr (fun h => hv (hp1.mem_iff.mpr h))
      simp only [tmpAt, this]

end

section
variable (br : Option (List α → List α → Bool)) (maxV : Int) (allowOver : Bool) (vf : α → Int)
variable (ord1 ord2 ord1' ord2' : Nat → List Int → List Int)
variable (hord1 : ∀ i l, (ord1 i l).Perm l) (hord2 : ∀ i l, (ord2 i l).Perm l)
variable (hord1' : ∀ i l, (ord1' i l).Perm l) (hord2' : ∀ i l, (ord2' i l).Perm l)

theorem tmpAt_congr (items : List α) (x : α) (hx : 0 ≤ vf x) (dp dp' : List (Int × List α))
    (h : ∀ k, InK maxV vf items k → alLookup k dp = alLookup k dp') (k : Int)
    (hk : InK maxV vf items k) :
    tmpAt br maxV allowOver vf x dp k = tmpAt br maxV allowOver vf x dp' k := by
  have hk' : InK maxV vf items (k - vf x) := by
    intro a ha hm; have := hk a ha hm; omega
  simp only [tmpAt, decide1, h k hk, h _ hk']

include hord1 hord2 hord1' hord2' in
theorem vItems_lookup_indep (all : List α) : ∀ (items pre : List α) (i j : Nat) (st st' : VSt α),
    pre ++ items = all → (∀ x ∈ items, 0 ≤ vf x) → (allowOver = true → ∀ x ∈ items, 0 < vf x) →
    QInv maxV allowOver vf pre st → QInv maxV allowOver vf pre st' →
    (∀ k, alLookup k st.tmp = none) → (∀ k, alLookup k st'.tmp = none) →
    (∀ k, InK maxV vf all k → alLookup k st.dp = alLookup k st'.dp) →
    ∀ k, InK maxV vf all k →
      alLookup k (vItems br maxV allowOver vf ord1 ord2 i items st).dp =
      alLookup k (vItems br maxV allowOver vf ord1' ord2' j items st').dp
  | [], _, _, _, _, _, _, _, _, _, _, _, _, h => by simpa [vItems] using h
  | x :: xs, pre, i, j, st, st', hall, h0, hp, hq, hq', ht, ht', h => by
    have hsub : (pre ++ [x]).Sublist all := by
      rw [← hall]
      have : pre ++ x :: xs = (pre ++ [x]) ++ xs := by simp
      rw [this]; exact List.sublist_append_left _ _
    have hx := h0 x (by simp)
    obtain ⟨p1, p2⟩ := vPass_lookup br maxV allowOver vf all ord1 ord2 hord1 hord2 i x hsub st hq.toPInv ht
    obtain ⟨p1', p2'⟩ := vPass_lookup br maxV allowOver vf all ord1' ord2' hord1' hord2' j x hsub st' hq'.toPInv ht'
    have q1 := vPass_inv br maxV allowOver vf ord1 ord2 hord1 hord2 i x st hx (fun h => hp h x (by simp)) hq
    have q1' := vPass_inv br maxV allowOver vf ord1' ord2' hord1' hord2' j x st' hx (fun h => hp h x (by simp)) hq'
    simp only [vItems]
    refine vItems_lookup_indep all xs (pre ++ [x]) (i + 1) (j + 1) _ _ (by simp [← hall])
      (fun y hy => h0 y (by simp [hy])) (fun ha y hy => hp ha y (by simp [hy])) q1 q1' p2 p2' ?_
    intro k hk
    rw [p1 k hk, p1' k hk, tmpAt_congr br maxV allowOver vf all x hx st.dp st'.dp h k hk, h k hk]

include hord1 hord2 hord1' hord2' in
/-- The cell stored under every observable key is the same for all iteration orders. -/
theorem solversV_order_indep (items : List α) (h0 : ∀ x ∈ items, 0 ≤ vf x)
    (hp : allowOver = true → ∀ x ∈ items, 0 < vf x) (k : Int) (hk : InK maxV vf items k) :
    alLookup k (solversV br maxV allowOver vf ord1 ord2 items) =
      alLookup k (solversV br maxV allowOver vf ord1' ord2' items) := by
  unfold solversV
  exact vItems_lookup_indep br maxV allowOver vf ord1 ord2 ord1' ord2' hord1 hord2 hord1' hord2'
    items items [] 0 0 _ _ rfl h0 hp (qinv_init maxV allowOver vf) (qinv_init maxV allowOver vf)
    (fun _ => rfl) (fun _ => rfl) (fun _ _ => rfl) k hk

end
end Golib.C18
