/-
C05/C06 driver lemmas (wave 4): what the protocol driver of `Golib/Model/C05.lean` guarantees
about histories of calls — answers are functions of the state at the time of the call, a
query (also one that panics on a trie with patterns inserted since the last build) leaves the
trie untouched, so the next `build` starts from exactly the trie the inserts produced.
-/
import Golib.Model.C05

namespace Golib.C05
open Golib.Proto

abbrev Query := DState → List String → Option (Option (String × Option (List Nat)))

/-- The driver state after the lines `ls` (`none` = dead). -/
def stateAfter (q : Query) : Option DState → List String → Option DState
  | s, [] => s
  | none, _ :: _ => none
  | some s, l :: ls => stateAfter q (stepWith q s (toks l)).2 ls

theorem stateAfter_none (q : Query) : ∀ ls, stateAfter q none ls = none
  | [] => rfl
  | _ :: _ => rfl

/-- Answers are produced line by line: the answers to `a ++ b` are the answers to `a`
followed by the answers to `b` from the state `a` leaves. -/
theorem runOpsWith_append (q : Query) : ∀ (a b : List String) (s : Option DState),
    runOpsWith q s (a ++ b) = runOpsWith q s a ++ runOpsWith q (stateAfter q s a) b := by
  intro a
  induction a with
  | nil => intro b s; cases s <;> simp [runOpsWith, stateAfter]
  | cons l a ih =>
    intro b s
    cases s with
    | none =>
      simp only [List.cons_append, runOpsWith, stateAfter]
      rw [ih b none, stateAfter_none]
    | some s =>
      simp only [List.cons_append, runOpsWith, stateAfter]
      rw [ih b _]

theorem runOpsWith_length (q : Query) : ∀ (a : List String) (s : Option DState),
    (runOpsWith q s a).length = a.length := by
  intro a
  induction a with
  | nil => intro s; cases s <;> rfl
  | cons l a ih => intro s; cases s <;> simp [runOpsWith, ih]

/-- Result stability in the model: the answers already given do not depend on the calls
that follow (what the harness' results ledger checks of the real code). -/
theorem answers_prefix_stable (q : Query) (a b : List String) (s : Option DState) :
    (runOpsWith q s (a ++ b)).take a.length = runOpsWith q s a := by
  rw [runOpsWith_append, List.take_left' (runOpsWith_length q a s)]

/-- A line that is not `insert` / `build` — whatever it answers, also `panic` on a dirty trie or
`bad-op` — leaves the trie and the dirty flag as they were (only `last` may change). -/
theorem query_keeps_trie (q : Query) (s s' : DState) (ts : List String) (hm : mutOp s ts = none)
    (h : (stepWith q s ts).2 = some s') : s'.t = s.t ∧ s'.dirty = s.dirty := by
  simp only [stepWith, hm] at h
  cases hq : q s ts with
  | none => simp only [hq] at h; cases h; exact ⟨rfl, rfl⟩
  | some r =>
    cases r with
    | none =>
      simp only [hq] at h
      split at h
      · cases h; exact ⟨rfl, rfl⟩
      · cases h
    | some p =>
      obtain ⟨out, l⟩ := p
      simp only [hq] at h
      cases l <;> (simp only [] at h; cases h; exact ⟨rfl, rfl⟩)

/-- A panicking query kills the case exactly when the trie is not dirty. -/
theorem query_panic (q : Query) (s : DState) (ts : List String) (hm : mutOp s ts = none)
    (hq : q s ts = some none) :
    stepWith q s ts = ("panic", if s.dirty then some s else none) := by
  simp only [stepWith, hm, hq]

end Golib.C05
