/-
C12 — helper lemmas: lock-discipline invariant of the concurrent machine and race freedom.
-/
import Golib.Model.C12Conc

namespace Golib.C12

theorem check_next {m m' : Mode} {e : Ev} (h : m.check e = some m') : m.next e = m' := by
  cases m <;> cases e <;> simp_all [Mode.check, Mode.next]

theorem wellLockedFrom_cons {m : Mode} {e : Ev} {es : List Ev}
    (h : wellLockedFrom m (e :: es) = true) :
    ∃ m', m.check e = some m' ∧ wellLockedFrom m' es = true := by
  simp only [wellLockedFrom] at h
  split at h
  · exact ⟨_, by assumption, h⟩
  · cases h

theorem wellLockedFrom_append {m : Mode} {xs ys : List Ev}
    (hx : wellLockedFrom m xs = true) (hy : wellLocked ys = true) :
    wellLockedFrom m (xs ++ ys) = true := by
  induction xs generalizing m with
  | nil =>
    simp only [wellLockedFrom, beq_iff_eq] at hx
    subst hx
    simpa [wellLocked] using hy
  | cons e es ih =>
    obtain ⟨m', hc, hr⟩ := wellLockedFrom_cons hx
    simp only [List.cons_append, wellLockedFrom, hc]
    exact ih hr

/-- A concatenation of well-locked bodies is well locked. -/
theorem wellLocked_flatten (bs : List (List Ev)) (h : ∀ b ∈ bs, wellLocked b = true) :
    wellLocked bs.flatten = true := by
  induction bs with
  | nil => rfl
  | cons b bs ih =>
    simp only [List.flatten_cons]
    exact wellLockedFrom_append (h b (by simp)) (ih fun b' hb' => h b' (by simp [hb']))

/-- The invariant: every goroutine's remaining actions are well locked from what it
holds now, and a write-lock holder excludes every other holder. -/
structure LockInv {σ μ : Type} (c : Conf σ μ) : Prop where
  wl : ∀ t, wellLockedFrom (c.th t).mode (evs (c.th t).rest) = true
  excl : ∀ t u, t ≠ u → (c.th t).mode = .w → (c.th u).mode = .free

theorem LockInv.init {σ μ : Type} (s₀ : σ) (prog : Nat → List (Act σ μ)) (init : Nat → μ)
    (h : ∀ t, wellLocked (evs (prog t)) = true) : LockInv (Conf.init s₀ prog init) :=
  ⟨fun t => by simpa [Conf.init, wellLocked] using h t, fun t u _ ht => by simp [Conf.init] at ht⟩

theorem LockInv.step {σ μ : Type} {c c' : Conf σ μ} (hi : LockInv c) (hs : Step c c') : LockInv c' := by
  cases hs with | mk t a as hrest hen =>
  have hwt := hi.wl t
  rw [hrest] at hwt
  simp only [evs, List.map_cons] at hwt
  obtain ⟨m', hck, hwl'⟩ := wellLockedFrom_cons hwt
  have hnext := check_next hck
  constructor
  · intro u
    by_cases hu : u = t
    · subst hu
      simp only [Conf.after, upd, if_true, hnext]
      exact hwl'
    · simp only [Conf.after, upd, hu, if_false]
      exact hi.wl u
  · intro x y hxy hx
    have mode_of : ∀ z, ((c.after t a as).th z).mode = if z = t then m' else (c.th z).mode := by
      intro z
      by_cases hz : z = t <;> simp [Conf.after, upd, hz, hnext]
    rw [mode_of] at hx ⊢
    by_cases hxt : x = t
    · -- the stepping goroutine now holds the write lock: it must just have executed `lock`
      subst hxt
      simp only [if_true] at hx
      subst hx
      have hyt : ¬ y = x := fun h => hxy h.symm
      simp only [hyt, if_false]
      -- either `lock` (everybody held nothing) or it already held w
      cases hm : (c.th x).mode <;> cases he : a.ev <;> simp_all [Mode.check, enabled]
      all_goals exact hi.excl x y hxy hm
    · simp only [hxt, if_false] at hx
      by_cases hyt : y = t
      · subst hyt
        simp only [if_true]
        -- x holds w, so y held nothing and cannot have acquired
        have hy0 := hi.excl x y hxy hx
        cases he : a.ev <;> simp_all [Mode.check, enabled]
      · simp only [hyt, if_false]
        exact hi.excl x y hxy hx

theorem LockInv.reach {σ μ : Type} {c₀ c : Conf σ μ} (h0 : LockInv c₀) (hr : Reach c₀ c) : LockInv c := by
  induction hr with
  | refl => exact h0
  | step _ hs ih => exact ih.step hs

/-- A goroutine whose next action is an access holds the lock; a writing access
needs the write lock. -/
theorem wellLockedFrom_access {m : Mode} {e : Ev} {es : List Ev}
    (h : wellLockedFrom m (e :: es) = true) (hacc : e.isAccess = true) :
    m ≠ .free ∧ (e.writes = true → m = .w) := by
  cases m <;> cases e <;> simp_all [wellLockedFrom, Mode.check, Ev.isAccess, Ev.writes]

/-- A goroutine whose next action is an access holds the lock; a writing access
needs the write lock. -/
theorem LockInv.access_mode {σ μ : Type} {c : Conf σ μ} (hi : LockInv c) {t : Nat} {a : Act σ μ}
    {as : List (Act σ μ)} (hrest : (c.th t).rest = a :: as) (hacc : a.ev.isAccess = true) :
    (c.th t).mode ≠ .free ∧ (a.ev.writes = true → (c.th t).mode = .w) := by
  have h := hi.wl t
  rw [hrest] at h
  simp only [evs, List.map_cons] at h
  exact wellLockedFrom_access h hacc

theorem LockInv.no_race {σ μ : Type} {c : Conf σ μ} (hi : LockInv c) : ¬ Race c := by
  rintro ⟨t, u, a, as, b, bs, htu, hta, hub, haa, hba, hw⟩
  obtain ⟨hnt, hwt⟩ := hi.access_mode hta haa
  obtain ⟨hnu, hwu⟩ := hi.access_mode hub hba
  rcases hw with hw | hw
  · exact hnu (hi.excl t u htu (hwt hw))
  · exact hnt (hi.excl u t (Ne.symm htu) (hwu hw))

end Golib.C12
