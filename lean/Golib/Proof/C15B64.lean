/-
Base64 codec model: decoding inverts encoding for all four encodings, and an invalid character
is reported at its own offset together with the bytes of the complete quanta before it.
-/
import Golib.Model.C15B64

namespace Golib.C15

theorem b64_table : ∀ (url : Bool) (v : Nat), v < 64 →
    b64Val url (b64Char url v) = some v ∧ isNL (b64Char url v) = false ∧ b64Char url v ≠ 61 ∧
      b64Char url v < 256 := by
  decide +kernel

theorem b64Val_pad : ∀ url : Bool, b64Val url 61 = none ∧ isNL 61 = false := by decide

theorem b64Char_mod (url : Bool) (v : Nat) : b64Char url (v % 64) = b64Char url v := by
  simp [b64Char]

theorem b64Val_b64Char (url : Bool) (v : Nat) : b64Val url (b64Char url v) = some (v % 64) := by
  rw [← b64Char_mod]; exact (b64_table url _ (Nat.mod_lt _ (by decide))).1

/-- One alphabet character in the middle of a quantum. -/
theorem dec_char (e : B64Enc) (total : Nat) (v : Nat) (rest : List Nat) (si j : Nat)
    (dbuf out : List Nat) (hj : j ≠ 3) :
    b64Dec e total (b64Char e.url v :: rest) si j dbuf out =
      b64Dec e total rest (si + 1) (j + 1) (dbuf ++ [v % 64]) out := by
  simp only [b64Dec, b64Val_b64Char, if_neg hj]

/-- The fourth alphabet character completes the quantum. -/
theorem dec_char3 (e : B64Enc) (total : Nat) (v : Nat) (rest : List Nat) (si : Nat)
    (dbuf out : List Nat) :
    b64Dec e total (b64Char e.url v :: rest) si 3 dbuf out =
      b64Dec e total rest (si + 1) 0 [] (out ++ quantumBytes 4 (dbuf ++ [v % 64])) := by
  simp only [b64Dec, b64Val_b64Char, if_true]

theorem qb_three (a b c : Nat) (ha : a < 256) (hb : b < 256) (hc : c < 256) :
    quantumBytes 4 [(a * 65536 + b * 256 + c) / 262144 % 64, (a * 65536 + b * 256 + c) / 4096 % 64,
      (a * 65536 + b * 256 + c) / 64 % 64, (a * 65536 + b * 256 + c) % 64] = [a, b, c] := by
  simp only [quantumBytes, List.getElem?_cons_zero, List.getElem?_cons_succ, List.take_succ_cons,
    List.take_zero, Nat.add_one_sub_one]
  have hv : (a * 65536 + b * 256 + c) / 262144 % 64 * 262144 + (a * 65536 + b * 256 + c) / 4096 % 64 * 4096 +
      (a * 65536 + b * 256 + c) / 64 % 64 * 64 + (a * 65536 + b * 256 + c) % 64 = a * 65536 + b * 256 + c := by
    omega
  rw [hv]
  simp only [List.cons.injEq, and_true]
  omega

theorem qb_two (a b : Nat) (ha : a < 256) (hb : b < 256) :
    quantumBytes 3 [(a * 65536 + b * 256) / 262144 % 64, (a * 65536 + b * 256) / 4096 % 64,
      (a * 65536 + b * 256) / 64 % 64] = [a, b] := by
  simp only [quantumBytes, List.getElem?_cons_zero, List.getElem?_cons_succ, List.getElem?_nil,
    List.take_succ_cons, List.take_zero, Nat.add_one_sub_one]
  have hv : (a * 65536 + b * 256) / 262144 % 64 * 262144 + (a * 65536 + b * 256) / 4096 % 64 * 4096 +
      (a * 65536 + b * 256) / 64 % 64 * 64 + 0 = a * 65536 + b * 256 := by
    omega
  rw [hv]
  simp only [List.cons.injEq, and_true]
  omega

theorem qb_one (a : Nat) (ha : a < 256) :
    quantumBytes 2 [(a * 65536) / 262144 % 64, (a * 65536) / 4096 % 64] = [a] := by
  simp only [quantumBytes, List.getElem?_cons_zero, List.getElem?_cons_succ, List.getElem?_nil,
    List.take_succ_cons, List.take_zero, Nat.add_one_sub_one]
  have hv : (a * 65536) / 262144 % 64 * 262144 + (a * 65536) / 4096 % 64 * 4096 + 0 * 64 + 0 = a * 65536 := by
    omega
  rw [hv]
  simp only [List.cons.injEq, and_true]
  omega

/-- A full encoded triple in front of anything. -/
theorem dec_triple (e : B64Enc) (total : Nat) (a b c : Nat) (ha : a < 256) (hb : b < 256)
    (hc : c < 256) (tl : List Nat) (si : Nat) (out : List Nat) :
    b64Dec e total (b64Char e.url ((a * 65536 + b * 256 + c) / 262144) ::
        b64Char e.url ((a * 65536 + b * 256 + c) / 4096) ::
        b64Char e.url ((a * 65536 + b * 256 + c) / 64) ::
        b64Char e.url (a * 65536 + b * 256 + c) :: tl) si 0 [] out =
      b64Dec e total tl (si + 4) 0 [] (out ++ [a, b, c]) := by
  rw [dec_char e total _ _ si 0 [] out (by decide), dec_char e total _ _ (si + 1) 1 _ out (by decide),
    dec_char e total _ _ (si + 1 + 1) 2 _ out (by decide), dec_char3]
  simp only [List.nil_append, List.cons_append]
  rw [qb_three a b c ha hb hc]

theorem dec_encode (e : B64Enc) (total : Nat) (n : Nat) : ∀ (x : List Nat), x.length ≤ n →
    (∀ y ∈ x, y < 256) → ∀ (si : Nat) (out : List Nat),
    b64Dec e total (b64Encode e x) si 0 [] out = (out ++ x, none) := by
  induction n with
  | zero =>
    intro x hn _ si out
    obtain rfl : x = [] := List.eq_nil_of_length_eq_zero (by omega)
    simp [b64Encode, b64Dec]
  | succ n ih =>
    intro x hn hx si out
    match x, hn, hx with
    | [], _, _ => simp [b64Encode, b64Dec]
    | [a], _, hx =>
      have ha : a < 256 := hx a (by simp)
      obtain ⟨url, pad⟩ := e
      cases pad
      · simp only [b64Encode, Bool.false_eq_true, if_false, List.append_nil]
        rw [dec_char _ total _ _ si 0 [] out (by decide), dec_char _ total _ _ (si + 1) 1 _ out (by decide)]
        simp only [b64Dec, List.nil_append, List.cons_append]
        simp [qb_one a ha]
      · simp only [b64Encode, if_true, List.cons_append, List.nil_append]
        rw [dec_char _ total _ _ si 0 [] out (by decide), dec_char _ total _ _ (si + 1) 1 _ out (by decide)]
        simp only [List.nil_append, List.cons_append]
        simp [b64Dec, (b64Val_pad url).1, (b64Val_pad url).2, skipNL, padTail, qb_one a ha]
    | [a, b], _, hx =>
      have ha : a < 256 := hx a (by simp)
      have hb : b < 256 := hx b (by simp)
      obtain ⟨url, pad⟩ := e
      cases pad
      · simp only [b64Encode, Bool.false_eq_true, if_false, List.append_nil]
        rw [dec_char _ total _ _ si 0 [] out (by decide), dec_char _ total _ _ (si + 1) 1 _ out (by decide),
          dec_char _ total _ _ (si + 1 + 1) 2 _ out (by decide)]
        simp only [b64Dec, List.nil_append, List.cons_append]
        simp [qb_two a b ha hb]
      · simp only [b64Encode, if_true, List.cons_append, List.nil_append]
        rw [dec_char _ total _ _ si 0 [] out (by decide), dec_char _ total _ _ (si + 1) 1 _ out (by decide),
          dec_char _ total _ _ (si + 1 + 1) 2 _ out (by decide)]
        simp only [List.nil_append, List.cons_append]
        simp [b64Dec, (b64Val_pad url).1, (b64Val_pad url).2, skipNL, padTail, qb_two a b ha hb]
    | a :: b :: c :: rest, hn, hx =>
      have ha : a < 256 := hx a (by simp)
      have hb : b < 256 := hx b (by simp)
      have hc : c < 256 := hx c (by simp)
      have hr : ∀ y ∈ rest, y < 256 := fun y hy => hx y (by simp [hy])
      simp only [b64Encode]
      rw [dec_triple e total a b c ha hb hc, ih rest (by simp at hn; omega) hr]
      simp

/-- `Decode(Encode(x)) = (x, nil)` for every byte string and each of the four encodings. -/
theorem b64_roundtrip (e : B64Enc) (x : List Nat) (hx : ∀ y ∈ x, y < 256) :
    b64Decode e (b64Encode e x) = (x, none) := by
  unfold b64Decode
  rw [dec_encode e _ x.length x (Nat.le_refl _) hx]
  simp

/-- Whole triples in front of any tail are decoded and the cursor advances by 4 per triple. -/
theorem dec_encode_prefix (e : B64Enc) (total : Nat) (n : Nat) : ∀ (x : List Nat), x.length ≤ n →
    x.length % 3 = 0 → (∀ y ∈ x, y < 256) → ∀ (tl : List Nat) (si : Nat) (out : List Nat),
    b64Dec e total (b64Encode e x ++ tl) si 0 [] out =
      b64Dec e total tl (si + (b64Encode e x).length) 0 [] (out ++ x) := by
  induction n with
  | zero =>
    intro x hn _ _ tl si out
    obtain rfl : x = [] := List.eq_nil_of_length_eq_zero (by omega)
    simp [b64Encode]
  | succ n ih =>
    intro x hn hm hx tl si out
    match x, hn, hm, hx with
    | [], _, _, _ => simp [b64Encode]
    | [a], _, hm, _ => simp at hm
    | [a, b], _, hm, _ => simp at hm
    | a :: b :: c :: rest, hn, hm, hx =>
      have ha : a < 256 := hx a (by simp)
      have hb : b < 256 := hx b (by simp)
      have hc : c < 256 := hx c (by simp)
      have hr : ∀ y ∈ rest, y < 256 := fun y hy => hx y (by simp [hy])
      simp only [b64Encode, List.cons_append]
      rw [dec_triple e total a b c ha hb hc,
        ih rest (by simp at hn; omega) (by simp at hm; omega) hr]
      simp only [List.length_cons, List.append_assoc, List.cons_append, List.nil_append]
      congr 1
      omega

/-- An invalid character (not in the alphabet, not a newline, and not a `=` that could be
padding) after complete triples and `j ≤ 3` further alphabet characters is reported at its own
offset, with the bytes of the complete triples — whatever follows it. -/
theorem b64_invalid_char (e : B64Enc) (x : List Nat) (hm : x.length % 3 = 0) (hx : ∀ y ∈ x, y < 256)
    (q : List Nat) (hq : q.length ≤ 3) (c : Nat) (post : List Nat)
    (hc : b64Val e.url c = none) (hnl : isNL c = false)
    (hpad : ¬ (e.pad = true ∧ c = 61) ∨ q.length < 2) :
    b64Decode e (b64Encode e x ++ q.map (b64Char e.url) ++ c :: post) =
      (x, some ((b64Encode e x).length + q.length)) := by
  unfold b64Decode
  rw [List.append_assoc, dec_encode_prefix e _ x.length x (Nat.le_refl _) hm hx]
  simp only [Nat.zero_add, List.nil_append]
  have hstop : ∀ (si j : Nat) (dbuf out : List Nat), (¬ (e.pad = true ∧ c = 61) ∨ j < 2) →
      b64Dec e (b64Encode e x ++ (q.map (b64Char e.url) ++ c :: post)).length (c :: post) si j dbuf out
        = (out, some si) := by
    intro si j dbuf out hp
    simp only [b64Dec, hc, hnl, Bool.false_eq_true, if_false]
    rcases hp with hp | hp
    · rw [if_pos hp]
    · by_cases h1 : ¬ (e.pad = true ∧ c = 61)
      · rw [if_pos h1]
      · rw [if_neg h1, if_pos hp]
  match q, hq with
  | [], _ =>
    simp only [List.map_nil, List.nil_append, List.length_nil, Nat.add_zero]
    exact hstop _ 0 [] x (by simpa using hpad)
  | [v0], _ =>
    simp only [List.map_cons, List.map_nil, List.cons_append, List.nil_append, List.length_cons,
      List.length_nil]
    rw [dec_char e _ _ _ _ 0 [] x (by decide)]
    exact hstop _ 1 _ x (by simpa using hpad)
  | [v0, v1], _ =>
    simp only [List.map_cons, List.map_nil, List.cons_append, List.nil_append, List.length_cons,
      List.length_nil]
    rw [dec_char e _ _ _ _ 0 [] x (by decide), dec_char e _ _ _ _ 1 _ x (by decide)]
    have := hstop ((b64Encode e x).length + 1 + 1) 2 ([] ++ [v0 % 64] ++ [v1 % 64]) x
      (by simpa using hpad)
    simpa [Nat.add_assoc] using this
  | [v0, v1, v2], _ =>
    simp only [List.map_cons, List.map_nil, List.cons_append, List.nil_append, List.length_cons,
      List.length_nil]
    rw [dec_char e _ _ _ _ 0 [] x (by decide), dec_char e _ _ _ _ 1 _ x (by decide),
      dec_char e _ _ _ _ 2 _ x (by decide)]
    have := hstop ((b64Encode e x).length + 1 + 1 + 1) 3 ([] ++ [v0 % 64] ++ [v1 % 64] ++ [v2 % 64]) x
      (by simpa using hpad)
    simpa [Nat.add_assoc] using this

end Golib.C15
