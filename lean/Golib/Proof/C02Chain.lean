/-
C02 helper lemmas, part 1: one level (one sorted chain).
`lo/ge/gt` split a chain around a key; the walk of the search loop ends at `pred`.
-/
import Golib.Model.C02Skip

set_option linter.unusedSectionVars false

namespace Golib.C02

variable {K : Type} [DecidableEq K]

/-- The comparator laws ("any total-order comparator"). -/
structure TotalCmp (cmp : K → K → Int) : Prop where
  eq_iff : ∀ a b, cmp a b = 0 ↔ a = b
  gt_iff : ∀ a b, 0 < cmp a b ↔ cmp b a < 0
  trans : ∀ a b c, cmp a b < 0 → cmp b c < 0 → cmp a c < 0

/-- The comparator laws of a weak order (total preorder): distinct keys may compare equal
(case-insensitive strings, compare by a projection).  The lists treat equivalent keys as the
same binding. -/
structure WeakCmp (cmp : K → K → Int) : Prop where
  refl : ∀ a, cmp a a = 0
  gt_iff : ∀ a b, 0 < cmp a b ↔ cmp b a < 0
  le_trans : ∀ a b c, cmp a b ≤ 0 → cmp b c ≤ 0 → cmp a c ≤ 0

section
variable (cmp : K → K → Int)

/-- Strictly ascending under `cmp`. -/
def Sorted (l : List K) : Prop := l.Pairwise (fun a b => cmp a b < 0)

def lo (key : K) (l : List K) : List K := l.filter (fun x => decide (cmp x key < 0))
def ge (key : K) (l : List K) : List K := l.filter (fun x => !decide (cmp x key < 0))
def gt (key : K) (l : List K) : List K := l.filter (fun x => decide (cmp key x < 0))

/-- Last element, or the default. -/
def lastOr : List K → Option K → Option K
  | [], d => d
  | x :: xs, _ => lastOr xs (some x)

/-- The predecessor node of `key` on a chain (`none` = head). -/
def pred (key : K) (l : List K) : Option K := lastOr (lo cmp key l) none

/-- The node of a chain that compares equal to `key` (what the walk hits). -/
def findEq (key : K) (l : List K) : Option K := l.find? (fun n => cmp n key == 0)

/-- Chain after splicing `key` in. -/
def ins (key : K) (l : List K) : List K := lo cmp key l ++ key :: ge cmp key l
/-- Chain after unsplicing `key`. -/
def del (key : K) (l : List K) : List K := lo cmp key l ++ gt cmp key l
end

variable {cmp : K → K → Int}

theorem TotalCmp.irrefl (h : TotalCmp cmp) (a : K) : ¬ cmp a a < 0 := by
  have := (h.eq_iff a a).mpr rfl; omega

/-! ### consequences of the weak-order laws -/

theorem WeakCmp.irrefl (h : WeakCmp cmp) (a : K) : ¬ cmp a a < 0 := by
  have := h.refl a; omega

theorem WeakCmp.le_of_eq (h : WeakCmp cmp) {a b : K} (hab : cmp a b = 0) : cmp b a ≤ 0 := by
  rcases (by omega : 0 < (cmp b a) ∨ 0 ≥ (cmp b a)) with h1 | h1
  · have := (h.gt_iff b a).mp h1; omega
  · exact h1

theorem WeakCmp.eq_symm (h : WeakCmp cmp) {a b : K} (hab : cmp a b = 0) : cmp b a = 0 := by
  have h1 := h.le_of_eq hab
  rcases (by omega : (cmp b a) < 0 ∨ (cmp b a) ≥ 0) with h2 | h2
  · have := (h.gt_iff a b).mpr h2; omega
  · omega

theorem WeakCmp.lt_of_lt_of_le (h : WeakCmp cmp) {a b c : K} (h1 : cmp a b < 0) (h2 : cmp b c ≤ 0) :
    cmp a c < 0 := by
  have h3 := h.le_trans a b c (by omega) h2
  rcases (by omega : (cmp a c) < 0 ∨ (cmp a c) ≥ 0) with h4 | h4
  · exact h4
  · have h5 : cmp a c = 0 := by omega
    have h6 := h.le_trans b c a h2 (h.le_of_eq h5)
    have h7 := (h.gt_iff b a).mpr h1
    omega

theorem WeakCmp.lt_of_le_of_lt (h : WeakCmp cmp) {a b c : K} (h1 : cmp a b ≤ 0) (h2 : cmp b c < 0) :
    cmp a c < 0 := by
  have h3 := h.le_trans a b c h1 (by omega)
  rcases (by omega : (cmp a c) < 0 ∨ (cmp a c) ≥ 0) with h4 | h4
  · exact h4
  · have h5 : cmp a c = 0 := by omega
    have h6 := h.le_trans c a b (h.le_of_eq h5) h1
    have h7 := (h.gt_iff c b).mpr h2
    omega

/-- Transitivity of the strict part. -/
theorem WeakCmp.trans (h : WeakCmp cmp) (a b c : K) (h1 : cmp a b < 0) (h2 : cmp b c < 0) : cmp a c < 0 :=
  h.lt_of_lt_of_le h1 (by omega)

theorem WeakCmp.asymm (h : WeakCmp cmp) {a b : K} (hab : cmp a b < 0) : ¬ cmp b a < 0 := by
  intro hba; exact h.irrefl a (h.trans _ _ _ hab hba)

theorem WeakCmp.ne_of_lt (h : WeakCmp cmp) {a b : K} (hab : cmp a b < 0) : a ≠ b := by
  intro e; subst e; exact h.irrefl a hab

theorem WeakCmp.tri (h : WeakCmp cmp) (a b : K) : cmp a b < 0 ∨ cmp a b = 0 ∨ cmp b a < 0 := by
  rcases Int.lt_trichotomy (cmp a b) 0 with h1 | h1 | h1
  · exact Or.inl h1
  · exact Or.inr (Or.inl h1)
  · exact Or.inr (Or.inr ((h.gt_iff a b).mp h1))

theorem WeakCmp.not_lt (h : WeakCmp cmp) {a b : K} : ¬ cmp a b < 0 ↔ (cmp a b = 0 ∨ cmp b a < 0) := by
  constructor
  · intro hn; rcases h.tri a b with h1 | h1 | h1
    · exact absurd h1 hn
    · exact Or.inl h1
    · exact Or.inr h1
  · rintro (h1 | h1)
    · omega
    · exact h.asymm h1

/-- Equivalent keys are below the same keys. -/
theorem WeakCmp.lt_congr_left (h : WeakCmp cmp) {a b : K} (hab : cmp a b = 0) (c : K) :
    cmp a c < 0 ↔ cmp b c < 0 :=
  ⟨fun h1 => h.lt_of_le_of_lt (h.le_of_eq hab) h1, fun h1 => h.lt_of_le_of_lt (by omega) h1⟩

/-- Equivalent keys are above the same keys. -/
theorem WeakCmp.lt_congr_right (h : WeakCmp cmp) {a b : K} (hab : cmp a b = 0) (c : K) :
    cmp c a < 0 ↔ cmp c b < 0 :=
  ⟨fun h1 => h.lt_of_lt_of_le h1 (by omega), fun h1 => h.lt_of_lt_of_le h1 (h.le_of_eq hab)⟩

theorem WeakCmp.eq_trans (h : WeakCmp cmp) {a b c : K} (h1 : cmp a b = 0) (h2 : cmp b c = 0) : cmp a c = 0 := by
  have h3 := h.le_trans a b c (by omega) (by omega)
  have h4 := h.le_trans c b a (h.le_of_eq h2) (h.le_of_eq h1)
  rcases (by omega : (cmp a c) < 0 ∨ (cmp a c) ≥ 0) with h5 | h5
  · have := (h.gt_iff c a).mpr h5; omega
  · omega

/-- A total-order comparator is in particular a weak-order comparator. -/
theorem TotalCmp.toWeak (h : TotalCmp cmp) : WeakCmp cmp := by
  refine ⟨fun a => (h.eq_iff a a).mpr rfl, h.gt_iff, ?_⟩
  intro a b c h1 h2
  rcases (by omega : (cmp a b) < 0 ∨ (cmp a b) ≥ 0) with h3 | h3
  · rcases (by omega : (cmp b c) < 0 ∨ (cmp b c) ≥ 0) with h4 | h4
    · have := h.trans a b c h3 h4; omega
    · have : b = c := (h.eq_iff b c).mp (by omega)
      subst this; exact h1
  · have : a = b := (h.eq_iff a b).mp (by omega)
    subst this; exact h2

theorem Sorted.tail {x : K} {xs : List K} (h : Sorted cmp (x :: xs)) : Sorted cmp xs :=
  (List.pairwise_cons.mp h).2

theorem Sorted.head_lt {x : K} {xs : List K} (h : Sorted cmp (x :: xs)) : ∀ y ∈ xs, cmp x y < 0 :=
  (List.pairwise_cons.mp h).1

theorem Sorted.sublist {l l' : List K} (h : Sorted cmp l) (hs : l'.Sublist l) : Sorted cmp l' :=
  List.Pairwise.sublist hs h

theorem Sorted.filter {l : List K} (h : Sorted cmp l) (p : K → Bool) : Sorted cmp (l.filter p) :=
  h.sublist List.filter_sublist

/-! ### the split of a sorted chain around a key -/

theorem lo_eq_nil_of_head_ge (hc : WeakCmp cmp) {key x : K} {xs : List K}
    (hs : Sorted cmp (x :: xs)) (hx : ¬ cmp x key < 0) : lo cmp key (x :: xs) = [] := by
  unfold lo
  rw [List.filter_eq_nil_iff]
  intro y hy
  simp only [decide_eq_true_eq]
  rcases List.mem_cons.mp hy with rfl | hy
  · exact hx
  · intro hlt; exact hx (hc.trans _ _ _ (hs.head_lt y hy) hlt)

theorem ge_eq_self_of_head_ge (hc : WeakCmp cmp) {key x : K} {xs : List K}
    (hs : Sorted cmp (x :: xs)) (hx : ¬ cmp x key < 0) : ge cmp key (x :: xs) = x :: xs := by
  unfold ge
  rw [List.filter_eq_self]
  intro y hy
  simp only [Bool.not_eq_true', decide_eq_false_iff_not]
  rcases List.mem_cons.mp hy with rfl | hy
  · exact hx
  · intro hlt; exact hx (hc.trans _ _ _ (hs.head_lt y hy) hlt)

theorem lo_append_ge (hc : WeakCmp cmp) (key : K) {l : List K} (hs : Sorted cmp l) :
    lo cmp key l ++ ge cmp key l = l := by
  induction l with
  | nil => rfl
  | cons x xs ih =>
    by_cases hx : cmp x key < 0
    · have h1 : lo cmp key (x :: xs) = x :: lo cmp key xs := by simp [lo, hx]
      have h2 : ge cmp key (x :: xs) = ge cmp key xs := by simp [ge, hx]
      rw [h1, h2, List.cons_append, ih hs.tail]
    · rw [lo_eq_nil_of_head_ge hc hs hx, ge_eq_self_of_head_ge hc hs hx]; rfl

theorem mem_lo {key y : K} {l : List K} : y ∈ lo cmp key l ↔ y ∈ l ∧ cmp y key < 0 := by
  simp [lo]

theorem mem_ge {key y : K} {l : List K} : y ∈ ge cmp key l ↔ y ∈ l ∧ ¬ cmp y key < 0 := by
  simp [ge]

theorem mem_gt {key y : K} {l : List K} : y ∈ gt cmp key l ↔ y ∈ l ∧ cmp key y < 0 := by
  simp [gt]

/-- On a sorted chain that holds `key`, the part `≥ key` starts with `key`. -/
theorem ge_of_mem (hc : WeakCmp cmp) {key : K} {l : List K} (hs : Sorted cmp l) (hm : key ∈ l) :
    ge cmp key l = key :: gt cmp key l := by
  induction l with
  | nil => cases hm
  | cons x xs ih =>
    by_cases hxk : x = key
    · subst hxk
      have h1 : ge cmp x (x :: xs) = x :: xs := ge_eq_self_of_head_ge hc hs (hc.irrefl x)
      have h2 : gt cmp x (x :: xs) = xs := by
        unfold gt
        rw [List.filter_cons_of_neg (by simpa using hc.irrefl x), List.filter_eq_self]
        intro y hy; simpa using hs.head_lt y hy
      rw [h1, h2]
    · have hm' : key ∈ xs := by
        rcases List.mem_cons.mp hm with h | h
        · exact absurd h.symm hxk
        · exact h
      have hlt : cmp x key < 0 := hs.head_lt key hm'
      have h1 : ge cmp key (x :: xs) = ge cmp key xs := by simp [ge, hlt]
      have h2 : gt cmp key (x :: xs) = gt cmp key xs := by
        unfold gt; rw [List.filter_cons_of_neg (by simpa using hc.asymm hlt)]
      rw [h1, h2, ih hs.tail hm']

/-! ### equivalent keys split a chain the same way -/

theorem lo_congr (hc : WeakCmp cmp) {n key : K} (h : cmp n key = 0) : lo cmp key = lo cmp n := by
  funext l; unfold lo
  apply List.filter_congr
  intro y _
  have := hc.lt_congr_right h y
  simp only [decide_eq_decide]; exact this.symm

theorem gt_congr (hc : WeakCmp cmp) {n key : K} (h : cmp n key = 0) : gt cmp key = gt cmp n := by
  funext l; unfold gt
  apply List.filter_congr
  intro y _
  have := hc.lt_congr_left h y
  simp only [decide_eq_decide]; exact this.symm

theorem ge_congr (hc : WeakCmp cmp) {n key : K} (h : cmp n key = 0) : ge cmp key = ge cmp n := by
  funext l; unfold ge
  apply List.filter_congr
  intro y _
  have := hc.lt_congr_right h y
  simp only [Bool.not_eq_eq_eq_not, Bool.not_not, decide_eq_decide]; exact this.symm

theorem pred_congr (hc : WeakCmp cmp) {n key : K} (h : cmp n key = 0) : pred cmp key = pred cmp n := by
  funext l; unfold pred; rw [lo_congr hc h]

theorem del_congr (hc : WeakCmp cmp) {n key : K} (h : cmp n key = 0) : del cmp key = del cmp n := by
  funext l; unfold del; rw [lo_congr hc h, gt_congr hc h]

/-- On a sorted chain whose node `n` is equivalent to `key`, the part `≥ key` starts with `n`. -/
theorem ge_of_equiv (hc : WeakCmp cmp) {n key : K} {l : List K} (hs : Sorted cmp l) (hm : n ∈ l)
    (h : cmp n key = 0) : ge cmp key l = n :: gt cmp key l := by
  rw [ge_congr hc h, gt_congr hc h]; exact ge_of_mem hc hs hm

/-- Two nodes of a sorted chain are equal or strictly ordered. -/
theorem Sorted.lt_or_gt {l : List K} (hs : Sorted cmp l) {a b : K} (ha : a ∈ l) (hb : b ∈ l)
    (hne : a ≠ b) : cmp a b < 0 ∨ cmp b a < 0 := by
  induction l with
  | nil => cases ha
  | cons x xs ih =>
    rcases List.mem_cons.mp ha with rfl | ha' <;> rcases List.mem_cons.mp hb with rfl | hb'
    · exact absurd rfl hne
    · exact Or.inl (hs.head_lt b hb')
    · exact Or.inr (hs.head_lt a ha')
    · exact ih hs.tail ha' hb'

/-- Two nodes of a sorted chain are inequivalent. -/
theorem Sorted.not_equiv (hc : WeakCmp cmp) {l : List K} (hs : Sorted cmp l) {a b : K} (ha : a ∈ l)
    (hb : b ∈ l) (hne : a ≠ b) : cmp a b ≠ 0 := by
  rcases hs.lt_or_gt ha hb hne with h | h
  · omega
  · have := (hc.gt_iff a b).mpr h; omega

/-! ### the node equivalent to a key -/

theorem findEq_some {key n : K} {l : List K} (h : findEq cmp key l = some n) : n ∈ l ∧ cmp n key = 0 := by
  unfold findEq at h
  exact ⟨List.mem_of_find?_eq_some h, by simpa using List.find?_some h⟩

theorem findEq_none {key : K} {l : List K} : findEq cmp key l = none ↔ ∀ y ∈ l, cmp y key ≠ 0 := by
  unfold findEq; simp

theorem findEq_of_mem (hc : WeakCmp cmp) {key n : K} {l : List K} (hs : Sorted cmp l) (hn : n ∈ l)
    (he : cmp n key = 0) : findEq cmp key l = some n := by
  cases hf : findEq cmp key l with
  | none => exact absurd he (findEq_none.mp hf n hn)
  | some n' =>
    obtain ⟨h1, h2⟩ := findEq_some hf
    by_cases hne : n' = n
    · rw [hne]
    · exact absurd (hc.eq_trans h2 (hc.eq_symm he)) (hs.not_equiv hc h1 hn hne)

/-- On a sub-chain the node equivalent to `key` is the same one, if it is there. -/
theorem findEq_sublist (hc : WeakCmp cmp) {key : K} {l L : List K} (hs : Sorted cmp L) (hsub : l.Sublist L) :
    findEq cmp key l = match findEq cmp key L with
      | none => none
      | some n => if n ∈ l then some n else none := by
  cases hf : findEq cmp key L with
  | none =>
    simp only []
    rw [findEq_none] at hf ⊢
    exact fun y hy => hf y (hsub.subset hy)
  | some n =>
    simp only []
    obtain ⟨h1, h2⟩ := findEq_some hf
    by_cases hn : n ∈ l
    · rw [if_pos hn]; exact findEq_of_mem hc (hs.sublist hsub) hn h2
    · rw [if_neg hn, findEq_none]
      intro y hy he
      have hyn : y ≠ n := fun e => hn (e ▸ hy)
      exact hs.not_equiv hc (hsub.subset hy) h1 hyn (hc.eq_trans he (hc.eq_symm h2))

/-- On a sorted chain that holds no node equivalent to `key`, `≥ key` is `> key`. -/
theorem ge_of_not_mem (hc : WeakCmp cmp) {key : K} {l : List K} (hm : ∀ y ∈ l, cmp y key ≠ 0) :
    ge cmp key l = gt cmp key l := by
  unfold ge gt
  apply List.filter_congr
  intro y hy
  have hne : cmp y key ≠ 0 := hm y hy
  by_cases h1 : cmp y key < 0
  · simp [h1, hc.asymm h1]
  · have := (hc.not_lt.mp h1).resolve_left hne
    simp [h1, this]

/-! ### walking a chain -/

theorem walk_spec (hc : WeakCmp cmp) (key : K) :
    ∀ (l : List K) (cur : Option K), Sorted cmp l →
      walk cmp key cur l = (lastOr (lo cmp key l) cur, findEq cmp key l) := by
  intro l
  induction l with
  | nil => intro cur _; simp [walk, lo, lastOr, findEq]
  | cons n rest ih =>
    intro cur hs
    unfold walk
    simp only []
    by_cases h1 : cmp n key > 0
    · have hnl : ¬ cmp n key < 0 := by omega
      have hkn : cmp key n < 0 := (hc.gt_iff n key).mp h1
      rw [if_pos h1, lo_eq_nil_of_head_ge hc hs hnl]
      have : findEq cmp key (n :: rest) = none := by
        rw [findEq_none]; intro y hy
        rcases List.mem_cons.mp hy with rfl | hy
        · omega
        · have h2 := hc.trans _ _ _ hkn (hs.head_lt y hy)
          have := (hc.gt_iff y key).mpr h2; omega
      simp [this, lastOr]
    · rw [if_neg h1]
      by_cases h2 : cmp n key = 0
      · have : (cmp n key == 0) = true := by simp [h2]
        rw [if_pos this, lo_eq_nil_of_head_ge hc hs (by omega)]
        simp [lastOr, findEq, h2]
      · have : (cmp n key == 0) = false := by simp [h2]
        rw [this]
        simp only [Bool.false_eq_true, if_false]
        have hlt : cmp n key < 0 := by omega
        have h3 : lo cmp key (n :: rest) = n :: lo cmp key rest := by simp [lo, hlt]
        rw [ih (some n) hs.tail, h3]
        simp [lastOr, findEq, h2]

theorem afterNode_spec (hc : WeakCmp cmp) {c : K} :
    ∀ {l : List K}, Sorted cmp l → c ∈ l → afterNode c l = some (gt cmp c l) := by
  intro l
  induction l with
  | nil => intro _ hm; cases hm
  | cons x xs ih =>
    intro hs hm
    unfold afterNode
    by_cases hxc : x = c
    · subst hxc
      rw [if_pos rfl]
      have : gt cmp x (x :: xs) = xs := by
        unfold gt
        rw [List.filter_cons_of_neg (by simpa using hc.irrefl x), List.filter_eq_self]
        intro y hy; simpa using hs.head_lt y hy
      rw [this]
    · rw [if_neg hxc]
      have hm' : c ∈ xs := by
        rcases List.mem_cons.mp hm with h | h
        · exact absurd h.symm hxc
        · exact h
      have hlt : cmp x c < 0 := hs.head_lt c hm'
      have : gt cmp c (x :: xs) = gt cmp c xs := by
        unfold gt; rw [List.filter_cons_of_neg (by simpa using hc.asymm hlt)]
      rw [this]
      exact ih hs.tail hm'

theorem lastOr_shift (hc : WeakCmp cmp) {key c : K} (hck : cmp c key < 0) :
    ∀ {l : List K} (d : Option K), Sorted cmp l → c ∈ l →
      lastOr (lo cmp key (gt cmp c l)) (some c) = lastOr (lo cmp key l) d := by
  intro l
  induction l with
  | nil => intro _ _ hm; cases hm
  | cons x xs ih =>
    intro d hs hm
    by_cases hxc : x = c
    · subst hxc
      have h1 : gt cmp x (x :: xs) = xs := by
        unfold gt
        rw [List.filter_cons_of_neg (by simpa using hc.irrefl x), List.filter_eq_self]
        intro y hy; simpa using hs.head_lt y hy
      have h2 : lo cmp key (x :: xs) = x :: lo cmp key xs := by simp [lo, hck]
      rw [h1, h2]; rfl
    · have hm' : c ∈ xs := by
        rcases List.mem_cons.mp hm with h | h
        · exact absurd h.symm hxc
        · exact h
      have hlt : cmp x c < 0 := hs.head_lt c hm'
      have h1 : gt cmp c (x :: xs) = gt cmp c xs := by
        unfold gt; rw [List.filter_cons_of_neg (by simpa using hc.asymm hlt)]
      have h2 : lo cmp key (x :: xs) = x :: lo cmp key xs := by
        simp [lo, hc.trans _ _ _ hlt hck]
      rw [h1, h2]
      show _ = lastOr (lo cmp key xs) (some x)
      exact ih (some x) hs.tail hm'

/-- The cursor a search carries down: the head, or a node of the chain below `key`. -/
def CurOK (cmp : K → K → Int) (key : K) (cur : Option K) (l : List K) : Prop :=
  ∀ c, cur = some c → c ∈ l ∧ cmp c key < 0

/-- One level of every search loop: from a legal cursor the walk ends at `pred` and hits the
node of the chain that is equivalent to `key`, if there is one. -/
theorem level_walk (hc : WeakCmp cmp) (key : K) {l : List K} {cur : Option K}
    (hs : Sorted cmp l) (hcur : CurOK cmp key cur l) :
    ∃ rest, after cur l = some rest ∧
      walk cmp key cur rest = (pred cmp key l, findEq cmp key l) := by
  cases cur with
  | none => exact ⟨l, rfl, walk_spec hc key l none hs⟩
  | some c =>
    obtain ⟨hm, hck⟩ := hcur c rfl
    refine ⟨gt cmp c l, afterNode_spec hc hs hm, ?_⟩
    have hsg : Sorted cmp (gt cmp c l) := hs.filter _
    rw [walk_spec hc key _ _ hsg, lastOr_shift hc hck none hs hm]
    have : findEq cmp key (gt cmp c l) = findEq cmp key l := by
      have hsub : (gt cmp c l).Sublist l := List.filter_sublist
      rw [findEq_sublist hc hs hsub]
      cases hf : findEq cmp key l with
      | none => rfl
      | some n =>
        obtain ⟨h1, h2⟩ := findEq_some hf
        have : n ∈ gt cmp c l := mem_gt.mpr ⟨h1, (hc.lt_congr_right h2 c).mpr hck⟩
        simp [this]
    rw [this]
    rfl

theorem lastOr_append_singleton (A : List K) (p : K) (d : Option K) : lastOr (A ++ [p]) d = some p := by
  induction A generalizing d with
  | nil => rfl
  | cons a A ih => exact ih _

theorem lastOr_none_eq_none {l : List K} : lastOr l none = none ↔ l = [] := by
  constructor
  · intro h
    rcases List.eq_nil_or_concat l with rfl | ⟨A, p, rfl⟩
    · rfl
    · rw [List.concat_eq_append, lastOr_append_singleton] at h; cases h
  · rintro rfl; rfl

theorem lastOr_some {l : List K} {p : K} (h : lastOr l none = some p) : ∃ A, l = A ++ [p] := by
  rcases List.eq_nil_or_concat l with rfl | ⟨A, q, rfl⟩
  · cases h
  · rw [List.concat_eq_append, lastOr_append_singleton] at h
    cases h; exact ⟨A, by simp⟩

/-- `pred` is the head or a node of the chain below `key`. -/
theorem pred_curOK (key : K) (l : List K) : CurOK cmp key (pred cmp key l) l := by
  intro c hcur
  obtain ⟨A, hA⟩ := lastOr_some hcur
  have : c ∈ lo cmp key l := by rw [hA]; simp
  exact mem_lo.mp this

theorem CurOK.mono {key : K} {cur : Option K} {l l' : List K} (h : CurOK cmp key cur l)
    (hs : l.Sublist l') : CurOK cmp key cur l' :=
  fun c hc => ⟨hs.subset (h c hc).1, (h c hc).2⟩

/-! ### splice / unsplice at the predecessor -/

theorem uptoNode_append (hA : ∀ a ∈ A, a ≠ p) (B : List K) :
    uptoNode p (A ++ p :: B) = some (A ++ [p]) := by
  induction A with
  | nil => simp [uptoNode]
  | cons a A ih =>
    have : a ≠ p := hA a (by simp)
    simp only [List.cons_append, uptoNode, if_neg this]
    rw [ih (fun x hx => hA x (by simp [hx]))]; rfl

theorem afterNode_append (hA : ∀ a ∈ A, a ≠ p) (B : List K) :
    afterNode p (A ++ p :: B) = some B := by
  induction A with
  | nil => simp [afterNode]
  | cons a A ih =>
    have : a ≠ p := hA a (by simp)
    simp only [List.cons_append, afterNode, if_neg this]
    exact ih (fun x hx => hA x (by simp [hx]))

theorem upto_after_pred (hc : WeakCmp cmp) (key : K) {l : List K} (hs : Sorted cmp l) :
    upto (pred cmp key l) l = some (lo cmp key l) ∧ after (pred cmp key l) l = some (ge cmp key l) := by
  have hsplit := lo_append_ge hc key hs
  cases hp : pred cmp key l with
  | none =>
    have : lo cmp key l = [] := lastOr_none_eq_none.mp hp
    rw [this] at hsplit ⊢
    simp only [List.nil_append] at hsplit
    simp [upto, after, hsplit]
  | some p =>
    obtain ⟨A, hA⟩ := lastOr_some hp
    have hsl : Sorted cmp (A ++ [p]) := hA ▸ hs.filter _
    have hne : ∀ a ∈ A, a ≠ p := by
      intro a ha
      have := (List.pairwise_append.mp hsl).2.2 a ha p (by simp)
      exact hc.ne_of_lt this
    have hl : l = A ++ p :: ge cmp key l := by
      conv => lhs; rw [← hsplit, hA]
      simp
    constructor
    · show uptoNode p l = _
      rw [hA]; conv => lhs; rw [hl]
      exact uptoNode_append hne _
    · show afterNode p l = _
      conv => lhs; rw [hl]
      exact afterNode_append hne _

theorem spliceAt_pred (hc : WeakCmp cmp) (key : K) {l : List K} (hs : Sorted cmp l) :
    spliceAt (pred cmp key l) key l = some (ins cmp key l) := by
  obtain ⟨h1, h2⟩ := upto_after_pred hc key hs
  simp [spliceAt, h1, h2, ins]

theorem unspliceAt_pred (hc : WeakCmp cmp) (key : K) {l : List K} (hs : Sorted cmp l) (hm : key ∈ l) :
    unspliceAt (pred cmp key l) key l = some (del cmp key l) := by
  obtain ⟨h1, _⟩ := upto_after_pred hc key hs
  simp [unspliceAt, h1, afterNode_spec hc hs hm, del]

/-! ### properties of `ins` / `del` -/

theorem mem_ins (hc : WeakCmp cmp) {key y : K} {l : List K} (hs : Sorted cmp l) :
    y ∈ ins cmp key l ↔ y = key ∨ y ∈ l := by
  unfold ins
  rw [List.mem_append, List.mem_cons]
  conv => rhs; rw [← lo_append_ge hc key hs, List.mem_append]
  grind

theorem mem_del (hc : WeakCmp cmp) {key y : K} {l : List K} (hs : Sorted cmp l) (hk : key ∈ l) :
    y ∈ del cmp key l ↔ y ≠ key ∧ y ∈ l := by
  unfold del
  rw [List.mem_append, mem_lo, mem_gt]
  constructor
  · rintro (⟨h1, h2⟩ | ⟨h1, h2⟩)
    · exact ⟨hc.ne_of_lt h2, h1⟩
    · exact ⟨(hc.ne_of_lt h2).symm, h1⟩
  · rintro ⟨hne, hm⟩
    rcases hs.lt_or_gt hm hk hne with h | h
    · exact Or.inl ⟨hm, h⟩
    · exact Or.inr ⟨hm, h⟩

theorem ins_sorted (hc : WeakCmp cmp) {key : K} {l : List K} (hs : Sorted cmp l)
    (hm : ∀ y ∈ l, cmp y key ≠ 0) :
    Sorted cmp (ins cmp key l) := by
  unfold ins Sorted
  rw [List.pairwise_append]
  refine ⟨hs.filter _, ?_, ?_⟩
  · rw [List.pairwise_cons]
    refine ⟨?_, hs.filter _⟩
    intro y hy
    obtain ⟨hyl, hyk⟩ := mem_ge.mp hy
    exact (hc.not_lt.mp hyk).resolve_left (hm y hyl)
  · intro a ha b hb
    obtain ⟨_, hak⟩ := mem_lo.mp ha
    rcases List.mem_cons.mp hb with rfl | hb
    · exact hak
    · obtain ⟨hbl, hbk⟩ := mem_ge.mp hb
      exact hc.trans _ _ _ hak ((hc.not_lt.mp hbk).resolve_left (hm b hbl))

theorem del_sublist (hc : WeakCmp cmp) {key : K} {l : List K} (hs : Sorted cmp l) :
    (del cmp key l).Sublist l := by
  have h := lo_append_ge hc key hs
  have hgt : gt cmp key l = (ge cmp key l).filter (fun x => decide (cmp key x < 0)) := by
    unfold gt
    conv => lhs; rw [← h, List.filter_append]
    have : (lo cmp key l).filter (fun x => decide (cmp key x < 0)) = [] := by
      rw [List.filter_eq_nil_iff]
      intro y hy
      simpa using hc.asymm (mem_lo.mp hy).2
    rw [this, List.nil_append]
  unfold del
  rw [hgt]
  conv => rhs; rw [← h]
  exact List.Sublist.append (List.Sublist.refl _) List.filter_sublist

theorem del_of_not_mem (hc : WeakCmp cmp) {key : K} {l : List K} (hs : Sorted cmp l)
    (hm : ∀ y ∈ l, cmp y key ≠ 0) : del cmp key l = l := by
  have h := lo_append_ge hc key hs
  rw [ge_of_not_mem hc hm] at h
  exact h

theorem sublist_ins (hc : WeakCmp cmp) {key : K} {l : List K} (hs : Sorted cmp l) :
    l.Sublist (ins cmp key l) := by
  unfold ins
  conv => lhs; rw [← lo_append_ge hc key hs]
  exact List.Sublist.append (List.Sublist.refl _) (List.sublist_cons_self _ _)

theorem ins_sublist_ins {key : K} {l l' : List K} (h : l'.Sublist l) :
    (ins cmp key l').Sublist (ins cmp key l) := by
  unfold ins lo ge
  exact List.Sublist.append (h.filter _) ((h.filter _).cons_cons _)

theorem del_sublist_del {key : K} {l l' : List K} (h : l'.Sublist l) :
    (del cmp key l').Sublist (del cmp key l) := by
  unfold del lo gt
  exact List.Sublist.append (h.filter _) (h.filter _)

end Golib.C02
