/-
C16 helper lemmas, part 3: `Range`/`All` and the resumable iterator enumerate `members`.
-/
import Golib.Proof.C16Members

namespace Golib.C16

/-! ### Range / All -/

/-- The calls a callback `fn` receives when fed the list, stopping after the first `false`;
second component: whether the iteration was never stopped. -/
def callsUntil (fn : Nat → Bool) : List Nat → List Nat × Bool
  | [] => ([], true)
  | x :: xs =>
    if fn x then
      let (c, k) := callsUntil fn xs
      (x :: c, k)
    else ([x], false)

theorem callsUntil_append (fn : Nat → Bool) (a b : List Nat) :
    callsUntil fn (a ++ b) =
      if (callsUntil fn a).2 then ((callsUntil fn a).1 ++ (callsUntil fn b).1, (callsUntil fn b).2)
      else callsUntil fn a := by
  induction a with
  | nil => simp [callsUntil]
  | cons x xs ih =>
    simp only [List.cons_append, callsUntil]
    by_cases hx : fn x
    · simp only [hx, if_true, ih]
      split <;> simp_all
    · simp [hx]

theorem callsUntil_all (l : List Nat) : callsUntil (fun _ => true) l = (l, true) := by
  induction l with
  | nil => rfl
  | cons x xs ih => simp [callsUntil, ih]

/-- bits `≥ j` of word `w` (index `i`), as values. -/
def bitsFrom (w : W) (i j : Nat) : List Nat :=
  ((List.range' j (64 - j)).filter fun k => w.getLsbD k).map fun k => 64 * i + k

theorem bitsFrom_zero (w : W) (i : Nat) : bitsFrom w i 0 = bitsOf w i := by
  simp [bitsFrom, bitsOf, List.range_eq_range']

theorem bitsFrom_ge (w : W) (i j : Nat) (h : 64 ≤ j) : bitsFrom w i j = [] := by
  have : 64 - j = 0 := by omega
  simp [bitsFrom, this]

theorem bitsFrom_step (w : W) (i j : Nat) (h : j < 64) :
    bitsFrom w i j = if w.getLsbD j then (64 * i + j) :: bitsFrom w i (j + 1) else bitsFrom w i (j + 1) := by
  have : 64 - j = (64 - (j + 1)) + 1 := by omega
  simp only [bitsFrom]
  rw [this, List.range'_succ, List.filter_cons]
  split <;> simp

theorem rangeBits_spec (fn : Nat → Bool) (w : W) (i j f : Nat) (h : j + f = 64) :
    rangeBits fn w i j f = callsUntil fn (bitsFrom w i j) := by
  induction f generalizing j with
  | zero => simp [rangeBits, bitsFrom_ge w i j (by omega), callsUntil]
  | succ f ih =>
    have hj : j < 64 := by omega
    rw [rangeBits, bitsFrom_step w i j hj, testBit_eq w j hj, shl6]
    cases hb : w.getLsbD j
    · simp only [Bool.false_eq_true, if_false]
      exact ih (j + 1) (by omega)
    · simp only [if_true, callsUntil, ih (j + 1) (by omega)]

theorem rangeWords_spec (fn : Nat → Bool) (ws : List W) (i : Nat) :
    rangeWords fn ws i = (callsUntil fn (membersFrom ws i)).1 := by
  induction ws generalizing i with
  | nil => simp [rangeWords, membersFrom, callsUntil]
  | cons w ws ih =>
    simp only [rangeWords, membersFrom, callsUntil_append, rangeBits_spec fn w i 0 64 rfl,
      bitsFrom_zero, ih]
    split <;> simp_all

/-! ### iterator -/

/-- What an iterator standing at word `i`, bit `j` still has to deliver. -/
def pending (ws : List W) (i j : Nat) : List Nat :=
  match ws[i]? with
  | none => []
  | some w => bitsFrom w i j ++ membersFrom (ws.drop (i + 1)) (i + 1)

theorem membersFrom_drop (ws : List W) (i : Nat) : membersFrom (ws.drop i) i = pending ws i 0 := by
  unfold pending
  by_cases h : i < ws.length
  · rw [List.drop_eq_getElem_cons h, List.getElem?_eq_getElem h]
    simp [membersFrom, bitsFrom_zero]
  · rw [List.drop_eq_nil_of_le (by omega), List.getElem?_eq_none (by omega)]
    simp [membersFrom]

theorem pending_zero (ws : List W) : pending ws 0 0 = members ws := by
  rw [← membersFrom_drop]; simp [members]

theorem scanBit_spec (w : W) (i j f : Nat) (h : j + f = 64) :
    (bitsFrom w i j = [] ∧ (scanBit w j f).2 = false) ∨
    (∃ j', j' < 64 ∧ scanBit w j f = (j', true) ∧
      bitsFrom w i j = (64 * i + j') :: bitsFrom w i (j' + 1)) := by
  induction f generalizing j with
  | zero => left; simp [scanBit, bitsFrom_ge w i j (by omega)]
  | succ f ih =>
    have hj : j < 64 := by omega
    rw [scanBit, bitsFrom_step w i j hj, testBit_eq w j hj]
    cases hb : w.getLsbD j
    · simp only [Bool.false_eq_true, if_false]
      exact ih (j + 1) (by omega)
    · right; exact ⟨j, hj, by simp, by simp⟩

theorem scan_spec (ws : List W) (i j f : Nat) (hj : j ≤ 64) (hf : f = ws.length - i) :
    (pending ws i j = [] ∧ (Iter.scan ws i j f).2 = false) ∨
    (∃ i' j', j' < 64 ∧ Iter.scan ws i j f = (⟨i', j', true⟩, true) ∧
      pending ws i j = (64 * i' + j') :: pending ws i' (j' + 1)) := by
  induction f generalizing i j with
  | zero =>
    left
    have : ws[i]? = none := List.getElem?_eq_none (by omega)
    simp [pending, this, Iter.scan]
  | succ f ih =>
    have hi : i < ws.length := by omega
    rw [Iter.scan]
    have hw : ws[i]? = some ws[i] := List.getElem?_eq_getElem hi
    simp only [hw]
    rcases scanBit_spec ws[i] i j (64 - j) (by omega) with ⟨he, hs⟩ | ⟨j', hj', hs, he⟩
    · -- nothing left in this word: move on
      have hsb : scanBit ws[i] j (64 - j) = ((scanBit ws[i] j (64 - j)).1, false) := by
        rw [← hs]
      rw [hsb]
      simp only []
      have hp : pending ws i j = pending ws (i + 1) 0 := by
        rw [← membersFrom_drop]
        simp [pending, hw, he]
      rw [hp]
      exact ih (i + 1) 0 (by omega) (by omega)
    · right
      refine ⟨i, j', hj', by rw [hs], ?_⟩
      simp [pending, hw, he]

theorem value_eq (i j : Nat) : (⟨i, j, true⟩ : Iter).value = 64 * i + j := by
  simp [Iter.value, shl6]

/-- Draining an iterator whose next scan starts at `(i, j)` delivers exactly `pending`. -/
theorem drain_spec (ws : List W) (fuel : Nat) (it : Iter)
    (hj : (if it.read then it.j + 1 else it.j) ≤ 64)
    (hfuel : (pending ws it.i (if it.read then it.j + 1 else it.j)).length < fuel) :
    Iter.drain ws fuel it = pending ws it.i (if it.read then it.j + 1 else it.j) := by
  induction fuel generalizing it with
  | zero => omega
  | succ fuel ih =>
    rw [Iter.drain, Iter.next]
    rcases scan_spec ws it.i (if it.read then it.j + 1 else it.j) _ hj rfl with
      ⟨he, hs⟩ | ⟨i', j', hj', hs, he⟩
    · rw [he]
      generalize Iter.scan ws it.i (if it.read = true then it.j + 1 else it.j) (ws.length - it.i) = r at hs
      obtain ⟨it', ok⟩ := r
      simp only [] at hs
      subst hs
      rfl
    · rw [hs, he]
      simp only [value_eq]
      congr 1
      have := ih ⟨i', j', true⟩ (by simp only [if_true]; omega) (by
        rw [he] at hfuel
        simpa using hfuel)
      simpa using this

/-- `for it.Next() { … it.Value() … }` on a fresh iterator enumerates `members`. -/
theorem iterAll_eq_members (b : Bitmap) : b.iterAll = members b.set := by
  unfold Bitmap.iterAll
  have := drain_spec b.set (64 * b.set.length + 1) Iter.init (by simp [Iter.init]) (by
    simp only [Iter.init, Bool.false_eq_true, if_false, pending_zero]
    have := card_le b.set
    unfold card at this
    omega)
  simpa [Iter.init, pending_zero] using this

end Golib.C16
