/-
`GetMaximalCliques` = the top-level call on the shared array = `bk [] P []`.
-/
import Golib.Proof.C18Cliques
import Golib.Proof.C18Top

namespace Golib.C18

variable {V : Type}

theorem pre_top (nb : V → V → Bool) (P : List V) (hP : P.Nodup) : BKPre nb P [] P [] :=
  { ndR := List.nodup_nil, ndP := hP, ndX := List.nodup_nil
    dRP := by simp, dRX := by simp, dPX := by simp
    subU := by simp, clique := by intro a ha; simp at ha
    common := by intro u; simp }

theorem maximalCliques_spec (nb : V → V → Bool) (irrefl : ∀ v, nb v v = false)
    (symm : ∀ a b, nb a b = nb b a) (P : List V) (hP : P.Nodup) :
    ∃ out, maximalCliques nb P = some out ∧
      (∀ o ∈ out, o.Nodup ∧ MaxClique nb P o) ∧
      (∀ C, MaxClique nb P C → ∃ o ∈ out, SameSet o C) ∧
      out.Pairwise (fun a b => ¬ SameSet a b) := by
  obtain ⟨out, h, post⟩ := bk_spec nb P irrefl symm (P.length + 2) [] P [] (by omega) (pre_top nb P hP)
  refine ⟨out, ?_, ?_, ?_, post.once⟩
  · simp only [maximalCliques, bkTop_eq, h, Option.map_some]
  · intro o ho
    obtain ⟨Q, rfl, hQ, _, hm⟩ := post.snd o ho
    exact ⟨by simpa using hQ, hm⟩
  · intro C hC
    exact post.cmp C hC (by simp) (fun c hc => Or.inr (hC.1 c hc))

end Golib.C18
