/-
C04 helper lemmas, part 7: `Heap` with handles simulates a plain slice of element ids.

While a sift runs on heap `h`, `e.Value` of no element changes, so `rcmp` is a FIXED comparator
on element ids: `cmpId cmp val a b = cmp (val a) (val b)` — a strict weak order whenever `cmp` is.
The array of ids `h.values` then behaves exactly as a `Slice` of ids under `cmpId`
(`heap_slice_sim`), which transfers every `Slice` theorem to `Heap` at the level of element
identities (not just values), together with a frame (`SiftRel`): owners, values, the other heap
and the cached index of every element outside `h` are untouched, cached indices inside `h` stay
exact.
-/
import Golib.Proof.C04Handles

set_option linter.unusedSimpArgs false
set_option linter.unusedVariables false

namespace Golib.C04
open Golib.C13 (PM IM)

/-- the other heap of the two -/
def oth (h : Nat) : Nat := if h = 0 then 1 else 0

/-- `h.values` as a slice of element ids -/
def ids (m : HMem) (h : Nat) : List Int := (m.arr h).map (fun e : Nat => (e : Int))

/-- `rcmp` as a comparator on element ids -/
def cmpId (cmp : Int → Int → Bool) (val : IM) : Int → Int → Bool :=
  fun a b => cmp (val.get a.toNat) (val.get b.toNat)

theorem cmpId_swo {cmp} (hs : SWO cmp) (val : IM) : SWO (cmpId cmp val) :=
  ⟨fun a => hs.irrefl _, fun a b c => hs.trans _ _ _, fun a b c => hs.incomp _ _ _⟩

@[simp] theorem ids_length (m : HMem) (h : Nat) : (ids m h).length = (m.arr h).length := by
  simp [ids]

theorem arr_setArr_oth (m : HMem) (h : Nat) (a : List Nat) : (m.setArr h a).arr (oth h) = m.arr (oth h) := by
  unfold HMem.setArr HMem.arr oth; split <;> simp [*]

theorem val_setArr (m : HMem) (h : Nat) (a : List Nat) : (m.setArr h a).val = m.val := by
  unfold HMem.setArr; split <;> rfl

theorem own_setArr (m : HMem) (h : Nat) (a : List Nat) : (m.setArr h a).own = m.own := by
  unfold HMem.setArr; split <;> rfl

theorem fresh_setArr (m : HMem) (h : Nat) (a : List Nat) : (m.setArr h a).fresh = m.fresh := by
  unfold HMem.setArr; split <;> rfl

theorem lt2_cases {h : Nat} (hh : h < 2) : h = 0 ∨ h = 1 := by omega

theorem oth_lt2 (h : Nat) : oth h < 2 := by unfold oth; split <;> omega

theorem oth_ne {h : Nat} (hh : h < 2) : oth h ≠ h := by unfold oth; split <;> omega

theorem eq_or_oth {h h' : Nat} (hh : h < 2) (hh' : h' < 2) : h' = h ∨ h' = oth h := by
  unfold oth; split <;> omega

theorem oth_oth {h : Nat} (hh : h < 2) : oth (oth h) = h := by
  unfold oth; split <;> simp <;> omega

/-! ### list plumbing -/

theorem nth_map {α β : Type} (f : α → β) (l : List α) (i : Int) :
    nth (l.map f) i = (nth l i).map f := by
  unfold nth; split <;> simp

theorem swapL_map {α β : Type} (f : α → β) (l : List α) (i j : Int) :
    swapL (l.map f) i j = (swapL l i j).map (List.map f) := by
  unfold swapL
  rw [nth_map, nth_map]
  cases nth l i <;> cases nth l j <;> simp [List.map_set]

theorem swapL_some {α : Type} {l a' : List α} {i j : Int} (h : swapL l i j = some a') :
    ∃ (ki kj : Nat) (x y : α), i = (ki : Int) ∧ j = (kj : Int) ∧ l[ki]? = some x ∧ l[kj]? = some y ∧
      a' = (l.set ki y).set kj x := by
  unfold swapL at h
  cases hi : nth l i with
  | none => simp [hi] at h
  | some x =>
    cases hj : nth l j with
    | none => simp [hi, hj] at h
    | some y =>
      simp only [hi, hj, Option.some.injEq] at h
      obtain ⟨ki, rfl, hxi⟩ := (nth_some_iff _ _ _).1 hi
      obtain ⟨kj, rfl, hyj⟩ := (nth_some_iff _ _ _).1 hj
      simp only [Int.toNat_natCast] at h
      exact ⟨ki, kj, x, y, rfl, rfl, hxi, hyj, h.symm⟩

theorem swapped_perm {l : List Nat} {ki kj x y : Nat} (hxi : l[ki]? = some x) (hyj : l[kj]? = some y) :
    ((l.set ki y).set kj x).Perm l := by
  have hki : ki < l.length := (List.getElem?_eq_some_iff.1 hxi).1
  have hkj : kj < l.length := (List.getElem?_eq_some_iff.1 hyj).1
  rw [List.perm_iff_count]; intro z
  by_cases e : ki = kj
  · subst e
    have : x = y := by rw [hxi] at hyj; exact Option.some.inj hyj
    subst this
    rw [List.set_set]
    have : l.set ki x = l := by
      have := List.getElem?_eq_some_iff.1 hxi
      rw [← this.2]; exact List.set_getElem_self _
    rw [this]
  · rw [List.count_set (by simpa using hkj), List.count_set hki]
    simp only [List.getElem_set, e, if_false]
    have g1 : l[ki] = x := (List.getElem?_eq_some_iff.1 hxi).2
    have g2 : l[kj] = y := (List.getElem?_eq_some_iff.1 hyj).2
    have c1 : 0 < l.count x := List.count_pos_iff.2 (g1 ▸ List.getElem_mem _)
    have c2 : 0 < l.count y := List.count_pos_iff.2 (g2 ▸ List.getElem_mem _)
    rw [g1, g2]
    by_cases h1 : x = z <;> by_cases h2 : y = z <;> simp [h1, h2, beq_iff_eq] <;>
      (try subst h1) <;> (try subst h2) <;> omega

theorem swapL_perm {l a' : List Nat} {i j : Int} (h : swapL l i j = some a') : a'.Perm l := by
  obtain ⟨ki, kj, x, y, _, _, hxi, hyj, rfl⟩ := swapL_some h
  exact swapped_perm hxi hyj

/-! ### what `swapEle` does to the memory -/

theorem heapSwap_spec {cmp} {m m' : HMem} {h : Nat} {i j : Int}
    (hs : (heapOps cmp h).swap m i j = some m') :
    ∃ a', swapL (m.arr h) i j = some a' ∧ m'.arr h = a' ∧ m'.arr (oth h) = m.arr (oth h) ∧
      m'.val = m.val ∧ m'.own = m.own ∧ m'.fresh = m.fresh ∧
      (∀ e, e ∉ m.arr h → m'.idx.get e = m.idx.get e) := by
  simp only [heapOps] at hs
  cases hsw : swapL (m.arr h) i j with
  | none => simp [hsw] at hs
  | some a =>
    simp only [hsw] at hs
    cases hi : nth a i with
    | none => simp [hi] at hs
    | some ei =>
      cases hj : nth a j with
      | none => simp [hi, hj] at hs
      | some ej =>
        simp only [hi, hj, Option.some.injEq] at hs
        subst hs
        have hperm := swapL_perm hsw
        obtain ⟨ki, rfl, hei⟩ := (nth_some_iff _ _ _).1 hi
        obtain ⟨kj, rfl, hej⟩ := (nth_some_iff _ _ _).1 hj
        have mi : ei ∈ m.arr h := hperm.subset (List.mem_of_getElem? hei)
        have mj : ej ∈ m.arr h := hperm.subset (List.mem_of_getElem? hej)
        refine ⟨a, rfl, ?_, ?_, ?_, ?_, ?_, ?_⟩
        · exact (arr_congr (m.setArr h a) _ h rfl rfl).trans (arr_setArr m h a)
        · exact (arr_congr (m.setArr h a) _ (oth h) rfl rfl).trans (arr_setArr_oth m h a)
        · exact val_setArr m h a
        · exact own_setArr m h a
        · exact fresh_setArr m h a
        · intro e he
          have h1 : e ≠ ei := fun hh => he (hh ▸ mi)
          have h2 : e ≠ ej := fun hh => he (hh ▸ mj)
          simp only [idx_setArr, IM.get_set, h1, h2, if_false]

theorem heapSwap_some {cmp} {m : HMem} {h : Nat} {i j : Int} {a' : List Nat}
    (hsw : swapL (m.arr h) i j = some a') : ∃ m', (heapOps cmp h).swap m i j = some m' := by
  obtain ⟨ki, kj, x, y, rfl, rfl, hxi, hyj, rfl⟩ := swapL_some hsw
  have hki : ki < (m.arr h).length := (List.getElem?_eq_some_iff.1 hxi).1
  have hkj : kj < (m.arr h).length := (List.getElem?_eq_some_iff.1 hyj).1
  have h1 : ∃ u, nth (((m.arr h).set ki y).set kj x) (ki : Int) = some u := by
    have : ki < (((m.arr h).set ki y).set kj x).length := by simpa using hki
    exact ⟨_, (nth_some_iff _ _ _).2 ⟨ki, rfl, List.getElem?_eq_getElem this⟩⟩
  have h2 : ∃ u, nth (((m.arr h).set ki y).set kj x) (kj : Int) = some u := by
    have : kj < (((m.arr h).set ki y).set kj x).length := by simpa using hkj
    exact ⟨_, (nth_some_iff _ _ _).2 ⟨kj, rfl, List.getElem?_eq_getElem this⟩⟩
  obtain ⟨u1, e1⟩ := h1
  obtain ⟨u2, e2⟩ := h2
  simp only [heapOps, hsw, e1, e2]
  exact ⟨_, rfl⟩

/-! ### the simulation -/

/-- State `a` of a sift that started in `m0` on heap `h`, seen as the slice `s` of ids. -/
structure SiftRel (m0 : HMem) (h : Nat) (a : HMem) (s : List Int) : Prop where
  idsEq : s = ids a h
  val : a.val = m0.val
  own : a.own = m0.own
  fresh : a.fresh = m0.fresh
  other : a.arr (oth h) = m0.arr (oth h)
  perm : (a.arr h).Perm (m0.arr h)
  idxInv : IdxInv a h
  idxFrame : ∀ e, e ∉ m0.arr h → a.idx.get e = m0.idx.get e

theorem SiftRel.refl {m0 : HMem} {h : Nat} (hI : IdxInv m0 h) : SiftRel m0 h m0 (ids m0 h) :=
  ⟨rfl, rfl, rfl, rfl, rfl, List.Perm.refl _, hI, fun _ _ => rfl⟩

theorem heap_slice_sim (cmp : Int → Int → Bool) (m0 : HMem) (h : Nat) :
    Sim (heapOps cmp h) (sliceOps (cmpId cmp m0.val)) (SiftRel m0 h) := by
  refine ⟨fun a s j i hab => ?_, fun a s i j hab => ?_⟩
  · have hids := hab.idsEq
    subst hids
    simp only [heapOps, sliceOps, ids, nth_map]
    cases nth (a.arr h) j with
    | none => simp [RelO]
    | some x =>
      cases nth (a.arr h) i with
      | none => simp [RelO]
      | some y =>
        simp only [Option.map_some, RelO]
        exact ⟨hab, by simp [cmpId, hab.val]⟩
  · have hids := hab.idsEq
    subst hids
    cases hsw : swapL (a.arr h) i j with
    | none =>
      have h1 : (heapOps cmp h).swap a i j = none := by simp [heapOps, hsw]
      have h2 : (sliceOps (cmpId cmp m0.val)).swap (ids a h) i j = none := by
        simp [sliceOps, ids, swapL_map, hsw]
      rw [h1, h2]; simp [RelO]
    | some a' =>
      obtain ⟨m', hm'⟩ := heapSwap_some (cmp := cmp) hsw
      obtain ⟨a'', hsw', harr, hoth, hval, hown, hfresh, hidx⟩ := heapSwap_spec hm'
      rw [hsw] at hsw'
      have : a'' = a' := (Option.some.inj hsw').symm
      subst this
      have h2 : (sliceOps (cmpId cmp m0.val)).swap (ids a h) i j = some (ids m' h) := by
        simp [sliceOps, ids, swapL_map, hsw, harr]
      rw [hm', h2]
      simp only [RelO]
      have hperm : (m'.arr h).Perm (a.arr h) := harr ▸ swapL_perm hsw
      refine ⟨rfl, hval.trans hab.val, hown.trans hab.own, hfresh.trans hab.fresh,
        hoth.trans hab.other, hperm.trans hab.perm, swapEle_idxInv hab.idxInv hm', ?_⟩
      intro e he
      have : e ∉ a.arr h := fun hh => he (hab.perm.subset hh)
      rw [hidx e this]; exact hab.idxFrame e he

/-! ### transfer of successful slice runs to the heap -/

variable {cmp : Int → Int → Bool} {m0 a : HMem} {h : Nat} {s s' : List Int}

theorem swap_transfer (hR : SiftRel m0 h a s) {i j : Int}
    (hrun : swapL s i j = some s') :
    ∃ a', (heapOps cmp h).swap a i j = some a' ∧ SiftRel m0 h a' s' := by
  have := (heap_slice_sim cmp m0 h).swap a s i j hR
  have e : (sliceOps (cmpId cmp m0.val)).swap s i j = some s' := by simpa [sliceOps] using hrun
  rw [e] at this
  exact relO_some this

theorem up_transfer (hR : SiftRel m0 h a s) {j : Int}
    (hrun : upF (sliceOps (cmpId cmp m0.val)) s j = some s') :
    ∃ a', upF (heapOps cmp h) a j = some a' ∧ SiftRel m0 h a' s' := by
  have := up_sim (heap_slice_sim cmp m0 h) (fuelOf j) a s j hR
  simp only [upF] at hrun ⊢
  rw [hrun] at this
  exact relO_some this

theorem downB_transfer (hR : SiftRel m0 h a s) {i n : Int} {b : Bool}
    (hrun : downB (sliceOps (cmpId cmp m0.val)) s i n = some (s', b)) :
    ∃ a', downB (heapOps cmp h) a i n = some (a', b) ∧ SiftRel m0 h a' s' := by
  have := downB_sim (heap_slice_sim cmp m0 h) a s i n hR
  rw [hrun] at this
  obtain ⟨x, hx, h1, h2⟩ := relO_some this
  obtain ⟨a', b'⟩ := x
  simp only at h1 h2
  subst h2
  exact ⟨a', hx, h1⟩

theorem fix_transfer (hR : SiftRel m0 h a s) {i n : Int}
    (hrun : fix (sliceOps (cmpId cmp m0.val)) s i n = some s') :
    ∃ a', fix (heapOps cmp h) a i n = some a' ∧ SiftRel m0 h a' s' := by
  have := fix_sim (heap_slice_sim cmp m0 h) a s i n hR
  rw [hrun] at this
  exact relO_some this

theorem build_transfer (hR : SiftRel m0 h a s) {n : Int}
    (hrun : build (sliceOps (cmpId cmp m0.val)) s n = some s') :
    ∃ a', build (heapOps cmp h) a n = some a' ∧ SiftRel m0 h a' s' := by
  have := build_sim (heap_slice_sim cmp m0 h) a s n hR
  rw [hrun] at this
  exact relO_some this

end Golib.C04
