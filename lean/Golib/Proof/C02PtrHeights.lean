/-
C02 pointer model, part 3b: tower heights.  `Hts f p s`: the node of every live key has a tower
(`len(next)`) exactly as high as the number of levels its key is linked in (`heightOf`; by
`tower_prefix` these are the levels `0 … heightOf-1`).  List-side facts: how `heightOf` changes
under `insTop` / `delTop`.
-/
import Golib.Proof.C02PtrLoops

set_option linter.unusedSectionVars false
set_option linter.unusedSimpArgs false
set_option linter.unusedVariables false

namespace Golib.C02

variable {K V : Type} [DecidableEq K] {cmp : K → K → Int}

/-- The tower of every live node is exactly as high as the number of levels it is linked in. -/
def Hts (f : K → Nat) (p : PSL K V) (s : SL K V) : Prop :=
  ∀ k ∈ chain0 s, ∀ nd, p.nodes[f k]? = some nd → nd.next.size = heightOf s k

/-- Number of levels holding `k`. -/
def cntMem (k : K) (lv : List (List K)) : Nat := (lv.filter (fun l => decide (k ∈ l))).length

theorem heightOf_eq (s : SL K V) (k : K) : heightOf s k = cntMem k s.lv := rfl

theorem cntMem_insTop_ne (hc : WeakCmp cmp) {key k : K} (hk : k ≠ key) :
    ∀ (n : Nat) (lv : List (List K)), (∀ l ∈ lv, Sorted cmp l) →
      cntMem k (insTop cmp key n lv) = cntMem k lv := by
  intro n
  induction n with
  | zero => intro lv _; rfl
  | succ n ih =>
    intro lv hs
    cases lv with
    | nil => rfl
    | cons l lv =>
      have h1 : decide (k ∈ ins cmp key l) = decide (k ∈ l) := by
        rw [decide_eq_decide, mem_ins hc (hs l (by simp))]
        constructor
        · rintro (e | e)
          · exact absurd e hk
          · exact e
        · exact Or.inr
      have h2 := ih lv (fun x hx => hs x (by simp [hx]))
      unfold cntMem at h2 ⊢
      simp only [insTop, List.filter_cons, h1]
      split <;> simp [h2]

theorem cntMem_of_not_mem {k : K} : ∀ {lv : List (List K)}, (∀ l ∈ lv, k ∉ l) → cntMem k lv = 0 := by
  intro lv h
  unfold cntMem
  rw [List.length_eq_zero_iff, List.filter_eq_nil_iff]
  intro l hl; simpa using h l hl

theorem cntMem_insTop_key (hc : WeakCmp cmp) {key : K} :
    ∀ (n : Nat) (lv : List (List K)), (∀ l ∈ lv, Sorted cmp l) → (∀ l ∈ lv, key ∉ l) → n ≤ lv.length →
      cntMem key (insTop cmp key n lv) = n := by
  intro n
  induction n with
  | zero => intro lv _ hk _; exact cntMem_of_not_mem hk
  | succ n ih =>
    intro lv hs hk hn
    cases lv with
    | nil => simp at hn
    | cons l lv =>
      have h1 : key ∈ ins cmp key l := (mem_ins hc (hs l (by simp))).mpr (Or.inl rfl)
      have h2 := ih lv (fun x hx => hs x (by simp [hx])) (fun x hx => hk x (by simp [hx]))
        (by simpa using hn)
      unfold cntMem at h2 ⊢
      simp only [insTop, List.filter_cons, h1, decide_true, if_true, List.length_cons, h2]

theorem cntMem_delTop_ne (hc : WeakCmp cmp) {n k : K} (hk : k ≠ n) :
    ∀ (h : Nat) (lv : List (List K)), (∀ l ∈ lv.take h, Sorted cmp l ∧ n ∈ l) →
      cntMem k (delTop cmp n h lv) = cntMem k lv := by
  intro h
  induction h with
  | zero => intro lv _; rfl
  | succ h ih =>
    intro lv hs
    cases lv with
    | nil => rfl
    | cons l lv =>
      obtain ⟨hsl, hnl⟩ := hs l (by simp)
      have h1 : decide (k ∈ del cmp n l) = decide (k ∈ l) := by
        rw [decide_eq_decide, mem_del hc hsl hnl]
        exact ⟨fun e => e.2, fun e => ⟨hk, e⟩⟩
      have h2 := ih lv (fun x hx => hs x (by simp [hx]))
      unfold cntMem at h2 ⊢
      simp only [delTop, List.filter_cons, h1]
      split <;> simp [h2]

end Golib.C02
