/-
C07: the buffer-level Format programs (Model/C07FormatBuf.lean) never index outside their
buffer and return what the value-level formatters return.
-/
import Golib.Model.C07FormatBuf
import Golib.Proof.C07Shape

namespace Golib.C07

theorem writeB_mid (A W C bs : Bytes) (h : W.length = bs.length) :
    writeB (A ++ W ++ C) A.length bs = some (A ++ bs ++ C) := by
  unfold writeB
  rw [if_pos (by simp only [List.length_append]; omega)]
  congr 1
  apply List.ext_getElem?; intro k
  simp only [List.getElem?_append, List.getElem?_take, List.getElem?_drop, List.length_take,
    List.length_append]
  grind

theorem toUpperB_mid (A W C : Bytes) :
    toUpperB (A ++ W ++ C) A.length (A.length + W.length) = some (A ++ toUpper W ++ C) := by
  unfold toUpperB
  rw [if_pos ⟨by omega, by simp only [List.length_append]; omega⟩]
  congr 1
  have h1 : (A ++ W ++ C).take A.length = A := by
    rw [List.append_assoc, List.take_left']; rfl
  have h2 : ((A ++ W ++ C).take (A.length + W.length)).drop A.length = W := by
    have : (A ++ W ++ C).take (A.length + W.length) = A ++ W := by
      rw [← List.length_append, List.take_left']; rfl
    rw [this, List.drop_left']; rfl
  have h3 : (A ++ W ++ C).drop (A.length + W.length) = C := by
    rw [← List.length_append, List.drop_left']; rfl
  rw [h1, h2, h3]

theorem appendUint_length {w v base : Nat} {d : Bytes} (h : appendUint w v base = some d) : d.length = w := by
  unfold appendUint at h
  simp only [] at h
  split at h
  · split at h
    · cases h; simp only [List.length_append, List.length_replicate]; omega
    · cases h
  · cases h

theorem appendUintB_mid (A W C : Bytes) (v base : Nat) (hw : W.length ≤ 8) :
    appendUintB (A ++ W ++ C) A.length (A.length + W.length) v base
      = (appendUint W.length v base).map (fun d => A ++ d ++ C) := by
  unfold appendUintB appendUint
  simp only []
  have hb : A.length ≤ A.length + W.length ∧ A.length + W.length ≤ (A ++ W ++ C).length :=
    ⟨by omega, by simp only [List.length_append]; omega⟩
  rw [if_neg (fun h => h hb)]
  generalize hd : (toDigits base v).map digitChar = d
  have e1 : A.length + W.length - A.length = W.length := by omega
  simp only [e1]
  by_cases hle : d.length ≤ W.length
  · have hx8 : W.length - d.length ≤ 8 := by omega
    simp only [hle, hx8, if_true, Option.map_some]
    have hmin : min (W.length - d.length) 8 = W.length - d.length := by omega
    rw [hmin]
    -- split the window: W = W1 ++ W2 with |W1| = x, |W2| = |d|
    obtain ⟨W1, W2, rfl, h1, h2⟩ : ∃ W1 W2, W = W1 ++ W2 ∧ W1.length = W.length - d.length ∧ W2.length = d.length :=
      ⟨W.take (W.length - d.length), W.drop (W.length - d.length), by simp, by simp, by simp; omega⟩
    simp only [List.length_append] at *
    have hx : W1.length + W2.length - d.length = W1.length := by omega
    rw [hx]
    -- AppendUint(dst[:0]) in place or not: either way the window is rewritten completely
    have step2 : ∀ buf1 : Bytes, buf1.length = (A ++ (W1 ++ W2) ++ C).length →
        buf1.take A.length = A → buf1.drop (A.length + (W1.length + W2.length)) = C →
        (match writeB buf1 (A.length + W1.length) d with
          | none => none
          | some buf2 => writeB buf2 A.length (List.replicate W1.length 48))
        = some (A ++ (List.replicate W1.length 48 ++ d) ++ C) := by
      intro buf1 hl ht hdr
      obtain ⟨M, hM, hMl⟩ : ∃ M, buf1 = A ++ M ++ C ∧ M.length = W1.length + W2.length := by
        refine ⟨(buf1.take (A.length + (W1.length + W2.length))).drop A.length, ?_, ?_⟩
        · have e0 : (buf1.take (A.length + (W1.length + W2.length))).take A.length = A := by
            rw [List.take_take, Nat.min_eq_left (by omega), ht]
          have t1 : buf1.take (A.length + (W1.length + W2.length)) ++ C = buf1 := by
            rw [← hdr]; exact List.take_append_drop _ _
          have t2 : A ++ (buf1.take (A.length + (W1.length + W2.length))).drop A.length
              = buf1.take (A.length + (W1.length + W2.length)) := by
            have := List.take_append_drop A.length (buf1.take (A.length + (W1.length + W2.length)))
            rw [e0] at this; exact this
          rw [t2, t1]
        · simp only [List.length_drop, List.length_take, List.length_append] at hl ⊢; omega
      subst hM
      obtain ⟨M1, M2, rfl, hm1, hm2⟩ : ∃ M1 M2, M = M1 ++ M2 ∧ M1.length = W1.length ∧ M2.length = d.length :=
        ⟨M.take W1.length, M.drop W1.length, by simp, by simp; omega, by simp; omega⟩
      have w1 : writeB (A ++ (M1 ++ M2) ++ C) (A.length + W1.length) d = some (A ++ M1 ++ d ++ C) := by
        have := writeB_mid (A ++ M1) M2 C d hm2
        simp only [List.length_append, hm1, List.append_assoc] at this ⊢
        exact this
      rw [w1]
      simp only []
      have := writeB_mid A M1 (d ++ C) (List.replicate W1.length 48) (by simp [hm1])
      simp only [List.append_assoc] at this ⊢
      exact this
    have hfit : A.length + d.length ≤ A.length + (W1.length + W2.length) + C.length := by omega
    simp only [hfit, if_true]
    have hX : A ++ (W1 ++ W2) ++ C = A ++ ((W1 ++ W2) ++ C) := List.append_assoc _ _ _
    have hbuf : (A ++ (W1 ++ W2) ++ C).take A.length ++ d ++ (A ++ (W1 ++ W2) ++ C).drop (A.length + d.length)
        = A ++ (d ++ (W1 ++ W2).drop d.length) ++ C := by
      rw [hX, List.take_left' rfl, List.drop_append, List.drop_append_of_le_length (by simp; omega)]
      simp [List.append_assoc]
    rw [hbuf]
    have hM : (d ++ (W1 ++ W2).drop d.length).length = W1.length + W2.length := by
      simp only [List.length_append, List.length_drop]; omega
    apply step2
    · simp only [List.length_append, List.length_drop]; omega
    · rw [List.append_assoc, List.take_left' rfl]
    · have : A.length + (W1.length + W2.length) = (A ++ (d ++ (W1 ++ W2).drop d.length)).length := by
        rw [List.length_append, hM]
      rw [this, List.drop_left' rfl]
  · simp only [hle, if_false, Option.map_none]

theorem escB_spec (A T pfx : Bytes) (w v base : Nat) (up : Bool)
    (hT : pfx.length + w ≤ T.length) (hw : w ≤ 8) :
    escB (A ++ T) A.length pfx w v base up
      = (appendUint w v base).map
          (fun d => A ++ (pfx ++ (if up then toUpper d else d)) ++ T.drop (pfx.length + w)) := by
  obtain ⟨P, W, R, rfl, hP, hW⟩ : ∃ P W R, T = P ++ W ++ R ∧ P.length = pfx.length ∧ W.length = w :=
    ⟨T.take pfx.length, (T.drop pfx.length).take w, T.drop (pfx.length + w),
      by rw [List.append_assoc, ← List.drop_drop, List.take_append_drop, List.take_append_drop],
      by simp; omega, by simp; omega⟩
  have hdrop : (P ++ W ++ R).drop (pfx.length + w) = R := by
    rw [← hP, ← hW, ← List.length_append, List.drop_left' rfl]
  unfold escB
  have e1 : A ++ (P ++ W ++ R) = A ++ P ++ (W ++ R) := by simp [List.append_assoc]
  rw [e1, writeB_mid A P (W ++ R) pfx hP]
  simp only []
  have e2 : A ++ pfx ++ (W ++ R) = (A ++ pfx) ++ W ++ R := by simp [List.append_assoc]
  have e3 : A.length + pfx.length = (A ++ pfx).length := by simp
  subst hW
  rw [e2, e3, appendUintB_mid (A ++ pfx) W R v base (by omega), hdrop]
  cases hd : appendUint W.length v base with
  | none => rfl
  | some d =>
    simp only [Option.map_some]
    have hdl := appendUint_length hd
    cases up with
    | false => simp [List.append_assoc]
    | true =>
      simp only [if_true]
      rw [← hdl, toUpperB_mid (A ++ pfx) d R]
      simp [List.append_assoc]

theorem octalLoopB_spec : ∀ (rest A T : Bytes), T.length = 4 * rest.length →
    octalLoopB rest (A ++ T) A.length = (octalFormat rest).map (fun out => A ++ out) := by
  intro rest
  induction rest with
  | nil =>
    intro A T hT
    have : T = [] := List.eq_nil_of_length_eq_zero (by simpa using hT)
    subst this; simp [octalLoopB, octalFormat]
  | cons c rest ih =>
    intro A T hT
    simp only [List.length_cons] at hT
    rw [octalLoopB, escB_spec A T [92] 3 c 8 false (by simp; omega) (by omega), octalFormat]
    cases hd : appendUint 3 c 8 with
    | none => rfl
    | some d =>
      have hdl := appendUint_length hd
      simp only [Option.map_some, Bool.false_eq_true, if_false]
      have e : A.length + 4 = (A ++ ([92] ++ d)).length := by simp [hdl]
      rw [e, ih (A ++ ([92] ++ d)) (T.drop ([92].length + 3)) (by simp; omega)]
      cases octalFormat rest with
      | none => rfl
      | some r => simp [List.append_assoc]

theorem hexLoopB_spec : ∀ (rest A T : Bytes), T.length = 4 * rest.length →
    hexLoopB rest (A ++ T) A.length = (hexFormat rest).map (fun out => A ++ out) := by
  intro rest
  induction rest with
  | nil =>
    intro A T hT
    have : T = [] := List.eq_nil_of_length_eq_zero (by simpa using hT)
    subst this; simp [hexLoopB, hexFormat]
  | cons c rest ih =>
    intro A T hT
    simp only [List.length_cons] at hT
    rw [hexLoopB, escB_spec A T [92, 120] 2 c 16 true (by simp; omega) (by omega), hexFormat]
    cases hd : appendUint 2 c 16 with
    | none => rfl
    | some d =>
      have hdl := appendUint_length hd
      simp only [Option.map_some, if_true]
      have e : A.length + 4 = (A ++ ([92, 120] ++ toUpper d)).length := by simp [toUpper, hdl]
      rw [e, ih (A ++ ([92, 120] ++ toUpper d)) (T.drop ([92, 120].length + 2)) (by simp; omega)]
      cases hexFormat rest with
      | none => rfl
      | some r => simp [List.append_assoc]

theorem escU_some {v : Nat} {e : Bytes} (h : escU v = some e) :
    ∃ d, appendUint 8 v 16 = some d ∧ e = [92, 85] ++ toUpper d ∧ e.length = 10 := by
  unfold escU at h
  cases hd : appendUint 8 v 16 with
  | none => rw [hd] at h; cases h
  | some d =>
    rw [hd] at h
    simp only [Option.some.injEq] at h
    subst h
    have := appendUint_length hd
    exact ⟨d, rfl, rfl, by simp [toUpper, this]⟩

theorem escB_U (A T : Bytes) (v : Nat) (e : Bytes) (h : escU v = some e) (hT : 10 ≤ T.length) :
    escB (A ++ T) A.length [92, 85] 8 v 16 true = some (A ++ e ++ T.drop 10) := by
  obtain ⟨d, hd, rfl, -⟩ := escU_some h
  rw [escB_spec A T [92, 85] 8 v 16 true (by simpa using hT) (by omega), hd]
  simp

theorem unicodeLoopB_spec : ∀ (fuel : Nat) (rest out A T : Bytes),
    unicodeFormatAux fuel rest = some out → T.length = out.length →
    unicodeLoopB fuel rest (A ++ T) A.length = some (A ++ out) := by
  intro fuel
  induction fuel with
  | zero =>
    intro rest out A T h hT
    cases rest with
    | nil =>
      simp only [unicodeFormatAux, Option.some.injEq] at h; subst h
      have : T = [] := List.eq_nil_of_length_eq_zero (by simpa using hT)
      subst this; simp [unicodeLoopB]
    | cons b r => simp [unicodeFormatAux] at h
  | succ fuel ih =>
    intro rest out A T h hT
    cases rest with
    | nil =>
      simp only [unicodeFormatAux, Option.some.injEq] at h; subst h
      have : T = [] := List.eq_nil_of_length_eq_zero (by simpa using hT)
      subst this; simp [unicodeLoopB]
    | cons bt rest =>
      unfold unicodeFormatAux at h
      unfold unicodeLoopB
      by_cases hb : bt < 0x80
      · simp only [hb, if_true] at h ⊢
        cases he : escU bt with
        | none => rw [he] at h; simp at h
        | some e =>
          cases hr : unicodeFormatAux fuel rest with
          | none => rw [he, hr] at h; simp at h
          | some r =>
            rw [he, hr] at h
            simp only [Option.some.injEq] at h; subst h
            obtain ⟨d, -, -, hel⟩ := escU_some he
            simp only [List.length_append] at hT
            rw [escB_U A T bt e he (by omega)]
            simp only []
            have e1 : A.length + 10 = (A ++ e).length := by simp [hel]
            rw [e1, ih rest r (A ++ e) (T.drop 10) hr (by simp; omega)]
            simp [List.append_assoc]
      · simp only [hb, if_false] at h ⊢
        rcases hdr : Utf8.decodeRune (bt :: rest) with ⟨c, size⟩
        rw [hdr] at h
        simp only [] at h ⊢
        by_cases hc : c = Utf8.runeError
        · simp only [hc, if_true] at h ⊢
          cases hr : unicodeFormatAux fuel ((bt :: rest).drop size) with
          | none => rw [hr] at h; simp at h
          | some r =>
            rw [hr] at h
            simp only [Option.some.injEq] at h; subst h
            simp only [List.length_cons, List.length_append, List.length_nil, lit0000FFFD] at hT
            obtain ⟨P, W, R, rfl, hP, hW⟩ : ∃ P W R, T = P ++ W ++ R ∧ P.length = 2 ∧ W.length = 8 :=
              ⟨T.take 2, (T.drop 2).take 8, T.drop 10,
                by rw [List.append_assoc, show (10 : Nat) = 2 + 8 from rfl, ← List.drop_drop,
                  List.take_append_drop, List.take_append_drop],
                by simp; omega, by simp; omega⟩
            have e1 : A ++ (P ++ W ++ R) = A ++ P ++ (W ++ R) := by simp [List.append_assoc]
            rw [e1, writeB_mid A P (W ++ R) [92, 85] (by simpa using hP)]
            simp only []
            have e2 : A ++ [92, 85] ++ (W ++ R) = (A ++ [92, 85]) ++ W ++ R := by simp [List.append_assoc]
            have e3 : A.length + 2 = (A ++ [92, 85]).length := by simp
            rw [e2, e3, writeB_mid (A ++ [92, 85]) W R lit0000FFFD (by simpa [lit0000FFFD] using hW)]
            simp only []
            have e4 : A.length + 10 = (A ++ [92, 85] ++ lit0000FFFD).length := by simp [lit0000FFFD]
            simp only [List.length_append] at hT
            rw [e4, ih _ r (A ++ [92, 85] ++ lit0000FFFD) R hr (by omega)]
            simp [List.append_assoc]
        · simp only [hc, if_false] at h ⊢
          cases he : escU c.toNat with
          | none => rw [he] at h; simp at h
          | some e =>
            cases hr : unicodeFormatAux fuel ((bt :: rest).drop size) with
            | none => rw [he, hr] at h; simp at h
            | some r =>
              rw [he, hr] at h
              simp only [Option.some.injEq] at h; subst h
              obtain ⟨d, -, -, hel⟩ := escU_some he
              simp only [List.length_append] at hT
              rw [escB_U A T c.toNat e he (by omega)]
              simp only []
              have e1 : A.length + 10 = (A ++ e).length := by simp [hel]
              rw [e1, ih _ r (A ++ e) (T.drop 10) hr (by simp; omega)]
              simp [List.append_assoc]

theorem escu_some {v : Nat} {e : Bytes} (h : escu v = some e) :
    ∃ d, appendUint 4 v 16 = some d ∧ e = [92, 117] ++ toUpper d ∧ e.length = 6 := by
  unfold escu at h
  cases hd : appendUint 4 v 16 with
  | none => rw [hd] at h; cases h
  | some d =>
    rw [hd] at h
    simp only [Option.some.injEq] at h
    subst h
    have := appendUint_length hd
    exact ⟨d, rfl, rfl, by simp [toUpper, this]⟩

/-- the escape just appended (`\u0000`) gets its digits. -/
theorem fillEsc_spec (g : GBuf) (A : Bytes) (v : Nat) (e : Bytes) (hg : g.b = A ++ [92, 117, 48, 48, 48, 48])
    (he : escu v = some e) :
    fillEsc g (A.length + 2) (A.length + 6) v = some { g with b := A ++ e } := by
  obtain ⟨d, hd, rfl, -⟩ := escu_some he
  have hdl := appendUint_length hd
  unfold fillEsc
  have e1 : g.b = (A ++ [92, 117]) ++ [48, 48, 48, 48] ++ [] := by rw [hg]; simp
  have e2 : A.length + 2 = (A ++ [92, 117]).length := by simp
  have e3 : A.length + 6 = (A ++ [92, 117]).length + [48, 48, 48, 48].length := by simp
  rw [e1, e2, e3, appendUintB_mid (A ++ [92, 117]) [48, 48, 48, 48] [] v 16 (by simp)]
  simp only [List.length_cons, List.length_nil, hd, Option.map_some]
  have e4 : (0 + 1 + 1 + 1 + 1 : Nat) = d.length := by omega
  rw [e4, toUpperB_mid (A ++ [92, 117]) d []]
  simp [List.append_assoc]

theorem appendEsc_b (g : GBuf) : (appendEsc g).b = g.b ++ [92, 117, 48, 48, 48, 48] := by
  unfold appendEsc; simp only []; split <;> rfl

theorem litEsc_spec (g : GBuf) (A : Bytes) (hg : g.b = A ++ [92, 117, 48, 48, 48, 48]) :
    writeB g.b (A.length + 6 - 4) litFFFD = some (A ++ [92, 117] ++ litFFFD) := by
  have e1 : g.b = (A ++ [92, 117]) ++ [48, 48, 48, 48] ++ [] := by rw [hg]; simp
  have e2 : A.length + 6 - 4 = (A ++ [92, 117]).length := by simp
  rw [e1, e2, writeB_mid (A ++ [92, 117]) [48, 48, 48, 48] [] litFFFD rfl]
  simp

set_option maxRecDepth 8000 in
theorem utf16RuneB_spec (g : GBuf) (A : Bytes) (c : Int) (e : Bytes)
    (hg : g.b = A ++ [92, 117, 48, 48, 48, 48]) (he : utf16FormatRune c = some e) :
    ∃ g', utf16RuneB g (A.length + 6) c = some (g', (A ++ e).length) ∧ g'.b = A ++ e := by
  unfold utf16FormatRune at he
  unfold utf16RuneB
  by_cases h1 : c = Utf8.runeError
  · rw [if_pos h1] at he
    rw [if_pos h1, litEsc_spec g A hg]
    cases he
    refine ⟨{ g with b := A ++ [92, 117] ++ litFFFD }, ?_, ?_⟩
    · show some _ = some _
      congr 2
      simp [litFFFD]
    · simp [List.append_assoc]
  · rw [if_neg h1] at he
    rw [if_neg h1]
    by_cases h2 : (0 ≤ c ∧ c < 0xd800) ∨ (0xe000 ≤ c ∧ c < 0x10000)
    · rw [if_pos h2] at he
      rw [if_pos h2]
      have h6 : A.length + 6 - 4 = A.length + 2 := by omega
      obtain ⟨d, -, -, hel⟩ := escu_some he
      rw [h6, fillEsc_spec g A c.toNat e hg he]
      refine ⟨{ g with b := A ++ e }, ?_, rfl⟩
      simp [hel]
    · rw [if_neg h2] at he
      rw [if_neg h2]
      by_cases h3 : 0x10000 ≤ c ∧ c ≤ Utf8.maxRune
      · rw [if_pos h3] at he
        rw [if_pos h3]
        rcases hu : utf16Enc c.toNat with ⟨r1, r2⟩
        rw [hu] at he
        simp only [] at he ⊢
        cases ha : escu r1 with
        | none => rw [ha] at he; simp at he
        | some a =>
          cases hb : escu r2 with
          | none => rw [ha, hb] at he; simp at he
          | some b =>
            rw [ha, hb] at he
            simp only [Option.some.injEq] at he; subst he
            obtain ⟨-, -, -, hal⟩ := escu_some ha
            obtain ⟨-, -, -, hbl⟩ := escu_some hb
            have h6 : A.length + 6 - 4 = A.length + 2 := by omega
            rw [h6, fillEsc_spec g A r1 a hg ha]
            simp only []
            have hg2 : (appendEsc { g with b := A ++ a }).b = (A ++ a) ++ [92, 117, 48, 48, 48, 48] :=
              appendEsc_b _
            have e2 : A.length + 6 + 2 = (A ++ a).length + 2 := by simp [hal]
            have e3 : A.length + 6 + 6 = (A ++ a).length + 6 := by simp [hal]
            rw [e2, e3, fillEsc_spec _ (A ++ a) r2 b hg2 hb]
            refine ⟨{ appendEsc { g with b := A ++ a } with b := A ++ a ++ b }, ?_, ?_⟩
            · simp only [Option.map_some, List.length_append, hal, hbl]
            · simp [List.append_assoc]
      · rw [if_neg h3] at he
        rw [if_neg h3, litEsc_spec g A hg]
        cases he
        refine ⟨{ g with b := A ++ [92, 117] ++ litFFFD }, ?_, ?_⟩
        · show some _ = some _
          congr 2
          simp [litFFFD]
        · simp [List.append_assoc]

theorem utf16LoopB_spec : ∀ (fuel : Nat) (rest out : Bytes) (g : GBuf),
    utf16FormatAux fuel rest = some out →
    ∃ g', utf16LoopB fuel rest g g.b.length = some g' ∧ g'.b = g.b ++ out := by
  intro fuel
  induction fuel with
  | zero =>
    intro rest out g h
    cases rest with
    | nil => simp only [utf16FormatAux, Option.some.injEq] at h; subst h; exact ⟨g, rfl, by simp⟩
    | cons b r => simp [utf16FormatAux] at h
  | succ fuel ih =>
    intro rest out g h
    cases rest with
    | nil => simp only [utf16FormatAux, Option.some.injEq] at h; subst h; exact ⟨g, rfl, by simp⟩
    | cons bt rest =>
      unfold utf16FormatAux at h
      unfold utf16LoopB
      have hg1 := appendEsc_b g
      by_cases hb : bt < 0x80
      · simp only [hb, if_true] at h ⊢
        cases he : escu bt with
        | none => rw [he] at h; simp at h
        | some e =>
          cases hr : utf16FormatAux fuel rest with
          | none => rw [he, hr] at h; simp at h
          | some r =>
            rw [he, hr] at h
            simp only [Option.some.injEq] at h; subst h
            obtain ⟨-, -, -, hel⟩ := escu_some he
            rw [fillEsc_spec (appendEsc g) g.b bt e hg1 he]
            simp only []
            obtain ⟨g', h1, h2⟩ := ih rest r { appendEsc g with b := g.b ++ e } hr
            have e1 : g.b.length + 6 = (g.b ++ e).length := by simp [hel]
            rw [e1]
            exact ⟨g', h1, by rw [h2]; simp [List.append_assoc]⟩
      · simp only [hb, if_false] at h ⊢
        rcases hdr : Utf8.decodeRune (bt :: rest) with ⟨c, size⟩
        rw [hdr] at h
        simp only [] at h ⊢
        cases he : utf16FormatRune c with
        | none => rw [he] at h; simp at h
        | some e =>
          cases hr : utf16FormatAux fuel ((bt :: rest).drop size) with
          | none => rw [he, hr] at h; simp at h
          | some r =>
            rw [he, hr] at h
            simp only [Option.some.injEq] at h; subst h
            obtain ⟨g2, hs, hb2⟩ := utf16RuneB_spec (appendEsc g) g.b c e hg1 he
            rw [hs]
            simp only []
            obtain ⟨g', h1, h2⟩ := ih _ r g2 hr
            rw [hb2] at h1 h2
            exact ⟨g', h1, by rw [h2]; simp [List.append_assoc]⟩

end Golib.C07
