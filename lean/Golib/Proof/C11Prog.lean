/-
C11 — progress of `Push` under fair scheduling of the publishing pusher.

A pusher spins (`Gosched` loop) only for two reasons: the tail lags behind a node that
another pusher has linked but not yet published, or another pusher linked first.  Proved:

  * `publisher_returns`: a pusher that has linked its node (`pushAdd`/`pushStore`) returns
    after at most `remPub ≤ 2` of ITS OWN steps, whatever the other threads do;
  * `push_round`: from every reachable state, for a thread `i` inside the push loop and
    every schedule `σ₁ ++ σ₂` such that every other thread that is publishing takes its
    `remPub ≤ 2` remaining steps in `σ₁` (fairness to the publisher) and thread `i` takes
    at least 7 steps in `σ₂`: thread `i`'s `Push` returns, or ANOTHER thread links a node
    (a successful `casNext`) during the schedule.
-/
import Golib.Proof.C11Inv

namespace Golib.C11

/-- steps a pusher still needs after its link CAS -/
def remPub : Pc → Nat
  | .pushAdd _ _ => 2
  | .pushStore _ _ => 1
  | _ => 0

def inPushLoop : Pc → Bool
  | .pushLoadTail _ => true
  | .pushLoadNext _ _ => true
  | .pushCAS _ _ => true
  | .pushYield _ => true
  | _ => false

def inPush (pc : Pc) : Bool := inPushLoop pc || isPushPost pc

/-- own steps thread `i` needs to return from `Push` when nobody else is publishing or
linking (`len` = current chain length) -/
def rank (len : Nat) : Pc → Nat
  | .pushStore _ _ => 1
  | .pushAdd _ _ => 2
  | .pushCAS _ t => if t + 1 = len then 3 else 7
  | .pushLoadNext _ t => if t + 1 < len then 7 else 4
  | .pushLoadTail _ => 5
  | .pushYield _ => 6
  | _ => 0

theorem rank_le (len : Nat) (pc : Pc) : rank len pc ≤ 7 := by
  cases pc <;> simp only [rank] <;> (try split) <;> omega

theorem rank_pos {len : Nat} {pc : Pc} (h : inPush pc = true) : 1 ≤ rank len pc := by
  cases pc <;> simp [inPush, inPushLoop, isPushPost] at h <;> simp only [rank] <;> (try split) <;> omega

def Returned (i : Nat) (es : List Event) : Prop := ∃ e ∈ es, e.tid = i ∧ e.ret = some .push

/-- some thread other than `i` linked a node -/
def OtherLinked (i : Nat) (es : List Event) : Prop :=
  ∃ e ∈ es, e.tid ≠ i ∧ ∃ t n, e.acc = .casNext t true n

theorem step_tid (s : State) (i : Nat) : (step .addThenStore s i).2.tid = i := by
  unfold step
  cases s.threads[i]? with
  | none => rfl
  | some th =>
    dsimp only
    cases th.pc <;> (try dsimp only) <;> (try unfold State.popFail) <;> (repeat' split) <;> rfl

theorem step_threads_ne' (s : State) {i j : Nat} (hij : j ≠ i) :
    (step .addThenStore s i).1.threads[j]? = s.threads[j]? := by
  have hne : i ≠ j := fun e => hij e.symm
  unfold step
  cases hth : s.threads[i]? with
  | none => rfl
  | some th =>
    dsimp only
    cases th.pc <;> (try dsimp only) <;> (try unfold State.popFail) <;> (repeat' split) <;>
      (try simp only [State.setPc, State.fin, List.getElem?_set_ne hne])

theorem lt_of_get {α : Type} {l : List α} {i : Nat} {a : α} (h : l[i]? = some a) : i < l.length := by
  by_cases hlt : i < l.length
  · exact hlt
  · rw [List.getElem?_eq_none (Nat.le_of_not_lt hlt)] at h; simp at h

theorem remPub_finish (th : Thread) : remPub th.finish.pc = 0 := by
  rcases finish_pc_cases th with h | ⟨v, h⟩ | h | h <;> rw [h] <;> rfl

theorem popFail_other {s : State} {x : Nat} {b : Thread} (hx : s.threads[x]? = some b)
    (h0 : remPub b.pc = 0) (acc : Acc) :
    (s.popFail x b acc).1.chain.length = s.chain.length ∧
      ∃ b', (s.popFail x b acc).1.threads[x]? = some b' ∧
        (remPub b'.pc + 1 = remPub b.pc ∨ (remPub b.pc = 0 ∧ remPub b'.pc = 0)) := by
  have hset : ∀ b' : Thread, (s.threads.set x b')[x]? = some b' :=
    fun b' => List.getElem?_set_self (lt_of_get hx)
  unfold State.popFail
  split
  · exact ⟨rfl, _, hset _, Or.inr ⟨h0, rfl⟩⟩
  · split
    · exact ⟨rfl, _, hset _, Or.inr ⟨h0, rfl⟩⟩
    · exact ⟨rfl, _, hset _, Or.inr ⟨h0, remPub_finish b⟩⟩

/-- A step of thread `x`: either it is a successful link CAS, or the chain keeps its length
and the thread's remaining publication steps go down by one (or stay 0). -/
theorem step_other {s : State} {x : Nat} {b : Thread} (hx : s.threads[x]? = some b) :
    (∃ t n, (step .addThenStore s x).2.acc = .casNext t true n) ∨
    ((step .addThenStore s x).1.chain.length = s.chain.length ∧
      ∃ b', (step .addThenStore s x).1.threads[x]? = some b' ∧
        (remPub b'.pc + 1 = remPub b.pc ∨ (remPub b.pc = 0 ∧ remPub b'.pc = 0))) := by
  have hxl := lt_of_get hx
  have hset : ∀ b' : Thread, (s.threads.set x b')[x]? = some b' := fun b' => List.getElem?_set_self hxl
  unfold step
  rw [hx]; dsimp only
  cases hpc : b.pc with
  | idle => right; exact ⟨rfl, b, hx, Or.inr ⟨by simp [remPub], by simp [hpc, remPub]⟩⟩
  | pushCAS v t =>
    dsimp only
    split
    · left; exact ⟨t, t + 1, rfl⟩
    · right; exact ⟨rfl, _, hset _, Or.inr ⟨rfl, rfl⟩⟩
  | pushLoadNext v t =>
    dsimp only
    split <;> (right; exact ⟨rfl, _, hset _, Or.inr ⟨rfl, rfl⟩⟩)
  | pushAdd v n => right; exact ⟨rfl, _, hset _, Or.inl rfl⟩
  | pushStore v n =>
    right; exact ⟨rfl, _, hset _, Or.inl (by rw [remPub_finish]; rfl)⟩
  | popLoadTail h =>
    dsimp only
    split
    · right
      have := popFail_other hx (by rw [hpc]; rfl) (Acc.ldTail s.tail)
      rw [hpc] at this; exact this
    · right; exact ⟨rfl, _, hset _, Or.inr ⟨rfl, rfl⟩⟩
  | popCAS h n =>
    dsimp only
    split
    · cases n with
      | some n => right; exact ⟨rfl, _, hset _, Or.inr ⟨rfl, rfl⟩⟩
      | none => right; exact ⟨rfl, _, hset _, Or.inr ⟨rfl, rfl⟩⟩
    · right
      have := popFail_other hx (by rw [hpc]; rfl) (Acc.casHead h n false)
      rw [hpc] at this; exact this
  | popTick => right; exact ⟨rfl, _, hset _, Or.inr ⟨rfl, rfl⟩⟩
  | popRead n =>
    dsimp only
    split <;> (right; exact ⟨rfl, _, hset _, Or.inr ⟨rfl, rfl⟩⟩)
  | popClear n v =>
    right; exact ⟨by simp [State.setPc], _, hset _, Or.inr ⟨rfl, rfl⟩⟩
  | popAdd v => right; exact ⟨rfl, _, hset _, Or.inr ⟨rfl, remPub_finish b⟩⟩
  | lenLoad => right; exact ⟨rfl, _, hset _, Or.inr ⟨rfl, remPub_finish b⟩⟩
  | pushLoadTail v => right; exact ⟨rfl, _, hset _, Or.inr ⟨rfl, rfl⟩⟩
  | pushYield v => right; exact ⟨rfl, _, hset _, Or.inr ⟨rfl, rfl⟩⟩
  | popLoadHead => right; exact ⟨rfl, _, hset _, Or.inr ⟨rfl, rfl⟩⟩
  | popLoadNext h => right; exact ⟨rfl, _, hset _, Or.inr ⟨rfl, rfl⟩⟩
  | popYield => right; exact ⟨rfl, _, hset _, Or.inr ⟨rfl, rfl⟩⟩

theorem cnt_zero_of_others {s : State} {i : Nat} {th : Thread} (hth : s.threads[i]? = some th)
    (hi : isPushPost th.pc = false)
    (ho : ∀ j b, j ≠ i → s.threads[j]? = some b → remPub b.pc = 0) :
    cnt isPushPost s.threads = 0 := by
  simp only [cnt, List.countP_eq_zero]
  intro b hb
  obtain ⟨j, hj⟩ := List.getElem?_of_mem hb
  by_cases e : j = i
  · subst e; rw [hth] at hj; obtain rfl := Option.some.inj hj; simp [hi]
  · have := ho j b e hj
    cases hp : b.pc <;> rw [hp] at this <;> simp [remPub, isPushPost] at this ⊢

/-- A step of the pushing thread `i` itself: it returns, or it is still inside `Push`; and
when no other thread is publishing its rank goes down. -/
theorem step_own {s : State} (hI : Inv s) {i : Nat} {th : Thread} (hth : s.threads[i]? = some th)
    (hin : inPush th.pc = true) :
    (step .addThenStore s i).2.ret = some .push ∨
    ∃ th', (step .addThenStore s i).1.threads[i]? = some th' ∧ inPush th'.pc = true ∧
      ((∀ j b, j ≠ i → s.threads[j]? = some b → remPub b.pc = 0) →
        rank (step .addThenStore s i).1.chain.length th'.pc + 1 ≤ rank s.chain.length th.pc) := by
  have hil := lt_of_get hth
  have hset : ∀ b' : Thread, (s.threads.set i b')[i]? = some b' := fun b' => List.getElem?_set_self hil
  have hloc := hI.locals th (List.mem_of_getElem? hth)
  have hlen := hI.chain_len
  unfold step
  rw [hth]; dsimp only
  cases hpc : th.pc with
  | pushStore v n => left; rfl
  | pushAdd v n =>
    dsimp only
    right; exact ⟨_, hset _, rfl, fun _ => by simp [rank]⟩
  | pushYield v =>
    dsimp only
    right; exact ⟨_, hset _, rfl, fun _ => by simp [rank]⟩
  | pushLoadTail v =>
    dsimp only
    right
    refine ⟨_, hset _, rfl, fun ho => ?_⟩
    have h0 := cnt_zero_of_others hth (by rw [hpc]; rfl) ho
    show rank s.chain.length (.pushLoadNext v s.tail) + 1 ≤ rank s.chain.length (.pushLoadTail v)
    simp only [rank]
    split <;> omega
  | pushLoadNext v t =>
    simp only [hpc, PcOk] at hloc
    dsimp only
    split
    · rename_i hc
      right
      refine ⟨_, hset _, rfl, fun _ => ?_⟩
      show rank s.chain.length (.pushYield v) + 1 ≤ rank s.chain.length (.pushLoadNext v t)
      simp only [rank, if_pos hc]; omega
    · rename_i hc
      right
      refine ⟨_, hset _, rfl, fun _ => ?_⟩
      show rank s.chain.length (.pushCAS v t) + 1 ≤ rank s.chain.length (.pushLoadNext v t)
      simp only [rank, if_neg hc]
      split <;> omega
  | pushCAS v t =>
    dsimp only
    split
    · rename_i hc
      right
      refine ⟨_, hset _, rfl, fun _ => ?_⟩
      show rank (s.chain ++ [v]).length (.pushAdd v (t + 1)) + 1 ≤ rank s.chain.length (.pushCAS v t)
      simp only [rank, if_pos hc]; omega
    · rename_i hc
      right
      refine ⟨_, hset _, rfl, fun _ => ?_⟩
      show rank s.chain.length (.pushYield v) + 1 ≤ rank s.chain.length (.pushCAS v t)
      simp only [rank, if_neg hc]; omega
  | _ => rw [hpc] at hin; simp [inPush, inPushLoop, isPushPost] at hin

theorem run_cons_events (s : State) (x : Nat) (σ : List Nat) :
    (run .addThenStore s (x :: σ)).2 =
      (step .addThenStore s x).2 :: (run .addThenStore (step .addThenStore s x).1 σ).2 := rfl

theorem run_append_events (s : State) (σ₁ σ₂ : List Nat) :
    (run .addThenStore s (σ₁ ++ σ₂)).2 =
      (run .addThenStore s σ₁).2 ++ (run .addThenStore (run .addThenStore s σ₁).1 σ₂).2 := by
  induction σ₁ generalizing s with
  | nil => rfl
  | cons x σ ih => simp only [List.cons_append, run]; rw [ih]

/-- the good outcome of the progress argument for thread `i` -/
def Done (i : Nat) (es : List Event) : Prop := Returned i es ∨ OtherLinked i es

theorem Done.cons {i : Nat} {e : Event} {es : List Event} (h : Done i es) : Done i (e :: es) := by
  rcases h with ⟨a, ha, h⟩ | ⟨a, ha, h⟩
  · exact Or.inl ⟨a, List.mem_cons_of_mem _ ha, h⟩
  · exact Or.inr ⟨a, List.mem_cons_of_mem _ ha, h⟩

theorem Done.append_left {i : Nat} {es fs : List Event} (h : Done i es) : Done i (es ++ fs) := by
  rcases h with ⟨a, ha, h⟩ | ⟨a, ha, h⟩
  · exact Or.inl ⟨a, List.mem_append_left _ ha, h⟩
  · exact Or.inr ⟨a, List.mem_append_left _ ha, h⟩

theorem Done.append_right {i : Nat} {es fs : List Event} (h : Done i fs) : Done i (es ++ fs) := by
  rcases h with ⟨a, ha, h⟩ | ⟨a, ha, h⟩
  · exact Or.inl ⟨a, List.mem_append_right _ ha, h⟩
  · exact Or.inr ⟨a, List.mem_append_right _ ha, h⟩

/-- Phase 1: while the publisher takes its remaining steps, thread `i` stays inside `Push`
(or the good outcome happens); afterwards no other thread is publishing. -/
theorem phase1 {s : State} (hI : Inv s) {i : Nat} {th : Thread} (hth : s.threads[i]? = some th)
    (hin : inPush th.pc = true) (σ : List Nat)
    (hf : ∀ j b, j ≠ i → s.threads[j]? = some b → remPub b.pc ≤ σ.count j) :
    Done i (run .addThenStore s σ).2 ∨
    ∃ th', (run .addThenStore s σ).1.threads[i]? = some th' ∧ inPush th'.pc = true ∧
      ∀ j b, j ≠ i → (run .addThenStore s σ).1.threads[j]? = some b → remPub b.pc = 0 := by
  induction σ generalizing s th with
  | nil =>
    right
    exact ⟨th, hth, hin, fun j b hj hb => by have := hf j b hj hb; simpa using this⟩
  | cons x σ ih =>
    rw [run_cons_events]
    have hI' := inv_step hI x
    by_cases e : x = i
    · subst e
      rcases step_own hI hth hin with hr | ⟨th', h1, h2, _⟩
      · left; left; exact ⟨_, List.mem_cons_self .., step_tid s x, hr⟩
      · have := ih hI' h1 h2 (fun j b hj hb => by
          rw [step_threads_ne' s hj] at hb
          have := hf j b hj hb
          rw [List.count_cons] at this
          simp only [beq_iff_eq] at this
          rw [if_neg (fun h => hj h.symm)] at this
          exact this)
        rcases this with hd | hr
        · left; exact hd.cons
        · right; exact hr
    · have hthi : (step .addThenStore s x).1.threads[i]? = some th := by
        rw [step_threads_ne' s (fun h => e h.symm)]; exact hth
      cases hxb : s.threads[x]? with
      | none =>
        have hs : (step .addThenStore s x).1 = s := by unfold step; rw [hxb]
        have := ih hI' hthi hin (fun j b hj hb => by
          rw [hs] at hb
          have := hf j b hj hb
          rw [List.count_cons] at this
          by_cases ejx : x = j
          · subst ejx; rw [hxb] at hb; simp at hb
          · simp only [beq_iff_eq] at this; rw [if_neg ejx] at this; exact this)
        rcases this with hd | hr
        · left; exact hd.cons
        · right; exact hr
      | some bx =>
        rcases step_other hxb with ⟨t, n, hl⟩ | ⟨_, b', hb', hrem⟩
        · left; right
          exact ⟨_, List.mem_cons_self .., by rw [step_tid]; exact e, t, n, hl⟩
        · have := ih hI' hthi hin (fun j b hj hb => by
            by_cases ejx : x = j
            · subst ejx
              rw [hb'] at hb
              obtain rfl := Option.some.inj hb
              have := hf x bx hj hxb
              rw [List.count_cons_self] at this
              omega
            · rw [step_threads_ne' s (fun h => ejx h.symm)] at hb
              have := hf j b hj hb
              rw [List.count_cons] at this
              simp only [beq_iff_eq] at this; rw [if_neg ejx] at this; exact this)
          rcases this with hd | hr
          · left; exact hd.cons
          · right; exact hr

/-- Phase 2: nobody else is publishing; every own step of thread `i` lowers its rank, steps
of the others leave it unchanged unless they link a node. -/
theorem phase2 {s : State} (hI : Inv s) {i : Nat} {th : Thread} (hth : s.threads[i]? = some th)
    (hin : inPush th.pc = true)
    (ho : ∀ j b, j ≠ i → s.threads[j]? = some b → remPub b.pc = 0) (σ : List Nat)
    (hr : rank s.chain.length th.pc ≤ σ.count i) : Done i (run .addThenStore s σ).2 := by
  induction σ generalizing s th with
  | nil =>
    have := rank_pos (len := s.chain.length) hin
    simp at hr; omega
  | cons x σ ih =>
    rw [run_cons_events]
    have hI' := inv_step hI x
    by_cases e : x = i
    · subst e
      rcases step_own hI hth hin with hret | ⟨th', h1, h2, h3⟩
      · left; exact ⟨_, List.mem_cons_self .., step_tid s x, hret⟩
      · refine (ih hI' h1 h2 (fun j b hj hb => ?_) ?_).cons
        · rw [step_threads_ne' s hj] at hb; exact ho j b hj hb
        · have := h3 ho
          rw [List.count_cons_self] at hr
          omega
    · have hthi : (step .addThenStore s x).1.threads[i]? = some th := by
        rw [step_threads_ne' s (fun h => e h.symm)]; exact hth
      have hcnt : σ.count i = (x :: σ).count i := by
        rw [List.count_cons]; simp only [beq_iff_eq]; rw [if_neg e]; rfl
      cases hxb : s.threads[x]? with
      | none =>
        have hs : (step .addThenStore s x).1 = s := by unfold step; rw [hxb]
        refine (ih hI' hthi hin (fun j b hj hb => ?_) ?_).cons
        · rw [hs] at hb; exact ho j b hj hb
        · rw [hs, hcnt]; exact hr
      | some bx =>
        rcases step_other hxb with ⟨t, n, hl⟩ | ⟨hlen, b', hb', hrem⟩
        · right
          exact ⟨_, List.mem_cons_self .., by rw [step_tid]; exact e, t, n, hl⟩
        · refine (ih hI' hthi hin (fun j b hj hb => ?_) ?_).cons
          · by_cases ejx : x = j
            · subst ejx
              rw [hb'] at hb
              obtain rfl := Option.some.inj hb
              have := ho x bx hj hxb
              omega
            · rw [step_threads_ne' s (fun h => ejx h.symm)] at hb
              exact ho j b hj hb
          · rw [hlen, hcnt]; exact hr

/-- A pusher past its link CAS returns after `remPub ≤ 2` of its own steps, whatever the
other threads do in between. -/
theorem publisher_returns {s : State} (hI : Inv s) {j : Nat} {b : Thread}
    (hb : s.threads[j]? = some b) (hp : isPushPost b.pc = true) (σ : List Nat)
    (hc : remPub b.pc ≤ σ.count j) : Returned j (run .addThenStore s σ).2 := by
  induction σ generalizing s b with
  | nil =>
    cases hpc : b.pc <;> rw [hpc] at hp hc <;> simp [isPushPost, remPub] at hp hc
  | cons x σ ih =>
    rw [run_cons_events]
    have hI' := inv_step hI x
    by_cases e : x = j
    · subst e
      cases hpc : b.pc with
      | pushStore v n =>
        refine ⟨_, List.mem_cons_self .., step_tid s x, ?_⟩
        unfold step; rw [hb]; dsimp only; rw [hpc]
      | pushAdd v n =>
        have hb' : (step .addThenStore s x).1.threads[x]? = some { b with pc := .pushStore v n } := by
          unfold step; rw [hb]; dsimp only; rw [hpc]
          exact List.getElem?_set_self (lt_of_get hb)
        obtain ⟨a, ha, h⟩ := ih hI' hb' rfl (by
          rw [hpc, List.count_cons_self] at hc; simp only [remPub] at hc ⊢; omega)
        exact ⟨a, List.mem_cons_of_mem _ ha, h⟩
      | _ => rw [hpc] at hp; simp [isPushPost] at hp
    · have hb' : (step .addThenStore s x).1.threads[j]? = some b := by
        rw [step_threads_ne' s (fun h => e h.symm)]; exact hb
      obtain ⟨a, ha, h⟩ := ih hI' hb' hp (by
        rw [List.count_cons] at hc; simp only [beq_iff_eq] at hc; rw [if_neg e] at hc; exact hc)
      exact ⟨a, List.mem_cons_of_mem _ ha, h⟩

/-- One fair round (see the file header). -/
theorem push_round {s : State} (hI : Inv s) {i : Nat} {th : Thread} (hth : s.threads[i]? = some th)
    (hin : inPush th.pc = true) (σ₁ σ₂ : List Nat)
    (hfair : ∀ j b, j ≠ i → s.threads[j]? = some b → remPub b.pc ≤ σ₁.count j)
    (hown : 7 ≤ σ₂.count i) :
    Returned i (run .addThenStore s (σ₁ ++ σ₂)).2 ∨ OtherLinked i (run .addThenStore s (σ₁ ++ σ₂)).2 := by
  rw [run_append_events]
  rcases phase1 hI hth hin σ₁ hfair with hd | ⟨th', h1, h2, h3⟩
  · exact Done.append_left hd
  · exact Done.append_right (phase2 (inv_run hI σ₁) h1 h2 h3 σ₂
      (Nat.le_trans (rank_le _ _) hown))

/-! ### counting: every link uses up one pending `Push`, so fair rounds are enough -/

def isPushCall' : Call → Bool
  | .push _ => true
  | _ => false

/-- `Push` calls of a thread that have not linked their node yet (current + future) -/
def pend (th : Thread) : Nat := (inPushLoop th.pc).toNat + th.prog.countP isPushCall'

/-- all `Push` calls in the system that have not linked their node yet -/
def unlinked (s : State) : Nat := (s.threads.map pend).sum

def isLink : Acc → Bool
  | .casNext _ true _ => true
  | _ => false

def linkCount (es : List Event) : Nat := es.countP fun e => isLink e.acc

theorem sum_set {l : List Thread} {i : Nat} {a : Thread} (h : l[i]? = some a) (b : Thread) :
    ((l.set i b).map pend).sum + pend a = (l.map pend).sum + pend b := by
  induction l generalizing i with
  | nil => simp at h
  | cons x l ih =>
    cases i with
    | zero =>
      simp only [List.getElem?_cons_zero, Option.some.injEq] at h
      subst h
      simp only [List.set_cons_zero, List.map_cons, List.sum_cons]; omega
    | succ i =>
      simp only [List.getElem?_cons_succ] at h
      have := ih h
      simp only [List.set_cons_succ, List.map_cons, List.sum_cons]; omega

theorem pend_finish (th : Thread) : pend th.finish = th.prog.countP isPushCall' := by
  unfold Thread.finish
  cases th.prog with
  | nil => simp [pend, inPushLoop]
  | cons c r => cases c <;> simp [pend, start, inPushLoop, isPushCall', List.countP_cons] <;> omega

theorem popFail_unlinked {s : State} {x : Nat} {b : Thread} (hx : s.threads[x]? = some b)
    (hl : inPushLoop b.pc = false) (acc : Acc) (hacc : isLink acc = false := by rfl) :
    unlinked (s.popFail x b acc).1 + (isLink (s.popFail x b acc).2.acc).toNat = unlinked s := by
  have key : ∀ b' : Thread, pend b' = pend b →
      ((s.threads.set x b').map pend).sum = (s.threads.map pend).sum := by
    intro b' hb; have := sum_set hx b'; omega
  unfold State.popFail
  split
  · simp only [unlinked, State.setPc, hacc, Bool.toNat_false, Nat.add_zero]
    exact key _ (by simp only [pend, hl]; rfl)
  · split
    · simp only [unlinked, hacc, Bool.toNat_false, Nat.add_zero]
      exact key _ (by simp only [pend, hl]; rfl)
    · simp only [unlinked, State.fin, hacc, Bool.toNat_false, Nat.add_zero]
      exact key _ (by rw [pend_finish]; simp [pend, hl])

/-- Every step: pending pushes go down by exactly the links performed. -/
theorem unlinked_step (s : State) (x : Nat) :
    unlinked (step .addThenStore s x).1 + (isLink (step .addThenStore s x).2.acc).toNat
      = unlinked s := by
  unfold step
  cases hx : s.threads[x]? with
  | none => simp [isLink]
  | some b =>
    have key : ∀ b' : Thread, pend b' = pend b →
        ((s.threads.set x b').map pend).sum = (s.threads.map pend).sum := by
      intro b' hb; have := sum_set hx b'; omega
    have keyf : inPushLoop b.pc = false →
        ((s.threads.set x b.finish).map pend).sum = (s.threads.map pend).sum := by
      intro h; apply key; rw [pend_finish]; simp [pend, h]
    dsimp only
    cases hpc : b.pc with
    | idle => simp [isLink]
    | pushCAS v t =>
      dsimp only
      split
      · have := sum_set hx { b with pc := .pushAdd v (t + 1) }
        simp only [unlinked, State.setPc, isLink, Bool.toNat_true]
        simp only [pend, hpc, inPushLoop, Bool.toNat_true, Bool.toNat_false] at this
        omega
      · simp only [unlinked, State.setPc, isLink, Bool.toNat_false, Nat.add_zero]
        exact key _ (by simp [pend, hpc, inPushLoop])
    | pushLoadNext v t =>
      dsimp only
      split <;> simp only [unlinked, State.setPc, isLink, Bool.toNat_false, Nat.add_zero] <;>
        exact key _ (by simp [pend, hpc, inPushLoop])
    | pushLoadTail v =>
      simp only [unlinked, State.setPc, isLink, Bool.toNat_false, Nat.add_zero]
      exact key _ (by simp [pend, hpc, inPushLoop])
    | pushYield v =>
      simp only [unlinked, State.setPc, isLink, Bool.toNat_false, Nat.add_zero]
      exact key _ (by simp [pend, hpc, inPushLoop])
    | pushAdd v n =>
      simp only [unlinked, State.setPc, isLink, Bool.toNat_false, Nat.add_zero]
      exact key _ (by simp [pend, hpc, inPushLoop])
    | pushStore v n =>
      simp only [unlinked, State.fin, isLink, Bool.toNat_false, Nat.add_zero]
      exact keyf (by rw [hpc]; rfl)
    | popLoadHead =>
      simp only [unlinked, State.setPc, isLink, Bool.toNat_false, Nat.add_zero]
      exact key _ (by simp [pend, hpc, inPushLoop])
    | popLoadNext h =>
      simp only [unlinked, State.setPc, isLink, Bool.toNat_false, Nat.add_zero]
      exact key _ (by simp [pend, hpc, inPushLoop])
    | popYield =>
      simp only [unlinked, State.setPc, isLink, Bool.toNat_false, Nat.add_zero]
      exact key _ (by simp [pend, hpc, inPushLoop])
    | popClear n v =>
      simp only [unlinked, State.setPc, isLink, Bool.toNat_false, Nat.add_zero]
      exact key _ (by simp [pend, hpc, inPushLoop])
    | popRead n =>
      dsimp only
      split <;> simp only [unlinked, State.setPc, isLink, Bool.toNat_false, Nat.add_zero] <;>
        exact key _ (by simp [pend, hpc, inPushLoop])
    | popAdd v =>
      simp only [unlinked, State.fin, isLink, Bool.toNat_false, Nat.add_zero]
      exact keyf (by rw [hpc]; rfl)
    | lenLoad =>
      simp only [unlinked, State.fin, isLink, Bool.toNat_false, Nat.add_zero]
      exact keyf (by rw [hpc]; rfl)
    | popLoadTail h =>
      dsimp only
      split
      · exact popFail_unlinked hx (by rw [hpc]; rfl) _
      · simp only [unlinked, State.setPc, isLink, Bool.toNat_false, Nat.add_zero]
        exact key _ (by simp [pend, hpc, inPushLoop])
    | popCAS h n =>
      dsimp only
      split
      · cases n <;> simp only [unlinked, State.setPc, isLink, Bool.toNat_false, Nat.add_zero] <;>
          exact key _ (by simp [pend, hpc, inPushLoop])
      · exact popFail_unlinked hx (by rw [hpc]; rfl) _
    | popTick =>
      simp only [unlinked, State.setPc, isLink, Bool.toNat_false, Nat.add_zero]
      exact key _ (by simp [pend, hpc, inPushLoop])

theorem unlinked_run (s : State) (σ : List Nat) :
    unlinked (run .addThenStore s σ).1 + linkCount (run .addThenStore s σ).2 = unlinked s := by
  induction σ generalizing s with
  | nil => simp [run, linkCount]
  | cons x σ ih =>
    have h1 := unlinked_step s x
    have h2 := ih (step .addThenStore s x).1
    simp only [run, linkCount, List.countP_cons] at h2 ⊢
    cases hl : isLink (step .addThenStore s x).2.acc <;> rw [hl] at h1 <;> simp at h1 ⊢ <;> omega

theorem linkCount_pos {i : Nat} {es : List Event} (h : OtherLinked i es) : 1 ≤ linkCount es := by
  obtain ⟨e, he, _, t, n, ha⟩ := h
  exact List.countP_pos_iff.mpr ⟨e, he, by rw [ha]; rfl⟩

/-- Along any schedule thread `i`'s `Push` has returned or `i` is still inside it. -/
theorem stays_or_returns {s : State} (hI : Inv s) {i : Nat} {th : Thread}
    (hth : s.threads[i]? = some th) (hin : inPush th.pc = true) (σ : List Nat) :
    Returned i (run .addThenStore s σ).2 ∨
    ∃ th', (run .addThenStore s σ).1.threads[i]? = some th' ∧ inPush th'.pc = true := by
  induction σ generalizing s th with
  | nil => right; exact ⟨th, hth, hin⟩
  | cons x σ ih =>
    rw [run_cons_events]
    have hI' := inv_step hI x
    have lift : ∀ {es : List Event} {e : Event}, Returned i es → Returned i (e :: es) :=
      fun ⟨a, ha, h⟩ => ⟨a, List.mem_cons_of_mem _ ha, h⟩
    by_cases e : x = i
    · subst e
      rcases step_own hI hth hin with hr | ⟨th', h1, h2, _⟩
      · left; exact ⟨_, List.mem_cons_self .., step_tid s x, hr⟩
      · rcases ih hI' h1 h2 with h | h
        · left; exact lift h
        · right; exact h
    · have hthi : (step .addThenStore s x).1.threads[i]? = some th := by
        rw [step_threads_ne' s (fun h => e h.symm)]; exact hth
      rcases ih hI' hthi hin with h | h
      · left; exact lift h
      · right; exact h

/-- A fair round for thread `i`: every other thread takes two steps (enough for whoever is
publishing), then thread `i` takes seven (the others interleaved arbitrarily). -/
def FairRound (i : Nat) (r : List Nat × List Nat) : Prop :=
  (∀ j, j ≠ i → 2 ≤ r.1.count j) ∧ 7 ≤ r.2.count i

def flatRounds (rs : List (List Nat × List Nat)) : List Nat := rs.flatMap fun r => r.1 ++ r.2

theorem remPub_le_two (pc : Pc) : remPub pc ≤ 2 := by cases pc <;> simp [remPub]

/-- With more fair rounds than there are unlinked pushes in the system, the `Push` of
thread `i` returns. -/
theorem push_rounds {s : State} (hI : Inv s) {i : Nat} {th : Thread} (hth : s.threads[i]? = some th)
    (hin : inPush th.pc = true) (rs : List (List Nat × List Nat))
    (hfair : ∀ r ∈ rs, FairRound i r) (hlen : unlinked s < rs.length) :
    Returned i (run .addThenStore s (flatRounds rs)).2 := by
  induction rs generalizing s th with
  | nil => simp at hlen
  | cons r rs ih =>
    have hr := hfair r (List.mem_cons_self ..)
    simp only [flatRounds, List.flatMap_cons]
    rw [run_append_events]
    have hround := push_round hI hth hin r.1 r.2
      (fun j b hj _ => Nat.le_trans (remPub_le_two _) (hr.1 j hj)) hr.2
    rcases stays_or_returns hI hth hin (r.1 ++ r.2) with hret | ⟨th', h1, h2⟩
    · exact ⟨hret.choose, List.mem_append_left _ hret.choose_spec.1, hret.choose_spec.2⟩
    · rcases hround with hret | hlink
      · exact ⟨hret.choose, List.mem_append_left _ hret.choose_spec.1, hret.choose_spec.2⟩
      · have h3 := unlinked_run s (r.1 ++ r.2)
        have h4 := linkCount_pos hlink
        have := ih (inv_run hI _) h1 h2 (fun r' hr' => hfair r' (List.mem_cons_of_mem _ hr'))
          (by simp only [List.length_cons] at hlen; omega)
        exact ⟨this.choose, List.mem_append_right _ this.choose_spec.1, this.choose_spec.2⟩

/-! ### threads that do not push never link -/

/-- not inside the push loop and no `Push` left in the program (it may be publishing, popping,
spinning in `PopWait`, reading `Len`, idle) -/
def NoPush (th : Thread) : Prop := pend th = 0

theorem no_link_of_noPush {s : State} {i : Nat}
    (h : ∀ j b, j ≠ i → s.threads[j]? = some b → NoPush b) (σ : List Nat) :
    ¬ OtherLinked i (run .addThenStore s σ).2 := by
  induction σ generalizing s with
  | nil => rintro ⟨e, he, _⟩; simp [run] at he
  | cons x σ ih =>
    rw [run_cons_events]
    rintro ⟨e, he, hne, t, n, ha⟩
    have hstep : ∀ j b, j ≠ i → (step .addThenStore s x).1.threads[j]? = some b → NoPush b := by
      intro j b hj hb
      by_cases ejx : j = x
      · subst ejx
        cases hxb : s.threads[j]? with
        | none =>
          have hs : (step .addThenStore s j).1 = s := by unfold step; rw [hxb]
          rw [hs, hxb] at hb; simp at hb
        | some bx =>
          have h0 := h j bx hj hxb
          have h1 := sum_set hxb b
          have h2 := unlinked_step s j
          -- the step replaces thread j by b and nothing else
          have hthr : (step .addThenStore s j).1.threads = s.threads.set j b := by
            apply List.ext_getElem?
            intro k
            by_cases ek : k = j
            · subst ek; rw [hb, List.getElem?_set_self (lt_of_get hxb)]
            · rw [step_threads_ne' s ek, List.getElem?_set_ne (fun h => ek h.symm)]
          unfold NoPush at h0 ⊢
          simp only [unlinked, hthr] at h2
          omega
      · rw [step_threads_ne' s ejx] at hb; exact h j b hj hb
    rcases List.mem_cons.mp he with rfl | he'
    · -- the first event: thread x ≠ i linking would need x inside the push loop
      rw [step_tid] at hne
      cases hxb : s.threads[x]? with
      | none =>
        have : (step .addThenStore s x).2.acc = .none := by unfold step; rw [hxb]
        rw [this] at ha; simp at ha
      | some bx =>
        have h0 := h x bx hne hxb
        have h2 := unlinked_step s x
        rw [ha] at h2
        simp only [isLink, Bool.toNat_true] at h2
        have hb' : ∃ b', (step .addThenStore s x).1.threads[x]? = some b' := by
          have : x < (step .addThenStore s x).1.threads.length := by
            have hl : (step .addThenStore s x).1.threads.length = s.threads.length := by
              unfold step; rw [hxb]; dsimp only
              cases bx.pc <;> (try dsimp only) <;> (try unfold State.popFail) <;> (repeat' split) <;>
                simp [State.setPc, State.fin]
            rw [hl]; exact lt_of_get hxb
          exact ⟨_, List.getElem?_eq_getElem this⟩
        obtain ⟨b', hb'⟩ := hb'
        have hthr : (step .addThenStore s x).1.threads = s.threads.set x b' := by
          apply List.ext_getElem?
          intro k
          by_cases ek : k = x
          · subst ek; rw [hb', List.getElem?_set_self (lt_of_get hxb)]
          · rw [step_threads_ne' s ek, List.getElem?_set_ne (fun h => ek h.symm)]
        have h1 := sum_set hxb b'
        unfold NoPush at h0
        simp only [unlinked, hthr] at h2
        omega
    · exact ih hstep ⟨e, he', hne, t, n, ha⟩

/-! ### the tight count: only the OTHER threads' pending pushes cost a round -/

theorem pend_le_sum {l : List Thread} {i : Nat} {th : Thread} (h : l[i]? = some th) :
    pend th ≤ (l.map pend).sum := by
  induction l generalizing i with
  | nil => simp at h
  | cons a l ih =>
    cases i with
    | zero =>
      simp only [List.getElem?_cons_zero, Option.some.injEq] at h
      subst h; simp only [List.map_cons, List.sum_cons]; omega
    | succ i =>
      simp only [List.getElem?_cons_succ] at h
      have := ih h
      simp only [List.map_cons, List.sum_cons]; omega

theorem step_threads_len (s : State) (x : Nat) :
    (step .addThenStore s x).1.threads.length = s.threads.length := by
  unfold step
  cases hxb : s.threads[x]? with
  | none => rfl
  | some bx =>
    dsimp only
    cases bx.pc <;> (try dsimp only) <;> (try unfold State.popFail) <;> (repeat' split) <;>
      simp [State.setPc, State.fin]

/-- a step of thread `x` replaces thread `x`'s entry and nothing else -/
theorem step_threads_eq_set {s : State} {x : Nat} {b : Thread} (hx : s.threads[x]? = some b) :
    ∃ b', (step .addThenStore s x).1.threads[x]? = some b' ∧
      (step .addThenStore s x).1.threads = s.threads.set x b' := by
  have hlt : x < (step .addThenStore s x).1.threads.length := by
    rw [step_threads_len]; exact lt_of_get hx
  refine ⟨_, List.getElem?_eq_getElem hlt, ?_⟩
  apply List.ext_getElem?
  intro k
  by_cases ek : k = x
  · subst ek; rw [List.getElem?_set_self (lt_of_get hx)]; exact List.getElem?_eq_getElem hlt
  · rw [step_threads_ne' s ek, List.getElem?_set_ne (fun h => ek h.symm)]

def otherLinkCount (i : Nat) (es : List Event) : Nat :=
  es.countP fun e => decide (e.tid ≠ i) && isLink e.acc

theorem otherLinkCount_cons (i : Nat) (e : Event) (es : List Event) :
    otherLinkCount i (e :: es) =
      otherLinkCount i es + (decide (e.tid ≠ i) && isLink e.acc).toNat := by
  unfold otherLinkCount
  rw [List.countP_cons]
  cases (decide (e.tid ≠ i) && isLink e.acc) <;> simp

/-- Pending pushes of the threads OTHER than `i` (`unlinked s - pend th`, `th` = thread `i`)
go down by exactly the links performed by other threads. -/
theorem others_step {s : State} {i : Nat} {th : Thread} (hth : s.threads[i]? = some th) (x : Nat) :
    ∃ th', (step .addThenStore s x).1.threads[i]? = some th' ∧
      (unlinked (step .addThenStore s x).1 - pend th') +
          (decide ((step .addThenStore s x).2.tid ≠ i) && isLink (step .addThenStore s x).2.acc).toNat
        = unlinked s - pend th := by
  have hstep := unlinked_step s x
  have hle := pend_le_sum hth
  rw [step_tid]
  cases hxb : s.threads[x]? with
  | none =>
    have hs : (step .addThenStore s x).1 = s := by unfold step; rw [hxb]
    have ha : (step .addThenStore s x).2.acc = .none := by unfold step; rw [hxb]
    refine ⟨th, by rw [hs]; exact hth, ?_⟩
    rw [hs, ha]; simp [isLink]
  | some bx =>
    obtain ⟨b', hb', hset⟩ := step_threads_eq_set hxb
    by_cases e : x = i
    · subst e
      rw [hth] at hxb
      obtain rfl := Option.some.inj hxb
      refine ⟨b', hb', ?_⟩
      have h1 := sum_set hth b'
      have h2 : pend b' ≤ unlinked (step .addThenStore s x).1 := pend_le_sum hb'
      simp only [unlinked] at hstep h2 hle ⊢
      rw [hset] at hstep h2 ⊢
      simp only [ne_eq, not_true_eq_false, decide_false, Bool.false_and, Bool.toNat_false, Nat.add_zero]
      omega
    · have hthi : (step .addThenStore s x).1.threads[i]? = some th := by
        rw [step_threads_ne' s (fun h => e h.symm)]; exact hth
      refine ⟨th, hthi, ?_⟩
      have h2 : pend th ≤ unlinked (step .addThenStore s x).1 := pend_le_sum hthi
      simp only [unlinked] at hstep h2 hle ⊢
      have : decide (x ≠ i) = true := by simp [e]
      rw [this, Bool.true_and]
      omega

theorem others_run {s : State} {i : Nat} {th : Thread} (hth : s.threads[i]? = some th)
    (σ : List Nat) :
    ∃ th', (run .addThenStore s σ).1.threads[i]? = some th' ∧
      (unlinked (run .addThenStore s σ).1 - pend th') + otherLinkCount i (run .addThenStore s σ).2
        = unlinked s - pend th := by
  induction σ generalizing s th with
  | nil => exact ⟨th, hth, by simp [run, otherLinkCount]⟩
  | cons x σ ih =>
    obtain ⟨th1, h1, h2⟩ := others_step hth x
    obtain ⟨th', h3, h4⟩ := ih h1
    refine ⟨th', h3, ?_⟩
    simp only [run]
    rw [otherLinkCount_cons]
    omega

theorem otherLinkCount_pos {i : Nat} {es : List Event} (h : OtherLinked i es) :
    1 ≤ otherLinkCount i es := by
  obtain ⟨e, he, hne, t, n, ha⟩ := h
  exact List.countP_pos_iff.mpr ⟨e, he, by rw [ha]; simp [hne, isLink]⟩

/-- TIGHT round bound: more fair rounds than pending pushes of the OTHER threads
(`unlinked s - pend th`; thread `i`'s own current and future pushes do not count). -/
theorem push_rounds_tight {s : State} (hI : Inv s) {i : Nat} {th : Thread}
    (hth : s.threads[i]? = some th) (hin : inPush th.pc = true) (rs : List (List Nat × List Nat))
    (hfair : ∀ r ∈ rs, FairRound i r) (hlen : unlinked s - pend th < rs.length) :
    Returned i (run .addThenStore s (flatRounds rs)).2 := by
  induction rs generalizing s th with
  | nil => simp at hlen
  | cons r rs ih =>
    have hr := hfair r (List.mem_cons_self ..)
    simp only [flatRounds, List.flatMap_cons]
    rw [run_append_events]
    have hround := push_round hI hth hin r.1 r.2
      (fun j b hj _ => Nat.le_trans (remPub_le_two _) (hr.1 j hj)) hr.2
    rcases stays_or_returns hI hth hin (r.1 ++ r.2) with hret | ⟨th', h1, h2⟩
    · exact ⟨hret.choose, List.mem_append_left _ hret.choose_spec.1, hret.choose_spec.2⟩
    · rcases hround with hret | hlink
      · exact ⟨hret.choose, List.mem_append_left _ hret.choose_spec.1, hret.choose_spec.2⟩
      · obtain ⟨th'', h3, h4⟩ := others_run hth (r.1 ++ r.2)
        rw [h1] at h3
        obtain rfl := Option.some.inj h3
        have h5 := otherLinkCount_pos hlink
        have := ih (inv_run hI _) h1 h2 (fun r' hr' => hfair r' (List.mem_cons_of_mem _ hr'))
          (by simp only [List.length_cons] at hlen; omega)
        exact ⟨this.choose, List.mem_append_right _ this.choose_spec.1, this.choose_spec.2⟩

end Golib.C11
