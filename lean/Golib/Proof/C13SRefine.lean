/-
C13 helper lemmas, part 10: `SList` against sequence semantics — the specification machine
`SA` (a `List Id` + value map), the abstraction relation `SAbs` and the one-step simulation
for every call of the API (`SOp`), lifted to operation lists.
-/
import Golib.Proof.C13SOps
import Golib.Proof.C13DRefine

set_option linter.unusedSimpArgs false
set_option linter.unusedVariables false

namespace Golib.C13

/-! ### the specification machine -/

/-- An `SList` *is* the sequence `seq` of its node ids; `val` the node values. -/
structure SA where
  seq   : List Nat
  val   : Nat → Int
  fresh : Nat

def SA.zero : SA := { seq := [], val := fun _ => 0, fresh := 0 }

def SA.allocV (a : SA) (v : Int) : SA :=
  { a with val := fun n => if n = a.fresh then v else a.val n, fresh := a.fresh + 1 }

/-- Insert at index `i`, clamped: `i ≤ 0` ↦ front, `i ≥ length` ↦ back
(`Int.toNat` clamps below, `take`/`drop` clamp above). -/
def insAt (i : Int) (e : Nat) (L : List Nat) : List Nat := L.take i.toNat ++ e :: L.drop i.toNat

theorem insAt_clamp (i : Int) (e : Nat) (L : List Nat) :
    (i ≤ 0 → insAt i e L = e :: L) ∧ ((L.length : Int) ≤ i → insAt i e L = L ++ [e]) ∧
    (insAt i e L).length = L.length + 1 ∧
    (0 ≤ i → i ≤ (L.length : Int) → (insAt i e L)[i.toNat]? = some e) := by
  unfold insAt
  refine ⟨fun h => ?_, fun h => ?_, ?_, fun h1 h2 => ?_⟩
  · have : i.toNat = 0 := by omega
    simp [this]
  · have : L.length ≤ i.toNat := by omega
    simp [List.take_of_length_le this, List.drop_eq_nil_of_le this]
  · simp; omega
  · have : (L.take i.toNat).length = i.toNat := by simp; omega
    rw [List.getElem?_append_right (by omega), this]; simp

/-- exchange the values of nodes `x` and `y` -/
def swapVals (val : Nat → Int) (x y : Nat) : Nat → Int :=
  fun n => if n = y then val x else if n = x then val y else val n

/-- The specification of every call, on the sequence. -/
def SA.apply (a : SA) : SOp → SA × DRes
  | .new v => (a.allocV v, .ptr (some a.fresh))
  | .get i => (a, .ptr (if 0 ≤ i ∧ i < (a.seq.length : Int) then a.seq[i.toNat]? else none))
  | .remove i =>
    if 0 ≤ i ∧ i < (a.seq.length : Int) then
      ({ a with seq := a.seq.eraseIdx i.toNat }, .ptr a.seq[i.toNat]?)
    else (a, .ptr none)
  | .removeFront => ({ a with seq := a.seq.tail }, .ptr a.seq.head?)
  | .pushFront v => ({ a.allocV v with seq := a.fresh :: a.seq }, .unit)
  | .pushBack v => ({ a.allocV v with seq := a.seq ++ [a.fresh] }, .unit)
  | .insertAt i v => ({ a.allocV v with seq := insAt i a.fresh a.seq }, .unit)
  | .pushFrontNode e => ({ a with seq := e :: a.seq }, .unit)
  | .pushBackNode e => ({ a with seq := a.seq ++ [e] }, .unit)
  | .insertNodeAt i e => ({ a with seq := insAt i e a.seq }, .unit)
  | .swap i j =>
    (match a.seq[i.toNat]?, a.seq[j.toNat]? with
      | some x, some y => if 0 ≤ i ∧ 0 ≤ j ∧ i ≠ j then { a with val := swapVals a.val x y } else a
      | _, _ => a, .unit)
  | .len => (a, .int a.seq.length)
  | .front => (a, .ptr a.seq.head?)
  | .back => (a, .ptr a.seq.getLast?)
  | .next e => (a, .ptr (succOf e a.seq))
  | .setValue e v => ({ a with val := fun n => if n = e then v else a.val n }, .unit)

/-- Allowed calls: the node forms get an allocated node that is not in the list (fresh from
`new`, or removed earlier); **indices are arbitrary integers**. -/
def SOp.ok (a : SA) : SOp → Prop
  | .pushFrontNode e | .pushBackNode e | .insertNodeAt _ e => e < a.fresh ∧ e ∉ a.seq
  | _ => True

/-- Allowed calls when other lists share the node store (`O` = "is a node of another list"):
a node handed to a node form is in no list at all. -/
def SOp.okO (O : Nat → Prop) (a : SA) : SOp → Prop
  | .pushFrontNode e | .pushBackNode e | .insertNodeAt _ e => e < a.fresh ∧ e ∉ a.seq ∧ ¬ O e
  | .next e => ¬ O e
  | _ => True

/-- Abstraction relation = the `SList` invariant, for one list of a family sharing a node store;
`O n` says that `n` is a node of ANOTHER list: `Next`-traversal from `head` = the sequence, `tail` =
last node reachable from `head`, `len` = chain length (`SInv`); the list shares no node with the
others; nodes outside every list have `next == nil`. -/
structure SAbsO (O : Nat → Prop) (s : SSt) (a : SA) : Prop where
  inv    : SInv s a.seq
  alloc  : ∀ x ∈ a.seq, x < a.fresh
  clean  : ∀ n, n ∉ a.seq → ¬ O n → s.next.get n = none
  disj   : ∀ x ∈ a.seq, ¬ O x
  oalloc : ∀ n, O n → n < a.fresh
  val    : ∀ n, s.val.get n = a.val n
  fresh  : s.fresh = a.fresh

/-- One list alone: no other list. -/
abbrev SAbs (s : SSt) (a : SA) : Prop := SAbsO (fun _ => False) s a

theorem sabs_zero : SAbs SSt.zero SA.zero :=
  ⟨sinv_zero, by simp [SA.zero], fun n _ _ => PM.get_empty n, fun _ _ h => h, fun _ h => h.elim,
    fun n => IM.get_empty n, rfl⟩

/-! ### building blocks -/

section
variable {O : Nat → Prop}

theorem sabs_alloc {s : SSt} {a : SA} (h : SAbsO O s a) (v : Int) :
    SAbsO O (s.alloc v).1 (a.allocV v) ∧ (s.alloc v).2 = a.fresh ∧ (s.alloc v).1.next = s.next := by
  refine ⟨⟨⟨h.inv.chain, h.inv.tail, h.inv.len, h.inv.nodup⟩, fun x hx => ?_, h.clean, h.disj,
    fun n hn => ?_, fun n => ?_, ?_⟩, h.fresh, rfl⟩
  · have := h.alloc x hx; simp only [SA.allocV]; omega
  · have := h.oalloc n hn; simp only [SA.allocV]; omega
  · simp only [SSt.alloc, SA.allocV, IM.get_set, h.val n, h.fresh]
  · simp only [SSt.alloc, SA.allocV, h.fresh]

theorem sabs_pushFrontNode {s : SSt} {a : SA} (h : SAbsO O s a) {e : Nat} (he : e < a.fresh)
    (hm : e ∉ a.seq) (heO : ¬ O e) :
    SAbsO O (s.pushFrontNode e) { a with seq := e :: a.seq } ∧
      ∀ n, O n → (s.pushFrontNode e).next.get n = s.next.get n := by
  have f := pushFrontNode_frame s e
  refine ⟨⟨pushFrontNode_sinv e h.inv hm, fun x hx => ?_, fun n hn hO => ?_, fun x hx => ?_, h.oalloc,
    fun n => ?_, ?_⟩, fun n hn => f.2.2 n (fun hh => heO (hh ▸ hn))⟩
  · simp only [List.mem_cons] at hx
    rcases hx with rfl | hx
    · exact he
    · exact h.alloc x hx
  · simp only [List.mem_cons, not_or] at hn
    rw [f.2.2 n hn.1]; exact h.clean n hn.2 hO
  · simp only [List.mem_cons] at hx
    rcases hx with rfl | hx
    · exact heO
    · exact h.disj x hx
  · rw [f.1]; exact h.val n
  · rw [f.2.1]; exact h.fresh

theorem sabs_insertNodeAt {s : SSt} {a : SA} (h : SAbsO O s a) (i : Int) {e : Nat} (he : e < a.fresh)
    (hm : e ∉ a.seq) (heO : ¬ O e) :
    ∃ s', s.insertNodeAt i e = some s' ∧ SAbsO O s' { a with seq := insAt i e a.seq } ∧
      ∀ n, O n → s'.next.get n = s.next.get n := by
  obtain ⟨s', r1, r2, r3, r4, r5⟩ := insertNodeAt_sinv i e h.inv hm (h.clean e hm heO)
  have hsub : ∀ x, x ∈ insAt i e a.seq → x = e ∨ x ∈ a.seq := by
    intro x hx
    simp only [insAt, List.mem_append, List.mem_cons] at hx
    rcases hx with hx | rfl | hx
    · exact Or.inr (List.mem_of_mem_take hx)
    · exact Or.inl rfl
    · exact Or.inr (List.mem_of_mem_drop hx)
  have hsup : ∀ x, x = e ∨ x ∈ a.seq → x ∈ insAt i e a.seq := by
    intro x hx
    simp only [insAt, List.mem_append, List.mem_cons]
    rcases hx with rfl | hh
    · exact Or.inr (Or.inl rfl)
    · have := List.take_append_drop i.toNat a.seq
      rw [← this] at hh
      simp only [List.mem_append] at hh
      rcases hh with hh | hh
      · exact Or.inl hh
      · exact Or.inr (Or.inr hh)
  refine ⟨s', r1, ⟨r2, fun x hx => ?_, fun n hn hO => ?_, fun x hx => ?_, h.oalloc,
    fun n => by rw [r3]; exact h.val n, by rw [r4]; exact h.fresh⟩, fun n hn => ?_⟩
  · rcases hsub x hx with rfl | hx
    · exact he
    · exact h.alloc x hx
  · have hn' : n ∉ e :: a.seq := fun hh => hn (hsup n (by simpa using hh))
    rw [r5 n hn']
    exact h.clean n (fun hh => hn' (by simp [hh])) hO
  · rcases hsub x hx with rfl | hx
    · exact heO
    · exact h.disj x hx
  · refine r5 n (fun hh => ?_)
    simp only [List.mem_cons] at hh
    rcases hh with rfl | hh
    · exact heO hn
    · exact h.disj n hh hn

theorem sabs_pushBackNode {s : SSt} {a : SA} (h : SAbsO O s a) {e : Nat} (he : e < a.fresh)
    (hm : e ∉ a.seq) (heO : ¬ O e) :
    ∃ s', s.pushBackNode e = some s' ∧ SAbsO O s' { a with seq := a.seq ++ [e] } ∧
      ∀ n, O n → s'.next.get n = s.next.get n := by
  obtain ⟨s', r1, r2, r3, r4, r5⟩ := pushBackNode_sinv e h.inv hm (h.clean e hm heO)
  refine ⟨s', r1, ⟨r2, fun x hx => ?_, fun n hn hO => ?_, fun x hx => ?_, h.oalloc,
    fun n => by rw [r3]; exact h.val n, by rw [r4]; exact h.fresh⟩, fun n hn => ?_⟩
  · simp only [List.mem_append, List.mem_singleton] at hx
    rcases hx with hx | rfl
    · exact h.alloc x hx
    · exact he
  · rw [r5 n hn]; exact h.clean n (fun hh => hn (by simp [hh])) hO
  · simp only [List.mem_append, List.mem_singleton] at hx
    rcases hx with hx | rfl
    · exact h.disj x hx
    · exact heO
  · refine r5 n (fun hh => ?_)
    simp only [List.mem_append, List.mem_singleton] at hh
    rcases hh with hh | rfl
    · exact h.disj n hh hn
    · exact heO hn

/-- `seq = take k ++ seq[k] :: drop (k+1)` -/
theorem split_at {L : List Nat} {k : Nat} (hk : k < L.length) :
    L = L.take k ++ L[k] :: L.drop (k + 1) := by
  have := List.take_append_drop k L
  rw [List.drop_eq_getElem_cons hk] at this
  exact this.symm

theorem succOf_not_mem (e : Nat) : ∀ L : List Nat, e ∉ L → succOf e L = none := by
  intro L
  induction L with
  | nil => intro _; rfl
  | cons x xs ih =>
    intro hh
    simp only [List.mem_cons, not_or] at hh
    simp [succOf, Ne.symm hh.1, ih hh.2]

/-! ### one call -/

/-- One-step simulation for one list of a family: same result as the specification, the
invariant is preserved, **and no `next` link of a node of another list is written** (frame). -/
theorem sapply_refinesO {s : SSt} {a : SA} (h : SAbsO O s a) (op : SOp) (hok : op.okO O a) :
    ∃ s', s.apply op = some (s', (a.apply op).2) ∧ SAbsO O s' (a.apply op).1 ∧
      (∀ n, O n → s'.next.get n = s.next.get n) ∧ a.fresh ≤ (a.apply op).1.fresh := by
  cases op with
  | new v =>
    obtain ⟨g1, g2, g3⟩ := sabs_alloc h v
    exact ⟨(s.alloc v).1, by simp only [SSt.apply, SA.apply]; rw [← g2], g1, fun n _ => by rw [g3],
      Nat.le_succ _⟩
  | get i =>
    exact ⟨s, by simp [SSt.apply, SA.apply, getAt_sinv h.inv i], h, fun _ _ => rfl, Nat.le_refl _⟩
  | remove i =>
    by_cases hr : 0 ≤ i ∧ i < (a.seq.length : Int)
    · have hk : i.toNat < a.seq.length := by omega
      have hsplit := split_at hk
      have hi : i = ((a.seq.take i.toNat).length : Int) := by simp; omega
      have hinv : SInv s (a.seq.take i.toNat ++ a.seq[i.toNat] :: a.seq.drop (i.toNat + 1)) := by
        rw [← hsplit]; exact h.inv
      obtain ⟨s', r1, r2, r3, r4, r5, r6⟩ := removeAt_in hinv i hi
      rw [← hsplit] at r4
      have herase : a.seq.eraseIdx i.toNat = a.seq.take i.toNat ++ a.seq.drop (i.toNat + 1) :=
        List.eraseIdx_eq_take_drop_succ _ _
      refine ⟨s', ?_, ?_, fun n hn => r4 n (fun hh => h.disj n hh hn), ?_⟩
      · simp only [SSt.apply, SA.apply, r1, if_pos hr, Option.map_some, List.getElem?_eq_getElem hk]
      · simp only [SA.apply, if_pos hr]
        refine ⟨by rw [herase]; exact r2, fun x hx => ?_, fun n hn hO => ?_, fun x hx => ?_, h.oalloc,
          fun n => by rw [r5]; exact h.val n, by rw [r6]; exact h.fresh⟩
        · exact h.alloc x (List.mem_of_mem_eraseIdx hx)
        · by_cases hnx : n = a.seq[i.toNat]
          · rw [hnx]; exact r3
          · have : n ∉ a.seq := by
              intro hh
              apply hn
              show n ∈ a.seq.eraseIdx i.toNat
              rw [herase]
              rw [hsplit] at hh
              simp only [List.mem_append, List.mem_cons] at hh ⊢
              rcases hh with hh | hh | hh
              · exact Or.inl hh
              · exact absurd hh hnx
              · exact Or.inr hh
            rw [r4 n this]; exact h.clean n this hO
        · exact h.disj x (List.mem_of_mem_eraseIdx hx)
      · simp only [SA.apply, if_pos hr]; exact Nat.le_refl _
    · refine ⟨s, ?_, ?_, fun _ _ => rfl, ?_⟩
      · simp only [SSt.apply, SA.apply, removeAt_out h.inv i hr, if_neg hr, Option.map_some]
      · simp only [SA.apply, if_neg hr]; exact h
      · simp only [SA.apply, if_neg hr]; exact Nat.le_refl _
  | removeFront =>
    have hrf := removeFront_sinv h.inv
    cases hL : a.seq with
    | nil =>
      refine ⟨s, ?_, ?_, fun _ _ => rfl, Nat.le_refl _⟩
      · simp only [SSt.apply, SA.apply, hrf.1 hL, hL, Option.map_some, List.head?_nil]
      · simp only [SA.apply, hL, List.tail_nil]
        have : a = { a with seq := [] } := by cases a; simp at hL; simp [hL]
        rw [← this]; exact h
    | cons x xs =>
      obtain ⟨s', r1, r2, r3, r4, r5, r6⟩ := hrf.2 x xs hL
      have hnd := h.inv.nodup
      rw [hL] at hnd
      have hxO : ¬ O x := h.disj x (by rw [hL]; simp)
      refine ⟨s', ?_, ?_, fun n hn => r6 n (fun hh => hxO (hh ▸ hn)), Nat.le_refl _⟩
      · simp only [SSt.apply, SA.apply, r1, hL, Option.map_some, List.head?_cons]
      · simp only [SA.apply, hL, List.tail_cons]
        refine ⟨r2, fun y hy => h.alloc y (by rw [hL]; simp [hy]), fun n hn hO => ?_,
          fun y hy => h.disj y (by rw [hL]; simp [hy]), h.oalloc,
          fun n => by rw [r4]; exact h.val n, by rw [r5]; exact h.fresh⟩
        by_cases hnx : n = x
        · rw [hnx]; exact r3
        · rw [r6 n hnx]; exact h.clean n (by rw [hL]; simp [hnx, hn]) hO
  | pushFront v =>
    obtain ⟨g1, g2, g3⟩ := sabs_alloc h v
    have he : a.fresh < (a.allocV v).fresh := Nat.lt_succ_self _
    have hm : a.fresh ∉ (a.allocV v).seq := fun hh => Nat.lt_irrefl _ (h.alloc _ hh)
    have hO : ¬ O a.fresh := fun hh => Nat.lt_irrefl _ (h.oalloc _ hh)
    obtain ⟨r2, r3⟩ := sabs_pushFrontNode g1 he hm hO
    refine ⟨s.pushFront v, rfl, ?_, ?_, Nat.le_succ _⟩
    · simp only [SSt.pushFront, SA.apply]
      rw [show (s.alloc v) = ((s.alloc v).1, (s.alloc v).2) from rfl, g2]
      exact r2
    · intro n hn
      simp only [SSt.pushFront]
      rw [show (s.alloc v) = ((s.alloc v).1, (s.alloc v).2) from rfl, g2]
      rw [r3 n hn, g3]
  | pushBack v =>
    obtain ⟨g1, g2, g3⟩ := sabs_alloc h v
    have he : a.fresh < (a.allocV v).fresh := Nat.lt_succ_self _
    have hm : a.fresh ∉ (a.allocV v).seq := fun hh => Nat.lt_irrefl _ (h.alloc _ hh)
    have hO : ¬ O a.fresh := fun hh => Nat.lt_irrefl _ (h.oalloc _ hh)
    obtain ⟨s', r1, r2, r3⟩ := sabs_pushBackNode g1 he hm hO
    refine ⟨s', ?_, r2, fun n hn => by rw [r3 n hn, g3], Nat.le_succ _⟩
    simp only [SSt.apply, SSt.pushBack, SA.apply]
    rw [show (s.alloc v) = ((s.alloc v).1, (s.alloc v).2) from rfl, g2]
    simp only [r1, Option.map_some]
  | insertAt i v =>
    obtain ⟨g1, g2, g3⟩ := sabs_alloc h v
    have he : a.fresh < (a.allocV v).fresh := Nat.lt_succ_self _
    have hm : a.fresh ∉ (a.allocV v).seq := fun hh => Nat.lt_irrefl _ (h.alloc _ hh)
    have hO : ¬ O a.fresh := fun hh => Nat.lt_irrefl _ (h.oalloc _ hh)
    obtain ⟨s', r1, r2, r3⟩ := sabs_insertNodeAt g1 i he hm hO
    refine ⟨s', ?_, r2, fun n hn => by rw [r3 n hn, g3], Nat.le_succ _⟩
    simp only [SSt.apply, SSt.insertAt, SA.apply]
    rw [show (s.alloc v) = ((s.alloc v).1, (s.alloc v).2) from rfl, g2]
    simp only [r1, Option.map_some]
  | pushFrontNode e =>
    obtain ⟨r2, r3⟩ := sabs_pushFrontNode h hok.1 hok.2.1 hok.2.2
    exact ⟨s.pushFrontNode e, rfl, r2, r3, Nat.le_refl _⟩
  | pushBackNode e =>
    obtain ⟨s', r1, r2, r3⟩ := sabs_pushBackNode h hok.1 hok.2.1 hok.2.2
    exact ⟨s', by simp only [SSt.apply, SA.apply, r1, Option.map_some], r2, r3, Nat.le_refl _⟩
  | insertNodeAt i e =>
    obtain ⟨s', r1, r2, r3⟩ := sabs_insertNodeAt h i hok.1 hok.2.1 hok.2.2
    exact ⟨s', by simp only [SSt.apply, SA.apply, r1, Option.map_some], r2, r3, Nat.le_refl _⟩
  | swap i j =>
    by_cases hr : (0 ≤ i ∧ i < (a.seq.length : Int)) ∧ (0 ≤ j ∧ j < (a.seq.length : Int)) ∧ i ≠ j
    · obtain ⟨⟨hi0, hi1⟩, ⟨hj0, hj1⟩, hij⟩ := hr
      have hi : i.toNat < a.seq.length := by omega
      have hj : j.toNat < a.seq.length := by omega
      obtain ⟨s', r1, r2, r3, r4, r5⟩ := swap_in h.inv i.toNat j.toNat (by omega) hi hj
      rw [Int.toNat_of_nonneg hi0, Int.toNat_of_nonneg hj0] at r1
      have hcond : 0 ≤ i ∧ 0 ≤ j ∧ i ≠ j := ⟨hi0, hj0, hij⟩
      refine ⟨s', ?_, ?_, fun n _ => by rw [r3], ?_⟩
      · simp only [SSt.apply, SA.apply, r1, Option.map_some]
      · simp only [SA.apply, List.getElem?_eq_getElem hi, List.getElem?_eq_getElem hj, if_pos hcond]
        refine ⟨r2, h.alloc, fun n hn hO => by rw [r3]; exact h.clean n hn hO, h.disj, h.oalloc,
          fun n => ?_, by rw [r4]; exact h.fresh⟩
        simp only [r5, IM.get_set, swapVals, h.val]
      · simp only [SA.apply, List.getElem?_eq_getElem hi, List.getElem?_eq_getElem hj, if_pos hcond]
        exact Nat.le_refl _
    · have hspec : (a.apply (.swap i j)).1 = a := by
        simp only [SA.apply]
        cases h1 : a.seq[i.toNat]? with
        | none => rfl
        | some x =>
          cases h2 : a.seq[j.toNat]? with
          | none => rfl
          | some y =>
            have hi := (List.getElem?_eq_some_iff.1 h1).1
            have hj := (List.getElem?_eq_some_iff.1 h2).1
            have : ¬ (0 ≤ i ∧ 0 ≤ j ∧ i ≠ j) := by
              intro hc; apply hr
              exact ⟨⟨hc.1, by omega⟩, ⟨hc.2.1, by omega⟩, hc.2.2⟩
            simp only [if_neg this]
      refine ⟨s, ?_, by rw [hspec]; exact h, fun _ _ => rfl, by rw [hspec]; exact Nat.le_refl _⟩
      simp only [SSt.apply, swap_out h.inv i j hr, Option.map_some]
      rfl
  | len => exact ⟨s, by simp only [SSt.apply, SA.apply, h.inv.len], h, fun _ _ => rfl, Nat.le_refl _⟩
  | front =>
    exact ⟨s, by simp only [SSt.apply, SA.apply, chainTo_head h.inv.chain], h, fun _ _ => rfl,
      Nat.le_refl _⟩
  | back => exact ⟨s, by simp only [SSt.apply, SA.apply, h.inv.tail], h, fun _ _ => rfl, Nat.le_refl _⟩
  | next e =>
    refine ⟨s, ?_, h, fun _ _ => rfl, Nat.le_refl _⟩
    simp only [SSt.apply, SA.apply]
    by_cases hm : e ∈ a.seq
    · obtain ⟨p, q, e1, hp⟩ := split_of_mem hm
      have hc := h.inv.chain
      rw [e1] at hc
      have := chainTo_head (chainTo_mid hc).2
      rw [this, e1, succOf_split e p q hp]
    · rw [h.clean e hm hok, succOf_not_mem e _ hm]
  | setValue e v =>
    refine ⟨{ s with val := s.val.set e v }, rfl, ⟨⟨h.inv.chain, h.inv.tail, h.inv.len, h.inv.nodup⟩,
      h.alloc, h.clean, h.disj, h.oalloc, fun n => ?_, h.fresh⟩, fun _ _ => rfl, Nat.le_refl _⟩
    simp only [SA.apply, IM.get_set, h.val n]

end

theorem okO_of_ok {a : SA} {op : SOp} (h : op.ok a) : op.okO (fun _ => False) a := by
  cases op <;> simp_all [SOp.ok, SOp.okO]

/-- One list alone (no other list): the one-step simulation. -/
theorem sapply_refines {s : SSt} {a : SA} (h : SAbs s a) (op : SOp) (hok : op.ok a) :
    ∃ s', s.apply op = some (s', (a.apply op).2) ∧ SAbs s' (a.apply op).1 := by
  obtain ⟨s', r1, r2, _⟩ := sapply_refinesO h op (okO_of_ok hok)
  exact ⟨s', r1, r2⟩

/-! ### operation lists -/

def SA.run : SA → List SOp → SA × List DRes
  | a, [] => (a, [])
  | a, op :: ops => let (a1, r) := a.apply op; let (a2, rs) := a1.run ops; (a2, r :: rs)

def SOpsOk : SA → List SOp → Prop
  | _, [] => True
  | a, op :: ops => op.ok a ∧ SOpsOk (a.apply op).1 ops

instance (a : SA) (op : SOp) : Decidable (SOp.ok a op) := by
  cases op <;> simp only [SOp.ok] <;> infer_instance

instance instDecidableSOpsOk : (a : SA) → (ops : List SOp) → Decidable (SOpsOk a ops)
  | _, [] => isTrue trivial
  | a, op :: ops => by
    simp only [SOpsOk]
    exact @instDecidableAnd _ _ _ (instDecidableSOpsOk _ ops)

theorem srun_refines {s : SSt} {a : SA} (h : SAbs s a) (ops : List SOp) (hok : SOpsOk a ops) :
    ∃ s', s.run ops = some (s', (a.run ops).2) ∧ SAbs s' (a.run ops).1 := by
  induction ops generalizing s a with
  | nil => exact ⟨s, rfl, h⟩
  | cons op ops ih =>
    obtain ⟨s1, r1, h1⟩ := sapply_refines h op hok.1
    obtain ⟨s2, r2, h2⟩ := ih h1 hok.2
    exact ⟨s2, by simp [SSt.run, SA.run, r1, r2], h2⟩

/-- `for e := l.Front(); e != nil; e = e.Next()` visits exactly the sequence. -/
theorem swalk_spec {nx : PM} : ∀ (L : List Nat) (p : Ptr) (fuel : Nat), ChainTo nx p L none →
    L.length < fuel → walk (fun e => nx.get e) fuel p = (L, true) := by
  intro L
  induction L with
  | nil =>
    intro p fuel hc _
    simp only [ChainTo] at hc
    subst hc
    cases fuel <;> rfl
  | cons x xs ih =>
    intro p fuel hc hf
    simp only [ChainTo] at hc
    obtain ⟨f, rfl⟩ : ∃ f, fuel = f + 1 := ⟨fuel - 1, by simp at hf; omega⟩
    rw [hc.1]
    simp only [walk, ih _ f hc.2 (by simp at hf; omega)]

/-! ### ranging over the list while the loop body mutates it -/

/-- `e.Next()` on the specification: the successor in the sequence; nil for the last node and
for a node that is not in the list (a removed node is returned with its link cleared). -/
def SA.rangeAll (body : Nat → List SOp) (stop : Nat → Bool) :
    Nat → Nat → Ptr → SA → List (Nat × Int) → SA × List (Nat × Int) × Bool
  | _, _, none, a, acc => (a, acc.reverse, true)
  | 0, _, some _, a, acc => (a, acc.reverse, false)
  | f + 1, i, some e, a, acc =>
    let y := (e, a.val e)
    let a1 := (a.run (body i)).1
    if stop i then (a1, (y :: acc).reverse, true)
    else SA.rangeAll body stop f (i + 1) (succOf e a1.seq) a1 (y :: acc)

def SRangeOk (body : Nat → List SOp) (stop : Nat → Bool) : Nat → Nat → Ptr → SA → Prop
  | _, _, none, _ => True
  | 0, _, some _, _ => True
  | f + 1, i, some e, a =>
    SOpsOk a (body i) ∧
      (stop i = false → SRangeOk body stop f (i + 1) (succOf e (a.run (body i)).1.seq) (a.run (body i)).1)

theorem next_sabs {s : SSt} {a : SA} (h : SAbs s a) (e : Nat) : s.next.get e = succOf e a.seq := by
  obtain ⟨s', r1, _⟩ := sapply_refines h (.next e) trivial
  simp only [SSt.apply, SA.apply, Option.some.injEq, Prod.mk.injEq, DRes.ptr.injEq] at r1
  exact r1.2

theorem srange_refines (body : Nat → List SOp) (stop : Nat → Bool) :
    ∀ (f i : Nat) (p : Ptr) (s : SSt) (a : SA) (acc : List (Nat × Int)), SAbs s a →
      SRangeOk body stop f i p a →
      ∃ s', SSt.rangeAll body stop f i p s acc =
          some (s', (SA.rangeAll body stop f i p a acc).2.1, (SA.rangeAll body stop f i p a acc).2.2) ∧
        SAbs s' (SA.rangeAll body stop f i p a acc).1 := by
  intro f
  induction f with
  | zero =>
    intro i p s a acc h _
    cases p <;> exact ⟨s, by simp [SSt.rangeAll, SA.rangeAll], by simpa [SA.rangeAll] using h⟩
  | succ f ih =>
    intro i p s a acc h hok
    cases p with
    | none => exact ⟨s, by simp [SSt.rangeAll, SA.rangeAll], by simpa [SA.rangeAll] using h⟩
    | some e =>
      obtain ⟨hops, hrest⟩ := hok
      obtain ⟨s1, r1, h1⟩ := srun_refines h (body i) hops
      by_cases hs : stop i = true
      · refine ⟨s1, ?_, by simpa [SA.rangeAll, hs] using h1⟩
        simp [SSt.rangeAll, SA.rangeAll, r1, hs, h.val e]
      · have hs' : stop i = false := by simpa using hs
        obtain ⟨s', r2, h2⟩ := ih (i + 1) (succOf e (a.run (body i)).1.seq) s1 (a.run (body i)).1
          ((e, a.val e) :: acc) h1 (hrest hs')
        refine ⟨s', ?_, by simpa [SA.rangeAll, hs'] using h2⟩
        simp only [SSt.rangeAll, r1, Option.bind_eq_bind, Option.bind_some, hs', h.val e,
          next_sabs h1 e, SA.rangeAll]
        simpa using r2

end Golib.C13
