/-
C02 helper lemmas, part 5: `set` preserves the invariant and refines `OMap.set`.
-/
import Golib.Proof.C02Set

set_option linter.unusedSectionVars false
set_option linter.unusedSimpArgs false

namespace Golib.C02

variable {K V : Type} [DecidableEq K] {cmp : K → K → Int}

theorem length_ins (hc : WeakCmp cmp) (key : K) {l : List K} (hs : Sorted cmp l) :
    (ins cmp key l).length = l.length + 1 := by
  have := congrArg List.length (lo_append_ge hc key hs)
  simp only [List.length_append] at this
  simp only [ins, List.length_append, List.length_cons]; omega

theorem length_del (hc : WeakCmp cmp) (key : K) {l : List K} (hs : Sorted cmp l) (hm : key ∈ l) :
    (del cmp key l).length + 1 = l.length := by
  have := congrArg List.length (lo_append_ge hc key hs)
  rw [ge_of_mem hc hs hm] at this
  simp only [List.length_append, List.length_cons] at this
  simp only [del, List.length_append]; omega

theorem valOf_cons_ne {vals : List (K × V)} {key x : K} (val : V) (h : x ≠ key) :
    valOf ((key, val) :: vals) x = valOf vals x := by
  simp [valOf, getVal, Ne.symm h]

theorem valOf_cons_self {vals : List (K × V)} {key : K} (val : V) :
    valOf ((key, val) :: vals) key = some (key, val) := by
  simp [valOf, getVal]

/-- The abstraction of a chain `lo ++ key :: gt` whose values agree with `f` off `key`. -/
theorem filterMap_split (hc : WeakCmp cmp) (key : K) (val : V) (l : List K) (f f' : K → Option (K × V))
    (hf : KeyPres f) (hkey : f' key = some (key, val)) (hoff : ∀ x, x ≠ key → f' x = f x) :
    (lo cmp key l ++ key :: gt cmp key l).filterMap f' = OMap.set cmp (l.filterMap f) key val := by
  rw [omap_set_filterMap hf, List.filterMap_append, List.filterMap_cons, hkey]
  congr 1
  · exact filterMap_congr_mem (fun x hx => hoff x (hc.ne_of_lt (mem_lo.mp hx).2))
  · show (key, val) :: _ = _
    congr 1
    exact filterMap_congr_mem (fun x hx => hoff x (hc.ne_of_lt (mem_gt.mp hx).2).symm)

theorem Inv.of_inserted (hc : WeakCmp cmp) {s : SL K V} (h : Inv cmp s) {key : K}
    (hkw : ∀ y ∈ chain0 s, cmp y key ≠ 0) (val : V) {ht : Nat} (h1 : 1 ≤ ht) (h2 : ht ≤ maxLevel) :
    Inv cmp (inserted cmp s key val ht) ∧
      chain0 (inserted cmp s key val ht) = ins cmp key (chain0 s) ∧
      toMap (inserted cmp s key val ht) = OMap.set cmp (toMap s) key val := by
  obtain ⟨rest, hr⟩ := h.lv_cons
  have hk : key ∉ chain0 s := fun hm => hkw key hm (hc.refl key)
  have hlvl := h.lvl
  have hn1 : 1 ≤ newHeight s ht := by unfold newHeight; split <;> omega
  obtain ⟨n, hn⟩ : ∃ n, newHeight s ht = n + 1 := ⟨newHeight s ht - 1, by omega⟩
  have hnle : newHeight s ht ≤ (if ht > s.level then s.level + 1 else s.level) := by
    unfold newHeight; split <;> omega
  have hnot : ∀ l ∈ s.lv, ∀ y ∈ l, cmp y key ≠ 0 := fun l hl y hy => hkw y ((h.sub0 l hl).subset hy)
  have hc0 : chain0 (inserted cmp s key val ht) = ins cmp key (chain0 s) := by
    simp only [chain0, inserted, hn]
    rw [hr]; simp [insTop]
  have hs0 := h.sorted0
  refine ⟨⟨?_, ?_, ?_, ?_, ?_, ?_, ?_, ?_, ?_⟩, hc0, ?_⟩
  · simp only [inserted]; rw [length_insTop]; exact h.len32
  · exact h.tower.insTop hc hnot
  · simp only [inserted]; split <;> omega
  · intro i hi hi32
    simp only [inserted] at hi ⊢
    rw [getElem?_insTop]
    have : ¬ i < newHeight s ht := by omega
    rw [if_neg this]
    exact h.above i (by split at hi <;> omega) hi32
  · simp only [inserted]
    by_cases hg : ht > s.level
    · right
      simp only [hg, if_true, Nat.add_sub_cancel]
      rw [getElem?_insTop]
      have : s.level < newHeight s ht := by simp [newHeight, hg]
      rw [if_pos this, h.above s.level (Nat.le_refl _) (by omega)]
      exact ⟨_, rfl, by simp [ins]⟩
    · simp only [hg, if_false]
      rcases h.top with ht1 | ⟨l, hl, hne⟩
      · exact Or.inl ht1
      · right
        rw [getElem?_insTop, hl]
        by_cases hlt : s.level - 1 < newHeight s ht
        · exact ⟨ins cmp key l, by simp [hlt], by simp [ins]⟩
        · exact ⟨l, by simp [hlt], hne⟩
  · rw [hc0, length_ins hc key hs0]
    simp only [inserted]; rw [h.len]; omega
  · intro k
    rw [hc0, mem_ins hc hs0]
    simp only [inserted, List.map_cons, List.mem_cons]
    rw [h.vals]
  · simp only [inserted, List.map_cons, List.nodup_cons]
    exact ⟨fun hm => hk ((h.vals key).mp hm), h.valsNodup⟩
  · exact h.rand
  · rw [toMap_eq, hc0, toMap_eq]
    have hge : ge cmp key (chain0 s) = gt cmp key (chain0 s) := ge_of_not_mem hc hkw
    unfold ins; rw [hge]
    exact filterMap_split hc key val (chain0 s) (valOf s.vals) _ (valOf_keyPres _)
      (valOf_cons_self val) (fun x hx => valOf_cons_ne val hx)

theorem Inv.of_setVal (hc : WeakCmp cmp) {s : SL K V} (h : Inv cmp s) {key : K} (hk : key ∈ chain0 s)
    (val : V) :
    Inv cmp { s with vals := setVal s.vals key val } ∧
      chain0 { s with vals := setVal s.vals key val } = chain0 s ∧
      toMap { s with vals := setVal s.vals key val } = OMap.set cmp (toMap s) key val := by
  have hmem : key ∈ s.vals.map Prod.fst := (h.vals key).mpr hk
  have hfst := map_fst_setVal_of_mem val hmem
  refine ⟨⟨h.len32, h.tower, h.lvl, h.above, h.top, h.len, ?_, ?_, h.rand⟩, rfl, ?_⟩
  · intro k; simp only []; rw [hfst]; exact h.vals k
  · simp only []; rw [hfst]; exact h.valsNodup
  · rw [toMap_eq, toMap_eq]
    show (chain0 s).filterMap (valOf (setVal s.vals key val)) = _
    have hs0 := h.sorted0
    have hsplit := lo_append_ge hc key hs0
    rw [ge_of_mem hc hs0 hk] at hsplit
    conv => lhs; rw [← hsplit]
    apply filterMap_split hc key val (chain0 s) (valOf s.vals) _ (valOf_keyPres _)
    · simp [valOf, getVal_setVal]
    · intro x hx; simp [valOf, getVal_setVal, hx]

end Golib.C02
