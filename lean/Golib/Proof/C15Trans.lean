/-
C15 — tie between the definitions `go2lean` regenerates from `strz/std_strconv.go`,
`strz/std_hex.go` on every run (`Golib/Gen/TransC15.lean`) and the hand-written models
(`Golib/Model/C15Parse.lean`, `Golib/Model/C15Hex.lean`).

Representation: the models use `Nat` bytes (`< 256`) and `List Nat` strings; the translation
uses `BitVec 8` and `List (BitVec 8)`.  The abstraction function is `BitVec.toNat` (`bytesOf`
on strings), stated explicitly in every tie.

The byte-level helpers are tied by exhausting the 256 bytes (`decide +kernel` on a bounded
quantifier, lifted to `BitVec 8`), so ANY rewrite of the Go text that computes the same function
keeps the tie.
-/
import Golib.Gen.TransC15
import Golib.Model.C15Parse
import Golib.Model.C15Hex

set_option linter.unusedSimpArgs false

namespace Golib.C15.Tie
open Golib.GoSem

/-- Lift a statement checked on the 256 byte values to every `BitVec 8`. -/
theorem forall_byte {P : BitVec 8 → Prop} (h : ∀ n, n < 256 → P (BitVec.ofNat 8 n)) (c : BitVec 8) : P c := by
  have := h c.toNat c.isLt
  simpa using this

/-- The result pair of `fromHexChar` as the model's option. -/
def hexCharPair (o : Option Nat) : BitVec 8 × Bool :=
  match o with
  | some v => (BitVec.ofNat 8 v, true)
  | none => (0#8, false)

theorem trans_lower_eq (c : BitVec 8) :
    Golib.Gen.Trans.C15.lower c = .ok (BitVec.ofNat 8 (Golib.C15.lower c.toNat)) := by
  revert c
  apply forall_byte
  decide +kernel

theorem trans_fromHexChar_eq (c : BitVec 8) :
    Golib.Gen.Trans.C15.fromHexChar c = .ok (hexCharPair (Golib.C15.fromHexChar c.toNat)) := by
  revert c
  apply forall_byte
  decide +kernel

/-! ### `underscoreOK` -/

section
open Golib.Gen.Trans.C15 (underscoreOK_loop1)

/-- Abstraction of a string / byte slice. -/
def bytesOf (s : List (BitVec 8)) : List Nat := s.map BitVec.toNat

/-- `saw` as the rune the code stores: `'^' '0' '_' '!'`. -/
def sawRune : Saw → BitVec 32
  | .start => 94#32 | .digit => 48#32 | .under => 95#32 | .other => 33#32

/-- The model's `usLoop` with the early `return false` made explicit (`none`) and the final
`saw` returned, as the translated loop does. -/
def usLoopF (hex : Bool) : List Nat → Saw → Option Saw
  | [], saw => some saw
  | c :: rest, saw =>
    if (48 ≤ c ∧ c ≤ 57) ∨ (hex = true ∧ 97 ≤ lower c ∧ lower c ≤ 102) then usLoopF hex rest .digit
    else if c = 95 then
      if saw != .digit then none else usLoopF hex rest .under
    else if saw = .under then none
    else usLoopF hex rest .other

theorem usLoop_eq_F (hex : Bool) : ∀ (s : List Nat) (saw : Saw),
    usLoop hex s saw = match usLoopF hex s saw with | none => false | some w => w != .under := by
  intro s
  induction s with
  | nil => intro saw; simp [usLoop, usLoopF]
  | cons c rest ih =>
    intro saw
    simp only [usLoop, usLoopF]
    repeat' split
    all_goals simp_all

theorem lower_ok (c : BitVec 8) : Golib.Gen.Trans.C15.lower c = .ok (c ||| 32#8) := by
  revert c; apply forall_byte; decide +kernel

theorem lower_toNat (c : BitVec 8) : Golib.C15.lower c.toNat = (c ||| 32#8).toNat := by
  revert c; apply forall_byte; decide +kernel

theorem ite_ok {α : Type} (a : Prop) [Decidable a] (x y : α) :
    (if a then Res.ok x else Res.ok y) = Res.ok (if a then x else y) := by
  split <;> rfl

theorem idx_append (pre : List (BitVec 8)) (c : BitVec 8) (rest : List (BitVec 8)) :
    GoSem.idx (pre ++ c :: rest) (pre.length : Int) = .ok c := by
  simp [GoSem.idx]

def flowOf (n : Nat) (r : Option Saw) : Flow Bool (BitVec 32 × Int) :=
  match r with
  | none => .ret false
  | some w => .done (sawRune w, (n : Int))

theorem sawRune_inj (a b : Saw) : (sawRune a = sawRune b) ↔ a = b := by
  cases a <;> cases b <;> decide

theorem bv_beq {w : Nat} (c k : BitVec w) : (c == k) = decide (c.toNat = k.toNat) := by
  by_cases h : c = k
  · subst h; simp
  · have : c.toNat ≠ k.toNat := fun e => h (BitVec.eq_of_toNat_eq e)
    simp [h, this]

theorem sawRune_beq (a b : Saw) : (sawRune a == sawRune b) = decide (a = b) := by
  cases a <;> cases b <;> decide
theorem sawRune_bne (a b : Saw) : (sawRune a != sawRune b) = decide (a ≠ b) := by
  cases a <;> cases b <;> decide

theorem us_loop_eq (hex : Bool) (rest : List (BitVec 8)) :
    ∀ (pre : List (BitVec 8)) (saw : Saw) (fuel : Nat), rest.length < fuel →
      underscoreOK_loop1 fuel (pre ++ rest) hex (sawRune saw) (pre.length : Int)
        = .ok (flowOf (pre.length + rest.length) (usLoopF hex (bytesOf rest) saw)) := by
  induction rest with
  | nil =>
    intro pre saw fuel hf
    obtain ⟨f, rfl⟩ : ∃ f, fuel = f + 1 := ⟨fuel - 1, by simp at hf; omega⟩
    simp [underscoreOK_loop1, bytesOf, usLoopF, flowOf]
  | cons c rest ih =>
    intro pre saw fuel hf
    obtain ⟨f, rfl⟩ : ∃ f, fuel = f + 1 := ⟨fuel - 1, by simp at hf; omega⟩
    have hf' : rest.length < f := by simp at hf; omega
    have hstep := fun w => ih (pre ++ [c]) w f hf'
    simp only [List.append_assoc, List.singleton_append, List.length_append, List.length_singleton,
      Int.natCast_add, Int.natCast_one] at hstep
    have hlen : (pre.length : Int) < Int.ofNat (pre ++ c :: rest).length := by simp; omega
    have hd : sawRune .digit = 48#32 := rfl
    have hu : sawRune .under = 95#32 := rfl
    have ho : sawRune .other = 33#32 := rfl
    unfold underscoreOK_loop1
    simp only [hlen, decide_true, if_true, idx_append, lower_ok, bind, pure, Res.bind_ok', ite_ok,
      bytesOf, List.map_cons, usLoopF, lower_toNat, ← hd, ← hu, ← ho, hstep]
    have e : pre.length + (c :: rest).length = pre.length + 1 + rest.length := by
      simp only [List.length_cons]; omega
    rw [e]
    congr 1
    simp only [sawRune_beq, sawRune_bne]
    clear hstep ih hd hu ho hlen e hf
    simp only [ge_iff_le, gt_iff_lt, BitVec.le_def, BitVec.lt_def, BitVec.toNat_ofNat, bv_beq, bne_iff_ne, beq_iff_eq, ne_eq, sawRune_inj, decide_eq_true_eq,
      Nat.reducePow, Nat.reduceMod]
    generalize (c ||| 32#8).toNat = l
    generalize c.toNat = cn
    cases hex <;> repeat' split
    all_goals try simp only [Bool.not_eq_true', Bool.not_eq_false', Bool.not_eq_false, Bool.and_eq_true, Bool.or_eq_true,
      Bool.and_eq_false_iff, Bool.or_eq_false_iff, decide_eq_true_eq, decide_eq_false_iff_not, Bool.false_eq_true,
      Bool.true_eq_false, false_and, true_and, or_false, false_or, Classical.not_not, not_false_eq_true,
      not_true_eq_false] at *
    all_goals first
      | rfl
      | (simp only [flowOf]; done)
      | (exfalso; omega)
      | contradiction
      | (subst_vars; simp only [flowOf]; done)
      | (subst_vars; contradiction)

theorem slice_tail (c : BitVec 8) (t : List (BitVec 8)) :
    GoSem.slice (c :: t) (1 : Int) (Int.ofNat (c :: t).length) = .ok t := by
  simp [GoSem.slice]; omega

theorem isPrefixLetter_bv (c : BitVec 8) :
    isPrefixLetter c.toNat = ((c ||| 32#8) == 98#8 || (c ||| 32#8) == 111#8 || (c ||| 32#8) == 120#8) := by
  revert c; apply forall_byte; decide +kernel

theorem lower120_bv (c : BitVec 8) : decide (Golib.C15.lower c.toNat = 120) = ((c ||| 32#8) == 120#8) := by
  revert c; apply forall_byte; decide +kernel

/-- What remains of `underscoreOK` once the sign is stripped (model side). -/
def usBody (s : List Nat) : Bool :=
  match s with
  | 48 :: c1 :: rest =>
    if isPrefixLetter c1 then usLoop (lower c1 = 120) rest .digit
    else usLoop false s .start
  | _ => usLoop false s .start

theorem usBody_48 (c1 : Nat) (rest : List Nat) :
    usBody (48 :: c1 :: rest) =
      if isPrefixLetter c1 then usLoop (lower c1 = 120) rest .digit else usLoop false (48 :: c1 :: rest) .start := rfl

theorem usBody_ne48 (a : Nat) (t : List Nat) (h : a ≠ 48) : usBody (a :: t) = usLoop false (a :: t) .start := by
  unfold usBody
  split
  · rename_i heq
    simp only [List.cons.injEq] at heq
    exact absurd heq.1 h
  · rfl

theorem underscoreOK_eq_body (s : List Nat) :
    Golib.C15.underscoreOK s = usBody (match s with
      | c :: rest => if c = 45 ∨ c = 43 then rest else s
      | [] => s) := by
  unfold Golib.C15.underscoreOK usBody
  rfl

theorem idx0 (c : BitVec 8) (t : List (BitVec 8)) : GoSem.idx (c :: t) (0 : Int) = .ok c := by
  simp [GoSem.idx]
theorem idx1 (a c : BitVec 8) (t : List (BitVec 8)) : GoSem.idx (a :: c :: t) (1 : Int) = .ok c := by
  simp [GoSem.idx]

/-- `x >>= R` when `x` is a value and `R` is known pointwise. -/
theorem bind_ok_of {α β : Type} {x : Res α} {R : α → Res β} (g : α → β) (a : α)
    (hx : x = .ok a) (hR : ∀ a', R a' = .ok (g a')) : x.bind R = .ok (g a) := by
  subst hx; exact hR a

theorem bind_ok_of₂ {α β γ : Type} {x : Res α} {y : α → Res β} {R : β → Res γ} (g : β → γ) (b : β)
    (hxy : x.bind y = .ok b) (hR : ∀ b', R b' = .ok (g b')) :
    x.bind (fun a => (y a).bind R) = .ok (g b) := by
  cases x with
  | ok a => simp only [Res.bind_ok'] at hxy ⊢; exact bind_ok_of g b hxy hR
  | panic => simp at hxy
  | fuel => simp at hxy

/-- The optional sign, stripped: what the code's first `if` leaves in `s`. -/
def stripSign (s : List (BitVec 8)) : List (BitVec 8) :=
  match s with
  | c :: t => if c = 45#8 ∨ c = 43#8 then t else s
  | [] => s

theorem underscoreOK_eq_body' (s : List (BitVec 8)) :
    Golib.C15.underscoreOK (bytesOf s) = usBody (bytesOf (stripSign s)) := by
  rw [underscoreOK_eq_body]
  match s with
  | [] => rfl
  | c :: t =>
    have h45 : (c.toNat = 45) ↔ c = 45#8 := by rw [BitVec.toNat_eq]; rfl
    have h43 : (c.toNat = 43) ↔ c = 43#8 := by rw [BitVec.toNat_eq]; rfl
    simp only [bytesOf, List.map_cons, stripSign, h45, h43]
    split <;> rfl

theorem sawRune_bne95 (w : Saw) : (sawRune w != 95#32) = (w != Saw.under) := by
  cases w <;> decide

/-- closes `match (match r with …) with …` after the loop lemma has been used: case on the model's
loop result. -/
macro "fin_tac" : tactic => `(tactic|
  (generalize usLoopF _ _ _ = r
   cases r <;> simp [sawRune_bne95]))

theorem trans_underscoreOK_eq (s : List (BitVec 8)) :
    Golib.Gen.Trans.C15.underscoreOK s = .ok (Golib.C15.underscoreOK (bytesOf s)) := by
  rw [underscoreOK_eq_body']
  unfold Golib.Gen.Trans.C15.underscoreOK
  have hs : sawRune .start = 94#32 := rfl
  have hd : sawRune .digit = 48#32 := rfl
  simp only [bind, pure]
  refine bind_ok_of₂ (fun s' => usBody (bytesOf s')) (stripSign s) ?_ ?_
  · -- the sign
    match s with
    | [] => simp [stripSign]
    | c :: t =>
      have hlen1 : decide (Int.ofNat (c :: t).length ≥ 1) = true := by simp; omega
      simp only [idx0, slice_tail, hlen1, Res.bind_ok', ite_ok, if_true, stripSign]
      by_cases h1 : c = 45#8 <;> by_cases h2 : c = 43#8 <;> simp [h1, h2]
  · -- prefix and number proper
    intro s'
    have h0 := us_loop_eq false s' [] .start (s'.length + 1) (by omega)
    simp only [List.nil_append, List.length_nil, Int.natCast_zero, Nat.zero_add, hs] at h0
    match s' with
    | [] =>
      simp only [List.length_nil, Nat.zero_add] at h0
      simp [bytesOf, usBody, usLoop_eq_F, h0, flowOf]
      fin_tac
    | [a] =>
      simp only [List.length_cons, List.length_nil, Nat.zero_add, Nat.reduceAdd] at h0
      simp [bytesOf, usBody, usLoop_eq_F, h0, flowOf]
      fin_tac
    | a :: b :: r =>
      have h2 : ∀ hex, underscoreOK_loop1 ((a :: b :: r).length + 1) (a :: b :: r) hex (sawRune .digit) (2 : Int)
          = .ok (flowOf (2 + r.length) (usLoopF hex (bytesOf r) .digit)) :=
        fun hex => us_loop_eq hex r [a, b] .digit ((a :: b :: r).length + 1) (by simp only [List.length_cons]; omega)
      have hlen2 : decide (Int.ofNat (a :: b :: r).length ≥ 2) = true := by simp; omega
      simp only [hlen2, if_true, idx0, idx1, lower_ok, Res.bind_ok', ite_ok]
      simp only [List.length_cons, List.length_nil, Nat.zero_add, Nat.reduceAdd, List.cons_append, List.nil_append,
        hd, bytesOf, List.map_cons] at h0 h2 ⊢
      by_cases ha : a = 48#8
      · subst ha
        simp only [BitVec.toNat_ofNat, Nat.reducePow, Nat.reduceMod, usBody_48, isPrefixLetter_bv, lower120_bv, usLoop_eq_F]
        generalize (b ||| 32#8 == 98#8) = p1
        generalize (b ||| 32#8 == 111#8) = p2
        generalize (b ||| 32#8 == 120#8) = p3 at h2 ⊢
        cases p1 <;> cases p2 <;> cases p3 <;>
          simp only [beq_self_eq_true, Bool.not_true, Bool.not_false, Bool.false_eq_true, if_true, if_false, Bool.or_true,
            Bool.or_false, Bool.true_or, h0, h2, Res.bind_ok', flowOf, BitVec.toNat_ofNat, Nat.reducePow, Nat.reduceMod] <;>
          fin_tac
      · have hne : a.toNat ≠ 48 := fun e => ha (BitVec.eq_of_toNat_eq (by simpa using e))
        have hb : (a == 48#8) = false := by simp [ha]
        simp only [hb, Bool.false_eq_true, if_false, h0, Res.bind_ok', flowOf, usBody_ne48 _ _ hne, usLoop_eq_F]
        fin_tac

end

/-! ### `hexEncode`, `HexEncode` -/

section
open Golib.Gen.Trans.C15 (hexEncode_loop1)

/-- The two hex digits of a byte, through the model's table (`0` where the table is too short:
then `hexEncode?` is `none` and the tie below cannot be proved). -/
def hiBV (c : BitVec 8) : BitVec 8 := BitVec.ofNat 8 ((hextable[c.toNat >>> 4]?).getD 0)
def loBV (c : BitVec 8) : BitVec 8 := BitVec.ofNat 8 ((hextable[c.toNat &&& 0x0f]?).getD 0)

/-- The encoded text on the `BitVec` side. -/
def encBV : List (BitVec 8) → List (BitVec 8)
  | [] => []
  | c :: rest => hiBV c :: loBV c :: encBV rest

theorem encBV_length (s : List (BitVec 8)) : (encBV s).length = 2 * s.length := by
  induction s with
  | nil => rfl
  | cons c rest ih => simp only [encBV, List.length_cons, ih]; omega

theorem encBV_append (a b : List (BitVec 8)) : encBV (a ++ b) = encBV a ++ encBV b := by
  induction a with
  | nil => rfl
  | cons c rest ih => simp [encBV, ih]

/-- The model's table lookups succeed on every byte, with these digits (256 cases). -/
theorem table_byte (c : BitVec 8) :
    hextable[c.toNat >>> 4]? = some (hiBV c).toNat ∧ hextable[c.toNat &&& 0x0f]? = some (loBV c).toNat := by
  revert c; apply forall_byte; decide +kernel

/-- The model's `hexEncode?` never panics and is `encBV` up to the abstraction. -/
theorem hexEncode?_encBV (s : List (BitVec 8)) : hexEncode? (bytesOf s) = some (bytesOf (encBV s)) := by
  induction s with
  | nil => rfl
  | cons c rest ih =>
    have := table_byte c
    simp only [bytesOf, List.map_cons] at ih ⊢
    simp only [hexEncode?, this.1, this.2, ih, encBV, List.map_cons]

theorem setIdx_append {α : Type} (out : List α) (x v : α) (tail : List α) (j : Int) (hj : j = (out.length : Int)) :
    GoSem.setIdx (out ++ x :: tail) j v = .ok (out ++ v :: tail) := by
  subst hj; simp [GoSem.setIdx]

theorem hexEncode_loop_eq (rest : List (BitVec 8)) :
    ∀ (pre out tail : List (BitVec 8)) (fuel : Nat), out.length = 2 * pre.length →
      2 * rest.length ≤ tail.length → rest.length < fuel →
      hexEncode_loop1 fuel (pre ++ rest) (out ++ tail) ((2 * pre.length : Nat) : Int) (pre.length : Int)
        = .ok (out ++ encBV rest ++ tail.drop (2 * rest.length),
               ((2 * (pre.length + rest.length) : Nat) : Int), ((pre.length + rest.length : Nat) : Int)) := by
  induction rest with
  | nil =>
    intro pre out tail fuel ho ht hf
    obtain ⟨f, rfl⟩ : ∃ f, fuel = f + 1 := ⟨fuel - 1, by simp at hf; omega⟩
    simp [hexEncode_loop1, encBV]
  | cons c rest ih =>
    intro pre out tail fuel ho ht hf
    obtain ⟨f, rfl⟩ : ∃ f, fuel = f + 1 := ⟨fuel - 1, by simp at hf; omega⟩
    have hf' : rest.length < f := by simp at hf; omega
    obtain ⟨t0, t1, tail', rfl⟩ : ∃ t0 t1 tail', tail = t0 :: t1 :: tail' := by
      match tail, ht with
      | t0 :: t1 :: tail', _ => exact ⟨t0, t1, tail', rfl⟩
      | [_], h => simp at h; omega
      | [], h => simp at h
    have hstep := ih (pre ++ [c]) (out ++ [hiBV c, loBV c]) tail' f (by simp; omega) (by simp at ht; omega) hf'
    have hlen : (pre.length : Int) < Int.ofNat (pre ++ c :: rest).length := by simp; omega
    unfold hexEncode_loop1
    simp only [hlen, decide_true, if_true, idx_append, bind, pure, Res.bind_ok']
    -- the table of the code (whatever its text) agrees with the model's table on the 16 nibbles
    generalize hT : @GoSem.idxN (BitVec 8) _ = look
    have hk : ∀ k, k < 16 → look k = Res.ok (BitVec.ofNat 8 ((hextable[k]?).getD 0)) := by
      rw [← hT]; decide
    have hhiN : c.toNat >>> 4 < 16 := by
      have := c.isLt; simp only [Nat.shiftRight_eq_div_pow]; omega
    have hloN : c.toNat &&& 15 < 16 := Nat.lt_of_le_of_lt Nat.and_le_right (by decide)
    have hhi : look (c.toNat >>> 4) = Res.ok (hiBV c) := hk _ hhiN
    have hlo : look (c.toNat &&& 15) = Res.ok (loBV c) := hk _ hloN
    simp only [BitVec.toNat_ushiftRight, BitVec.toNat_and, BitVec.toNat_ofNat, Nat.reducePow, Nat.reduceMod, hhi, hlo]
    -- the two writes, in whichever order
    have hs0 : ∀ (v x : BitVec 8) (tl : List (BitVec 8)),
        GoSem.setIdx (out ++ x :: tl) ((2 * pre.length : Nat) : Int) v = .ok (out ++ v :: tl) :=
      fun v x tl => setIdx_append out x v tl _ (by omega)
    have hs1 : ∀ (v x y : BitVec 8) (tl : List (BitVec 8)),
        GoSem.setIdx (out ++ x :: y :: tl) (((2 * pre.length : Nat) : Int) + 1) v = .ok (out ++ x :: v :: tl) := by
      intro v x y tl
      have := setIdx_append (out ++ [x]) y v tl (((2 * pre.length : Nat) : Int) + 1)
        (by simp only [List.length_append, List.length_singleton]; omega)
      simpa only [List.append_assoc, List.singleton_append] using this
    simp only [Res.bind_ok', hs0, hs1]
    have e1 : ((2 * pre.length : Nat) : Int) + 2 = ((2 * (pre ++ [c]).length : Nat) : Int) := by
      simp only [List.length_append, List.length_singleton]; omega
    have e2 : (pre.length : Int) + 1 = (((pre ++ [c]).length : Nat) : Int) := by
      simp only [List.length_append, List.length_singleton]; omega
    have e3 : List.drop (2 * (c :: rest).length) (t0 :: t1 :: tail') = List.drop (2 * rest.length) tail' := by
      have : 2 * (c :: rest).length = 2 * rest.length + 1 + 1 := by simp only [List.length_cons]; omega
      rw [this]; rfl
    rw [e1, e2, e3]
    simp only [List.append_assoc, List.singleton_append, List.cons_append, List.nil_append] at hstep
    rw [hstep]
    simp only [encBV, List.length_append, List.length_singleton, List.length_cons, List.length_nil, List.cons_append,
      List.append_assoc]
    congr 4 <;> omega

/-- `hexEncode(dst, src)` with room for the text: writes `encBV src` over the first `2·len(src)`
bytes of `dst`, keeps the rest, returns `2·len(src)`. -/
theorem trans_hexEncode_eq (dst src : List (BitVec 8)) (h : 2 * src.length ≤ dst.length) :
    Golib.Gen.Trans.C15.hexEncode dst src
      = .ok (((2 * src.length : Nat) : Int), encBV src ++ dst.drop (2 * src.length)) := by
  unfold Golib.Gen.Trans.C15.hexEncode
  have hl := hexEncode_loop_eq src [] [] dst (src.length + 1) rfl h (by omega)
  simp only [List.nil_append, List.length_nil, Nat.mul_zero, Int.natCast_zero, Nat.zero_add] at hl
  simp only [bind, pure, hl, Res.bind_ok']
  -- `len(src) * 2` however it is written
  have hlen : ∀ x : Int, x = ((2 * src.length : Nat) : Int) →
      (Res.ok (x, encBV src ++ dst.drop (2 * src.length)) : Res (Int × List (BitVec 8)))
        = .ok (((2 * src.length : Nat) : Int), encBV src ++ dst.drop (2 * src.length)) := by
    intro x hx; rw [hx]
  apply hlen
  simp only [Int.ofNat_eq_natCast, Int.natCast_mul]; omega

theorem makeSlice_ok (n : Nat) : GoSem.makeSlice 0#8 (n : Int) = .ok (List.replicate n 0#8) := by
  simp [GoSem.makeSlice]

/-- `HexEncode(s)`: never panics; the result is the model's text. -/
theorem trans_HexEncode_eq (s : List (BitVec 8)) :
    Golib.Gen.Trans.C15.HexEncode s = .ok (encBV s) := by
  unfold Golib.Gen.Trans.C15.HexEncode
  have hm : (Int.ofNat s.length) * (2 : Int) = ((2 * s.length : Nat) : Int) := by
    simp only [Int.ofNat_eq_natCast, Int.natCast_mul]; omega
  have he := trans_hexEncode_eq (List.replicate (2 * s.length) 0#8) s (by simp)
  simp only [bind, pure, hm, makeSlice_ok, Res.bind_ok', he]
  simp

theorem ofBytes_bytesOf (s : List (BitVec 8)) : (bytesOf s).map (BitVec.ofNat 8) = s := by
  induction s with
  | nil => rfl
  | cons c rest ih => simp only [bytesOf, List.map_cons, List.map_map] at ih ⊢; simp [ih]

end

/-! ### `hexDecode`, `HexDecode` -/

section
open Golib.Gen.Trans.C15 (hexDecode_loop1)

/-- value and flag of `fromHexChar` on the `BitVec` side (through the model). -/
def hexVal (c : BitVec 8) : BitVec 8 := (hexCharPair (Golib.C15.fromHexChar c.toNat)).1
def hexOk (c : BitVec 8) : Bool := (hexCharPair (Golib.C15.fromHexChar c.toNat)).2

theorem fromHexChar_ok (c : BitVec 8) : Golib.Gen.Trans.C15.fromHexChar c = .ok (hexVal c, hexOk c) :=
  trans_fromHexChar_eq c

/-- `fmt.Errorf("encoding/hex: invalid byte: %#U", rune(c))` / `hex.ErrLength` / nil as translated. -/
def errOf : HErr → GoSem.Err
  | .ok => .nil
  | .invalidByte c => .mk "encoding/hex: invalid byte: %#U" [(c : Int)]
  | .length => .mk "encoding/hex.ErrLength" []

/-- The pair loop with the early return made explicit. -/
inductive DecOut where
  | early (dst : List (BitVec 8)) (i : Nat) (bad : BitVec 8)
  | fin (dst : List (BitVec 8)) (i : Nat) (tail : Option (BitVec 8))

def decF : List (BitVec 8) → List (BitVec 8) → Nat → DecOut
  | a :: b :: rest, dst, i =>
    if hexOk a = false then .early dst i a
    else if hexOk b = false then .early dst i b
    else decF rest (dst.set i ((hexVal a <<< 4) ||| hexVal b)) (i + 1)
  | [c], dst, i => .fin dst i (some c)
  | [], dst, i => .fin dst i none

theorem rune_byte (c : BitVec 8) : ((c.setWidth 32).toInt) = (c.toNat : Int) := by
  revert c; apply forall_byte; decide +kernel

def loopFlow (jend : Int) : DecOut → Flow ((Int × GoSem.Err) × List (BitVec 8)) (List (BitVec 8) × Int × Int)
  | .early d k bad => .ret (((k : Int), errOf (.invalidByte bad.toNat)), d)
  | .fin d k _ => .done (d, (k : Int), jend)

theorem idx_pair0 (pre : List (BitVec 8)) (a : BitVec 8) (rest : List (BitVec 8)) :
    GoSem.idx (pre ++ a :: rest) ((pre.length : Int) + 1 - 1) = .ok a := by
  have : (pre.length : Int) + 1 - 1 = (pre.length : Int) := by omega
  rw [this]; exact idx_append pre a rest

theorem idx_pair1 (pre : List (BitVec 8)) (a b : BitVec 8) (rest : List (BitVec 8)) :
    GoSem.idx (pre ++ a :: b :: rest) ((pre.length : Int) + 1) = .ok b := by
  have := idx_append (pre ++ [a]) b rest
  simpa using this

theorem setIdx_lt (dst : List (BitVec 8)) (i : Nat) (v : BitVec 8) (h : i < dst.length) :
    GoSem.setIdx dst (i : Int) v = .ok (dst.set i v) := by
  simp [GoSem.setIdx, h]

theorem dec_loop_eq (rest dst : List (BitVec 8)) (i : Nat) :
    ∀ (pre : List (BitVec 8)) (fuel : Nat), i + rest.length / 2 ≤ dst.length → rest.length < fuel →
      hexDecode_loop1 fuel (pre ++ rest) dst (i : Int) ((pre.length : Int) + 1)
        = .ok (loopFlow ((pre.length : Int) + 2 * ((rest.length / 2 : Nat) : Int) + 1) (decF rest dst i)) := by
  fun_induction decF rest dst i with
  | case1 a b rest dst i ha =>
    intro pre fuel hroom hf
    obtain ⟨f, rfl⟩ : ∃ f, fuel = f + 1 := ⟨fuel - 1, by simp at hf; omega⟩
    have hlen : (pre.length : Int) + 1 < Int.ofNat (pre ++ a :: b :: rest).length := by simp; omega
    unfold hexDecode_loop1
    simp only [hlen, decide_true, if_true, idx_pair0, fromHexChar_ok, bind, pure, Res.bind_ok', ha, Bool.not_false,
      rune_byte, loopFlow, errOf]
  | case2 a b rest dst i ha hb =>
    intro pre fuel hroom hf
    obtain ⟨f, rfl⟩ : ∃ f, fuel = f + 1 := ⟨fuel - 1, by simp at hf; omega⟩
    have hlen : (pre.length : Int) + 1 < Int.ofNat (pre ++ a :: b :: rest).length := by simp; omega
    have ha' : hexOk a = true := by simpa using ha
    unfold hexDecode_loop1
    simp only [hlen, decide_true, if_true, idx_pair0, idx_pair1, fromHexChar_ok, bind, pure, Res.bind_ok', ha', hb,
      Bool.not_false, Bool.not_true, Bool.false_eq_true, if_false, rune_byte, loopFlow, errOf]
  | case3 a b rest dst i ha hb ih =>
    intro pre fuel hroom hf
    obtain ⟨f, rfl⟩ : ∃ f, fuel = f + 1 := ⟨fuel - 1, by simp at hf; omega⟩
    have hlen : (pre.length : Int) + 1 < Int.ofNat (pre ++ a :: b :: rest).length := by simp; omega
    have ha' : hexOk a = true := by simpa using ha
    have hb' : hexOk b = true := by simpa using hb
    have hi : i < dst.length := by simp only [List.length_cons] at hroom; omega
    have hstep := ih (pre ++ [a, b]) f (by simp only [List.length_set, List.length_cons] at hroom ⊢; omega)
      (by simp only [List.length_cons] at hf; omega)
    unfold hexDecode_loop1
    simp only [hlen, decide_true, if_true, idx_pair0, idx_pair1, fromHexChar_ok, bind, pure, Res.bind_ok', ha', hb',
      Bool.not_true, Bool.false_eq_true, if_false, setIdx_lt dst i _ hi]
    have e1 : ((pre ++ [a, b]).length : Int) + 1 = (pre.length : Int) + 1 + 2 := by
      simp only [List.length_append, List.length_cons, List.length_nil]; omega
    have e2 : ((i + 1 : Nat) : Int) = (i : Int) + 1 := by omega
    have e3 : ((pre ++ [a, b]).length : Int) + 2 * ((rest.length / 2 : Nat) : Int) + 1
        = (pre.length : Int) + 2 * (((a :: b :: rest).length / 2 : Nat) : Int) + 1 := by
      simp only [List.length_append, List.length_cons, List.length_nil]; omega
    rw [e1, e2, e3] at hstep
    -- `(a << 4) | b` in either operand order
    try rw [BitVec.or_comm (hexVal b) (hexVal a <<< 4)]
    simpa only [List.append_assoc, List.cons_append, List.nil_append] using hstep
  | case4 c dst i =>
    intro pre fuel hroom hf
    obtain ⟨f, rfl⟩ : ∃ f, fuel = f + 1 := ⟨fuel - 1, by simp at hf; omega⟩
    have hlen : ¬ ((pre.length : Int) + 1 < Int.ofNat (pre ++ [c]).length) := by simp
    unfold hexDecode_loop1
    simp [hlen, loopFlow, decF]
  | case5 dst i =>
    intro pre fuel hroom hf
    obtain ⟨f, rfl⟩ : ∃ f, fuel = f + 1 := ⟨fuel - 1, by simp at hf; omega⟩
    unfold hexDecode_loop1
    simp [loopFlow, decF]
    omega

theorem decF_fin_some (rest dst : List (BitVec 8)) (i : Nat) :
    ∀ d k c, decF rest dst i = .fin d k (some c) →
      rest.length % 2 = 1 ∧ ∀ pre : List (BitVec 8),
        GoSem.idx (pre ++ rest) ((pre.length : Int) + 2 * ((rest.length / 2 : Nat) : Int) + 1 - 1) = .ok c := by
  fun_induction decF rest dst i with
  | case1 => intro d k c h; simp at h
  | case2 => intro d k c h; simp at h
  | case3 a b rest dst i ha hb ih =>
    intro d k c h
    obtain ⟨h1, h2⟩ := ih d k c h
    refine ⟨by simp only [List.length_cons]; omega, fun pre => ?_⟩
    have := h2 (pre ++ [a, b])
    have e : ((pre ++ [a, b]).length : Int) + 2 * ((rest.length / 2 : Nat) : Int) + 1 - 1
        = (pre.length : Int) + 2 * (((a :: b :: rest).length / 2 : Nat) : Int) + 1 - 1 := by
      simp only [List.length_append, List.length_cons, List.length_nil]; omega
    rw [e] at this
    simpa only [List.append_assoc, List.cons_append, List.nil_append] using this
  | case4 c0 dst i =>
    intro d k c h
    simp only [DecOut.fin.injEq, Option.some.injEq] at h
    obtain ⟨_, _, rfl⟩ := h
    refine ⟨rfl, fun pre => ?_⟩
    have : (pre.length : Int) + 2 * (([c0].length / 2 : Nat) : Int) + 1 - 1 = (pre.length : Int) := by
      simp
    rw [this]; exact idx_append pre c0 []
  | case5 => intro d k c h; simp at h

theorem decF_fin_none (rest dst : List (BitVec 8)) (i : Nat) :
    ∀ d k, decF rest dst i = .fin d k none → rest.length % 2 = 0 := by
  fun_induction decF rest dst i with
  | case1 => intro d k h; simp at h
  | case2 => intro d k h; simp at h
  | case3 a b rest dst i ha hb ih =>
    intro d k h
    have := ih d k h
    simp only [List.length_cons]; omega
  | case4 => intro d k h; simp at h
  | case5 => intro d k h; rfl

/-- What `hexDecode(dst, src)` returns, from the pair loop `decF`. -/
def decRes (src dst : List (BitVec 8)) : (Int × GoSem.Err) × List (BitVec 8) :=
  match decF src dst 0 with
  | .early d k bad => (((k : Int), errOf (.invalidByte bad.toNat)), d)
  | .fin d k none => (((k : Int), errOf .ok), d)
  | .fin d k (some c) =>
    if hexOk c then (((k : Int), errOf .length), d) else (((k : Int), errOf (.invalidByte c.toNat)), d)

theorem trans_hexDecode_eq (dst src : List (BitVec 8)) (h : src.length / 2 ≤ dst.length) :
    Golib.Gen.Trans.C15.hexDecode dst src = .ok (decRes src dst) := by
  unfold Golib.Gen.Trans.C15.hexDecode decRes
  have hl := dec_loop_eq src dst 0 [] (src.length + 1) (by omega) (by omega)
  simp only [List.nil_append, List.length_nil, Int.natCast_zero, Int.zero_add] at hl
  simp only [bind, pure, hl, Res.bind_ok']
  generalize hr : decF src dst 0 = r
  match r with
  | .early d k bad => simp only [loopFlow]
  | .fin d k none =>
    have hev := decF_fin_none src dst 0 d k hr
    have ht : ((src.length : Nat) : Int).tmod 2 = ((src.length % 2 : Nat) : Int) := rfl
    -- the parity test however it is written (`== 1`, `!= 0`)
    simp only [loopFlow, Int.ofNat_eq_natCast, ht, hev, errOf]
    simp
  | .fin d k (some c) =>
    obtain ⟨hodd, hidx⟩ := decF_fin_some src dst 0 d k c hr
    have hidx' := hidx []
    simp only [List.nil_append, List.length_nil, Int.natCast_zero, Int.zero_add] at hidx'
    have ht : ((src.length : Nat) : Int).tmod 2 = ((src.length % 2 : Nat) : Int) := rfl
    simp only [loopFlow, Int.ofNat_eq_natCast, ht, hodd, hidx', fromHexChar_ok, Res.bind_ok', rune_byte, errOf]
    cases hc : hexOk c <;> simp [hc]

/-- Every byte: the model's `fromHexChar` against value and flag on the `BitVec` side. -/
theorem hex_fact_raw (a : BitVec 8) :
    (Golib.C15.fromHexChar a.toNat).isSome = hexOk a ∧
    (Golib.C15.fromHexChar a.toNat).getD 0 = (hexVal a).toNat ∧
    (Golib.C15.fromHexChar a.toNat).getD 0 < 16 := by
  revert a; apply forall_byte; decide +kernel

theorem hex_fact (a : BitVec 8) :
    match Golib.C15.fromHexChar a.toNat with
    | some x => hexOk a = true ∧ (hexVal a).toNat = x ∧ x < 16
    | none => hexOk a = false := by
  have h := hex_fact_raw a
  cases hx : Golib.C15.fromHexChar a.toNat with
  | none => simp only [hx, Option.isSome_none] at h ⊢; exact h.1.symm
  | some x => simp only [hx, Option.isSome_some, Option.getD_some] at h ⊢; exact ⟨h.1.symm, h.2.1.symm, h.2.2⟩

/-- The model's view of a `decF` outcome. -/
def modelOf : DecOut → List Nat × Nat × HErr
  | .early d k bad => (bytesOf d, k, .invalidByte bad.toNat)
  | .fin d k none => (bytesOf d, k, .ok)
  | .fin d k (some c) => (bytesOf d, k, if hexOk c then .length else .invalidByte c.toNat)

theorem model_dec (rest dst : List (BitVec 8)) (i : Nat) :
    i + rest.length / 2 ≤ dst.length →
      hexDecodeLoop (bytesOf rest) (bytesOf dst) i = some (modelOf (decF rest dst i)) := by
  fun_induction decF rest dst i with
  | case1 a b rest dst i ha =>
    intro _
    have fa := hex_fact a
    simp only [bytesOf, List.map_cons, hexDecodeLoop, modelOf]
    split at fa
    · rw [fa.1] at ha; exact absurd ha (by decide)
    · rename_i hn; simp only [hn]
  | case2 a b rest dst i ha hb =>
    intro _
    have fa := hex_fact a
    have fb := hex_fact b
    simp only [bytesOf, List.map_cons, hexDecodeLoop, modelOf]
    split at fa
    · rename_i x hx
      simp only [hx]
      split at fb
      · rw [fb.1] at hb; exact absurd hb (by decide)
      · rename_i hn; simp only [hn]
    · exact absurd fa ha
  | case3 a b rest dst i ha hb ih =>
    intro hroom
    have fa := hex_fact a
    have fb := hex_fact b
    have hi : i < dst.length := by simp only [List.length_cons] at hroom; omega
    have ih' := ih (by simp only [List.length_set, List.length_cons] at hroom ⊢; omega)
    simp only [bytesOf, List.map_cons, hexDecodeLoop] at ih' ⊢
    split at fa
    · rename_i x hx
      split at fb
      · rename_i y hy
        have hv : (hexVal a <<< 4 ||| hexVal b).toNat = ((x <<< 4) % 256) ||| y := by
          simp only [BitVec.toNat_or, BitVec.toNat_shiftLeft, fa.2.1, fb.2.1, Nat.reducePow]
        simp only [hx, hy, setByte, List.length_map, hi, if_true, ← hv, ← List.map_set]
        exact ih'
      · exact absurd fb hb
    · exact absurd fa ha
  | case4 c dst i =>
    intro _
    have fc := hex_fact c
    simp only [bytesOf, List.map_cons, List.map_nil, hexDecodeLoop, modelOf]
    split at fc
    · rename_i x hx; simp only [hx, fc.1, if_true]
    · rename_i hn; simp only [hn, fc, Bool.false_eq_true, if_false]
  | case5 dst i => intro _; simp only [bytesOf, List.map_nil, hexDecodeLoop, modelOf]

theorem decF_bounds (rest dst : List (BitVec 8)) (i : Nat) :
    match decF rest dst i with
    | .early d k _ => d.length = dst.length ∧ k ≤ i + rest.length / 2
    | .fin d k _ => d.length = dst.length ∧ k ≤ i + rest.length / 2 := by
  fun_induction decF rest dst i with
  | case1 a b rest dst i ha => exact ⟨rfl, by omega⟩
  | case2 a b rest dst i ha hb => exact ⟨rfl, by omega⟩
  | case3 a b rest dst i ha hb ih =>
    revert ih
    generalize decF rest (dst.set i (hexVal a <<< 4 ||| hexVal b)) (i + 1) = r
    cases r <;> simp only [List.length_set, List.length_cons] <;> intro h <;> exact ⟨h.1, by omega⟩
  | case4 c dst i => exact ⟨rfl, by omega⟩
  | case5 dst i => exact ⟨rfl, by omega⟩

/-- The regenerated `HexDecode` against the model's `hexDecode?`: the model does not panic and
the code returns its decoded prefix and its error (as class). -/
theorem trans_HexDecode_eq (s : List (BitVec 8)) :
    ∃ out e, hexDecode? (bytesOf s) = some (bytesOf out, e) ∧
      Golib.Gen.Trans.C15.HexDecode s = .ok (out, errOf e) := by
  let dst := List.replicate (s.length / 2) (0#8)
  have hroom : s.length / 2 ≤ dst.length := by simp [dst]
  have hm := model_dec s dst 0 (by omega)
  have hb := decF_bounds s dst 0
  have hd := trans_hexDecode_eq dst s hroom
  have hmk : GoSem.makeSlice 0#8 (Int.tdiv (Int.ofNat s.length) 2) = .ok dst := by
    have : Int.tdiv (Int.ofNat s.length) 2 = ((s.length / 2 : Nat) : Int) := rfl
    rw [this, makeSlice_ok]
  have hz : bytesOf dst = List.replicate ((bytesOf s).length / 2) 0 := by simp [dst, bytesOf]
  rw [hz] at hm
  unfold Golib.Gen.Trans.C15.HexDecode hexDecode?
  simp only [bind, pure, hmk, Res.bind_ok', hd, hm, decRes]
  have hslice : ∀ (d : List (BitVec 8)) (k : Nat), k ≤ d.length →
      GoSem.slice d 0 (k : Int) = .ok (d.take k) := by
    intro d k hk; simp [GoSem.slice]; omega
  revert hb
  generalize decF s dst 0 = r
  intro hb
  match r with
  | .early d k bad =>
    have hk : k ≤ d.length := by simp only [dst, List.length_replicate] at hb; omega
    exact ⟨d.take k, .invalidByte bad.toNat, by simp [modelOf, bytesOf, List.map_take],
      by simp only [hslice d k hk, Res.bind_ok']⟩
  | .fin d k none =>
    have hk : k ≤ d.length := by simp only [dst, List.length_replicate] at hb; omega
    exact ⟨d.take k, .ok, by simp [modelOf, bytesOf, List.map_take], by simp only [hslice d k hk, Res.bind_ok']⟩
  | .fin d k (some c) =>
    have hk : k ≤ d.length := by simp only [dst, List.length_replicate] at hb; omega
    refine ⟨d.take k, if hexOk c then .length else .invalidByte c.toNat,
      by simp [modelOf, bytesOf, List.map_take], ?_⟩
    cases hc : hexOk c <;> simp [hc, hslice d k hk]

end

end Golib.C15.Tie
