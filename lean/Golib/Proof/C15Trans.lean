/-
C15 — tie between the definitions `go2lean` regenerates from `strz/std_strconv.go`,
`strz/std_hex.go` on every run (`Golib/Gen/TransC15.lean`) and the hand-written models
(`Golib/Model/C15Parse.lean`, `Golib/Model/C15Hex.lean`).

Representation: the models use `Nat` bytes (`< 256`) and `List Nat` strings; the translation
uses `BitVec 8` and `List (BitVec 8)`.  The abstraction function is `BitVec.toNat` (`bytesOf`
on strings), stated explicitly in every tie.

The byte-level helpers are tied by exhausting the 256 bytes (`decide +kernel` on a bounded
quantifier, lifted to `BitVec 8`), so ANY rewrite of the Go text that computes the same function
keeps the tie.
-/
import Golib.Gen.TransC15
import Golib.Model.C15Parse
import Golib.Model.C15Hex

set_option linter.unusedSimpArgs false

namespace Golib.C15
open Golib.GoSem

/-- Lift a statement checked on the 256 byte values to every `BitVec 8`. -/
theorem forall_byte {P : BitVec 8 → Prop} (h : ∀ n, n < 256 → P (BitVec.ofNat 8 n)) (c : BitVec 8) : P c := by
  have := h c.toNat c.isLt
  simpa using this

/-- The result pair of `fromHexChar` as the model's option. -/
def hexCharPair (o : Option Nat) : BitVec 8 × Bool :=
  match o with
  | some v => (BitVec.ofNat 8 v, true)
  | none => (0#8, false)

theorem trans_lower_eq (c : BitVec 8) :
    Golib.Gen.Trans.C15.lower c = .ok (BitVec.ofNat 8 (Golib.C15.lower c.toNat)) := by
  revert c
  apply forall_byte
  decide +kernel

theorem trans_fromHexChar_eq (c : BitVec 8) :
    Golib.Gen.Trans.C15.fromHexChar c = .ok (hexCharPair (Golib.C15.fromHexChar c.toNat)) := by
  revert c
  apply forall_byte
  decide +kernel

end Golib.C15
