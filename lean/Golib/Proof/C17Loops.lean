/-
C17: no-panic (and fuel sufficiency) of the `for range` based functions and of the two
case converters, for arbitrary byte strings.
-/
import Golib.Proof.C17Strs

namespace Golib.C17
open Golib.Utf8

/-- Every index produced by `for i := range bs` (started at offset `off`) lies inside the string. -/
theorem rangeDecode_go_offsets :
    ∀ (fuel off : Nat) (bs : List Nat) (e : Nat × Int × Nat),
      e ∈ rangeDecode.go fuel off bs → off ≤ e.1 ∧ e.1 < off + bs.length := by
  intro fuel
  induction fuel with
  | zero => intro off bs e h; simp [rangeDecode.go] at h
  | succ fuel ih =>
    intro off bs e h
    cases bs with
    | nil => simp [rangeDecode.go] at h
    | cons b rest =>
      simp only [rangeDecode.go] at h
      have hsz := decodeRune_size b rest
      generalize decodeRune (b :: rest) = d at h hsz
      obtain ⟨r, sz⟩ := d
      rw [if_neg (by omega)] at h
      rcases List.mem_cons.mp h with h | h
      · subst h; simp
      · have := ih _ _ _ h
        simp only [List.length_drop, List.length_cons] at this ⊢
        omega

theorem rangeDecode_offsets (s : List Nat) (e : Nat × Int × Nat) (h : e ∈ rangeDecode s) :
    e.1 ≤ s.length := by
  have := rangeDecode_go_offsets _ _ _ e h; omega

theorem subByDisplayLoop_some (s : List Nat) (length : Int) :
    ∀ (es : List (Nat × Int × Nat)) (dpl : Int), (∀ e ∈ es, e.1 ≤ s.length) →
      ∃ r, subByDisplayLoop s length es dpl = some r := by
  intro es
  induction es with
  | nil => intro dpl _; exact ⟨_, rfl⟩
  | cons e es ih =>
    intro dpl h
    obtain ⟨i, v, sz⟩ := e
    simp only [subByDisplayLoop]
    by_cases hc : (if v < 0x80 then dpl + 1 else dpl + 2) > length
    · rw [if_pos hc]; exact ⟨_, sliceTo_le _ _ (h (i, v, sz) (by simp))⟩
    · rw [if_neg hc]; exact ih _ (fun e he => h e (by simp [he]))

theorem subByDisplay_some (s : List Nat) (length : Int) : ∃ r, subByDisplay s length = some r := by
  unfold subByDisplay
  split
  · exact ⟨_, rfl⟩
  · exact subByDisplayLoop_some s length _ 0 (fun e he => rangeDecode_offsets s e he)

theorem removeLoop_some (s : List Nat) (p : Int → Bool) :
    ∀ (es : List (Nat × Int × Nat)) (buf : Option (List Nat)), (∀ e ∈ es, e.1 ≤ s.length) →
      ∃ r, removeLoop s p es buf = some r := by
  intro es
  induction es with
  | nil => intro buf _; exact ⟨_, rfl⟩
  | cons e es ih =>
    intro buf h
    obtain ⟨i, v, sz⟩ := e
    have h' : ∀ e ∈ es, e.1 ≤ s.length := fun e he => h e (by simp [he])
    cases buf with
    | some b => rw [removeLoop]; exact ih _ h'
    | none =>
      rw [removeLoop]
      split
      · rw [sliceTo_le _ _ (h (i, v, sz) (by simp))]; exact ih _ h'
      · exact ih _ h'

theorem removeRunes_some (s : List Nat) (p : Int → Bool) : ∃ r, removeRunes s p = some r := by
  unfold removeRunes
  obtain ⟨r, hr⟩ := removeLoop_some s p (rangeDecode s) none (fun e he => rangeDecode_offsets s e he)
  rw [hr]
  cases r <;> exact ⟨_, rfl⟩

/-! ### SnakeToCamelCase / CamelCaseToSnake -/

theorem flush_some (str buf : List Nat) (start i : Nat) (h1 : start ≤ i) (h2 : i ≤ str.length) :
    ∃ b, flush str buf start i = some b := by
  unfold flush
  split
  · rw [slice_le _ _ _ h1 h2]; exact ⟨_, rfl⟩
  · exact ⟨_, rfl⟩

theorem finish_some (str buf : List Nat) (start : Nat) (h : start ≤ str.length) :
    ∃ b, finish str buf start = some b := by
  unfold finish
  split
  · exact ⟨_, rfl⟩
  · split
    · rw [sliceFrom_le _ _ h]; exact ⟨_, rfl⟩
    · exact ⟨_, rfl⟩

theorem decode_drop_bounds (s : List Nat) (i : Nat) (h : i < s.length) :
    i < i + (decodeRune (s.drop i)).2 ∧ i + (decodeRune (s.drop i)).2 ≤ s.length := by
  have hd : s.drop i = s[i] :: s.drop (i + 1) := List.drop_eq_getElem_cons h
  have := decodeRune_size s[i] (s.drop (i + 1))
  rw [← hd] at this
  have hl : (s.drop (i + 1)).length = s.length - (i + 1) := List.length_drop
  omega

theorem snakeLoop_some (str : List Nat) :
    ∀ (fuel i start : Nat) (firstUp : Bool) (buf : List Nat),
      start ≤ i → i ≤ str.length → str.length - i < fuel →
      ∃ r, snakeLoop str fuel i start firstUp buf = some r := by
  intro fuel
  induction fuel with
  | zero => intro i start firstUp buf _ _ h; omega
  | succ fuel ih =>
    intro i start firstUp buf hs hi hf
    rw [snakeLoop]
    by_cases hlt : i < str.length
    · rw [if_pos hlt, List.getElem?_eq_getElem hlt]
      simp only []
      obtain ⟨b', hb'⟩ := flush_some str buf start i hs hi
      split
      · split
        · split
          · rw [hb']; exact ih _ _ _ _ (by omega) (by omega) (by omega)
          · exact ih _ _ _ _ (by omega) (by omega) (by omega)
        · split
          · rw [hb']; exact ih _ _ _ _ (by omega) (by omega) (by omega)
          · exact ih _ _ _ _ (by omega) (by omega) (by omega)
      · rw [sliceFrom_le _ _ hi]
        have := decode_drop_bounds str i hlt
        exact ih _ _ _ _ (by omega) (by omega) (by omega)
    · rw [if_neg hlt]; exact finish_some _ _ _ (by omega)

theorem snakeToCamel_some (str : List Nat) (firstUp : Bool) : ∃ r, snakeToCamel str firstUp = some r :=
  snakeLoop_some str _ 0 0 firstUp [] (by omega) (by omega) (by omega)

theorem camelLoop_some (str : List Nat) :
    ∀ (fuel i start : Nat) (buf : List Nat),
      start ≤ i → i ≤ str.length → str.length - i < fuel →
      ∃ r, camelLoop str fuel i start buf = some r := by
  intro fuel
  induction fuel with
  | zero => intro i start buf _ _ h; omega
  | succ fuel ih =>
    intro i start buf hs hi hf
    rw [camelLoop]
    by_cases hlt : i < str.length
    · rw [if_pos hlt, List.getElem?_eq_getElem hlt]
      simp only []
      obtain ⟨b', hb'⟩ := flush_some str buf start i hs hi
      split
      · split
        · rw [hb']; exact ih _ _ _ (by omega) (by omega) (by omega)
        · exact ih _ _ _ (by omega) (by omega) (by omega)
      · rw [sliceFrom_le _ _ hi]
        have := decode_drop_bounds str i hlt
        exact ih _ _ _ (by omega) (by omega) (by omega)
    · rw [if_neg hlt]; exact finish_some _ _ _ (by omega)

theorem camelToSnake_some (str : List Nat) : ∃ r, camelToSnake str = some r :=
  camelLoop_some str _ 0 0 [] (by omega) (by omega) (by omega)

theorem rev_some (s : List Nat) : ∃ r, rev s = some r := by
  unfold rev
  obtain ⟨r, hr⟩ := revLoop_some ((runes s).length + 1) (runes s) 0 (((runes s).length : Int) - 1)
    (by omega) (by omega) (by omega) (by omega)
  simp only [hr]; exact ⟨_, rfl⟩

end Golib.C17
