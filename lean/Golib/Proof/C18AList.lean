/-
Association lists as Go maps: lemmas about `alLookup`, `alInsert`, `alErase`, `entriesIn`.
-/
import Golib.Model.C18Solv

namespace Golib.C18

variable {β : Type}

def keys (m : List (Int × β)) : List Int := m.map (·.1)

theorem alLookup_some_mem {k : Int} {v : β} : ∀ {m : List (Int × β)}, alLookup k m = some v → (k, v) ∈ m
  | [], h => by simp [alLookup] at h
  | (k', v') :: r, h => by
    simp only [alLookup] at h
    split at h
    · rename_i hk; cases h; subst hk; simp
    · exact List.mem_cons_of_mem _ (alLookup_some_mem h)

theorem alLookup_none_iff {k : Int} : ∀ {m : List (Int × β)}, alLookup k m = none ↔ k ∉ keys m
  | [] => by simp [alLookup, keys]
  | (k', v') :: r => by
    have ih := @alLookup_none_iff k r
    simp only [alLookup, keys, List.map_cons, List.mem_cons, not_or] at ih ⊢
    split
    · rename_i hk; subst hk; simp
    · rename_i hk; rw [ih]; constructor
      · intro h; exact ⟨fun h' => hk h'.symm, h⟩
      · intro h; exact h.2

theorem alLookup_isSome_iff {k : Int} {m : List (Int × β)} : (alLookup k m).isSome ↔ k ∈ keys m := by
  cases h : alLookup k m with
  | none => simp [alLookup_none_iff.mp h]
  | some v =>
    simp only [Option.isSome_some, true_iff]
    exact List.mem_map.mpr ⟨(k, v), alLookup_some_mem h, rfl⟩

theorem mem_alLookup {k : Int} {v : β} : ∀ {m : List (Int × β)}, (keys m).Nodup → (k, v) ∈ m →
    alLookup k m = some v
  | [], _, h => by simp at h
  | (k', v') :: r, hn, h => by
    simp only [keys, List.map_cons, List.nodup_cons] at hn
    simp only [alLookup]
    rcases List.mem_cons.mp h with h | h
    · cases h; simp
    · have hk : k ∈ keys r := List.mem_map.mpr ⟨(k, v), h, rfl⟩
      have : k' ≠ k := by intro e; subst e; exact hn.1 hk
      simp only [this, if_false]
      exact mem_alLookup hn.2 h

theorem alLookup_eq_some_iff {k : Int} {v : β} {m : List (Int × β)} (hn : (keys m).Nodup) :
    alLookup k m = some v ↔ (k, v) ∈ m :=
  ⟨alLookup_some_mem, mem_alLookup hn⟩

/-- The entries visited by `range m` under a key order that is a permutation of the keys
are exactly the entries of the map. -/
theorem mem_entriesIn {m : List (Int × β)} (hn : (keys m).Nodup) {ks : List Int}
    (hp : ks.Perm (keys m)) (e : Int × β) : e ∈ entriesIn m ks ↔ e ∈ m := by
  simp only [entriesIn, List.mem_filterMap, Option.map_eq_some_iff]
  constructor
  · rintro ⟨k, _, v, hv, rfl⟩; exact alLookup_some_mem hv
  · intro he
    refine ⟨e.1, hp.mem_iff.mpr (List.mem_map.mpr ⟨e, he, rfl⟩), e.2, mem_alLookup hn he, rfl⟩

/-! ### insert / erase -/

theorem alLookup_alInsert (k k' : Int) (v : β) : ∀ (m : List (Int × β)),
    alLookup k' (alInsert k v m) = if k = k' then some v else alLookup k' m
  | [] => by simp [alInsert, alLookup]
  | (k1, v1) :: r => by
    have ih := alLookup_alInsert k k' v r
    simp only [alInsert]
    split
    · rename_i h1; subst h1
      simp only [alLookup]
      split <;> rfl
    · rename_i h1
      simp only [alLookup, ih]
      split
      · rename_i h2; subst h2; simp [Ne.symm h1]
      · rfl

theorem keys_alInsert_of_mem (k : Int) (v : β) : ∀ (m : List (Int × β)), k ∈ keys m →
    keys (alInsert k v m) = keys m
  | [], h => by simp [keys] at h
  | (k1, v1) :: r, h => by
    simp only [alInsert]
    split
    · rename_i h1; subst h1; simp [keys]
    · rename_i h1
      have : k ∈ keys r := by
        simp only [keys, List.map_cons, List.mem_cons] at h
        rcases h with h | h
        · exact absurd h.symm h1
        · exact h
      have ih := keys_alInsert_of_mem k v r this
      simp only [keys, List.map_cons] at ih ⊢
      rw [ih]

theorem keys_alInsert_of_not_mem (k : Int) (v : β) : ∀ (m : List (Int × β)), k ∉ keys m →
    keys (alInsert k v m) = keys m ++ [k]
  | [], _ => by simp [keys, alInsert]
  | (k1, v1) :: r, h => by
    simp only [keys, List.map_cons, List.mem_cons, not_or] at h
    have h1 : ¬ k1 = k := fun e => h.1 e.symm
    simp only [alInsert, h1, if_false, keys, List.map_cons, List.cons_append]
    have := keys_alInsert_of_not_mem k v r h.2
    simp only [keys] at this
    rw [this]

theorem mem_keys_alInsert (k k' : Int) (v : β) (m : List (Int × β)) :
    k' ∈ keys (alInsert k v m) ↔ k' = k ∨ k' ∈ keys m := by
  by_cases h : k ∈ keys m
  · rw [keys_alInsert_of_mem k v m h]
    constructor
    · exact Or.inr
    · rintro (rfl | h') <;> assumption
  · rw [keys_alInsert_of_not_mem k v m h]; simp [or_comm]

theorem nodup_keys_alInsert (k : Int) (v : β) (m : List (Int × β)) (hn : (keys m).Nodup) :
    (keys (alInsert k v m)).Nodup := by
  by_cases h : k ∈ keys m
  · rw [keys_alInsert_of_mem k v m h]; exact hn
  · rw [keys_alInsert_of_not_mem k v m h]
    rw [List.nodup_append]
    refine ⟨hn, by simp, ?_⟩
    intro a ha b hb
    simp only [List.mem_singleton] at hb
    subst hb; intro e; subst e; exact h ha

theorem alLookup_alErase (k k' : Int) : ∀ (m : List (Int × β)), (keys m).Nodup →
    alLookup k' (alErase k m) = if k = k' then none else alLookup k' m
  | [], _ => by simp [alErase, alLookup]
  | (k1, v1) :: r, hn => by
    simp only [keys, List.map_cons, List.nodup_cons] at hn
    have ih := alLookup_alErase k k' r hn.2
    simp only [alErase]
    split
    · rename_i h1; subst h1
      split
      · rename_i h2; subst h2
        exact alLookup_none_iff.mpr hn.1
      · rename_i h2; simp [alLookup, h2]
    · rename_i h1
      simp only [alLookup, ih]
      split
      · rename_i h2; subst h2; simp [Ne.symm h1]
      · rfl

theorem keys_alErase_sublist (k : Int) : ∀ (m : List (Int × β)), (keys (alErase k m)).Sublist (keys m)
  | [] => by simp [alErase, keys]
  | (k1, v1) :: r => by
    simp only [alErase]
    split
    · simp [keys]
    · simp only [keys, List.map_cons]
      exact (keys_alErase_sublist k r).cons_cons _

end Golib.C18
