/-
Bridge between the executable graph driver and the model of the construction API: the arc
list the driver derives from the edge tokens is the adjacency relation of the graph built by
the corresponding `AddEdge` / `AddUndirectedEdge` calls (in any order, any number of times,
with any `AddNode` calls in between).
-/
import Golib.Model.C18
import Golib.Proof.C18GraphApi

namespace Golib.C18

theorem mem_arcsOf (op : GOp) (v u : Nat) : (v, u) ∈ arcsOf op ↔ op.arc v u := by
  cases op with
  | addNode x => simp [arcsOf, GOp.arc]
  | addEdge a b =>
    simp only [arcsOf, GOp.arc, List.mem_singleton, Prod.mk.injEq]
    constructor <;> (rintro ⟨h1, h2⟩; exact ⟨h1.symm, h2.symm⟩)
  | addUndirected a b =>
    simp only [arcsOf, GOp.arc, List.mem_cons, Prod.mk.injEq, List.not_mem_nil, or_false]
    constructor
    · rintro (⟨h1, h2⟩ | ⟨h1, h2⟩)
      · exact Or.inl ⟨h1.symm, h2.symm⟩
      · exact Or.inr ⟨h1.symm, h2.symm⟩
    · rintro (⟨h1, h2⟩ | ⟨h1, h2⟩)
      · exact Or.inl ⟨h1.symm, h2.symm⟩
      · exact Or.inr ⟨h1.symm, h2.symm⟩

theorem contains_flatMap_arcsOf (ops : List GOp) (v u : Nat) :
    (ops.flatMap arcsOf).contains (v, u) = gNb (gBuild ops) v u := by
  rw [Bool.eq_iff_iff, gNb_build, List.contains_iff_mem, List.mem_flatMap]
  constructor
  · rintro ⟨op, ho, h⟩; exact ⟨op, ho, (mem_arcsOf op v u).mp h⟩
  · rintro ⟨op, ho, h⟩; exact ⟨op, ho, (mem_arcsOf op v u).mpr h⟩

/-- `parseEdges` returns the arcs of the parsed construction calls. -/
theorem parseEdges_eq (n : Nat) : ∀ (toks : List String) (es : List (Nat × Nat)),
    parseEdges n toks = some es →
    ∃ ops : List GOp, toks.mapM (parseEdgeOp n) = some ops ∧ es = ops.flatMap arcsOf
  | [], es, h => by
    simp only [parseEdges, Option.some.injEq] at h
    exact ⟨[], rfl, by simp [← h]⟩
  | t :: r, es, h => by
    simp only [parseEdges, parseEdge] at h
    cases ho : parseEdgeOp n t with
    | none => simp [ho] at h
    | some op =>
      cases hr : parseEdges n r with
      | none => simp [ho, hr] at h
      | some es' =>
        simp only [ho, hr, Option.map_some, Option.some.injEq] at h
        obtain ⟨ops, h1, h2⟩ := parseEdges_eq n r es' hr
        refine ⟨op :: ops, ?_, ?_⟩
        · simp [List.mapM_cons, ho, h1]
        · simp [← h, h2, List.flatMap_cons]

end Golib.C18
