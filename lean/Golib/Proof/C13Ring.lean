/-
C13 helper lemmas, part 1: rings of doubly linked nodes.

`Seg nx pv a xs b` : following `nx` from `a` visits exactly `xs` and then reaches `b`, and `pv`
is the inverse on every link.  `Ring nx pv (h :: t)` : the cycle `h → t… → h`.
The two splice primitives of `doubly_list.go` (`linkAfter`, `unlink`, i.e. the four / two
pointer writes shared by `insert`/`move` and `remove`/`move`) are shown to transform rings as
the list-level splice says, wherever in the ring they are applied (`ring_link`, `ring_unlink`).
-/
import Golib.Model.C13DList

set_option linter.unusedSimpArgs false
set_option linter.unusedVariables false

namespace Golib.C13

def Seg (nx pv : PM) : Nat → List Nat → Nat → Prop
  | a, [], b => nx.get a = some b ∧ pv.get b = some a
  | a, x :: xs, b => nx.get a = some x ∧ pv.get x = some a ∧ Seg nx pv x xs b

def Ring (nx pv : PM) : List Nat → Prop
  | [] => False
  | h :: t => Seg nx pv h t h

theorem seg_append {nx pv : PM} {a : Nat} {xs : List Nat} {y : Nat} {ys : List Nat} {b : Nat} :
    Seg nx pv a (xs ++ y :: ys) b ↔ Seg nx pv a xs y ∧ Seg nx pv y ys b := by
  induction xs generalizing a with
  | nil => simp [Seg, and_assoc]
  | cons x xs ih => simp [Seg, ih, and_assoc]

theorem seg_frame {nx pv nx' pv' : PM} {a : Nat} {xs : List Nat} {b : Nat}
    (hn : ∀ x ∈ a :: xs, nx'.get x = nx.get x) (hp : ∀ x ∈ xs ++ [b], pv'.get x = pv.get x)
    (h : Seg nx pv a xs b) : Seg nx' pv' a xs b := by
  induction xs generalizing a with
  | nil =>
    simp only [Seg] at h ⊢
    rw [hn a (by simp), hp b (by simp)]; exact h
  | cons x xs ih =>
    simp only [Seg] at h ⊢
    refine ⟨by rw [hn a (by simp)]; exact h.1, by rw [hp x (by simp)]; exact h.2.1, ?_⟩
    exact ih (fun y hy => hn y (by simp at hy ⊢; right; exact hy))
      (fun y hy => hp y (by simp at hy ⊢; right; exact hy)) h.2.2

/-- First link of a segment. -/
theorem seg_next_head {nx pv : PM} {a : Nat} {xs : List Nat} {b : Nat} (h : Seg nx pv a xs b) :
    nx.get a = (xs ++ [b]).head? := by
  cases xs <;> simp [Seg] at h ⊢ <;> exact h.1

/-- Last link of a segment. -/
theorem seg_prev_last {nx pv : PM} {a : Nat} {xs : List Nat} {b : Nat} (h : Seg nx pv a xs b) :
    pv.get b = (a :: xs).getLast? := by
  induction xs generalizing a with
  | nil => simp [Seg] at h ⊢; exact h.2
  | cons x xs ih =>
    simp only [Seg] at h
    rw [ih h.2.2]; simp [List.getLast?_cons_cons]

theorem ring_rot {nx pv : PM} {pre : List Nat} {a : Nat} {post : List Nat} :
    Ring nx pv (pre ++ a :: post) ↔ Ring nx pv (a :: (post ++ pre)) := by
  cases pre with
  | nil => simp
  | cons h t =>
    simp only [List.cons_append, Ring]
    rw [seg_append, seg_append]; exact And.comm

/-- Links read off a ring at any position: `… p, x, n …` (cyclically). -/
theorem ring_links {nx pv : PM} {pre : List Nat} {x : Nat} {post : List Nat}
    (h : Ring nx pv (pre ++ x :: post)) :
    nx.get x = (post ++ pre ++ [x]).head? ∧ pv.get x = (x :: (post ++ pre)).getLast? := by
  rw [ring_rot] at h
  simp only [Ring] at h
  exact ⟨by simpa using seg_next_head h, seg_prev_last h⟩

/-! ### the four writes of `linkAfter` -/

theorem linkAfter_eq (s : DSt) (e a n : Nat) (hn : s.next.get a = some n) (hea : e ≠ a) :
    s.linkAfter e (some a) = some { s with
      next := (s.next.set e (some n)).set a (some e),
      prev := (s.prev.set e (some a)).set n (some e) } := by
  simp [DSt.linkAfter, PM.get_set, hn, hea, hea.symm]

theorem ring_link_head {nx pv : PM} {a e n : Nat} {R : List Nat}
    (h : Ring nx pv (a :: R)) (nd : (a :: R).Nodup) (he : e ∉ a :: R) (hn : nx.get a = some n) :
    Ring ((nx.set e (some n)).set a (some e)) ((pv.set e (some a)).set n (some e)) (a :: e :: R) := by
  have hea : e ≠ a := by intro h; apply he; simp [h]
  cases R with
  | nil =>
    simp only [Ring, Seg] at h ⊢
    have : n = a := by rw [h.1] at hn; exact (Option.some.inj hn).symm
    subst this
    simp [PM.get_set, hea, hea.symm]
  | cons r R' =>
    simp only [Ring, Seg] at h ⊢
    have : n = r := by rw [h.1] at hn; exact (Option.some.inj hn).symm
    subst this
    have her : e ≠ n := by intro h; apply he; simp [h]
    have han : a ≠ n := by intro h; simp [h] at nd
    refine ⟨by simp [PM.get_set], by simp [PM.get_set, her], by simp [PM.get_set, hea], by simp [PM.get_set], ?_⟩
    refine seg_frame ?_ ?_ h.2.2
    · intro x hx
      have hxa : x ≠ a := by intro h; subst h; simp at nd; simp at hx; grind
      have hxe : x ≠ e := by intro h; subst h; simp at he; simp at hx; grind
      simp [PM.get_set, hxa, hxe]
    · intro x hx
      have hxn : x ≠ n := by
        intro h; subst h; simp at nd hx
        rcases hx with hx | hx
        · exact nd.2.1 hx
        · exact han hx.symm
      have hxe : x ≠ e := by intro h; subst h; simp at he hx; grind
      simp [PM.get_set, hxn, hxe]

/-- `linkAfter e a` anywhere in a ring splices `e` in right after `a`. -/
theorem ring_link {nx pv : PM} {pre : List Nat} {a : Nat} {post : List Nat} {e n : Nat}
    (h : Ring nx pv (pre ++ a :: post)) (nd : (pre ++ a :: post).Nodup)
    (he : e ∉ pre ++ a :: post) (hn : nx.get a = some n) :
    Ring ((nx.set e (some n)).set a (some e)) ((pv.set e (some a)).set n (some e))
      (pre ++ a :: e :: post) := by
  rw [ring_rot] at h
  have nd' : (a :: (post ++ pre)).Nodup := by
    have := nd; simp [List.nodup_append, List.nodup_cons] at this ⊢; grind
  have he' : e ∉ a :: (post ++ pre) := by simp at he ⊢; grind
  have := ring_link_head h nd' he' hn
  rw [ring_rot]; simpa using this

/-! ### the two writes of `unlink` -/

theorem unlink_eq (s : DSt) (e p n : Nat) (hp : s.prev.get e = some p) (hn : s.next.get e = some n) :
    s.unlink e = some { s with next := s.next.set p (some n), prev := s.prev.set n (some p) } := by
  simp only [DSt.unlink, hp, hn, Option.bind_eq_bind, Option.bind_some, PM.get_set]
  split <;> simp [hn, hp]

theorem ring_unlink_head {nx pv : PM} {p e n : Nat} {R : List Nat}
    (h : Ring nx pv (p :: e :: R)) (nd : (p :: e :: R).Nodup) (hn : nx.get e = some n) :
    Ring (nx.set p (some n)) (pv.set n (some p)) (p :: R) := by
  cases R with
  | nil =>
    simp only [Ring, Seg] at h ⊢
    have : n = p := by rw [h.2.2.1] at hn; exact (Option.some.inj hn).symm
    subst this
    simp [PM.get_set]
  | cons r R' =>
    simp only [Ring, Seg] at h ⊢
    have : n = r := by rw [h.2.2.1] at hn; exact (Option.some.inj hn).symm
    subst this
    refine ⟨by simp [PM.get_set], by simp [PM.get_set], ?_⟩
    refine seg_frame ?_ ?_ h.2.2.2.2
    · intro x hx
      have hxp : x ≠ p := by intro h; subst h; simp at nd hx; grind
      simp [PM.get_set, hxp]
    · intro x hx
      have hxn : x ≠ n := by
        intro h; subst h; simp at nd hx
        rcases hx with hx | hx
        · exact nd.2.2.1 hx
        · exact nd.1.2.1 hx.symm
      simp [PM.get_set, hxn]

/-- `unlink e` anywhere in a ring (with predecessor `p`) cuts `e` out. -/
theorem ring_unlink {nx pv : PM} {pre : List Nat} {p e : Nat} {post : List Nat} {n : Nat}
    (h : Ring nx pv (pre ++ p :: e :: post)) (nd : (pre ++ p :: e :: post).Nodup)
    (hn : nx.get e = some n) :
    Ring (nx.set p (some n)) (pv.set n (some p)) (pre ++ p :: post) := by
  rw [ring_rot] at h
  have nd' : (p :: e :: (post ++ pre)).Nodup := by
    have := nd; simp [List.nodup_append, List.nodup_cons] at this ⊢; grind
  have := ring_unlink_head (R := post ++ pre) (by simpa using h) nd' hn
  rw [ring_rot]; exact this

end Golib.C13
