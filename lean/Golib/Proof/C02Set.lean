/-
C02 helper lemmas, part 4: `set` (Set / SetX / SetNx).
-/
import Golib.Proof.C02Inv

set_option linter.unusedSectionVars false
set_option linter.unusedSimpArgs false

namespace Golib.C02

variable {K V : Type} [DecidableEq K]

theorem lazy_noop {cmp : K → K → Int} {s : SL K V} (h : Inv cmp s) (b : Bool) :
    (if (b && s.lv.isEmpty) = true then (SL.init : SL K V) else s) = s := by
  obtain ⟨rest, hr⟩ := h.lv_cons; simp [hr]

/-- The level the new node gets and whether the list grows. -/
def newHeight (s : SL K V) (ht : Nat) : Nat := if ht > s.level then s.level + 1 else ht

/-- The state after inserting a fresh key with drawn height `ht`. -/
def inserted (cmp : K → K → Int) (s : SL K V) (key : K) (val : V) (ht : Nat) : SL K V :=
  { s with lv := insTop cmp key (newHeight s ht) s.lv, vals := (key, val) :: s.vals,
           level := if ht > s.level then s.level + 1 else s.level, len := s.len + 1 }

theorem setH_found (cfg : Cfg K V) (hc : WeakCmp cfg.cmp) {s : SL K V} (h : Inv cfg.cmp s)
    {key n : K} (hk : findEq cfg.cmp key (chain0 s) = some n) (val : V) (mode ht : Nat) :
    s.setH cfg key val mode ht =
      if mode = 2 then some (s, false) else some ({ s with vals := setVal s.vals n val }, true) := by
  obtain ⟨ls, h1, h2, h3, _, _⟩ := h.search_prep hc key
  unfold SL.setH
  simp only [lazy_noop h, h1]
  rw [setLoop_spec hc key ls none [] h2 (fun l _ c hcn => by cases hcn)]
  simp only [h3, hk]
  by_cases hm : mode = 2 <;> simp [hm]

theorem setH_absent (cfg : Cfg K V) (hc : WeakCmp cfg.cmp) {s : SL K V} (h : Inv cfg.cmp s)
    {key : K} (hk : findEq cfg.cmp key (chain0 s) = none) (val : V) (mode ht : Nat) (hht : ht ≤ maxLevel) :
    s.setH cfg key val mode ht =
      if mode = 1 then some (s, false) else some (inserted cfg.cmp s key val ht, true) := by
  obtain ⟨ls, h1, h2, h3, h4, _⟩ := h.search_prep hc key
  unfold SL.setH
  simp only [lazy_noop h, h1]
  rw [setLoop_spec hc key ls none [] h2 (fun l _ c hcn => by cases hcn)]
  simp only [h3, hk, h4, List.append_nil]
  by_cases hm : mode = 1
  · simp [hm]
  · have hm' : (mode == 1) = false := by simp [hm]
    simp only [hm', Bool.false_eq_true, if_false, hm, h.rand, Bool.not_true]
    have hlen := h.len32
    have hlvl := h.lvl
    by_cases hg : ht > s.level
    · -- the list grows by one level
      have hlt : s.level < maxLevel := by omega
      have hng : ¬ (s.level ≥ maxLevel) := by omega
      simp only [hg, decide_true, Bool.true_and, hng, decide_false, Bool.false_eq_true, if_false, if_true]
      rw [splice_spec hc key (s.level + 1) s.lv _ (by omega) (by simp; omega) h.tower.1]
      · simp [inserted, newHeight, hg, h.rand]
      · intro i hi
        by_cases hil : i < s.level
        · rw [List.getElem?_append_left (by simp; omega)]
          simp [List.getElem?_take, hil]
        · have hie : i = s.level := by omega
          subst hie
          rw [List.getElem?_append_right (by simp; omega)]
          rw [h.above s.level (Nat.le_refl _) hlt]
          have hmin : s.level - min s.level s.lv.length = 0 := by omega
          simp [pred, lo, lastOr, hmin]
    · have hng : ¬ (ht > s.level) := hg
      simp only [hg, decide_false, Bool.false_and, Bool.false_eq_true, if_false]
      rw [splice_spec hc key ht s.lv _ (by omega) (by simp; omega) h.tower.1]
      · simp [inserted, newHeight, hg, h.rand]
      · intro i hi
        simp [List.getElem?_take]; omega

end Golib.C02
