/-
C01 — linearizability of the SyncRing machine (ghost tickets): value transport.

The run is instrumented with ghost state that does NOT influence `step`:
  `q`     the abstract bounded FIFO queue (`BQ cap` of DESIGN §5),
  `pend`  per thread, what its CURRENT call did at its linearization point: `none` when the
          call has not (yet) linearized — reset at the first step of every `Push`/`Pop` —,
          `some v` = the value its `Push` appended to / its `Pop` removed from `q`.
  `cur`, `pushed`, `popped`  the call in flight per thread and the histories of appended /
          removed values (invariants about them: Proof/C01Hist.lean).
Linearization points: `Push(v)` = its successful `CAS(&r.tail, pos, pos+1)` (appends `v`
to `q`), successful `Pop` = its successful `CAS(&r.head, pos, pos+1)` (removes the head of
`q`).  Proved: `|q| = tail − head ≤ cap`, the appended/removed element is a legal
`bqPush`/`bqPop`, the element of `q` for position `p` is what the pusher owning `p` is
about to write / has written into slot `p % cap` and it is still there when `p` is popped,
and every successful `Pop` returns what it removed from `q`.
-/
import Golib.Proof.C01Inv

namespace Golib.C01
open Golib.C01.Util

/-! ### the abstract bounded queue -/

def bqPush (cap : Nat) (q : List Int) (v : Int) : Option (List Int) :=
  if q.length < cap then some (q ++ [v]) else none

def bqPop : List Int → Option (Int × List Int)
  | [] => none
  | x :: r => some (x, r)

structure LGhost where
  q : List Int
  pend : List (Option Int)
  /-- per thread, the call in flight (set at the call's first step, cleared when it returns) -/
  cur : List (Option Call)
  /-- every value appended to `q` at a linearization point, in linearization order -/
  pushed : List Int
  /-- every value removed from `q` at a linearization point, in linearization order -/
  popped : List Int
deriving Repr, DecidableEq

/-- Ghost update for one step of thread `i` from state `s` (looks at the pre-state only). -/
def gstep (s : State) (g : LGhost) (i : Nat) : LGhost :=
  match s.threads[i]? with
  | none => g
  | some th =>
    match th.pc with
    | .pushLoadTail v => { g with pend := g.pend.set i none, cur := g.cur.set i (some (.push v)) }
    | .popLoadHead => { g with pend := g.pend.set i none, cur := g.cur.set i (some .pop) }
    | .lenLoadTail => { g with cur := g.cur.set i (some .len) }
    | .emptyLoadHead => { g with cur := g.cur.set i (some .isEmpty) }
    | .fullLoadTail => { g with cur := g.cur.set i (some .isFull) }
    | .pushCAS v pos _ =>
      if s.tail = pos then
        { g with q := g.q ++ [v], pend := g.pend.set i (some v), pushed := g.pushed ++ [v] }
      else g
    | .popCAS pos _ =>
      if s.head = pos then
        { g with q := g.q.tail, pend := g.pend.set i g.q.head?, popped := g.popped ++ g.q.head?.toList }
      else g
    | _ => g

/-- when the step returns, the thread's current call is over -/
def gfin (e : Event) (g : LGhost) : LGhost :=
  if e.ret.isSome then { g with cur := g.cur.set e.tid none } else g

/-- Instrumented run. -/
def lrun (c : Cfg) : State → LGhost → List Nat → State × LGhost
  | s, g, [] => (s, g)
  | s, g, i :: σ => lrun c (step c s i).1 (gfin (step c s i).2 (gstep s g i)) σ

theorem lrun_fst (c : Cfg) (s : State) (g : LGhost) (σ : List Nat) :
    (lrun c s g σ).1 = (run c s σ).1 := by
  induction σ generalizing s g with
  | nil => rfl
  | cons i σ ih => simp only [lrun, run]; exact ih _ _

def ginit (progs : List (List Call)) : LGhost :=
  { q := [], pend := progs.map fun _ => none, cur := progs.map fun _ => none, pushed := [], popped := [] }

/-- value stored in slot `k` -/
def vl (slots : List Slot) (k : Nat) : Option Int := (slots[k]?).map (·.val)

theorem vl_set_seq {slots : List Slot} {k : Nat} {sl : Slot} (h : slots[k]? = some sl) (x : Nat) (j : Nat) :
    vl (slots.set k { sl with seq := x }) j = vl slots j := by
  simp only [vl, List.getElem?_set]
  split
  · rename_i e
    subst e
    split
    · simp [h]
    · rename_i hlt
      have := List.getElem?_eq_none (Nat.le_of_not_lt hlt)
      rw [this] at h; simp at h
  · rfl

theorem vl_set_val {slots : List Slot} {k : Nat} {sl : Slot} (h : slots[k]? = some sl) (v : Int) (j : Nat) :
    vl (slots.set k { sl with val := v }) j = if j = k then some v else vl slots j := by
  have hlt : k < slots.length := by
    by_cases hlt : k < slots.length
    · exact hlt
    · have := List.getElem?_eq_none (Nat.le_of_not_lt hlt)
      rw [this] at h; simp at h
  simp only [vl, List.getElem?_set]
  by_cases e : j = k
  · subst e; simp [hlt]
  · have : ¬ k = j := fun e' => e e'.symm
    simp [e, this]

theorem vl_of_slot {slots : List Slot} {k : Nat} {sl : Slot} (h : slots[k]? = some sl) :
    vl slots k = some sl.val := by simp [vl, h]

/-- what the ghost knows about thread `i` -/
def GOk (cap H : Nat) (slots : List Slot) (q : List Int) (pend : List (Option Int)) (i : Nat) : Pc → Prop
  | .pushLoadSeq _ _ => pend[i]? = some none
  | .pushCAS _ _ _ => pend[i]? = some none
  | .popLoadSeq _ => pend[i]? = some none
  | .popCAS _ _ => pend[i]? = some none
  | .pushWrite v pos _ => q[pos - H]? = some v ∧ pend[i]? = some (some v)
  | .pushStore pos _ => q[pos - H]? = vl slots (pos % cap) ∧ pend[i]? = some (vl slots (pos % cap))
  | .popRead pos _ => pend[i]? = some (vl slots (pos % cap))
  | .popClear _ _ v => pend[i]? = some (some v)
  | .popStore _ _ v => pend[i]? = some (some v)
  | _ => True

structure GInv (c : Cfg) (s : State) (g : LGhost) : Prop where
  inv : Inv c s
  qlen : g.q.length = s.tail - s.head
  pend_len : g.pend.length = s.threads.length
  /-- the element of the abstract queue for a published position is in its slot -/
  stored : ∀ p, s.head ≤ p → p < s.tail → sq s.slots (p % c.cap) = some (p + 1) →
    g.q[p - s.head]? = vl s.slots (p % c.cap)
  locals : ∀ i th, s.threads[i]? = some th → GOk c.cap s.head s.slots g.q g.pend i th.pc

/-- `GInv` only looks at the abstract queue and the linearization records -/
theorem GInv.congr {c : Cfg} {s : State} {g g' : LGhost} (h : GInv c s g) (hq : g'.q = g.q)
    (hp : g'.pend = g.pend) : GInv c s g' := by
  refine ⟨h.inv, by rw [hq]; exact h.qlen, by rw [hp]; exact h.pend_len, ?_, ?_⟩
  · rw [hq]; exact h.stored
  · rw [hq, hp]; exact h.locals

theorem gfin_q (e : Event) (g : LGhost) : (gfin e g).q = g.q ∧ (gfin e g).pend = g.pend ∧
    (gfin e g).pushed = g.pushed ∧ (gfin e g).popped = g.popped := by
  unfold gfin; split <;> exact ⟨rfl, rfl, rfl, rfl⟩

theorem GOk_finish (cap H : Nat) (slots : List Slot) (q : List Int) (pend : List (Option Int)) (i : Nat)
    (th : Thread) : GOk cap H slots q pend i th.finish.pc := by
  rcases finish_pc_cases th with h | ⟨v, h⟩ | h | h | h | h <;> rw [h] <;> simp [GOk]

/-- what the ghost knows about a thread survives a step that keeps what it relies on -/
theorem GOk.transfer {cap H H' : Nat} {slots slots' : List Slot} {q q' : List Int}
    {pend pend' : List (Option Int)} {j : Nat} {pc : Pc} (h : GOk cap H slots q pend j pc)
    (hq : ∀ p, pushAt p pc = true → q'[p - H']? = q[p - H]?)
    (hv : ∀ p, pushAt p pc = true ∨ popAt p pc = true → vl slots' (p % cap) = vl slots (p % cap))
    (hp : pend'[j]? = pend[j]?) : GOk cap H' slots' q' pend' j pc := by
  cases pc <;> simp only [GOk] at h ⊢
  · rw [hp]; exact h
  · rw [hp]; exact h
  · rw [hq _ (by simp [pushAt]), hp]; exact h
  · rw [hq _ (by simp [pushAt]), hv _ (Or.inl (by simp [pushAt])), hp]; exact h
  · rw [hp]; exact h
  · rw [hp]; exact h
  · rw [hp, hv _ (Or.inr (by simp [popAt]))]; exact h
  · rw [hp]; exact h
  · rw [hp]; exact h

theorem locals_set {cap H H' : Nat} {slots slots' : List Slot} {q q' : List Int}
    {pend pend' : List (Option Int)} {l : List Thread} {i : Nat} {th' : Thread}
    (hloc : ∀ j b, l[j]? = some b → GOk cap H slots q pend j b.pc)
    (hown : GOk cap H' slots' q' pend' i th'.pc)
    (hoth : ∀ j b, j ≠ i → l[j]? = some b → GOk cap H slots q pend j b.pc → GOk cap H' slots' q' pend' j b.pc) :
    ∀ j b, (l.set i th')[j]? = some b → GOk cap H' slots' q' pend' j b.pc := by
  intro j b hb
  by_cases e : j = i
  · subst e
    rw [List.getElem?_set] at hb
    simp only [if_true] at hb
    split at hb
    · obtain rfl := Option.some.inj hb
      exact hown
    · simp at hb
  · rw [List.getElem?_set_ne (fun e' => e e'.symm)] at hb
    exact hoth j b e hb (hloc j b hb)

/-- Two different threads never own positions that map to the same slot. -/
theorem owner_excl {c : Cfg} (g : Ghost c) {s : State} (hI : Inv c s) {i j : Nat} {a b : Thread}
    (hij : i ≠ j) (hi : s.threads[i]? = some a) (hj : s.threads[j]? = some b) {p1 p2 : Nat}
    (h1 : pushAt p1 a.pc = true ∨ popAt p1 a.pc = true)
    (h2 : pushAt p2 b.pc = true ∨ popAt p2 b.pc = true) : p1 % c.cap ≠ p2 % c.cap := by
  intro hk
  have hka : p1 % c.cap < c.cap := Nat.mod_lt _ (by have := g.cap2; omega)
  obtain ⟨q, hq, hph⟩ := hI.phases _ hka
  have la := hI.locals a (List.mem_of_getElem? hi)
  have lb := hI.locals b (List.mem_of_getElem? hj)
  rcases h1 with h1 | h1 <;> rcases h2 with h2 | h2
  · have ⟨_, a2, a3⟩ := la.push_at h1
    have ⟨_, _, b3⟩ := lb.push_at h2
    rw [← hk, a3] at b3
    obtain rfl := Option.some.inj b3
    rw [a3] at hq
    obtain rfl := Option.some.inj hq
    have hw := phase_W_of g.cap2 hph a2
    have := countP_two (p := fun (t : Thread) => pushAt p1 t.pc) hij hi hj h1 h2
    simp only [cW] at hw
    omega
  · have ⟨_, _, a3⟩ := la.push_at h1
    have ⟨_, b3⟩ := lb.pop_at h2
    rw [← hk, a3] at b3
    have e := Option.some.inj b3
    rw [e] at hk
    exact mod_succ_ne g.cap2 p2 hk.symm
  · have ⟨_, a3⟩ := la.pop_at h1
    have ⟨_, _, b3⟩ := lb.push_at h2
    rw [← hk, a3] at b3
    have e := Option.some.inj b3
    rw [← e] at hk
    exact mod_succ_ne g.cap2 p1 hk
  · have ⟨a2, a3⟩ := la.pop_at h1
    have ⟨_, b3⟩ := lb.pop_at h2
    rw [← hk, a3] at b3
    have e : p1 = p2 := by have := Option.some.inj b3; omega
    subst e
    rw [a3] at hq
    obtain rfl := Option.some.inj hq
    have ⟨_, hr⟩ := phase_R_of g.cap2 hph a2
    have := countP_two (p := fun (t : Thread) => popAt p1 t.pc) hij hi hj h1 h2
    simp only [cR] at hr
    omega

/-- what a successful tail-CAS finds -/
theorem pushCAS_slot {c : Cfg} (g : Ghost c) {s : State} (hI : Inv c s) {th : Thread}
    (hth : th ∈ s.threads) {v : Int} {pos seq : Nat} (hpc : th.pc = .pushCAS v pos seq) (hT : s.tail = pos) :
    sq s.slots (pos % c.cap) = some pos ∧ pos < s.head + c.cap := by
  have hloc := hI.locals th hth
  simp only [hpc, PcOk] at hloc
  obtain ⟨_, _, q, hq, hle⟩ := hloc
  have hk : pos % c.cap < c.cap := Nat.mod_lt _ (by have := g.cap2; omega)
  obtain ⟨q0, hq0, hph⟩ := hI.phases _ hk
  rw [hq] at hq0
  obtain rfl := Option.some.inj hq0
  obtain ⟨hqe, hlt⟩ := phase_F_of g.cap2 hph hT hI.head_le_tail hI.tail_le hle
  subst hqe
  exact ⟨hq, hlt⟩

/-- what a successful head-CAS finds -/
theorem popCAS_slot {c : Cfg} (g : Ghost c) {s : State} (hI : Inv c s) {th : Thread}
    (hth : th ∈ s.threads) {pos seq : Nat} (hpc : th.pc = .popCAS pos seq) (hH : s.head = pos) :
    sq s.slots (pos % c.cap) = some (pos + 1) ∧ pos < s.tail := by
  have hloc := hI.locals th hth
  simp only [hpc, PcOk] at hloc
  obtain ⟨_, _, q, hq, hle⟩ := hloc
  have hk : pos % c.cap < c.cap := Nat.mod_lt _ (by have := g.cap2; omega)
  obtain ⟨q0, hq0, hph⟩ := hI.phases _ hk
  rw [hq] at hq0
  obtain rfl := Option.some.inj hq0
  obtain ⟨hqe, hlt⟩ := phase_S_of hph hH hI.tail_le hle
  subst hqe
  exact ⟨hq, hlt⟩

/-! ### preservation, step by step -/

/-- steps that touch neither counters, slots nor the ghost -/
theorem ginv_local {c : Cfg} {s : State} {gh : LGhost} (hG : GInv c s gh) {i : Nat} {th' : Thread}
    (hI' : Inv c { s with threads := s.threads.set i th' })
    (hown : GOk c.cap s.head s.slots gh.q gh.pend i th'.pc) :
    GInv c { s with threads := s.threads.set i th' } gh := by
  refine ⟨hI', hG.qlen, by simp only [List.length_set]; exact hG.pend_len, hG.stored, ?_⟩
  exact locals_set hG.locals hown (fun _ _ _ _ h => h)

/-- first step of a `Push`/`Pop`: the thread's linearization record is reset -/
theorem ginv_invoke {c : Cfg} {s : State} {gh : LGhost} (hG : GInv c s gh) {i : Nat} {th th' : Thread}
    (hth : s.threads[i]? = some th)
    (hI' : Inv c { s with threads := s.threads.set i th' })
    (hown : ∀ pend', pend'[i]? = some none → GOk c.cap s.head s.slots gh.q pend' i th'.pc) :
    GInv c { s with threads := s.threads.set i th' } { gh with pend := gh.pend.set i none } := by
  have hilt : i < gh.pend.length := by
    rw [hG.pend_len]
    by_cases h : i < s.threads.length
    · exact h
    · rw [List.getElem?_eq_none (Nat.le_of_not_lt h)] at hth; simp at hth
  refine ⟨hI', hG.qlen, by simp only [List.length_set]; exact hG.pend_len, hG.stored, ?_⟩
  refine locals_set hG.locals (hown _ (List.getElem?_set_self hilt)) ?_
  intro j b hji _ hgb
  exact hgb.transfer (fun _ _ => rfl) (fun _ _ => rfl) (List.getElem?_set_ne (fun e => hji e.symm))

theorem ginv_pushCAS {c : Cfg} (g : Ghost c) {s : State} {gh : LGhost} (hG : GInv c s gh) {i : Nat}
    {th : Thread} (hth : s.threads[i]? = some th) {v : Int} {pos seq : Nat}
    (hpc : th.pc = .pushCAS v pos seq) (hT : s.tail = pos)
    (hI' : Inv c { s with tail := pos + 1, threads := s.threads.set i { th with pc := .pushWrite v pos seq } }) :
    GInv c { s with tail := pos + 1, threads := s.threads.set i { th with pc := .pushWrite v pos seq } }
      { gh with q := gh.q ++ [v], pend := gh.pend.set i (some v) } := by
  have hI := hG.inv
  obtain ⟨hslot, _⟩ := pushCAS_slot g hI (List.mem_of_getElem? hth) hpc hT
  have hHT := hI.head_le_tail
  have hql := hG.qlen
  have hilt : i < gh.pend.length := by
    rw [hG.pend_len]
    by_cases h : i < s.threads.length
    · exact h
    · rw [List.getElem?_eq_none (Nat.le_of_not_lt h)] at hth; simp at hth
  refine ⟨hI', by simp only [List.length_append, List.length_singleton]; omega,
    by simp only [List.length_set]; exact hG.pend_len, ?_, ?_⟩
  · intro p hp1 hp2 hsq
    simp only at hp1 hp2 hsq ⊢
    have hne : p ≠ pos := by
      intro e; subst e
      rw [hslot] at hsq
      have := Option.some.inj hsq
      omega
    rw [List.getElem?_append_left (by omega)]
    exact hG.stored p hp1 (by omega) hsq
  · simp only
    refine locals_set hG.locals ?_ ?_
    · simp only [GOk]
      have : pos - s.head = gh.q.length := by omega
      rw [this, List.getElem?_concat_length, List.getElem?_set_self hilt]
      exact ⟨rfl, rfl⟩
    · intro j b hji hb hgb
      have hbo := hI.locals b (List.mem_of_getElem? hb)
      refine hgb.transfer ?_ (fun _ _ => rfl) (List.getElem?_set_ne (fun e => hji e.symm))
      intro p hp
      have := hbo.push_at hp
      rw [List.getElem?_append_left (by omega)]

theorem ginv_popCAS {c : Cfg} (g : Ghost c) {s : State} {gh : LGhost} (hG : GInv c s gh) {i : Nat}
    {th : Thread} (hth : s.threads[i]? = some th) {pos seq : Nat}
    (hpc : th.pc = .popCAS pos seq) (hH : s.head = pos)
    (hI' : Inv c { s with head := pos + 1, threads := s.threads.set i { th with pc := .popRead pos seq } }) :
    GInv c { s with head := pos + 1, threads := s.threads.set i { th with pc := .popRead pos seq } }
      { gh with q := gh.q.tail, pend := gh.pend.set i gh.q.head? } := by
  have hI := hG.inv
  obtain ⟨hslot, hlt⟩ := popCAS_slot g hI (List.mem_of_getElem? hth) hpc hH
  have hHT := hI.head_le_tail
  have hql := hG.qlen
  have hilt : i < gh.pend.length := by
    rw [hG.pend_len]
    by_cases h : i < s.threads.length
    · exact h
    · rw [List.getElem?_eq_none (Nat.le_of_not_lt h)] at hth; simp at hth
  refine ⟨hI', by simp only [List.length_tail]; omega,
    by simp only [List.length_set]; exact hG.pend_len, ?_, ?_⟩
  · intro p hp1 hp2 hsq
    simp only at hp1 hp2 hsq ⊢
    rw [List.getElem?_tail]
    have : p - (pos + 1) + 1 = p - s.head := by omega
    rw [this]
    exact hG.stored p (by omega) hp2 hsq
  · simp only
    refine locals_set hG.locals ?_ ?_
    · simp only [GOk]
      rw [List.getElem?_set_self hilt, List.head?_eq_getElem?]
      have := hG.stored pos (by omega) hlt hslot
      rw [hH, Nat.sub_self] at this
      rw [this]
    · intro j b hji hb hgb
      have hbo := hI.locals b (List.mem_of_getElem? hb)
      refine hgb.transfer ?_ (fun _ _ => rfl) (List.getElem?_set_ne (fun e => hji e.symm))
      intro p hp
      have ⟨h1, _, h3⟩ := hbo.push_at hp
      have hne : p ≠ pos := by
        intro e; subst e
        rw [hslot] at h3
        have := Option.some.inj h3
        omega
      rw [List.getElem?_tail]
      have : p - (pos + 1) + 1 = p - s.head := by omega
      rw [this]

theorem ginv_pushWrite {c : Cfg} (g : Ghost c) {s : State} {gh : LGhost} (hG : GInv c s gh) {i : Nat}
    {th : Thread} (hth : s.threads[i]? = some th) {v : Int} {pos seq : Nat}
    (hpc : th.pc = .pushWrite v pos seq) {sl : Slot} (hsl : s.slots[pos % c.cap]? = some sl)
    (hI' : Inv c { s with slots := s.slots.set (pos % c.cap) { sl with val := v },
                          threads := s.threads.set i { th with pc := .pushStore pos seq } }) :
    GInv c { s with slots := s.slots.set (pos % c.cap) { sl with val := v },
                    threads := s.threads.set i { th with pc := .pushStore pos seq } } gh := by
  have hI := hG.inv
  have hloc := hI.locals th (List.mem_of_getElem? hth)
  simp only [hpc, PcOk] at hloc
  obtain ⟨_, _, _, hf⟩ := hloc
  have hgo := hG.locals i th hth
  simp only [hpc, GOk] at hgo
  refine ⟨hI', hG.qlen, by simp only [List.length_set]; exact hG.pend_len, ?_, ?_⟩
  · intro p hp1 hp2 hsq
    simp only at hp1 hp2 hsq ⊢
    rw [sq_set_val hsl] at hsq
    have hne : p % c.cap ≠ pos % c.cap := by
      intro e
      rw [e, hf] at hsq
      have := Option.some.inj hsq
      subst this
      exact mod_succ_ne g.cap2 p e
    rw [vl_set_val hsl, if_neg hne]
    exact hG.stored p hp1 hp2 hsq
  · simp only
    refine locals_set hG.locals ?_ ?_
    · simp only [GOk]
      rw [vl_set_val hsl, if_pos rfl]
      exact hgo
    · intro j b hji hb hgb
      refine hgb.transfer (fun _ _ => rfl) ?_ rfl
      intro p hp
      have hne := owner_excl g hI hji hb hth hp (p2 := pos) (Or.inl (by simp [hpc, pushAt]))
      rw [vl_set_val hsl, if_neg hne]

theorem ginv_popClear {c : Cfg} (g : Ghost c) {s : State} {gh : LGhost} (hG : GInv c s gh) {i : Nat}
    {th : Thread} (hth : s.threads[i]? = some th) {v : Int} {pos seq : Nat}
    (hpc : th.pc = .popClear pos seq v) {sl : Slot} (hsl : s.slots[pos % c.cap]? = some sl)
    (hI' : Inv c { s with slots := s.slots.set (pos % c.cap) { sl with val := 0 },
                          threads := s.threads.set i { th with pc := .popStore pos seq v } }) :
    GInv c { s with slots := s.slots.set (pos % c.cap) { sl with val := 0 },
                    threads := s.threads.set i { th with pc := .popStore pos seq v } } gh := by
  have hI := hG.inv
  have hloc := hI.locals th (List.mem_of_getElem? hth)
  simp only [hpc, PcOk] at hloc
  obtain ⟨_, hpH, hf⟩ := hloc
  have hgo := hG.locals i th hth
  simp only [hpc, GOk] at hgo
  refine ⟨hI', hG.qlen, by simp only [List.length_set]; exact hG.pend_len, ?_, ?_⟩
  · intro p hp1 hp2 hsq
    simp only at hp1 hp2 hsq ⊢
    rw [sq_set_val hsl] at hsq
    have hne : p % c.cap ≠ pos % c.cap := by
      intro e
      rw [e, hf] at hsq
      have := Option.some.inj hsq
      omega
    rw [vl_set_val hsl, if_neg hne]
    exact hG.stored p hp1 hp2 hsq
  · simp only
    refine locals_set hG.locals ?_ ?_
    · simp only [GOk]
      exact hgo
    · intro j b hji hb hgb
      refine hgb.transfer (fun _ _ => rfl) ?_ rfl
      intro p hp
      have hne := owner_excl g hI hji hb hth hp (p2 := pos) (Or.inr (by simp [hpc, popAt]))
      rw [vl_set_val hsl, if_neg hne]

theorem ginv_pushStore {c : Cfg} (_g : Ghost c) {s : State} {gh : LGhost} (hG : GInv c s gh) {i : Nat}
    {th : Thread} (hth : s.threads[i]? = some th) {pos seq : Nat}
    (hpc : th.pc = .pushStore pos seq) {sl : Slot} (hsl : s.slots[pos % c.cap]? = some sl)
    (hI' : Inv c { s with slots := s.slots.set (pos % c.cap) { sl with seq := seq + 1 },
                          threads := s.threads.set i th.finish }) :
    GInv c { s with slots := s.slots.set (pos % c.cap) { sl with seq := seq + 1 },
                    threads := s.threads.set i th.finish } gh := by
  have hI := hG.inv
  have hloc := hI.locals th (List.mem_of_getElem? hth)
  simp only [hpc, PcOk] at hloc
  obtain ⟨hseq, _, _, hf⟩ := hloc
  have hgo := hG.locals i th hth
  simp only [hpc, GOk] at hgo
  refine ⟨hI', hG.qlen, by simp only [List.length_set]; exact hG.pend_len, ?_, ?_⟩
  · intro p hp1 hp2 hsq
    simp only at hp1 hp2 hsq ⊢
    rw [sq_set_seq hsl] at hsq
    rw [vl_set_seq hsl]
    by_cases e : p % c.cap = pos % c.cap
    · rw [if_pos e] at hsq
      have hpe : p = pos := by have := Option.some.inj hsq; omega
      subst hpe
      exact hgo.1
    · rw [if_neg e] at hsq
      exact hG.stored p hp1 hp2 hsq
  · simp only
    refine locals_set hG.locals (GOk_finish _ _ _ _ _ _ _) ?_
    intro j b _ _ hgb
    exact hgb.transfer (fun _ _ => rfl) (fun _ _ => vl_set_seq hsl _ _) rfl

theorem ginv_popStore {c : Cfg} (g : Ghost c) {s : State} {gh : LGhost} (hG : GInv c s gh) {i : Nat}
    {th : Thread} (hth : s.threads[i]? = some th) {pos seq : Nat} {v : Int}
    (hpc : th.pc = .popStore pos seq v) {sl : Slot} (hsl : s.slots[pos % c.cap]? = some sl)
    (hI' : Inv c { s with slots := s.slots.set (pos % c.cap) { sl with seq := seq + c.mask },
                          threads := s.threads.set i th.finish }) :
    GInv c { s with slots := s.slots.set (pos % c.cap) { sl with seq := seq + c.mask },
                    threads := s.threads.set i th.finish } gh := by
  have hI := hG.inv
  have hloc := hI.locals th (List.mem_of_getElem? hth)
  simp only [hpc, PcOk] at hloc
  obtain ⟨hseq, _, hf⟩ := hloc
  have hmask := g.mask
  refine ⟨hI', hG.qlen, by simp only [List.length_set]; exact hG.pend_len, ?_, ?_⟩
  · intro p hp1 hp2 hsq
    simp only at hp1 hp2 hsq ⊢
    rw [sq_set_seq hsl] at hsq
    rw [vl_set_seq hsl]
    by_cases e : p % c.cap = pos % c.cap
    · exfalso
      rw [if_pos e] at hsq
      have hpe : p + 1 = pos + c.cap := by have := Option.some.inj hsq; omega
      have : (p + 1) % c.cap = pos % c.cap := by rw [hpe, Nat.add_mod_right]
      exact mod_succ_ne g.cap2 p (by rw [this, e])
    · rw [if_neg e] at hsq
      exact hG.stored p hp1 hp2 hsq
  · simp only
    refine locals_set hG.locals (GOk_finish _ _ _ _ _ _ _) ?_
    intro j b _ _ hgb
    exact hgb.transfer (fun _ _ => rfl) (fun _ _ => vl_set_seq hsl _ _) rfl

end Golib.C01
