/-
C17: SnakeToCamelCase / CamelCaseToSnake on ASCII strings equal simple structural
functions (`snakeSpec`, `camelSpec`), and the round trip on the snake_case grammar
`[a-z][a-z0-9]*(_[a-z][a-z0-9]*)*`.
-/
import Golib.Proof.C17Strs
import Golib.Model.C17Gram

namespace Golib.C17
open Golib.Utf8

/-! ### Functional versions of the two loops on ASCII bytes -/

/-- `SnakeToCamelCase` on ASCII bytes; `pos` = "the cursor is not at byte 0". -/
def snakeSpec : List Nat → Bool → Bool → List Nat
  | [], _, _ => []
  | b :: t, true, _ => (if 97 ≤ b ∧ b ≤ 122 then b - 32 else b) :: snakeSpec t false true
  | b :: t, false, pos =>
    if pos = true ∧ b = 95 then snakeSpec t true true else b :: snakeSpec t false true

/-- `CamelCaseToSnake` on ASCII bytes. -/
def camelSpec : List Nat → Bool → List Nat
  | [], _ => []
  | b :: t, pos =>
    if 65 ≤ b ∧ b ≤ 90 then (if pos = true then [95, b + 32] else [b + 32]) ++ camelSpec t true
    else b :: camelSpec t true

theorem slice_prefix (pre rest : List Nat) (start : Nat) (h : start ≤ pre.length) :
    slice (pre ++ rest) start pre.length = some (pre.drop start) := by
  rw [slice_le _ _ _ h (by simp)]
  congr 1
  rw [List.drop_append_of_le_length h, List.take_append_of_le_length (by simp)]
  rw [List.take_of_length_le (by simp)]

theorem flush_prefix (pre rest buf : List Nat) (start : Nat) (h : start ≤ pre.length) :
    flush (pre ++ rest) buf start pre.length = some (buf ++ pre.drop start) := by
  unfold flush
  split
  · rw [slice_prefix pre rest start h]; rfl
  · have : pre.drop start = [] := List.drop_eq_nil_of_le (by omega)
    rw [this]; simp

theorem snakeLoop_spec (str : List Nat) :
    ∀ (rest pre : List Nat) (fuel start : Nat) (fu : Bool) (buf : List Nat),
      str = pre ++ rest → (∀ b ∈ rest, b < 0x80) → start ≤ pre.length → (buf = [] → start = 0) →
      rest.length < fuel →
      snakeLoop str fuel pre.length start fu buf
        = some (buf ++ pre.drop start ++ snakeSpec rest fu (decide (0 < pre.length))) := by
  intro rest
  induction rest with
  | nil =>
    intro pre fuel start fu buf hs _ hst hb hf
    obtain ⟨f, rfl⟩ : ∃ f, fuel = f + 1 := ⟨fuel - 1, by omega⟩
    simp only [List.append_nil] at hs
    subst hs
    rw [snakeLoop, if_neg (by omega)]
    unfold finish
    by_cases hbe : buf = []
    · subst hbe; rw [hb rfl]; simp [snakeSpec]
    · rw [if_neg (by simpa using hbe)]
      split
      · rw [sliceFrom_le _ _ hst]; simp [snakeSpec]
      · have : str.drop start = [] := List.drop_eq_nil_of_le (by omega)
        simp [snakeSpec, this]
  | cons b t ih =>
    intro pre fuel start fu buf hs hascii hst hb hf
    obtain ⟨f, rfl⟩ : ∃ f, fuel = f + 1 := ⟨fuel - 1, by omega⟩
    have hb80 : b < 0x80 := hascii b (by simp)
    have hlt : pre.length < str.length := by rw [hs]; simp
    have hget : str[pre.length]? = some b := by rw [hs]; simp
    have hs' : str = (pre ++ [b]) ++ t := by rw [hs]; simp
    have hl' : (pre ++ [b]).length = pre.length + 1 := by simp
    have hasc' : ∀ x ∈ t, x < 0x80 := fun x hx => hascii x (by simp [hx])
    have hfl : flush str buf start pre.length = some (buf ++ pre.drop start) := by
      rw [hs]; exact flush_prefix pre (b :: t) buf start hst
    have hdrop : (pre ++ [b]).drop start = pre.drop start ++ [b] := by
      rw [List.drop_append_of_le_length hst]
    simp only [List.length_cons] at hf
    rw [snakeLoop, if_pos hlt, hget]
    simp only []
    rw [if_pos hb80]
    cases fu with
    | true =>
      simp only [if_true]
      by_cases hlow : 97 ≤ b ∧ b ≤ 122
      · rw [if_pos hlow, hfl]
        simp only []
        rw [← hl', ih (pre ++ [b]) f _ false _ hs' hasc' (Nat.le_refl _) (by simp) (by omega)]
        simp [snakeSpec, hlow, List.append_assoc]
      · rw [if_neg hlow, ← hl', ih (pre ++ [b]) f start false buf hs' hasc' (by omega) hb (by omega)]
        simp [snakeSpec, hlow, hdrop, List.append_assoc]
    | false =>
      simp only [Bool.false_eq_true, if_false]
      by_cases hund : 0 < pre.length ∧ b = 95
      · rw [if_pos hund, hfl]
        simp only []
        have hne : buf ++ pre.drop start ≠ [] := by
          intro h
          have h1 := (List.append_eq_nil_iff.mp h)
          have := hb h1.1
          subst this
          have : pre = [] := by simpa using h1.2
          rw [this] at hund; simp at hund
        rw [← hl', ih (pre ++ [b]) f _ true _ hs' hasc' (Nat.le_refl _) (fun h => absurd h hne) (by omega)]
        simp [snakeSpec, hund, List.append_assoc]
      · rw [if_neg hund, ← hl', ih (pre ++ [b]) f start false buf hs' hasc' (by omega) hb (by omega)]
        have : ¬ (decide (0 < pre.length) = true ∧ b = 95) := by simpa using hund
        rw [snakeSpec, if_neg this]
        simp [hdrop, List.append_assoc]

theorem snakeToCamel_ascii (x : List Nat) (fu : Bool) (h : ∀ b ∈ x, b < 0x80) :
    snakeToCamel x fu = some (snakeSpec x fu false) := by
  unfold snakeToCamel
  have := snakeLoop_spec x x [] (x.length + 1) 0 fu [] (by simp) h (by simp) (fun _ => rfl) (by omega)
  simpa using this

theorem camelLoop_spec (str : List Nat) :
    ∀ (rest pre : List Nat) (fuel start : Nat) (buf : List Nat),
      str = pre ++ rest → (∀ b ∈ rest, b < 0x80) → start ≤ pre.length → (buf = [] → start = 0) →
      rest.length < fuel →
      camelLoop str fuel pre.length start buf
        = some (buf ++ pre.drop start ++ camelSpec rest (decide (0 < pre.length))) := by
  intro rest
  induction rest with
  | nil =>
    intro pre fuel start buf hs _ hst hb hf
    obtain ⟨f, rfl⟩ : ∃ f, fuel = f + 1 := ⟨fuel - 1, by omega⟩
    simp only [List.append_nil] at hs
    subst hs
    rw [camelLoop, if_neg (by omega)]
    unfold finish
    by_cases hbe : buf = []
    · subst hbe; rw [hb rfl]; simp [camelSpec]
    · rw [if_neg (by simpa using hbe)]
      split
      · rw [sliceFrom_le _ _ hst]; simp [camelSpec]
      · have : str.drop start = [] := List.drop_eq_nil_of_le (by omega)
        simp [camelSpec, this]
  | cons b t ih =>
    intro pre fuel start buf hs hascii hst hb hf
    obtain ⟨f, rfl⟩ : ∃ f, fuel = f + 1 := ⟨fuel - 1, by omega⟩
    have hb80 : b < 0x80 := hascii b (by simp)
    have hlt : pre.length < str.length := by rw [hs]; simp
    have hget : str[pre.length]? = some b := by rw [hs]; simp
    have hs' : str = (pre ++ [b]) ++ t := by rw [hs]; simp
    have hl' : (pre ++ [b]).length = pre.length + 1 := by simp
    have hasc' : ∀ x ∈ t, x < 0x80 := fun x hx => hascii x (by simp [hx])
    have hfl : flush str buf start pre.length = some (buf ++ pre.drop start) := by
      rw [hs]; exact flush_prefix pre (b :: t) buf start hst
    have hdrop : (pre ++ [b]).drop start = pre.drop start ++ [b] := by
      rw [List.drop_append_of_le_length hst]
    simp only [List.length_cons] at hf
    rw [camelLoop, if_pos hlt, hget]
    simp only []
    rw [if_pos hb80]
    by_cases hup : 65 ≤ b ∧ b ≤ 90
    · rw [if_pos hup, hfl]
      simp only []
      rw [← hl', ih (pre ++ [b]) f _ _ hs' hasc' (Nat.le_refl _) (by simp) (by omega)]
      by_cases hp : 0 < pre.length
      · simp [camelSpec, hup, hp, List.append_assoc]
      · simp [camelSpec, hup, hp, List.append_assoc]
    · rw [if_neg hup, ← hl', ih (pre ++ [b]) f start buf hs' hasc' (by omega) hb (by omega)]
      simp [camelSpec, hup, hdrop, List.append_assoc]

theorem camelToSnake_ascii (x : List Nat) (h : ∀ b ∈ x, b < 0x80) :
    camelToSnake x = some (camelSpec x false) := by
  unfold camelToSnake
  have := camelLoop_spec x x [] (x.length + 1) 0 [] (by simp) h (by simp) (fun _ => rfl) (by omega)
  simpa using this

/-! ### Round trip on the grammar -/

theorem snakeSpec_ascii : ∀ (t : List Nat) (fu pos : Bool), (∀ b ∈ t, b < 0x80) →
    ∀ b ∈ snakeSpec t fu pos, b < 0x80 := by
  intro t
  induction t with
  | nil => intro fu pos _ b hb; simp [snakeSpec] at hb
  | cons c t ih =>
    intro fu pos h b hb
    have hc := h c (by simp)
    have ht : ∀ x ∈ t, x < 0x80 := fun x hx => h x (by simp [hx])
    cases fu with
    | true =>
      rw [snakeSpec] at hb
      rcases List.mem_cons.mp hb with hb | hb
      · subst hb; split <;> omega
      · exact ih _ _ ht b hb
    | false =>
      rw [snakeSpec] at hb
      split at hb
      · exact ih _ _ ht b hb
      · rcases List.mem_cons.mp hb with hb | hb
        · subst hb; exact hc
        · exact ih _ _ ht b hb

theorem gram_ascii : ∀ (t : List Nat) (st : Bool), gram st t = true → ∀ b ∈ t, b < 0x80 := by
  intro t
  induction t with
  | nil => intro _ _ b hb; simp at hb
  | cons c t ih =>
    intro st h x hx
    cases st with
    | true =>
      simp only [gram, Bool.and_eq_true] at h
      rcases List.mem_cons.mp hx with hx | hx
      · subst hx; have := h.1; simp [isLow] at this; omega
      · exact ih _ h.2 x hx
    | false =>
      rw [gram] at h
      split at h
      · rename_i hld
        rcases List.mem_cons.mp hx with hx | hx
        · subst hx; simp [isLowDig, isLow] at hld; omega
        · exact ih _ h x hx
      · simp only [Bool.and_eq_true, beq_iff_eq] at h
        rcases List.mem_cons.mp hx with hx | hx
        · subst hx; omega
        · exact ih _ h.2 x hx

/-- Past byte 0 the two functional converters are inverse on the grammar: in state
"start of a word" (the snake side has just consumed `_` and will upper-case) the camel
side re-emits the `_`. -/
theorem camelSpec_snakeSpec_gram : ∀ (t : List Nat) (st : Bool), gram st t = true →
    camelSpec (snakeSpec t st true) true = (if st = true then [95] else []) ++ t := by
  intro t
  induction t with
  | nil => intro st h; cases st <;> simp [gram] at h ⊢; simp [snakeSpec, camelSpec]
  | cons c t ih =>
    intro st h
    cases st with
    | true =>
      simp only [gram, Bool.and_eq_true] at h
      have hc : 97 ≤ c ∧ c ≤ 122 := by have := h.1; simp [isLow] at this; omega
      rw [snakeSpec, if_pos hc, camelSpec, if_pos (by omega), ih false h.2]
      simp; omega
    | false =>
      rw [gram] at h
      split at h
      · rename_i hld
        have hb : (48 ≤ c ∧ c ≤ 57) ∨ (97 ≤ c ∧ c ≤ 122) := by
          simp [isLowDig, isLow] at hld; omega
        rw [snakeSpec, if_neg (by omega), camelSpec, if_neg (by omega), ih false h]
        simp
      · simp only [Bool.and_eq_true, beq_iff_eq] at h
        rw [snakeSpec, if_pos ⟨rfl, h.1⟩, ih true h.2, h.1]
        simp

theorem camelSpec_snakeSpec_ident (x : List Nat) (fu : Bool) (h : isSnakeIdent x = true) :
    camelSpec (snakeSpec x fu false) false = x := by
  cases x with
  | nil => simp [isSnakeIdent, gram] at h
  | cons b t =>
    simp only [isSnakeIdent, gram, Bool.and_eq_true] at h
    have hb : 97 ≤ b ∧ b ≤ 122 := by have := h.1; simp [isLow] at this; omega
    cases fu with
    | true =>
      rw [snakeSpec, if_pos hb, camelSpec, if_pos (by omega), camelSpec_snakeSpec_gram t false h.2]
      simp; omega
    | false =>
      rw [snakeSpec, if_neg (by simp), camelSpec, if_neg (by omega), camelSpec_snakeSpec_gram t false h.2]
      simp

theorem ident_ascii (x : List Nat) (h : isSnakeIdent x = true) : ∀ b ∈ x, b < 0x80 :=
  gram_ascii x true h

theorem roundtrip_ident (x : List Nat) (fu : Bool) (h : isSnakeIdent x = true) :
    (snakeToCamel x fu).bind camelToSnake = some x := by
  have ha := ident_ascii x h
  rw [snakeToCamel_ascii x fu ha]
  simp only [Option.bind_some]
  rw [camelToSnake_ascii _ (snakeSpec_ascii x fu false ha), camelSpec_snakeSpec_ident x fu h]

end Golib.C17
