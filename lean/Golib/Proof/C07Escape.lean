/-
C07: what the functional parsers do on one well-formed escape at the head of the input,
and on a backslash-free prefix (used by the round trips and by `c07_embedded_escape`).
-/
import Golib.Proof.C07Literal
import Golib.Proof.C07Digits

namespace Golib.C07
open Golib

theorem win1 (a : Nat) (X r : Bytes) (k : Nat) (h : X.length = k) :
    ((a :: (X ++ r)).take (k + 1)).drop 1 = X ∧ (a :: (X ++ r)).drop (k + 1) = r := by
  subst h; simp

theorem win2 (a b : Nat) (X r : Bytes) (k : Nat) (h : X.length = k) :
    ((a :: b :: (X ++ r)).take (k + 2)).drop 2 = X ∧ (a :: b :: (X ++ r)).drop (k + 2) = r := by
  subst h; simp

theorem octal_step {X r : Bytes} {v : Nat} (hl : X.length = 3)
    (hp : parseUint X 8 8 = (v, 3, true)) :
    parseFun octalDec (92 :: X ++ r) = [v % 256] ++ parseFun octalDec r := by
  rw [parseFun]
  obtain ⟨hw, hd⟩ := win1 92 X r 3 hl
  have hlen : ¬ (92 :: (X ++ r)).length < 4 := by simp [hl]
  simp only [List.cons_append, reduceCtorEq, dite_false, octalDec]
  simp only [hlen, if_false, List.getElem?_cons_zero, ne_eq, not_true_eq_false, hw, hp]
  simp [hd]

theorem hex_step {X r : Bytes} {v : Nat} (hl : X.length = 2)
    (hp : parseUint X 16 8 = (v, 2, true)) :
    parseFun hexDec (92 :: 120 :: X ++ r) = [v % 256] ++ parseFun hexDec r := by
  rw [parseFun]
  obtain ⟨hw, hd⟩ := win2 92 120 X r 2 hl
  have hlen : ¬ (92 :: 120 :: (X ++ r)).length < 4 := by simp [hl]
  simp only [List.cons_append, reduceCtorEq, dite_false, hexDec]
  simp only [hlen, if_false, List.getElem?_cons_zero, List.getElem?_cons_succ, ne_eq,
    not_true_eq_false, hw, hp]
  simp [hd]

theorem encodeRune_ascii {v : Nat} (h : v < 0x80) : Utf8.encodeRune (v : Int) = [v] := by
  unfold Utf8.encodeRune
  have h1 : ¬ ((v : Int) < 0) := by omega
  have h2 : (v : Int) < 0x80 := by omega
  simp [h1, h2]

theorem unicode_step {X r : Bytes} {v : Nat} (hl : X.length = 8)
    (hp : parseUint X 16 32 = (v, 8, true)) (hv : v ≤ 0x10FFFF) :
    parseFun unicodeDec (92 :: 85 :: X ++ r) = Utf8.encodeRune (v : Int) ++ parseFun unicodeDec r := by
  rw [parseFun]
  obtain ⟨hw, hd⟩ := win2 92 85 X r 8 hl
  have hlen : ¬ (92 :: 85 :: (X ++ r)).length < 10 := by simp [hl]
  have hv' : ¬ v > 0x10FFFF := by omega
  simp only [List.cons_append, reduceCtorEq, dite_false, unicodeDec]
  simp only [hlen, if_false, List.getElem?_cons_zero, List.getElem?_cons_succ, ne_eq,
    not_true_eq_false, hw, hp, hv']
  simp only [Nat.zero_lt_succ, dite_true, hd]
  split
  · rename_i h; rw [encodeRune_ascii h, Nat.mod_eq_of_lt (by omega)]
  · rfl

theorem unicode_step_skip {X r : Bytes} {v : Nat} (hl : X.length = 8)
    (hp : parseUint X 16 32 = (v, 8, true)) (hv : v > 0x10FFFF) :
    parseFun unicodeDec (92 :: 85 :: X ++ r) = 92 :: 85 :: X ++ parseFun unicodeDec r := by
  rw [parseFun]
  obtain ⟨hw, hd⟩ := win2 92 85 X r 8 hl
  have hlen : ¬ (92 :: 85 :: (X ++ r)).length < 10 := by simp [hl]
  simp only [List.cons_append, reduceCtorEq, dite_false, unicodeDec]
  simp only [hlen, if_false, List.getElem?_cons_zero, List.getElem?_cons_succ, ne_eq,
    not_true_eq_false, hw, hp, hv]
  simp only [if_true, Nat.zero_lt_succ, dite_true, hd]
  have : (92 :: 85 :: (X ++ r)).take 10 = 92 :: 85 :: X := by
    have : (92 :: 85 :: (X ++ r)).take (X.length + 2) = 92 :: 85 :: X := by simp
    rw [hl] at this; exact this
  rw [this]; rfl

/-- A non-surrogate `\uXXXX`. -/
theorem utf16_step1 {X r : Bytes} {v : Nat} (hl : X.length = 4)
    (hp : parseUint X 16 16 = (v, 4, true)) (hv : v < 0xd800 ∨ v ≥ 0xe000) :
    parseFun utf16DecF (92 :: 117 :: X ++ r) = Utf8.encodeRune (v : Int) ++ parseFun utf16DecF r := by
  rw [parseFun]
  obtain ⟨hw, hd⟩ := win2 92 117 X r 4 hl
  have hlen : ¬ (92 :: 117 :: (X ++ r)).length < 6 := by simp [hl]
  simp only [List.cons_append, reduceCtorEq, dite_false, utf16DecF]
  simp only [hlen, if_false, List.getElem?_cons_zero, List.getElem?_cons_succ, ne_eq,
    not_true_eq_false, hw, hp, hv]
  simp [hd]

/-- A surrogate pair `\uD8xx\uDCxx`. -/
theorem utf16_step2 {X Y r : Bytes} {v w : Nat} (hl : X.length = 4) (hl2 : Y.length = 4)
    (hp : parseUint X 16 16 = (v, 4, true)) (hv : 0xd800 ≤ v ∧ v < 0xdc00)
    (hq : parseUint Y 16 16 = (w, 4, true)) (hw' : 0xdc00 ≤ w ∧ w < 0xe000) :
    parseFun utf16DecF (92 :: 117 :: X ++ (92 :: 117 :: Y ++ r)) =
      Utf8.encodeRune (utf16Dec v w) ++ parseFun utf16DecF r := by
  rw [parseFun]
  obtain ⟨hw, hd⟩ := win2 92 117 X (92 :: 117 :: Y ++ r) 4 hl
  obtain ⟨hw2, hd2⟩ := win2 92 117 Y r 4 hl2
  have hlen : ¬ (92 :: 117 :: (X ++ (92 :: 117 :: Y ++ r))).length < 6 := by simp [hl]
  have hlen2 : ¬ (92 :: 117 :: (Y ++ r)).length < 6 := by simp [hl2]
  have hns : ¬ (v < 0xd800 ∨ v ≥ 0xe000) := by omega
  have hhi : v ≥ 0xd800 ∧ v < 0xdc00 := hv
  have hlo : w ≥ 0xdc00 ∧ w < 0xe000 := hw'
  simp only [List.cons_append, reduceCtorEq, dite_false, utf16DecF]
  simp only [List.cons_append] at hlen hw hd
  simp only [hlen, if_false, List.getElem?_cons_zero, List.getElem?_cons_succ, ne_eq,
    not_true_eq_false, hw, hp, hns, hhi, and_self, if_true]
  have e6 : (92 :: 117 :: (X ++ 92 :: 117 :: (Y ++ r))).drop 6 = 92 :: 117 :: (Y ++ r) := hd
  simp only [e6, utf16Dec2, hlen2, if_false, List.getElem?_cons_zero, List.getElem?_cons_succ,
    ne_eq, not_true_eq_false, hw2, hq, hlo, and_self, if_true]
  have e12 : (92 :: 117 :: (X ++ 92 :: 117 :: (Y ++ r))).drop 12 = r := by
    have : (92 :: 117 :: (X ++ 92 :: 117 :: (Y ++ r))).drop 12 =
        ((92 :: 117 :: (X ++ 92 :: 117 :: (Y ++ r))).drop 6).drop 6 := by rw [List.drop_drop]
    rw [this, e6]; exact hd2
  simp [e12]

/-- Width of the shortest escape the loop looks for. -/
def LitSpec (dec : Bytes → Dec) (w : Nat) : Prop :=
  (∀ t : Bytes, t.length < w → dec t = .stop) ∧
  (∀ t : Bytes, ¬ t.length < w → t[0]? ≠ some 92 → dec t = .skip 1)

theorem parseFun_short {dec : Bytes → Dec} {w : Nat} (h : LitSpec dec w) (t : Bytes)
    (ht : t.length < w) : parseFun dec t = t := by
  rw [parseFun]
  by_cases h0 : t = []
  · simp [h0]
  · simp [h0, h.1 t ht]

/-- A backslash-free prefix is copied and parsing continues behind it. -/
theorem parseFun_lit_prefix {dec : Bytes → Dec} {w : Nat} (h : LitSpec dec w) :
    ∀ (pre t : Bytes), 92 ∉ pre → parseFun dec (pre ++ t) = pre ++ parseFun dec t
  | [], t, _ => rfl
  | c :: pre, t, hp => by
    have hc : c ≠ 92 := fun e => hp (by simp [e])
    have hr : 92 ∉ pre := fun m => hp (by simp [m])
    by_cases hs : (c :: pre ++ t).length < w
    · have ht : t.length < w := by simp at hs; omega
      rw [parseFun_short h _ hs, parseFun_short h _ ht]
    · rw [parseFun]
      simp only [List.cons_append, reduceCtorEq, dite_false]
      rw [h.2 (c :: (pre ++ t)) hs (by simpa using hc)]
      simp [parseFun_lit_prefix h pre t hr]

theorem octal_litSpec : LitSpec octalDec 4 := by
  refine ⟨fun t ht => by simp [octalDec, ht], fun t ht h0 => ?_⟩
  unfold octalDec; simp [ht, h0]

theorem hex_litSpec : LitSpec hexDec 4 := by
  refine ⟨fun t ht => by simp [hexDec, ht], fun t ht h0 => ?_⟩
  unfold hexDec; simp [ht, h0]

theorem unicode_litSpec : LitSpec unicodeDec 10 := by
  refine ⟨fun t ht => by simp [unicodeDec, ht], fun t ht h0 => ?_⟩
  unfold unicodeDec; simp [ht, h0]

theorem utf16_litSpec : LitSpec utf16DecF 6 := by
  refine ⟨fun t ht => by simp [utf16DecF, ht], fun t ht h0 => ?_⟩
  unfold utf16DecF; simp [ht, h0]

end Golib.C07
