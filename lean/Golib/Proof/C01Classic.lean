/-
C01 — the classical form of linearizability: an explicit total order.
The instrumented run is extended by a clock (number of steps so far), per thread the time
`invT` of the first step of its call in flight, and the LOG of linearization points
`(t, tid, inv, event)`: time of the step, thread, invocation time of the operation it
belongs to (operations are identified by `(tid, inv)`), and `push v` / `pop v`.
The log, in its order, is the linearization: it is sorted by time, replays as a legal
sequential history of the bounded FIFO from the empty queue to the current abstract queue,
every entry lies inside the interval of its operation, and every return agrees with the
entry of the returning operation (exactly one for a true return, none for a false one).
-/
import Golib.Proof.C01Hist

namespace Golib.C01
open Golib.C01.Util

inductive LinEv where
  | push (v : Int)
  | pop (v : Int)
deriving DecidableEq, Repr

structure LinRec where
  t : Nat
  tid : Nat
  inv : Nat
  ev : LinEv
deriving DecidableEq, Repr

structure TGhost where
  clock : Nat
  invT : List Nat
  log : List LinRec
deriving Repr

/-- about to execute the first access of a call -/
def isFirst : Pc → Bool
  | .pushLoadTail _ | .popLoadHead | .lenLoadTail | .emptyLoadHead | .fullLoadTail => true
  | _ => false

def TGhost.invOf (tg : TGhost) (i : Nat) : Nat :=
  match tg.invT[i]? with
  | some a => a
  | none => 0

/-- clock / invocation time / log update for one step of thread `i` (pre-state `s`, `gh`) -/
def tstep (s : State) (gh : LGhost) (tg : TGhost) (i : Nat) : TGhost :=
  match s.threads[i]? with
  | none => { tg with clock := tg.clock + 1 }
  | some th =>
    match th.pc with
    | .pushCAS v pos _ =>
      if s.tail = pos then
        { tg with clock := tg.clock + 1, log := tg.log ++ [⟨tg.clock, i, tg.invOf i, .push v⟩] }
      else { tg with clock := tg.clock + 1 }
    | .popCAS pos _ =>
      if s.head = pos then
        match gh.q with
        | x :: _ => { tg with clock := tg.clock + 1, log := tg.log ++ [⟨tg.clock, i, tg.invOf i, .pop x⟩] }
        | [] => { tg with clock := tg.clock + 1 }
      else { tg with clock := tg.clock + 1 }
    | pc =>
      if isFirst pc then { tg with clock := tg.clock + 1, invT := tg.invT.set i tg.clock }
      else { tg with clock := tg.clock + 1 }

/-- instrumented run with clock and log -/
def trun (c : Cfg) : State → LGhost → TGhost → List Nat → State × LGhost × TGhost
  | s, g, tg, [] => (s, g, tg)
  | s, g, tg, i :: σ => trun c (step c s i).1 (gfin (step c s i).2 (gstep s g i)) (tstep s g tg i) σ

theorem trun_fst (c : Cfg) (s : State) (g : LGhost) (tg : TGhost) (σ : List Nat) :
    ((trun c s g tg σ).1, (trun c s g tg σ).2.1) = lrun c s g σ := by
  induction σ generalizing s g tg with
  | nil => rfl
  | cons i σ ih => simp only [trun, lrun]; exact ih _ _ _

def tinit (progs : List (List Call)) : TGhost := { clock := 0, invT := progs.map fun _ => 0, log := [] }

/-! ### replaying a log on the sequential bounded queue -/

def bqApply (cap : Nat) (q : List Int) : LinEv → Option (List Int)
  | .push v => bqPush cap q v
  | .pop v => match q with
    | x :: r => if x = v then some r else none
    | [] => none

def bqRun (cap : Nat) : List Int → List LinEv → Option (List Int)
  | q, [] => some q
  | q, e :: es => match bqApply cap q e with
    | some q' => bqRun cap q' es
    | none => none

theorem bqRun_snoc (cap : Nat) (q0 : List Int) (es : List LinEv) (e : LinEv) {q q' : List Int}
    (h : bqRun cap q0 es = some q) (h' : bqApply cap q e = some q') :
    bqRun cap q0 (es ++ [e]) = some q' := by
  induction es generalizing q0 with
  | nil =>
    simp only [bqRun] at h
    obtain rfl := Option.some.inj h
    simp [bqRun, h']
  | cons a es ih =>
    simp only [List.cons_append, bqRun] at h ⊢
    cases ha : bqApply cap q0 a with
    | none => rw [ha] at h; simp at h
    | some q1 =>
      rw [ha] at h
      simp only [ha]
      exact ih q1 h

/-! ### the invariant -/

/-- no log entry belongs to the operation of thread `i` invoked at `a` (all are older) -/
def NoEntry (log : List LinRec) (i a : Nat) : Prop := ∀ r ∈ log, r.tid = i → r.inv < a

def HasEntry (log : List LinRec) (i a : Nat) (ev : LinEv) : Prop :=
  ∃ r ∈ log, r.tid = i ∧ r.inv = a ∧ r.ev = ev ∧ a ≤ r.t

/-- what the log says about the operation in flight of thread `i` -/
def TOk (pend : List (Option Int)) (tg : TGhost) (i : Nat) : Pc → Prop
  | .pushLoadSeq _ _ => tg.invOf i < tg.clock ∧ NoEntry tg.log i (tg.invOf i)
  | .pushCAS _ _ _ => tg.invOf i < tg.clock ∧ NoEntry tg.log i (tg.invOf i)
  | .popLoadSeq _ => tg.invOf i < tg.clock ∧ NoEntry tg.log i (tg.invOf i)
  | .popCAS _ _ => tg.invOf i < tg.clock ∧ NoEntry tg.log i (tg.invOf i)
  | .lenLoadHead _ => tg.invOf i < tg.clock ∧ NoEntry tg.log i (tg.invOf i)
  | .emptyLoadTail _ => tg.invOf i < tg.clock ∧ NoEntry tg.log i (tg.invOf i)
  | .fullLoadHead _ => tg.invOf i < tg.clock ∧ NoEntry tg.log i (tg.invOf i)
  | .pushWrite v _ _ => HasEntry tg.log i (tg.invOf i) (.push v)
  | .pushStore _ _ => ∃ v, pend[i]? = some (some v) ∧ HasEntry tg.log i (tg.invOf i) (.push v)
  | .popRead _ _ => ∃ x, pend[i]? = some (some x) ∧ HasEntry tg.log i (tg.invOf i) (.pop x)
  | .popClear _ _ v => HasEntry tg.log i (tg.invOf i) (.pop v)
  | .popStore _ _ v => HasEntry tg.log i (tg.invOf i) (.pop v)
  | _ => True

structure TInv (c : Cfg) (s : State) (gh : LGhost) (tg : TGhost) : Prop where
  invlen : tg.invT.length = s.threads.length
  times : ∀ r ∈ tg.log, r.inv ≤ r.t ∧ r.t < tg.clock
  sorted : tg.log.Pairwise (fun a b => a.t < b.t)
  legal : bqRun c.cap [] (tg.log.map (·.ev)) = some gh.q
  ops : ∀ i th, s.threads[i]? = some th → TOk gh.pend tg i th.pc

theorem TOk_finish (pend : List (Option Int)) (tg : TGhost) (i : Nat) (th : Thread) :
    TOk pend tg i th.finish.pc := by
  rcases finish_pc_cases th with e | ⟨v, e⟩ | e | e | e | e <;> rw [e] <;> trivial

theorem invOf_set_ne {tg : TGhost} {i j : Nat} (h : j ≠ i) (x clk : Nat) (lg : List LinRec) :
    (TGhost.mk clk (tg.invT.set i x) lg).invOf j = tg.invOf j := by
  simp only [TGhost.invOf]
  rw [List.getElem?_set_ne (fun e => h e.symm)]

/-- another thread's knowledge survives: the clock grew, its invocation time and linearization
record are unchanged, the log grew at most by an entry of a different thread -/
theorem TOk.transfer {pend pend' : List (Option Int)} {tg tg' : TGhost} {j : Nat} {pc : Pc}
    (h : TOk pend tg j pc) (hclk : tg.clock ≤ tg'.clock) (hinv : tg'.invOf j = tg.invOf j)
    (hp : pend'[j]? = pend[j]?)
    (hlog : tg'.log = tg.log ∨ ∃ r, tg'.log = tg.log ++ [r] ∧ r.tid ≠ j) : TOk pend' tg' j pc := by
  have hno : ∀ a, NoEntry tg.log j a → NoEntry tg'.log j a := by
    intro a hn
    rcases hlog with e | ⟨r, e, hr⟩
    · rw [e]; exact hn
    · rw [e]
      intro x hx hxt
      rcases List.mem_append.1 hx with hx | hx
      · exact hn x hx hxt
      · simp only [List.mem_singleton] at hx
        subst hx
        exact absurd hxt hr
  have hhas : ∀ a ev, HasEntry tg.log j a ev → HasEntry tg'.log j a ev := by
    intro a ev ⟨x, hx, h1⟩
    rcases hlog with e | ⟨r, e, _⟩
    · rw [e]; exact ⟨x, hx, h1⟩
    · rw [e]; exact ⟨x, List.mem_append_left _ hx, h1⟩
  cases pc <;> simp only [TOk] at h ⊢ <;> try trivial
  all_goals first
    | exact ⟨by rw [hinv]; omega, by rw [hinv]; exact hno _ h.2⟩
    | (rw [hinv]; exact hhas _ _ h)
    | (obtain ⟨v, h1, h2⟩ := h; exact ⟨v, by rw [hp]; exact h1, by rw [hinv]; exact hhas _ _ h2⟩)

theorem TInv.congr_g {c : Cfg} {s : State} {gh gh' : LGhost} {tg : TGhost} (h : TInv c s gh tg)
    (hq : gh'.q = gh.q) (hp : gh'.pend = gh.pend) : TInv c s gh' tg :=
  ⟨h.invlen, h.times, h.sorted, by rw [hq]; exact h.legal, by rw [hp]; exact h.ops⟩

/-- a step that only advances the clock -/
theorem tinv_clock {c : Cfg} {s : State} {gh : LGhost} {tg : TGhost} (h : TInv c s gh tg) :
    TInv c s gh { tg with clock := tg.clock + 1 } := by
  refine ⟨h.invlen, fun r hr => ⟨(h.times r hr).1, by have := (h.times r hr).2; simp only; omega⟩,
    h.sorted, h.legal, ?_⟩
  intro j th hth
  exact (h.ops j th hth).transfer (by simp only; omega) rfl rfl (Or.inl rfl)

/-- assembling the invariant after a step of thread `i` -/
theorem tinv_set {c : Cfg} {s s' : State} {gh gh' : LGhost} {tg tg' : TGhost} {i : Nat} {th' : Thread}
    (hT : TInv c s gh tg) (hthr : s'.threads = s.threads.set i th')
    (hclk : tg'.clock = tg.clock + 1)
    (hinvT : tg'.invT = tg.invT ∨ tg'.invT = tg.invT.set i tg.clock)
    (hpend : ∀ j, j ≠ i → gh'.pend[j]? = gh.pend[j]?)
    (hlog : (tg'.log = tg.log ∧ gh'.q = gh.q) ∨
      ∃ r, tg'.log = tg.log ++ [r] ∧ r.tid = i ∧ r.t = tg.clock ∧ r.inv ≤ tg.clock ∧
        bqApply c.cap gh.q r.ev = some gh'.q)
    (hown : TOk gh'.pend tg' i th'.pc) : TInv c s' gh' tg' := by
  have hinvOf : ∀ j, j ≠ i → tg'.invOf j = tg.invOf j := by
    intro j hj
    simp only [TGhost.invOf]
    rcases hinvT with e | e <;> rw [e]
    rw [List.getElem?_set_ne (fun e' => hj e'.symm)]
  refine ⟨?_, ?_, ?_, ?_, ?_⟩
  · rw [hthr, List.length_set]
    rcases hinvT with e | e <;> rw [e]
    · exact hT.invlen
    · rw [List.length_set]; exact hT.invlen
  · intro r hr
    rw [hclk]
    rcases hlog with ⟨e, _⟩ | ⟨x, e, _, h2, h3, _⟩
    · rw [e] at hr
      have := hT.times r hr
      exact ⟨this.1, by omega⟩
    · rw [e] at hr
      rcases List.mem_append.1 hr with hr | hr
      · have := hT.times r hr
        exact ⟨this.1, by omega⟩
      · simp only [List.mem_singleton] at hr
        subst hr
        exact ⟨by omega, by omega⟩
  · rcases hlog with ⟨e, _⟩ | ⟨x, e, _, h2, _, _⟩
    · rw [e]; exact hT.sorted
    · rw [e, List.pairwise_append]
      refine ⟨hT.sorted, by simp, ?_⟩
      intro a ha b hb
      simp only [List.mem_singleton] at hb
      subst hb
      have := (hT.times a ha).2
      omega
  · rcases hlog with ⟨e, eq⟩ | ⟨x, e, _, _, _, h5⟩
    · rw [e, eq]; exact hT.legal
    · rw [e, List.map_append]
      exact bqRun_snoc c.cap [] _ x.ev hT.legal h5
  · intro j b hb
    rw [hthr] at hb
    by_cases e : j = i
    · subst e
      rw [List.getElem?_set] at hb
      simp only [if_true] at hb
      split at hb
      · obtain rfl := Option.some.inj hb; exact hown
      · simp at hb
    · rw [List.getElem?_set_ne (fun e' => e e'.symm)] at hb
      refine (hT.ops j b hb).transfer (by omega) (hinvOf j e) (hpend j e) ?_
      rcases hlog with ⟨e1, _⟩ | ⟨x, e1, h1, _⟩
      · exact Or.inl e1
      · exact Or.inr ⟨x, e1, by rw [h1]; exact fun e' => e e'.symm⟩

theorem invOf_self {tg : TGhost} {i : Nat} (h : i < tg.invT.length) (x clk : Nat) (lg : List LinRec) :
    (TGhost.mk clk (tg.invT.set i x) lg).invOf i = x := by
  simp only [TGhost.invOf]
  rw [List.getElem?_set_self h]

/-- the first step of a call: the operation gets its invocation time; nothing in the log
belongs to it -/
theorem tok_first {c : Cfg} {s : State} {gh : LGhost} {tg : TGhost} (hT : TInv c s gh tg) {i : Nat}
    {th : Thread} (hth : s.threads[i]? = some th) (pend : List (Option Int)) :
    (TGhost.mk (tg.clock + 1) (tg.invT.set i tg.clock) tg.log).invOf i < tg.clock + 1 ∧
    NoEntry tg.log i ((TGhost.mk (tg.clock + 1) (tg.invT.set i tg.clock) tg.log).invOf i) := by
  have hi : i < tg.invT.length := by
    rw [hT.invlen]
    by_cases h : i < s.threads.length
    · exact h
    · rw [List.getElem?_eq_none (Nat.le_of_not_lt h)] at hth; simp at hth
  rw [invOf_self hi]
  refine ⟨by omega, ?_⟩
  intro r hr _
  have := hT.times r hr
  omega

set_option maxHeartbeats 2000000 in
theorem tinv_step {c : Cfg} (g : Ghost c) {s : State} {gh : LGhost} {tg : TGhost}
    (hG : GInv c s gh) (hT : TInv c s gh tg) (i : Nat) :
    TInv c (step c s i).1 (gstep s gh i) (tstep s gh tg i) := by
  have hI := hG.inv
  have hpo : ∀ j, j ≠ i → (gstep s gh i).pend[j]? = gh.pend[j]? := fun j hj => gstep_pend_other s gh hj
  revert hpo
  unfold step gstep tstep
  cases hth : s.threads[i]? with
  | none => intro _; exact tinv_clock hT
  | some th =>
    have hto := hT.ops i th hth
    have hgo := hG.locals i th hth
    have hilt := idx_lt_pend hG hth
    simp only []
    cases hpc : th.pc with
    | idle => intro _; exact tinv_clock hT
    | pushLoadTail v =>
      intro hpo
      have hf := tok_first hT hth gh.pend
      exact tinv_set hT rfl rfl (Or.inr rfl) hpo (Or.inl ⟨rfl, rfl⟩) hf
    | popLoadHead =>
      intro hpo
      have hf := tok_first hT hth gh.pend
      exact tinv_set hT rfl rfl (Or.inr rfl) hpo (Or.inl ⟨rfl, rfl⟩) hf
    | lenLoadTail =>
      intro hpo
      have hf := tok_first hT hth gh.pend
      exact tinv_set hT rfl rfl (Or.inr rfl) hpo (Or.inl ⟨rfl, rfl⟩) hf
    | emptyLoadHead =>
      intro hpo
      have hf := tok_first hT hth gh.pend
      exact tinv_set hT rfl rfl (Or.inr rfl) hpo (Or.inl ⟨rfl, rfl⟩) hf
    | fullLoadTail =>
      intro hpo
      have hf := tok_first hT hth gh.pend
      exact tinv_set hT rfl rfl (Or.inr rfl) hpo (Or.inl ⟨rfl, rfl⟩) hf
    | pushLoadSeq v pos =>
      dsimp only
      obtain ⟨sl, hsl⟩ := slot_exists g hI pos
      rw [hsl]
      dsimp only
      simp only [hpc, TOk] at hto
      intro hpo
      split
      · exact tinv_set hT rfl rfl (Or.inl rfl) hpo (Or.inl ⟨rfl, rfl⟩) (TOk_finish _ _ _ _)
      · exact tinv_set hT rfl rfl (Or.inl rfl) hpo (Or.inl ⟨rfl, rfl⟩)
          ⟨by show tg.invOf i < tg.clock + 1; omega, hto.2⟩
    | popLoadSeq pos =>
      dsimp only
      obtain ⟨sl, hsl⟩ := slot_exists g hI pos
      rw [hsl]
      dsimp only
      simp only [hpc, TOk] at hto
      intro hpo
      split
      · exact tinv_set hT rfl rfl (Or.inl rfl) hpo (Or.inl ⟨rfl, rfl⟩) (TOk_finish _ _ _ _)
      · exact tinv_set hT rfl rfl (Or.inl rfl) hpo (Or.inl ⟨rfl, rfl⟩)
          ⟨by show tg.invOf i < tg.clock + 1; omega, hto.2⟩
    | pushCAS v pos seq =>
      dsimp only
      simp only [hpc, TOk] at hto
      by_cases hc : s.tail = pos
      · simp only [if_pos hc]
        intro hpo
        have ⟨_, hlt⟩ := pushCAS_slot g hI (List.mem_of_getElem? hth) hpc hc
        have hql := hG.qlen
        have hHT := hI.head_le_tail
        refine tinv_set hT rfl rfl (Or.inl rfl) hpo
          (Or.inr ⟨⟨tg.clock, i, tg.invOf i, .push v⟩, rfl, rfl, rfl, by show tg.invOf i ≤ tg.clock; omega, ?_⟩) ?_
        · simp only [bqApply, bqPush]
          rw [if_pos (by omega)]
        · exact ⟨⟨tg.clock, i, tg.invOf i, .push v⟩, by simp, rfl, rfl, rfl, by show tg.invOf i ≤ tg.clock; omega⟩
      · simp only [if_neg hc]
        intro _
        exact tinv_set hT rfl rfl (Or.inl rfl) (fun _ _ => rfl) (Or.inl ⟨rfl, rfl⟩) (TOk_finish _ _ _ _)
    | popCAS pos seq =>
      dsimp only
      simp only [hpc, TOk] at hto
      by_cases hc : s.head = pos
      · simp only [if_pos hc]
        have ⟨_, hlt⟩ := popCAS_slot g hI (List.mem_of_getElem? hth) hpc hc
        have hql := hG.qlen
        cases hq : gh.q with
        | nil => rw [hq] at hql; simp at hql; omega
        | cons x rest =>
          dsimp only
          intro hpo
          refine tinv_set hT rfl rfl (Or.inl rfl) hpo
            (Or.inr ⟨⟨tg.clock, i, tg.invOf i, .pop x⟩, rfl, rfl, rfl, by show tg.invOf i ≤ tg.clock; omega, ?_⟩) ?_
          · simp [bqApply, hq]
          · refine ⟨x, ?_, ⟨tg.clock, i, tg.invOf i, .pop x⟩, by simp, rfl, rfl, rfl, by show tg.invOf i ≤ tg.clock; omega⟩
            simp only [List.head?_cons]
            exact List.getElem?_set_self hilt
      · simp only [if_neg hc]
        intro _
        exact tinv_set hT rfl rfl (Or.inl rfl) (fun _ _ => rfl) (Or.inl ⟨rfl, rfl⟩) (TOk_finish _ _ _ _)
    | pushWrite v pos seq =>
      dsimp only
      obtain ⟨sl, hsl⟩ := slot_exists g hI pos
      rw [hsl]
      dsimp only
      simp only [hpc, TOk] at hto
      simp only [hpc, GOk] at hgo
      intro hpo
      exact tinv_set hT rfl rfl (Or.inl rfl) (fun _ _ => rfl) (Or.inl ⟨rfl, rfl⟩) ⟨v, hgo.2, hto⟩
    | pushStore pos seq =>
      dsimp only
      obtain ⟨sl, hsl⟩ := slot_exists g hI pos
      rw [hsl]
      dsimp only
      intro hpo
      exact tinv_set hT rfl rfl (Or.inl rfl) hpo (Or.inl ⟨rfl, rfl⟩) (TOk_finish _ _ _ _)
    | popRead pos seq =>
      dsimp only
      obtain ⟨sl, hsl⟩ := slot_exists g hI pos
      rw [hsl]
      dsimp only
      simp only [hpc, TOk] at hto
      simp only [hpc, GOk] at hgo
      intro hpo
      obtain ⟨x, hx, hent⟩ := hto
      rw [g.idx_mod] at hsl
      rw [vl_of_slot hsl, hx] at hgo
      have hxe : x = sl.val := by simpa using hgo
      subst hxe
      exact tinv_set hT rfl rfl (Or.inl rfl) (fun _ _ => rfl) (Or.inl ⟨rfl, rfl⟩) hent
    | popClear pos seq v =>
      dsimp only
      obtain ⟨sl, hsl⟩ := slot_exists g hI pos
      rw [hsl]
      dsimp only
      simp only [hpc, TOk] at hto
      intro hpo
      exact tinv_set hT rfl rfl (Or.inl rfl) hpo (Or.inl ⟨rfl, rfl⟩) hto
    | popStore pos seq v =>
      dsimp only
      obtain ⟨sl, hsl⟩ := slot_exists g hI pos
      rw [hsl]
      dsimp only
      intro hpo
      exact tinv_set hT rfl rfl (Or.inl rfl) hpo (Or.inl ⟨rfl, rfl⟩) (TOk_finish _ _ _ _)
    | lenLoadHead t =>
      intro hpo
      exact tinv_set hT rfl rfl (Or.inl rfl) hpo (Or.inl ⟨rfl, rfl⟩) (TOk_finish _ _ _ _)
    | emptyLoadTail t =>
      intro hpo
      exact tinv_set hT rfl rfl (Or.inl rfl) hpo (Or.inl ⟨rfl, rfl⟩) (TOk_finish _ _ _ _)
    | fullLoadHead t =>
      intro hpo
      exact tinv_set hT rfl rfl (Or.inl rfl) hpo (Or.inl ⟨rfl, rfl⟩) (TOk_finish _ _ _ _)

theorem tinv_initAt {c : Cfg} (k : Nat) (progs : List (List Call)) :
    TInv c (initAt c k progs) (ginit progs) (tinit progs) := by
  refine ⟨by simp [tinit, initAt], fun r hr => by simp [tinit] at hr, by simp [tinit],
    by simp [tinit, bqRun, ginit], ?_⟩
  intro i th hth
  simp only [initAt, List.getElem?_map] at hth
  cases hp : progs[i]? with
  | none => rw [hp] at hth; simp at hth
  | some pr =>
    rw [hp] at hth
    simp only [Option.map_some, Option.some.injEq] at hth
    subst hth
    exact TOk_finish _ _ _ _

theorem tinv_trun {c : Cfg} (g : Ghost c) {s : State} {gh : LGhost} {tg : TGhost}
    (hG : GInv c s gh) (hT : TInv c s gh tg) (σ : List Nat) :
    GInv c (trun c s gh tg σ).1 (trun c s gh tg σ).2.1 ∧
    TInv c (trun c s gh tg σ).1 (trun c s gh tg σ).2.1 (trun c s gh tg σ).2.2 := by
  induction σ generalizing s gh tg with
  | nil => exact ⟨hG, hT⟩
  | cons i σ ih =>
    simp only [trun]
    exact ih ((ginv_step g hG i).congr (gfin_q _ _).1 (gfin_q _ _).2.1)
      ((tinv_step g hG hT i).congr_g (gfin_q _ _).1 (gfin_q _ _).2.1)

/-- the log only grows at its end (entries are never changed or removed), and the clock
counts the steps -/
theorem tstep_log (s : State) (gh : LGhost) (tg : TGhost) (i : Nat) :
    ((tstep s gh tg i).log = tg.log ∨ ∃ r, (tstep s gh tg i).log = tg.log ++ [r]) ∧
    (tstep s gh tg i).clock = tg.clock + 1 := by
  unfold tstep
  cases s.threads[i]? with
  | none => exact ⟨Or.inl rfl, rfl⟩
  | some th =>
    simp only []
    cases th.pc <;> dsimp only <;> (repeat' split) <;>
      first | exact ⟨Or.inl rfl, rfl⟩ | exact ⟨Or.inr ⟨_, rfl⟩, rfl⟩

theorem trun_log_prefix (c : Cfg) (s : State) (gh : LGhost) (tg : TGhost) (σ : List Nat) :
    tg.log <+: (trun c s gh tg σ).2.2.log ∧ (trun c s gh tg σ).2.2.clock = tg.clock + σ.length := by
  induction σ generalizing s gh tg with
  | nil => exact ⟨List.prefix_refl _, rfl⟩
  | cons i σ ih =>
    simp only [trun]
    obtain ⟨h1, h2⟩ := ih (step c s i).1 (gfin (step c s i).2 (gstep s gh i)) (tstep s gh tg i)
    obtain ⟨hl, hc⟩ := tstep_log s gh tg i
    refine ⟨?_, by rw [h2, hc, List.length_cons]; omega⟩
    rcases hl with e | ⟨r, e⟩
    · rw [e] at h1; exact h1
    · rw [e] at h1
      exact List.IsPrefix.trans (List.prefix_append _ _) h1

/-- what the log holds for the operation that returns `r` in the next step of thread `i` -/
def RetEntry (gh : LGhost) (tg : TGhost) (i : Nat) : Ret → Prop
  | .push true => ∃ v, gh.pend[i]? = some (some v) ∧ HasEntry tg.log i (tg.invOf i) (.push v)
  | .push false => tg.invOf i < tg.clock ∧ NoEntry tg.log i (tg.invOf i)
  | .pop v true => HasEntry tg.log i (tg.invOf i) (.pop v)
  | .pop _ false => tg.invOf i < tg.clock ∧ NoEntry tg.log i (tg.invOf i)
  | _ => True

set_option maxHeartbeats 1000000 in
theorem ret_entry {c : Cfg} (g : Ghost c) {s : State} {gh : LGhost} {tg : TGhost}
    (hG : GInv c s gh) (hT : TInv c s gh tg) (i : Nat) (r : Ret)
    (hr : (step c s i).2.ret = some r) : RetEntry gh tg i r := by
  have hI := hG.inv
  revert hr
  unfold step
  cases hth : s.threads[i]? with
  | none => simp
  | some th =>
    have hto := hT.ops i th hth
    simp only []
    cases hpc : th.pc with
    | pushLoadSeq v pos =>
      dsimp only
      obtain ⟨sl, hsl⟩ := slot_exists g hI pos
      rw [hsl]
      dsimp only
      simp only [hpc, TOk] at hto
      split
      · intro hr; obtain rfl := Option.some.inj hr; exact hto
      · intro hr; simp at hr
    | pushCAS v pos seq =>
      dsimp only
      simp only [hpc, TOk] at hto
      split
      · intro hr; simp at hr
      · intro hr; obtain rfl := Option.some.inj hr; exact hto
    | pushWrite v pos seq =>
      dsimp only
      obtain ⟨sl, hsl⟩ := slot_exists g hI pos
      rw [hsl]
      dsimp only
      intro hr; simp at hr
    | pushStore pos seq =>
      dsimp only
      obtain ⟨sl, hsl⟩ := slot_exists g hI pos
      rw [hsl]
      dsimp only
      simp only [hpc, TOk] at hto
      intro hr; obtain rfl := Option.some.inj hr; exact hto
    | popLoadSeq pos =>
      dsimp only
      obtain ⟨sl, hsl⟩ := slot_exists g hI pos
      rw [hsl]
      dsimp only
      simp only [hpc, TOk] at hto
      split
      · intro hr; obtain rfl := Option.some.inj hr; exact hto
      · intro hr; simp at hr
    | popCAS pos seq =>
      dsimp only
      simp only [hpc, TOk] at hto
      split
      · intro hr; simp at hr
      · intro hr; obtain rfl := Option.some.inj hr; exact hto
    | popRead pos seq =>
      dsimp only
      obtain ⟨sl, hsl⟩ := slot_exists g hI pos
      rw [hsl]
      dsimp only
      intro hr; simp at hr
    | popClear pos seq v =>
      dsimp only
      obtain ⟨sl, hsl⟩ := slot_exists g hI pos
      rw [hsl]
      dsimp only
      intro hr; simp at hr
    | popStore pos seq v =>
      dsimp only
      obtain ⟨sl, hsl⟩ := slot_exists g hI pos
      rw [hsl]
      dsimp only
      simp only [hpc, TOk] at hto
      intro hr; obtain rfl := Option.some.inj hr; exact hto
    | idle => dsimp only; intro hr; simp at hr
    | pushLoadTail v => dsimp only; intro hr; simp at hr
    | popLoadHead => dsimp only; intro hr; simp at hr
    | lenLoadTail => dsimp only; intro hr; simp at hr
    | emptyLoadHead => dsimp only; intro hr; simp at hr
    | fullLoadTail => dsimp only; intro hr; simp at hr
    | lenLoadHead t => dsimp only; intro hr; obtain rfl := Option.some.inj hr; trivial
    | emptyLoadTail t => dsimp only; intro hr; obtain rfl := Option.some.inj hr; trivial
    | fullLoadHead t => dsimp only; intro hr; obtain rfl := Option.some.inj hr; trivial

end Golib.C01
